import Penman.Main
import Penman.Generated
/-!
  Penman.Proofs.Cli — helper lemmas for property C20 (the `penman` command).
-/
namespace Penman.Cli
open Penman

/-! ### the parser consumes input -/

theorem expectTy_ok {c : PCtx} {ty : TokTy} {toks : List Tok} {t : Tok} {ts : List Tok}
    (h : expectTy c ty toks = .ok (t, ts)) : toks = t :: ts := by
  cases toks with
  | nil => simp [expectTy] at h
  | cons a as =>
    simp only [expectTy] at h
    split at h
    · simp at h; rw [h.1, h.2]
    · simp at h

theorem takeAln_len {c : PCtx} {text : Str} {toks : List Tok} {s : Str} {ts : List Tok}
    (h : takeAln c text toks = .ok (s, ts)) : ts.length ≤ toks.length := by
  cases toks with
  | nil => simp [takeAln] at h
  | cons a as =>
    simp only [takeAln] at h
    split at h
    · simp at h; rw [← h.2]; simp
    · simp at h; rw [← h.2]; simp

theorem parseComments_len {c : PCtx} {sp : Char → Bool} {toks : List Tok} {md md' : AList Str Str} {ts : List Tok}
    (h : parseComments c sp toks md = .ok (md', ts)) : ts.length ≤ toks.length := by
  induction toks generalizing md with
  | nil => simp [parseComments] at h
  | cons a as ih =>
    simp only [parseComments] at h
    split at h
    · have := ih h; simp; omega
    · simp at h; rw [← h.2]; simp


theorem expectTy_len {c : PCtx} {ty : TokTy} {toks : List Tok} {v : Tok × List Tok}
    (h : expectTy c ty toks = .ok v) : toks.length = v.2.length + 1 := by
  obtain ⟨t, ts⟩ := v
  rw [expectTy_ok h]; simp

theorem takeAln_len' {c : PCtx} {text : Str} {toks : List Tok} {v : Str × List Tok}
    (h : takeAln c text toks = .ok v) : v.2.length ≤ toks.length := by
  obtain ⟨t, ts⟩ := v
  exact takeAln_len h

theorem parse_len (c : PCtx) (f : Nat) :
    (∀ toks v, parseNode c f toks = .ok v → v.2.length < toks.length) ∧
    (∀ toks v, parseEdges c f toks = .ok v → v.2.length < toks.length) := by
  induction f with
  | zero => constructor <;> intro toks _ h <;> simp [parseNode, parseEdges] at h
  | succ f ih =>
    obtain ⟨ihN, ihE⟩ := ih
    constructor
    · intro toks v h
      simp only [parseNode, bind, Except.bind, pure, Except.pure, throw, throwThe, MonadExceptOf.throw] at h
      repeat' split at h
      all_goals first | (simp at h; done) | skip
      all_goals
        simp only [Except.ok.injEq] at h
        subst h
        grind [→ expectTy_len, → takeAln_len']
    · intro toks v h
      cases toks with
      | nil => simp [parseEdges] at h
      | cons t ts =>
      simp only [parseEdges, bind, Except.bind, pure, Except.pure, throw, throwThe, MonadExceptOf.throw] at h
      repeat' split at h
      all_goals first | (simp at h; done) | skip
      all_goals
        simp only [Except.ok.injEq] at h
        subst h
        grind [→ expectTy_len, → takeAln_len']
/-- the exceptions the parser can raise -/
def IsParseErr (e : PyErr) : Prop := (∃ l o k, e = .decode l o k) ∨ e = .other "RecursionError"

theorem expectTy_err {c : PCtx} {ty : TokTy} {toks : List Tok} {e : PyErr}
    (h : expectTy c ty toks = .error e) : ∃ l o k, e = .decode l o k := by
  cases toks with
  | nil => simp [expectTy, PCtx.eofErr] at h; exact ⟨_, _, _, h.symm⟩
  | cons a as =>
    simp only [expectTy] at h
    split at h
    · simp at h
    · simp [tokErr] at h; exact ⟨_, _, _, h.symm⟩

theorem takeAln_err {c : PCtx} {text : Str} {toks : List Tok} {e : PyErr}
    (h : takeAln c text toks = .error e) : ∃ l o k, e = .decode l o k := by
  cases toks with
  | nil => simp [takeAln, PCtx.eofErr] at h; exact ⟨_, _, _, h.symm⟩
  | cons a as =>
    simp only [takeAln] at h
    split at h <;> simp at h

theorem parse_err (c : PCtx) (f : Nat) :
    (∀ toks e, parseNode c f toks = .error e → IsParseErr e) ∧
    (∀ toks e, parseEdges c f toks = .error e → IsParseErr e) := by
  induction f with
  | zero => constructor <;> intro toks _ h <;> simp [parseNode, parseEdges] at h <;> exact .inr h.symm
  | succ f ih =>
    obtain ⟨ihN, ihE⟩ := ih
    constructor
    · intro toks e h
      simp only [parseNode, bind, Except.bind, pure, Except.pure, throw, throwThe, MonadExceptOf.throw] at h
      repeat' split at h
      all_goals first | (simp at h; done) | skip
      all_goals
        simp only [Except.error.injEq] at h
        subst h
        first
          | exact .inl ⟨_, _, _, rfl⟩
          | exact .inl (expectTy_err ‹_›)
          | exact .inl (takeAln_err ‹_›)
          | exact ihE _ _ ‹_›
          | exact ihN _ _ ‹_›
    · intro toks e h
      cases toks with
      | nil => simp [parseEdges] at h; exact .inl ⟨_, _, _, h.symm⟩
      | cons t ts =>
      simp only [parseEdges, bind, Except.bind, pure, Except.pure, throw, throwThe, MonadExceptOf.throw] at h
      repeat' split at h
      all_goals first | (simp at h; done) | skip
      all_goals
        simp only [Except.error.injEq] at h
        subst h
        first
          | exact .inl ⟨_, _, _, rfl⟩
          | exact .inl (expectTy_err ‹_›)
          | exact .inl (takeAln_err ‹_›)
          | exact ihE _ _ ‹_›
          | exact ihN _ _ ‹_›

theorem expectTy_ne_rec {c : PCtx} {ty : TokTy} {toks : List Tok} {s : String} :
    expectTy c ty toks ≠ .error (.other s) := by
  intro h; obtain ⟨_, _, _, h⟩ := expectTy_err h; cases h
theorem takeAln_ne_rec {c : PCtx} {text : Str} {toks : List Tok} {s : String} :
    takeAln c text toks ≠ .error (.other s) := by
  intro h; obtain ⟨_, _, _, h⟩ := takeAln_err h; cases h

theorem parse_no_rec (c : PCtx) (f : Nat) :
    (∀ toks, toks.length < f → parseNode c f toks ≠ .error (.other "RecursionError")) ∧
    (∀ toks, toks.length < f → parseEdges c f toks ≠ .error (.other "RecursionError")) := by
  induction f with
  | zero => constructor <;> intro toks h <;> omega
  | succ f ih =>
    obtain ⟨ihN, ihE⟩ := ih
    have lenN := (parse_len c f).1
    have lenE := (parse_len c f).2
    constructor
    · intro toks hl h
      simp only [parseNode, bind, Except.bind, pure, Except.pure, throw, throwThe, MonadExceptOf.throw] at h
      repeat' split at h
      all_goals first | (simp [PCtx.eofErr] at h; done) | skip
      all_goals
        simp only [Except.error.injEq] at h
        subst h
        grind [→ expectTy_len, → takeAln_len', expectTy_ne_rec, takeAln_ne_rec]
    · intro toks hl h
      cases toks with
      | nil => simp [parseEdges, PCtx.eofErr] at h
      | cons t ts =>
      simp only [parseEdges, bind, Except.bind, pure, Except.pure, throw, throwThe, MonadExceptOf.throw] at h
      repeat' split at h
      all_goals first | (simp [PCtx.eofErr, tokErr] at h; done) | skip
      all_goals
        simp only [Except.error.injEq] at h
        subst h
        grind [→ expectTy_len, → takeAln_len', expectTy_ne_rec, takeAln_ne_rec]

/-! ### `parseTree` -/

theorem parseComments_err {c : PCtx} {sp : Char → Bool} {toks : List Tok} {md : AList Str Str} {e : PyErr}
    (h : parseComments c sp toks md = .error e) : e = c.eofErr := by
  induction toks generalizing md with
  | nil => simp [parseComments] at h; exact h.symm
  | cons a as ih =>
    simp only [parseComments] at h
    split at h
    · exact ih h
    · simp at h

/-- a successful `parseTree` consumes at least one token -/
theorem parseTree_len {c : PCtx} {sp : Char → Bool} {toks : List Tok} {t : Tree} {rest : List Tok}
    (h : parseTree c sp toks = .ok (t, rest)) : rest.length < toks.length := by
  simp only [parseTree, bind, Except.bind, pure, Except.pure] at h
  split at h
  · simp at h
  · rename_i v hv
    split at h
    · simp at h
    · rename_i w hw
      simp only [Except.ok.injEq, Prod.mk.injEq] at h
      have h1 := parseComments_len (md' := v.1) (ts := v.2) hv
      have h2 := (parse_len c _).1 _ _ hw
      rw [← h.2]; omega

/-- `parseTree` only ever raises a `DecodeError` (its recursion fuel never runs out) -/
theorem parseTree_err {c : PCtx} {sp : Char → Bool} {toks : List Tok} {e : PyErr}
    (h : parseTree c sp toks = .error e) : ∃ l o k, e = .decode l o k := by
  simp only [parseTree, bind, Except.bind, pure, Except.pure] at h
  split at h
  · rename_i e' he
    simp only [Except.error.injEq] at h
    subst h
    exact ⟨_, _, _, parseComments_err he⟩
  · rename_i v hv
    split at h
    · rename_i e' he
      simp only [Except.error.injEq] at h
      subst h
      rcases (parse_err c _).1 _ _ he with h | h
      · exact h
      · subst h
        exact absurd he ((parse_no_rec c _).1 _ (Nat.lt_succ_self _))
    · simp at h

/-! ### `iterparseLoop` -/

theorem iterparseLoop_acc (c : PCtx) (sp : Char → Bool) (f : Nat) (toks : List Tok) (acc : List Tree) :
    iterparseLoop c sp f toks acc =
      (acc.reverse ++ (iterparseLoop c sp f toks []).1, (iterparseLoop c sp f toks []).2) := by
  induction f generalizing toks acc with
  | zero => simp [iterparseLoop]
  | succ f ih =>
    cases toks with
    | nil => simp [iterparseLoop]
    | cons t ts =>
      simp only [iterparseLoop]
      split
      · split
        · rename_i tree rest _
          rw [ih rest (tree :: acc), ih rest [tree]]; simp
        · simp
      · simp

/-- with more fuel than tokens the result of `iterparseLoop` does not depend on the fuel -/
theorem iterparseLoop_fuel (c : PCtx) (sp : Char → Bool) (f f' : Nat) (toks : List Tok) (acc : List Tree)
    (h : toks.length < f) (h' : toks.length < f') :
    iterparseLoop c sp f toks acc = iterparseLoop c sp f' toks acc := by
  induction f generalizing f' toks acc with
  | zero => omega
  | succ f ih =>
    cases f' with
    | zero => omega
    | succ f' =>
    cases toks with
    | nil => simp [iterparseLoop]
    | cons t ts =>
      simp only [iterparseLoop]
      split
      · split
        · rename_i tree rest hp
          have := parseTree_len hp
          simp only [List.length_cons] at this h h'
          exact ih f' rest _ (by omega) (by omega)
        · rfl
      · rfl

/-- every error reported by `iterparseLoop` with enough fuel is a `DecodeError` of the parser -/
theorem iterparseLoop_err (c : PCtx) (sp : Char → Bool) (f : Nat) (toks : List Tok) (acc : List Tree) (e : PyErr)
    (h : toks.length < f) (he : (iterparseLoop c sp f toks acc).2 = some e) : ∃ l o k, e = .decode l o k := by
  induction f generalizing toks acc with
  | zero => omega
  | succ f ih =>
    cases toks with
    | nil => simp [iterparseLoop] at he
    | cons t ts =>
      simp only [iterparseLoop] at he
      split at he
      · split at he
        · rename_i tree rest hp
          have := parseTree_len hp
          simp only [List.length_cons] at this h
          exact ih rest _ (by omega) he
        · rename_i e' hp
          simp only [Option.some.injEq] at he
          subst he
          exact parseTree_err hp
      · simp at he

/-! ### the documented library pipeline, written independently of `Penman.Main` -/

/-- a stage that runs only when its option is given -/
def optStage {α : Type} (b : Bool) (f : α → Except PyErr α) (x : α) : Except PyErr α :=
  if b then f x else .ok x

/-- parse result ↦ graph: (canonicalise) → interpret → (reify edges) → (dereify edges) →
    (reify attributes) → (indicate branches) -/
def graphOf (u : UTables) (m : Model) (o : Opts) (t : Tree) : Except PyErr Graph :=
  optStage o.canonicalizeRoles (canonicalizeRoles m) t
    >>= interpret u.isAlpha m
    >>= optStage o.reifyEdges (reifyEdges m)
    >>= optStage o.dereifyEdges (dereifyEdges m)
    >>= optStage o.reifyAttributes (fun g => .ok (reifyAttributes g))
    >>= optStage o.indicateBranches (indicateBranches m)

/-- exit status contributed by one graph: `_check` under `--check`, else 0 -/
def status (m : Model) (o : Opts) (g : Graph) : Nat := if o.check then (checkGraph m g).2 else 0

/-- `--check` adds the `error-N` metadata to the graph -/
def annotate (m : Model) (o : Opts) (g : Graph) : Graph := if o.check then (checkGraph m g).1 else g

/-- `--reconfigure KEY`: reconfigure, then re-interpret (only its exception matters); else configure -/
def layoutStage (u : UTables) (m : Model) (o : Opts) (g : Graph) : Except PyErr Tree :=
  match o.reconfigure with
  | some ks => reconfigure m g none (some ks) >>= fun t => (interpret u.isAlpha m t).map fun _ => t
  | none => configure m g none

def rearrangeStage (m : Model) (o : Opts) (t : Tree) : Except PyErr Tree :=
  match o.rearrange with
  | some (ks, af) => .ok (rearrange m (some ks) af t)
  | none => .ok t

/-- `--make-variables FMT` : relabel -/
def relabelStage (u : UTables) (o : Opts) (t : Tree) : Except PyErr Tree :=
  match o.makeVariables with
  | some fmt => (t.node.resetVariables u.isAlpha u.lower fmt).map fun n => { t with node := n }
  | none => .ok t

/-- graph ↦ tree: (reconfigure | configure) → (rearrange) → (relabel) -/
def treeOf (u : UTables) (m : Model) (o : Opts) (g : Graph) : Except PyErr Tree :=
  layoutStage u m o g >>= rearrangeStage m o >>= relabelStage u o

/-- `bool(format_options.get('indent', True))` -/
def indentFlag : Indent → Bool
  | none => false
  | some i => i != 0

/-- everything before `format`: the tree handed to `format`, and the status -/
def preFormat (u : UTables) (m : Model) (o : Opts) (t : Tree) : Except PyErr (Tree × Nat) :=
  graphOf u m o t >>= fun g => (treeOf u m o (annotate m o g)).map fun t' => (t', status m o g)

/-- everything before `format_triples`: the triples handed over, and the status -/
def preTriples (u : UTables) (m : Model) (o : Opts) (t : Tree) : Except PyErr (List Triple × Nat) :=
  (graphOf u m o t).map fun g => ((annotate m o g).triples, status m o g)

/-- graph ↦ text -/
def render (u : UTables) (m : Model) (o : Opts) (g : Graph) : Except PyErr Str :=
  if o.triples then .ok (formatTriples (annotate m o g).triples (indentFlag o.indent))
  else (treeOf u m o (annotate m o g)).map fun t => format t o.indent o.compact

/-- the documented pipeline for one parsed graph: the text that is printed -/
def pipeline (u : UTables) (m : Model) (o : Opts) (t : Tree) : Except PyErr Str :=
  graphOf u m o t >>= render u m o

/-- the pipeline together with the `--check` status of the graph -/
def pipelineFull (u : UTables) (m : Model) (o : Opts) (t : Tree) : Except PyErr (Str × Nat) :=
  graphOf u m o t >>= fun g => (render u m o g).map fun s => (s, status m o g)

theorem pipeline_eq_fst (u : UTables) (m : Model) (o : Opts) (t : Tree) :
    pipeline u m o t = (pipelineFull u m o t).map (·.1) := by
  simp only [pipeline, pipelineFull]
  cases graphOf u m o t with
  | error e => rfl
  | ok g => cases h : render u m o g <;> simp [bind, Except.bind, Except.map, h]

theorem ok_bind {α β : Type} (x : α) (f : α → Except PyErr β) : (Except.ok x >>= f) = f x := rfl
theorem error_bind {α β : Type} (e : PyErr) (f : α → Except PyErr β) : (Except.error e >>= f) = .error e := rfl
theorem pure_eq_ok {α : Type} (x : α) : (pure x : Except PyErr α) = .ok x := rfl

theorem ite_ok {α : Type} (c : Prop) [Decidable c] (a b : α) :
    (if c then (Except.ok a : Except PyErr α) else .ok b) = .ok (if c then a else b) := by
  split <;> rfl
theorem bind_ok {α : Type} (x : Except PyErr α) : (x >>= fun a => Except.ok a) = x := by
  cases x <;> rfl

theorem optStage_true {α : Type} (f : α → Except PyErr α) : optStage true f = f := by
  funext x; simp [optStage]
theorem optStage_false {α : Type} (f : α → Except PyErr α) : optStage false f = Except.ok := by
  funext x; simp [optStage]
theorem bind_ok' {α : Type} (x : Except PyErr α) : (x >>= Except.ok) = x := by
  cases x <;> rfl
theorem map_eq_bind {α β : Type} (f : α → β) (x : Except PyErr α) :
    Except.map f x = x >>= fun a => Except.ok (f a) := by
  cases x <;> rfl

theorem processIn_eq_graphOf (u : UTables) (m : Model) (o : Opts) (t : Tree) :
    processIn u m o t = graphOf u m o t := by
  cases h1 : o.canonicalizeRoles <;> cases h2 : o.reifyEdges <;> cases h3 : o.dereifyEdges <;>
    cases h4 : o.reifyAttributes <;> cases h5 : o.indicateBranches <;>
    simp [processIn, graphOf, optStage, h1, h2, h3, h4, h5, pure_eq_ok, ok_bind, bind_ok, optStage_true, optStage_false]

theorem processOut_eq_treeOf (u : UTables) (m : Model) (o : Opts) (g : Graph) :
    processOut u m o g = treeOf u m o g := by
  cases h1 : o.reconfigure <;> cases h2 : o.rearrange <;> cases h3 : o.makeVariables <;>
    simp [processOut, treeOf, layoutStage, rearrangeStage, relabelStage, h1, h2, h3, ok_bind, pure_eq_ok, bind_ok, map_eq_bind]


theorem processTree_eq_pipelineFull (u : UTables) (m : Model) (o : Opts) (t : Tree) :
    processTree u m o t = pipelineFull u m o t := by
  simp only [processTree, pipelineFull, processIn_eq_graphOf, processOut_eq_treeOf]
  cases graphOf u m o t with
  | error e => rfl
  | ok g =>
    simp only [ok_bind, render, status, annotate, indentFlag]
    cases hc : o.check <;> cases ht : o.triples <;> simp [pure_eq_ok, map_eq_bind, ok_bind] <;> rfl

/-! ### the specification of the command over the list of parsed trees -/

/-- what the command prints for the trees the parser yields, and its exit status:
    graph `i > 0` is preceded by a blank line, each graph's text is followed by a newline;
    the first pipeline exception stops the run (the separator is already written) -/
def renderAll (u : UTables) (m : Model) (o : Opts) : List Tree → Bool → Str → Nat → Str × Except PyErr Nat
  | [], _, out, code => (out, .ok code)
  | t :: ts, first, out, code =>
    let out' := if first then out else out ++ ['\n']
    match pipelineFull u m o t with
    | .error e => (out', .error e)
    | .ok (s, c) => renderAll u m o ts false (out' ++ s ++ ['\n']) (code ||| c)

/-- the parser's exception surfaces after everything before it has been printed -/
def withParserError : Str × Except PyErr Nat → Option PyErr → Str × Except PyErr Nat
  | (out, .ok _), some e => (out, .error e)
  | r, _ => r

theorem renderAll_error_left (u : UTables) (m : Model) (o : Opts) (ts : List Tree) (first : Bool) (out : Str) (code : Nat)
    (pe : Option PyErr) (s : Str) (e : PyErr) (h : renderAll u m o ts first out code = (s, .error e)) :
    withParserError (renderAll u m o ts first out code) pe = (s, .error e) := by
  rw [h]; cases pe <;> rfl

theorem processLoop_eq_renderAll (u : UTables) (m : Model) (o : Opts) (c : PCtx) (f : Nat) (toks : List Tok)
    (first : Bool) (out : Str) (code : Nat) :
    processLoop u m o c f toks first out code =
      withParserError (renderAll u m o (iterparseLoop c u.isSpace f toks []).1 first out code)
        (iterparseLoop c u.isSpace f toks []).2 := by
  induction f generalizing toks first out code with
  | zero => simp [processLoop, iterparseLoop, renderAll, withParserError]
  | succ f ih =>
    cases toks with
    | nil => simp [processLoop, iterparseLoop, renderAll, withParserError]
    | cons t ts =>
      simp only [processLoop, iterparseLoop]
      split
      · cases hp : parseTree c u.isSpace (t :: ts) with
        | error e => simp [renderAll, withParserError]
        | ok v =>
          obtain ⟨tree, rest⟩ := v
          simp only []
          rw [iterparseLoop_acc]
          simp only [List.reverse_cons, List.reverse_nil, List.nil_append, List.singleton_append, renderAll,
            processTree_eq_pipelineFull]
          cases hq : pipelineFull u m o tree with
          | error e => simp only []; cases (iterparseLoop c u.isSpace f rest []).2 <;> rfl
          | ok w =>
            obtain ⟨s, c'⟩ := w
            simp only []
            exact ih rest false _ _
      · simp [renderAll, withParserError]

/-- with more fuel than tokens the result of `processLoop` does not depend on the fuel -/
theorem processLoop_fuel (u : UTables) (m : Model) (o : Opts) (c : PCtx) (f f' : Nat) (toks : List Tok)
    (first : Bool) (out : Str) (code : Nat) (h : toks.length < f) (h' : toks.length < f') :
    processLoop u m o c f toks first out code = processLoop u m o c f' toks first out code := by
  rw [processLoop_eq_renderAll, processLoop_eq_renderAll, iterparseLoop_fuel c u.isSpace f f' toks [] h h']

/-- an exception reported by `renderAll` is the exception of one tree's pipeline -/
theorem renderAll_error_source (u : UTables) (m : Model) (o : Opts) (ts : List Tree) (first : Bool) (out : Str)
    (code : Nat) (s : Str) (e : PyErr) (h : renderAll u m o ts first out code = (s, .error e)) :
    ∃ t ∈ ts, pipeline u m o t = .error e := by
  induction ts generalizing first out code with
  | nil => simp [renderAll] at h
  | cons t ts ih =>
    simp only [renderAll] at h
    cases hq : pipelineFull u m o t with
    | error e' =>
      rw [hq] at h; simp only [Prod.mk.injEq, Except.error.injEq] at h
      exact ⟨t, by simp, by rw [pipeline_eq_fst, hq, ← h.2]; rfl⟩
    | ok w =>
      rw [hq] at h
      obtain ⟨t', ht', he⟩ := ih _ _ _ h
      exact ⟨t', by simp [ht'], he⟩

/-! ### explicit form of `renderAll` -/

/-- the printed form of a list of graph texts: each followed by a newline, a blank line between -/
def joinGraphs (ss : List Str) : Str := joinStr ['\n'] (ss.map (· ++ ['\n']))

theorem joinGraphs_cons (s : Str) (ss : List Str) :
    joinGraphs (s :: ss) = s ++ ['\n'] ++ (if ss.isEmpty then [] else ['\n'] ++ joinGraphs ss) := by
  cases ss with
  | nil => simp [joinGraphs, joinStr]
  | cons a as => simp [joinGraphs, joinStr]

/-- bitwise OR of the statuses -/
def orAll (code : Nat) (cs : List Nat) : Nat := cs.foldl (· ||| ·) code

/-- all pipelines succeed: the output is the blank-line separated concatenation, in order -/
theorem renderAll_ok (u : UTables) (m : Model) (o : Opts) (ts : List Tree) (rs : List (Str × Nat))
    (h : ts.map (pipelineFull u m o) = rs.map .ok) (first : Bool) (out : Str) (code : Nat) :
    renderAll u m o ts first out code =
      (out ++ (if first || ts.isEmpty then [] else ['\n']) ++ joinGraphs (rs.map (·.1)),
       .ok (orAll code (rs.map (·.2)))) := by
  induction ts generalizing rs first out code with
  | nil =>
    cases rs with
    | nil => simp [renderAll, joinGraphs, joinStr, orAll]
    | cons _ _ => simp at h
  | cons t ts ih =>
    cases rs with
    | nil => simp at h
    | cons r rs =>
      obtain ⟨s, c⟩ := r
      simp only [List.map_cons, List.cons.injEq] at h
      simp only [renderAll, h.1, ih rs h.2, List.map_cons, joinGraphs_cons, orAll, List.foldl_cons]
      have : rs.isEmpty = ts.isEmpty := by
        have := congrArg List.length h.2
        simp only [List.length_map] at this
        cases rs <;> cases ts <;> simp_all
      cases first <;> cases hts : ts.isEmpty <;> simp [this, hts]
      all_goals
        have hrs : rs = [] := List.isEmpty_iff.mp (this.trans hts)
        subst hrs
        simp [joinGraphs, joinStr]

/-- the pipeline of the graph after `pre` raises: the texts of `pre`, then (unless it is the
    first graph) the separator that was already written -/
theorem renderAll_error (u : UTables) (m : Model) (o : Opts) (pre : List Tree) (rs : List (Str × Nat))
    (t : Tree) (post : List Tree) (e : PyErr)
    (h : pre.map (pipelineFull u m o) = rs.map .ok) (he : pipelineFull u m o t = .error e)
    (first : Bool) (out : Str) (code : Nat) :
    renderAll u m o (pre ++ t :: post) first out code =
      (out ++ (if first || pre.isEmpty then [] else ['\n']) ++ joinGraphs (rs.map (·.1)) ++
        (if first && pre.isEmpty then [] else ['\n']), .error e) := by
  induction pre generalizing rs first out code with
  | nil =>
    cases rs with
    | nil => cases first <;> simp [renderAll, he, joinGraphs, joinStr]
    | cons _ _ => simp at h
  | cons t' ts ih =>
    cases rs with
    | nil => simp at h
    | cons r rs =>
      obtain ⟨s, c⟩ := r
      simp only [List.map_cons, List.cons.injEq] at h
      simp only [List.cons_append, renderAll, h.1, ih rs h.2, List.map_cons, joinGraphs_cons]
      have : rs.isEmpty = ts.isEmpty := by
        have := congrArg List.length h.2
        simp only [List.length_map] at this
        cases rs <;> cases ts <;> simp_all
      cases first <;> cases hts : ts.isEmpty <;> simp [this, hts]
      all_goals
        have hrs : rs = [] := List.isEmpty_iff.mp (this.trans hts)
        subst hrs
        simp [joinGraphs, joinStr]

/-- `renderAll` only looks at the trees through `pipelineFull` -/
theorem renderAll_congr (u : UTables) (m : Model) (o o' : Opts) (ts ts' : List Tree)
    (h : ts.map (pipelineFull u m o) = ts'.map (pipelineFull u m o'))
    (first : Bool) (out : Str) (code : Nat) :
    renderAll u m o ts first out code = renderAll u m o' ts' first out code := by
  induction ts generalizing ts' first out code with
  | nil =>
    cases ts' with
    | nil => rfl
    | cons _ _ => simp at h
  | cons t ts ih =>
    cases ts' with
    | nil => simp at h
    | cons t' ts' =>
      simp only [List.map_cons, List.cons.injEq] at h
      simp only [renderAll, h.1]
      split
      · rfl
      · exact ih _ h.2 _ _ _

/-! ### `processInput`, `mainRun` -/

/-- the trees (and possibly the exception) `iterparse` yields for one input stream -/
def parseInput (cfg : LexCfg) (u : UTables) (input : Str) : List Tree × Option PyErr :=
  iterparseToks u.isSpace (lexLines cfg cfg.penmanOrder (fileLines input))

/-- one input stream -/
def runInput (u : UTables) (m : Model) (o : Opts) (p : List Tree × Option PyErr) : Str × Except PyErr Nat :=
  withParserError (renderAll u m o p.1 true [] 0) p.2

theorem processInput_eq (cfg : LexCfg) (u : UTables) (m : Model) (o : Opts) (input : Str) :
    processInput cfg u m o input = runInput u m o (parseInput cfg u input) := by
  simp only [processInput, runInput, parseInput, iterparseToks, processLoop_eq_renderAll]

/-- several inputs: outputs concatenated, statuses OR-ed, the first exception stops the run -/
def runAll (u : UTables) (m : Model) (o : Opts) : List (List Tree × Option PyErr) → Str → Nat → Str × Except PyErr Nat
  | [], out, code => (out, .ok code)
  | p :: ps, out, code =>
    match runInput u m o p with
    | (s, .ok c) => runAll u m o ps (out ++ s) (code ||| c)
    | (s, .error e) => (out ++ s, .error e)

theorem mainRun_eq (cfg : LexCfg) (u : UTables) (m : Model) (o : Opts) (inputs : List Str) (out : Str) (code : Nat) :
    mainRun cfg u m o inputs out code = runAll u m o (inputs.map (parseInput cfg u)) out code := by
  induction inputs generalizing out code with
  | nil => rfl
  | cons i is ih =>
    simp only [mainRun, List.map_cons, runAll, processInput_eq]
    split <;> rename_i h <;> simp only [h]
    exact ih _ _

theorem parseInput_err (cfg : LexCfg) (u : UTables) (input : Str) (e : PyErr)
    (h : (parseInput cfg u input).2 = some e) : ∃ l o k, e = .decode l o k :=
  iterparseLoop_err _ _ _ _ _ _ (Nat.lt_succ_self _) h


/-! ### kernel-evaluable copy of the command (for `decide` in the non-vacuity examples)

`buildNode`/`buildBranches` are compiled by well-founded recursion, which the kernel does not
unfold; `buildNodeS` is the same function by structural recursion, and the `…S` functions below
are `Penman.Main` with `configure` replaced by `configureS`. They are proved EQUAL to the model
functions, and are used only to evaluate concrete runs. -/

def branchesWith (recN : Option (Str → Except PyErr Node)) : List Edge → Except PyErr Branches
  | [] => .ok .nil
  | e :: es => do
    let rest ← branchesWith recN es
    match e.tgt with
    | .atom a =>
      let hasTgtEpi := e.epis.any (·.mode = 2)
      let (r, t) := applyEpis e.role (some (atomStr a)) e.epis
      pure (.atom r (if hasTgtEpi then .str (t.getD []) else a) rest)
    | .node w =>
      match recN with
      | none => throw (.other "configure: cyclic store")
      | some rn => do
        let n ← rn w
        let (r, _) := applyEpis e.role none e.epis
        pure (.sub r n rest)

def buildNodeS (cells : AList Str (List Edge)) : Nat → Str → Except PyErr Node
  | 0, _ => .error (.other "configure: cyclic store")
  | 1, v => do
    let bs ← branchesWith none ((AList.get? cells v).getD [])
    pure (.mk (some v) bs)
  | f+2, v => do
    let bs ← branchesWith (some (buildNodeS cells f)) ((AList.get? cells v).getD [])
    pure (.mk (some v) bs)

theorem buildBranches_zero (cells : AList Str (List Edge)) (es : List Edge) :
    buildBranches cells 0 es = branchesWith none es := by
  induction es with
  | nil => simp [buildBranches, branchesWith]
  | cons e es ih =>
    rw [buildBranches, branchesWith, ih]
    cases e.tgt <;> rfl

theorem buildBranches_succ (cells : AList Str (List Edge)) (f : Nat) (es : List Edge) :
    buildBranches cells (f+1) es = branchesWith (some (buildNode cells f)) es := by
  induction es with
  | nil => simp [buildBranches, branchesWith]
  | cons e es ih =>
    rw [buildBranches, branchesWith, ih]
    cases e.tgt <;> rfl

theorem buildNode_eq_S (cells : AList Str (List Edge)) (f : Nat) :
    buildNode cells f = buildNodeS cells f ∧ buildNode cells (f+1) = buildNodeS cells (f+1) := by
  induction f with
  | zero =>
    constructor
    · funext v; simp [buildNode, buildNodeS]
    · funext v; rw [buildNode, buildNodeS, buildBranches_zero]
  | succ f ih =>
    refine ⟨ih.2, ?_⟩
    funext v; rw [buildNode, buildNodeS, buildBranches_succ, ih.1]

def configureS (m : Model) (g : Graph) (top : Option Str) : Except PyErr Tree :=
  if g.triples.isEmpty then .ok { node := .mk g.getTop .nil, metadata := g.metadata }
  else
    let vars := g.variables
    let top := match top with | some t => some t | none => g.getTop
    match top with
    | none => .error (.layout 0)
    | some top =>
      if top ∉ vars then .error (.layout 0)
      else do
        let st0 : St := { cells := [(top, [])], nm := AList.set (vars.map (·, NM.unset)) top NM.own }
        let data ← preconfigure m g.epidata g.triples []
        let (data1, st1, _) := configureNode m (data.length + 1) top data st0 false
        let st2 ← configureLoop m ((data.length + 1) * (data.length + 1) + 1) (stripPops data1) [] st1
        let node ← buildNodeS st2.cells (2 * st2.cells.length + 2) top
        pure { node := node, metadata := g.metadata }

theorem configure_eq_S (m : Model) (g : Graph) (top : Option Str) : configure m g top = configureS m g top := by
  simp only [configure, configureS, (buildNode_eq_S _ _).1]
  rfl

mutual
def decEqNode : (a b : Node) → Decidable (a = b)
  | .mk v bs, .mk v' bs' =>
    if hv : v = v' then
      match decEqBranches bs bs' with
      | isTrue h => isTrue (by rw [hv, h])
      | isFalse h => isFalse (by intro e; cases e; exact h rfl)
    else isFalse (by intro e; cases e; exact hv rfl)
def decEqBranches : (a b : Branches) → Decidable (a = b)
  | .nil, .nil => isTrue rfl
  | .atom r a rest, .atom r' a' rest' =>
    if h1 : r = r' ∧ a = a' then
      match decEqBranches rest rest' with
      | isTrue h => isTrue (by rw [h1.1, h1.2, h])
      | isFalse h => isFalse (by intro e; cases e; exact h rfl)
    else isFalse (by intro e; cases e; exact h1 ⟨rfl, rfl⟩)
  | .sub r n rest, .sub r' n' rest' =>
    if h1 : r = r' then
      match decEqNode n n', decEqBranches rest rest' with
      | isTrue h, isTrue h' => isTrue (by rw [h1, h, h'])
      | isFalse h, _ => isFalse (by intro e; cases e; exact h rfl)
      | _, isFalse h => isFalse (by intro e; cases e; exact h rfl)
    else isFalse (by intro e; cases e; exact h1 rfl)
  | .nil, .atom .. => isFalse (by intro e; cases e)
  | .nil, .sub .. => isFalse (by intro e; cases e)
  | .atom .., .nil => isFalse (by intro e; cases e)
  | .atom .., .sub .. => isFalse (by intro e; cases e)
  | .sub .., .nil => isFalse (by intro e; cases e)
  | .sub .., .atom .. => isFalse (by intro e; cases e)
end
instance : DecidableEq Node := decEqNode
instance : DecidableEq Branches := decEqBranches
instance : DecidableEq Tree := fun a b =>
  if h : a.node = b.node ∧ a.metadata = b.metadata then isTrue (by cases a; cases b; simp_all)
  else isFalse (by intro e; cases e; exact h ⟨rfl, rfl⟩)
instance instDecEqExcept {ε α : Type} [DecidableEq ε] [DecidableEq α] : DecidableEq (Except ε α)
  | .ok a, .ok b => if h : a = b then isTrue (by rw [h]) else isFalse (by intro h'; cases h'; exact h rfl)
  | .error a, .error b => if h : a = b then isTrue (by rw [h]) else isFalse (by intro h'; cases h'; exact h rfl)
  | .ok _, .error _ => isFalse (by intro h; cases h)
  | .error _, .ok _ => isFalse (by intro h; cases h)

/-! #### kernel-evaluable copies of the specification functions -/

def layoutStageS (u : UTables) (m : Model) (o : Opts) (g : Graph) : Except PyErr Tree :=
  match o.reconfigure with
  | some ks =>
    configureS m { g with
        epidata := g.epidata.map fun (t, es) => (t, es.filter (!·.isLayout)),
        triples := g.triples.mergeSort fun a b => kvLe (evalKeys m ks a.role) (evalKeys m ks b.role) } g.getTop
      >>= fun t => (interpret u.isAlpha m t).map fun _ => t
  | none => configureS m g none

def treeOfS (u : UTables) (m : Model) (o : Opts) (g : Graph) : Except PyErr Tree :=
  layoutStageS u m o g >>= rearrangeStage m o >>= relabelStage u o

def renderS (u : UTables) (m : Model) (o : Opts) (g : Graph) : Except PyErr Str :=
  if o.triples then .ok (formatTriples (annotate m o g).triples (indentFlag o.indent))
  else (treeOfS u m o (annotate m o g)).map fun t => format t o.indent o.compact

def pipelineFullS (u : UTables) (m : Model) (o : Opts) (t : Tree) : Except PyErr (Str × Nat) :=
  graphOf u m o t >>= fun g => (renderS u m o g).map fun s => (s, status m o g)

def renderAllS (u : UTables) (m : Model) (o : Opts) : List Tree → Bool → Str → Nat → Str × Except PyErr Nat
  | [], _, out, code => (out, .ok code)
  | t :: ts, first, out, code =>
    let out' := if first then out else out ++ ['\n']
    match pipelineFullS u m o t with
    | .error e => (out', .error e)
    | .ok (s, c) => renderAllS u m o ts false (out' ++ s ++ ['\n']) (code ||| c)

def runInputS (u : UTables) (m : Model) (o : Opts) (p : List Tree × Option PyErr) : Str × Except PyErr Nat :=
  withParserError (renderAllS u m o p.1 true [] 0) p.2

def runAllS (u : UTables) (m : Model) (o : Opts) : List (List Tree × Option PyErr) → Str → Nat → Str × Except PyErr Nat
  | [], out, code => (out, .ok code)
  | p :: ps, out, code =>
    match runInputS u m o p with
    | (s, .ok c) => runAllS u m o ps (out ++ s) (code ||| c)
    | (s, .error e) => (out ++ s, .error e)

theorem layoutStage_eq_S (u : UTables) (m : Model) (o : Opts) (g : Graph) :
    layoutStage u m o g = layoutStageS u m o g := by
  simp only [layoutStage, layoutStageS, reconfigure, configure_eq_S]
  all_goals (cases o.reconfigure <;> rfl)

theorem pipelineFull_eq_S (u : UTables) (m : Model) (o : Opts) (t : Tree) :
    pipelineFull u m o t = pipelineFullS u m o t := by
  simp only [pipelineFull, pipelineFullS, render, renderS, treeOf, treeOfS, layoutStage_eq_S]

theorem pipelineFull_funext_S (u : UTables) (m : Model) (o : Opts) :
    pipelineFull u m o = pipelineFullS u m o := funext (pipelineFull_eq_S u m o)

theorem renderAll_eq_S (u : UTables) (m : Model) (o : Opts) (ts : List Tree) (first : Bool) (out : Str) (code : Nat) :
    renderAll u m o ts first out code = renderAllS u m o ts first out code := by
  induction ts generalizing first out code with
  | nil => rfl
  | cons t ts ih =>
    simp only [renderAll, renderAllS, pipelineFull_eq_S]
    cases hq : pipelineFullS u m o t with
    | error e => rfl
    | ok w => exact ih _ _ _

theorem processInput_eq_S (cfg : LexCfg) (u : UTables) (m : Model) (o : Opts) (input : Str) :
    processInput cfg u m o input = runInputS u m o (parseInput cfg u input) := by
  simp only [processInput_eq, runInput, runInputS, renderAll_eq_S]

theorem runAll_eq_S (u : UTables) (m : Model) (o : Opts) (ps : List (List Tree × Option PyErr)) (out : Str) (code : Nat) :
    runAll u m o ps out code = runAllS u m o ps out code := by
  induction ps generalizing out code with
  | nil => rfl
  | cons p ps ih =>
    simp only [runAll, runAllS, runInput, runInputS, renderAll_eq_S]
    rcases hq : withParserError (renderAllS u m o p.1 true [] 0) p.2 with ⟨s, r⟩
    cases r with
    | error e => rfl
    | ok c => exact ih _ _

theorem mainRun_eq_S (cfg : LexCfg) (u : UTables) (m : Model) (o : Opts) (inputs : List Str) (out : Str) (code : Nat) :
    mainRun cfg u m o inputs out code = runAllS u m o (inputs.map (parseInput cfg u)) out code := by
  rw [mainRun_eq, runAll_eq_S]

theorem processTree_eq_S (u : UTables) (m : Model) (o : Opts) (t : Tree) :
    processTree u m o t = pipelineFullS u m o t := by
  rw [processTree_eq_pipelineFull, pipelineFull_eq_S]

theorem pipeline_eq_S (u : UTables) (m : Model) (o : Opts) (t : Tree) :
    pipeline u m o t = (pipelineFullS u m o t).map (·.1) := by
  rw [pipeline_eq_fst, pipelineFull_eq_S]

/-! ### formatting options -/

/-- `o'` differs from `o` at most in `--indent` / `--compact` -/
def SameContentOpts (o o' : Opts) : Prop :=
  o.check = o'.check ∧ o.triples = o'.triples ∧ o.makeVariables = o'.makeVariables ∧
  o.rearrange = o'.rearrange ∧ o.reconfigure = o'.reconfigure ∧
  o.canonicalizeRoles = o'.canonicalizeRoles ∧ o.reifyEdges = o'.reifyEdges ∧
  o.dereifyEdges = o'.dereifyEdges ∧ o.reifyAttributes = o'.reifyAttributes ∧
  o.indicateBranches = o'.indicateBranches

instance (o o' : Opts) : Decidable (SameContentOpts o o') := by unfold SameContentOpts; infer_instance

theorem SameContentOpts.eq {o o' : Opts} (h : SameContentOpts o o') :
    o' = { o with indent := o'.indent, compact := o'.compact } := by
  obtain ⟨h1, h2, h3, h4, h5, h6, h7, h8, h9, h10⟩ := h
  cases o; cases o'; simp_all

theorem graphOf_fmt (u : UTables) (m : Model) (o : Opts) (i : Indent) (k : Bool) (t : Tree) :
    graphOf u m { o with indent := i, compact := k } t = graphOf u m o t := rfl

theorem preFormat_fmt (u : UTables) (m : Model) (o : Opts) (i : Indent) (k : Bool) (t : Tree) :
    preFormat u m { o with indent := i, compact := k } t = preFormat u m o t := rfl

theorem preTriples_fmt (u : UTables) (m : Model) (o : Opts) (i : Indent) (k : Bool) (t : Tree) :
    preTriples u m { o with indent := i, compact := k } t = preTriples u m o t := rfl

theorem preFormat_same (u : UTables) (m : Model) {o o' : Opts} (h : SameContentOpts o o') (t : Tree) :
    preFormat u m o' t = preFormat u m o t := by
  rw [h.eq]; rfl

theorem preTriples_same (u : UTables) (m : Model) {o o' : Opts} (h : SameContentOpts o o') (t : Tree) :
    preTriples u m o' t = preTriples u m o t := by
  rw [h.eq]; rfl

theorem processTree_eq_preFormat (u : UTables) (m : Model) (o : Opts) (t : Tree) (ht : o.triples = false) :
    processTree u m o t = (preFormat u m o t).map fun p => (format p.1 o.indent o.compact, p.2) := by
  rw [processTree_eq_pipelineFull]
  simp only [pipelineFull, preFormat, render, ht]
  cases graphOf u m o t with
  | error e => rfl
  | ok g =>
    simp only [ok_bind]
    cases treeOf u m o (annotate m o g) <;> rfl

theorem processTree_eq_preTriples (u : UTables) (m : Model) (o : Opts) (t : Tree) (ht : o.triples = true) :
    processTree u m o t =
      (preTriples u m o t).map fun p => (formatTriples p.1 (indentFlag o.indent), p.2) := by
  rw [processTree_eq_pipelineFull]
  simp only [pipelineFull, preTriples, render, ht]
  cases graphOf u m o t <;> rfl

/-- the per-graph status (and whether/which exception is raised) -/
def outcome (u : UTables) (m : Model) (o : Opts) (t : Tree) : Except PyErr Nat :=
  (pipelineFull u m o t).map (·.2)

theorem outcome_same (u : UTables) (m : Model) {o o' : Opts} (h : SameContentOpts o o') (t : Tree) :
    outcome u m o' t = outcome u m o t := by
  have ht : o.triples = o'.triples := h.2.1
  simp only [outcome, ← processTree_eq_pipelineFull]
  cases hb : o.triples with
  | false =>
    rw [processTree_eq_preFormat u m o t hb, processTree_eq_preFormat u m o' t (ht ▸ hb), preFormat_same u m h]
    cases preFormat u m o t <;> rfl
  | true =>
    rw [processTree_eq_preTriples u m o t hb, processTree_eq_preTriples u m o' t (ht ▸ hb), preTriples_same u m h]
    cases preTriples u m o t <;> rfl

/-- the exit status / exception of `renderAll` is determined by the outcomes of the trees -/
theorem renderAll_snd_congr (u : UTables) (m : Model) (o o' : Opts) (ts : List Tree)
    (h : ∀ t ∈ ts, outcome u m o' t = outcome u m o t) (first first' : Bool) (out out' : Str) (code : Nat) :
    (renderAll u m o' ts first' out' code).2 = (renderAll u m o ts first out code).2 := by
  induction ts generalizing first first' out out' code with
  | nil => rfl
  | cons t ts ih =>
    have h1 := h t (by simp)
    simp only [outcome] at h1
    simp only [renderAll]
    cases hq : pipelineFull u m o t with
    | error e =>
      cases hq' : pipelineFull u m o' t with
      | error e' => rw [hq, hq'] at h1; simpa [Except.map] using h1
      | ok w => rw [hq, hq'] at h1; simp [Except.map] at h1
    | ok w =>
      cases hq' : pipelineFull u m o' t with
      | error e' => rw [hq, hq'] at h1; simp [Except.map] at h1
      | ok w' =>
        rw [hq, hq'] at h1
        simp only [Except.map, Except.ok.injEq] at h1
        simp only [h1]
        exact ih (fun t ht => h t (by simp [ht])) _ _ _ _ _

/-! ### no normalisation options -/

/-- no normalisation option, no `--check`, no `--triples` -/
def PlainOpts (o : Opts) : Prop :=
  o.check = false ∧ o.triples = false ∧ o.makeVariables = none ∧ o.rearrange = none ∧ o.reconfigure = none ∧
  o.canonicalizeRoles = false ∧ o.reifyEdges = false ∧ o.dereifyEdges = false ∧ o.reifyAttributes = false ∧
  o.indicateBranches = false

instance (o : Opts) : Decidable (PlainOpts o) := by unfold PlainOpts; infer_instance

/-- with no normalisation options the command prints `format (configure (interpret tree))`,
    i.e. `encode(decode(·))` graph by graph -/
theorem preFormat_plain (u : UTables) (m : Model) (o : Opts) (h : PlainOpts o) (t : Tree) :
    preFormat u m o t = (interpret u.isAlpha m t >>= fun g => configure m g none).map fun t' => (t', 0) := by
  obtain ⟨h1, h2, h3, h4, h5, h6, h7, h8, h9, h10⟩ := h
  have hr : rearrangeStage m o = Except.ok := by funext t; simp [rearrangeStage, h4]
  have hl : relabelStage u o = Except.ok := by funext t; simp [relabelStage, h3]
  simp only [preFormat, graphOf, treeOf, layoutStage, annotate, status, hr, hl,
    h1, h5, h6, h7, h8, h9, h10, optStage_false, ok_bind, bind_ok', Bool.false_eq_true, if_false]
  cases interpret u.isAlpha m t with
  | error e => rfl
  | ok g => rfl

/-! ### feeding the output back -/

theorem withParserError_ok {r : Str × Except PyErr Nat} {pe : Option PyErr} {s : Str} {c : Nat}
    (h : withParserError r pe = (s, .ok c)) : r = (s, .ok c) ∧ pe = none := by
  obtain ⟨out, res⟩ := r
  cases res <;> cases pe <;> simp_all [withParserError]


theorem renderAll_ok_inv (u : UTables) (m : Model) (o : Opts) (ts : List Tree) (first : Bool) (out : Str) (code : Nat)
    (s : Str) (c : Nat) (h : renderAll u m o ts first out code = (s, .ok c)) :
    ∃ rs : List (Str × Nat), ts.map (pipelineFull u m o) = rs.map .ok := by
  induction ts generalizing first out code with
  | nil => exact ⟨[], rfl⟩
  | cons t ts ih =>
    simp only [renderAll] at h
    cases hq : pipelineFull u m o t with
    | error e => rw [hq] at h; simp at h
    | ok w =>
      rw [hq] at h
      obtain ⟨rs, hrs⟩ := ih _ _ _ h
      exact ⟨w :: rs, by simp [hq, hrs]⟩

/-- a successful run, read backwards -/
theorem processInput_ok_inv (cfg : LexCfg) (u : UTables) (m : Model) (o : Opts) (input s : Str) (c : Nat)
    (h : processInput cfg u m o input = (s, .ok c)) :
    ∃ rs : List (Str × Nat), (parseInput cfg u input).2 = none ∧
      (parseInput cfg u input).1.map (pipelineFull u m o) = rs.map .ok ∧
      s = joinGraphs (rs.map (·.1)) ∧ c = orAll 0 (rs.map (·.2)) := by
  rw [processInput_eq, runInput] at h
  obtain ⟨h1, h2⟩ := withParserError_ok h
  obtain ⟨rs, hrs⟩ := renderAll_ok_inv _ _ _ _ _ _ _ _ _ h1
  rw [renderAll_ok u m o _ rs hrs] at h1
  simp only [Bool.true_or, if_true, List.nil_append, Prod.mk.injEq, Except.ok.injEq] at h1
  exact ⟨rs, h2, hrs, h1.1.symm, h1.2.symm⟩

/-- with plain options each result is `format (configure (interpret tree))` with status 0 -/
theorem plain_results (u : UTables) (m : Model) (o : Opts) (hp : PlainOpts o) (ts : List Tree) (rs : List (Str × Nat))
    (h : ts.map (pipelineFull u m o) = rs.map .ok) :
    ∃ ts' : List Tree, ts.map (fun t => interpret u.isAlpha m t >>= fun g => configure m g none) = ts'.map .ok ∧
      rs = ts'.map fun t' => (format t' o.indent o.compact, 0) := by
  induction ts generalizing rs with
  | nil =>
    cases rs with
    | nil => exact ⟨[], rfl, rfl⟩
    | cons _ _ => simp at h
  | cons t ts ih =>
    cases rs with
    | nil => simp at h
    | cons r rs =>
      simp only [List.map_cons, List.cons.injEq] at h
      obtain ⟨ts', h1, h2⟩ := ih rs h.2
      have hq := h.1
      rw [← processTree_eq_pipelineFull, processTree_eq_preFormat u m o t hp.2.1, preFormat_plain u m o hp] at hq
      cases hc : (interpret u.isAlpha m t >>= fun g => configure m g none) with
      | error e => rw [hc] at hq; simp [Except.map] at hq
      | ok t' =>
        rw [hc] at hq
        simp only [Except.map, Except.ok.injEq] at hq
        exact ⟨t' :: ts', by simp [hc, h1], by simp [← hq, h2]⟩

end Penman.Cli

/-
  Penman.Graph — `penman.graph.Graph`, epigraphical markers, queries and
  the set operators. Mirrors penman/graph.py (and the marker classes of
  penman/layout.py, penman/surface.py).
-/
import Penman.Model
namespace Penman

/-- Epigraphical markers: `Push(v)`, `POP`, `RoleAlignment`, `Alignment`.
    Alignment indices are the `int`s Python parsed (so `~01` is `[1]`). -/
inductive Epi where
  | push (v : Str)
  | pop
  | roleAln (pre : Option Str) (idx : List Nat)
  | aln (pre : Option Str) (idx : List Nat)
deriving DecidableEq, Repr, Inhabited

def Epi.isPush : Epi → Bool | .push _ => true | _ => false
def Epi.isPop : Epi → Bool | .pop => true | _ => false
def Epi.isLayout : Epi → Bool | .push _ => true | .pop => true | _ => false
/-- `Epidatum.mode` -/
def Epi.mode : Epi → Nat | .roleAln _ _ => 1 | .aln _ _ => 2 | _ => 0

abbrev Epidata := AList Triple (List Epi)

structure Graph where
  triples : List Triple := []
  /-- the explicit `_top` -/
  top : Option Str := none
  epidata : Epidata := []
  metadata : AList Str Str := []
deriving Repr, Inhabited

/-- `_ensure_colon` -/
def ensureColon (r : Str) : Str := if startsWith [':'] r then r else ':' :: r

/-- `Graph.__init__` : roles get their colon, epidata/metadata are copied as dicts -/
def Graph.mk' (triples : List Triple) (top : Option Str) (epidata : List (Triple × List Epi))
    (metadata : List (Str × Str)) : Graph :=
  { triples := triples.map (fun t => { t with role := ensureColon t.role }),
    top := top, epidata := AList.ofList epidata, metadata := AList.ofList metadata }

/-- the `top` property (implicit top = source of the first triple) -/
def Graph.getTop (g : Graph) : Option Str :=
  match g.top with
  | some t => some t
  | none => match g.triples with
    | [] => none
    | t :: _ => some t.src

/-- `Graph.variables()` as a duplicate-free list: sources in order of first
    occurrence, then the explicit top if new. (Python returns a set; every
    consumer in penman either tests membership or is order-insensitive — see
    the C17 theorems — except where an explicit order parameter is taken.) -/
def Graph.variables (g : Graph) : List Str :=
  let vs := dedup (g.triples.map (·.src))
  match g.top with
  | some t => if t ∈ vs then vs else vs ++ [t]
  | none => vs

def Graph.isVar (g : Graph) (a : Atom) : Bool :=
  match a with
  | .str s => s ∈ g.variables
  | _ => false

/-- the `top` setter: refuses a non-variable -/
def Graph.setTop (g : Graph) (top : Option Str) : Except PyErr Graph :=
  match top with
  | none => .ok { g with top := none }
  | some t => if t ∈ g.variables then .ok { g with top := some t } else .error .graph

/-- `_filter_triples` -/
def Graph.filterTriples (g : Graph) (src : Option Str) (role : Option Str) (tgt : Option Atom) : List Triple :=
  g.triples.filter fun t =>
    (src.all (· = t.src)) && (role.all (· = t.role)) && (tgt.all (· = t.tgt))

def Graph.instances (g : Graph) : List Triple :=
  g.filterTriples none (some CONCEPT_ROLE) none

def Graph.edges (g : Graph) (src : Option Str := none) (role : Option Str := none) (tgt : Option Atom := none) : List Triple :=
  (g.filterTriples src role tgt).filter fun t => t.role ≠ CONCEPT_ROLE && g.isVar t.tgt

def Graph.attributes (g : Graph) (src : Option Str := none) (role : Option Str := none) (tgt : Option Atom := none) : List Triple :=
  (g.filterTriples src role tgt).filter fun t => t.role ≠ CONCEPT_ROLE && !g.isVar t.tgt

/-- count occurrences in a list of strings -/
def countStr (v : Str) (l : List Str) : Nat := (l.filter (· = v)).length

/-- `Graph.reentrancies()` as an association list in Python's dict insertion
    order (top first, then edge targets by first occurrence). -/
def Graph.reentrancies (g : Graph) : AList Str Nat :=
  let ents : List Str := (match g.getTop with | some t => [t] | none => []) ++
    (g.edges.filterMap (tgtStr? ·.tgt))
  (dedup ents).filterMap fun v =>
    let c := countStr v ents
    if c ≥ 2 then some (v, c - 1) else none

/-- `Graph.__ior__` (after fix F17: markers are inserted in `other.triples` order) -/
def Graph.ior (g h : Graph) : Graph :=
  let new := h.triples.filter (· ∉ g.triples)
  -- `self.triples.extend(t for t in other.triples if t in new)` keeps duplicates of `other`
  let ep1 := new.foldl (fun d t => match AList.get? h.epidata t with
                                     | some e => d.set t e
                                     | none => d) g.epidata
  { g with triples := g.triples ++ new, epidata := AList.update ep1 h.epidata }

/-- `Graph.__or__` -/
def Graph.or (g h : Graph) : Graph := Graph.ior { g with metadata := [] } h

/-- `Graph.__isub__` -/
def Graph.isub (g h : Graph) : Graph :=
  let triples := g.triples.filter (· ∉ h.triples)
  let epidata := g.epidata.filter (fun p => p.1 ∉ h.triples)
  let possible : List Atom := triples.flatMap (fun t => [Atom.str t.src, t.tgt])
  let top := match g.top with
    | some t => if Atom.str t ∈ possible then some t else none
    | none => none
  { g with triples := triples, epidata := epidata, top := top }

/-- `Graph.__sub__` -/
def Graph.sub (g h : Graph) : Graph := Graph.isub { g with metadata := [] } h

/-- `Graph.__eq__` -/
def Graph.eqv (g h : Graph) : Bool :=
  g.getTop = h.getTop && g.triples.length = h.triples.length &&
  g.triples.all (· ∈ h.triples) && h.triples.all (· ∈ g.triples)

end Penman

#!/venv/bin/python
"""AST fingerprints of every function of /repo/penman (formatting and comments do not count).

`tools/fingerprint.py --write` records them in tools/fingerprints.json (committed, from the pinned
tree with its fix: commits); `changed()` lists the functions whose body differs now. ./check uses
the list only to spend MORE effort (larger correspondence counts) when anchored code was edited -
a changed fingerprint is never an alarm by itself."""
import ast
import hashlib
import json
import os
import sys

HERE = os.path.dirname(os.path.abspath(__file__))
REPO = os.environ.get('PENMAN_REPO', '/repo')
STORE = os.path.join(HERE, 'fingerprints.json')


def fingerprints(repo=REPO):
    out = {}
    pkg = os.path.join(repo, 'penman')
    for root, _, files in os.walk(pkg):
        for f in sorted(files):
            if not f.endswith('.py'):
                continue
            path = os.path.join(root, f)
            rel = os.path.relpath(path, repo)
            try:
                tree = ast.parse(open(path, encoding='utf-8').read())
            except SyntaxError:
                out[rel + ':<module>'] = 'syntax-error'
                continue

            def visit(node, prefix):
                for ch in ast.iter_child_nodes(node):
                    if isinstance(ch, (ast.FunctionDef, ast.AsyncFunctionDef, ast.ClassDef)):
                        name = prefix + ch.name
                        if not isinstance(ch, ast.ClassDef):
                            body = [b for b in ch.body if not (isinstance(b, ast.Expr) and isinstance(b.value, ast.Constant)
                                                               and isinstance(b.value.value, str))]
                            dump = ast.dump(ast.Module(body=body, type_ignores=[]), annotate_fields=False) + ast.dump(ch.args)
                            out[f'{rel}:{name}'] = hashlib.sha1(dump.encode()).hexdigest()[:16]
                        visit(ch, name + '.')
            visit(tree, '')
            # module-level statements other than defs/imports/docstrings (tables, constants)
            top = [n for n in tree.body if not isinstance(n, (ast.FunctionDef, ast.ClassDef, ast.Import, ast.ImportFrom))
                   and not (isinstance(n, ast.Expr) and isinstance(n.value, ast.Constant))]
            out[rel + ':<module>'] = hashlib.sha1(ast.dump(ast.Module(body=top, type_ignores=[]),
                                                           annotate_fields=False).encode()).hexdigest()[:16]
    return out


def changed(repo=REPO):
    if not os.path.exists(STORE):
        return []
    old = json.load(open(STORE))
    new = fingerprints(repo)
    return sorted(k for k in set(old) | set(new) if old.get(k) != new.get(k))


if __name__ == '__main__':
    if '--write' in sys.argv:
        json.dump(fingerprints(), open(STORE, 'w'), indent=0, sort_keys=True)
        print('written', STORE)
    else:
        print(json.dumps(changed(), indent=1))

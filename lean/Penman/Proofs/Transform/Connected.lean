/-
  Penman.Proofs.Transform.Connected — undirected connectivity (all sources
  reachable from the top through relations between sources, the relation
  `Model.errors`/`_dfs` explores) is preserved by the transformations.
-/
import Penman.Proofs.Transform.Preserve
namespace Penman

theorem Adj.symm {g : Graph} {a b : Str} (h : Adj g a b) : Adj g b a := by
  obtain ⟨t, ht, hr, h⟩ := h
  exact ⟨t, ht, hr, h.symm⟩

theorem Reach.trans {g : Graph} {a b c : Str} (h1 : Reach g a b) (h2 : Reach g b c) : Reach g a c := by
  induction h2 with
  | refl => exact h1
  | step _ hadj hsrc ih => exact Reach.step ih hadj hsrc

theorem Reach.isSrc {g : Graph} {a b : Str} (h : Reach g a b) (ha : IsSrc g a) : IsSrc g b := by
  cases h with
  | refl => exact ha
  | step _ _ hs => exact hs

theorem Reach.single {g : Graph} {a b : Str} (h : Adj g a b) (hb : IsSrc g b) : Reach g a b :=
  Reach.step Reach.refl h hb

/-- a transformation that keeps the top and the sources, turns every link
    into a path, and attaches every new source to an old one, preserves
    connectivity -/
theorem connected_transfer {g g' : Graph} (htop : g'.getTop = g.getTop)
    (hsrc : ∀ a, IsSrc g a → IsSrc g' a)
    (hadj : ∀ b c, IsSrc g b → IsSrc g c → Adj g b c → Reach g' b c)
    (hnew : ∀ t' ∈ g'.triples, IsSrc g t'.src ∨ ∃ b, IsSrc g b ∧ Reach g' b t'.src)
    (hc : Connected g) : Connected g' := by
  obtain ⟨top, hgt, htsrc, hall⟩ := hc
  have hmap : ∀ x, Reach g top x → Reach g' top x := by
    intro x hx
    induction hx with
    | refl => exact Reach.refl
    | step hb hadj' hcs ih => exact ih.trans (hadj _ _ (hb.isSrc htsrc) hcs hadj')
  have hold : ∀ x, IsSrc g x → Reach g' top x := by
    rintro x ⟨t, ht, rfl⟩
    exact hmap _ (hall t ht)
  refine ⟨top, htop.trans hgt, hsrc top htsrc, ?_⟩
  intro t' ht'
  rcases hnew t' ht' with h | ⟨b, hb, hr⟩
  · exact hold _ h
  · exact (hold b hb).trans hr

/-! ### `reifyEdges` -/

theorem reifyEdges_connected {m : Model} {g : Graph} {rev : List Ev} {st : RState}
    (hm : ReifWf m) (hg : RolesColon g) (hrun : Run m g rev st)
    (ho : rev.reverse.map Ev.orig = g.triples) (hi : HasInst g) (hc : Connected g) :
    Connected (reifyResult g st) := by
  have ht := reifyResult_triples hm hg hrun
  have hok := evOk_rev hrun
  have hi1 := reifyEdges_hasInst hm hg hrun ho hi
  have memOut : ∀ e ∈ rev.reverse, ∀ t1 ∈ e.out, t1 ∈ (reifyResult g st).triples := by
    intro e he t1 h1; rw [ht]; exact List.mem_flatMap.mpr ⟨e, he, h1⟩
  have hsrc : ∀ a, IsSrc g a → IsSrc (reifyResult g st) a := by
    rintro a ⟨t, htg, rfl⟩
    obtain ⟨t', ht', hs, hcpt⟩ := hi t htg
    -- the instance triple of `a` is kept
    rw [← ho, List.mem_map] at ht'
    obtain ⟨e, he, heo⟩ := ht'
    cases e with
    | keep t'' =>
      simp only [Ev.orig] at heo; subst heo
      exact ⟨t'', memOut _ he _ (by simp [Ev.out]), hs⟩
    | reif t'' rf v inv =>
      simp only [Ev.orig] at heo; subst heo
      have := (evOk_reif (hok _ he)).2.2.2
      rw [hcpt, hm.2] at this; simp at this
  apply connected_transfer (reifyResult_getTop hrun ho) hsrc _ _ hc
  · -- links become paths
    intro b c hb hcs ⟨t, htg, hr, hbc⟩
    rw [← ho, List.mem_map] at htg
    obtain ⟨e, he, heo⟩ := htg
    cases e with
    | keep t' =>
      simp only [Ev.orig] at heo; subst heo
      exact Reach.single ⟨t', memOut _ he _ (by simp [Ev.out]), hr, hbc⟩ (hsrc c hcs)
    | reif t' rf v inv =>
      simp only [Ev.orig] at heo; subst heo
      have hrf := hm.1 rf (evOk_reif (hok _ he)).2.1
      have hin : inTriple t' rf v ∈ (reifyResult g st).triples :=
        memOut _ he _ (by cases inv <;> simp [Ev.out, firstTriple, lastTriple])
      have hout : outTriple t' rf v ∈ (reifyResult g st).triples :=
        memOut _ he _ (by cases inv <;> simp [Ev.out, firstTriple, lastTriple])
      have hv : IsSrc (reifyResult g st) v := ⟨_, hin, rfl⟩
      rcases hbc with ⟨h1, h2⟩ | ⟨h1, h2⟩
      · -- t' = (b, r, c)
        have a1 : Adj (reifyResult g st) b v :=
          ⟨_, hin, hrf.2.2.1, Or.inr ⟨rfl, by simp [inTriple, h1]⟩⟩
        have a2 : Adj (reifyResult g st) v c :=
          ⟨_, hout, hrf.2.2.2.1, Or.inl ⟨rfl, by simp [outTriple, h2]⟩⟩
        exact (Reach.single a1 hv).trans (Reach.single a2 (hsrc c hcs))
      · -- t' = (c, r, b)
        have a1 : Adj (reifyResult g st) b v :=
          ⟨_, hout, hrf.2.2.2.1, Or.inr ⟨rfl, by simp [outTriple, h2]⟩⟩
        have a2 : Adj (reifyResult g st) v c :=
          ⟨_, hin, hrf.2.2.1, Or.inl ⟨rfl, by simp [inTriple, h1]⟩⟩
        exact (Reach.single a1 hv).trans (Reach.single a2 (hsrc c hcs))
  · -- new sources hang off the source of their reified relation
    intro t1 h1
    rw [ht, List.mem_flatMap] at h1
    obtain ⟨e, he, h1⟩ := h1
    cases e with
    | keep t =>
      simp only [Ev.out, List.mem_singleton] at h1
      subst h1; left; exact ⟨t1, (hok _ he).1, rfl⟩
    | reif t rf v inv =>
      right
      have hrf := hm.1 rf (evOk_reif (hok _ he)).2.1
      have hin : inTriple t rf v ∈ (reifyResult g st).triples :=
        memOut _ he _ (by cases inv <;> simp [Ev.out, firstTriple, lastTriple])
      have hsv : t1.src = v := by
        simp only [Ev.out, List.mem_cons, List.not_mem_nil, or_false] at h1
        rcases h1 with rfl | rfl | rfl <;> simp
      refine ⟨t.src, ⟨t, (hok _ he).1, rfl⟩, ?_⟩
      rw [hsv]
      exact Reach.single ⟨_, hin, hrf.2.2.1, Or.inr ⟨rfl, rfl⟩⟩ ⟨_, hin, rfl⟩

/-! ### `reifyAttributes` -/

theorem reifyAttributes_connected (g : Graph) (hg : RolesColon g) (hc : Connected g) :
    Connected (reifyAttributes g) := by
  obtain ⟨evs, ho, ht, _, _, hok⟩ := reifyAttributes_triples g
  have memOut : ∀ e ∈ evs, ∀ t1 ∈ e.out, startsWith [':'] t1.role = true →
      t1 ∈ (reifyAttributes g).triples := by
    intro e he t1 h1 hcol
    rw [ht, List.mem_map]
    exact ⟨t1, List.mem_flatMap.mpr ⟨e, he, h1⟩, by rw [ensureColon_of_colon hcol]⟩
  have hsrc : ∀ a, IsSrc g a → IsSrc (reifyAttributes g) a := by
    rintro a ⟨t, htg, rfl⟩
    have hcol := hg t htg
    rw [← ho, List.mem_map] at htg
    obtain ⟨e, he, heo⟩ := htg
    cases e with
    | keep t' =>
      simp only [AEv.orig] at heo; subst heo
      exact ⟨t', memOut _ he _ (by simp [AEv.out]) hcol, rfl⟩
    | attr t' v =>
      simp only [AEv.orig] at heo; subst heo
      exact ⟨attrRoleT t' v, memOut _ he _ (by simp [AEv.out]) hcol, rfl⟩
  apply connected_transfer (reifyAttributes_getTop g) hsrc _ _ hc
  · intro b c hb hcs ⟨t, htg, hr, hbc⟩
    have hcol := hg t htg
    have htgt : atomInVars g.variables t.tgt = true := by
      rcases hbc with ⟨_, h2⟩ | ⟨_, h2⟩
      · obtain ⟨t2, ht2, hs2⟩ := hcs
        rw [h2]; simp only [atomInVars, decide_eq_true_eq]
        exact hs2 ▸ src_mem_variables ht2
      · obtain ⟨t2, ht2, hs2⟩ := hb
        rw [h2]; simp only [atomInVars, decide_eq_true_eq]
        exact hs2 ▸ src_mem_variables ht2
    rw [← ho, List.mem_map] at htg
    obtain ⟨e, he, heo⟩ := htg
    cases e with
    | keep t' =>
      simp only [AEv.orig] at heo; subst heo
      exact Reach.single ⟨t', memOut _ he _ (by simp [AEv.out]) hcol, hr, hbc⟩ (hsrc c hcs)
    | attr t' v =>
      simp only [AEv.orig] at heo; subst heo
      -- an edge is never treated as an attribute
      have := (hok _ he).2.2
      rw [htgt] at this; simp at this
  · intro t1 h1
    rw [ht, List.mem_map] at h1
    obtain ⟨t0, h0, rfl⟩ := h1
    rw [List.mem_flatMap] at h0
    obtain ⟨e, he, h0⟩ := h0
    cases e with
    | keep t =>
      simp only [AEv.out, List.mem_singleton] at h0
      subst h0; left; exact ⟨t0, (hok _ he).1, rfl⟩
    | attr t v =>
      have htg := (hok _ he).1
      have hcol := hg t htg
      simp only [AEv.out, List.mem_cons, List.not_mem_nil, or_false] at h0
      rcases h0 with rfl | rfl
      · left; exact ⟨t, htg, rfl⟩
      · right
        have hrole : attrRoleT t v ∈ (reifyAttributes g).triples :=
          memOut _ he _ (by simp [AEv.out]) hcol
        have hnode : attrNodeT t v ∈ (reifyAttributes g).triples :=
          memOut _ he _ (by simp [AEv.out]) concept_colon
        refine ⟨t.src, ⟨t, htg, rfl⟩, ?_⟩
        exact Reach.single ⟨_, hrole, (hok _ he).2.1, Or.inl ⟨rfl, rfl⟩⟩ ⟨_, hnode, rfl⟩

/-! ### `indicateBranches` -/

theorem indicateBranches_connected {m : Model} {g g' : Graph} (h : indicateBranches m g = .ok g')
    (hct : startsWith [':'] m.topRole = true) (htc : m.topRole ≠ CONCEPT_ROLE) (hg : RolesColon g)
    (hc : Connected g) : Connected g' := by
  have ht := (indicateBranches_ok h).1
  have hkeep : ∀ t ∈ g.triples, t ∈ g'.triples := by
    intro t htg
    rw [ht, List.mem_map]
    exact ⟨t, List.mem_flatMap.mpr ⟨t, htg, by simp⟩, by rw [ensureColon_of_colon (hg t htg)]⟩
  have hsrc : ∀ a, IsSrc g a → IsSrc g' a := by
    rintro a ⟨t, htg, rfl⟩; exact ⟨t, hkeep t htg, rfl⟩
  apply connected_transfer (indicateBranches_getTop h) hsrc _ _ hc
  · intro b c hb hcs ⟨t, htg, hr, hbc⟩
    exact Reach.single ⟨t, hkeep t htg, hr, hbc⟩ (hsrc c hcs)
  · intro t1 h1
    rw [ht, List.mem_map] at h1
    obtain ⟨t0, h0, rfl⟩ := h1
    rw [List.mem_flatMap] at h0
    obtain ⟨t, htg, h0⟩ := h0
    rcases List.mem_append.mp h0 with h0' | h0'
    · rcases branchIns_spec m g t with ⟨e0, _⟩ | ⟨e0, _⟩ | ⟨s, hs, e0, hpv, hne⟩
      · rw [e0] at h0'; simp at h0'
      · rw [e0] at h0'; simp only [List.mem_singleton] at h0'; subst h0'
        left; exact ⟨t, htg, rfl⟩
      · rw [e0] at h0'; simp only [List.mem_singleton] at h0'; subst h0'
        right
        refine ⟨t.src, ⟨t, htg, rfl⟩, ?_⟩
        have hmem : (⟨s, m.topRole, .str t.src⟩ : Triple) ∈ g'.triples := by
          rw [ht, List.mem_map]
          refine ⟨⟨s, m.topRole, .str t.src⟩, List.mem_flatMap.mpr ⟨t, htg, h0⟩, ?_⟩
          simp only [ensureColon_of_colon hct]
        exact Reach.single ⟨_, hmem, htc, Or.inr ⟨rfl, rfl⟩⟩ ⟨_, hmem, rfl⟩
    · simp only [List.mem_singleton] at h0'; subst h0'
      left; exact ⟨t0, htg, rfl⟩

/-! ### `dereifyEdges` -/

theorem collapse_not_referenced {m : Model} {g : Graph} {x : Str} {ag : Agenda}
    (h : collapseOf m g x = some ag) :
    g.getTop ≠ some x ∧ ∀ t ∈ g.triples, t.role ≠ CONCEPT_ROLE → t.tgt ≠ .str x := by
  refine ⟨fun h1 => ?_, fun t ht hr htg => ?_⟩
  · rw [collapseOf_guard m g x (Or.inl h1)] at h; simp at h
  · rw [collapseOf_guard m g x (Or.inr (Or.inl ⟨t, ht, hr, htg⟩))] at h; simp at h

theorem dereifyEdges_connected {m : Model} {g g' : Graph} (h : dereifyEdges m g = .ok g')
    (hm : ReifWf m) (hg : RolesColon g) (hc : Connected g) : Connected g' := by
  obtain ⟨top, hgt, htsrc, hall⟩ := hc
  have hsrc : ∀ x ag, collapseOf m g x = some ag → IsSrc g ag.dereified.src := by
    intro x ag hx
    apply isSrc_of_mem_variables _ (collapseOf_some hx).2.2.2.2
    intro y hy
    rw [hgt] at hy
    simp only [Option.some.injEq] at hy
    exact hy ▸ htsrc
  have ht := (dereifyEdges_ok h).1
  -- kept triples
  have hkept : ∀ t ∈ g.triples, collapseOf m g t.src = none → t ∈ g'.triples := by
    intro t htg hn
    rw [ht, List.mem_map]
    refine ⟨t, List.mem_flatMap.mpr ⟨t, htg, ?_⟩, by rw [ensureColon_of_colon (hg t htg)]⟩
    unfold derOut; rw [hn]; simp
  have hsrc' : ∀ a, IsSrc g a → collapseOf m g a = none → IsSrc g' a := by
    rintro a ⟨t, htg, rfl⟩ hn; exact ⟨t, hkept t htg hn, rfl⟩
  -- the dereified triple of a collapsed node is in the result, with a relation role
  have hder : ∀ x ag, collapseOf m g x = some ag →
      ag.dereified ∈ g'.triples ∧ ag.dereified.role ≠ CONCEPT_ROLE := by
    intro x ag hx
    obtain ⟨hvar, hfirst, _, ⟨rf, hrf, hrole⟩, _⟩ := collapseOf_some hx
    have hcol : startsWith [':'] ag.dereified.role = true := by
      rw [← hrole]; exact (hm.1 rf hrf).2.2.2.2.2.2.2
    have hf := mem_otherOf hfirst
    refine ⟨?_, ?_⟩
    · rw [ht, List.mem_map]
      refine ⟨ag.dereified, List.mem_flatMap.mpr ⟨ag.first, hf.1, ?_⟩,
        by rw [ensureColon_of_colon hcol]⟩
      unfold derOut; rw [hf.2.2, hx]; simp
    · intro hcpt
      have : m.isReifiable rf.role = true := by
        simp only [Model.isReifiable, List.any_eq_true]; exact ⟨rf, hrf, by simp⟩
      rw [hrole, hcpt, hm.2] at this; simp at this
  -- the invariant along a path of `g`
  have hQ : ∀ b, Reach g top b →
      (collapseOf m g b = none → Reach g' top b) ∧
      (∀ ag, collapseOf m g b = some ag → ∀ c, Adj g b c → IsSrc g c → Reach g' top c) := by
    intro b hb
    induction hb with
    | refl =>
      refine ⟨fun _ => Reach.refl, fun ag hag => ?_⟩
      exact absurd hgt (collapse_not_referenced hag).1
    | @step b c hb hadj hcs ih =>
      have hbs := hb.isSrc htsrc
      cases hcb : collapseOf m g b with
      | some agb =>
        -- `b` is collapsed: `c` is one of its two neighbours, reached by the invariant
        have hrc := ih.2 agb hcb c hadj hcs
        have hnc : collapseOf m g c = none := by
          obtain ⟨t, htg, hr, hbc⟩ := hadj
          rcases hbc with ⟨_, h2⟩ | ⟨_, h2⟩
          · exact collapseOf_guard m g c (Or.inr (Or.inl ⟨t, htg, hr, h2⟩))
          · exact absurd h2 ((collapse_not_referenced hcb).2 t htg hr)
        exact ⟨fun _ => hrc, fun ag hag => by rw [hnc] at hag; simp at hag⟩
      | none =>
        have hrb := ih.1 hcb
        cases hcc : collapseOf m g c with
        | none =>
          refine ⟨fun _ => ?_, fun ag hag => by simp at hag⟩
          obtain ⟨t, htg, hr, hbc⟩ := hadj
          have hts : collapseOf m g t.src = none := by
            rcases hbc with ⟨h1, _⟩ | ⟨h1, _⟩ <;> rw [h1] <;> assumption
          exact Reach.step hrb ⟨t, hkept t htg hts, hr, hbc⟩ (hsrc' c hcs hcc)
        | some agc =>
          refine ⟨fun hn => by simp at hn, fun ag hag c' hadj' hcs' => ?_⟩
          simp only [Option.some.injEq] at hag; subst hag
          obtain ⟨_, _, ⟨a1, b1, hl, hab⟩, _, _⟩ := collapseOf_some hcc
          obtain ⟨hd1, hd2⟩ := hder c agc hcc
          have hnr := (collapse_not_referenced hcc).2
          -- the relation linking `b` and `c` leaves `c`
          obtain ⟨t, htg, hr, hbc⟩ := hadj
          have ht1 : t.src = c ∧ t.tgt = .str b := by
            rcases hbc with ⟨_, h2⟩ | h
            · exact absurd h2 (hnr t htg hr)
            · exact h
          obtain ⟨t', htg', hr', hbc'⟩ := hadj'
          have ht2 : t'.src = c ∧ t'.tgt = .str c' := by
            rcases hbc' with h | ⟨_, h2⟩
            · exact h
            · exact absurd h2 (hnr t' htg' hr')
          have hm1 : t ∈ otherOf g.triples c := by
            simp only [otherOf, List.mem_filter, decide_eq_true_eq]; exact ⟨htg, hr, ht1.1⟩
          have hm2 : t' ∈ otherOf g.triples c := by
            simp only [otherOf, List.mem_filter, decide_eq_true_eq]; exact ⟨htg', hr', ht2.1⟩
          have hc'n : collapseOf m g c' = none :=
            collapseOf_guard m g c' (Or.inr (Or.inl ⟨t', htg', hr', ht2.2⟩))
          rw [hl] at hm1 hm2
          simp only [List.mem_cons, List.not_mem_nil, or_false] at hm1 hm2
          by_cases hsame : c' = b
          · rw [hsame]; exact hrb
          · -- the two relations are the two distinct ones; the dereified triple links them
            have hlink : (Atom.str agc.dereified.src = .str b ∧ agc.dereified.tgt = .str c') ∨
                (Atom.str agc.dereified.src = .str c' ∧ agc.dereified.tgt = .str b) := by
              rcases hm1 with rfl | rfl <;> rcases hm2 with rfl | rfl
              · exfalso; apply hsame
                have := ht1.2.symm.trans ht2.2; simpa using this.symm
              · rcases hab with ⟨h1, h2⟩ | ⟨h1, h2⟩
                · left; exact ⟨h1.trans ht1.2, h2.trans ht2.2⟩
                · right; exact ⟨h1.trans ht2.2, h2.trans ht1.2⟩
              · rcases hab with ⟨h1, h2⟩ | ⟨h1, h2⟩
                · right; exact ⟨h1.trans ht2.2, h2.trans ht1.2⟩
                · left; exact ⟨h1.trans ht1.2, h2.trans ht2.2⟩
              · exfalso; apply hsame
                have := ht1.2.symm.trans ht2.2; simpa using this.symm
            have hadj'' : Adj g' b c' := by
              refine ⟨agc.dereified, hd1, hd2, ?_⟩
              rcases hlink with ⟨h1, h2⟩ | ⟨h1, h2⟩
              · left; exact ⟨by simpa using h1, h2⟩
              · right; exact ⟨by simpa using h1, h2⟩
            exact Reach.step hrb hadj'' (hsrc' c' hcs' hc'n)
  have htopn : collapseOf m g top = none := collapseOf_guard m g top (Or.inl hgt)
  refine ⟨top, (dereifyEdges_getTop h).trans hgt, hsrc' top htsrc htopn, ?_⟩
  intro t1 h1
  rw [ht, List.mem_map] at h1
  obtain ⟨t0, h0, rfl⟩ := h1
  rw [List.mem_flatMap] at h0
  obtain ⟨t, htg, h0⟩ := h0
  unfold derOut at h0
  cases hcol : collapseOf m g t.src with
  | none =>
    rw [hcol] at h0
    simp only [List.mem_singleton] at h0
    subst h0
    exact (hQ _ (hall t0 htg)).1 hcol
  | some ag =>
    rw [hcol] at h0
    simp only at h0
    split at h0
    · simp only [List.mem_singleton] at h0
      subst h0
      -- the source of the dereified triple is a neighbour of the collapsed node
      obtain ⟨_, _, ⟨a1, b1, hl, hab⟩, _, _⟩ := collapseOf_some hcol
      have hnb : Adj g t.src ag.dereified.src := by
        rcases hab with ⟨h1, _⟩ | ⟨h1, _⟩
        · have := mem_otherOf (show a1 ∈ otherOf g.triples t.src by rw [hl]; simp)
          exact ⟨a1, this.1, this.2.1, Or.inl ⟨this.2.2, h1.symm⟩⟩
        · have := mem_otherOf (show b1 ∈ otherOf g.triples t.src by rw [hl]; simp)
          exact ⟨b1, this.1, this.2.1, Or.inl ⟨this.2.2, h1.symm⟩⟩
      exact (hQ _ (hall t htg)).2 ag hcol _ hnb (hsrc _ _ hcol)
    · simp at h0

end Penman

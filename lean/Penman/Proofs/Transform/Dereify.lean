/-
  Penman.Proofs.Transform.Dereify — `agendaScan`, `dereifyAgenda`,
  `dereifyEdges` characterised extensionally, for an arbitrary graph.
-/
import Penman.Proofs.Transform.Reify
set_option linter.unusedSimpArgs false
namespace Penman

/-! ### the first loop of `_dereify_agenda` -/

abbrev ScanAcc := List Atom × AList Str Triple × AList Str (List Triple)

def scanStep (acc : ScanAcc) (t : Triple) : ScanAcc :=
    if t.role = CONCEPT_ROLE then (acc.1, acc.2.1.set t.src t, acc.2.2)
    else (t.tgt :: acc.1, acc.2.1, acc.2.2.set t.src ((AList.get? acc.2.2 t.src).getD [] ++ [t]))

/-- `g.top` as a member of the `fixed` set -/
def topAtom (g : Graph) : Atom := match g.getTop with | some t => Atom.str t | none => Atom.none

theorem agendaScan_eq (g : Graph) :
    agendaScan g = g.triples.foldl scanStep ([topAtom g], [], []) := by
  unfold agendaScan topAtom
  congr 1
  cases g.getTop <;> rfl

theorem scan_fixed (l : List Triple) (acc : ScanAcc) (a : Atom) :
    a ∈ (l.foldl scanStep acc).1 ↔ a ∈ acc.1 ∨ ∃ t ∈ l, t.role ≠ CONCEPT_ROLE ∧ t.tgt = a := by
  induction l generalizing acc with
  | nil => simp
  | cons t r ih =>
    simp only [List.foldl_cons, ih, List.mem_cons, exists_eq_or_imp]
    unfold scanStep
    by_cases h : t.role = CONCEPT_ROLE
    · simp [h]
    · simp only [h, if_false, List.mem_cons, ne_eq, not_false_eq_true, true_and]
      constructor
      · rintro ((h1 | h1) | h1)
        · right; left; exact h1.symm
        · left; exact h1
        · right; right; exact h1
      · rintro (h1 | h1 | h1)
        · left; right; exact h1
        · left; left; exact h1.symm
        · right; exact h1

theorem scan_other (l : List Triple) (acc : ScanAcc) (v : Str) :
    (AList.get? (l.foldl scanStep acc).2.2 v).getD [] = (AList.get? acc.2.2 v).getD [] ++ otherOf l v := by
  induction l generalizing acc with
  | nil => simp [otherOf]
  | cons t r ih =>
    simp only [List.foldl_cons, ih]
    unfold scanStep otherOf
    by_cases h : t.role = CONCEPT_ROLE
    · simp [h, List.filter_cons]
    · simp only [h, if_false, AList.get?_set, List.filter_cons, ne_eq, not_false_eq_true, true_and]
      by_cases hv : t.src = v
      · subst hv; simp
      · simp [hv]

theorem scan_inst (l : List Triple) (acc : ScanAcc) (v : Str) :
    AList.get? (l.foldl scanStep acc).2.1 v =
      match (instOf l v).getLast? with
      | some t => some t
      | none => AList.get? acc.2.1 v := by
  induction l generalizing acc with
  | nil => simp [instOf]
  | cons t r ih =>
    simp only [List.foldl_cons, ih]
    unfold instOf
    by_cases h : t.role = CONCEPT_ROLE ∧ t.src = v
    · have e : List.filter (fun t => decide (t.role = CONCEPT_ROLE ∧ t.src = v)) (t :: r)
          = t :: List.filter (fun t => decide (t.role = CONCEPT_ROLE ∧ t.src = v)) r := by
        simp [List.filter_cons, h]
      rw [e]
      cases hr : (List.filter (fun t => decide (t.role = CONCEPT_ROLE ∧ t.src = v)) r).getLast? with
      | none =>
        have : List.filter (fun t => decide (t.role = CONCEPT_ROLE ∧ t.src = v)) r = [] := by
          simpa using hr
        rw [this]
        simp only [List.getLast?_singleton]
        unfold scanStep
        simp [h.1, ← h.2, AList.get?_set_self]
      | some x =>
        have : (t :: List.filter (fun t => decide (t.role = CONCEPT_ROLE ∧ t.src = v)) r).getLast?
            = some x := by
          rw [List.getLast?_cons, hr]; rfl
        rw [this]
    · have e : List.filter (fun t => decide (t.role = CONCEPT_ROLE ∧ t.src = v)) (t :: r)
          = List.filter (fun t => decide (t.role = CONCEPT_ROLE ∧ t.src = v)) r := by
        simp [List.filter_cons, h]
      rw [e]
      have : AList.get? (scanStep acc t).2.1 v = AList.get? acc.2.1 v := by
        unfold scanStep
        by_cases hc : t.role = CONCEPT_ROLE
        · have hv : t.src ≠ v := fun e => h ⟨hc, e⟩
          simp [hc, AList.get?_set, hv]
        · simp [hc]
      rw [this]

theorem scan_inst_nodup (l : List Triple) (acc : ScanAcc) (h : (AList.keys acc.2.1).Nodup) :
    (AList.keys (l.foldl scanStep acc).2.1).Nodup := by
  induction l generalizing acc with
  | nil => exact h
  | cons t r ih =>
    simp only [List.foldl_cons]
    apply ih
    unfold scanStep
    split
    · exact AList.nodup_keys_set _ _ _ h
    · exact h

theorem agendaScan_fixed (g : Graph) (a : Atom) :
    a ∈ (agendaScan g).1 ↔ a = topAtom g ∨ ∃ t ∈ g.triples, t.role ≠ CONCEPT_ROLE ∧ t.tgt = a := by
  rw [agendaScan_eq, scan_fixed]; simp

theorem agendaScan_other (g : Graph) (v : Str) :
    (AList.get? (agendaScan g).2.2 v).getD [] = otherOf g.triples v := by
  rw [agendaScan_eq, scan_other]; simp [AList.get?_nil]

theorem agendaScan_inst (g : Graph) (v : Str) :
    AList.get? (agendaScan g).2.1 v = (instOf g.triples v).getLast? := by
  rw [agendaScan_eq, scan_inst]
  cases (instOf g.triples v).getLast? <;> simp [AList.get?_nil]

theorem agendaScan_inst_nodup (g : Graph) : (AList.keys (agendaScan g).2.1).Nodup := by
  rw [agendaScan_eq]; exact scan_inst_nodup _ _ (by simp [AList.keys])

theorem instOf_getLast {ts : List Triple} {v : Str} {t : Triple}
    (h : (instOf ts v).getLast? = some t) : t ∈ ts ∧ t.role = CONCEPT_ROLE ∧ t.src = v := by
  have := List.mem_of_getLast? h
  simpa [instOf] using this

/-! ### the second loop of `_dereify_agenda` -/

/-- the body of the second loop (verbatim) -/
def agendaStep (m : Model) (g : Graph) (alns : AList Triple Epi) (fixed : List Atom)
    (other : AList Str (List Triple)) (acc : List Agenda) (p : Str × Triple) :
    Except PyErr (List Agenda) :=
    let (var, inst0) := p
    match (AList.get? other var).getD [] with
    | [a, b] =>
      if Atom.str var ∉ fixed ∧ m.isDereifiable inst0.tgt then
        let (tFirst, tSecond) := if getPushedVariable g b = some var then (b, a) else (a, b)
        match m.dereify inst0 tFirst tSecond with
        | .error .model => pure acc
        | .error e => throw e
        | .ok (src, role, tgt) =>
          match src with
          | .str s =>
            -- fix F20: `if dereified[0] not in variables: continue`
            if s ∈ g.variables then
              let e1 : List Epi := match AList.get? alns inst0 with
                | some (.aln p i) => [.roleAln p i]
                | _ => []
              let e2 := ((AList.get? g.epidata tSecond).getD []).filter fun | .roleAln _ _ => false | _ => true
              pure (acc ++ [⟨var, tFirst, ⟨s, role, tgt⟩, e1 ++ e2⟩])
            else pure acc
          | _ => pure acc     -- a non-string source is never a variable
      else pure acc
    | _ => pure acc

theorem dereifyAgenda_eq (m : Model) (g : Graph) :
    dereifyAgenda m g = (agendaScan g).2.1.foldlM
      (agendaStep m g (getAlignments g false) (agendaScan g).1 (agendaScan g).2.2) [] := rfl

/-- an alignment of the reified node's concept goes back onto the role -/
def alnBack : Option Epi → List Epi
  | some (.aln p i) => [Epi.roleAln p i]
  | _ => []

def notRoleAln : Epi → Bool
  | .roleAln _ _ => false
  | _ => true

/-- the marker list the agenda builds for a dereified triple -/
def agendaEpis (g : Graph) (inst0 second : Triple) : List Epi :=
  alnBack (AList.get? (getAlignments g false) inst0) ++
  ((AList.get? g.epidata second).getD []).filter notRoleAln

/-- outcome of the second loop for one variable -/
inductive EntryRes where
  | skip
  | err (e : PyErr)
  | add (ag : Agenda)

/-- the decision for one `(var, instance)` entry, as a function of the facts
    the first loop collected -/
def entryRes (m : Model) (g : Graph) (var : Str) (inst0 : Triple) : EntryRes :=
  match otherOf g.triples var with
  | [a, b] =>
    if Atom.str var ∉ (agendaScan g).1 ∧ m.isDereifiable inst0.tgt then
      let tFirst := if getPushedVariable g b = some var then b else a
      let tSecond := if getPushedVariable g b = some var then a else b
      match m.dereify inst0 tFirst tSecond with
      | .error .model => .skip
      | .error e => .err e
      | .ok (.str s, role, tgt) =>
        if s ∈ g.variables then .add ⟨var, tFirst, ⟨s, role, tgt⟩, agendaEpis g inst0 tSecond⟩
        else .skip
      | .ok _ => .skip
    else .skip
  | _ => .skip

def EntryRes.toList : EntryRes → List Agenda
  | .add ag => [ag]
  | _ => []

theorem agendaStep_eq (m : Model) (g : Graph) (acc : List Agenda) (var : Str) (inst0 : Triple) :
    agendaStep m g (getAlignments g false) (agendaScan g).1 (agendaScan g).2.2 acc (var, inst0) =
      match entryRes m g var inst0 with
      | .skip => .ok acc
      | .err e => .error e
      | .add ag => .ok (acc ++ [ag]) := by
  unfold agendaStep entryRes
  simp only [agendaScan_other]
  generalize otherOf g.triples var = l
  match l with
  | [] => rfl
  | [_] => rfl
  | _ :: _ :: _ :: _ => rfl
  | [a, b] =>
    simp only
    by_cases hc : Atom.str var ∉ (agendaScan g).1 ∧ m.isDereifiable inst0.tgt
    · simp only [hc, and_self, if_true]
      by_cases hp : getPushedVariable g b = some var
      · simp only [hp, if_true]
        cases hd : m.dereify inst0 b a with
        | error e => cases e <;> rfl
        | ok r =>
          obtain ⟨src, role, tgt⟩ := r
          cases src with
          | str s => by_cases hs : s ∈ g.variables <;> simp only [hs, if_true, if_false] <;> rfl
          | none => rfl
          | num x => rfl
      · simp only [hp, if_false]
        cases hd : m.dereify inst0 a b with
        | error e => cases e <;> rfl
        | ok r =>
          obtain ⟨src, role, tgt⟩ := r
          cases src with
          | str s => by_cases hs : s ∈ g.variables <;> simp only [hs, if_true, if_false] <;> rfl
          | none => rfl
          | num x => rfl
    · simp only [hc, if_false]; rfl

theorem entryRes_var {m g var inst0 ag} (h : entryRes m g var inst0 = .add ag) : ag.var = var := by
  unfold entryRes at h
  split at h
  · split at h
    · simp only at h
      split at h
      all_goals first
        | (split at h
           · simp only [EntryRes.add.injEq] at h; rw [← h]
           · simp at h)
        | simp at h
    · simp at h
  · simp at h

/-- the fold over `inst` -/
theorem agendaFold (m : Model) (g : Graph) : ∀ (l : List (Str × Triple)) (acc r : List Agenda),
    l.foldlM (agendaStep m g (getAlignments g false) (agendaScan g).1 (agendaScan g).2.2) acc = .ok r ↔
      (∀ p ∈ l, ∀ e, entryRes m g p.1 p.2 ≠ .err e) ∧
      r = acc ++ l.flatMap (fun p => (entryRes m g p.1 p.2).toList)
  | [], acc, r => by simp [List.foldlM, pure, Except.pure, eq_comm]
  | (var, inst0) :: l, acc, r => by
    simp only [List.foldlM, agendaStep_eq, List.mem_cons, forall_eq_or_imp, List.flatMap_cons]
    cases he : entryRes m g var inst0 with
    | skip =>
      simp only [bind, Except.bind, agendaFold m g l acc r, EntryRes.toList, List.nil_append]
      simp
    | err e =>
      simp only [bind, Except.bind]
      constructor
      · intro h; simp at h
      · rintro ⟨h, _⟩; exact absurd rfl (h.1 e)
    | add ag =>
      simp only [bind, Except.bind, agendaFold m g l (acc ++ [ag]) r, EntryRes.toList]
      simp

theorem find?_flatMap_entries {m g} : ∀ (l : List (Str × Triple)), (AList.keys l).Nodup → ∀ (x : Str),
    (l.flatMap (fun p => (entryRes m g p.1 p.2).toList)).find? (·.var = x) =
      match AList.get? l x with
      | some i0 => (match entryRes m g x i0 with | .add ag => some ag | _ => none)
      | none => none
  | [], _, x => by simp [AList.get?_nil]
  | (var, inst0) :: l, hn, x => by
    simp only [AList.keys, List.map_cons, List.nodup_cons] at hn
    rw [List.flatMap_cons, List.find?_append, AList.get?_cons]
    by_cases hx : var = x
    · subst hx
      simp only [if_true]
      cases he : entryRes m g var inst0 with
      | add ag =>
        have := entryRes_var he
        simp [EntryRes.toList, this]
      | skip =>
        simp only [EntryRes.toList, List.find?_nil, Option.none_or]
        rw [List.find?_eq_none]
        intro ag hag
        simp only [List.mem_flatMap] at hag
        obtain ⟨p, hp, hag⟩ := hag
        cases he' : entryRes m g p.1 p.2 with
        | add ag' =>
          rw [he'] at hag
          simp only [EntryRes.toList, List.mem_singleton] at hag
          subst hag
          rw [entryRes_var he']
          simp only [decide_eq_true_eq]
          rintro rfl
          exact hn.1 (List.mem_map.mpr ⟨p, hp, rfl⟩)
        | skip => rw [he'] at hag; simp [EntryRes.toList] at hag
        | err e => rw [he'] at hag; simp [EntryRes.toList] at hag
      | err e =>
        simp only [EntryRes.toList, List.find?_nil, Option.none_or]
        rw [List.find?_eq_none]
        intro ag hag
        simp only [List.mem_flatMap] at hag
        obtain ⟨p, hp, hag⟩ := hag
        cases he' : entryRes m g p.1 p.2 with
        | add ag' =>
          rw [he'] at hag
          simp only [EntryRes.toList, List.mem_singleton] at hag
          subst hag
          rw [entryRes_var he']
          simp only [decide_eq_true_eq]
          rintro rfl
          exact hn.1 (List.mem_map.mpr ⟨p, hp, rfl⟩)
        | skip => rw [he'] at hag; simp [EntryRes.toList] at hag
        | err e => rw [he'] at hag; simp [EntryRes.toList] at hag
    · simp only [hx, if_false]
      have : ((entryRes m g var inst0).toList).find? (·.var = x) = none := by
        cases he : entryRes m g var inst0 with
        | add ag =>
          have := entryRes_var he
          simp [EntryRes.toList, this, hx]
        | skip => simp [EntryRes.toList]
        | err e => simp [EntryRes.toList]
      rw [this, Option.none_or]
      exact find?_flatMap_entries l hn.2 x

/-- the decision `dereify_edges` takes for the variable `x` -/
def collapseOf (m : Model) (g : Graph) (x : Str) : Option Agenda :=
  match (instOf g.triples x).getLast? with
  | some i0 => (match entryRes m g x i0 with | .add ag => some ag | _ => none)
  | none => none

/-- `_dereify_agenda` succeeds iff no entry raises; then looking a variable up
    in the agenda is `collapseOf`. -/
theorem dereifyAgenda_ok {m : Model} {g : Graph} {agenda : List Agenda}
    (h : dereifyAgenda m g = .ok agenda) :
    (∀ p ∈ (agendaScan g).2.1, ∀ e, entryRes m g p.1 p.2 ≠ .err e) ∧
    ∀ x, agenda.find? (·.var = x) = collapseOf m g x := by
  rw [dereifyAgenda_eq, agendaFold] at h
  refine ⟨h.1, ?_⟩
  intro x
  rw [h.2, List.nil_append, find?_flatMap_entries _ (agendaScan_inst_nodup g), agendaScan_inst]
  rfl

theorem dereifyAgenda_of_noErr {m : Model} {g : Graph}
    (h : ∀ p ∈ (agendaScan g).2.1, ∀ e, entryRes m g p.1 p.2 ≠ .err e) :
    ∃ agenda, dereifyAgenda m g = .ok agenda :=
  ⟨_, by rw [dereifyAgenda_eq, agendaFold]; exact ⟨h, rfl⟩⟩

/-- members of `inst` are last instance triples -/
theorem agendaScan_inst_mem {g : Graph} {p : Str × Triple} (h : p ∈ (agendaScan g).2.1) :
    (instOf g.triples p.1).getLast? = some p.2 := by
  rw [← agendaScan_inst]
  exact AList.get?_of_mem (agendaScan_inst_nodup g) h

/-- `NoCollapsible`: the agenda is empty, i.e. every entry is skipped -/
theorem dereifyAgenda_nil_iff {m : Model} {g : Graph} :
    dereifyAgenda m g = .ok [] ↔ ∀ p ∈ (agendaScan g).2.1, entryRes m g p.1 p.2 = .skip := by
  rw [dereifyAgenda_eq, agendaFold]
  constructor
  · rintro ⟨h1, h2⟩ p hp
    cases he : entryRes m g p.1 p.2 with
    | skip => rfl
    | err e => exact absurd he (h1 p hp e)
    | add ag =>
      exfalso
      have : ag ∈ ([] : List Agenda) := by
        rw [h2]
        simp only [List.nil_append, List.mem_flatMap]
        exact ⟨p, hp, by simp [he, EntryRes.toList]⟩
      simp at this
  · intro h
    refine ⟨fun p hp e => by rw [h p hp]; simp, ?_⟩
    symm
    simp only [List.nil_append, List.flatMap_eq_nil_iff]
    intro p hp
    rw [h p hp]; rfl

/-! ### `dereify_edges` -/

/-- the body of the loop of `dereify_edges` (verbatim) -/
def derStep (agenda : List Agenda) (acc : List Triple × Epidata) (t : Triple) : List Triple × Epidata :=
    let (ts, ep) := acc
    match agenda.find? (·.var = t.src) with
    | some ag =>
      let (ts, ep) := if t = ag.first then (ag.dereified :: ts, ep.set ag.dereified ag.epidata) else (ts, ep)
      (ts, ep.erase t)
    | none => (t :: ts, ep)

theorem dereifyEdges_eq (m : Model) (g : Graph) :
    dereifyEdges m g = (do
      let agenda ← dereifyAgenda m g
      let r := g.triples.foldl (derStep agenda) ([], g.epidata)
      pure (Graph.mk' r.1.reverse g.getTop r.2 g.metadata)) := rfl

/-- what one input triple contributes to the output triples -/
def derOut (look : Str → Option Agenda) (t : Triple) : List Triple :=
  match look t.src with
  | some ag => if t = ag.first then [ag.dereified] else []
  | none => [t]

theorem derFold_triples (agenda : List Agenda) (l : List Triple) (acc : List Triple × Epidata) :
    (l.foldl (derStep agenda) acc).1 =
      (l.flatMap (derOut (fun x => agenda.find? (·.var = x)))).reverse ++ acc.1 := by
  induction l generalizing acc with
  | nil => simp
  | cons t r ih =>
    simp only [List.foldl_cons, ih, List.flatMap_cons, List.reverse_append, List.append_assoc]
    congr 1
    obtain ⟨ts, ep⟩ := acc
    simp only [derStep, derOut]
    cases hf : agenda.find? (·.var = t.src) with
    | none => simp
    | some ag =>
      simp only
      by_cases h : t = ag.first <;> simp [h]

/-- the marker lookup after the loop of `dereify_edges` (in terms of the input
    lookup), for later use -/
def derEp (look : Str → Option Agenda) (t : Triple) (ep : Epidata) : Epidata :=
  match look t.src with
  | some ag => (if t = ag.first then ep.set ag.dereified ag.epidata else ep).erase t
  | none => ep

theorem derFold_ep (agenda : List Agenda) (l : List Triple) (acc : List Triple × Epidata) :
    (l.foldl (derStep agenda) acc).2 =
      l.foldl (fun ep t => derEp (fun x => agenda.find? (·.var = x)) t ep) acc.2 := by
  induction l generalizing acc with
  | nil => simp
  | cons t r ih =>
    simp only [List.foldl_cons, ih]
    congr 1
    obtain ⟨ts, ep⟩ := acc
    simp only [derStep, derEp]
    cases hf : agenda.find? (·.var = t.src) with
    | none => simp
    | some ag =>
      simp only
      by_cases h : t = ag.first <;> simp [h]

/-- `dereify_edges` succeeds exactly when the agenda does, and then its triples
    are the input triples with every collapsible node's first relation replaced
    by the dereified triple and its other triples dropped. -/
theorem dereifyEdges_ok {m : Model} {g g' : Graph} (h : dereifyEdges m g = .ok g') :
    g'.triples = (g.triples.flatMap (derOut (collapseOf m g))).map
        (fun t => { t with role := ensureColon t.role }) ∧
    g'.top = g.getTop ∧ g'.metadata = AList.ofList g.metadata ∧
    g'.epidata = AList.ofList (g.triples.foldl (fun ep t => derEp (collapseOf m g) t ep) g.epidata) := by
  rw [dereifyEdges_eq] at h
  cases ha : dereifyAgenda m g with
  | error e => rw [ha] at h; simp [bind, Except.bind] at h
  | ok agenda =>
    rw [ha] at h
    simp only [bind, Except.bind, pure, Except.pure, Except.ok.injEq] at h
    have hl := (dereifyAgenda_ok ha).2
    have hl' : (fun x => agenda.find? (·.var = x)) = collapseOf m g := funext hl
    subst h
    simp only [Graph.mk', derFold_triples, derFold_ep, hl', List.append_nil, List.reverse_reverse,
      and_self]

theorem dereifyEdges_of_agenda {m : Model} {g : Graph} {agenda : List Agenda}
    (h : dereifyAgenda m g = .ok agenda) : ∃ g', dereifyEdges m g = .ok g' := by
  rw [dereifyEdges_eq, h]; exact ⟨_, rfl⟩

end Penman

/-
  Penman.Parse — `penman._parse`: recursive-descent parser over the token
  list, metadata comments, `iterparse`, triple conjunctions.
  `TokenIterator.peek/expect/accept/error` become pattern matches on the
  remaining token list; "end of input" errors report the end of the last
  token of the *whole* input (`eof`), exactly what `_last` holds when the
  iterator is exhausted.
-/
import Penman.Lexer
import Penman.Tree
import Penman.Model
namespace Penman

/-- position reported by `tokens.error(msg)` with no token: end of the last token -/
def eofPos (all : List Tok) : Nat × Nat :=
  match all.getLast? with
  | none => (0, 0)
  | some t => (t.lineno, t.offset + t.text.length)

structure PCtx where
  eof : Nat × Nat

def PCtx.eofErr (c : PCtx) : PyErr := .decode c.eof.1 c.eof.2 0
def tokErr (t : Tok) : PyErr := .decode t.lineno t.offset 1

/-- `tokens.expect(ty)` -/
def expectTy (c : PCtx) (ty : TokTy) : List Tok → Except PyErr (Tok × List Tok)
  | [] => .error c.eofErr
  | t :: ts => if t.ty = ty then .ok (t, ts) else .error (tokErr t)

/-- one `::key value` scan of a comment, right to left (`rpartition('::')`) -/
def commentMeta (isSpace : Char → Bool) : Nat → Str → AList Str Str → AList Str Str
  | 0, _, md => md
  | f+1, comment, md =>
    if comment.isEmpty then md
    else
      let p := rpartitionStr [':', ':'] comment
      if p.2.1 then
        let kv := partitionStr [' '] p.2.2
        commentMeta isSpace f p.1 (md.set kv.1 (rstripBy isSpace kv.2.2))
      else md   -- not found: `comment` becomes '' and the loop ends

/-- `_parse_comments` : consumes leading COMMENT tokens; fails at end of input -/
def parseComments (c : PCtx) (isSpace : Char → Bool) : List Tok → AList Str Str → Except PyErr (AList Str Str × List Tok)
  | [], _ => .error c.eofErr
  | t :: ts, md =>
    if t.ty = .COMMENT then parseComments c isSpace ts (commentMeta isSpace (t.text.length + 1) t.text md)
    else .ok (md, t :: ts)

def isSymOrStr (t : Tok) : Bool := t.ty = .SYMBOL || t.ty = .STRING

/-- optional ALIGNMENT token glued to the preceding text; `peek` fails at end of input -/
def takeAln (c : PCtx) (text : Str) : List Tok → Except PyErr (Str × List Tok)
  | [] => .error c.eofErr
  | t :: ts => if t.ty = .ALIGNMENT then .ok (text ++ t.text, ts) else .ok (text, t :: ts)

mutual
/-- `_parse_node` -/
def parseNode (c : PCtx) : Nat → List Tok → Except PyErr (Node × List Tok)
  | 0, _ => .error (.other "RecursionError")
  | f+1, toks => do
    let (_, ts) ← expectTy c .LPAREN toks
    match ts with
    | [] => throw c.eofErr
    | t :: ts1 =>
      if t.ty = .RPAREN then pure (.mk none .nil, ts1)
      else do
        let (vt, ts2) ← expectTy c .SYMBOL (t :: ts1)
        match ts2 with
        | [] => throw c.eofErr
        | s :: ts3 =>
          if s.ty = .SLASH then
            match ts3 with
            | [] => throw c.eofErr
            | k :: ts4 =>
              if isSymOrStr k then do
                let (concept, ts5) ← takeAln c k.text ts4
                let (bs, ts6) ← parseEdges c f ts5
                pure (.mk (some vt.text) (.atom ['/'] (.str concept) bs), ts6)
              else do
                let (bs, ts5) ← parseEdges c f (k :: ts4)
                pure (.mk (some vt.text) (.atom ['/'] .none bs), ts5)
          else do
            let (bs, ts4) ← parseEdges c f (s :: ts3)
            pure (.mk (some vt.text) bs, ts4)
/-- the `while tokens.peek().type != 'RPAREN'` loop with `_parse_edge`, up
    to and including the closing `)` -/
def parseEdges (c : PCtx) : Nat → List Tok → Except PyErr (Branches × List Tok)
  | 0, _ => .error (.other "RecursionError")
  | _+1, [] => .error c.eofErr
  | f+1, t :: ts =>
    if t.ty = .RPAREN then .ok (.nil, ts)
    else if t.ty ≠ .ROLE then .error (tokErr t)
    else do
      let (role, ts1) ← takeAln c t.text ts
      match ts1 with
      | [] => throw c.eofErr
      | n :: ts2 =>
        if isSymOrStr n then do
          let (target, ts3) ← takeAln c n.text ts2
          let (rest, ts4) ← parseEdges c f ts3
          pure (.atom role (.str target) rest, ts4)
        else if n.ty = .LPAREN then do
          let (node, ts3) ← parseNode c f (n :: ts2)
          let (rest, ts4) ← parseEdges c f ts3
          pure (.sub role node rest, ts4)
        else if n.ty = .ROLE ∨ n.ty = .RPAREN then do
          let (rest, ts3) ← parseEdges c f (n :: ts2)
          pure (.atom role .none rest, ts3)
        else throw (tokErr n)
end

/-- `_parse` -/
def parseTree (c : PCtx) (isSpace : Char → Bool) (toks : List Tok) : Except PyErr (Tree × List Tok) := do
  let (md, ts) ← parseComments c isSpace toks []
  let (node, ts') ← parseNode c (ts.length + 1) ts
  pure ({ node := node, metadata := md }, ts')

/-- `parse(s)` given the tokens of `s` -/
def parseToks (isSpace : Char → Bool) (toks : List Tok) : Except PyErr Tree :=
  (parseTree ⟨eofPos toks⟩ isSpace toks).map (·.1)

/-- `iterparse` : `while tokens and tokens.peek().type in ('COMMENT','LPAREN')` -/
def iterparseLoop (c : PCtx) (isSpace : Char → Bool) : Nat → List Tok → List Tree → List Tree × Option PyErr
  | 0, _, acc => (acc.reverse, some (.other "fuel"))
  | _+1, [], acc => (acc.reverse, none)
  | f+1, t :: ts, acc =>
    if t.ty = .COMMENT ∨ t.ty = .LPAREN then
      match parseTree c isSpace (t :: ts) with
      | .ok (tree, rest) => iterparseLoop c isSpace f rest (tree :: acc)
      | .error e => (acc.reverse, some e)
    else (acc.reverse, none)

/-- all trees yielded before the generator stops or raises -/
def iterparseToks (isSpace : Char → Bool) (toks : List Tok) : List Tree × Option PyErr :=
  iterparseLoop ⟨eofPos toks⟩ isSpace (toks.length + 1) toks []

/-! ### triple conjunctions -/

/-- `_parse_triple` (after fixes F8, F10) -/
def parseTriple (symbol : Tok) (ts : List Tok) : Except PyErr (Str × Atom × List Tok) :=
  let p := partitionStr [','] symbol.text
  let source := p.1
  if !p.2.2.isEmpty then .ok (source, .str p.2.2, ts)
  else if p.2.1 then
    match ts with
    | n :: ts' => if isSymOrStr n then .ok (source, .str n.text, ts') else .ok (source, .none, ts)
    | [] => .ok (source, .none, ts)
  else
    match ts with
    | n :: ts' =>
      if n.ty = .SYMBOL then
        if n.text = [','] then
          match ts' with
          | k :: ts'' => if isSymOrStr k then .ok (source, .str k.text, ts'') else .ok (source, .none, ts')
          | [] => .ok (source, .none, ts')
        else if startsWith [','] n.text then .ok (source, .str (n.text.drop 1), ts')
        else .error (tokErr n)
      else .ok (source, .none, ts)
    | [] => .ok (source, .none, ts)

/-- `_parse_triples` -/
def parseTriplesLoop (c : PCtx) : Nat → Bool → List Tok → List Triple → Except PyErr (List Triple)
  | 0, _, _, _ => .error (.other "fuel")
  | f+1, stripCaret, toks, acc => do
    let (rt, ts1) ← expectTy c .SYMBOL toks
    let role := if stripCaret && startsWith ['^'] rt.text then rt.text.drop 1 else rt.text
    let role := if startsWith [':'] role then role else ':' :: role
    let (_, ts2) ← expectTy c .LPAREN ts1
    let (sym, ts3) ← expectTy c .SYMBOL ts2
    let (source, target, ts4) ← parseTriple sym ts3
    let (_, ts5) ← expectTy c .RPAREN ts4
    let acc := ⟨source, role, target⟩ :: acc
    match ts5 with
    | [] => pure acc.reverse
    | n :: ts6 =>
      if n.ty ≠ .SYMBOL || !startsWith ['^'] n.text then pure acc.reverse
      else if n.text = ['^'] then parseTriplesLoop c f false ts6 acc
      else parseTriplesLoop c f true (n :: ts6) acc

def parseTriplesToks (toks : List Tok) : Except PyErr (List Triple) :=
  parseTriplesLoop ⟨eofPos toks⟩ (toks.length + 1) false toks []

end Penman

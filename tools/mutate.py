#!/venv/bin/python
"""Mutation analysis of the verification machinery (a measurement, not a check).

Generates first-order mutants of /repo/penman/*.py (comparison/boolean/arithmetic
operator swaps, negated conditions, off-by-one constants, dropped statements,
break<->continue, swapped constants), keeps those that still import and pass the
repository's own 93 tests, and runs the translator (dry), the correspondence streams
and the property oracles against each in a scratch copy (PENMAN_REPO). Nothing is
written to /repo or to /verif/lean. Results: one JSON line per mutant on stdout /
in the --out file; tools/mutate.py --summary <file> tabulates them.

usage: tools/mutate.py --out /tmp/mut/results.jsonl [--jobs 12] [--files a.py,b.py]
                       [--limit N] [--corr-n 300] [--oracle-n 400] [--seed 1]
"""
import argparse
import ast
import concurrent.futures as cf
import copy
import json
import os
import shutil
import subprocess
import sys
import tempfile

HERE = os.path.dirname(os.path.abspath(__file__))
VERIF = os.path.dirname(HERE)
REPO = '/repo'
PY = '/venv/bin/python'

FILES = ['_lexer.py', '_parse.py', '_format.py', 'codec.py', 'layout.py', 'model.py', 'graph.py',
         'transform.py', 'constant.py', 'surface.py', 'tree.py', '__main__.py', 'epigraph.py',
         'models/amr.py', 'models/noop.py', '__init__.py']

CMP = {ast.Eq: ast.NotEq, ast.NotEq: ast.Eq, ast.Lt: ast.LtE, ast.LtE: ast.Lt, ast.Gt: ast.GtE,
       ast.GtE: ast.Gt, ast.In: ast.NotIn, ast.NotIn: ast.In, ast.Is: ast.IsNot, ast.IsNot: ast.Is}
BIN = {ast.Add: ast.Sub, ast.Sub: ast.Add, ast.Mult: ast.Add, ast.BitOr: ast.BitAnd, ast.BitAnd: ast.BitOr,
       ast.Mod: ast.Mult, ast.FloorDiv: ast.Mult}


EXTRA = False
NEW_KINDS = {'method', 'func', 'argswap', 'forrev', 'forskip', 'idxswap', 'slicedrop', 'elif2if', 'kwdrop'}
METHOD_SWAP = {'append': 'extend', 'startswith': 'endswith', 'endswith': 'startswith', 'lstrip': 'rstrip',
               'rstrip': 'strip', 'strip': 'rstrip', 'partition': 'rpartition', 'rpartition': 'partition',
               'insert': 'append', 'extend': 'append', 'add': 'discard', 'update': 'setdefault', 'pop': 'get',
               'get': 'pop', 'setdefault': 'get', 'lower': 'upper', 'isalpha': 'isalnum', 'find': 'rfind',
               'items': 'keys', 'values': 'keys', 'split': 'rsplit', 'join': 'format', 'sort': 'reverse',
               'clear': 'copy', 'isspace': 'isalpha', 'match': 'search', 'fullmatch': 'match', 'search': 'match'}
FUNC_SWAP = {'any': 'all', 'all': 'any', 'sorted': 'list', 'reversed': 'list', 'min': 'max', 'max': 'min',
             'set': 'list', 'list': 'set', 'len': 'id', 'isinstance': 'issubclass', 'next': 'list', 'bool': 'str',
             'dict': 'list', 'tuple': 'list', 'enumerate': 'zip', 'zip': 'enumerate', 'int': 'float'}


def is_docstring(node, parents):
    p = parents.get(node)
    return isinstance(p, ast.Expr)


def sites(tree):
    """yield (kind, node, extra) mutation sites in a deterministic order"""
    parents = {}
    for n in ast.walk(tree):
        for c in ast.iter_child_nodes(n):
            parents[c] = n
    for n in ast.walk(tree):
        if isinstance(n, ast.Compare):
            for i, op in enumerate(n.ops):
                if type(op) in CMP:
                    yield ('cmp', n, i)
        elif isinstance(n, ast.BoolOp):
            yield ('boolop', n, None)
            if len(n.values) >= 2:
                for i in range(len(n.values)):
                    yield ('booldrop', n, i)
        elif isinstance(n, ast.UnaryOp) and isinstance(n.op, ast.Not):
            yield ('notdrop', n, None)
        elif isinstance(n, (ast.If, ast.While, ast.IfExp)):
            yield ('negcond', n, None)
        elif isinstance(n, ast.BinOp) and type(n.op) in BIN:
            # skip string formatting with %
            if isinstance(n.op, ast.Mod) and isinstance(n.left, ast.Constant) and isinstance(n.left.value, str):
                continue
            yield ('binop', n, None)
        elif isinstance(n, ast.Constant) and not is_docstring(n, parents):
            v = n.value
            if isinstance(v, bool):
                yield ('const', n, not v)
            elif isinstance(v, int):
                yield ('const', n, v + 1)
                if v != 0:
                    yield ('const', n, v - 1)
            elif isinstance(v, str) and len(v) <= 12 and not isinstance(parents.get(n), ast.JoinedStr):
                if v == '':
                    yield ('const', n, 'X')
                else:
                    yield ('const', n, '')
        elif isinstance(n, (ast.Break, ast.Continue)):
            yield ('brkcont', n, None)
        elif isinstance(n, ast.Return) and n.value is not None and not (
                isinstance(n.value, ast.Constant) and n.value.value is None):
            yield ('retnone', n, None)
        elif isinstance(n, ast.Slice):
            if n.lower is not None and isinstance(n.lower, ast.Constant) and isinstance(n.lower.value, int):
                pass  # covered by const
        if EXTRA:
            if isinstance(n, ast.Call) and isinstance(n.func, ast.Attribute) and n.func.attr in METHOD_SWAP:
                yield ('method', n, None)
            if isinstance(n, ast.Call) and isinstance(n.func, ast.Name) and n.func.id in FUNC_SWAP:
                yield ('func', n, None)
            if isinstance(n, ast.Call) and len(n.args) == 2 and not n.keywords and not any(
                    isinstance(a, ast.Starred) for a in n.args):
                yield ('argswap', n, None)
            if isinstance(n, ast.For) and not isinstance(n.iter, ast.Call):
                yield ('forrev', n, None)
            if isinstance(n, ast.For):
                yield ('forskip', n, None)
            if isinstance(n, ast.Subscript) and isinstance(n.slice, ast.Constant) and n.slice.value in (0, 2) \
                    and isinstance(n.ctx, ast.Load):
                yield ('idxswap', n, None)
            if isinstance(n, ast.Subscript) and isinstance(n.slice, ast.Slice) and isinstance(n.ctx, ast.Load):
                yield ('slicedrop', n, None)
            if isinstance(n, ast.If) and n.orelse and len(n.orelse) == 1 and isinstance(n.orelse[0], ast.If):
                yield ('elif2if', n, None)
            if isinstance(n, ast.Call) and n.keywords:
                for i in range(len(n.keywords)):
                    if n.keywords[i].arg is not None:
                        yield ('kwdrop', n, i)
        if isinstance(n, (ast.Expr, ast.Assign, ast.AugAssign, ast.Raise, ast.Delete)) and isinstance(
                parents.get(n), (ast.FunctionDef, ast.If, ast.For, ast.While, ast.With, ast.Try, ast.ExceptHandler)):
            if isinstance(n, ast.Expr) and isinstance(n.value, ast.Constant):
                continue  # docstring
            yield ('delstmt', n, None)


def apply(kind, n, extra):
    """mutate node n in place; returns a description"""
    if kind == 'cmp':
        old = type(n.ops[extra]).__name__
        n.ops[extra] = CMP[type(n.ops[extra])]()
        return f'{old}->{type(n.ops[extra]).__name__}'
    if kind == 'boolop':
        old = type(n.op).__name__
        n.op = ast.Or() if isinstance(n.op, ast.And) else ast.And()
        return f'{old}->{type(n.op).__name__}'
    if kind == 'booldrop':
        del n.values[extra]
        if len(n.values) == 1:
            n.values.append(copy.deepcopy(n.values[0]))
        return f'drop operand {extra}'
    if kind == 'notdrop':
        n.op = ast.UAdd()  # placeholder replaced below
        # replace "not x" by "bool(x)"
        x = n.operand
        n.__class__ = ast.Call
        n.func = ast.Name('bool', ast.Load())
        n.args = [x]
        n.keywords = []
        return 'not x -> bool(x)'
    if kind == 'negcond':
        n.test = ast.UnaryOp(ast.Not(), n.test)
        return 'negate condition'
    if kind == 'binop':
        old = type(n.op).__name__
        n.op = BIN[type(n.op)]()
        return f'{old}->{type(n.op).__name__}'
    if kind == 'const':
        old = n.value
        n.value = extra
        return f'{old!r}->{extra!r}'
    if kind == 'brkcont':
        old = type(n).__name__
        n.__class__ = ast.Continue if isinstance(n, ast.Break) else ast.Break
        return f'{old}->{type(n).__name__}'
    if kind == 'retnone':
        n.value = ast.Constant(None)
        return 'return None'
    if kind == 'method':
        old = n.func.attr
        n.func.attr = METHOD_SWAP[old]
        if old == 'insert' and len(n.args) == 2:
            n.args = n.args[1:]
        return f'.{old} -> .{n.func.attr}'
    if kind == 'func':
        old = n.func.id
        n.func.id = FUNC_SWAP[old]
        return f'{old}() -> {n.func.id}()'
    if kind == 'argswap':
        n.args = [n.args[1], n.args[0]]
        return 'swap the two arguments'
    if kind == 'forrev':
        n.iter = ast.Call(ast.Name('reversed', ast.Load()), [ast.Call(ast.Name('list', ast.Load()), [n.iter], [])], [])
        return 'iterate in reverse'
    if kind == 'forskip':
        n.iter = ast.Subscript(ast.Call(ast.Name('list', ast.Load()), [n.iter], []),
                               ast.Slice(ast.Constant(1), None, None), ast.Load())
        return 'skip the first iteration'
    if kind == 'idxswap':
        old = n.slice.value
        n.slice = ast.Constant(2 - old)
        return f'[{old}] -> [{2 - old}]'
    if kind == 'slicedrop':
        n.slice = ast.Slice(None, None, None)
        return 'slice -> [:]'
    if kind == 'elif2if':
        # not applicable structurally without moving nodes: turn "elif c" into "elif True"
        n.orelse[0].test = ast.Constant(True)
        return 'elif cond -> else'
    if kind == 'kwdrop':
        name = n.keywords[extra].arg
        del n.keywords[extra]
        return f'drop keyword {name}='
    if kind == 'delstmt':
        old = type(n).__name__
        n.__class__ = ast.Pass
        for f in list(n.__dict__):
            if f not in ('lineno', 'col_offset', 'end_lineno', 'end_col_offset'):
                delattr(n, f)
        return f'delete {old}'
    raise ValueError(kind)


def mutants_of(relpath):
    src = open(os.path.join(REPO, 'penman', relpath), encoding='utf-8').read()
    base = ast.parse(src)
    n_sites = sum(1 for _ in sites(base))
    for idx in range(n_sites):
        tree = ast.parse(src)
        for j, (kind, node, extra) in enumerate(sites(tree)):
            if j == idx:
                line = getattr(node, 'lineno', 0)
                if EXTRA and kind not in NEW_KINDS:
                    desc = None
                    break
                try:
                    desc = apply(kind, node, extra)
                except Exception as e:  # noqa: BLE001
                    desc = None
                break
        if desc is None:
            continue
        ast.fix_missing_locations(tree)
        try:
            new = ast.unparse(tree)
            compile(new, relpath, 'exec')
        except Exception:  # noqa: BLE001
            continue
        srcline = src.splitlines()[line - 1].strip() if line else ''
        yield {'file': relpath, 'line': line, 'kind': kind, 'desc': desc, 'src': srcline[:120], 'idx': idx}, new


def run(cmd, cwd, env=None, timeout=300):
    e = dict(os.environ)
    e.update(env or {})
    try:
        p = subprocess.run(cmd, cwd=cwd, env=e, stdout=subprocess.PIPE, stderr=subprocess.STDOUT, timeout=timeout)
        return p.returncode, p.stdout.decode('utf-8', 'replace')
    except subprocess.TimeoutExpired as ex:
        return 124, (ex.stdout or b'').decode('utf-8', 'replace') + '\nTIMEOUT'


def evaluate(meta, new_src, args):
    d = tempfile.mkdtemp(prefix='m', dir=args.scratch)
    try:
        shutil.copytree(os.path.join(REPO, 'penman'), os.path.join(d, 'penman'))
        shutil.copytree(os.path.join(REPO, 'tests'), os.path.join(d, 'tests'))
        for f in ('pyproject.toml',):
            if os.path.exists(os.path.join(REPO, f)):
                shutil.copy(os.path.join(REPO, f), d)
        open(os.path.join(d, 'penman', meta['file']), 'w', encoding='utf-8').write(new_src)
        rc, out = run([PY, '-c', 'import penman, penman.__main__, penman.models.amr, penman.models.noop'], d, timeout=60)
        if rc != 0:
            return dict(meta, status='import-fails')
        rc, out = run([PY, '-m', 'pytest', '-q', '-x', '-p', 'no:cacheprovider', '--timeout=60', 'tests'], d, timeout=400)
        if rc != 0:
            return dict(meta, status='killed-by-tests')
        res = dict(meta, status='passes-tests')
        env = {'PENMAN_REPO': d, 'PYTHONHASHSEED': '0'}
        rc, out = run([PY, os.path.join(VERIF, 'tools', 'gen_tables.py'), '--dry'], VERIF, env, timeout=120)
        res['translator'] = out.strip().splitlines()[-1][:200] if out.strip() else f'rc={rc}'
        rc, out = run([PY, os.path.join(VERIF, 'harness', 'corr.py'), ','.join(args.streams), str(args.corr_n),
                       str(args.seed)], VERIF, env, timeout=1500)
        mism = []
        for l in out.splitlines():
            if ' mismatches' in l and ' 0 mismatches' not in l:
                mism.append(l.split(':')[0])
        res['corr'] = mism if rc == 0 else [f'rc={rc}: ' + out[-300:]]
        rc, out = run([PY, os.path.join(VERIF, 'harness', 'oracles.py'), ','.join(args.pids), str(args.oracle_n),
                       str(args.seed)], VERIF, env, timeout=1500)
        fails = []
        for l in out.splitlines():
            if l[:1] == 'C' and 'fail=' in l and 'fail=None' not in l:
                fails.append(l.split(':')[0])
        res['oracle'] = fails if rc == 0 else [f'rc={rc}: ' + out[-300:]]
        return res
    finally:
        shutil.rmtree(d, ignore_errors=True)


def summary(path):
    rows = [json.loads(l) for l in open(path)]
    by = {}
    for r in rows:
        by.setdefault(r['status'], []).append(r)
    print({k: len(v) for k, v in by.items()})
    live = by.get('passes-tests', [])
    surv = [r for r in live if not r['corr'] and not r['oracle'] and 'unchanged' in r.get('translator', '')]
    tab = [r for r in live if not r['corr'] and not r['oracle'] and 'unchanged' not in r.get('translator', '')]
    print(f'pass tests: {len(live)}; caught by correspondence: {sum(1 for r in live if r["corr"])}; '
          f'by oracle: {sum(1 for r in live if r["oracle"])}; only translator: {len(tab)}; survive all: {len(surv)}')
    print('--- survive all')
    for r in surv:
        print(f"{r['file']}:{r['line']} [{r['kind']}] {r['desc']} | {r['src']}")
    print('--- only translator')
    for r in tab:
        print(f"{r['file']}:{r['line']} [{r['kind']}] {r['desc']} | {r['src']} | {r['translator']}")


def main():
    ap = argparse.ArgumentParser()
    ap.add_argument('--out')
    ap.add_argument('--summary')
    ap.add_argument('--jobs', type=int, default=12)
    ap.add_argument('--files', default=','.join(FILES))
    ap.add_argument('--limit', type=int, default=0)
    ap.add_argument('--corr-n', type=int, default=300)
    ap.add_argument('--oracle-n', type=int, default=400)
    ap.add_argument('--seed', type=int, default=1)
    ap.add_argument('--scratch', default='/tmp/mut')
    ap.add_argument('--extra', action='store_true', help='second operator set only (method/function swaps, argument '
                    'swaps, loop order, index swaps, dropped slices and keywords)')
    ap.add_argument('--rerun', help='re-evaluate only the mutants that survived everything in this results file')
    ap.add_argument('--emit', nargs=3, metavar=('FILE', 'IDX', 'DIR'),
                    help='write a copy of /repo (penman/, tests/) with mutant IDX of FILE into DIR')
    args = ap.parse_args()
    if args.extra:
        global EXTRA
        EXTRA = True
    if args.emit:
        f, idx, d = args.emit
        for meta, new in mutants_of(f):
            if meta['idx'] == int(idx):
                shutil.rmtree(d, ignore_errors=True)
                os.makedirs(d)
                shutil.copytree(os.path.join(REPO, 'penman'), os.path.join(d, 'penman'))
                shutil.copytree(os.path.join(REPO, 'tests'), os.path.join(d, 'tests'))
                open(os.path.join(d, 'penman', f), 'w', encoding='utf-8').write(new)
                print(json.dumps(meta))
                return
        sys.exit('no such mutant')
    if args.summary:
        return summary(args.summary)
    sys.path.insert(0, os.path.join(VERIF, 'harness'))
    os.makedirs(args.scratch, exist_ok=True)
    import corr  # noqa: E402
    import oracles  # noqa: E402
    args.streams = list(corr.STREAMS)
    args.pids = sorted(oracles.ORACLES)
    todo = []
    for f in args.files.split(','):
        for meta, new in mutants_of(f):
            todo.append((meta, new))
    if args.rerun:
        keep = set()
        for l in open(args.rerun):
            r = json.loads(l)
            if r['status'] == 'passes-tests' and not r['corr'] and not r['oracle'] \
                    and r['file'] not in ('models/amr.py', '__init__.py'):
                keep.add((r['file'], r['idx']))
        todo = [(m, n) for m, n in todo if (m['file'], m['idx']) in keep]
    if args.limit:
        import random
        random.Random(args.seed).shuffle(todo)
        todo = todo[:args.limit]
    print(f'{len(todo)} mutants', file=sys.stderr)
    done = set()
    if args.out and os.path.exists(args.out):
        for l in open(args.out):
            r = json.loads(l)
            done.add((r['file'], r['idx']))
    out = open(args.out, 'a') if args.out else sys.stdout
    with cf.ThreadPoolExecutor(args.jobs) as ex:
        futs = [ex.submit(evaluate, m, n, args) for m, n in todo if (m['file'], m['idx']) not in done]
        for k, fu in enumerate(cf.as_completed(futs)):
            r = fu.result()
            out.write(json.dumps(r) + '\n')
            out.flush()
            if k % 50 == 0:
                print(f'{k}/{len(futs)}', file=sys.stderr)


if __name__ == '__main__':
    main()

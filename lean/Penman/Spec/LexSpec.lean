/-
  Penman.Spec.LexSpec — an independent specification of the lexer
  (`penman._lexer`), written without reference to the scanners of
  `Penman/Lexer.lean`.

  * `CfgWf`      : decidable well-formedness of the character tables / orders.
  * grammar predicates `IsComment`, `IsString`, `IsRole`, `IsSymbol`,
    `IsAlignment`, and `Lang cfg ty` (the language of each token class).
  * `Matches cfg ty rest m` : `m` is *a* match of class `ty` at the start of
    `rest` (prefix in the class language; for COMMENT also the `$` look-ahead).
  * `IsMatch cfg ty rest m` : `m` is *the* match: the longest one.  For all the
    PENMAN patterns the regex engine's greedy/backtracking match coincides with
    the longest match (the alternation-free patterns are deterministic).
  * `TokOk`      : the token's class is the first one in the alternation order
    that has a match at that offset, and its text is that class's match.
  * `Tiling`     : in order, non-overlapping, exact text/offset/lineno, gaps blank.
  * `LexSpec`    : `Tiling` + every token `TokOk`.
  * `Splits`     : specification of `_LINE_BREAK_RE.split`.
-/
import Penman.Lexer

namespace Penman.Spec
open Penman

/-! ### well-formedness of the lexer tables -/

/-- every range of `a` lies strictly before or after every range of `b` -/
def rangesDisjoint (a b : List (Char × Char)) : Bool :=
  a.all fun r => b.all fun q => decide (r.2 < q.1) || decide (q.2 < r.1)

/-- `UNEXPECTED` is the last alternative and occurs only there -/
def orderWf (order : List TokTy) : Bool :=
  order.getLast? == some TokTy.UNEXPECTED && !(order.dropLast.contains TokTy.UNEXPECTED)

/-- the one-character delimiters that end a ROLE / SYMBOL name -/
def delims : List Char := ['"', '(', ')', '/', ':', '~']

/-- characters with which a non-SYMBOL, non-UNEXPECTED token starts -/
def starters : List Char := '#' :: delims

/-- What the proofs need of the tables:
    * blanks and the delimiters `" ( ) / : ~` are excluded from ROLE and SYMBOL names;
    * no blank is `#` or a delimiter (a token never starts with a blank);
    * `"` and `\` are excluded from the plain string characters;
    * alignment prefix letters and digits are disjoint; `,` and `.` are not digits;
    * blanks and delimiters are neither alignment digits nor `,` (they end an alignment);
    * `UNEXPECTED` is last (and only last) in both alternation orders. -/
def CfgWf (cfg : LexCfg) : Bool :=
  cfg.blank.all (fun c => cfg.symExcl.contains c && cfg.roleExcl.contains c)
  && delims.all (fun c => cfg.symExcl.contains c && cfg.roleExcl.contains c)
  && starters.all (fun c => !cfg.blank.contains c)
  && cfg.strExcl.contains '"' && cfg.strExcl.contains '\\'
  && rangesDisjoint cfg.alnPrefix cfg.alnDigit
  && !inRanges cfg.alnDigit ',' && !inRanges cfg.alnDigit '.'
  && (cfg.blank ++ delims).all (fun c => !inRanges cfg.alnDigit c && c != ',')
  && orderWf cfg.penmanOrder && orderWf cfg.tripleOrder

/-! ### the lexical grammar -/

/-- `\#.*` : `#` then no line feed -/
def IsComment (s : Str) : Prop := ∃ body, s = '#' :: body ∧ '\n' ∉ body

/-- what follows the opening quote of a string literal, closing quote included:
    `( [^"\\] | \\. )* "` -/
inductive StrTail (cfg : LexCfg) : Str → Prop
  | close : StrTail cfg ['"']
  | plain (c : Char) (r : Str) : c ∉ cfg.strExcl → StrTail cfg r → StrTail cfg (c :: r)
  | esc (d : Char) (r : Str) : d ≠ '\n' → StrTail cfg r → StrTail cfg ('\\' :: d :: r)

/-- `"[^"\\]*(?:\\.[^"\\]*)*"` -/
def IsString (cfg : LexCfg) (s : Str) : Prop := ∃ body, s = '"' :: body ∧ StrTail cfg body

/-- `:[^ \t\r\n\v\f"()\/:~]*` -/
def IsRole (cfg : LexCfg) (s : Str) : Prop := ∃ body, s = ':' :: body ∧ ∀ c ∈ body, c ∉ cfg.roleExcl

/-- `[^ \t\r\n\v\f"()\/:~]+` -/
def IsSymbol (cfg : LexCfg) (s : Str) : Prop := s ≠ [] ∧ ∀ c ∈ s, c ∉ cfg.symExcl

/-- `[0-9]+` -/
def IsDigits (cfg : LexCfg) (ds : Str) : Prop := ds ≠ [] ∧ ∀ c ∈ ds, inRanges cfg.alnDigit c = true

/-- `(?:,[0-9]+)*` -/
inductive AlnTail (cfg : LexCfg) : Str → Prop
  | nil : AlnTail cfg []
  | cons (ds r : Str) : IsDigits cfg ds → AlnTail cfg r → AlnTail cfg (',' :: ds ++ r)

/-- `(?:[a-zA-Z]\.?)?` -/
def IsAlnPrefix (cfg : LexCfg) (pre : Str) : Prop :=
  pre = [] ∨ ∃ p, inRanges cfg.alnPrefix p = true ∧ (pre = [p] ∨ pre = [p, '.'])

/-- `~(?:[a-zA-Z]\.?)?[0-9]+(?:,[0-9]+)*` -/
def IsAlignment (cfg : LexCfg) (s : Str) : Prop :=
  ∃ pre ds tail, s = '~' :: pre ++ ds ++ tail ∧ IsAlnPrefix cfg pre ∧ IsDigits cfg ds ∧ AlnTail cfg tail

/-- the language of each token class -/
def Lang (cfg : LexCfg) : TokTy → Str → Prop
  | .COMMENT => IsComment
  | .STRING => IsString cfg
  | .LPAREN => fun s => s = ['(']
  | .RPAREN => fun s => s = [')']
  | .SLASH => fun s => s = ['/']
  | .ROLE => IsRole cfg
  | .SYMBOL => IsSymbol cfg
  | .ALIGNMENT => IsAlignment cfg
  | .UNEXPECTED => fun s => ∃ c, s = [c] ∧ c ∉ cfg.blank

/-- `m` is a match of class `ty` at the start of `rest`: a prefix of `rest` in the
    class language; for COMMENT the `$` assertion must hold after it (end of the
    line, or just before a final line feed). -/
def Matches (cfg : LexCfg) (ty : TokTy) (rest m : Str) : Prop :=
  m <+: rest ∧ Lang cfg ty m ∧
    (ty = .COMMENT → rest.drop m.length = [] ∨ rest.drop m.length = ['\n'])

/-- `m` is the (greedy = longest) match of class `ty` at the start of `rest` -/
def IsMatch (cfg : LexCfg) (ty : TokTy) (rest m : Str) : Prop :=
  Matches cfg ty rest m ∧ ∀ m', Matches cfg ty rest m' → m'.length ≤ m.length

/-- token `t` is what the ordered alternation yields on the remaining input `rest`:
    no class before `t.ty` in `order` has any match, and `t.text` is the match of
    `t.ty`. -/
def TokOk (cfg : LexCfg) (order : List TokTy) (rest : Str) (t : Tok) : Prop :=
  ∃ pre post, order = pre ++ t.ty :: post ∧
    (∀ ty ∈ pre, ∀ m, ¬ Matches cfg ty rest m) ∧ IsMatch cfg t.ty rest t.text

/-! ### tiling -/

/-- From position `pos` of `line` on, the tokens are in order, do not overlap,
    carry line number `n`, their offset and the exact non-empty text found there,
    and every character between them (and after the last) is blank. -/
def TilingFrom (cfg : LexCfg) (n : Nat) (line : Str) : Nat → List Tok → Prop
  | pos, [] => ∀ c ∈ line.drop pos, c ∈ cfg.blank
  | pos, t :: ts =>
      pos ≤ t.offset ∧ (∀ c ∈ (line.drop pos).take (t.offset - pos), c ∈ cfg.blank) ∧
      t.lineno = n ∧ t.text ≠ [] ∧ t.text = (line.drop t.offset).take t.text.length ∧
      TilingFrom cfg n line (t.offset + t.text.length) ts

def Tiling (cfg : LexCfg) (n : Nat) (line : Str) (toks : List Tok) : Prop :=
  TilingFrom cfg n line 0 toks

/-- the full specification of the tokens of one line -/
def LexSpec (cfg : LexCfg) (order : List TokTy) (n : Nat) (line : Str) (toks : List Tok) : Prop :=
  Tiling cfg n line toks ∧ ∀ t ∈ toks, TokOk cfg order (line.drop t.offset) t

/-- `g₀ ++ t₀ ++ g₁ ++ t₁ ++ … ++ gₖ` -/
def interleave : List Str → List Tok → Str
  | g :: gs, t :: ts => g ++ t.text ++ interleave gs ts
  | g :: _, [] => g
  | [], _ => []

/-! ### line splitting -/

def NoBreak (p : Str) : Prop := '\n' ∉ p ∧ '\r' ∉ p

/-- `re.split(r'\r\n|\r|\n', s)` : pieces without line breaks separated by
    `\n`, `\r\n` or `\r` (a `\r` is a terminator of its own only when no `\n` follows). -/
inductive Splits : Str → List Str → Prop
  | last (p : Str) : NoBreak p → Splits p [p]
  | lf (p rest : Str) (ps : List Str) : NoBreak p → Splits rest ps → Splits (p ++ '\n' :: rest) (p :: ps)
  | crlf (p rest : Str) (ps : List Str) : NoBreak p → Splits rest ps →
      Splits (p ++ '\r' :: '\n' :: rest) (p :: ps)
  | cr (p rest : Str) (ps : List Str) : NoBreak p → rest.head? ≠ some '\n' → Splits rest ps →
      Splits (p ++ '\r' :: rest) (p :: ps)

/-- `p₀ ++ t₀ ++ p₁ ++ … ++ pₖ` -/
def joinWith : List Str → List Str → Str
  | p :: ps, t :: ts => p ++ t ++ joinWith ps ts
  | p :: _, [] => p
  | [], _ => []

end Penman.Spec

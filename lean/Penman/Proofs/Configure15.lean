/-
  Penman.Proofs.Configure15 — from the graph's triples to the store's triples,
  element by element: at most one net inversion, nothing dropped on a
  well-formed graph; `deinvert1` identifies both sides.
-/
import Penman.Proofs.Configure14
import Penman.Spec.Encode
import Penman.Props.C13
namespace Penman
namespace Cfg

/-! ### keys of the final store are variables -/

theorem storeOf_rinv {m : Model} {g : Graph} {top : Str} {st : St} (hn : NoInstOf m g) (hpv : PushVars g)
    (ht : top ∈ g.variables) (h : storeOf m g top = .ok st) :
    RInv g top st ∧ ∀ t ∈ g.triples, Avail st t.src := by
  unfold storeOf at h
  cases hp : preconfigure m g.epidata g.triples [] with
  | error e1 => rw [hp] at h; simp [Except.bind] at h
  | ok data =>
    rw [hp] at h
    simp only [Except.bind] at h
    have hpre := preconfigure_spec m _ _ _ _ hp
    have hdok := preconfigure_dok m g hpv _ _ _ (fun t ht => ht) hp
    obtain ⟨g0, o0⟩ := good_st0 g top
    obtain ⟨g1, _⟩ := good_cn m (data.length + 1) top data (st0 g top) false g0 o0
    have r1 := cn_reach m g top (data.length + 1) top data (st0 g top) false (rinv_st0 g top ht) o0 hdok
    obtain ⟨mono, c, hc, hE⟩ := cn_avail m g.variables (data.length + 1) top data (st0 g top) false o0
      (keys_st0 g top) (rnc_of_dok hn hdok)
    have hv : VInv m g top (stripPops (configureNode m (data.length + 1) top data (st0 g top) false).1) []
        (configureNode m (data.length + 1) top data (st0 g top) false).2.1 := by
      refine ⟨g1, fun v hv => mono.2.1 _ (keys_st0 g top v hv), r1, ?_, fun d hd => by simp at hd, ?_⟩
      · intro d hd
        exact hdok d ((cn_suffix _ _ _ _ _ _).subset ((stripPops_suffix _).subset hd))
      · intro t htm
        obtain ⟨x, hx, hs⟩ := hpre.forward t htm
        have hver : x = t ∨ (x = m.invert t ∧ t.role ≠ CONCEPT_ROLE) := by
          cases hs with
          | same => exact Or.inl rfl
          | inv _ _ hr => exact Or.inr ⟨rfl, hr⟩
        rw [hc, pending_append, List.mem_append] at hx
        rcases hx with hx | hx
        · exact Or.inl (version_src hn htm hver (hE x hx))
        · exact Or.inr ⟨x, by simp [pending, pending_stripPops, hx], hver⟩
    exact loop_connected hn _ _ _ _ _ hv h

theorem keys_subset_variables {m : Model} {g : Graph} {top : Str} {st : St} (hn : NoInstOf m g) (hpv : PushVars g)
    (ht : top ∈ g.variables) (h : storeOf m g top = .ok st) : ∀ k ∈ ckeys st.cells, k ∈ g.variables := by
  intro k hk
  obtain ⟨r, _⟩ := storeOf_rinv hn hpv ht h
  have hg := storeOf_good h
  exact r.keys k (hasKey_of_avail (avail_of_own ((hg.own k).1 hk)))

theorem placed_src_key {c : Cells} {p : Triple} (h : p ∈ placed c) : p.src ∈ ckeys c := by
  simp only [placed, List.mem_flatMap, List.mem_map] at h
  obtain ⟨q, hq, e, _, rfl⟩ := h
  exact mem_keys_of_mem hq

/-! ### two steps make at most one net inversion; nothing is dropped -/

theorem two_steps {m : Model} (hw : ModelWf m) {t t1 t2 : Triple}
    (hc : m.canonInversion t.role = some t.role) (h1 : PreStep m t t1) (h2 : Step m t1 (some t2)) :
    t2 = t ∨ (t2 = m.invert t ∧ (∃ b, t.tgt = .str b) ∧ t.role ≠ CONCEPT_ROLE) := by
  cases h1 with
  | same =>
    cases h2 with
    | keep => exact Or.inl rfl
    | inv v hv hr => exact Or.inr ⟨rfl, ⟨v, hv⟩, hr⟩
  | inv v hv hr =>
    cases h2 with
    | keep => exact Or.inr ⟨rfl, ⟨v, hv⟩, hr⟩
    | inv v' hv' hr' => exact Or.inl (C13.invert_invert hw hv hc)

theorem nullB_iff (t : Triple) : nullB t = true ↔ NullInst t := by
  simp [nullB, NullInst]

theorem no_drop {m : Model} {g : Graph} (hn : NoInstOf m g) {t t1 : Triple} (ht : t ∈ g.triples)
    (hnn : nullB t = false) (h1 : PreStep m t t1) : ¬ Step m t1 none := by
  have hnn' : ¬ NullInst t := fun h => by rw [(nullB_iff t).2 h] at hnn; exact absurd hnn (by simp)
  intro h2
  cases h1 with
  | same =>
    cases h2 with
    | drop hnull => exact hnn' hnull
    | dropInv v hv hr hnull => exact (hn t ht hr).1 (by rw [← invert_role]; exact hnull.1)
  | inv v hv hr =>
    cases h2 with
    | drop hnull => exact (hn t ht hr).1 (by rw [← invert_role]; exact hnull.1)
    | dropInv v' hv' hr' hnull =>
      apply (hn t ht hr).2
      rw [← invert_role, ← invert_role]; exact hnull.1

theorem must_drop {m : Model} {t t1 t2 : Triple} (hnn : nullB t = true) (h1 : PreStep m t t1) :
    ¬ Step m t1 (some t2) := by
  have hnull := (nullB_iff t).1 hnn
  intro h2
  cases h1 with
  | same =>
    cases h2 with
    | keep h => exact h hnull
    | inv v hv hr => exact hr hnull.1
  | inv v hv hr => exact hr hnull.1

/-- element-wise transport along `Pre` and `Corr`: the kept triples in order, the dropped ones aside -/
theorem chain_map {m : Model} {β : Type} (F D : Triple → β) (Q : Triple → Prop) :
    ∀ {ts l1 l : List Triple}, Pre m ts l1 → Corr m l1 l →
    (∀ t ∈ ts, nullB t = false → ∀ t1, PreStep m t t1 → ¬ Step m t1 none) →
    (∀ t ∈ ts, ∀ t1 t2, PreStep m t t1 → Step m t1 (some t2) → Q t2 → F t2 = D t) →
    (∀ x ∈ l, Q x) → (ts.map D).Perm (l.map F ++ (ts.filter nullB).map D) := by
  intro ts l1 l hpre
  induction hpre generalizing l with
  | nil => intro hc _ _ _; cases hc; simp
  | @cons a b l1' l2' hs _ ih =>
    intro hc hnd hpw hq
    cases hc with
    | @cons _ ob _ l2 hstep hrest =>
      cases ob with
      | none =>
        have hnull : nullB a = true := by
          cases h : nullB a with
          | true => rfl
          | false => exact absurd hstep (hnd a List.mem_cons_self h b hs)
        simp only [Option.toList, List.nil_append] at hq ⊢
        simp only [List.filter_cons, hnull, if_true, List.map_cons]
        refine ((List.perm_cons _).2 (ih hrest (fun t ht => hnd t (List.mem_cons_of_mem _ ht))
          (fun t ht => hpw t (List.mem_cons_of_mem _ ht)) hq)).trans ?_
        exact List.perm_middle.symm
      | some t2 =>
        have hnull : nullB a = false := by
          cases h : nullB a with
          | false => rfl
          | true => exact absurd hstep (must_drop h hs)
        simp only [Option.toList, List.cons_append, List.nil_append, List.map_cons] at hq ⊢
        simp only [List.filter_cons, hnull, Bool.false_eq_true, if_false]
        rw [hpw a List.mem_cons_self b t2 hs hstep (hq t2 List.mem_cons_self)]
        exact (List.perm_cons _).2 (ih hrest (fun t ht => hnd t (List.mem_cons_of_mem _ ht))
          (fun t ht => hpw t (List.mem_cons_of_mem _ ht)) (fun x hx => hq x (List.mem_cons_of_mem _ hx)))

theorem chain_back {m : Model} : ∀ {ts l1 l : List Triple}, Pre m ts l1 → Corr m l1 l →
    ∀ x ∈ l, ∃ t ∈ ts, ∃ t1, PreStep m t t1 ∧ Step m t1 (some x) := by
  intro ts l1 l hpre
  induction hpre generalizing l with
  | nil => intro hc x hx; cases hc; simp at hx
  | @cons a b l1' l2' hs _ ih =>
    intro hc x hx
    cases hc with
    | @cons _ ob _ l2 hstep hrest =>
      simp only [List.mem_append] at hx
      rcases hx with hx | hx
      · cases ob with
        | none => simp at hx
        | some t2 =>
          simp at hx; subst hx
          exact ⟨a, List.mem_cons_self, b, hs, hstep⟩
      · obtain ⟨t, ht, t1, h1, h2⟩ := ih hrest x hx
        exact ⟨t, List.mem_cons_of_mem _ ht, t1, h1, h2⟩

theorem chain_fwd {m : Model} : ∀ {ts l1 l : List Triple}, Pre m ts l1 → Corr m l1 l →
    ∀ t ∈ ts, ∃ t1, PreStep m t t1 ∧ (Step m t1 none ∨ ∃ x ∈ l, Step m t1 (some x)) := by
  intro ts l1 l hpre
  induction hpre generalizing l with
  | nil => intro _ t ht; simp at ht
  | @cons a b l1' l2' hs _ ih =>
    intro hc t ht
    cases hc with
    | @cons _ ob _ l2 hstep hrest =>
      simp only [List.mem_cons] at ht
      rcases ht with rfl | ht
      · refine ⟨b, hs, ?_⟩
        cases ob with
        | none => exact Or.inl hstep
        | some t2 => exact Or.inr ⟨t2, by simp, hstep⟩
      · obtain ⟨t1, h1, h2⟩ := ih hrest t ht
        refine ⟨t1, h1, ?_⟩
        rcases h2 with h2 | ⟨x, hx, h2⟩
        · exact Or.inl h2
        · exact Or.inr ⟨x, List.mem_append_right _ hx, h2⟩

/-! ### `deinvert1` -/

theorem canon_invertRole {m : Model} (hw : ModelWf m) {r : Str} (hc : m.canonInversion r = some r) :
    m.canonInversion (m.invertRole r) = some (m.invertRole r) := by
  apply Role.canonInversion_fixed_iff.2
  right
  rw [(C13.inv_involutive hw hc).1]

theorem deinvert1_idem {m : Model} (hw : ModelWf m) {g : Graph} {x : Triple}
    (hc : m.canonInversion x.role = some x.role) : deinvert1 m g (deinvert1 m g x) = deinvert1 m g x := by
  unfold deinvert1
  split
  · rename_i h
    have h2 : m.isRoleInverted (m.invert x).role = false := by
      rw [invert_role, (C13.inv_involutive hw hc).2, h.1]; rfl
    simp [h2]
  · rfl

/-- the store's version of a triple deinverts to the same triple as the original -/
theorem deinvert1_version {m : Model} (hw : ModelWf m) {g : Graph} {t t2 : Triple} (ht : t ∈ g.triples)
    (hc : m.canonInversion t.role = some t.role)
    (h : t2 = t ∨ (t2 = m.invert t ∧ (∃ b, t.tgt = .str b) ∧ t.role ≠ CONCEPT_ROLE))
    (hsrc : t2.src ∈ g.variables) : deinvert1 m g t2 = deinvert1 m g t := by
  rcases h with rfl | ⟨rfl, ⟨b, hb⟩, _⟩
  · rfl
  · have hbv : b ∈ g.variables := by rw [invert_src m t b hb] at hsrc; exact hsrc
    have hinv := (C13.inv_involutive hw hc).2
    unfold deinvert1
    cases hi : m.isRoleInverted t.role with
    | true =>
      have h1 : m.isRoleInverted (m.invert t).role = false := by rw [invert_role, hinv, hi]; rfl
      have h2 : g.isVar t.tgt = true := by rw [hb]; simp [Graph.isVar, hbv]
      simp [h1, h2]
    | false =>
      have h1 : m.isRoleInverted (m.invert t).role = true := by rw [invert_role, hinv, hi]; rfl
      have h2 : g.isVar (m.invert t).tgt = true := by
        rw [invert_tgt]; simp [Graph.isVar, src_mem_variables ht]
      simp [h1, h2, C13.invert_invert hw hb hc]

end Cfg
end Penman

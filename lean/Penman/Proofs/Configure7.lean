/-
  Penman.Proofs.Configure7 — completeness: on a graph whose variables are all
  weakly connected to the top, the loop never gets stuck.
-/
import Penman.Proofs.Configure6
namespace Penman
namespace Cfg

theorem mem_dedup {l : List Str} {x : Str} : x ∈ dedup l ↔ x ∈ l := by
  induction l with
  | nil => simp [dedup]
  | cons a r ih =>
    simp only [dedup, List.mem_cons, List.mem_filter, ih]
    by_cases e : x = a <;> simp [e]

theorem src_mem_variables {g : Graph} {t : Triple} (h : t ∈ g.triples) : t.src ∈ g.variables := by
  have : t.src ∈ dedup (g.triples.map (·.src)) := mem_dedup.2 (List.mem_map.2 ⟨t, h, rfl⟩)
  unfold Graph.variables
  simp only []
  split
  · split
    · exact this
    · exact List.mem_append_left _ this
  · exact this

theorem invert_tgt (m : Model) (t : Triple) : (m.invert t).tgt = .str t.src := by
  unfold Model.invert; split <;> rfl

theorem invert_src (m : Model) (t : Triple) (b : Str) (h : t.tgt = .str b) : (m.invert t).src = b := by
  unfold Model.invert; rw [h]

/-- the invariants of the loop used for completeness -/
structure CInv (m : Model) (g : Graph) (data skipped : List Datum) (st : St) : Prop where
  good : Good st
  keys : ∀ v ∈ g.variables, HasKey st v
  ends : ∀ tr ∈ pending data ++ pending skipped,
    tr.src ∈ g.variables ∨ (tr.role ≠ CONCEPT_ROLE ∧ ∃ v ∈ g.variables, tr.tgt = .str v)
  rnc : ∀ tr ∈ pending data ++ pending skipped, RNC m tr
  j4 : ∀ tr ∈ pending skipped,
    ¬ Avail st tr.src ∧ (tr.role = CONCEPT_ROLE ∨ ∀ w, tr.tgt = .str w → ¬ Avail st w)
  j2 : ∀ t ∈ g.triples, t.role ≠ CONCEPT_ROLE → ∀ b ∈ g.variables, t.tgt = .str b →
    (Avail st t.src ∧ Avail st b) ∨ ∃ tr ∈ pending data ++ pending skipped, tr = t ∨ tr = m.invert t
  head : data = [] ∨ ∃ tr p e r, data = Datum.t tr p e :: r
  skne : skipped ≠ [] → pending skipped ≠ []

theorem stripPops_head : ∀ l, stripPops l = [] ∨ ∃ tr p e r, stripPops l = Datum.t tr p e :: r := by
  intro l
  fun_induction stripPops l
  · rename_i ih; exact ih
  · rename_i d hd
    cases d with
    | nil => exact Or.inl rfl
    | cons x r =>
      cases x with
      | pop => exact absurd rfl (hd r)
      | t tr p e => exact Or.inr ⟨tr, p, e, r, rfl⟩

/-- a consumed version of `t` has both ends available -/
theorem version_ends {m : Model} {g : Graph} {st : St} {t x : Triple} {b : Str}
    (hn : NoInstOf m g) (ht : t ∈ g.triples) (hr : t.role ≠ CONCEPT_ROLE) (hb : b ∈ g.variables)
    (htb : t.tgt = .str b) (hx : x = t ∨ x = m.invert t) (he : EndsAvail g.variables st x) :
    Avail st t.src ∧ Avail st b := by
  rcases hx with rfl | rfl
  · exact ⟨he.1 (src_mem_variables ht), he.2 hr b hb htb⟩
  · refine ⟨?_, ?_⟩
    · apply he.2 _ t.src (src_mem_variables ht) (invert_tgt m t)
      rw [invert_role]; exact (hn t ht hr).1
    · have := he.1 (by rw [invert_src m t b htb]; exact hb)
      rwa [invert_src m t b htb] at this

theorem cinv_round {m : Model} {g : Graph} {a b} (hn : NoInstOf m g) (h : Round m a b)
    (hc : CInv m g a.1 a.2.1 a.2.2) :
    CInv m g b.1 b.2.1 b.2.2 ∧ ∀ w, Avail a.2.2 w → Avail b.2.2 w := by
  cases h with
  | @skip data skipped st sk v st1 tr push epis rest hfn ho =>
    obtain ⟨hcat, _⟩ := findNext_some _ _ _ hfn
    simp only [List.reverse_nil, List.nil_append] at hcat
    have hspec := findNext_spec data [] st
    have hgf := good_findNext data [] st hc.good
    rw [hfn] at hspec hgf
    obtain ⟨hav, hkey, _, hsome⟩ := hspec
    obtain ⟨sk', hsk, hunav, tr', p', e', rest', hd', hsrc⟩ := hsome v rfl
    simp only [List.reverse_nil, List.nil_append] at hsk
    subst hsk
    simp only [List.cons.injEq, Datum.t.injEq] at hd'
    obtain ⟨⟨rfl, rfl, rfl⟩, rfl⟩ := hd'
    have hpend : ∀ x, x ∈ pending (stripPops rest) ++ pending (sk ++ skipped ++ [.t tr push epis]) ↔
        x ∈ pending data ++ pending skipped := by
      intro x
      simp only [← hcat, pending_append, pending, pending_stripPops, List.mem_append, List.mem_cons,
        List.mem_nil_iff, or_false]
      grind
    -- the refused datum is a blocked instance triple
    have hblocked : ¬ Avail st tr.src ∧ tr.role = CONCEPT_ROLE := by
      unfold orient at ho
      split at ho
      · simp at ho
      · rename_i hne
        split at ho
        · simp at ho
        · rename_i hnt
          rcases hsrc with h | ⟨h1, h2⟩
          · exact absurd h hne
          · refine ⟨h2, ?_⟩
            by_cases hcr : tr.role = CONCEPT_ROLE
            · exact hcr
            · exact absurd ⟨h1, hcr⟩ hnt
    refine ⟨⟨hgf.1, fun w hw => (hkey w).2 (hc.keys w hw), ?_, ?_, ?_, ?_, stripPops_head _, ?_⟩,
      fun w hw => (hav w).2 hw⟩
    · intro x hx; exact hc.ends x ((hpend x).1 hx)
    · intro x hx; exact hc.rnc x ((hpend x).1 hx)
    · intro x hx
      simp only [pending_append, pending, List.mem_append, List.mem_cons, List.mem_nil_iff, or_false] at hx
      rcases hx with (hx | hx) | hx
      · obtain ⟨u1, u2⟩ := hunav x hx
        exact ⟨fun ha => u1 ((hav _).1 ha), Or.inr fun w hw ha => u2 w hw ((hav _).1 ha)⟩
      · obtain ⟨u1, u2⟩ := hc.j4 x hx
        refine ⟨fun ha => u1 ((hav _).1 ha), ?_⟩
        rcases u2 with u2 | u2
        · exact Or.inl u2
        · exact Or.inr fun w hw ha => u2 w hw ((hav _).1 ha)
      · subst hx
        exact ⟨fun ha => hblocked.1 ((hav _).1 ha), Or.inl hblocked.2⟩
    · intro t ht hr b hb htb
      rcases hc.j2 t ht hr b hb htb with ⟨h1, h2⟩ | ⟨x, hx, hv⟩
      · exact Or.inl ⟨(hav _).2 h1, (hav _).2 h2⟩
      · exact Or.inr ⟨x, (hpend x).2 hx, hv⟩
    · intro _
      simp [pending_append, pending]
  | @prog data skipped st sk v st1 tr push epis rest hfn ho =>
    obtain ⟨hcat, _⟩ := findNext_some _ _ _ hfn
    simp only [List.reverse_nil, List.nil_append] at hcat
    have hspec := findNext_spec data [] st
    have hgf := good_findNext data [] st hc.good
    rw [hfn] at hspec hgf
    obtain ⟨hav, hkey, _, _⟩ := hspec
    obtain ⟨g1, e1, o1⟩ := hgf
    have hr1 : ∀ t ∈ pending (.t tr push epis :: rest), RNC m t := by
      intro t ht; apply hc.rnc
      simp only [← hcat, pending_append]
      exact List.mem_append_left _ (List.mem_append_right _ ht)
    obtain ⟨g2, _⟩ := good_cn m (rest.length + 2) v (.t tr push epis :: rest) st1 false g1 (o1 v rfl)
    obtain ⟨mono, c, hcc, hE⟩ := cn_avail m g.variables (rest.length + 2) v (.t tr push epis :: rest) st1 false
      (o1 v rfl) (fun w hw => (hkey w).2 (hc.keys w hw)) hr1
    have hdata : pending data = pending sk ++ (pending c ++
        pending (configureNode m (rest.length + 2) v (.t tr push epis :: rest) st1 false).1) := by
      rw [← hcat, pending_append, ← pending_append c, ← hcc]
    have hsub : ∀ x, x ∈ pending (stripPops ((configureNode m (rest.length + 2) v (.t tr push epis :: rest) st1 false).1
        ++ (sk ++ skipped))) ++ pending [] → x ∈ pending data ++ pending skipped := by
      intro x hx
      simp only [hdata, pending_append, pending, pending_stripPops, List.mem_append, List.append_nil] at hx ⊢
      rcases hx with h | h | h <;> simp [h]
    refine ⟨⟨g2, fun w hw => mono.2.1 _ ((hkey w).2 (hc.keys w hw)), ?_, ?_, ?_, ?_, stripPops_head _, ?_⟩,
      fun w hw => mono.1 _ ((hav w).2 hw)⟩
    · intro x hx; exact hc.ends x (hsub x hx)
    · intro x hx; exact hc.rnc x (hsub x hx)
    · intro x hx; simp [pending] at hx
    · intro t ht hr b hb htb
      rcases hc.j2 t ht hr b hb htb with ⟨h1, h2⟩ | ⟨x, hx, hv⟩
      · exact Or.inl ⟨mono.1 _ ((hav _).2 h1), mono.1 _ ((hav _).2 h2)⟩
      · simp only [hdata, List.mem_append] at hx
        rcases hx with (hx | hx | hx) | hx
        · exact Or.inr ⟨x, by simp [pending_append, pending_stripPops, hx], hv⟩
        · exact Or.inl (version_ends hn ht hr hb htb hv (hE x hx))
        · exact Or.inr ⟨x, by simp [pending_append, pending_stripPops, hx], hv⟩
        · exact Or.inr ⟨x, by simp [pending_append, pending_stripPops, hx], hv⟩
    · intro h; exact absurd rfl h


/-! ### the frontier argument -/

theorem reach_frontier {g : Graph} {st : St} {top v : Str} (hr : Reach g top v) (ht : Avail st top)
    (hv : ¬ Avail st v) : ∃ b c, Adj g b c ∧ Avail st b ∧ ¬ Avail st c := by
  induction hr with
  | refl => exact absurd ht hv
  | @step b c _ hadj ih =>
    by_cases hb : Avail st b
    · exact ⟨b, c, hadj, hb, hv⟩
    · exact ih hb

/-- if some variable is not yet available, a datum with an available end is waiting in `data` -/
theorem frontier {m : Model} {g : Graph} {data skipped : List Datum} {st : St} {top v : Str}
    (hn : NoInstOf m g) (hc : CInv m g data skipped st) (ht : Avail st top)
    (hreach : ∀ v ∈ g.variables, Reach g top v) (hv : v ∈ g.variables) (hnv : ¬ Avail st v) :
    ∃ x ∈ pending data, ¬ Unav st x := by
  obtain ⟨b, c, ⟨t, htm, hrole, hb, hcv, hdir⟩, hab, hnc⟩ := reach_frontier (hreach v hv) ht hnv
  -- the joining triple is not placed, hence pending; it cannot be in `skipped`
  have key : ∀ b' c', t.src = b' → t.tgt = .str c' → c' ∈ g.variables → (Avail st b' ∨ Avail st c') →
      ¬ (Avail st b' ∧ Avail st c') → ∃ x ∈ pending data, ¬ Unav st x := by
    intro b' c' hs htg hc' hor hnand
    rcases hc.j2 t htm hrole c' hc' htg with h | ⟨x, hx, hver⟩
    · rw [hs] at h; exact absurd h hnand
    · have hxav : ¬ Unav st x := by
        intro hu
        rcases hver with rfl | rfl
        · rcases hor with h | h
          · exact hu.1 (hs ▸ h)
          · exact hu.2 c' htg h
        · rcases hor with h | h
          · exact hu.2 b' (by rw [invert_tgt, hs]) h
          · exact hu.1 (by rw [invert_src m t c' htg]; exact h)
      have hxrole : x.role ≠ CONCEPT_ROLE := by
        rcases hver with rfl | rfl
        · exact hrole
        · rw [invert_role]; exact (hn t htm hrole).1
      simp only [List.mem_append] at hx
      rcases hx with hx | hx
      · exact ⟨x, hx, hxav⟩
      · exfalso
        obtain ⟨j1, j2⟩ := hc.j4 x hx
        rcases j2 with j2 | j2
        · exact hxrole j2
        · exact hxav ⟨j1, j2⟩
  rcases hdir with ⟨h1, h2⟩ | ⟨h1, h2⟩
  · exact key b c h1 h2 hcv (Or.inl hab) (fun h => hnc h.2)
  · exact key c b h1 h2 hb (Or.inr hab) (fun h => hnc h.1)

theorem cinv_found {m : Model} {g : Graph} {d : Datum} {data skipped : List Datum} {st : St} {top : Str}
    (hn : NoInstOf m g) (hc : CInv m g (d :: data) skipped st) (ht : Avail st top)
    (hreach : ∀ v ∈ g.variables, Reach g top v) : (findNext (d :: data) [] st).2.1 ≠ none := by
  intro hnone
  have hun := (findNext_spec (d :: data) [] st).2.2.1 hnone
  by_cases hall : ∀ v ∈ g.variables, Avail st v
  · rcases hc.head with h | ⟨tr, p, e, r, h⟩
    · simp at h
    · have hmem : tr ∈ pending (d :: data) := by rw [h]; simp [pending]
      obtain ⟨u1, u2⟩ := hun tr hmem
      rcases hc.ends tr (List.mem_append_left _ hmem) with h1 | ⟨_, w, hw, h2⟩
      · exact u1 (hall _ h1)
      · exact u2 w h2 (hall w hw)
  · have : ∃ v, v ∈ g.variables ∧ ¬ Avail st v := by
      apply Classical.byContradiction
      intro hne
      apply hall
      intro v hv
      apply Classical.byContradiction
      intro hnv
      exact hne ⟨v, hv, hnv⟩
    obtain ⟨v, hv, hnv⟩ := this
    obtain ⟨x, hx, hxa⟩ := frontier hn hc ht hreach hv hnv
    exact hxa (hun x hx)

theorem cinv_done {m : Model} {g : Graph} {skipped : List Datum} {st : St} {top : Str}
    (hn : NoInstOf m g) (hc : CInv m g [] skipped st) (ht : Avail st top)
    (hreach : ∀ v ∈ g.variables, Reach g top v) : skipped = [] := by
  apply Classical.byContradiction
  intro hne
  have hp := hc.skne hne
  by_cases hall : ∀ v ∈ g.variables, Avail st v
  · cases hps : pending skipped with
    | nil => exact hp hps
    | cons x r =>
      have hx : x ∈ pending skipped := by rw [hps]; simp
      obtain ⟨j1, j2⟩ := hc.j4 x hx
      rcases hc.ends x (List.mem_append_right _ hx) with h1 | ⟨hr, w, hw, h2⟩
      · exact j1 (hall _ h1)
      · rcases j2 with j2 | j2
        · exact hr j2
        · exact j2 w h2 (hall w hw)
  · have : ∃ v, v ∈ g.variables ∧ ¬ Avail st v := by
      apply Classical.byContradiction
      intro hne
      apply hall
      intro v hv
      apply Classical.byContradiction
      intro hnv
      exact hne ⟨v, hv, hnv⟩
    obtain ⟨v, hv, hnv⟩ := this
    obtain ⟨x, hx, _⟩ := frontier hn hc ht hreach hv hnv
    simp [pending] at hx

/-- on a connected graph the loop succeeds -/
theorem loop_complete {m : Model} {g : Graph} {top : Str} (hn : NoInstOf m g)
    (hreach : ∀ v ∈ g.variables, Reach g top v) : ∀ fuel data skipped st, psi data skipped < fuel →
    CInv m g data skipped st → Avail st top → ∃ st', configureLoop m fuel data skipped st = .ok st' := by
  intro fuel
  induction fuel with
  | zero => intro data skipped st h; omega
  | succ fuel ih =>
    intro data skipped st hpsi hc ht
    cases data with
    | nil =>
      have := cinv_done hn hc ht hreach
      subst this
      exact ⟨st, by simp [configureLoop]⟩
    | cons d data =>
      rcases loop_cases m d data skipped st with ⟨hnone, _⟩ | ⟨nx, hr, e⟩
      · exact absurd hnone (cinv_found hn hc ht hreach)
      · rw [e]
        obtain ⟨hc', hav⟩ := cinv_round hn hr hc
        have := round_psi hr
        exact ih _ _ _ (by simp only [] at this; omega) hc' (hav _ ht)

end Cfg

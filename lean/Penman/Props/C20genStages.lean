import Penman.Props.C03
import Penman.Props.C05a
import Penman.Props.C06
import Penman.Props.C11
import Penman.Props.C12
import Penman.Props.C02
import Penman.Proofs.NormalFormGraphStages
import Penman.Proofs.NormalFormGraphDereify
import Penman.Proofs.NormalFormGraphDecoded
/-!
# C20 (normal-form clause), GRAPH half — when is the re-decoded graph a fixed point of the stages?

`Penman/Props/C20gen.lean` proves the normal-form clause for the graph stages under the decidable
hypothesis `StagesFixed o R` on the PRINTED tree `R` (the graph decoded from `R` has no reifiable role /
an empty dereification agenda / no attribute, for the stages that are switched on).  This file derives
`StagesFixed` from conditions on the FIRST-PASS graph `g1 = stages (interpret T)`, by composing
C03 (`interpret (configure g1)` has the variables of `g1` and the triples of `g1`, each possibly inverted),
C05a (`rearrange` permutes the decoded triples), C06 (`configure` succeeds only on connected graphs),
C11 (`C11_reify_no_reifiable`) and C12 (`C12_attributes_none`).
(It cannot be imported together with Props/C20gen.lean: `Proofs/Transform/Basic.lean` and
`Proofs/ParseMeta.lean` both declare `Penman.AList.set_of_not_mem`; no proof text depends on which.)

Vocabulary: `NoInvReifiable m g` (below; decidable): no relation of `g` that can be written inverted —
its inversion has a variable as source — has a REIFIABLE inverted role.  This is the hypothesis that
excludes finding F18: after `--reify-attributes`, the attribute `(a :mod-of 7)` is the relation
`(a :mod-of _)`, whose inversion `(_ :mod a)` is reifiable (`F18_violates`).

Clause ↦ theorem
* (a) `reify_edges` is the identity on the re-decoded graph ↦ `noReifiable_decoded`
  (from `NoReifiable m g1`, `NoInvReifiable m g1`); `noReifiable_stages`: `NoReifiable m g1` holds by
  itself when `--reify-edges` is on and `--dereify-edges` is off (C11, `ReifWf`).
* (b) `reify_attributes` is the identity on the re-decoded graph ↦ `noAttributes_decoded`
  (from `NoAttributes g1`); `noAttributes_stages`: `NoAttributes g1` holds by itself when
  `--reify-attributes` is on (C12; it is the last stage).
* (c) `dereify_edges` is the identity on the re-decoded graph:
  - `dereify_edges_idempotent` (PROVED, Proofs/NormalFormGraphDereify.lean): for every model with a well-formed
    reification table (`ReifWf`) and every graph with coloned roles, after one pass of `dereify_edges` the
    agenda is empty — a collapse only adds a relation with a REIFIABLE role, which is never one of the two
    relations of a collapsible node (their roles are source/target roles of a reification, not reifiable);
    `noCollapsible_stages`: so `NoCollapsible m g1` holds by itself when `--dereify-edges` is on and
    `--reify-attributes` is off;
  - `noCollapsible_perm` (PROVED): `NoCollapsible` does not depend on the order of the triples nor on the
    markers (one node label per variable);
  - `decoded_perm` (PROVED; with `interpret_normal`, Proofs/NormalFormGraphDecoded.lean: decoded graphs have no
    inverted role towards a variable): if `g1` is in decoded normal form (`D1Normal`, decidable — true of
    what the stages make of a decoded graph, as reification tables have no `-of` roles), the graph decoded
    from the printed tree has exactly the triples of `g1`, up to order;
  - `noCollapsible_decoded`: hence `NoCollapsible m g1` carries over to the re-decoded graph.
* all three, for the printed tree with or without `--rearrange` ↦ `stagesFixed_of_first` (agenda as a
  hypothesis on the printed tree) and `stagesFixed_of_first_graph` (all hypotheses on `g1` and `T1`).
-/
namespace Penman.C20gen
open Penman Penman.Cfg

/-- no relation that may be written inverted (the source of its inversion is a variable) has a
    reifiable inverted role -/
def NoInvReifiable (m : Model) (g : Graph) : Prop :=
  ∀ t ∈ g.triples, (m.invert t).src ∈ g.variables → m.isReifiable (m.invertRole t.role) = false

instance (m : Model) (g : Graph) : Decidable (NoInvReifiable m g) := by unfold NoInvReifiable; infer_instance

/-! ### what decoding the encoded graph gives (C03 + C06) -/

/-- if `configure` succeeded on a well-formed graph, the graph decoded from the printed tree has the same
    variables, the same top, and its triples are triples of `g`, each possibly inverted -/
theorem decoded_of_configured (isAlpha : Char → Bool) {m : Model} {g : Graph} {T : Tree} {g' : Graph}
    (hw : ModelWf m) (hnoop : m.noop = false) (hg : Cfg.WfGraph m g) (hnum : NoNum g)
    (hpv : Cfg.PushVars g) (hps : PushSrcOK g) (htop : ∀ t, g.getTop = some t → TopOK g t)
    (hcf : configure m g none = .ok T) (hi : interpret isAlpha m T = .ok g') :
    (∀ x, x ∈ g'.variables ↔ x ∈ g.variables) ∧ g'.getTop = g.getTop ∧
    (∀ x ∈ g'.triples, ∃ t0 ∈ g.triples, x = t0 ∨ x = m.invert t0) := by
  obtain ⟨t, ht, htv, hr⟩ := Cfg.configure_success_connected hg.noInstOf hpv hg.nonempty hcf
  have ht' : g.getTop = some t := ht
  obtain ⟨T0, g0, h1, h2, h3, h4, _, h6⟩ := C03 isAlpha (top := none) hw hnoop hg hnum hpv hps ht htv
    (hr (htop t ht'))
  rw [hcf] at h1
  simp only [Except.ok.injEq] at h1
  subst h1
  rw [hi] at h2
  simp only [Except.ok.injEq] at h2
  subst h2
  exact ⟨h4, by rw [h3, ht'], h6⟩

/-! ### (a) no reifiable role -/

theorem noReifiable_decoded (isAlpha : Char → Bool) {m : Model} {g : Graph} {T : Tree} {g' : Graph}
    (hw : ModelWf m) (hnoop : m.noop = false) (hg : Cfg.WfGraph m g) (hnum : NoNum g)
    (hpv : Cfg.PushVars g) (hps : PushSrcOK g) (htop : ∀ t, g.getTop = some t → TopOK g t)
    (hcf : configure m g none = .ok T) (hi : interpret isAlpha m T = .ok g')
    (h1 : NoReifiable m g) (h2 : NoInvReifiable m g) : NoReifiable m g' := by
  obtain ⟨hv, _, ht⟩ := decoded_of_configured isAlpha hw hnoop hg hnum hpv hps htop hcf hi
  intro x hx
  obtain ⟨t0, ht0, rfl | rfl⟩ := ht x hx
  · exact h1 _ ht0
  · rw [Cfg.invert_role]
    exact h2 t0 ht0 ((hv _).1 (Penman.src_mem_variables hx))

/-! ### (b) no attribute -/

theorem noAttributes_iff (g : Graph) : NoAttributes g ↔ g.attributes = [] := by
  have hf : g.filterTriples none none none = g.triples := by
    unfold Graph.filterTriples
    exact List.filter_eq_self.2 (fun _ _ => by simp)
  unfold NoAttributes Graph.attributes
  rw [hf]
  simp only [List.filter_eq_nil_iff, Bool.and_eq_true, decide_eq_true_eq, Bool.not_eq_true', not_and,
    Bool.not_eq_false]
  constructor
  · intro h t ht hr
    rcases h t ht with h1 | h1
    · exact absurd h1 hr
    · cases htg : t.tgt with
      | str s => rw [htg] at h1; simpa [Graph.isVar, atomInVars] using h1
      | none => rw [htg] at h1; simp [atomInVars] at h1
      | num s => rw [htg] at h1; simp [atomInVars] at h1
  · intro h t ht
    by_cases hr : t.role = CONCEPT_ROLE
    · exact Or.inl hr
    · right
      have := h t ht hr
      cases htg : t.tgt with
      | str s => rw [htg] at this; simpa [Graph.isVar, atomInVars] using this
      | none => rw [htg] at this; simp [Graph.isVar] at this
      | num s => rw [htg] at this; simp [Graph.isVar] at this

theorem atomInVars_congr {a b : List Str} (h : ∀ x, x ∈ a ↔ x ∈ b) (t : Atom) : atomInVars a t = atomInVars b t := by
  cases t with
  | str s =>
    simp only [atomInVars]
    by_cases hs : s ∈ a
    · simp [hs, (h s).1 hs]
    · have : s ∉ b := fun h' => hs ((h s).2 h')
      simp [hs, this]
  | none => rfl
  | num _ => rfl

theorem noAttributes_decoded (isAlpha : Char → Bool) {m : Model} {g : Graph} {T : Tree} {g' : Graph}
    (hw : ModelWf m) (hnoop : m.noop = false) (hg : Cfg.WfGraph m g) (hnum : NoNum g)
    (hpv : Cfg.PushVars g) (hps : PushSrcOK g) (htop : ∀ t, g.getTop = some t → TopOK g t)
    (hcf : configure m g none = .ok T) (hi : interpret isAlpha m T = .ok g')
    (h1 : NoAttributes g) : NoAttributes g' := by
  obtain ⟨hv, _, ht⟩ := decoded_of_configured isAlpha hw hnoop hg hnum hpv hps htop hcf hi
  intro x hx
  obtain ⟨t0, ht0, rfl | rfl⟩ := ht x hx
  · rcases h1 _ ht0 with h | h
    · exact Or.inl h
    · exact Or.inr (by rw [atomInVars_congr hv]; exact h)
  · right
    rw [Cfg.invert_tgt, atomInVars_congr hv]
    simp [atomInVars, Penman.src_mem_variables ht0]

/-! ### the conditions on `g1` that hold by themselves after the corresponding stage (C11, C12) -/

/-- `--reify-attributes` keeps the graph free of reifiable roles -/
theorem noReifiable_reifyAttributes {m : Model} {g : Graph} (hm : ReifWf m) (hg : RolesColon g)
    (h : NoReifiable m g) : NoReifiable m (reifyAttributes g) := by
  intro t1 h1
  rcases mem_attrResult hg h1 with h2 | h2 | ⟨t, ht, _, hr, _⟩
  · exact h _ h2
  · rw [h2]; exact hm.2
  · rw [hr]; exact h t ht

/-- with `--reify-edges` on and `--dereify-edges` off, the first-pass graph has no reifiable role -/
theorem noReifiable_stages {m : Model} {o : Opts} {g0 g1 : Graph} (hm : ReifWf m) (hg : RolesColon g0)
    (hre : o.reifyEdges = true) (hde : o.dereifyEdges = false) (h : stages m o g0 = .ok g1) :
    NoReifiable m g1 := by
  unfold stages at h
  simp only [hre, hde, if_true, Bool.false_eq_true, if_false, bind, Except.bind, pure, Except.pure] at h
  cases hr : reifyEdges m g0 with
  | error e => rw [hr] at h; cases h
  | ok ga =>
    rw [hr] at h
    simp only [Except.ok.injEq] at h
    have h1 : NoReifiable m ga := C11_reify_no_reifiable hm hg hr
    have hc : RolesColon ga := by
      obtain ⟨rev, st, _, _, hres⟩ := reifyEdges_run m g0
      rw [hr] at hres
      simp only [Except.ok.injEq] at hres
      rw [hres]; exact mk'_rolesColon _ _ _ _
    subst h
    split
    · exact noReifiable_reifyAttributes hm hc h1
    · exact h1

/-- with `--reify-attributes` on, the first-pass graph has no attribute -/
theorem noAttributes_stages {m : Model} {o : Opts} {g0 g1 : Graph} (hra : o.reifyAttributes = true)
    (h : stages m o g0 = .ok g1) : NoAttributes g1 := by
  unfold stages at h
  simp only [hra, if_true, bind, Except.bind, pure, Except.pure] at h
  have key : ∀ g : Graph, NoAttributes (reifyAttributes g) :=
    fun g => (noAttributes_iff _).2 (C12_attributes_none g)
  cases hre : o.reifyEdges <;> cases hde : o.dereifyEdges <;>
    simp only [hre, hde, Bool.false_eq_true, if_false, if_true] at h
  · cases h; exact key _
  · cases hd : dereifyEdges m g0 with
    | error e => rw [hd] at h; cases h
    | ok gb => rw [hd] at h; cases h; exact key _
  · cases hr : reifyEdges m g0 with
    | error e => rw [hr] at h; cases h
    | ok ga => rw [hr] at h; cases h; exact key _
  · cases hr : reifyEdges m g0 with
    | error e => rw [hr] at h; cases h
    | ok ga =>
      rw [hr] at h
      simp only at h
      cases hd : dereifyEdges m ga with
      | error e => rw [hd] at h; cases h
      | ok gb => rw [hd] at h; cases h; exact key _

/-! ### the printed tree, with or without `--rearrange` -/

/-- the graph decoded from the rearranged tree has the triples of the graph decoded from the tree, up to
    order, and the same variables -/
theorem decoded_rearrangeOpt (isAlpha : Char → Bool) (m : Model) (re : Option (List KeyFn × Bool)) (T : Tree)
    (g g2 : Graph) (h : interpret isAlpha m T = .ok g) (h2 : interpret isAlpha m (rearrangeOpt m re T) = .ok g2) :
    g2.triples.Perm g.triples ∧ ∀ x, x ∈ g2.variables ↔ x ∈ g.variables := by
  cases re with
  | none =>
    simp only [rearrangeOpt] at h2
    rw [h] at h2; cases h2
    exact ⟨List.Perm.refl _, fun _ => Iff.rfl⟩
  | some p =>
    obtain ⟨ks, af⟩ := p
    simp only [rearrangeOpt] at h2
    obtain ⟨g3, a1, a2, a3, _⟩ := rearrange_graph isAlpha m m (some ks) af T g h
    rw [a1] at h2; cases h2
    refine ⟨a3, ?_⟩
    intro x
    rw [mem_variables, mem_variables, a2]
    constructor
    · rintro (⟨t, ht, hs⟩ | ht)
      · exact Or.inl ⟨t, a3.subset ht, hs⟩
      · exact Or.inr ht
    · rintro (⟨t, ht, hs⟩ | ht)
      · exact Or.inl ⟨t, a3.symm.subset ht, hs⟩
      · exact Or.inr ht

/-- **`StagesFixed` from the first-pass graph.**  `g1` is the first-pass graph, `T1` its encoding (without
    empty concept slot: `Penman.C20gen.configure_wfLayout`), `R = nfTree m re T1` the printed tree.
    * `--reify-edges`: `g1` has no reifiable role, also not after inverting a relation towards a variable;
    * `--reify-attributes`: `g1` has no attribute;
    * `--dereify-edges`: the graph decoded from `R` has an empty agenda (hypothesis on `R`). -/
theorem stagesFixed_of_first (isAlpha : Char → Bool) {m : Model} (o : Opts) (re : Option (List KeyFn × Bool))
    {g1 : Graph} {T1 : Tree} (hw : ModelWf m) (hnoop : m.noop = false) (hg : Cfg.WfGraph m g1) (hnum : NoNum g1)
    (hpv : Cfg.PushVars g1) (hps : PushSrcOK g1) (htop : ∀ t, g1.getTop = some t → TopOK g1 t)
    (hcf : configure m g1 none = .ok T1) (hnn : noNullN T1.node = true)
    (hdec : ∃ g', interpret isAlpha m T1 = .ok g')
    (h1 : o.reifyEdges = true → NoReifiable m g1 ∧ NoInvReifiable m g1)
    (h2 : o.dereifyEdges = true → ∀ g2, interpret isAlpha m (nfTree m re T1) = .ok g2 → NoCollapsible m g2)
    (h3 : o.reifyAttributes = true → NoAttributes g1) :
    StagesFixed isAlpha m o (nfTree m re T1) := by
  intro g2 hg2
  obtain ⟨g', hg'⟩ := hdec
  have hR : nfTree m re T1 = rearrangeOpt m re T1 := by
    unfold nfTree; rw [C02P.dropNull_id _ hnn]
  rw [hR] at hg2
  obtain ⟨hperm, hvars⟩ := decoded_rearrangeOpt isAlpha m re T1 g' g2 hg' hg2
  refine ⟨?_, ?_, ?_⟩
  · intro hc
    have := noReifiable_decoded isAlpha hw hnoop hg hnum hpv hps htop hcf hg' (h1 hc).1 (h1 hc).2
    exact fun t ht => this t (hperm.subset ht)
  · intro hc
    exact h2 hc g2 (by rw [hR]; exact hg2)
  · intro hc
    have := noAttributes_decoded isAlpha hw hnoop hg hnum hpv hps htop hcf hg' (h3 hc)
    intro t ht
    rcases this t (hperm.subset ht) with h | h
    · exact Or.inl h
    · exact Or.inr (by rw [atomInVars_congr hvars]; exact h)

/-! ### (c) the dereification agenda -/

/-- **`dereify_edges` is idempotent**: after one pass, no node is collapsible -/
theorem dereify_edges_idempotent {m : Model} {g g1 : Graph} (hm : ReifWf m) (hg : RolesColon g)
    (h : dereifyEdges m g = .ok g1) : NoCollapsible m g1 :=
  dereify_idempotent hm hg h

/-- … in particular `dereify_edges` applied twice is `dereify_edges` applied once (up to the normalisation
    `Graph.__init__` performs on a graph that is not yet a `PyGraph`) -/
theorem dereify_edges_twice {m : Model} {g g1 : Graph} (hm : ReifWf m) (hg : RolesColon g)
    (h : dereifyEdges m g = .ok g1) (hp : PyGraph g1) : dereifyEdges m g1 = .ok g1 :=
  dereifyEdges_idle hp (dereify_idempotent hm hg h)

/-- the first-pass graph is in decoded normal form: no inverted role towards a variable -/
def D1Normal (m : Model) (g : Graph) : Prop := ∀ t ∈ g.triples, deinvert1 m g t = t

instance (m : Model) (g : Graph) : Decidable (D1Normal m g) := by unfold D1Normal; infer_instance

/-- with `--dereify-edges` on and `--reify-attributes` off, the first-pass graph has an empty agenda -/
theorem noCollapsible_stages {m : Model} {o : Opts} {g0 g1 : Graph} (hm : ReifWf m) (hg : RolesColon g0)
    (hde : o.dereifyEdges = true) (hra : o.reifyAttributes = false) (h : stages m o g0 = .ok g1) :
    NoCollapsible m g1 := by
  unfold stages at h
  simp only [hde, hra, if_true, Bool.false_eq_true, if_false, bind, Except.bind, pure, Except.pure] at h
  cases hre : o.reifyEdges <;> simp only [hre, Bool.false_eq_true, if_false, if_true] at h
  · cases hd : dereifyEdges m g0 with
    | error e => rw [hd] at h; cases h
    | ok gb => rw [hd] at h; cases h; exact dereify_idempotent hm hg hd
  · cases hr : reifyEdges m g0 with
    | error e => rw [hr] at h; cases h
    | ok ga =>
      rw [hr] at h
      simp only at h
      have hc : RolesColon ga := by
        obtain ⟨rev, st, _, _, hres⟩ := reifyEdges_run m g0
        rw [hr] at hres
        simp only [Except.ok.injEq] at hres
        rw [hres]; exact mk'_rolesColon _ _ _ _
      cases hd : dereifyEdges m ga with
      | error e => rw [hd] at h; cases h
      | ok gb => rw [hd] at h; cases h; exact dereify_idempotent hm hc hd

/-- **the re-decoded graph has exactly the triples of a first-pass graph in decoded normal form** -/
theorem decoded_perm (isAlpha : Char → Bool) {m : Model} {g : Graph} {T : Tree} {g' : Graph}
    (hw : ModelWf m) (hnoop : m.noop = false) (hg : Cfg.WfGraph m g) (hnum : NoNum g)
    (hpv : Cfg.PushVars g) (hps : PushSrcOK g) (htop : ∀ t, g.getTop = some t → TopOK g t)
    (hcf : configure m g none = .ok T) (hi : interpret isAlpha m T = .ok g')
    (hwf : wfNodeB isAlpha m T.node = true) (hn : D1Normal m g) : g'.triples.Perm g.triples := by
  obtain ⟨t, ht, htv, hr⟩ := Cfg.configure_success_connected hg.noInstOf hpv hg.nonempty hcf
  have ht' : g.getTop = some t := ht
  obtain ⟨T0, g0, h1, h2, _, _, h5, _⟩ := C03 isAlpha (top := none) hw hnoop hg hnum hpv hps ht htv
    (hr (htop t ht'))
  obtain ⟨T0', h1', _, _, hvars, _⟩ := C03_tree (top := none) hw hg hpv hps ht htv (hr (htop t ht'))
  rw [hcf] at h1 h1'
  simp only [Except.ok.injEq] at h1 h1'
  subst h1
  subst h1'
  rw [hi] at h2
  simp only [Except.ok.injEq] at h2
  subst h2
  have e1 : g.triples.map (deinvert1 m g) = g.triples := by
    conv => rhs; rw [← List.map_id g.triples]
    exact List.map_congr_left (fun x hx => hn x hx)
  have e2 : g'.triples.map (deinvert1 m g) = g'.triples := by
    conv => rhs; rw [← List.map_id g'.triples]
    apply List.map_congr_left
    intro x hx
    have := interpret_normal isAlpha m hnoop hwf hi x hx
    unfold deinvert1
    rw [if_neg]; · rfl
    rintro ⟨a1, a2⟩
    apply this
    refine ⟨a1, ?_⟩
    rw [atomInVars_congr hvars]
    cases htg : x.tgt with
    | str s => rw [htg] at a2; simpa [Graph.isVar, atomInVars] using a2
    | none => rw [htg] at a2; simp [Graph.isVar] at a2
    | num s => rw [htg] at a2; simp [Graph.isVar] at a2
  rw [e1, e2] at h5
  exact h5

theorem oneLabel_perm {l l' : List Triple} (hp : l'.Perm l)
    (h : ((l.filter (fun t => t.role = CONCEPT_ROLE)).map (·.src)).Nodup) :
    ((l'.filter (fun t => t.role = CONCEPT_ROLE)).map (·.src)).Nodup :=
  (((hp.filter _).map _).nodup_iff).2 h

/-- `NoCollapsible` of the first-pass graph carries over to the graph decoded from its encoding -/
theorem noCollapsible_decoded (isAlpha : Char → Bool) {m : Model} {g : Graph} {T : Tree} {g' : Graph}
    (hw : ModelWf m) (hnoop : m.noop = false) (hm : ReifWf m) (hg : Cfg.WfGraph m g) (hnum : NoNum g)
    (hpv : Cfg.PushVars g) (hps : PushSrcOK g) (htop : ∀ t, g.getTop = some t → TopOK g t)
    (hcf : configure m g none = .ok T) (hi : interpret isAlpha m T = .ok g')
    (hwf : wfNodeB isAlpha m T.node = true) (hn : D1Normal m g)
    (hone : ((g.triples.filter (fun t => t.role = CONCEPT_ROLE)).map (·.src)).Nodup)
    (h : NoCollapsible m g) : NoCollapsible m g' := by
  have hp := decoded_perm isAlpha hw hnoop hg hnum hpv hps htop hcf hi hwf hn
  obtain ⟨_, htp, _⟩ := decoded_of_configured isAlpha hw hnoop hg hnum hpv hps htop hcf hi
  exact noCollapsible_perm hm hp htp hone h

/-- **`StagesFixed` from the first pass only**: as `stagesFixed_of_first`, with the dereification agenda of
    the re-decoded graph derived from `g1` (`ReifWf m`, `NoCollapsible m g1`, `D1Normal m g1`, one node label
    per variable; `T1` well formed for layout — `Penman.C20gen.configure_wfLayout`). -/
theorem stagesFixed_of_first_graph (isAlpha : Char → Bool) {m : Model} (o : Opts) (re : Option (List KeyFn × Bool))
    {g1 : Graph} {T1 : Tree} (hw : ModelWf m) (hnoop : m.noop = false) (hg : Cfg.WfGraph m g1) (hnum : NoNum g1)
    (hpv : Cfg.PushVars g1) (hps : PushSrcOK g1) (htop : ∀ t, g1.getTop = some t → TopOK g1 t)
    (hcf : configure m g1 none = .ok T1) (hnn : noNullN T1.node = true)
    (hdec : ∃ g', interpret isAlpha m T1 = .ok g')
    (h1 : o.reifyEdges = true → NoReifiable m g1 ∧ NoInvReifiable m g1)
    (h2 : o.dereifyEdges = true → ReifWf m ∧ NoCollapsible m g1 ∧ D1Normal m g1 ∧
      wfNodeB isAlpha m T1.node = true ∧
      ((g1.triples.filter (fun t => t.role = CONCEPT_ROLE)).map (·.src)).Nodup)
    (h3 : o.reifyAttributes = true → NoAttributes g1) :
    StagesFixed isAlpha m o (nfTree m re T1) := by
  apply stagesFixed_of_first isAlpha o re hw hnoop hg hnum hpv hps htop hcf hnn hdec h1 _ h3
  intro hc g2 hg2
  obtain ⟨hm, hnc, hn, hwf, hone⟩ := h2 hc
  obtain ⟨g', hg'⟩ := hdec
  have hR : nfTree m re T1 = rearrangeOpt m re T1 := by
    unfold nfTree; rw [C02P.dropNull_id _ hnn]
  rw [hR] at hg2
  have hperm1 := decoded_perm isAlpha hw hnoop hg hnum hpv hps htop hcf hg' hwf hn
  have hnc' := noCollapsible_decoded isAlpha hw hnoop hm hg hnum hpv hps htop hcf hg' hwf hn hone hnc
  obtain ⟨hperm2, _⟩ := decoded_rearrangeOpt isAlpha m re T1 g' g2 hg' hg2
  have htop2 : g2.getTop = g'.getTop := by
    cases re with
    | none => simp only [rearrangeOpt] at hg2; rw [hg'] at hg2; cases hg2; rfl
    | some p =>
      obtain ⟨ks, af⟩ := p
      simp only [rearrangeOpt] at hg2
      obtain ⟨g3, a1, a2, a3, _⟩ := rearrange_graph isAlpha m m (some ks) af T1 g' hg'
      rw [a1] at hg2; cases hg2
      obtain ⟨v, ds, es, D⟩ := Interp.decoded hg'
      have hv := D.top
      unfold Graph.getTop
      rw [a2, hv]
  exact noCollapsible_perm hm hperm2 htop2 (oneLabel_perm hperm1 hone) hnc'

/-! ## non-vacuity, and F18 -/

def T3' (s r : String) (t : Atom) : Triple := ⟨s.toList, r.toList, t⟩
def S3' (s : String) : Atom := .str s.toList

/-- first-pass graph of `penman --amr --reify-edges --reify-attributes` on `(a / x :mod-of 7)` (F18):
    the attribute has become the relation `(a :mod-of _)` -/
def gF18 : Graph :=
  { triples := [T3' "a" ":instance" (S3' "x"), T3' "a" ":mod-of" (S3' "_"), T3' "_" ":instance" (S3' "7")],
    top := some "a".toList }

/-- it has no reifiable role and no attribute, but its relation, written inverted, is reifiable -/
theorem F18_violates : NoReifiable Generated.amrModel gF18 ∧ NoAttributes gF18 ∧
    ¬ NoInvReifiable Generated.amrModel gF18 := by decide +kernel

/-- a graph after `--amr --reify-edges` (`(a / alpha :mod (b / beta) :polarity -)` reified) satisfies all
    conditions on `g1` -/
def gOK : Graph :=
  { triples := [T3' "a" ":instance" (S3' "alpha"), T3' "_" ":ARG1" (S3' "a"), T3' "_" ":instance" (S3' "have-mod-91"),
      T3' "_" ":ARG2" (S3' "b"), T3' "b" ":instance" (S3' "beta"), T3' "_2" ":ARG1" (S3' "a"),
      T3' "_2" ":instance" (S3' "have-polarity-91"), T3' "_2" ":ARG2" (S3' "-")],
    top := some "a".toList }

example : NoReifiable Generated.amrModel gOK ∧ NoInvReifiable Generated.amrModel gOK ∧
    Cfg.WfGraph Generated.amrModel gOK ∧ NoNum gOK ∧ Cfg.PushVars gOK ∧ PushSrcOK gOK ∧
    (∀ t, gOK.getTop = some t → TopOK gOK t) := by
  refine ⟨by decide +kernel, by decide +kernel, by decide +kernel, by decide, by decide, by decide, ?_⟩
  intro t _; simp [TopOK, gOK]; right; decide

example : ReifWf Generated.amrModel := amr_reifWf

/-- `gOK` is in decoded normal form, has one label per variable, and both of its reified nodes are
    collapsible: `dereify_edges` gives the two relations back, and then the agenda is empty
    (`dereify_edges_idempotent` instantiated) -/
example : D1Normal Generated.amrModel gOK ∧ ¬ NoCollapsible Generated.amrModel gOK ∧
    ((gOK.triples.filter (fun t => t.role = CONCEPT_ROLE)).map (·.src)).Nodup := by decide +kernel

example (g1 : Graph) (h : dereifyEdges Generated.amrModel gOK = .ok g1) : NoCollapsible Generated.amrModel g1 :=
  dereify_edges_idempotent amr_reifWf (by decide) h

/-- the graph after `--amr --dereify-edges` on the text of `gOK` satisfies all conditions of
    `stagesFixed_of_first_graph` on `g1` -/
def gBack : Graph :=
  { triples := [T3' "a" ":instance" (S3' "alpha"), T3' "a" ":mod" (S3' "b"), T3' "b" ":instance" (S3' "beta"),
      T3' "a" ":polarity" (S3' "-")],
    top := some "a".toList }

example : NoCollapsible Generated.amrModel gBack ∧ D1Normal Generated.amrModel gBack ∧
    Cfg.WfGraph Generated.amrModel gBack ∧ NoNum gBack ∧ Cfg.PushVars gBack ∧ PushSrcOK gBack ∧
    ((gBack.triples.filter (fun t => t.role = CONCEPT_ROLE)).map (·.src)).Nodup := by decide +kernel

/-- a graph that is NOT in decoded normal form: `(b :ARG0-of a)` with `a` a variable -/
example : ¬ D1Normal Generated.amrModel
    { triples := [T3' "a" ":instance" (S3' "x"), T3' "b" ":instance" (S3' "y"), T3' "b" ":ARG0-of" (S3' "a")] } := by
  decide +kernel

end Penman.C20gen

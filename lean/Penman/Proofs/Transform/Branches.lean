/-
  Penman.Proofs.Transform.Branches — `indicateBranches`.
-/
import Penman.Proofs.Transform.Attr
namespace Penman

/-- the triples `indicate_branches` inserts directly before `t` -/
def branchIns (m : Model) (g : Graph) (t : Triple) : List Triple :=
  match getPushedVariable g t with
  | some pv =>
    if Atom.str pv = t.tgt then [⟨t.src, m.topRole, t.tgt⟩]
    else if pv = t.src then
      match t.tgt with
      | .str s => [⟨s, m.topRole, .str t.src⟩]
      | _ => []
    else []
  | none => []

/-- the body of the loop of `indicate_branches` (verbatim) -/
def branchStep (m : Model) (g : Graph) (acc : List Triple) (t : Triple) : Except PyErr (List Triple) :=
    match ((AList.get? g.epidata t).getD []).findSome? (fun | .push v => some v | _ => none) with
    | some pv =>
      if Atom.str pv = t.tgt then pure (t :: ⟨t.src, m.topRole, t.tgt⟩ :: acc)
      else if pv = t.src then
        match t.tgt with
        | .str s => pure (t :: ⟨s, m.topRole, .str t.src⟩ :: acc)
        | _ => throw (.other "AssertionError")
      else pure (t :: acc)
    | none => pure (t :: acc)

theorem indicateBranches_eq (m : Model) (g : Graph) :
    indicateBranches m g = (do
      let ts ← g.triples.foldlM (branchStep m g) []
      pure (Graph.mk' ts.reverse g.getTop g.epidata g.metadata)) := rfl

theorem branchStep_eq (m : Model) (g : Graph) (acc : List Triple) (t : Triple) :
    branchStep m g acc t =
      if BranchErr g t then .error (.other "AssertionError")
      else .ok (t :: (branchIns m g t).reverse ++ acc) := by
  have hb : BranchErr g t ↔ ∃ pv, getPushedVariable g t = some pv ∧ Atom.str pv ≠ t.tgt ∧
      pv = t.src ∧ tgtStr? t.tgt = none := by
    unfold BranchErr; cases getPushedVariable g t <;> simp
  have hstep : branchStep m g acc t = match getPushedVariable g t with
    | some pv =>
      if Atom.str pv = t.tgt then pure (t :: ⟨t.src, m.topRole, t.tgt⟩ :: acc)
      else if pv = t.src then
        match t.tgt with
        | .str s => pure (t :: ⟨s, m.topRole, .str t.src⟩ :: acc)
        | _ => throw (.other "AssertionError")
      else pure (t :: acc)
    | none => pure (t :: acc) := rfl
  rw [hstep]
  unfold branchIns
  cases hp : getPushedVariable g t with
  | none => simp [hb, hp, pure, Except.pure]
  | some pv =>
    simp only
    by_cases h1 : Atom.str pv = t.tgt
    · simp [hb, hp, h1, pure, Except.pure]
    · by_cases h2 : pv = t.src
      · cases ht : t.tgt with
        | str s =>
          rw [ht] at h1
          have h1' : ¬ t.src = s := by
            intro e; apply h1; rw [h2, e]
          simp [hb, hp, ht, h1', h2, tgtStr?, pure, Except.pure]
        | none =>
          rw [ht] at h1
          simp [hb, hp, ht, h2, tgtStr?, throw, throwThe, MonadExceptOf.throw]
        | num x =>
          rw [ht] at h1
          simp [hb, hp, ht, h2, tgtStr?, throw, throwThe, MonadExceptOf.throw]
      · simp [hb, hp, h1, h2, pure, Except.pure]

theorem branchFold (m : Model) (g : Graph) : ∀ (l : List Triple) (acc : List Triple),
    l.foldlM (branchStep m g) acc =
      if ∃ t ∈ l, BranchErr g t then .error (.other "AssertionError")
      else .ok ((l.flatMap (fun t => branchIns m g t ++ [t])).reverse ++ acc)
  | [], acc => by simp [List.foldlM, pure, Except.pure]
  | t :: l, acc => by
    simp only [List.foldlM, branchStep_eq]
    by_cases h : BranchErr g t
    · have : ∃ t' ∈ t :: l, BranchErr g t' := ⟨t, by simp, h⟩
      simp only [h, if_true, bind, Except.bind, this]
    · simp only [h, if_false, bind, Except.bind, branchFold m g l, List.mem_cons, exists_eq_or_imp,
        false_or, List.flatMap_cons, List.reverse_append, List.append_assoc]
      split
      · rfl
      · simp

/-- `indicate_branches` raises only the `AssertionError`, and exactly when some
    triple's first `Push` names its source while its target is not a string -/
theorem indicateBranches_error {m : Model} {g : Graph} {e : PyErr}
    (h : indicateBranches m g = .error e) :
    e = .other "AssertionError" ∧ ∃ t ∈ g.triples, BranchErr g t := by
  rw [indicateBranches_eq, branchFold] at h
  split at h
  · rename_i hex
    simp only [bind, Except.bind, Except.error.injEq] at h
    exact ⟨h.symm, hex⟩
  · simp [bind, Except.bind, pure, Except.pure] at h

theorem indicateBranches_ok_iff {m : Model} {g : Graph} :
    (∃ g', indicateBranches m g = .ok g') ↔ ∀ t ∈ g.triples, ¬ BranchErr g t := by
  rw [indicateBranches_eq, branchFold]
  constructor
  · rintro ⟨g', h⟩ t ht hb
    rw [if_pos ⟨t, ht, hb⟩] at h
    simp [bind, Except.bind] at h
  · intro h
    rw [if_neg (by rintro ⟨t, ht, hb⟩; exact h t ht hb)]
    exact ⟨_, rfl⟩

/-- the result of `indicate_branches` -/
theorem indicateBranches_ok {m : Model} {g g' : Graph} (h : indicateBranches m g = .ok g') :
    g'.triples = (g.triples.flatMap (fun t => branchIns m g t ++ [t])).map
        (fun t => { t with role := ensureColon t.role }) ∧
    g'.top = g.getTop ∧ g'.epidata = AList.ofList g.epidata ∧
    g'.metadata = AList.ofList g.metadata := by
  rw [indicateBranches_eq, branchFold] at h
  split at h
  · simp [bind, Except.bind] at h
  · simp only [bind, Except.bind, pure, Except.pure, Except.ok.injEq] at h
    subst h
    simp [Graph.mk']

theorem indicateBranches_getTop {m : Model} {g g' : Graph} (h : indicateBranches m g = .ok g') :
    g'.getTop = g.getTop := by
  rw [indicateBranches_eq, branchFold] at h
  split at h
  · simp [bind, Except.bind] at h
  · simp only [bind, Except.bind, pure, Except.pure, Except.ok.injEq] at h
    subst h
    apply mk'_getTop
    intro hnil; rw [hnil]; rfl

/-- a graph without markers: nothing is inserted, nothing raises -/
theorem branchIns_markerless {m : Model} {g : Graph} (h : g.epidata = []) (t : Triple) :
    branchIns m g t = [] ∧ ¬ BranchErr g t := by
  simp [branchIns, BranchErr, getPushedVariable, h, AList.get?_nil]

/-- each inserted triple is a top-role triple between the ends of `t` -/
theorem branchIns_spec (m : Model) (g : Graph) (t : Triple) :
    (branchIns m g t = [] ∧
      ¬ (∃ pv, getPushedVariable g t = some pv ∧ (Atom.str pv = t.tgt ∨ (pv = t.src ∧ ∃ s, t.tgt = .str s)))) ∨
    (branchIns m g t = [⟨t.src, m.topRole, t.tgt⟩] ∧
      ∃ pv, getPushedVariable g t = some pv ∧ Atom.str pv = t.tgt) ∨
    (∃ s, t.tgt = .str s ∧ branchIns m g t = [⟨s, m.topRole, .str t.src⟩] ∧
      getPushedVariable g t = some t.src ∧ Atom.str t.src ≠ t.tgt) := by
  unfold branchIns
  cases hp : getPushedVariable g t with
  | none => left; simp
  | some pv =>
    simp only
    by_cases h1 : Atom.str pv = t.tgt
    · right; left; simp [h1]
    · by_cases h2 : pv = t.src
      · subst h2
        cases ht : t.tgt with
        | str s =>
          right; right
          rw [ht] at h1
          exact ⟨s, rfl, by simp [h1], rfl, h1⟩
        | none =>
          left
          rw [ht] at h1
          simp [h1]
        | num x =>
          left
          rw [ht] at h1
          simp [h1]
      · left
        simp only [h1, h2, if_false, Option.some.injEq, true_and]
        rintro ⟨pv', rfl, h | ⟨h, _⟩⟩
        · exact h1 h
        · exact h2 h

/-- under `PushWf`, a triple gets a top-role triple exactly when it carries a `Push` -/
theorem branchIns_ne_nil_iff {m : Model} {g : Graph} {t : Triple} (hw : PushWf g)
    (ht : t ∈ g.triples) (hb : ¬ BranchErr g t) :
    branchIns m g t ≠ [] ↔ (getPushedVariable g t).isSome = true := by
  have hw' := hw t ht
  unfold PushWfAt at hw'
  rcases branchIns_spec m g t with ⟨h0, hn⟩ | ⟨h0, pv, hp, _⟩ | ⟨s, _, h0, hp, _⟩
  · rw [h0]
    simp only [ne_eq, not_true_eq_false, false_iff]
    cases hp : getPushedVariable g t with
    | none => simp
    | some pv =>
      exfalso
      rw [hp] at hw'
      simp only at hw'
      rcases hw'.2 with h1 | h1
      · exact hn ⟨pv, hp, Or.inl h1⟩
      · by_cases h2 : Atom.str pv = t.tgt
        · exact hn ⟨pv, hp, Or.inl h2⟩
        · cases htg : t.tgt with
          | str s => exact hn ⟨pv, hp, Or.inr ⟨h1, s, htg⟩⟩
          | none =>
            apply hb; unfold BranchErr; rw [hp]; exact ⟨h2, h1, by rw [htg]; rfl⟩
          | num x =>
            apply hb; unfold BranchErr; rw [hp]; exact ⟨h2, h1, by rw [htg]; rfl⟩
  · rw [h0, hp]; simp
  · rw [h0, hp]; simp

theorem branchIns_role {m : Model} {g : Graph} {t t1 : Triple} (h : t1 ∈ branchIns m g t) :
    t1.role = m.topRole := by
  rcases branchIns_spec m g t with ⟨h0, _⟩ | ⟨h0, _⟩ | ⟨s, _, h0, _⟩ <;> rw [h0] at h <;> simp at h
  · rw [h]
  · rw [h]

theorem branchIns_length_le (m : Model) (g : Graph) (t : Triple) : (branchIns m g t).length ≤ 1 := by
  rcases branchIns_spec m g t with ⟨h0, _⟩ | ⟨h0, _⟩ | ⟨s, _, h0, _⟩ <;> rw [h0] <;> simp

theorem filter_branch_aux (m : Model) (g : Graph) : ∀ (l : List Triple),
    (∀ t ∈ l, t.role ≠ m.topRole) →
    (l.flatMap (fun t => branchIns m g t ++ [t])).filter (fun t => t.role ≠ m.topRole) = l ∧
    ((l.flatMap (fun t => branchIns m g t ++ [t])).filter (fun t => t.role = m.topRole)).length =
      (l.filter (fun t => branchIns m g t ≠ [])).length
  | [], _ => by simp
  | t :: r, hno => by
    have ih' := filter_branch_aux m g r (fun t ht => hno t (by simp [ht]))
    have ht := hno t (by simp)
    simp only [List.flatMap_cons, List.filter_append, List.length_append]
    rw [ih'.1, ih'.2]
    have h1 : (branchIns m g t).filter (fun t => t.role ≠ m.topRole) = [] := by
      rw [List.filter_eq_nil_iff]
      intro t1 h1; simp [branchIns_role h1]
    have h2 : (branchIns m g t).filter (fun t => t.role = m.topRole) = branchIns m g t := by
      rw [List.filter_eq_self]
      intro t1 h1; simp [branchIns_role h1]
    rw [h1, h2]
    constructor
    · simp [ht]
    · simp only [List.filter_cons, ht, decide_false, Bool.false_eq_true, if_false, List.filter_nil,
        List.length_nil, Nat.add_zero]
      have := branchIns_length_le m g t
      cases hb : branchIns m g t with
      | nil => simp
      | cons a l =>
        rw [hb] at this
        cases l with
        | nil => simp; omega
        | cons b l' => simp at this

/-- **Removing the top-role triples gives back the original**, when the input
    had none and roles carry their colon. -/
theorem indicateBranches_filter {m : Model} {g g' : Graph} (h : indicateBranches m g = .ok g')
    (hc : startsWith [':'] m.topRole = true) (hg : RolesColon g)
    (hno : ∀ t ∈ g.triples, t.role ≠ m.topRole) :
    g'.triples.filter (fun t => t.role ≠ m.topRole) = g.triples ∧
    (g'.triples.filter (fun t => t.role = m.topRole)).length =
      (g.triples.filter (fun t => branchIns m g t ≠ [])).length := by
  have hid : (g.triples.flatMap (fun t => branchIns m g t ++ [t])).map
      (fun t => { t with role := ensureColon t.role }) =
      g.triples.flatMap (fun t => branchIns m g t ++ [t]) := by
    conv => rhs; rw [← List.map_id (g.triples.flatMap (fun t => branchIns m g t ++ [t]))]
    apply List.map_congr_left
    intro t1 h1
    rw [List.mem_flatMap] at h1
    obtain ⟨t, ht, h1⟩ := h1
    have : startsWith [':'] t1.role = true := by
      rcases List.mem_append.mp h1 with h1 | h1
      · rw [branchIns_role h1]; exact hc
      · simp only [List.mem_singleton] at h1; subst h1; exact hg _ ht
    rw [ensureColon_of_colon this]; rfl
  rw [(indicateBranches_ok h).1, hid]
  exact filter_branch_aux m g g.triples hno

/-- under `PushSrcOk` the assertion cannot fail -/
theorem pushSrcOk_noErr {g : Graph} (h : PushSrcOk g) : ∀ t ∈ g.triples, ¬ BranchErr g t := by
  intro t ht hb
  unfold BranchErr at hb
  split at hb
  · rename_i pv hp
    obtain ⟨h1, h2, h3⟩ := hb
    subst h2
    obtain ⟨t', _, hs, _⟩ := h t ht hp h1
    rw [← hs] at h3
    simp [tgtStr?] at h3
  · exact hb

/-- **Every source still has a node** (under `PushSrcOk`). -/
theorem indicateBranches_hasInst {m : Model} {g g' : Graph} (h : indicateBranches m g = .ok g')
    (hi : HasInst g) (hp : PushSrcOk g) : HasInst g' := by
  have ht := (indicateBranches_ok h).1
  have hkeep : ∀ t ∈ g.triples, { t with role := ensureColon t.role } ∈ g'.triples := by
    intro t htg
    rw [ht, List.mem_map]
    exact ⟨t, List.mem_flatMap.mpr ⟨t, htg, by simp⟩, rfl⟩
  have old : ∀ t ∈ g.triples, ∃ t' ∈ g'.triples, t'.src = t.src ∧ t'.role = CONCEPT_ROLE := by
    intro t htg
    obtain ⟨t', ht', hs, hc⟩ := hi t htg
    exact ⟨_, hkeep t' ht', hs, by simp [hc, ensureColon_concept]⟩
  intro t1 h1
  rw [ht, List.mem_map] at h1
  obtain ⟨t0, h0, rfl⟩ := h1
  rw [List.mem_flatMap] at h0
  obtain ⟨t, htg, h0⟩ := h0
  rcases List.mem_append.mp h0 with h0 | h0
  · rcases branchIns_spec m g t with ⟨e0, _⟩ | ⟨e0, _⟩ | ⟨s, hs, e0, hpv, hne⟩
    · rw [e0] at h0; simp at h0
    · rw [e0] at h0; simp only [List.mem_singleton] at h0; subst h0
      obtain ⟨t', a1, a2, a3⟩ := old t htg
      exact ⟨t', a1, a2, a3⟩
    · rw [e0] at h0; simp only [List.mem_singleton] at h0; subst h0
      obtain ⟨t', ht', hsrc, hc⟩ := hp t htg hpv hne
      rw [hs] at hsrc
      simp only [Atom.str.injEq] at hsrc
      obtain ⟨t'', a1, a2, a3⟩ := old t' ht'
      exact ⟨t'', a1, a2.trans hsrc, a3⟩
  · simp only [List.mem_singleton] at h0; subst h0
    obtain ⟨t', a1, a2, a3⟩ := old t0 htg
    exact ⟨t', a1, a2, a3⟩

end Penman

/-
  Penman.Proofs.OrderIndepCli — property C17: the per-graph function of the `penman`
  command, with every set iteration of the library routed through an abstract hash seed.
  Core Lean only.
-/
import Penman.Proofs.OrderIndepConfigure
import Penman.Proofs.OrderIndepDfs
import Penman.Main
set_option linter.unusedSimpArgs false
set_option linter.unusedVariables false
namespace Penman.OrderIndep
open Penman

/-- A hash seed, abstractly: the order in which a set of strings is iterated, given as a
    function of the model's canonical listing of that set. Any permutation is allowed. -/
structure Seed where
  enum : List Str → List Str
  perm : ∀ l, (enum l).Perm l

/-- the seed under which every set is iterated in the model's own order -/
def Seed.id : Seed := ⟨fun l => l, fun _ => List.Perm.refl _⟩
/-- the seed under which every set is iterated backwards -/
def Seed.rev : Seed := ⟨List.reverse, fun l => List.reverse_perm l⟩

theorem Seed.same (sd : Seed) (l : List Str) : SameMembers (sd.enum l) l :=
  SameMembers.of_perm (sd.perm l)

/-! ### every set consumer under a seed equals the model function -/

theorem interpretWith_seed (sd : Seed) (isAlpha : Char → Bool) (m : Model) (t : Tree) :
    interpretWith isAlpha m (sd.enum t.node.vars) t = interpret isAlpha m t :=
  interpretWith_congr isAlpha m (sd.same _) t

theorem reifyEdgesWith_seed (sd : Seed) (m : Model) (g : Graph) :
    reifyEdgesWith m (sd.enum g.variables) g = reifyEdges m g :=
  reifyEdgesWith_congr m (sd.same _) g

theorem reifyAttributesWith_seed (sd : Seed) (g : Graph) :
    reifyAttributesWith (sd.enum g.variables) g = reifyAttributes g :=
  reifyAttributesWith_congr (sd.same _) g

theorem configureWith_seed (sd : Seed) (m : Model) (g : Graph) (top : Option Str) :
    configureWith m (sd.enum g.variables) g top = configure m g top :=
  configureWith_congr m (sd.same _) g top

theorem rearrangeWith_seed (sd : Seed) (m : Model) (key : Option (List KeyFn)) (af : Bool) (t : Tree) :
    rearrangeWith m (sd.enum t.node.vars) key af t = rearrange m key af t :=
  rearrangeWith_congr m (sd.same _) key af t

/-- `reconfigure` under a seed (it calls `configure` on the re-sorted copy) -/
def reconfigureWith (sd : Seed) (m : Model) (g : Graph) (top : Option Str)
    (key : Option (List KeyFn)) : Except PyErr Tree :=
  let epidata := g.epidata.map fun (t, es) => (t, es.filter (!·.isLayout))
  let triples := match key with
    | none => g.triples
    | some ks => g.triples.mergeSort fun a b => kvLe (evalKeys m ks a.role) (evalKeys m ks b.role)
  let g' : Graph := { g with epidata := epidata, triples := triples }
  configureWith m (sd.enum g'.variables) g' (match top with | some t => some t | none => g.getTop)

theorem reconfigureWith_seed (sd : Seed) (m : Model) (g : Graph) (top : Option Str)
    (key : Option (List KeyFn)) : reconfigureWith sd m g top key = reconfigure m g top key := by
  unfold reconfigureWith reconfigure
  exact configureWith_seed sd m _ _

/-- `Model.errors` under a seed: neighbour sets and the unreachable set go through it -/
def errorsSeed (sd : Seed) (m : Model) (g : Graph) : AList (Option Triple) (List Nat) :=
  errorsWith m (fun v => sd.enum (neighbours g (dedup (g.triples.map (·.src))) v)) sd.enum g

theorem errorsSeed_eq (sd : Seed) (m : Model) (g : Graph) : errorsSeed sd m g = m.errors g := by
  rw [errors_eq_with]
  exact errorsWith_congr m g _ _ _ _ (fun v => sd.perm _) (fun v => List.Perm.refl _) sd.perm
    (fun l => List.Perm.refl _)

/-- `_check` under a seed -/
def checkGraphWith (sd : Seed) (m : Model) (g : Graph) : Graph × Nat :=
  let errs := errorsSeed sd m g
  if errs.isEmpty then (g, 0)
  else
    let step (acc : AList Str Str × Nat) (p : Option Triple × List Nat) :=
      let (md, i) := acc
      let ctx : Str := match p.1 with
        | some t => '(' :: t.src ++ [' '] ++ t.role ++ [' '] ++ atomStr t.tgt ++ ") ".toList
        | none => []
      let md := p.2.foldl (fun md e => md.set ("error-".toList ++ natToStr i) (ctx ++ errMsg e)) md
      (md, i + 1)
    let (md, _) := errs.foldl step (g.metadata, 1)
    ({ g with metadata := md }, 1)

theorem checkGraphWith_seed (sd : Seed) (m : Model) (g : Graph) :
    checkGraphWith sd m g = checkGraph m g := by
  unfold checkGraphWith checkGraph
  rw [errorsSeed_eq]
  rfl

/-- `_process_in` under a seed -/
def processInWith (sd : Seed) (u : UTables) (m : Model) (o : Opts) (t : Tree) : Except PyErr Graph := do
  let t ← if o.canonicalizeRoles then canonicalizeRoles m t else pure t
  let g ← interpretWith u.isAlpha m (sd.enum t.node.vars) t
  let g ← if o.reifyEdges then reifyEdgesWith m (sd.enum g.variables) g else pure g
  let g ← if o.dereifyEdges then dereifyEdges m g else pure g
  let g := if o.reifyAttributes then reifyAttributesWith (sd.enum g.variables) g else g
  let g ← if o.indicateBranches then indicateBranches m g else pure g
  pure g

theorem processInWith_seed (sd : Seed) (u : UTables) (m : Model) (o : Opts) (t : Tree) :
    processInWith sd u m o t = processIn u m o t := by
  unfold processInWith processIn
  simp only [interpretWith_seed, reifyEdgesWith_seed, reifyAttributesWith_seed]

/-- `_process_out` under a seed -/
def processOutWith (sd : Seed) (u : UTables) (m : Model) (o : Opts) (g : Graph) : Except PyErr Tree := do
  let t ← match o.reconfigure with
    | some ks => do
      let t ← reconfigureWith sd m g none (some ks)
      let _ ← interpretWith u.isAlpha m (sd.enum t.node.vars) t
      pure t
    | none => configureWith m (sd.enum g.variables) g none
  let t := match o.rearrange with
    | some (ks, af) => rearrangeWith m (sd.enum t.node.vars) (some ks) af t
    | none => t
  match o.makeVariables with
  | some fmt => do
    let n ← t.node.resetVariables u.isAlpha u.lower fmt
    pure { t with node := n }
  | none => pure t

theorem processOutWith_seed (sd : Seed) (u : UTables) (m : Model) (o : Opts) (g : Graph) :
    processOutWith sd u m o g = processOut u m o g := by
  unfold processOutWith processOut
  simp only [interpretWith_seed, reconfigureWith_seed, configureWith_seed, rearrangeWith_seed]
  rfl

/-- one graph of `process` under a seed -/
def processTreeWith (sd : Seed) (u : UTables) (m : Model) (o : Opts) (t : Tree) :
    Except PyErr (Str × Nat) := do
  let g ← processInWith sd u m o t
  let (g, code) := if o.check then checkGraphWith sd m g else (g, 0)
  if o.triples then
    let ind := match o.indent with | none => false | some i => i != 0
    pure (formatTriples g.triples ind, code)
  else do
    let t ← processOutWith sd u m o g
    pure (format t o.indent o.compact, code)

theorem processTreeWith_seed (sd : Seed) (u : UTables) (m : Model) (o : Opts) (t : Tree) :
    processTreeWith sd u m o t = processTree u m o t := by
  unfold processTreeWith processTree
  simp only [processInWith_seed, checkGraphWith_seed, processOutWith_seed]
  rfl

/-! ### the whole command under a seed -/

/-- `process(f, …)` under a seed -/
def processLoopWith (sd : Seed) (u : UTables) (m : Model) (o : Opts) (c : PCtx) :
    Nat → List Tok → Bool → Str → Nat → Str × Except PyErr Nat
  | 0, _, _, out, _ => (out, .error (.other "fuel"))
  | _+1, [], _, out, code => (out, .ok code)
  | f+1, t :: ts, first, out, code =>
    if t.ty = .COMMENT ∨ t.ty = .LPAREN then
      match parseTree c u.isSpace (t :: ts) with
      | .error e => (out, .error e)
      | .ok (tree, rest) =>
        let out := if first then out else out ++ ['\n']
        match processTreeWith sd u m o tree with
        | .error e => (out, .error e)
        | .ok (s, code') => processLoopWith sd u m o c f rest false (out ++ s ++ ['\n']) (code ||| code')
    else (out, .ok code)

theorem processLoopWith_seed (sd : Seed) (u : UTables) (m : Model) (o : Opts) (c : PCtx) :
    ∀ (f : Nat) (toks : List Tok) (first : Bool) (out : Str) (code : Nat),
      processLoopWith sd u m o c f toks first out code = processLoop u m o c f toks first out code
  | 0, _, _, _, _ => rfl
  | _+1, [], _, _, _ => rfl
  | f+1, t :: ts, first, out, code => by
    simp only [processLoopWith, processLoop, processTreeWith_seed, processLoopWith_seed sd u m o c f]
    rfl

def processInputWith (sd : Seed) (cfg : LexCfg) (u : UTables) (m : Model) (o : Opts) (input : Str) :
    Str × Except PyErr Nat :=
  let toks := lexLines cfg cfg.penmanOrder (fileLines input)
  processLoopWith sd u m o ⟨eofPos toks⟩ (toks.length + 1) toks true [] 0

theorem processInputWith_seed (sd : Seed) (cfg : LexCfg) (u : UTables) (m : Model) (o : Opts)
    (input : Str) : processInputWith sd cfg u m o input = processInput cfg u m o input := by
  simp only [processInputWith, processInput, processLoopWith_seed]

/-- `main()` under a seed -/
def mainRunWith (sd : Seed) (cfg : LexCfg) (u : UTables) (m : Model) (o : Opts) :
    List Str → Str → Nat → Str × Except PyErr Nat
  | [], out, code => (out, .ok code)
  | inp :: rest, out, code =>
    match processInputWith sd cfg u m o inp with
    | (s, .ok c) => mainRunWith sd cfg u m o rest (out ++ s) (code ||| c)
    | (s, .error e) => (out ++ s, .error e)

theorem mainRunWith_seed (sd : Seed) (cfg : LexCfg) (u : UTables) (m : Model) (o : Opts) :
    ∀ (inputs : List Str) (out : Str) (code : Nat),
      mainRunWith sd cfg u m o inputs out code = mainRun cfg u m o inputs out code
  | [], _, _ => rfl
  | inp :: rest, out, code => by
    simp only [mainRunWith, mainRun, processInputWith_seed, mainRunWith_seed sd cfg u m o rest]
    rfl

end Penman.OrderIndep

#!/bin/sh
# the seeded-change regression in N shards: each shard gets its own copy of this directory and its own
# scratch worktree of /repo under /tmp (removed at the end); results are concatenated on stdout
N=${1:-6}
V=$(cd "$(dirname "$0")/.." && pwd)
cd $V
ls -d ${SEEDS:-seeded/*/} | awk -v n=$N '{print > ("/tmp/seedshard." (NR%n))}'
for k in $(seq 0 $((N-1))); do
  rm -rf /tmp/vshard$k; cp -a $V /tmp/vshard$k
  ( SEEDS="$(tr '\n' ' ' < /tmp/seedshard.$k)" /tmp/vshard$k/tools/run_all_seeds.sh /tmp/seedrun$k > /tmp/seedshard.$k.out 2>&1
    git -C /repo worktree remove --force /tmp/seedrun$k; rm -rf /tmp/vshard$k ) &
done
wait
git -C /repo worktree prune
cat /tmp/seedshard.*.out | sort
rm -f /tmp/seedshard.*

/-
  Penman.Proofs.Configure5 — content preservation along the loop and for
  `preconfigure`; soundness of the store `configure` builds.
-/
import Penman.Proofs.Configure4
namespace Penman
namespace Cfg

theorem perm_of_count {l1 l2 : List Triple} (h : ∀ x, l1.count x = l2.count x) : l1.Perm l2 :=
  List.perm_iff_count.2 h

/-- J3 for one round of the loop -/
theorem round_content {m : Model} {a b} (h : Round m a b) (hg : Good a.2.2)
    (hr : ∀ tr ∈ pending a.1 ++ pending a.2.1, RoleOK m tr) :
    ∃ c : List Triple, (pending a.1 ++ pending a.2.1).Perm (c ++ (pending b.1 ++ pending b.2.1)) ∧
      ∀ X, Sim m X (placed a.2.2.cells) → Sim m (X ++ c) (placed b.2.2.cells) := by
  cases h with
  | @skip data skipped st sk v st1 tr push epis rest hfn ho =>
    obtain ⟨hcat, _⟩ := findNext_some _ _ _ hfn
    simp only [List.reverse_nil, List.nil_append] at hcat
    have hp := placed_findNext data [] st hg
    rw [hfn] at hp
    refine ⟨[], ?_, ?_⟩
    · simp only [← hcat, pending_append, pending, pending_stripPops, List.nil_append]
      apply perm_of_count; intro x
      simp only [List.count_append, List.count_cons, List.count_nil]; omega
    · intro X h; simp only [List.append_nil]; rw [hp]; exact h
  | @prog data skipped st sk v st1 tr push epis rest hfn ho =>
    obtain ⟨hcat, _⟩ := findNext_some _ _ _ hfn
    simp only [List.reverse_nil, List.nil_append] at hcat
    have hp := placed_findNext data [] st hg
    have hgf := good_findNext data [] st hg
    rw [hfn] at hp hgf
    obtain ⟨g1, e1, o1⟩ := hgf
    have hr1 : ∀ t ∈ pending (.t tr push epis :: rest), RoleOK m t := by
      intro t ht; apply hr
      simp only [← hcat, pending_append]
      exact List.mem_append_left _ (List.mem_append_right _ ht)
    obtain ⟨c, hc, hX⟩ := cn_content m (rest.length + 2) v (.t tr push epis :: rest) st1 false g1 (o1 v rfl) hr1
    refine ⟨pending c, ?_, ?_⟩
    · have : pending data = pending sk ++ (pending c ++
          pending (configureNode m (rest.length + 2) v (.t tr push epis :: rest) st1 false).1) := by
        rw [← hcat, pending_append, ← pending_append c, ← hc]
      simp only [this, pending_append, pending, pending_stripPops, List.append_nil]
      apply perm_of_count; intro x
      simp only [List.count_append]; omega
    · intro X h; apply hX; rw [hp]; exact h

theorem round_roleOK {m : Model} {a b} (h : Round m a b) (hg : Good a.2.2)
    (hr : ∀ tr ∈ pending a.1 ++ pending a.2.1, RoleOK m tr) :
    ∀ tr ∈ pending b.1 ++ pending b.2.1, RoleOK m tr := by
  obtain ⟨c, hp, _⟩ := round_content h hg hr
  intro t ht
  exact hr t (hp.symm.subset (List.mem_append_right _ ht))

/-- J3 for the whole loop -/
theorem loop_content (m : Model) : ∀ fuel data skipped st st', Good st →
    (∀ tr ∈ pending data ++ pending skipped, RoleOK m tr) →
    configureLoop m fuel data skipped st = .ok st' →
    ∀ X, Sim m X (placed st.cells) → Sim m (X ++ (pending data ++ pending skipped)) (placed st'.cells) := by
  intro fuel
  induction fuel with
  | zero => intro data skipped st st' _ _ h; simp [configureLoop] at h
  | succ fuel ih =>
    intro data skipped st st' hg hr h X hX
    cases data with
    | nil =>
      simp only [configureLoop] at h
      split at h
      · rename_i he
        simp only [Except.ok.injEq] at h; subst h
        have : skipped = [] := by simpa using he
        subst this
        simpa [pending] using hX
      · simp at h
    | cons d data =>
      rcases loop_cases m d data skipped st with ⟨_, e⟩ | ⟨nx, hround, e⟩
      · rw [e] at h; simp at h
      · rw [e] at h
        obtain ⟨g1, _⟩ := good_round hround hg
        obtain ⟨c, hp, hc⟩ := round_content hround hg hr
        have hr1 := round_roleOK hround hg hr
        have := ih _ _ _ _ g1 hr1 h (X ++ c) (hc X hX)
        refine this.perm_left ?_
        rw [List.append_assoc]
        exact List.Perm.append_left _ hp.symm

/-! ### `preconfigure` -/

theorem preconfEpis_spec (m : Model) (orig : Triple) : ∀ es tr push epis pops pushed r,
    (tr = orig ∨ (orig.src ∈ pushed ∧ PreStep m orig tr)) →
    preconfEpis m orig es tr push epis pops pushed = .ok r → PreStep m orig r.1 := by
  intro es tr push epis pops pushed
  fun_induction preconfEpis m orig es tr push epis pops pushed <;> intro r hinv h
  · simp only [Except.ok.injEq] at h; subst h
    rcases hinv with rfl | ⟨_, h⟩
    · exact PreStep.same _
    · exact h
  · rename_i ih; exact ih r hinv h
  · rename_i ih; exact ih r hinv h
  · rename_i rest tr push epis pops pushed s htg hnp hcond ih
    apply ih r _ h
    right
    have htr : tr = orig := by
      rcases hinv with h | ⟨h, _⟩
      · exact h
      · exact absurd h hnp
    subst htr
    refine ⟨by simp, PreStep.inv _ s htg ?_⟩
    intro hc; exact hcond (Or.inr hc)
  · simp at h
  · rename_i ih
    apply ih r _ h
    rcases hinv with h | ⟨h1, h2⟩
    · exact Or.inl h
    · exact Or.inr ⟨List.mem_cons_of_mem _ h1, h2⟩
  · rename_i ih; exact ih r hinv h
  · rename_i ih; exact ih r hinv h

theorem pending_replicate_pop (n : Nat) (l : List Datum) : pending (List.replicate n Datum.pop ++ l) = pending l := by
  induction n with
  | zero => rfl
  | succ n ih => simpa [List.replicate_succ, pending] using ih

theorem preconfigure_spec (m : Model) (ep : Epidata) : ∀ ts pushed data,
    preconfigure m ep ts pushed = .ok data → Pre m ts (pending data) := by
  intro ts
  induction ts with
  | nil => intro pushed data h; simp [preconfigure] at h; subst h; exact Pre.nil
  | cons t ts ih =>
    intro pushed data h
    simp only [preconfigure] at h
    cases h1 : preconfEpis m t ((AList.get? ep t).getD []) t false [] 0 pushed with
    | error e1 => rw [h1] at h; simp [bind, Except.bind] at h
    | ok r =>
      obtain ⟨tr', push, epis, pops, pushed'⟩ := r
      rw [h1] at h
      simp only [bind, Except.bind] at h
      cases h2 : preconfigure m ep ts pushed' with
      | error e2 => rw [h2] at h; simp at h
      | ok more =>
        rw [h2] at h
        simp only [pure, Except.pure, Except.ok.injEq] at h
        subst h
        show Pre m (t :: ts) (tr' :: pending (List.replicate pops Datum.pop ++ more))
        rw [pending_replicate_pop]
        exact Pre.cons (preconfEpis_spec m t _ _ _ _ _ _ _ (Or.inl rfl) h1) (ih _ _ h2)


/-! ### soundness of the store -/

theorem invert_role (m : Model) (t : Triple) : (m.invert t).role = m.invertRole t.role := by
  unfold Model.invert; split <;> rfl

theorem roleOK_of_pre {m : Model} {a b : Triple} (h : PreStep m a b) (hr : RoleOK2 m a) : RoleOK m b := by
  cases h with
  | same => exact ⟨hr.1, hr.2.1⟩
  | inv v _ _ => exact ⟨by rw [invert_role]; exact hr.2.1, by rw [invert_role]; exact hr.2.2⟩

theorem roleOK_of_Pre {m : Model} {l1 l2 : List Triple} (h : Pre m l1 l2) (hr : ∀ t ∈ l1, RoleOK2 m t) :
    ∀ t ∈ l2, RoleOK m t := by
  induction h with
  | nil => intro t ht; simp at ht
  | cons hs _ ih =>
    intro t ht
    simp only [List.mem_cons] at ht
    rcases ht with rfl | ht
    · exact roleOK_of_pre hs (hr _ List.mem_cons_self)
    · exact ih (fun t ht => hr t (List.mem_cons_of_mem _ ht)) t ht

/-- 2. the triples denoted by the final store are the graph's triples, each possibly inverted by
    `preconfigure` (`Pre`), then kept / inverted once / dropped as null instance (`Corr` inside `Sim`),
    up to order -/
theorem storeOf_sound {m : Model} {g : Graph} {top : Str} {st : St} (h : storeOf m g top = .ok st)
    (hr : ∀ t ∈ g.triples, RoleOK2 m t) :
    ∃ l1, Pre m g.triples l1 ∧ Sim m l1 (placed st.cells) := by
  unfold storeOf at h
  cases hp : preconfigure m g.epidata g.triples [] with
  | error e1 => rw [hp] at h; simp [Except.bind] at h
  | ok data =>
    rw [hp] at h
    simp only [Except.bind] at h
    have hpre := preconfigure_spec m _ _ _ _ hp
    have hrd := roleOK_of_Pre hpre hr
    obtain ⟨g0, o0⟩ := good_st0 g top
    obtain ⟨g1, _⟩ := good_cn m (data.length + 1) top data (st0 g top) false g0 o0
    obtain ⟨c, hc, hX⟩ := cn_content m (data.length + 1) top data (st0 g top) false g0 o0 hrd
    have hrd1 : ∀ tr ∈ pending (stripPops (configureNode m (data.length + 1) top data (st0 g top) false).1) ++ pending [],
        RoleOK m tr := by
      intro t ht
      apply hrd
      rw [hc, pending_append]
      simp only [pending, List.append_nil, pending_stripPops] at ht
      exact List.mem_append_right _ ht
    have h0 : Sim m ([] ++ pending c) (placed (configureNode m (data.length + 1) top data (st0 g top) false).2.1.cells) :=
      hX [] (by simpa [st0, placed] using Sim.nil m)
    have := loop_content m _ _ _ _ _ g1 hrd1 h _ h0
    refine ⟨pending data, hpre, ?_⟩
    have e : pending data = [] ++ pending c ++
        (pending (stripPops (configureNode m (data.length + 1) top data (st0 g top) false).1) ++ pending []) := by
      conv => lhs; rw [hc]
      simp [pending_append, pending_stripPops, pending]
    rw [e]; exact this


/-! ### roles written with their colon satisfy `RoleOK2` -/

theorem head_invertRole (m : Model) (r : Str) (h : r.head? = some ':') : (m.invertRole r).head? = some ':' := by
  cases r with
  | nil => simp at h
  | cons c r' =>
    simp at h; subst h
    unfold Model.invertRole
    split
    · rename_i hc
      simp only [Bool.and_eq_true] at hc
      have hs : ofStr <:+ (':' :: r') := by
        have := hc.2; unfold endsWith at this; exact List.isSuffixOf_iff_suffix.1 this
      obtain ⟨p, hp⟩ := hs
      cases p with
      | nil => simp [ofStr] at hp
      | cons a p' =>
        have hl := congrArg List.length hp
        simp [ofStr] at hl
        unfold dropEnd
        have : (':' :: r').length - 3 = (r'.length - 3) + 1 := by simp; omega
        rw [this]; simp
    · simp

theorem roleOK2_of_colon (m : Model) (t : Triple) (h : t.role.head? = some ':') : RoleOK2 m t := by
  have h1 := head_invertRole m _ h
  have h2 := head_invertRole m _ h1
  refine ⟨?_, ?_, ?_⟩ <;> (intro e; simp [e] at h h1 h2)

end Cfg

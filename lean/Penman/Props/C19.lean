/-
# C19 — Triple-conjunction notation round-trips

Model: `formatTriples` (`Penman/Format.lean`), `lexStr … tripleOrder` (`Penman/Lexer.lean`),
`parseTriplesToks` (`Penman/Parse.lean`).  `parseTriples cfg s` below is `penman.parse_triples(s)`
for a `str`.  Spacing variants as strings: `Penman/Spec/TripleVariants.lean`
(`formatTriplesV`, `CommaStyle`, `ConjStyle`).

Hypotheses (decidable, `Penman/Spec/TextWf.lean`): `FmtCfgWf cfg` on the lexer tables (holds for
the generated ones, `C01.fmt_cfg_wf`; for triples it says: space / line feed are blanks, the
triple order has STRING, LPAREN, RPAREN, SYMBOL, and `,` `^` are name characters), and
`WfTripleText cfg t` for every triple:
* source: a SYMBOL text without `,` ("sources are symbols"; a comma inside the source cannot work:
  the parser cuts `a,b` at the first comma);
* role: after stripping leading colons, a SYMBOL text (non-empty; in triple mode `:` `/` `~`
  are not name characters either, they would lex as UNEXPECTED);
* target: a SYMBOL text — commas anywhere and a leading `^` are fine — or a STRING literal
  ("quoted strings with any content", except a raw line break, which `lex` of a `str` splits at).
  Not covered, and indeed not round-tripping: `None` (written `None`, read back as the string
  `None`), the empty string (read back as `None`), numbers (read back as strings).

Property text ↦ theorems
* "writing the list as a triple conjunction in either line style and parsing it back returns the
  same list in the same order, with every role carrying its leading colon" ↦ `C19`
  (`indent = true` : `" ^\n"`, `false` : `" ^ "`); `normTriple t` is `t` with role
  `':' :: lstrip(':')(role)`; lexical half: `formatTriples_lex`.
* "All documented spacing variants around the comma and the conjunction sign parse to the same
  triples" ↦ `C19_spacing_variants` (every triple with its own comma style `a,b` `a, b` `a ,b`
  `a , b`, every conjunction sign with any number of spaces before it and after it nothing
  (`^role(`), or an optional line feed and spaces), `C19_variants_agree`.
* HYPOTHESIS NEEDED: the list must be non-empty.  The empty list is written as the empty string,
  on which `parse_triples` raises `DecodeError` (model: `empty_list_rejected`; the real code does
  the same).  Reported as a boundary of the property "for every list of triples".

Nothing else is left unproved.
-/
import Penman.Proofs.FormatTriples
import Penman.Props.C01

namespace Penman.C19
open Penman Penman.Spec Penman.Lex Penman.FL

/-- `penman.parse_triples(s)` for a `str` -/
abbrev parseTriples (cfg : LexCfg) (s : Str) : Except PyErr (List Triple) :=
  parseTriplesToks (lexStr cfg cfg.tripleOrder s)

/-- what `WfTripleText` says -/
theorem wfTripleText_iff {cfg : LexCfg} (hw : FmtCfgWf cfg = true) (t : Triple) :
    WfTripleText cfg t ↔
      (IsSymbol cfg t.src ∧ t.src.head? ≠ some '#' ∧ NoBreak t.src) ∧ ',' ∉ t.src ∧
      (IsSymbol cfg (lstripChar ':' t.role) ∧ (lstripChar ':' t.role).head? ≠ some '#' ∧
        NoBreak (lstripChar ':' t.role)) ∧
      ∃ s, t.tgt = .str s ∧
        ((IsSymbol cfg s ∧ s.head? ≠ some '#' ∧ NoBreak s) ∨ (IsString cfg s ∧ NoBreak s)) := by
  have hb := (FmtCfgWf.toP hw).base
  simp only [WfTripleText, wfTripleB, Bool.and_eq_true, Bool.not_eq_true', List.contains_eq_mem,
    decide_eq_false_iff_not, symbolB_iff]
  constructor
  · rintro ⟨⟨⟨h1, h2⟩, h3⟩, h4⟩
    refine ⟨h1, h2, h3, ?_⟩
    cases ht : t.tgt with
    | none => simp [ht] at h4
    | num x => simp [ht] at h4
    | str s =>
      simp only [ht, Bool.or_eq_true, symbolB_iff, stringB_iff hb] at h4
      exact ⟨s, rfl, h4⟩
  · rintro ⟨h1, h2, h3, s, hs, h4⟩
    refine ⟨⟨⟨h1, h2⟩, h3⟩, ?_⟩
    simp only [hs, Bool.or_eq_true, symbolB_iff, stringB_iff hb]
    exact h4

/-- **the tokens of a formatted triple conjunction** form a `ConjToks` (C07) of the triples
    with normalised roles -/
theorem formatTriples_lex {cfg : LexCfg} (hw : FmtCfgWf cfg = true) (ts : List Triple)
    (hts : ∀ t ∈ ts, WfTripleText cfg t) (hne : ts ≠ []) (indent : Bool) :
    ConjToks false (ts.map normTriple) (lexStr cfg cfg.tripleOrder (formatTriples ts indent)) := by
  rw [formatTriples_eq]
  have := formatTriplesV_conjToks (FmtCfgWf.toP hw) (ts.map fun t => (t, stdStyle indent)) (by simpa using hne)
    (by simpa using hts)
  simpa [List.map_map, Function.comp_def] using this

/-- **Round trip.** -/
theorem C19 {cfg : LexCfg} (hw : FmtCfgWf cfg = true) (ts : List Triple)
    (hts : ∀ t ∈ ts, WfTripleText cfg t) (hne : ts ≠ []) (indent : Bool) :
    parseTriples cfg (formatTriples ts indent) =
      .ok (ts.map fun t => { t with role := ':' :: lstripChar ':' t.role }) := by
  have := C07.parseTriples_toks (formatTriples_lex hw ts hts hne indent) [] trivial
  rw [List.append_nil] at this
  exact this

/-- **All spacing variants** (each triple its own comma style, each conjunction sign its own
    spacing) parse to the triples with normalised roles … -/
theorem C19_spacing_variants {cfg : LexCfg} (hw : FmtCfgWf cfg = true)
    (l : List (Triple × CommaStyle × ConjStyle)) (hl : l ≠ []) (h : ∀ x ∈ l, WfTripleText cfg x.1) :
    parseTriples cfg (formatTriplesV l) = .ok (l.map fun x => normTriple x.1) := by
  have := C07.parseTriples_toks (formatTriplesV_conjToks (FmtCfgWf.toP hw) l hl h) [] trivial
  rw [List.append_nil] at this
  exact this

/-- … hence to the same triples as the text `format_triples` writes -/
theorem C19_variants_agree {cfg : LexCfg} (hw : FmtCfgWf cfg = true)
    (l : List (Triple × CommaStyle × ConjStyle)) (hl : l ≠ []) (h : ∀ x ∈ l, WfTripleText cfg x.1)
    (indent : Bool) :
    parseTriples cfg (formatTriplesV l) = parseTriples cfg (formatTriples (l.map (·.1)) indent) := by
  rw [C19_spacing_variants hw l hl h,
    C19 hw (l.map (·.1)) (by simpa using h) (by simpa using hl) indent]
  simp [List.map_map, Function.comp_def, normTriple]

/-- `format_triples` is one of the variants -/
theorem formatTriples_is_variant (ts : List Triple) (indent : Bool) :
    formatTriples ts indent = formatTriplesV (ts.map fun t => (t, stdStyle indent)) :=
  formatTriples_eq ts indent

/-- the empty list is written as the empty string, which `parse_triples` rejects -/
theorem empty_list_rejected (indent : Bool) :
    formatTriples [] indent = [] ∧
    parseTriples Generated.lexCfg (formatTriples [] indent) = .error (.decode 0 0 0) := by
  cases indent <;> exact ⟨rfl, rfl⟩

/-! ## non-vacuity -/

def exTriples : List Triple :=
  [⟨"a".toList, ":instance".toList, .str "b".toList⟩,
   ⟨"a".toList, "ARG0".toList, .str "\"x, ^ y\"".toList⟩,
   ⟨"b".toList, "::mod^x".toList, .str "c,d".toList⟩]

example : ∀ t ∈ exTriples, WfTripleText Generated.lexCfg t := by decide

example : formatTriples exTriples true =
    "instance(a, b) ^\nARG0(a, \"x, ^ y\") ^\nmod^x(b, c,d)".toList := by decide
example : formatTriples exTriples false =
    "instance(a, b) ^ ARG0(a, \"x, ^ y\") ^ mod^x(b, c,d)".toList := by decide

def exNorm : List Triple :=
  [⟨"a".toList, ":instance".toList, .str "b".toList⟩,
   ⟨"a".toList, ":ARG0".toList, .str "\"x, ^ y\"".toList⟩,
   ⟨"b".toList, ":mod^x".toList, .str "c,d".toList⟩]

/-- through the real `formatTriples` / `lexStr` / `parseTriplesToks` -/
example : (parseTriples Generated.lexCfg (formatTriples exTriples true)).toOption = some exNorm := by decide +kernel
example : (parseTriples Generated.lexCfg (formatTriples exTriples false)).toOption = some exNorm := by decide +kernel

example (indent : Bool) : parseTriples Generated.lexCfg (formatTriples exTriples indent) = .ok exNorm :=
  C19 C01.fmt_cfg_wf exTriples (by decide) (by decide) indent

/-- a mixed-style text: `instance(a,b)^ARG0(a ,"x, ^ y")  ^\n  mod^x(b , c,d)` -/
def exStyled : List (Triple × CommaStyle × ConjStyle) :=
  [(exTriples[0]!, .glued, ⟨0, false, 0⟩), (exTriples[1]!, .right, ⟨2, true, 2⟩),
   (exTriples[2]!, .spaced, ⟨0, false, 0⟩)]

example : formatTriplesV exStyled =
    "instance(a,b)^ARG0(a ,\"x, ^ y\")  ^\n  mod^x(b , c,d)".toList := by decide
example : (parseTriples Generated.lexCfg (formatTriplesV exStyled)).toOption = some exNorm := by decide +kernel
example : parseTriples Generated.lexCfg (formatTriplesV exStyled) = .ok exNorm :=
  C19_spacing_variants C01.fmt_cfg_wf exStyled (by decide) (by decide)

/-! ## the hypotheses are needed -/

/-- a comma in the source: cut at the first comma, the rest is not a well-formed triple -/
example : (parseTriples Generated.lexCfg
    (formatTriples [⟨"x,y".toList, ":r".toList, .str "b".toList⟩] true)).toOption = none := by decide +kernel
/-- `None` comes back as the string `None` -/
example : (parseTriples Generated.lexCfg (formatTriples [⟨"a".toList, ":r".toList, .none⟩] true)).toOption
    = some [⟨"a".toList, ":r".toList, .str "None".toList⟩] := by decide +kernel
/-- the empty string comes back as `None` -/
example : (parseTriples Generated.lexCfg (formatTriples [⟨"a".toList, ":r".toList, .str []⟩] true)).toOption
    = some [⟨"a".toList, ":r".toList, .none⟩] := by decide +kernel

end Penman.C19

/-
  Penman.Proofs.AlignText3 — `interpret` of the written form of the configured tree of a graph
  with alignment markers: same top, variables, triples (constants by their written form, up to
  order and one de-inversion), and the reading, each relation with the graph triple whose
  alignments it carries.
-/
import Penman.Proofs.AlignText2
set_option linter.unusedSimpArgs false
set_option linter.unusedVariables false
namespace Penman
namespace Cfg
namespace Al
open Penman.Spec.Reading Penman.C03Text

theorem decode_written_al (isAlpha : Char → Bool) {m : Model} {g : Graph} {t : Str} {T : Tree} {st : St}
    {l : List Triple} (hw : ModelWf m) (hnoop : m.noop = false) (hg : WfGraphAl m g) (hal : AlignOK isAlpha m g)
    (hnumok : ∀ x ∈ g.triples, ∀ s, x.tgt = .num s → '~' ∉ s) (E : EncodedAl m g t T st l) :
    ∃ g' ds, interpret isAlpha m ⟨writtenForm T.node, T.metadata⟩ = .ok g' ∧
      Spec.Reading.read isAlpha m (writtenForm T.node) = .ok ⟨T.node.var, ds⟩ ∧
      g'.getTop = some t ∧ (∀ x, x ∈ g'.variables ↔ x ∈ g.variables) ∧
      (g'.triples.map (deinvert1 m g)).Perm ((g.triples.map writtenTriple).map (deinvert1 m g)) ∧
      (∀ x ∈ g'.triples, ∃ t0 ∈ g.triples, x = writtenTriple t0 ∨ x = m.invert (writtenTriple t0)) ∧
      g'.metadata = AList.ofList g.metadata ∧
      (∀ d ∈ ds, ∃ t1 ∈ g.triples, d.triple = deinvert1 m g (writtenTriple t1) ∧ colon d.triple = d.triple ∧
        d.roleAln.map (fun a => Epi.roleAln a.1 a.2) = roleAlnOf g t1 ∧
        d.tgtAln.map (fun a => Epi.aln a.1 a.2) = tgtAlnOf g t1) := by
  have hr2 : ∀ x ∈ g.triples, RoleOK2 m x := fun x hx => roleOK2_of_colon m x (hg.roles x hx).1
  obtain ⟨hW, hvars, _, hnd, hvar⟩ := storeOf_tree hr2 E.store E.build
  have hgood := storeOf_good E.store
  have hvmem : ∀ s, s ∈ T.node.vars ↔ s ∈ g.variables := fun s => hvars.mem_iff.trans (E.keys s)
  have hEF := fun p hp e he => edgeFacts (isAlpha := isAlpha) (p := p) (e := e) hw hg hal E hvmem hgood.forest hp he
  -- facts about every triple of the store
  have hfacts : ∀ x ∈ placed st.cells, GoodT m x ∧ (∀ s, x.tgt = .num s → '~' ∉ s) ∧ x.src ∈ g.variables := by
    intro x hx
    obtain ⟨t0, ht0, hv⟩ := E.version x (E.perm.symm.subset hx)
    refine ⟨goodT_of_version_al hw hg ht0 hv, ?_, (E.keys _).1 (placed_src_key hx)⟩
    rcases hv with rfl | ⟨rfl, _, _⟩
    · exact hnumok _ ht0
    · intro s hs; rw [invert_tgt] at hs; cases hs
  -- a cell is labelled iff it holds a `/` edge
  have hlabel : ∀ p ∈ st.cells, (cellLabelled p.2 = true ↔ ∃ e ∈ p.2, e.role = ['/']) := by
    intro p hp
    simp only [cellLabelled, List.any_eq_true, decide_eq_true_eq]
    constructor
    · rintro ⟨e, he, hrn⟩
      refine ⟨e, he, ?_⟩
      obtain ⟨F, _⟩ := hEF p hp e he
      rw [roleName_outRole F, denote_role_slash] at hrn
      unfold slashRole at hrn
      split at hrn
      · assumption
      · exact absurd hrn F.notInst
    · rintro ⟨e, he, hs⟩
      refine ⟨e, he, ?_⟩
      obtain ⟨F, _⟩ := hEF p hp e he
      rw [roleName_outRole F, denote_role_slash]; simp [slashRole, hs]
  have hW' := hW.trans (flat_ownW_split st.cells)
  -- every written relation reads as the store's triple in written form, deinverted once,
  -- with the edge's alignments
  let D : Written → Denoted := fun w =>
    match Spec.Reading.denote isAlpha m T.node.vars w with
    | .ok d => d
    | .error _ => ⟨⟨[], [], .none⟩, none, none, [], none, false⟩
  let G : Written → Triple := fun w => (D w).triple
  have hDedge : ∀ p ∈ st.cells, ∀ e ∈ p.2,
      Spec.Reading.denote isAlpha m T.node.vars (wW (edgeWritten p.1 e)) = .ok (D (wW (edgeWritten p.1 e))) ∧
      (D (wW (edgeWritten p.1 e))).triple = readTriple m T.node.vars (writtenTriple (Cfg.denote p.1 e)) ∧
      (D (wW (edgeWritten p.1 e))).roleAln.map (fun a => Epi.roleAln a.1 a.2) =
        (e.epis.filter fun x => x.mode = 1).getLast? ∧
      (D (wW (edgeWritten p.1 e))).tgtAln.map (fun a => Epi.aln a.1 a.2) =
        (e.epis.filter fun x => x.mode = 2).getLast? := by
    intro p hp e he
    obtain ⟨F, _⟩ := hEF p hp e he
    have F' := edgeFacts_wE F (hfacts _ (mem_placed hp he)).2.1
    obtain ⟨d, hd, h1, h2, h3⟩ := denote_edge_al hnoop F' (by rw [← denote_wE]; exact notNum_written _)
    rw [edgeWritten_wE_al]
    have : D (edgeWritten p.1 (wE e)) = d := by simp only [D, hd]
    rw [this]
    exact ⟨hd, by rw [h1, denote_wE], h2, h3⟩
  have hGedge : ∀ p ∈ st.cells, ∀ e ∈ p.2,
      G (wW (edgeWritten p.1 e)) = readTriple m T.node.vars (writtenTriple (Cfg.denote p.1 e)) :=
    fun p hp e he => (hDedge p hp e he).2.1
  have hwnull : ∀ v, wW (nullW v) = nullW v := fun v => rfl
  have hDnull : ∀ v, Spec.Reading.denote isAlpha m T.node.vars (nullW v) = .ok (D (nullW v)) ∧
      D (nullW v) = ⟨⟨v, CONCEPT_ROLE, .none⟩, none, none, v, none, false⟩ := by
    intro v
    have hd : Spec.Reading.denote isAlpha m T.node.vars (nullW v) =
        .ok ⟨⟨v, CONCEPT_ROLE, .none⟩, none, none, v, none, false⟩ := by
      simp [nullW, Spec.Reading.denote, roleName, roleAlnText, parseAln?]
    have : D (nullW v) = ⟨⟨v, CONCEPT_ROLE, .none⟩, none, none, v, none, false⟩ := by simp only [D, hd]
    rw [this]; exact ⟨hd, rfl⟩
  have hGnull : ∀ v, G (nullW v) = ⟨v, CONCEPT_ROLE, .none⟩ := by
    intro v; simp only [G, (hDnull v).2]
  have hall : ∀ w ∈ (Node.written T.node).map wW,
      (Spec.Reading.denote isAlpha m T.node.vars w).map id = .ok (D w) := by
    intro w hw'
    obtain ⟨w0, hw0, rfl⟩ := List.mem_map.1 hw'
    have := hW'.subset hw0
    simp only [List.mem_append, nullsW, flat, List.mem_flatMap, List.mem_map] at this
    rcases this with ⟨p, _, rfl⟩ | ⟨p, hp, e, he, rfl⟩
    · rw [hwnull, (hDnull p.1).1]; rfl
    · rw [(hDedge p hp e he).1]; rfl
  obtain ⟨ds, hds, hdsD⟩ := mapM_map _ (id : Denoted → Denoted) D _ hall
  simp only [List.map_id] at hdsD
  have hdsmap : ds.map Denoted.triple = ((Node.written T.node).map wW).map G := by
    rw [hdsD, List.map_map]; rfl
  have hread : Spec.Reading.read isAlpha m (writtenForm T.node) = .ok ⟨T.node.var, ds⟩ := by
    unfold Spec.Reading.read
    rw [written_writtenForm, C03Text.writtenForm_vars, hds, C03Text.writtenForm_var]; rfl
  obtain ⟨g', hg'⟩ := Interp.interpret_defined (t := ⟨writtenForm T.node, T.metadata⟩) hread
  obtain ⟨r, hr, htop, _, _, htr⟩ := Props.C04.C04 isAlpha m _ g' hg'
  have hr' : Spec.Reading.read isAlpha m (writtenForm T.node) = .ok r := hr
  rw [hread] at hr'; simp only [Except.ok.injEq] at hr'; subst hr'
  obtain ⟨_, _, hv3⟩ := Props.C04.C04_variables isAlpha m _ g' _ hg' hr
  have hv3' : ∀ x, x ∈ g'.variables ↔ x ∈ T.node.vars := by
    intro x; rw [hv3 x]; show x ∈ (writtenForm T.node).vars ↔ _; rw [C03Text.writtenForm_vars]
  have hreadT : ∀ x : Triple, readTriple m T.node.vars x = deinvert1 m g x := by
    intro x; unfold readTriple deinvert1; rw [isVar_eq hvmem]
  -- the decoded triples, up to order
  have hD : ∀ x ∈ l, colon (readTriple m T.node.vars (writtenTriple x)) = deinvert1 m g (writtenTriple x) := by
    intro x hx
    obtain ⟨f1, _, _⟩ := hfacts x (E.perm.subset hx)
    rw [hreadT]
    have hc : (deinvert1 m g (writtenTriple x)).role.head? = some ':' := by
      unfold deinvert1; split
      · rw [invert_role]; exact head_invertRole m _ f1.colon
      · exact f1.colon
    simp [colon, ensureColon_of_head hc]
  obtain ⟨nullTs, hnT⟩ : ∃ x : List Triple,
      x = (st.cells.filter fun p => !cellLabelled p.2).map fun p => (⟨p.1, CONCEPT_ROLE, .none⟩ : Triple) := ⟨_, rfl⟩
  have hperm : g'.triples.Perm (nullTs ++ l.map (fun x => deinvert1 m g (writtenTriple x))) := by
    rw [htr]
    simp only [Reading.triples, hdsmap]
    have h1 : (((Node.written T.node).map wW).map G).Perm
        (nullTs ++ (placed st.cells).map (fun x => readTriple m T.node.vars (writtenTriple x))) := by
      refine ((hW'.map wW).map G).trans ?_
      rw [List.map_append, List.map_append]
      have e1 : ((nullsW st.cells).map wW).map G = nullTs := by
        rw [hnT]
        simp only [nullsW, List.map_map]
        apply List.map_congr_left
        intro p _
        exact hGnull p.1
      have e2 : ((flat (fun v es => es.map (edgeWritten v)) st.cells).map wW).map G =
          (placed st.cells).map (fun x => readTriple m T.node.vars (writtenTriple x)) := by
        simp only [flat, placed, List.map_flatMap, List.map_map]
        apply flatMap_congr'
        intro p hp
        apply List.map_congr_left
        intro e he
        exact hGedge p hp e he
      rw [e1, e2]
    refine (h1.map colon).trans ?_
    rw [List.map_append]
    have e1 : nullTs.map colon = nullTs := by
      conv => rhs; rw [← List.map_id nullTs]
      apply List.map_congr_left
      intro x hx
      rw [hnT] at hx
      simp only [List.mem_map] at hx
      obtain ⟨p, _, rfl⟩ := hx
      have : ensureColon CONCEPT_ROLE = CONCEPT_ROLE := by decide
      simp [colon, this]
    rw [e1]
    refine List.Perm.append_left _ ?_
    refine ((E.perm.symm.map (fun x => readTriple m T.node.vars (writtenTriple x))).map colon).trans ?_
    rw [List.map_map]
    have : l.map (colon ∘ fun x => readTriple m T.node.vars (writtenTriple x)) =
        l.map (fun x => deinvert1 m g (writtenTriple x)) :=
      List.map_congr_left (fun x hx => hD x hx)
    rw [this]
  have hnulls : nullTs.Perm (g.triples.filter nullB) := by
    rw [hnT]; exact nulls_perm hg E hnd hlabel
  -- the null labels are untouched by the written form and by de-inversion
  have hnullDW : ∀ x ∈ nullTs, deinvert1 m g (writtenTriple x) = x := by
    intro x hx
    rw [hnT] at hx
    obtain ⟨p, _, rfl⟩ := List.mem_map.1 hx
    simp [deinvert1, writtenTriple, writtenAtom, Graph.isVar]
  have hnullD : ∀ x ∈ nullTs, deinvert1 m g x = x := by
    intro x hx
    rw [hnT] at hx
    obtain ⟨p, _, rfl⟩ := List.mem_map.1 hx
    simp [deinvert1, Graph.isVar]
  have hcanonL : ∀ x ∈ l, m.canonInversion x.role = some x.role :=
    fun x hx => (hfacts x (E.perm.subset hx)).1.canon
  obtain ⟨_, _, _, Dd⟩ := Interp.decoded hg'
  refine ⟨g', ds, hg', hread, by rw [htop]; exact hvar, fun x => (hv3' x).trans (hvmem x), ?_, ?_, ?_, ?_⟩
  · -- the multiset of triples
    have hsame := E.same.map (fun x => deinvert1 m g (writtenTriple x))
    rw [List.map_map, List.map_append, List.map_map, List.map_map] at hsame
    have a1 : g.triples.map ((fun x => deinvert1 m g (writtenTriple x)) ∘ deinvert1 m g) =
        (g.triples.map writtenTriple).map (deinvert1 m g) := by
      rw [List.map_map]
      apply List.map_congr_left
      intro x hx
      exact dw_deinvert1 hw (hg.roles x hx).2.2
    have a2 : l.map ((fun x => deinvert1 m g (writtenTriple x)) ∘ deinvert1 m g) =
        l.map (fun x => deinvert1 m g (writtenTriple x)) := by
      apply List.map_congr_left
      intro x hx
      exact dw_deinvert1 hw (hcanonL x hx)
    have a3 : ((g.triples.filter nullB).map ((fun x => deinvert1 m g (writtenTriple x)) ∘ deinvert1 m g)).Perm nullTs := by
      have e : (g.triples.filter nullB).map ((fun x => deinvert1 m g (writtenTriple x)) ∘ deinvert1 m g) =
          (g.triples.filter nullB).map (fun x => deinvert1 m g (writtenTriple x)) := by
        apply List.map_congr_left
        intro x hx
        exact dw_deinvert1 hw (hg.roles x (List.mem_filter.1 hx).1).2.2
      rw [e]
      refine (hnulls.symm.map _).trans ?_
      have : nullTs.map (fun x => deinvert1 m g (writtenTriple x)) = nullTs.map id :=
        List.map_congr_left (fun x hx => (hnullDW x hx : _ = id x))
      rw [this, List.map_id]
    rw [a1, a2] at hsame
    refine (hperm.map (deinvert1 m g)).trans ?_
    rw [List.map_append, List.map_map]
    have b1 : nullTs.map (deinvert1 m g) = nullTs := by
      have : nullTs.map (deinvert1 m g) = nullTs.map id :=
        List.map_congr_left (fun x hx => (hnullD x hx : _ = id x))
      rw [this, List.map_id]
    have b2 : l.map (deinvert1 m g ∘ fun x => deinvert1 m g (writtenTriple x)) =
        l.map (fun x => deinvert1 m g (writtenTriple x)) := by
      apply List.map_congr_left
      intro x hx
      have := (goodT_written (hfacts x (E.perm.subset hx)).1 (hfacts x (E.perm.subset hx)).2.1).canon
      exact deinvert1_idem hw this
    rw [b1, b2]
    refine List.perm_append_comm.trans ?_
    exact (List.Perm.append_left _ a3.symm).trans hsame.symm
  · intro x hx
    have := hperm.subset hx
    rcases List.mem_append.1 this with hxn | hxl
    · have hm := hnulls.subset hxn
      refine ⟨x, (List.mem_filter.1 hm).1, Or.inl ?_⟩
      rw [hnT] at hxn
      obtain ⟨p, _, rfl⟩ := List.mem_map.1 hxn
      rfl
    · obtain ⟨y, hy, rfl⟩ := List.mem_map.1 hxl
      obtain ⟨t0, ht0, hv⟩ := E.version y hy
      have hc0 := (hg.roles t0 ht0).2.2
      refine ⟨t0, ht0, ?_⟩
      rcases hv with rfl | ⟨rfl, ⟨b, hb⟩, _⟩
      · simp only [deinvert1]
        split
        · exact Or.inr rfl
        · exact Or.inl rfl
      · have hn0 : notNum t0.tgt = true := by rw [hb]; rfl
        have hn1 : notNum (m.invert t0).tgt = true := by rw [invert_tgt]; rfl
        rw [written_of_notNum hn1, written_of_notNum hn0]
        simp only [deinvert1]
        split
        · exact Or.inl (C13.invert_invert hw hb hc0)
        · exact Or.inr rfl
  · rw [Dd.md, E.metaEq]
  · intro d hd
    rw [hdsD] at hd
    obtain ⟨w', hw', rfl⟩ := List.mem_map.1 hd
    obtain ⟨w0, hw0, rfl⟩ := List.mem_map.1 hw'
    have := hW'.subset hw0
    simp only [List.mem_append, nullsW, flat, List.mem_flatMap, List.mem_map, List.mem_filter] at this
    rcases this with ⟨p, ⟨hp, hunl⟩, rfl⟩ | ⟨p, hp, e, he, rfl⟩
    · rw [hwnull, (hDnull p.1).2]
      have hmem : (⟨p.1, CONCEPT_ROLE, .none⟩ : Triple) ∈ nullTs := by
        rw [hnT]; exact List.mem_map.2 ⟨p, List.mem_filter.2 ⟨hp, hunl⟩, rfl⟩
      have hin := List.mem_filter.1 (hnulls.subset hmem)
      refine ⟨_, hin.1, (hnullDW _ hmem).symm, ?_, ?_, ?_⟩
      · have : ensureColon CONCEPT_ROLE = CONCEPT_ROLE := by decide
        simp [colon, this]
      · cases hra : roleAlnOf g ⟨p.1, CONCEPT_ROLE, .none⟩ with
        | none => rfl
        | some x => exact absurd rfl (hal.roleAln _ hin.1 (by rw [hra]; simp))
      · cases hta : tgtAlnOf g ⟨p.1, CONCEPT_ROLE, .none⟩ with
        | none => rfl
        | some x => exact absurd (hal.tgtAln _ hin.1 (by rw [hta]; simp)) (by simp [AlnTgtOK])
    · obtain ⟨_, t1, ht1, hv, hde, hra, hta⟩ := hEF p hp e he
      obtain ⟨_, h1, h2, h3⟩ := hDedge p hp e he
      have hx : Cfg.denote p.1 e ∈ l := E.perm.symm.subset (mem_placed hp he)
      have hkey : deinvert1 m g (writtenTriple (Cfg.denote p.1 e)) = deinvert1 m g (writtenTriple t1) := by
        rcases hv with hv | ⟨hv, ⟨b, hb⟩, _⟩
        · rw [hv]
        · have hn0 : notNum t1.tgt = true := by rw [hb]; rfl
          have hn1 : notNum (Cfg.denote p.1 e).tgt = true := by rw [hv, invert_tgt]; rfl
          rw [written_of_notNum hn1, written_of_notNum hn0]; exact hde
      refine ⟨t1, ht1, by rw [h1, hreadT, hkey], ?_, by rw [h2, hra], by rw [h3, hta]⟩
      rw [h1, hD _ hx, hreadT]

end Al
end Cfg
end Penman

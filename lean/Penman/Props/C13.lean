import Penman.Proofs.Role
import Penman.Generated
/-!
# C13 — role inversion and canonicalisation obey their algebra under every model

Model functions: `Model.hasRole1/hasRole/isRoleInverted/invertRole/invert/deinvert/
canonLoop/canonInversion/canonRole` (Penman/Model.lean) and `canonNode/canonBranches/
canonicalizeRoles` (Penman/Transform.lean). Specification vocabulary (`ModelWf`,
`addColon`, `ofPow`, `ofCount`, `base`, `Node.sameShape`, `rolePart`, `alnPart`,
`RoleRewritten`) is in Penman/Spec/Role.lean.

Clause of the property text                          ↦ theorem(s)
---------------------------------------------------------------------------------------
(hypothesis) well-formed tables, decidable           ↦ `ModelWf` ; `modelWf_default`,
                                                        `modelWf_amr`, `modelWf_noop`,
                                                        `noDefinedPair_iff`
canonicalising always returns (loop fuel suffices,   ↦ `canon_terminates`,
  for EVERY model, no hypothesis)                       `canonInversion_terminates`
"canonicalising is idempotent"                       ↦ `canon_idem`
"adds the leading colon"                             ↦ `canon_colon` (+ `canon_norm_last`,
                                                        which exposes `addColon`)
"removes inversions only in pairs"                   ↦ `canon_parity`, `canon_parity_removes`,
                                                        `base_ofCount_spec`, `canonInversion_idem`
"applies a model-defined normalisation last"         ↦ `canon_norm_last`
"a defined role is never considered inverted"        ↦ `defined_not_inv`
"on canonical roles inverting is an involution that  ↦ `inv_involutive`
  flips inverted-ness"
"inverting a triple swaps source and target"         ↦ `invert_swaps`, `invert_invert`
"deinverting an inverted triple equals inverting it" ↦ `deinvert_inverted`,
                                                        `deinvert_result_not_inverted`
"a non-inverted triple is returned unchanged"        ↦ `deinvert_noninverted`
"under the no-op model deinverting is the identity"  ↦ `noop_deinvert_id`, `noopModel_deinvert_id`
"canonicalising a tree changes role text only"       ↦ `canon_tree_total`, `canon_tree_shape`,
                                                        `canon_tree_alignment`, `canon_tree_vars`,
                                                        `canonicalizeRoles_shape`
"... and is idempotent"                              ↦ `canon_tree_idem`, `canonicalizeRoles_idem`
necessity of each `ModelWf` clause (negations)       ↦ section `Negations`

Which clause of `ModelWf` each theorem really uses:
* `noDefinedPair` (no `r` with `r` and `r-of` both defined): only `inv_involutive` and its
  corollaries (`invert_invert`, `deinvert_result_not_inverted`).
* `slashOk` (slash + `-of` is not defined) and `normOk`: `canon_idem`, `canon_colon`, tree idempotence.
* nothing: termination, parity, `defined_not_inv`, triple laws, tree shape.

Python's `$`-before-newline quirk is part of `hasRole1` and is handled in full generality:
no theorem assumes the role is free of line feeds. (The only place it matters is the
decidable formulation of `noDefinedPair`, which tests `hasRole1 (s minus "-of")` — including
the quirk — for each literal `s` ending in `-of`; a role `r ++ "-of"` never ends in a line
feed, so it can only be matched exactly, by a literal.)

About the bound in `canon_terminates`: the loop does at most `|r|/6` removing steps followed
by at most (number of literal alternatives) appending steps, plus one confirming step, so
`|r| + |pats| + 2` already suffices; `canonFuel = |r| + 2·|pats| + 4` is never too small and
there is no counterexample table.
-/
namespace Penman.C13
open Penman Penman.Role

/-- a small AMR-like table used for the non-vacuity examples -/
def miniModel : Model :=
  { roles := [.digit ":ARG".toList, .lit ":mod".toList, .lit ":domain".toList,
              .lit ":consist-of".toList, .digits ":op".toList],
    norm := [(":mod-of".toList, ":domain".toList), (":domain-of".toList, ":mod".toList)] }

/-! ## `ModelWf` holds of the generated tables -/

theorem modelWf_default : ModelWf Generated.defaultModel := by decide
theorem modelWf_amr : ModelWf Generated.amrModel := by decide +kernel
theorem modelWf_noop : ModelWf Generated.noopModel := by decide
theorem modelWf_mini : ModelWf miniModel := by decide

/-- clause (i) of `ModelWf`, the decidable check over the finitely many literal alternatives
    ending in `-of`, is exactly: no role `r` such that `r` and `r ++ "-of"` are both defined -/
theorem noDefinedPair_iff (m : Model) :
    m.noDefinedPair = true ↔ ∀ r, m.hasRole1 r = true → m.hasRole1 (r ++ ofStr) = false :=
  Role.noDefinedPair_iff

/-! ## termination (unconditional) -/

/-- `canonicalize_role` terminates for every model and role: `canonFuel` always suffices. -/
theorem canon_terminates (m : Model) (r : Str) : ∃ r', m.canonRole r = some r' :=
  canonRole_terminates m r

theorem canonInversion_terminates (m : Model) (r : Str) : ∃ r', m.canonInversion r = some r' :=
  Role.canonInversion_terminates m r

-- the appending branch of the loop really occurs (AMR defines `:consist-of`)
example : Generated.amrModel.canonRole ":consist".toList = some ":consist-of-of".toList := by
  decide +kernel

/-! ## canonicalisation of one role -/

theorem canon_idem {m : Model} (hw : ModelWf m) {r r' : Str} (h : m.canonRole r = some r') :
    m.canonRole r' = some r' :=
  canonRole_idem hw.2.1 hw.2.2 h

example : miniModel.canonRole "ARG0-of-of-of".toList = some ":ARG0-of".toList := by decide
example : miniModel.canonRole "mod-of-of-of".toList = some ":domain".toList := by decide

theorem canon_colon {m : Model} (hw : ModelWf m) {r r' : Str} (h : m.canonRole r = some r') :
    r' = ['/'] ∨ r'.head? = some ':' :=
  canonRole_colon hw.2.1 hw.2.2 h

example : miniModel.canonRole "/".toList = some "/".toList := by decide
example : miniModel.canonRole [] = some ":".toList := by decide

/-- `canonRole` = add the colon, canonicalise inversions, and LAST look the result up in the
    normalisation table. -/
theorem canon_norm_last {m : Model} {r r' : Str} :
    m.canonRole r = some r' ↔
      ∃ r1, m.canonInversion (addColon r) = some r1 ∧ r' = (AList.get? m.norm r1).getD r1 :=
  canonRole_iff

example : miniModel.canonInversion (addColon "mod-of-of-of".toList) = some ":mod-of".toList
    ∧ AList.get? miniModel.norm ":mod-of".toList = some ":domain".toList := by decide

/-- `base`/`ofCount` decompose a role into a base not ending in `-of` and its trailing `-of`s. -/
theorem base_ofCount_spec (r : Str) :
    r = base r ++ ofPow (ofCount r) ∧ endsWith ofStr (base r) = false :=
  base_spec r

example : base ":a-of-of-of".toList = ":a".toList ∧ ofCount ":a-of-of-of".toList = 3 := by decide

/-- The inversion-canonicalisation step keeps the base, keeps the parity of the number of
    trailing `-of`, and more precisely either removes `j` pairs or appends `j` pairs
    (the Python loop appends `-of-of` as long as `current ++ "-of"` is a defined role). -/
theorem canon_parity {m : Model} {r r' : Str} (h : m.canonInversion r = some r') :
    base r' = base r ∧ ofCount r' % 2 = ofCount r % 2 ∧
    ∃ j, r = r' ++ ofPow (2*j) ∨ r' = r ++ ofPow (2*j) := by
  obtain ⟨j, hj⟩ := canonInversion_pairs h
  refine ⟨?_, ?_, j, hj⟩
  · rcases hj with hj | hj <;> rw [hj, base_append_ofPow]
  · rcases hj with hj | hj <;> rw [hj, ofCount_append_ofPow] <;> omega

/-- If `r ++ "-of"` is not itself a defined role, pairs are only removed, never added. -/
theorem canon_parity_removes {m : Model} {r r' : Str} (hno : m.hasRole1 (r ++ ofStr) = false)
    (h : m.canonInversion r = some r') :
    ∃ j, r = r' ++ ofPow (2*j) ∧ ofCount r = ofCount r' + 2*j := by
  obtain ⟨j, hj⟩ := canonInversion_removes hno h
  refine ⟨j, hj, ?_⟩
  conv => lhs; rw [hj]
  rw [ofCount_append_ofPow]

/-- the inversion step is idempotent for every model -/
theorem canonInversion_idem {m : Model} {r r' : Str} (h : m.canonInversion r = some r') :
    m.canonInversion r' = some r' :=
  Role.canonInversion_idem h

example : miniModel.canonInversion ":ARG1-of-of-of-of-of".toList = some ":ARG1-of".toList := by decide
example : miniModel.canonInversion ":consist".toList = some ":consist-of-of".toList
    ∧ miniModel.hasRole1 (":consist".toList ++ ofStr) = true := by decide
example : miniModel.hasRole1 (":ARG1-of-of-of".toList ++ ofStr) = false := by decide

/-! ## inverted-ness -/

theorem defined_not_inv {m : Model} {r : Str} (h : m.hasRole1 r = true) :
    m.isRoleInverted r = false := by
  simp [Model.isRoleInverted, h]

example : miniModel.hasRole1 ":consist-of".toList = true := by decide
-- the `$` quirk: a defined role followed by one line feed is still "defined"
example : miniModel.hasRole1 ":mod\n".toList = true := by decide

/-- On a fixed point of the inversion canonicalisation, inverting twice is the identity and
    inverting flips `is_role_inverted`. -/
theorem inv_involutive {m : Model} (hw : ModelWf m) {r : Str} (h : m.canonInversion r = some r) :
    m.invertRole (m.invertRole r) = r ∧
    m.isRoleInverted (m.invertRole r) = !m.isRoleInverted r :=
  Role.inv_involutive hw.1 h

example : miniModel.canonInversion ":consist-of".toList = some ":consist-of".toList
    ∧ miniModel.canonInversion ":ARG0-of".toList = some ":ARG0-of".toList
    ∧ miniModel.canonInversion ":mod\n".toList = some ":mod\n".toList := by decide

/-! ## triples -/

theorem invert_swaps (m : Model) {t : Triple} {s : Str} (ht : t.tgt = .str s) :
    m.invert t = ⟨s, m.invertRole t.role, .str t.src⟩ := by
  simp [Model.invert, ht]

theorem invert_invert {m : Model} (hw : ModelWf m) {t : Triple} {s : Str} (ht : t.tgt = .str s)
    (hr : m.canonInversion t.role = some t.role) : m.invert (m.invert t) = t := by
  rw [invert_swaps m ht, invert_swaps m rfl, (inv_involutive hw hr).1, ← ht]

theorem deinvert_inverted {m : Model} (hn : m.noop = false) {t : Triple}
    (hi : m.isRoleInverted t.role = true) : m.deinvert t = m.invert t := by
  simp [Model.deinvert, hn, hi]

theorem deinvert_noninverted {m : Model} {t : Triple} (hi : m.isRoleInverted t.role = false) :
    m.deinvert t = t := by
  simp [Model.deinvert, hi]

/-- on canonical roles the deinverted triple is never inverted -/
theorem deinvert_result_not_inverted {m : Model} (hw : ModelWf m) (hn : m.noop = false)
    {t : Triple} {s : Str} (ht : t.tgt = .str s) (hr : m.canonInversion t.role = some t.role) :
    m.isRoleInverted (m.deinvert t).role = false := by
  cases hi : m.isRoleInverted t.role with
  | false => rw [deinvert_noninverted hi, hi]
  | true =>
    rw [deinvert_inverted hn hi, invert_swaps m ht]
    show m.isRoleInverted (m.invertRole t.role) = false
    rw [(inv_involutive hw hr).2, hi]; rfl

theorem noop_deinvert_id {m : Model} (hn : m.noop = true) (t : Triple) : m.deinvert t = t := by
  simp [Model.deinvert, hn]

theorem noopModel_deinvert_id (t : Triple) : Generated.noopModel.deinvert t = t :=
  noop_deinvert_id rfl t

example : miniModel.noop = false
    ∧ miniModel.isRoleInverted ":ARG0-of".toList = true
    ∧ miniModel.isRoleInverted ":consist-of".toList = false
    ∧ miniModel.deinvert ⟨['a'], ":ARG0-of".toList, .str ['b']⟩ = ⟨['b'], ":ARG0".toList, .str ['a']⟩
    ∧ miniModel.deinvert ⟨['a'], ":consist-of".toList, .str ['b']⟩
        = ⟨['a'], ":consist-of".toList, .str ['b']⟩ := by decide

/-! ## trees -/

/-- the walk never fails -/
theorem canon_tree_total (m : Model) (n : Node) : ∃ n', canonNode m n = .ok n' :=
  canonNode_total m n

/-- same variables, same atomic targets, same nesting; each role token is rewritten by
    `RoleRewritten`: the part before the first `'~'` is canonicalised, the alignment part
    (`""` or `"~…"`) is appended verbatim. -/
theorem canon_tree_shape {m : Model} {n n' : Node} (h : canonNode m n = .ok n') :
    Node.sameShape (RoleRewritten m) n n' :=
  canonNode_shape m n n' h

/-- under `ModelWf` the rewritten token splits again into the canonical role and the very
    same alignment part -/
theorem canon_tree_alignment {m : Model} (hw : ModelWf m) {role role' : Str}
    (h : RoleRewritten m role role') :
    m.canonRole (rolePart role) = some (rolePart role') ∧ alnPart role' = alnPart role := by
  obtain ⟨c, hc, rfl⟩ := h
  have hnt := canonRole_noTilde hw.2.2 (rolePart_noTilde role) hc
  obtain ⟨h1, h2⟩ := partition_rebuild hnt (alnPart_cases role)
  rw [h1, h2]; exact ⟨hc, rfl⟩

mutual
theorem sameShape_vars_node {R : Str → Str → Prop} : ∀ (n n' : Node), Node.sameShape R n n' →
    n.nodes.map (·.1) = n'.nodes.map (·.1)
  | .mk v bs, .mk v' bs', h => by
    obtain ⟨rfl, hb⟩ := h
    simp only [Node.nodes, List.map_append, sameShape_vars_branches bs bs' hb]
    cases v <;> rfl
theorem sameShape_vars_branches {R : Str → Str → Prop} : ∀ (b b' : Branches),
    Branches.sameShape R b b' → b.nodes.map (·.1) = b'.nodes.map (·.1)
  | .nil, .nil, _ => rfl
  | .atom _ _ rest, .atom _ _ rest', h => by
    simp only [Branches.nodes]; exact sameShape_vars_branches rest rest' h.2.2
  | .sub _ n rest, .sub _ n' rest', h => by
    simp only [Branches.nodes, List.map_append, sameShape_vars_node n n' h.2.1,
      sameShape_vars_branches rest rest' h.2.2]
  | .nil, .atom .., h | .nil, .sub .., h | .atom .., .nil, h | .atom .., .sub .., h
  | .sub .., .nil, h | .sub .., .atom .., h => h.elim
end

/-- in particular the variables of the tree, in depth-first order, are unchanged -/
theorem canon_tree_vars {m : Model} {n n' : Node} (h : canonNode m n = .ok n') :
    n'.nodes.map (·.1) = n.nodes.map (·.1) :=
  (sameShape_vars_node n n' (canon_tree_shape h)).symm

theorem canon_tree_idem {m : Model} (hw : ModelWf m) {n n' : Node} (h : canonNode m n = .ok n') :
    canonNode m n' = .ok n' :=
  canonNode_idem hw.2.1 hw.2.2 h

theorem canonicalizeRoles_ok {m : Model} {t t' : Tree} :
    canonicalizeRoles m t = .ok t' ↔ ∃ n', canonNode m t.node = .ok n' ∧ t' = { t with node := n' } := by
  unfold canonicalizeRoles
  cases canonNode m t.node with
  | error e => simp [bind, Except.bind]
  | ok n' => simp [bind, Except.bind, pure, Except.pure, eq_comm]

theorem canonicalizeRoles_shape {m : Model} {t t' : Tree} (h : canonicalizeRoles m t = .ok t') :
    t'.metadata = t.metadata ∧ Node.sameShape (RoleRewritten m) t.node t'.node := by
  obtain ⟨n', hn, rfl⟩ := canonicalizeRoles_ok.1 h
  exact ⟨rfl, canon_tree_shape hn⟩

theorem canonicalizeRoles_total (m : Model) (t : Tree) : ∃ t', canonicalizeRoles m t = .ok t' := by
  obtain ⟨n', hn⟩ := canon_tree_total m t.node
  exact ⟨_, canonicalizeRoles_ok.2 ⟨n', hn, rfl⟩⟩

theorem canonicalizeRoles_idem {m : Model} (hw : ModelWf m) {t t' : Tree}
    (h : canonicalizeRoles m t = .ok t') : canonicalizeRoles m t' = .ok t' := by
  obtain ⟨n', hn, rfl⟩ := canonicalizeRoles_ok.1 h
  exact canonicalizeRoles_ok.2 ⟨n', canon_tree_idem hw hn, rfl⟩

/-- `(a / x :ARG0-of-of-of~e.1 (b / y :mod-of 5))` ↦ `(a / x :ARG0-of~e.1 (b / y :domain 5))` -/
example :
    canonNode miniModel
      (.mk (some ['a']) (.atom ['/'] (.str ['x'])
        (.sub "ARG0-of-of-of~e.1".toList
          (.mk (some ['b']) (.atom ['/'] (.str ['y']) (.atom ":mod-of".toList (.num ['5']) .nil)))
          .nil)))
    = .ok
      (.mk (some ['a']) (.atom ['/'] (.str ['x'])
        (.sub ":ARG0-of~e.1".toList
          (.mk (some ['b']) (.atom ['/'] (.str ['y']) (.atom ":domain".toList (.num ['5']) .nil)))
          .nil))) := by
  rfl

/-! ## Negations: what happens outside `ModelWf` -/
section Negations

/-- a normalisation chain `:a ↦ :b ↦ :c` -/
def chainModel : Model := { norm := [(":a".toList, ":b".toList), (":b".toList, ":c".toList)] }

example : ¬ ModelWf chainModel := by decide
/-- `canonicalize_role` is not idempotent on a chain -/
example : chainModel.canonRole ":a".toList = some ":b".toList
    ∧ chainModel.canonRole ":b".toList ≠ some ":b".toList := by decide

/-- both `:X` and `:X-of` defined -/
def pairModel : Model := { roles := [.lit ":X".toList, .lit ":X-of".toList] }

example : ¬ ModelWf pairModel := by decide
/-- `invert_role` is not an involution on the canonical role `:X`, and does not flip `:X-of` -/
example : pairModel.canonInversion ":X".toList = some ":X".toList
    ∧ pairModel.invertRole (pairModel.invertRole ":X".toList) = ":X-of-of".toList
    ∧ pairModel.isRoleInverted (pairModel.invertRole ":X".toList) = pairModel.isRoleInverted ":X".toList := by
  decide

/-- slash followed by `-of` is a defined role: clauses (i) and (ii) hold, (iii) fails -/
def slashModel : Model := { roles := [.lit ('/' :: ofStr)] }

example : slashModel.noDefinedPair = true ∧ slashModel.normOk = true ∧ ¬ ModelWf slashModel := by decide
/-- then `canonicalize_role("/")` has no colon and is not a fixed point -/
example : slashModel.canonRole ['/'] = some ('/' :: ofStr ++ ofStr)
    ∧ slashModel.canonRole ('/' :: ofStr ++ ofStr) = some ":/".toList := by decide

/-- a normalisation value without colon that IS a fixed point of `canonRole` -/
def noColonModel : Model := { norm := [(":b".toList, "b".toList)] }

example : noColonModel.noDefinedPair = true ∧ noColonModel.slashOk = true
    ∧ noColonModel.canonRole "b".toList = some "b".toList ∧ ¬ ModelWf noColonModel := by decide

/-- a normalisation value containing `'~'`: every value is a coloned fixed point of `canonRole`,
    yet the tree walk is not idempotent on the role token `:b` -/
def tildeModel : Model := { norm := [(":b".toList, ":a~y".toList), (":a".toList, ":c".toList)] }

example : tildeModel.canonRole ":a~y".toList = some ":a~y".toList
    ∧ tildeModel.canonRole ":c".toList = some ":c".toList ∧ ¬ ModelWf tildeModel := by decide
example : (canonBranches.canonRoleText tildeModel ":b".toList).toOption = some ":a~y".toList
    ∧ (canonBranches.canonRoleText tildeModel ":a~y".toList).toOption = some ":c~y".toList := by decide

end Negations

end Penman.C13

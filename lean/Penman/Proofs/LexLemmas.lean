/-
  Penman.Proofs.LexLemmas — lemmas about the lexer model (`Penman/Lexer.lean`)
  relating the scanners to the grammar of `Penman/Spec/LexSpec.lean`.
-/
import Penman.Spec.LexSpec

namespace Penman.Lex
open Penman Penman.Spec

/-! ### `spanP` -/

theorem spanP_append (p : Char → Bool) (s : Str) : (spanP p s).1 ++ (spanP p s).2 = s := by
  induction s with
  | nil => simp [spanP]
  | cons c cs ih => simp only [spanP]; split <;> simp [ih]

theorem spanP_length (p : Char → Bool) (s : Str) :
    (spanP p s).1.length + (spanP p s).2.length = s.length := by
  have := congrArg List.length (spanP_append p s)
  simpa using this

theorem spanP_fst_all (p : Char → Bool) (s : Str) : ∀ x ∈ (spanP p s).1, p x = true := by
  induction s with
  | nil => simp [spanP]
  | cons c cs ih =>
    simp only [spanP]; split
    · intro x hx; simp only [List.mem_cons] at hx
      rcases hx with rfl | hx
      · assumption
      · exact ih x hx
    · simp

theorem spanP_snd_head (p : Char → Bool) (s : Str) :
    ∀ c, (spanP p s).2.head? = some c → p c = false := by
  induction s with
  | nil => simp [spanP]
  | cons c cs ih =>
    simp only [spanP]; split
    · exact ih
    · intro d hd; simp at hd; subst hd; simpa using ‹¬ p c = true›

theorem spanP_fst_prefix (p : Char → Bool) (s : Str) : (spanP p s).1 <+: s :=
  ⟨(spanP p s).2, spanP_append p s⟩

/-- a run of `p`-characters followed by nothing or a non-`p` character is split exactly -/
theorem spanP_eq (p : Char → Bool) (a r : Str) (ha : ∀ x ∈ a, p x = true)
    (hr : ∀ c, r.head? = some c → p c = false) : spanP p (a ++ r) = (a, r) := by
  induction a with
  | nil =>
    cases r with
    | nil => simp [spanP]
    | cons c cs => have := hr c rfl; simp [spanP, this]
  | cons x xs ih =>
    have hx : p x = true := ha x (by simp)
    have := ih (fun y hy => ha y (by simp [hy]))
    simp [spanP, hx, this]

/-- any prefix made of `p`-characters is a prefix of the span -/
theorem spanP_prefix_le (p : Char → Bool) (a s : Str) (hpre : a <+: s) (ha : ∀ x ∈ a, p x = true) :
    a <+: (spanP p s).1 := by
  induction a generalizing s with
  | nil => simp
  | cons x xs ih =>
    obtain ⟨t, rfl⟩ := hpre
    have hx : p x = true := ha x (by simp)
    simp only [List.cons_append, spanP, hx, if_true]
    have := ih (xs ++ t) (List.prefix_append _ _) (fun y hy => ha y (by simp [hy]))
    simpa using this

theorem spanP_fst_eq_nil (p : Char → Bool) (s : Str) :
    (spanP p s).1 = [] ↔ ∀ c, s.head? = some c → p c = false := by
  cases s with
  | nil => simp [spanP]
  | cons c cs => simp only [spanP]; split <;> simp_all

/-! ### consequences of `CfgWf` -/

structure CfgWfP (cfg : LexCfg) : Prop where
  blank_sym : ∀ c ∈ cfg.blank, c ∈ cfg.symExcl
  blank_role : ∀ c ∈ cfg.blank, c ∈ cfg.roleExcl
  delim_sym : ∀ c ∈ delims, c ∈ cfg.symExcl
  delim_role : ∀ c ∈ delims, c ∈ cfg.roleExcl
  starter_nonblank : ∀ c ∈ starters, c ∉ cfg.blank
  quote_str : '"' ∈ cfg.strExcl
  bslash_str : '\\' ∈ cfg.strExcl
  disj : rangesDisjoint cfg.alnPrefix cfg.alnDigit = true
  comma_nodigit : inRanges cfg.alnDigit ',' = false
  dot_nodigit : inRanges cfg.alnDigit '.' = false
  sep_alnEnd : ∀ c, c ∈ cfg.blank ∨ c ∈ delims → inRanges cfg.alnDigit c = false ∧ c ≠ ','
  penman_order : orderWf cfg.penmanOrder = true
  triple_order : orderWf cfg.tripleOrder = true

theorem CfgWf.toP {cfg : LexCfg} (h : CfgWf cfg = true) : CfgWfP cfg := by
  simp only [CfgWf, Bool.and_eq_true, List.all_eq_true, List.contains_eq_mem, decide_eq_true_eq,
    Bool.not_eq_true', decide_eq_false_iff_not, List.mem_append, bne_iff_ne] at h
  obtain ⟨⟨⟨⟨⟨⟨⟨⟨⟨⟨h1, h2⟩, h3⟩, h4⟩, h5⟩, h6⟩, h7⟩, h8⟩, h8'⟩, h9⟩, h10⟩ := h
  exact ⟨fun c hc => (h1 c hc).1, fun c hc => (h1 c hc).2, fun c hc => (h2 c hc).1,
    fun c hc => (h2 c hc).2, h3, h4, h5, h6, h7, h8, h8', h9, h10⟩

theorem ranges_disjoint {a b : List (Char × Char)} (h : rangesDisjoint a b = true) (c : Char)
    (ha : inRanges a c = true) (hb : inRanges b c = true) : False := by
  simp only [inRanges, List.any_eq_true, Bool.and_eq_true, decide_eq_true_eq] at ha hb
  obtain ⟨r, hr, hr1, hr2⟩ := ha
  obtain ⟨q, hq, hq1, hq2⟩ := hb
  simp only [rangesDisjoint, List.all_eq_true, Bool.or_eq_true, decide_eq_true_eq] at h
  rcases h r hr q hq with h | h
  · exact absurd (Char.le_trans hq1 hr2) (Char.not_le.mpr h)
  · exact absurd (Char.le_trans hr1 hq2) (Char.not_le.mpr h)

variable {cfg : LexCfg}

/-! ### COMMENT -/

theorem scanComment_sound {s m : Str} (h : scanComment s = some m) : Matches cfg .COMMENT s m := by
  unfold scanComment at h
  split at h
  · rename_i rest
    simp only at h
    split at h
    · rename_i hafter
      simp only [Option.some.injEq] at h; subst h
      have happ := spanP_append (· != '\n') rest
      refine ⟨⟨(spanP (· != '\n') rest).2, by simp [happ]⟩, ⟨_, rfl, ?_⟩, fun _ => ?_⟩
      · intro hmem
        have := spanP_fst_all (· != '\n') rest _ hmem
        simp at this
      · have := List.drop_left' (l₁ := (spanP (· != '\n') rest).1) (l₂ := (spanP (· != '\n') rest).2) rfl
        rw [happ] at this
        simpa [this] using hafter
    · simp at h
  · simp at h

theorem scanComment_complete {s m : Str} (h : Matches cfg .COMMENT s m) : scanComment s = some m := by
  obtain ⟨hpre, ⟨body, rfl, hbody⟩, hend⟩ := h
  replace hend := hend rfl
  rw [List.prefix_iff_eq_append] at hpre
  generalize hr : List.drop ('#' :: body).length s = r at hpre hend
  subst hpre
  have hsp : spanP (· != '\n') (body ++ r) = (body, r) := by
    apply spanP_eq
    · intro x hx; simp; rintro rfl; exact hbody hx
    · intro c hc; rcases hend with rfl | rfl <;> simp at hc; subst hc; simp
  simp only [List.cons_append, scanComment, hsp]
  rcases hend with rfl | rfl <;> simp

/-! ### STRING -/

theorem scanStringBody_sound (excl : List Char) (hex : excl = cfg.strExcl) :
    ∀ (f : Nat) (s r : Str), scanStringBody excl f s = some r → StrTail cfg r ∧ r <+: s := by
  intro f
  induction f with
  | zero => intro s r h; simp [scanStringBody] at h
  | succ f ih =>
    intro s r h
    cases s with
    | nil => simp [scanStringBody] at h
    | cons c cs =>
      simp only [scanStringBody] at h
      split at h
      · rename_i hc; subst hc
        simp only [Option.some.injEq] at h; subst h
        exact ⟨.close, by simp⟩
      · split at h
        · rename_i hq hc; subst hc
          cases cs with
          | nil => simp at h
          | cons d ds =>
            simp only at h
            split at h
            · simp at h
            · rename_i hd
              simp only [Option.map_eq_some_iff] at h
              obtain ⟨r', hr', rfl⟩ := h
              obtain ⟨h1, h2⟩ := ih ds r' hr'
              exact ⟨.esc d r' hd h1, by simpa using h2⟩
        · split at h
          · simp at h
          · rename_i hex'
            simp only [Option.map_eq_some_iff] at h
            obtain ⟨r', hr', rfl⟩ := h
            obtain ⟨h1, h2⟩ := ih cs r' hr'
            exact ⟨.plain c r' (hex ▸ hex') h1, by simpa using h2⟩

theorem scanStringBody_complete (hq : '"' ∈ cfg.strExcl) (hb : '\\' ∈ cfg.strExcl) {r : Str}
    (hr : StrTail cfg r) : ∀ (f : Nat) (s : Str), r <+: s → s.length < f →
      scanStringBody cfg.strExcl f s = some r := by
  induction hr with
  | close =>
    intro f s hpre hf
    obtain ⟨t, rfl⟩ := hpre
    cases f with
    | zero => simp at hf
    | succ f => simp [scanStringBody]
  | plain c r hc _ ih =>
    intro f s hpre hf
    obtain ⟨t, rfl⟩ := hpre
    cases f with
    | zero => simp at hf
    | succ f =>
      have h1 : c ≠ '"' := fun h => hc (h ▸ hq)
      have h2 : c ≠ '\\' := fun h => hc (h ▸ hb)
      have := ih f (r ++ t) (List.prefix_append _ _) (by simp at hf ⊢; omega)
      simp [scanStringBody, h1, h2, hc, this]
  | esc d r hd _ ih =>
    intro f s hpre hf
    obtain ⟨t, rfl⟩ := hpre
    cases f with
    | zero => simp at hf
    | succ f =>
      have := ih f (r ++ t) (List.prefix_append _ _) (by simp at hf ⊢; omega)
      simp [scanStringBody, hd, this]

theorem scanString_sound {s m : Str} (h : scanString cfg.strExcl s = some m) :
    Matches cfg .STRING s m := by
  unfold scanString at h
  split at h
  · rename_i rest
    simp only [Option.map_eq_some_iff] at h
    obtain ⟨r, hr, rfl⟩ := h
    obtain ⟨h1, h2⟩ := scanStringBody_sound (cfg := cfg) _ rfl _ _ _ hr
    exact ⟨by simpa using h2, ⟨r, rfl, h1⟩, by simp⟩
  · simp at h

theorem scanString_complete (hq : '"' ∈ cfg.strExcl) (hb : '\\' ∈ cfg.strExcl) {s m : Str}
    (h : Matches cfg .STRING s m) : scanString cfg.strExcl s = some m := by
  obtain ⟨hpre, ⟨body, rfl, hbody⟩, -⟩ := h
  obtain ⟨t, rfl⟩ := hpre
  simp only [List.cons_append, scanString]
  rw [scanStringBody_complete hq hb hbody _ _ (List.prefix_append _ _) (by simp)]
  rfl

/-- string literals are prefix-free: at most one prefix of `s` continues an opened string -/
theorem strTail_unique (hq : '"' ∈ cfg.strExcl) (hb : '\\' ∈ cfg.strExcl) {a : Str}
    (ha : StrTail cfg a) : ∀ {b s : Str}, StrTail cfg b → a <+: s → b <+: s → a = b := by
  intro b s hb' h1 h2
  obtain ⟨t, rfl⟩ := h1
  have e1 := scanStringBody_complete hq hb ha (a ++ t).length.succ (a ++ t) (List.prefix_append _ _) (by omega)
  have e2 := scanStringBody_complete hq hb hb' (a ++ t).length.succ (a ++ t) h2 (by omega)
  rw [e1] at e2; exact Option.some.inj e2

/-! ### ROLE and SYMBOL -/

theorem scanRole_sound {s m : Str} (h : scanRole cfg.roleExcl s = some m) : Matches cfg .ROLE s m := by
  unfold scanRole at h
  split at h
  · rename_i rest
    simp only [Option.some.injEq] at h; subst h
    refine ⟨by simpa using spanP_fst_prefix _ rest, ⟨_, rfl, ?_⟩, by simp⟩
    intro c hc
    have := spanP_fst_all _ rest c hc
    simpa using this
  · simp at h

theorem scanRole_max {s m' : Str} (h : Matches cfg .ROLE s m') :
    ∃ m, scanRole cfg.roleExcl s = some m ∧ m'.length ≤ m.length := by
  obtain ⟨hpre, ⟨body, rfl, hbody⟩, -⟩ := h
  obtain ⟨t, rfl⟩ := hpre
  refine ⟨_, rfl, ?_⟩
  have := spanP_prefix_le (fun c => !(c ∈ cfg.roleExcl)) body (body ++ t) (List.prefix_append _ _)
    (by intro x hx; simpa using hbody x hx)
  have := this.length_le
  simp only [List.length_cons]
  simp at this ⊢
  omega

theorem scanSymbol_sound {s m : Str} (h : scanSymbol cfg.symExcl s = some m) :
    Matches cfg .SYMBOL s m := by
  unfold scanSymbol at h
  simp only at h
  split at h
  · simp at h
  · rename_i hne
    simp only [Option.some.injEq] at h; subst h
    refine ⟨spanP_fst_prefix _ s, ⟨by simpa using hne, ?_⟩, by simp⟩
    intro c hc
    have := spanP_fst_all _ s c hc
    simpa using this

theorem scanSymbol_max {s m' : Str} (h : Matches cfg .SYMBOL s m') :
    ∃ m, scanSymbol cfg.symExcl s = some m ∧ m'.length ≤ m.length := by
  obtain ⟨hpre, ⟨hne, hall⟩, -⟩ := h
  have hp := spanP_prefix_le (fun c => !(c ∈ cfg.symExcl)) m' s hpre
    (by intro x hx; simpa using hall x hx)
  have hl := hp.length_le
  have : (spanP (fun c => !(c ∈ cfg.symExcl)) s).1 ≠ [] := by
    intro h0; rw [h0] at hl; simp at hl; exact hne hl
  refine ⟨(spanP (fun c => !(c ∈ cfg.symExcl)) s).1, ?_, hl⟩
  simp [scanSymbol, this]

/-! ### single characters and UNEXPECTED -/

theorem scanChar_iff (c : Char) (s m : Str) : scanChar c s = some m ↔ (m = [c] ∧ m <+: s) := by
  cases s with
  | nil => simp [scanChar]; rintro rfl; simp
  | cons d ds =>
    simp only [scanChar]
    split
    · rename_i h; subst h; simp; constructor
      · rintro rfl; simp
      · rintro ⟨rfl, _⟩; rfl
    · rename_i h; simp; rintro rfl; simpa using fun h' => h h'.symm

theorem scanUnexpected_iff (s m : Str) :
    scanUnexpected cfg.blank s = some m ↔ ((∃ c, m = [c] ∧ c ∉ cfg.blank) ∧ m <+: s) := by
  cases s with
  | nil => simp [scanUnexpected]; rintro c rfl; simp
  | cons d ds =>
    simp only [scanUnexpected]
    split
    · rename_i h; simp; rintro c rfl hc; simp; rintro rfl; exact hc h
    · rename_i h; simp; constructor
      · rintro rfl; exact ⟨⟨d, rfl, h⟩, by simp⟩
      · rintro ⟨⟨c, rfl, hc⟩, hp⟩; simp at hp; simp [hp]

/-! ### ALIGNMENT -/

theorem scanAlnTail_sound (cfg : LexCfg) : ∀ (f : Nat) (s : Str),
    AlnTail cfg (scanAlnTail (inRanges cfg.alnDigit) f s) ∧
      scanAlnTail (inRanges cfg.alnDigit) f s <+: s := by
  intro f
  induction f with
  | zero => intro s; simp [scanAlnTail, AlnTail.nil]
  | succ f ih =>
    intro s
    unfold scanAlnTail
    split
    · rename_i rest
      simp only
      split
      · exact ⟨.nil, by simp⟩
      · rename_i hne
        obtain ⟨h1, h2⟩ := ih (spanP (inRanges cfg.alnDigit) rest).2
        refine ⟨.cons _ _ ⟨by simpa using hne, spanP_fst_all _ rest⟩ h1, ?_⟩
        obtain ⟨t, ht⟩ := h2
        refine ⟨t, ?_⟩
        have := spanP_append (inRanges cfg.alnDigit) rest
        simp only [List.cons_append, List.append_assoc, ht, this]
    · exact ⟨.nil, by simp⟩

theorem alnTail_head {t : Str} (ht : AlnTail cfg t) : ∀ c, t.head? = some c → c = ',' := by
  cases ht <;> simp <;> exact fun _ h => h.symm

theorem scanAlnTail_max (hc : inRanges cfg.alnDigit ',' = false) {t : Str} (ht : AlnTail cfg t) :
    ∀ (f : Nat) (s : Str), t <+: s → s.length < f →
      t.length ≤ (scanAlnTail (inRanges cfg.alnDigit) f s).length := by
  induction ht with
  | nil => intros; simp
  | cons ds r hds hr ih =>
    intro f s hpre hf
    obtain ⟨u, rfl⟩ := hpre
    cases f with
    | zero => simp at hf
    | succ f =>
      simp only [List.cons_append, List.append_assoc, scanAlnTail]
      have hp : ds <+: (spanP (inRanges cfg.alnDigit) (ds ++ (r ++ u))).1 :=
        spanP_prefix_le _ ds _ (List.prefix_append _ _) hds.2
      have hne : (spanP (inRanges cfg.alnDigit) (ds ++ (r ++ u))).1 ≠ [] := by
        intro h0; rw [h0] at hp; exact hds.1 (List.prefix_nil.mp hp)
      simp only [List.isEmpty_iff, hne, if_false]
      cases hr with
      | nil =>
        have := hp.length_le
        simp at this ⊢; omega
      | cons ds' r' hds' hr' =>
        have hsp : spanP (inRanges cfg.alnDigit) (ds ++ ((',' :: ds' ++ r') ++ u)) = (ds, (',' :: ds' ++ r') ++ u) :=
          spanP_eq _ _ _ hds.2 (by intro c h; simp at h; subst h; exact hc)
        rw [hsp]
        have := ih f ((',' :: ds' ++ r') ++ u) (List.prefix_append _ _) (by simp at hf ⊢; omega)
        simp at this ⊢; omega

/-- what may follow an alignment for it to be matched exactly: not a digit, not a comma -/
def AlnEnd (cfg : LexCfg) (rest : Str) : Prop :=
  ∀ c, rest.head? = some c → c ≠ ',' ∧ inRanges cfg.alnDigit c = false

theorem scanAlnTail_exact (hc : inRanges cfg.alnDigit ',' = false) {t : Str} (ht : AlnTail cfg t) :
    ∀ (f : Nat) (rest : Str), AlnEnd cfg rest → (t ++ rest).length < f →
      scanAlnTail (inRanges cfg.alnDigit) f (t ++ rest) = t := by
  induction ht with
  | nil =>
    intro f rest hend hf
    cases f with
    | zero => simp at hf
    | succ f =>
      cases rest with
      | nil => simp [scanAlnTail]
      | cons c cs =>
        have := (hend c rfl).1
        simp only [List.nil_append]
        unfold scanAlnTail
        split
        · rename_i heq; simp at heq; exact absurd heq.1 this
        · rfl
  | cons ds r hds hr ih =>
    intro f rest hend hf
    cases f with
    | zero => simp at hf
    | succ f =>
      have hsp : spanP (inRanges cfg.alnDigit) (ds ++ (r ++ rest)) = (ds, r ++ rest) := by
        apply spanP_eq _ _ _ hds.2
        intro c h
        cases hr with
        | nil => exact (hend c (by simpa using h)).2
        | cons => simp at h; subst h; exact hc
      simp only [List.cons_append, List.append_assoc, scanAlnTail, hsp]
      have hne : ds ≠ [] := hds.1
      simp only [List.isEmpty_iff, hne, if_false]
      rw [ih f rest hend (by simp at hf ⊢; omega)]

theorem scanAlnDigits_sound {s m : Str} (h : scanAlnDigits (inRanges cfg.alnDigit) s = some m) :
    ∃ ds tail, m = ds ++ tail ∧ IsDigits cfg ds ∧ AlnTail cfg tail ∧ m <+: s := by
  unfold scanAlnDigits at h
  simp only at h
  split at h
  · simp at h
  · rename_i hne
    simp only [Option.some.injEq] at h; subst h
    obtain ⟨h1, ⟨t, ht⟩⟩ := scanAlnTail_sound cfg s.length (spanP (inRanges cfg.alnDigit) s).2
    refine ⟨_, _, rfl, ⟨by simpa using hne, spanP_fst_all _ s⟩, h1, t, ?_⟩
    rw [List.append_assoc, ht, spanP_append]

theorem scanAlnDigits_max (hc : inRanges cfg.alnDigit ',' = false) {ds tail s : Str}
    (hds : IsDigits cfg ds) (ht : AlnTail cfg tail) (hpre : ds ++ tail <+: s) :
    ∃ m, scanAlnDigits (inRanges cfg.alnDigit) s = some m ∧ (ds ++ tail).length ≤ m.length := by
  obtain ⟨u, rfl⟩ := hpre
  have hp : ds <+: (spanP (inRanges cfg.alnDigit) (ds ++ tail ++ u)).1 :=
    spanP_prefix_le _ ds _ ⟨tail ++ u, by simp⟩ hds.2
  have hne : (spanP (inRanges cfg.alnDigit) (ds ++ tail ++ u)).1 ≠ [] := by
    intro h0; rw [h0] at hp; exact hds.1 (List.prefix_nil.mp hp)
  refine ⟨_, by simp only [scanAlnDigits, List.isEmpty_iff, hne, if_false]; rfl, ?_⟩
  cases ht with
  | nil => have := hp.length_le; simp at this ⊢; omega
  | cons ds' r' hds' hr' =>
    have hsp : spanP (inRanges cfg.alnDigit) (ds ++ (',' :: ds' ++ r') ++ u) = (ds, (',' :: ds' ++ r') ++ u) := by
      rw [List.append_assoc]
      exact spanP_eq _ _ _ hds.2 (by intro c h; simp at h; subst h; exact hc)
    rw [hsp]
    have := scanAlnTail_max hc (.cons ds' r' hds' hr') (ds ++ (',' :: ds' ++ r') ++ u).length
      ((',' :: ds' ++ r') ++ u) (List.prefix_append _ _)
      (by have := List.length_pos_iff.mpr hds.1; simp only [List.length_append, List.length_cons]; omega)
    simp at this ⊢; omega

theorem scanAlnDigits_exact (hc : inRanges cfg.alnDigit ',' = false) {ds tail rest : Str}
    (hds : IsDigits cfg ds) (ht : AlnTail cfg tail) (hend : AlnEnd cfg rest) :
    scanAlnDigits (inRanges cfg.alnDigit) (ds ++ tail ++ rest) = some (ds ++ tail) := by
  have hsp : spanP (inRanges cfg.alnDigit) (ds ++ tail ++ rest) = (ds, tail ++ rest) := by
    rw [List.append_assoc]
    apply spanP_eq _ _ _ hds.2
    intro c h
    cases ht with
    | nil => exact (hend c (by simpa using h)).2
    | cons => simp at h; subst h; exact hc
  have hne : ds ≠ [] := hds.1
  simp only [scanAlnDigits, hsp, List.isEmpty_iff, hne, if_false]
  rw [scanAlnTail_exact hc ht _ rest hend
    (by have := List.length_pos_iff.mpr hds.1; simp only [List.length_append]; omega)]

/-- the `(?:[a-zA-Z]\.?)?` branch of `scanAlignment`, with its backtracking -/
def viaPrefix (cfg : LexCfg) : Str → Option Str
  | p :: r1 =>
    if inRanges cfg.alnPrefix p then
      match r1 with
      | '.' :: r2 =>
        match scanAlnDigits (inRanges cfg.alnDigit) r2 with
        | some m => some (p :: '.' :: m)
        | none => (scanAlnDigits (inRanges cfg.alnDigit) r1).map (p :: ·)
      | _ => (scanAlnDigits (inRanges cfg.alnDigit) r1).map (p :: ·)
    else none
  | [] => none

theorem scanAlignment_tilde (rest : Str) :
    scanAlignment cfg ('~' :: rest) =
      match viaPrefix cfg rest with
      | some m => some ('~' :: m)
      | none => (scanAlnDigits (inRanges cfg.alnDigit) rest).map ('~' :: ·) := by
  cases rest <;> rfl

theorem viaPrefix_sound {rest m : Str} (h : viaPrefix cfg rest = some m) :
    ∃ pre rest' m0, IsAlnPrefix cfg pre ∧ rest = pre ++ rest' ∧ m = pre ++ m0 ∧
      scanAlnDigits (inRanges cfg.alnDigit) rest' = some m0 := by
  unfold viaPrefix at h
  split at h
  · rename_i p r1
    split at h
    · rename_i hp
      split at h
      · rename_i r2
        split at h
        · rename_i m0 hm0
          simp only [Option.some.injEq] at h; subst h
          exact ⟨[p, '.'], r2, m0, .inr ⟨p, hp, .inr rfl⟩, rfl, rfl, hm0⟩
        · simp only [Option.map_eq_some_iff] at h
          obtain ⟨m0, hm0, rfl⟩ := h
          exact ⟨[p], _, m0, .inr ⟨p, hp, .inl rfl⟩, rfl, rfl, hm0⟩
      · simp only [Option.map_eq_some_iff] at h
        obtain ⟨m0, hm0, rfl⟩ := h
        exact ⟨[p], _, m0, .inr ⟨p, hp, .inl rfl⟩, rfl, rfl, hm0⟩
    · simp at h
  · simp at h

theorem scanAlignment_sound {s m : Str} (h : scanAlignment cfg s = some m) :
    Matches cfg .ALIGNMENT s m := by
  have key : ∀ pre rest' m0, IsAlnPrefix cfg pre →
      scanAlnDigits (inRanges cfg.alnDigit) rest' = some m0 →
      Matches cfg .ALIGNMENT ('~' :: pre ++ rest') ('~' :: pre ++ m0) := by
    intro pre rest' m0 hpre hm0
    obtain ⟨ds, tail, rfl, hds, htail, ⟨u, hu⟩⟩ := scanAlnDigits_sound hm0
    refine ⟨⟨u, by simp [← hu]⟩, ⟨pre, ds, tail, by simp, hpre, hds, htail⟩, by simp⟩
  cases s with
  | nil => simp [scanAlignment] at h
  | cons c rest =>
    by_cases hc : c = '~'
    · subst hc
      rw [scanAlignment_tilde] at h
      split at h
      · rename_i m1 hm1
        simp only [Option.some.injEq] at h; subst h
        obtain ⟨pre, rest', m0, hpre, rfl, rfl, hm0⟩ := viaPrefix_sound hm1
        exact key pre rest' m0 hpre hm0
      · simp only [Option.map_eq_some_iff] at h
        obtain ⟨m0, hm0, rfl⟩ := h
        exact key [] rest m0 (.inl rfl) hm0
    · unfold scanAlignment at h
      split at h
      · rename_i heq; simp at heq; exact absurd heq.1 hc
      · simp at h

/-- the decisive computation: with a (possibly empty) prefix `pre` followed by input that
    starts with a digit, `scanAlignment` commits to `pre` and scans the digits there -/
theorem scanAlignment_of_digits (hwf : CfgWfP cfg) {pre rest' m0 : Str} (hpre : IsAlnPrefix cfg pre)
    (hd : ∃ d r, rest' = d :: r ∧ inRanges cfg.alnDigit d = true)
    (hm0 : scanAlnDigits (inRanges cfg.alnDigit) rest' = some m0) :
    scanAlignment cfg ('~' :: pre ++ rest') = some ('~' :: pre ++ m0) := by
  obtain ⟨d, r, rfl, hdig⟩ := hd
  have hdot : d ≠ '.' := by rintro rfl; rw [hwf.dot_nodigit] at hdig; cases hdig
  simp only [List.cons_append]
  rw [scanAlignment_tilde]
  rcases hpre with rfl | ⟨p, hp, rfl | rfl⟩
  · have hnp : inRanges cfg.alnPrefix d = false := by
      cases h : inRanges cfg.alnPrefix d
      · rfl
      · exact (ranges_disjoint hwf.disj d h hdig).elim
    simp [viaPrefix, hnp, hm0]
  · have : viaPrefix cfg (p :: d :: r) = some (p :: m0) := by
      simp only [viaPrefix, hp, if_true]
      split
      · rename_i heq; simp at heq; exact absurd heq.1 hdot
      · simp [hm0]
    simp [this]
  · have : viaPrefix cfg (p :: '.' :: d :: r) = some (p :: '.' :: m0) := by
      simp [viaPrefix, hp, hm0]
    simp [this]

theorem scanAlignment_max (hwf : CfgWfP cfg) {s m' : Str} (h : Matches cfg .ALIGNMENT s m') :
    ∃ m, scanAlignment cfg s = some m ∧ m'.length ≤ m.length := by
  obtain ⟨⟨u, rfl⟩, ⟨pre, ds, tail, rfl, hpre, hds, htail⟩, -⟩ := h
  obtain ⟨m0, hm0, hlen⟩ := scanAlnDigits_max hwf.comma_nodigit hds htail
    (s := ds ++ tail ++ u) (List.prefix_append _ _)
  have hd : ∃ d r, ds ++ tail ++ u = d :: r ∧ inRanges cfg.alnDigit d = true := by
    obtain ⟨hne, hall⟩ := hds
    cases ds with
    | nil => exact absurd rfl hne
    | cons d ds0 => exact ⟨d, _, rfl, hall d (by simp)⟩
  refine ⟨'~' :: pre ++ m0, ?_, by simp at hlen ⊢; omega⟩
  have := scanAlignment_of_digits hwf hpre hd hm0
  simpa using this

/-- an alignment followed by something that is neither a digit nor a comma is matched exactly -/
theorem scanAlignment_exact (hwf : CfgWfP cfg) {a rest : Str} (ha : IsAlignment cfg a)
    (hend : AlnEnd cfg rest) : scanAlignment cfg (a ++ rest) = some a := by
  obtain ⟨pre, ds, tail, rfl, hpre, hds, htail⟩ := ha
  have hm0 := scanAlnDigits_exact hwf.comma_nodigit hds htail hend
  have hd : ∃ d r, ds ++ tail ++ rest = d :: r ∧ inRanges cfg.alnDigit d = true := by
    obtain ⟨hne, hall⟩ := hds
    cases ds with
    | nil => exact absurd rfl hne
    | cons d ds0 => exact ⟨d, _, rfl, hall d (by simp)⟩
  have := scanAlignment_of_digits hwf hpre hd hm0
  simpa using this

/-! ### every scanner against its class -/

theorem scanTy_sound {ty : TokTy} {s m : Str} (h : scanTy cfg ty s = some m) : Matches cfg ty s m := by
  cases ty <;> simp only [scanTy] at h
  · exact scanComment_sound h
  · exact scanString_sound h
  · obtain ⟨rfl, hp⟩ := (scanChar_iff _ _ _).mp h; exact ⟨hp, rfl, by simp⟩
  · obtain ⟨rfl, hp⟩ := (scanChar_iff _ _ _).mp h; exact ⟨hp, rfl, by simp⟩
  · obtain ⟨rfl, hp⟩ := (scanChar_iff _ _ _).mp h; exact ⟨hp, rfl, by simp⟩
  · exact scanRole_sound h
  · exact scanSymbol_sound h
  · exact scanAlignment_sound h
  · obtain ⟨hl, hp⟩ := (scanUnexpected_iff _ _).mp h; exact ⟨hp, hl, by simp⟩

theorem scanTy_max (hwf : CfgWfP cfg) {ty : TokTy} {s m' : Str} (h : Matches cfg ty s m') :
    ∃ m, scanTy cfg ty s = some m ∧ m'.length ≤ m.length := by
  cases ty <;> simp only [scanTy]
  · exact ⟨m', scanComment_complete h, Nat.le_refl _⟩
  · exact ⟨m', scanString_complete hwf.quote_str hwf.bslash_str h, Nat.le_refl _⟩
  · exact ⟨m', (scanChar_iff _ _ _).mpr ⟨h.2.1, h.1⟩, Nat.le_refl _⟩
  · exact ⟨m', (scanChar_iff _ _ _).mpr ⟨h.2.1, h.1⟩, Nat.le_refl _⟩
  · exact ⟨m', (scanChar_iff _ _ _).mpr ⟨h.2.1, h.1⟩, Nat.le_refl _⟩
  · exact scanRole_max h
  · exact scanSymbol_max h
  · exact scanAlignment_max hwf h
  · exact ⟨m', (scanUnexpected_iff _ _).mpr ⟨h.2.1, h.1⟩, Nat.le_refl _⟩

theorem prefix_eq_of_length_eq {a b s : Str} (ha : a <+: s) (hb : b <+: s) (hl : a.length = b.length) :
    a = b := by
  rw [List.prefix_iff_eq_take] at ha hb
  rw [ha, hb, hl]

/-- a scanner returns exactly the longest match of its class -/
theorem scanTy_some_iff (hwf : CfgWfP cfg) {ty : TokTy} {s m : Str} :
    scanTy cfg ty s = some m ↔ IsMatch cfg ty s m := by
  constructor
  · intro h
    refine ⟨scanTy_sound h, fun m' hm' => ?_⟩
    obtain ⟨m1, h1, hl⟩ := scanTy_max hwf hm'
    rw [h] at h1; cases h1; exact hl
  · rintro ⟨hm, hmax⟩
    obtain ⟨m1, h1, hl⟩ := scanTy_max hwf hm
    have hm1 := scanTy_sound h1
    have := hmax m1 hm1
    rw [h1, prefix_eq_of_length_eq hm1.1 hm.1 (by omega)]

/-- a scanner fails exactly when its class has no match -/
theorem scanTy_none_iff (hwf : CfgWfP cfg) {ty : TokTy} {s : Str} :
    scanTy cfg ty s = none ↔ ∀ m, ¬ Matches cfg ty s m := by
  constructor
  · intro h m hm
    obtain ⟨m1, h1, -⟩ := scanTy_max hwf hm
    rw [h] at h1; cases h1
  · intro h
    cases h1 : scanTy cfg ty s with
    | none => rfl
    | some m => exact absurd (scanTy_sound h1) (h m)

theorem isMatch_unique {ty : TokTy} {s a b : Str} (ha : IsMatch cfg ty s a) (hb : IsMatch cfg ty s b) :
    a = b :=
  prefix_eq_of_length_eq ha.1.1 hb.1.1 (Nat.le_antisymm (hb.2 a ha.1) (ha.2 b hb.1))

/-- every match is non-empty -/
theorem matches_ne_nil {ty : TokTy} {s m : Str} (h : Matches cfg ty s m) : m ≠ [] := by
  obtain ⟨-, hl, -⟩ := h
  cases ty <;> simp only [Lang] at hl
  · obtain ⟨_, rfl, _⟩ := hl; simp
  · obtain ⟨_, rfl, _⟩ := hl; simp
  · subst hl; simp
  · subst hl; simp
  · subst hl; simp
  · obtain ⟨_, rfl, _⟩ := hl; simp
  · exact hl.1
  · obtain ⟨_, _, _, rfl, _⟩ := hl; simp
  · obtain ⟨_, rfl, _⟩ := hl; simp

/-- no match starts with a blank -/
theorem matches_head_nonblank (hwf : CfgWfP cfg) {ty : TokTy} {s m : Str} (h : Matches cfg ty s m) :
    ∃ c m', m = c :: m' ∧ c ∉ cfg.blank := by
  obtain ⟨-, hl, -⟩ := h
  have st := hwf.starter_nonblank
  simp only [starters, delims, List.mem_cons, List.not_mem_nil, or_false, forall_eq_or_imp, forall_eq] at st
  obtain ⟨s1, s2, s3, s4, s5, s6, s7⟩ := st
  cases ty <;> simp only [Lang] at hl
  · obtain ⟨_, rfl, _⟩ := hl; exact ⟨_, _, rfl, s1⟩
  · obtain ⟨_, rfl, _⟩ := hl; exact ⟨_, _, rfl, s2⟩
  · subst hl; exact ⟨_, _, rfl, s3⟩
  · subst hl; exact ⟨_, _, rfl, s4⟩
  · subst hl; exact ⟨_, _, rfl, s5⟩
  · obtain ⟨_, rfl, _⟩ := hl; exact ⟨_, _, rfl, s6⟩
  · obtain ⟨hne, hall⟩ := hl
    cases m with
    | nil => exact absurd rfl hne
    | cons c m' => exact ⟨c, m', rfl, fun hb => hall c (by simp) (hwf.blank_sym c hb)⟩
  · obtain ⟨_, _, _, rfl, _⟩ := hl; exact ⟨_, _, rfl, s7⟩
  · obtain ⟨c, rfl, hc⟩ := hl; exact ⟨c, [], rfl, hc⟩

theorem scanTy_ne_nil {ty : TokTy} {s m : Str} (h : scanTy cfg ty s = some m) : m ≠ [] :=
  matches_ne_nil (scanTy_sound h)

theorem scanTy_prefix {ty : TokTy} {s m : Str} (h : scanTy cfg ty s = some m) : m <+: s :=
  (scanTy_sound h).1

/-! ### `firstMatch` -/

theorem firstMatch_some {order : List TokTy} {s : Str} {ty : TokTy} {m : Str}
    (h : firstMatch cfg order s = some (ty, m)) :
    ∃ pre post, order = pre ++ ty :: post ∧ (∀ t ∈ pre, scanTy cfg t s = none) ∧
      scanTy cfg ty s = some m := by
  induction order with
  | nil => simp [firstMatch] at h
  | cons t ts ih =>
    simp only [firstMatch] at h
    split at h
    · rename_i m1 hm1
      simp only [Option.some.injEq, Prod.mk.injEq] at h
      obtain ⟨rfl, rfl⟩ := h
      exact ⟨[], ts, rfl, by simp, hm1⟩
    · rename_i hnone
      obtain ⟨pre, post, rfl, hpre, hm⟩ := ih h
      exact ⟨t :: pre, post, rfl, by simpa [hnone] using hpre, hm⟩

theorem firstMatch_none {order : List TokTy} {s : Str} (h : firstMatch cfg order s = none) :
    ∀ t ∈ order, scanTy cfg t s = none := by
  induction order with
  | nil => simp
  | cons t ts ih =>
    simp only [firstMatch] at h
    split at h
    · simp at h
    · rename_i hnone
      simpa [hnone] using ih h

/-- the alternation picks `ty` when `ty` occurs in the order and everything before it fails -/
theorem firstMatch_of {pre post : List TokTy} {s : Str} {ty : TokTy} {m : Str}
    (hpre : ∀ t ∈ pre, scanTy cfg t s = none) (hm : scanTy cfg ty s = some m) :
    firstMatch cfg (pre ++ ty :: post) s = some (ty, m) := by
  induction pre with
  | nil => simp [firstMatch, hm]
  | cons t ts ih =>
    have h1 : scanTy cfg t s = none := hpre t (by simp)
    simp only [List.cons_append, firstMatch, h1]
    exact ih (fun u hu => hpre u (by simp [hu]))

/-! ### `lexAux` : one step, fuel irrelevance -/

theorem firstMatch_ne_nil {order : List TokTy} {s : Str} {ty : TokTy} {m : Str}
    (h : firstMatch cfg order s = some (ty, m)) : m ≠ [] := by
  obtain ⟨_, _, _, _, hm⟩ := firstMatch_some h
  exact scanTy_ne_nil hm

theorem firstMatch_prefix {order : List TokTy} {s : Str} {ty : TokTy} {m : Str}
    (h : firstMatch cfg order s = some (ty, m)) : m <+: s := by
  obtain ⟨_, _, _, _, hm⟩ := firstMatch_some h
  exact scanTy_prefix hm

theorem firstMatch_nil_input {order : List TokTy} : firstMatch cfg order [] = none := by
  cases h : firstMatch cfg order [] with
  | none => rfl
  | some p =>
    obtain ⟨ty, m⟩ := p
    have := firstMatch_prefix h
    have := firstMatch_ne_nil h
    simp_all

/-- a matching step: emit the token and continue after it -/
theorem lexAux_some {order : List TokTy} {n f off : Nat} {after : Str} {ty : TokTy} {m : Str}
    (h : firstMatch cfg order (m ++ after) = some (ty, m)) :
    lexAux cfg order n (f+1) off (m ++ after) =
      ⟨ty, m, n, off⟩ :: lexAux cfg order n f (off + m.length) after := by
  have hne := firstMatch_ne_nil h
  cases hs : m ++ after with
  | nil => simp at hs; exact absurd hs.1 hne
  | cons c cs =>
    rw [hs] at h
    simp only [lexAux, h, List.isEmpty_iff, hne, if_false]
    rw [← hs, List.drop_left]

/-- a skipping step -/
theorem lexAux_none {order : List TokTy} {n f off : Nat} {c : Char} {cs : Str}
    (h : firstMatch cfg order (c :: cs) = none) :
    lexAux cfg order n (f+1) off (c :: cs) = lexAux cfg order n f (off+1) cs := by
  simp only [lexAux, h]

/-- **fuel irrelevance**: any two fuels above the remaining length give the same tokens -/
theorem lexAux_fuel (cfg : LexCfg) (order : List TokTy) (n : Nat) :
    ∀ (f f' off : Nat) (s : Str), s.length < f → s.length < f' →
      lexAux cfg order n f off s = lexAux cfg order n f' off s := by
  intro f
  induction f with
  | zero => intro f' off s h; omega
  | succ f ih =>
    intro f' off s h h'
    cases f' with
    | zero => omega
    | succ f' =>
      cases s with
      | nil => simp [lexAux]
      | cons c cs =>
        simp only [List.length_cons] at h h'
        cases hfm : firstMatch cfg order (c :: cs) with
        | none => rw [lexAux_none hfm, lexAux_none hfm]; exact ih f' _ cs (by omega) (by omega)
        | some p =>
          obtain ⟨ty, m⟩ := p
          obtain ⟨after, hafter⟩ := firstMatch_prefix hfm
          have hne := firstMatch_ne_nil hfm
          rw [← hafter] at hfm ⊢
          rw [lexAux_some hfm, lexAux_some hfm]
          have hl : after.length < (c :: cs).length := by
            rw [← hafter]; have := List.length_pos_iff.mpr hne; simp; omega
          simp only [List.length_cons] at hl
          rw [ih f' _ after (by omega) (by omega)]

theorem lexAux_nil (cfg : LexCfg) (order : List TokTy) (n f off : Nat) :
    lexAux cfg order n f off [] = [] := by
  cases f <;> rfl

/-! ### the relative form of the specification -/

/-- the tiling phrased on the remaining input, `rest = gap ++ text ++ after`, with an
    arbitrary per-token requirement `P remainingInput token` -/
def GenFrom (cfg : LexCfg) (n : Nat) (P : Str → Tok → Prop) : Nat → Str → List Tok → Prop
  | _, rest, [] => ∀ c ∈ rest, c ∈ cfg.blank
  | pos, rest, t :: ts =>
    ∃ gap after, rest = gap ++ t.text ++ after ∧ (∀ c ∈ gap, c ∈ cfg.blank) ∧
      t.offset = pos + gap.length ∧ t.lineno = n ∧ t.text ≠ [] ∧
      P (t.text ++ after) t ∧
      GenFrom cfg n P (t.offset + t.text.length) after ts

/-- `LexSpec` phrased on the remaining input -/
abbrev LexSpecFrom (cfg : LexCfg) (order : List TokTy) (n : Nat) : Nat → Str → List Tok → Prop :=
  GenFrom cfg n (TokOk cfg order)

theorem GenFrom.skip {P : Str → Tok → Prop} {n pos : Nat} {c : Char} {rest : Str} {toks : List Tok}
    (hc : c ∈ cfg.blank) (h : GenFrom cfg n P (pos+1) rest toks) :
    GenFrom cfg n P pos (c :: rest) toks := by
  cases toks with
  | nil => simp only [GenFrom] at h ⊢; intro d hd; simp at hd; rcases hd with rfl | hd; exact hc; exact h d hd
  | cons t ts =>
    simp only [GenFrom] at h ⊢
    obtain ⟨gap, after, rfl, hgap, hoff, hrest⟩ := h
    refine ⟨c :: gap, after, by simp, ?_, by simp; omega, hrest⟩
    intro d hd; simp at hd; rcases hd with rfl | hd; exact hc; exact hgap d hd

theorem GenFrom.mono {P Q : Str → Tok → Prop} {n : Nat} (hPQ : ∀ s t, P s t → Q s t) :
    ∀ (toks : List Tok) (pos : Nat) (rest : Str), GenFrom cfg n P pos rest toks → GenFrom cfg n Q pos rest toks := by
  intro toks
  induction toks with
  | nil => intro pos rest h; exact h
  | cons t ts ih =>
    intro pos rest h
    simp only [GenFrom] at h ⊢
    obtain ⟨gap, after, h1, h2, h3, h4, h5, h6, h7⟩ := h
    exact ⟨gap, after, h1, h2, h3, h4, h5, hPQ _ _ h6, ih _ _ h7⟩

theorem firstMatch_tokOk (hwf : CfgWfP cfg) {order : List TokTy} {s : Str} {ty : TokTy} {m : Str}
    (h : firstMatch cfg order s = some (ty, m)) (n off : Nat) : TokOk cfg order s ⟨ty, m, n, off⟩ := by
  obtain ⟨pre, post, rfl, hpre, hm⟩ := firstMatch_some h
  exact ⟨pre, post, rfl, fun t ht => (scanTy_none_iff hwf).mp (hpre t ht), (scanTy_some_iff hwf).mp hm⟩

/-- `lexAux` tiles its input (needs only `UNEXPECTED ∈ order`); each token satisfies any `P`
    that holds of every `firstMatch` result -/
theorem lexAux_genFrom {order : List TokTy} (hU : TokTy.UNEXPECTED ∈ order) (n : Nat)
    {P : Str → Tok → Prop}
    (hP : ∀ s ty m off, firstMatch cfg order s = some (ty, m) → P s ⟨ty, m, n, off⟩) :
    ∀ (f off : Nat) (s : Str), s.length < f →
      GenFrom cfg n P off s (lexAux cfg order n f off s) := by
  intro f
  induction f with
  | zero => intro off s h; omega
  | succ f ih =>
    intro off s h
    cases s with
    | nil => simp [lexAux, GenFrom]
    | cons c cs =>
      simp only [List.length_cons] at h
      cases hfm : firstMatch cfg order (c :: cs) with
      | none =>
        rw [lexAux_none hfm]
        have hu := firstMatch_none hfm _ hU
        have hc : c ∈ cfg.blank := by
          simp only [scanTy, scanUnexpected] at hu
          split at hu
          · assumption
          · simp at hu
        exact GenFrom.skip hc (ih (off+1) cs (by omega))
      | some p =>
        obtain ⟨ty, m⟩ := p
        obtain ⟨after, hafter⟩ := firstMatch_prefix hfm
        have hne := firstMatch_ne_nil hfm
        rw [← hafter] at hfm ⊢
        rw [lexAux_some hfm]
        have hl : after.length < (c :: cs).length := by
          rw [← hafter]; have := List.length_pos_iff.mpr hne; simp; omega
        simp only [List.length_cons] at hl
        simp only [GenFrom]
        exact ⟨[], after, by simp, by simp, by simp, trivial, hne, hP _ _ _ _ hfm,
          ih _ after (by omega)⟩

theorem lexAux_specFrom (hwf : CfgWfP cfg) {order : List TokTy} (hU : TokTy.UNEXPECTED ∈ order) (n : Nat)
    (f off : Nat) (s : Str) (h : s.length < f) :
    LexSpecFrom cfg order n off s (lexAux cfg order n f off s) :=
  lexAux_genFrom hU n (fun _ _ _ off h => firstMatch_tokOk hwf h n off) f off s h

/-! ### relative form ⇔ absolute form -/

theorem genFrom_to_abs {P : Str → Tok → Prop} {n : Nat} (line : Str) :
    ∀ (toks : List Tok) (pos : Nat), GenFrom cfg n P pos (line.drop pos) toks →
      TilingFrom cfg n line pos toks ∧ ∀ t ∈ toks, P (line.drop t.offset) t := by
  intro toks
  induction toks with
  | nil => intro pos h; exact ⟨h, by simp⟩
  | cons t ts ih =>
    intro pos h
    simp only [GenFrom] at h
    obtain ⟨gap, after, hrest, hgap, hoff, hln, hne, hok, hrec⟩ := h
    have hdropoff : line.drop t.offset = t.text ++ after := by
      rw [hoff, ← List.drop_drop, hrest, List.append_assoc, List.drop_left]
    have hafter : line.drop (t.offset + t.text.length) = after := by
      rw [← List.drop_drop, hdropoff, List.drop_left]
    rw [← hafter] at hrec
    obtain ⟨h1, h2⟩ := ih _ hrec
    refine ⟨⟨by omega, ?_, hln, hne, ?_, h1⟩, ?_⟩
    · have : t.offset - pos = gap.length := by omega
      rw [this, hrest, List.append_assoc, List.take_left]; exact hgap
    · rw [hdropoff, List.take_left]
    · intro u hu
      simp only [List.mem_cons] at hu
      rcases hu with rfl | hu
      · rw [hdropoff]; exact hok
      · exact h2 u hu

theorem abs_to_genFrom {P : Str → Tok → Prop} {n : Nat} (line : Str) :
    ∀ (toks : List Tok) (pos : Nat), TilingFrom cfg n line pos toks →
      (∀ t ∈ toks, P (line.drop t.offset) t) →
      GenFrom cfg n P pos (line.drop pos) toks := by
  intro toks
  induction toks with
  | nil => intro pos h _; exact h
  | cons t ts ih =>
    intro pos h hok
    simp only [TilingFrom] at h
    obtain ⟨hle, hgap, hln, hne, htext, hrec⟩ := h
    have hlt : t.offset < line.length := by
      rcases Nat.lt_or_ge t.offset line.length with h | h
      · exact h
      · rw [List.drop_eq_nil_of_le h] at htext; simp at htext; exact absurd htext hne
    have hdropoff : line.drop t.offset = t.text ++ line.drop (t.offset + t.text.length) := by
      conv => lhs; rw [← List.take_append_drop t.text.length (line.drop t.offset)]
      rw [← htext, List.drop_drop]
    have hdroppos : line.drop pos = (line.drop pos).take (t.offset - pos) ++ line.drop t.offset := by
      conv => lhs; rw [← List.take_append_drop (t.offset - pos) (line.drop pos)]
      rw [List.drop_drop]; congr 2; omega
    simp only [GenFrom]
    refine ⟨(line.drop pos).take (t.offset - pos), line.drop (t.offset + t.text.length), ?_, hgap, ?_,
      hln, hne, ?_, ih _ hrec (fun u hu => hok u (by simp [hu]))⟩
    · rw [List.append_assoc, ← hdropoff]; exact hdroppos
    · simp; omega
    · rw [← hdropoff]; exact hok t (by simp)

theorem lexSpec_iff_from {order : List TokTy} {n : Nat} {line : Str} {toks : List Tok} :
    LexSpec cfg order n line toks ↔ LexSpecFrom cfg order n 0 line toks := by
  constructor
  · rintro ⟨h1, h2⟩; simpa using abs_to_genFrom line toks 0 h1 h2
  · intro h; exact genFrom_to_abs line toks 0 (by simpa using h)

theorem tiling_iff_from {n : Nat} {line : Str} {toks : List Tok} :
    Tiling cfg n line toks ↔ GenFrom cfg n (fun _ _ => True) 0 line toks := by
  constructor
  · intro h; simpa using abs_to_genFrom (P := fun _ _ => True) line toks 0 h (fun _ _ => trivial)
  · intro h; exact (genFrom_to_abs line toks 0 (by simpa using h)).1

/-! ### uniqueness -/

theorem tokOk_unique {order : List TokTy} {rest : Str} {t u : Tok}
    (ht : TokOk cfg order rest t) (hu : TokOk cfg order rest u) : t.ty = u.ty ∧ t.text = u.text := by
  obtain ⟨pre1, post1, e1, hp1, hm1⟩ := ht
  obtain ⟨pre2, post2, e2, hp2, hm2⟩ := hu
  have hty : t.ty = u.ty := by
    rw [e1] at e2
    rcases List.append_eq_append_iff.mp e2 with ⟨as, h1, h2⟩ | ⟨bs, h1, h2⟩
    · cases as with
      | nil => simp at h2; exact h2.1
      | cons a as' =>
        simp at h2
        exact absurd hm1.1 (hp2 t.ty (by rw [h1, h2.1]; simp) _)
    · cases bs with
      | nil => simp at h2; exact h2.1.symm
      | cons b bs' =>
        simp at h2
        exact absurd hm2.1 (hp1 u.ty (by rw [h1, h2.1]; simp) _)
  refine ⟨hty, ?_⟩
  rw [hty] at hm1
  exact isMatch_unique hm1 hm2

theorem gap_split_unique {blank : List Char} :
    ∀ (g1 g2 : Str) (x y : Char) (r1 r2 : Str), (∀ c ∈ g1, c ∈ blank) → (∀ c ∈ g2, c ∈ blank) →
      x ∉ blank → y ∉ blank → g1 ++ x :: r1 = g2 ++ y :: r2 → g1 = g2 ∧ x :: r1 = y :: r2 := by
  intro g1
  induction g1 with
  | nil =>
    intro g2 x y r1 r2 _ h2 hx _ he
    cases g2 with
    | nil => exact ⟨rfl, by simpa using he⟩
    | cons c g2' => simp at he; exact absurd (he.1 ▸ h2 c (by simp)) hx
  | cons c g1' ih =>
    intro g2 x y r1 r2 h1 h2 hx hy he
    cases g2 with
    | nil => simp at he; exact absurd (he.1 ▸ h1 c (by simp)) hy
    | cons d g2' =>
      simp at he
      obtain ⟨rfl, he⟩ := he
      obtain ⟨rfl, h⟩ := ih g2' x y r1 r2 (fun c hc => h1 c (by simp [hc])) (fun c hc => h2 c (by simp [hc])) hx hy he
      exact ⟨rfl, h⟩

theorem specFrom_unique (hwf : CfgWfP cfg) {order : List TokTy} {n : Nat} :
    ∀ (a b : List Tok) (pos : Nat) (rest : Str), LexSpecFrom cfg order n pos rest a →
      LexSpecFrom cfg order n pos rest b → a = b := by
  have hblank : ∀ {rest : Str} {t : Tok} {ts : List Tok} {pos : Nat},
      (∀ c ∈ rest, c ∈ cfg.blank) → ¬ LexSpecFrom cfg order n pos rest (t :: ts) := by
    intro rest t ts pos hall h
    simp only [LexSpecFrom, GenFrom] at h
    obtain ⟨gap, after, rfl, -, -, -, -, hok, -⟩ := h
    obtain ⟨_, _, _, _, hm⟩ := hok
    obtain ⟨c, m', hcm, hc⟩ := matches_head_nonblank hwf hm.1
    exact hc (hall c (by rw [hcm]; simp))
  intro a
  induction a with
  | nil =>
    intro b pos rest ha hb
    cases b with
    | nil => rfl
    | cons u us => exact absurd hb (hblank ha)
  | cons t ts ih =>
    intro b pos rest ha hb
    cases b with
    | nil => exact absurd ha (hblank hb)
    | cons u us =>
      simp only [LexSpecFrom, GenFrom] at ha hb
      obtain ⟨g1, a1, e1, hg1, ho1, hl1, hn1, hok1, hr1⟩ := ha
      obtain ⟨g2, a2, e2, hg2, ho2, hl2, hn2, hok2, hr2⟩ := hb
      obtain ⟨x, m1, hx1, hx⟩ := matches_head_nonblank hwf hok1.choose_spec.choose_spec.2.2.1
      obtain ⟨y, m2, hy1, hy⟩ := matches_head_nonblank hwf hok2.choose_spec.choose_spec.2.2.1
      have he : g1 ++ x :: (m1 ++ a1) = g2 ++ y :: (m2 ++ a2) := by
        rw [e1, hx1, hy1] at e2; simpa using e2
      obtain ⟨hg, hxy⟩ := gap_split_unique g1 g2 x y _ _ hg1 hg2 hx hy he
      have hR : t.text ++ a1 = u.text ++ a2 := by rw [hx1, hy1]; simpa using hxy
      rw [hR] at hok1
      obtain ⟨hty, htext⟩ := tokOk_unique hok1 hok2
      have hoff : t.offset = u.offset := by rw [ho1, ho2, hg]
      have htu : t = u := by
        cases t; cases u; simp_all
      subst htu
      have ha12 : a1 = a2 := List.append_cancel_left hR
      subst ha12
      rw [ih us _ _ hr1 hr2]

/-! ### reassembly -/

theorem genFrom_reassemble {P : Str → Tok → Prop} {n : Nat} :
    ∀ (toks : List Tok) (pos : Nat) (rest : Str), GenFrom cfg n P pos rest toks →
      ∃ gaps : List Str, gaps.length = toks.length + 1 ∧ (∀ g ∈ gaps, ∀ c ∈ g, c ∈ cfg.blank) ∧
        interleave gaps toks = rest ∧
        ∀ (i : Nat) (h : i < toks.length),
          toks[i].offset = pos + (interleave (gaps.take (i+1)) (toks.take i)).length := by
  intro toks
  induction toks with
  | nil =>
    intro pos rest h
    simp only [GenFrom] at h
    exact ⟨[rest], rfl, by simpa using h, rfl, by simp⟩
  | cons t ts ih =>
    intro pos rest h
    simp only [GenFrom] at h
    obtain ⟨gap, after, rfl, hgap, hoff, -, -, -, hrec⟩ := h
    obtain ⟨gaps, hlen, hblank, hint, hoffs⟩ := ih _ _ hrec
    refine ⟨gap :: gaps, by simp [hlen], ?_, by simp [interleave, hint], ?_⟩
    · intro g hg; simp only [List.mem_cons] at hg
      rcases hg with rfl | hg
      · exact hgap
      · exact hblank g hg
    · intro i hi
      cases i with
      | zero => simp [interleave, hoff]
      | succ i =>
        have := hoffs i (by simpa using hi)
        simp only [List.getElem_cons_succ, List.take_succ_cons, interleave, List.length_append]
        rw [this, hoff]; omega

/-! ### index-style consequences of `TilingFrom` -/

theorem tilingFrom_mem {n : Nat} {line : Str} :
    ∀ (toks : List Tok) (pos : Nat), TilingFrom cfg n line pos toks → ∀ t ∈ toks,
      pos ≤ t.offset ∧ t.lineno = n ∧ t.text ≠ [] ∧
      t.text = (line.drop t.offset).take t.text.length ∧ t.offset + t.text.length ≤ line.length := by
  intro toks
  induction toks with
  | nil => simp
  | cons t ts ih =>
    intro pos h u hu
    simp only [TilingFrom] at h
    obtain ⟨hle, -, hln, hne, htext, hrec⟩ := h
    simp only [List.mem_cons] at hu
    rcases hu with rfl | hu
    · refine ⟨hle, hln, hne, htext, ?_⟩
      have h1 := congrArg List.length htext
      have h2 := List.length_pos_iff.mpr hne
      simp only [List.length_take, List.length_drop] at h1
      omega
    · obtain ⟨h1, h2⟩ := ih _ hrec u hu
      exact ⟨by omega, h2⟩

theorem tilingFrom_sorted {n : Nat} {line : Str} :
    ∀ (toks : List Tok) (pos : Nat), TilingFrom cfg n line pos toks →
      toks.Pairwise (fun a b => a.offset + a.text.length ≤ b.offset) := by
  intro toks
  induction toks with
  | nil => simp
  | cons t ts ih =>
    intro pos h
    simp only [TilingFrom] at h
    obtain ⟨-, -, -, -, -, hrec⟩ := h
    exact List.pairwise_cons.mpr ⟨fun u hu => (tilingFrom_mem ts _ hrec u hu).1, ih _ hrec⟩

theorem getElem_mem_drop {α : Type} (l : List α) (pos i : Nat) (h : i < l.length) (hp : pos ≤ i) :
    l[i] ∈ l.drop pos := by
  rw [List.mem_iff_getElem]
  refine ⟨i - pos, by simp; omega, ?_⟩
  simp only [List.getElem_drop]
  congr 1; omega

theorem getElem_mem_take_drop {α : Type} (l : List α) (pos k i : Nat) (h : i < l.length) (hp : pos ≤ i)
    (hk : i < pos + k) : l[i] ∈ (l.drop pos).take k := by
  rw [List.mem_iff_getElem]
  refine ⟨i - pos, by simp; omega, ?_⟩
  simp only [List.getElem_take, List.getElem_drop]
  congr 1; omega

/-- every non-blank character at or after `pos` lies inside some token -/
theorem tilingFrom_covered {n : Nat} {line : Str} :
    ∀ (toks : List Tok) (pos : Nat), TilingFrom cfg n line pos toks →
      ∀ (i : Nat) (h : i < line.length), pos ≤ i → line[i] ∉ cfg.blank →
        ∃ t ∈ toks, t.offset ≤ i ∧ i < t.offset + t.text.length := by
  intro toks
  induction toks with
  | nil =>
    intro pos h i hi hp hnb
    exact absurd (h _ (getElem_mem_drop line pos i hi hp)) hnb
  | cons t ts ih =>
    intro pos h i hi hp hnb
    simp only [TilingFrom] at h
    obtain ⟨hle, hgap, -, -, -, hrec⟩ := h
    rcases Nat.lt_or_ge i t.offset with h1 | h1
    · exact absurd (hgap _ (getElem_mem_take_drop line pos _ i hi hp (by omega))) hnb
    · rcases Nat.lt_or_ge i (t.offset + t.text.length) with h2 | h2
      · exact ⟨t, by simp, h1, h2⟩
      · obtain ⟨u, hu, hu'⟩ := ih _ hrec i hi h2 hnb
        exact ⟨u, by simp [hu], hu'⟩

/-! ### `lexLine` -/

theorem lexLine_tiling {order : List TokTy} (hU : TokTy.UNEXPECTED ∈ order) (n : Nat) (line : Str) :
    Tiling cfg n line (lexLine cfg order n line) :=
  tiling_iff_from.mpr (lexAux_genFrom hU n (fun _ _ _ _ _ => trivial) _ 0 line (by omega))

theorem lexLine_spec (hwf : CfgWfP cfg) {order : List TokTy} (hU : TokTy.UNEXPECTED ∈ order) (n : Nat)
    (line : Str) : LexSpec cfg order n line (lexLine cfg order n line) :=
  lexSpec_iff_from.mpr (lexAux_specFrom hwf hU n _ 0 line (by omega))

theorem lexSpec_unique (hwf : CfgWfP cfg) {order : List TokTy} {n : Nat} {line : Str} {a b : List Tok}
    (ha : LexSpec cfg order n line a) (hb : LexSpec cfg order n line b) : a = b :=
  specFrom_unique hwf a b 0 line (lexSpec_iff_from.mp ha) (lexSpec_iff_from.mp hb)

theorem orderWf_split {order : List TokTy} (h : orderWf order = true) :
    ∃ init, order = init ++ [TokTy.UNEXPECTED] ∧ TokTy.UNEXPECTED ∉ init := by
  simp only [orderWf, Bool.and_eq_true, beq_iff_eq, Bool.not_eq_true', List.contains_eq_mem,
    decide_eq_false_iff_not] at h
  obtain ⟨ys, rfl⟩ := List.getLast?_eq_some_iff.mp h.1
  exact ⟨ys, rfl, by simpa using h.2⟩

theorem orderWf_mem {order : List TokTy} (h : orderWf order = true) : TokTy.UNEXPECTED ∈ order := by
  obtain ⟨init, rfl, -⟩ := orderWf_split h; simp

/-! ### separator lemmas (for the format/parse round trip) -/

/-- one `finditer` step with the continuation's fuel normalised -/
theorem lexAux_step {order : List TokTy} {n f off : Nat} {after : Str} {ty : TokTy} {m : Str}
    (hfm : firstMatch cfg order (m ++ after) = some (ty, m)) (hf : (m ++ after).length < f) :
    lexAux cfg order n f off (m ++ after) =
      ⟨ty, m, n, off⟩ :: lexAux cfg order n (after.length + 1) (off + m.length) after := by
  cases f with
  | zero => omega
  | succ f =>
    rw [lexAux_some hfm]
    congr 1
    apply lexAux_fuel
    · have := List.length_pos_iff.mpr (firstMatch_ne_nil hfm)
      simp only [List.length_append] at hf; omega
    · omega

theorem firstMatch_none_of {order : List TokTy} {s : Str} (h : ∀ t ∈ order, scanTy cfg t s = none) :
    firstMatch cfg order s = none := by
  induction order with
  | nil => rfl
  | cons t ts ih =>
    simp only [firstMatch, h t (by simp)]
    exact ih (fun u hu => h u (by simp [hu]))

theorem firstMatch_of' {l l2 : List TokTy} {s : Str} {ty : TokTy} {m : Str}
    (hl : ∀ t ∈ l, t = ty ∨ scanTy cfg t s = none) (hmem : ty ∈ l) (hm : scanTy cfg ty s = some m) :
    firstMatch cfg (l ++ l2) s = some (ty, m) := by
  induction l with
  | nil => simp at hmem
  | cons t ts ih =>
    by_cases ht : t = ty
    · subst ht; simp [firstMatch, hm]
    · have h1 : scanTy cfg t s = none := (hl t (by simp)).resolve_left ht
      simp only [List.cons_append, firstMatch, h1]
      refine ih (fun u hu => hl u (by simp [hu])) ?_
      simp only [List.mem_cons] at hmem
      exact hmem.resolve_left (fun h => ht h.symm)

/-- class `t` cannot match an input starting with `x` -/
def failsOn (cfg : LexCfg) (t : TokTy) (x : Char) : Prop :=
  match t with
  | .COMMENT => x ≠ '#'
  | .STRING => x ≠ '"'
  | .LPAREN => x ≠ '('
  | .RPAREN => x ≠ ')'
  | .SLASH => x ≠ '/'
  | .ROLE => x ≠ ':'
  | .SYMBOL => x ∈ cfg.symExcl
  | .ALIGNMENT => x ≠ '~'
  | .UNEXPECTED => x ∈ cfg.blank

theorem scanTy_none_of_failsOn {t : TokTy} {x : Char} (r : Str) (h : failsOn cfg t x) :
    scanTy cfg t (x :: r) = none := by
  cases t <;> simp only [failsOn] at h <;> simp only [scanTy]
  · unfold scanComment; split
    · rename_i heq; simp at heq; exact absurd heq.1 h
    · rfl
  · unfold scanString; split
    · rename_i heq; simp at heq; exact absurd heq.1 h
    · rfl
  · simp [scanChar, h]
  · simp [scanChar, h]
  · simp [scanChar, h]
  · unfold scanRole; split
    · rename_i heq; simp at heq; exact absurd heq.1 h
    · rfl
  · simp [scanSymbol, spanP, h]
  · unfold scanAlignment; split
    · rename_i heq; simp at heq; exact absurd heq.1 h
    · rfl
  · simp [scanUnexpected, h]

/-- with `UNEXPECTED` last: class `ty` wins as soon as every other class except `UNEXPECTED`
    is excluded by the first character -/
theorem firstMatch_by_head {order : List TokTy} (ho : orderWf order = true) {ty : TokTy}
    (hty : ty ∈ order) (hne : ty ≠ .UNEXPECTED) {x : Char} {r m : Str}
    (hfail : ∀ t, t ≠ ty → t ≠ .UNEXPECTED → failsOn cfg t x)
    (hm : scanTy cfg ty (x :: r) = some m) : firstMatch cfg order (x :: r) = some (ty, m) := by
  obtain ⟨init, rfl, hU⟩ := orderWf_split ho
  apply firstMatch_of' _ _ hm
  · intro t ht
    by_cases h1 : t = ty
    · exact .inl h1
    · exact .inr (scanTy_none_of_failsOn r (hfail t h1 (fun h => hU (h ▸ ht))))
  · simp only [List.mem_append, List.mem_singleton] at hty
    exact hty.resolve_right hne

theorem delim_facts (hwf : CfgWfP cfg) :
    '"' ∈ cfg.symExcl ∧ '(' ∈ cfg.symExcl ∧ ')' ∈ cfg.symExcl ∧ '/' ∈ cfg.symExcl ∧
    ':' ∈ cfg.symExcl ∧ '~' ∈ cfg.symExcl := by
  have := hwf.delim_sym
  simp only [delims, List.mem_cons, List.not_mem_nil, or_false, forall_eq_or_imp, forall_eq] at this
  exact this

/-- a blank or a delimiter ends a SYMBOL, a ROLE and an ALIGNMENT -/
theorem sep_ends (hwf : CfgWfP cfg) {c : Char} (h : c ∈ cfg.blank ∨ c ∈ delims) :
    c ∈ cfg.symExcl ∧ c ∈ cfg.roleExcl ∧ inRanges cfg.alnDigit c = false ∧ c ≠ ',' := by
  refine ⟨?_, ?_, hwf.sep_alnEnd c h⟩
  · rcases h with h | h
    · exact hwf.blank_sym c h
    · exact hwf.delim_sym c h
  · rcases h with h | h
    · exact hwf.blank_role c h
    · exact hwf.delim_role c h

/-- SYMBOL: a non-empty run of name characters not starting with `#`, followed by the end
    of the line or by a character excluded from names. -/
theorem lexAux_symbol (hwf : CfgWfP cfg) {order : List TokTy} (ho : orderWf order = true)
    (hT : TokTy.SYMBOL ∈ order) {s rest : Str} (hs : IsSymbol cfg s) (hhash : s.head? ≠ some '#')
    (hrest : ∀ c, rest.head? = some c → c ∈ cfg.symExcl) (n f off : Nat)
    (hf : (s ++ rest).length < f) :
    lexAux cfg order n f off (s ++ rest) =
      ⟨.SYMBOL, s, n, off⟩ :: lexAux cfg order n (rest.length + 1) (off + s.length) rest := by
  apply lexAux_step _ hf
  obtain ⟨hne, hall⟩ := hs
  cases s with
  | nil => exact absurd rfl hne
  | cons x xs =>
    have hx : x ∉ cfg.symExcl := hall x (by simp)
    obtain ⟨d1, d2, d3, d4, d5, d6⟩ := delim_facts hwf
    have hm : scanTy cfg .SYMBOL ((x :: xs) ++ rest) = some (x :: xs) := by
      have hsp : spanP (fun c => !(c ∈ cfg.symExcl)) ((x :: xs) ++ rest) = (x :: xs, rest) :=
        spanP_eq _ _ _ (by intro y hy; simpa using hall y hy) (by intro c hc; simpa using hrest c hc)
      simp only [scanTy, scanSymbol]
      rw [hsp]; simp
    simp only [List.cons_append] at hm ⊢
    apply firstMatch_by_head ho hT (by decide) _ hm
    intro t h1 h2
    cases t <;> simp only [failsOn] <;> first
      | exact absurd rfl h1 | exact absurd rfl h2
      | (rintro rfl; first | exact hx d1 | exact hx d2 | exact hx d3 | exact hx d4 | exact hx d5 | exact hx d6)
      | (rintro rfl; simp at hhash)

/-- ROLE: `:` and a (possibly empty) run of name characters, followed by the end of the line
    or by a character excluded from role names. -/
theorem lexAux_role (hwf : CfgWfP cfg) {order : List TokTy} (ho : orderWf order = true)
    (hT : TokTy.ROLE ∈ order) {s rest : Str} (hs : IsRole cfg s)
    (hrest : ∀ c, rest.head? = some c → c ∈ cfg.roleExcl) (n f off : Nat)
    (hf : (s ++ rest).length < f) :
    lexAux cfg order n f off (s ++ rest) =
      ⟨.ROLE, s, n, off⟩ :: lexAux cfg order n (rest.length + 1) (off + s.length) rest := by
  apply lexAux_step _ hf
  obtain ⟨body, rfl, hall⟩ := hs
  obtain ⟨d1, d2, d3, d4, d5, d6⟩ := delim_facts hwf
  have hm : scanTy cfg .ROLE ((':' :: body) ++ rest) = some (':' :: body) := by
    have hsp : spanP (fun c => !(c ∈ cfg.roleExcl)) (body ++ rest) = (body, rest) :=
      spanP_eq _ _ _ (by intro y hy; simpa using hall y hy) (by intro c hc; simpa using hrest c hc)
    simp only [List.cons_append, scanTy, scanRole]
    rw [hsp]
  simp only [List.cons_append] at hm ⊢
  apply firstMatch_by_head ho hT (by decide) _ hm
  intro t h1 h2
  cases t <;> simp only [failsOn] <;> first
    | exact absurd rfl h1 | exact absurd rfl h2 | exact d5 | decide

/-- STRING: a string literal is self-delimiting -/
theorem lexAux_string (hwf : CfgWfP cfg) {order : List TokTy} (ho : orderWf order = true)
    (hT : TokTy.STRING ∈ order) {s rest : Str} (hs : IsString cfg s) (n f off : Nat)
    (hf : (s ++ rest).length < f) :
    lexAux cfg order n f off (s ++ rest) =
      ⟨.STRING, s, n, off⟩ :: lexAux cfg order n (rest.length + 1) (off + s.length) rest := by
  apply lexAux_step _ hf
  have hm : scanTy cfg .STRING (s ++ rest) = some s :=
    scanString_complete hwf.quote_str hwf.bslash_str ⟨List.prefix_append _ _, hs, by simp⟩
  obtain ⟨body, rfl, -⟩ := hs
  obtain ⟨d1, d2, d3, d4, d5, d6⟩ := delim_facts hwf
  apply firstMatch_by_head ho hT (by decide) _ hm
  intro t h1 h2
  cases t <;> simp only [failsOn] <;> first
    | exact absurd rfl h1 | exact absurd rfl h2 | exact d1 | decide

/-- ALIGNMENT: an alignment followed by the end of the line or by something that is neither
    a digit nor a comma (in particular a blank or a delimiter, see `sep_ends`) -/
theorem lexAux_alignment (hwf : CfgWfP cfg) {order : List TokTy} (ho : orderWf order = true)
    (hT : TokTy.ALIGNMENT ∈ order) {s rest : Str} (hs : IsAlignment cfg s) (hrest : AlnEnd cfg rest)
    (n f off : Nat) (hf : (s ++ rest).length < f) :
    lexAux cfg order n f off (s ++ rest) =
      ⟨.ALIGNMENT, s, n, off⟩ :: lexAux cfg order n (rest.length + 1) (off + s.length) rest := by
  apply lexAux_step _ hf
  have hm : scanTy cfg .ALIGNMENT (s ++ rest) = some s := scanAlignment_exact hwf hs hrest
  obtain ⟨pre, ds, tail, rfl, -⟩ := hs
  obtain ⟨d1, d2, d3, d4, d5, d6⟩ := delim_facts hwf
  simp only [List.cons_append] at hm ⊢
  apply firstMatch_by_head ho hT (by decide) _ hm
  intro t h1 h2
  cases t <;> simp only [failsOn] <;> first
    | exact absurd rfl h1 | exact absurd rfl h2 | exact d6 | decide

/-- `(`, `)` and `/` -/
theorem lexAux_delim (hwf : CfgWfP cfg) {order : List TokTy} (ho : orderWf order = true)
    {ty : TokTy} {c : Char} (hc : (ty, c) ∈ [(TokTy.LPAREN, '('), (TokTy.RPAREN, ')'), (TokTy.SLASH, '/')])
    (hT : ty ∈ order) (rest : Str) (n f off : Nat) (hf : rest.length + 1 < f) :
    lexAux cfg order n f off (c :: rest) =
      ⟨ty, [c], n, off⟩ :: lexAux cfg order n (rest.length + 1) (off + 1) rest := by
  have := lexAux_step (cfg := cfg) (order := order) (n := n) (f := f) (off := off) (after := rest)
    (ty := ty) (m := [c])
  simp only [List.cons_append, List.nil_append, List.length_cons, List.length_nil] at this
  apply this _ hf
  obtain ⟨d1, d2, d3, d4, d5, d6⟩ := delim_facts hwf
  simp only [List.mem_cons, Prod.mk.injEq, List.not_mem_nil, or_false] at hc
  rcases hc with ⟨rfl, rfl⟩ | ⟨rfl, rfl⟩ | ⟨rfl, rfl⟩
  all_goals
    apply firstMatch_by_head ho hT (by decide) _ (by simp [scanTy, scanChar])
    intro t h1 h2
    cases t <;> simp only [failsOn] <;> first
      | exact absurd rfl h1 | exact absurd rfl h2 | exact d2 | exact d3 | exact d4 | decide

/-- a blank is skipped -/
theorem lexAux_blank (hwf : CfgWfP cfg) {order : List TokTy} {c : Char} (hc : c ∈ cfg.blank)
    (rest : Str) (n f off : Nat) (hf : rest.length + 1 < f) :
    lexAux cfg order n f off (c :: rest) = lexAux cfg order n (rest.length + 1) (off + 1) rest := by
  cases f with
  | zero => omega
  | succ f =>
    have st := hwf.starter_nonblank
    simp only [starters, delims, List.mem_cons, List.not_mem_nil, or_false, forall_eq_or_imp, forall_eq] at st
    obtain ⟨s1, s2, s3, s4, s5, s6, s7⟩ := st
    have : firstMatch cfg order (c :: rest) = none := by
      apply firstMatch_none_of
      intro t _
      apply scanTy_none_of_failsOn
      cases t <;> simp only [failsOn] <;> first
        | exact hwf.blank_sym c hc | exact hc | (rintro rfl; contradiction)
    rw [lexAux_none this]
    exact lexAux_fuel cfg order n _ _ _ rest (by omega) (by omega)

/-! ### line numbers -/

theorem lexLinesFrom_eq (cfg : LexCfg) (order : List TokTy) :
    ∀ (lines : List Str) (k : Nat), lexLinesFrom cfg order k lines =
      ((lines.zipIdx k).map fun p => lexLine cfg order p.2 p.1).flatten := by
  intro lines
  induction lines with
  | nil => intro k; rfl
  | cons l ls ih => intro k; simp [lexLinesFrom, List.zipIdx_cons, ih]

/-! ### `splitLines` -/

theorem splitLines_ne_nil (s : Str) : splitLines s ≠ [] := by
  fun_cases splitLines s <;> simp_all

theorem Splits.cons {c : Char} (h1 : c ≠ '\n') (h2 : c ≠ '\r') {rest l : Str} {ls : List Str}
    (h : Splits rest (l :: ls)) : Splits (c :: rest) ((c :: l) :: ls) := by
  have nb : ∀ {p : Str}, NoBreak p → NoBreak (c :: p) := by
    intro p hp; exact ⟨by simp [h1.symm, hp.1], by simp [h2.symm, hp.2]⟩
  cases h with
  | last _ hp => exact .last _ (nb hp)
  | lf _ rest' _ hp hr => exact .lf (c :: l) rest' ls (nb hp) hr
  | crlf _ rest' _ hp hr => exact .crlf (c :: l) rest' ls (nb hp) hr
  | cr _ rest' _ hp hn hr => exact .cr (c :: l) rest' ls (nb hp) hn hr

theorem noBreak_nil : NoBreak [] := ⟨by simp, by simp⟩

theorem splitLines_splits : ∀ (s : Str), Splits s (splitLines s) := by
  intro s
  fun_induction splitLines s with
  | case1 => exact .last [] noBreak_nil
  | case2 rest ih => exact .crlf [] rest _ noBreak_nil ih
  | case3 rest hne ih =>
    refine .cr [] rest _ noBreak_nil ?_ ih
    intro h
    cases rest with
    | nil => simp at h
    | cons d ds => simp at h; subst h; exact hne ds rfl
  | case4 rest ih => exact .lf [] rest _ noBreak_nil ih
  | case5 c rest h1 h2 h3 hnil ih => exact absurd hnil (splitLines_ne_nil rest)
  | case6 c rest h1 h2 h3 l ls heq ih =>
    rw [heq] at ih
    refine Splits.cons ?_ ?_ ih
    · rintro rfl; exact h3 rfl
    · rintro rfl; exact h2 rfl


theorem splitLines_cons_plain {c : Char} (h1 : c ≠ '\n') (h2 : c ≠ '\r') (rest : Str) {l : Str}
    {ls : List Str} (h : splitLines rest = l :: ls) : splitLines (c :: rest) = (c :: l) :: ls := by
  rw [splitLines.eq_def]
  split
  · contradiction
  · rename_i heq; simp at heq; exact absurd heq.1 h2
  · rename_i heq; simp at heq; exact absurd heq.1 h2
  · rename_i heq; simp at heq; exact absurd heq.1 h1
  · rename_i heq; simp at heq; obtain ⟨rfl, rfl⟩ := heq; simp [h]

theorem splitLines_append {p : Str} (hp : NoBreak p) {r l : Str} {ls : List Str}
    (h : splitLines r = l :: ls) : splitLines (p ++ r) = (p ++ l) :: ls := by
  induction p with
  | nil => simpa using h
  | cons c p' ih =>
    have h1 : c ≠ '\n' := by rintro rfl; exact hp.1 (by simp)
    have h2 : c ≠ '\r' := by rintro rfl; exact hp.2 (by simp)
    have hp' : NoBreak p' := ⟨fun h => hp.1 (by simp [h]), fun h => hp.2 (by simp [h])⟩
    exact splitLines_cons_plain h1 h2 _ (ih hp')

theorem splits_eq_splitLines {s : Str} {ps : List Str} (h : Splits s ps) : ps = splitLines s := by
  induction h with
  | last p hp => have := splitLines_append hp (r := []) (l := []) (ls := []) rfl; simpa using this.symm
  | lf p rest ps hp _ ih =>
    exact (splitLines_append hp (r := '\n' :: rest) (l := []) (ls := splitLines rest) (by simp [splitLines])).symm ▸ by simp [ih]
  | crlf p rest ps hp _ ih =>
    exact (splitLines_append hp (r := '\r' :: '\n' :: rest) (l := []) (ls := splitLines rest) (by simp [splitLines])).symm ▸ by simp [ih]
  | cr p rest ps hp hn _ ih =>
    have : splitLines ('\r' :: rest) = [] :: splitLines rest := by
      cases rest with
      | nil => simp [splitLines]
      | cons d ds =>
        have : d ≠ '\n' := by rintro rfl; simp at hn
        rw [splitLines.eq_def]
        split
        · contradiction
        · rename_i heq; simp at heq; exact absurd heq.1 this
        · rename_i heq; simp at heq; subst heq; rfl
        · rename_i heq; simp at heq
        · rename_i hcr _ heq; simp at heq; exact absurd heq.1.symm hcr
    exact (splitLines_append hp this).symm ▸ by simp [ih]

/-- the specification determines the pieces -/
theorem splits_unique {s : Str} {a b : List Str} (ha : Splits s a) (hb : Splits s b) : a = b := by
  rw [splits_eq_splitLines ha, splits_eq_splitLines hb]

/-- the pieces, re-joined with the removed terminators, give back the string; no piece
    contains a line break -/
theorem splits_join {s : Str} {ps : List Str} (h : Splits s ps) :
    ∃ terms : List Str, terms.length + 1 = ps.length ∧
      (∀ t ∈ terms, t = ['\n'] ∨ t = ['\r', '\n'] ∨ t = ['\r']) ∧
      joinWith ps terms = s ∧ ∀ p ∈ ps, NoBreak p := by
  induction h with
  | last p hp => exact ⟨[], rfl, by simp, rfl, by simpa using hp⟩
  | lf p rest ps hp hr ih =>
    obtain ⟨terms, h1, h2, h3, h4⟩ := ih
    refine ⟨['\n'] :: terms, by simp [h1], ?_, ?_, ?_⟩
    · intro t ht; simp only [List.mem_cons] at ht; rcases ht with rfl | ht; exact .inl rfl; exact h2 t ht
    · cases ps with
      | nil => simp at h1
      | cons q qs => simp [joinWith, ← h3]
    · intro q hq; simp only [List.mem_cons] at hq; rcases hq with rfl | hq; exact hp; exact h4 q hq
  | crlf p rest ps hp hr ih =>
    obtain ⟨terms, h1, h2, h3, h4⟩ := ih
    refine ⟨['\r', '\n'] :: terms, by simp [h1], ?_, ?_, ?_⟩
    · intro t ht; simp only [List.mem_cons] at ht; rcases ht with rfl | ht; exact .inr (.inl rfl); exact h2 t ht
    · cases ps with
      | nil => simp at h1
      | cons q qs => simp [joinWith, ← h3]
    · intro q hq; simp only [List.mem_cons] at hq; rcases hq with rfl | hq; exact hp; exact h4 q hq
  | cr p rest ps hp hn hr ih =>
    obtain ⟨terms, h1, h2, h3, h4⟩ := ih
    refine ⟨['\r'] :: terms, by simp [h1], ?_, ?_, ?_⟩
    · intro t ht; simp only [List.mem_cons] at ht; rcases ht with rfl | ht; exact .inr (.inr rfl); exact h2 t ht
    · cases ps with
      | nil => simp at h1
      | cons q qs => simp [joinWith, ← h3]
    · intro q hq; simp only [List.mem_cons] at hq; rcases hq with rfl | hq; exact hp; exact h4 q hq

/-! ### what "the match" means class by class -/

theorem prefix_drop_head {m rest : Str} (hp : m <+: rest) {c : Char}
    (hc : (rest.drop m.length).head? = some c) : m ++ [c] <+: rest := by
  obtain ⟨t, rfl⟩ := hp
  rw [List.drop_left] at hc
  cases t with
  | nil => simp at hc
  | cons d ds => simp at hc; subst hc; exact ⟨ds, by simp⟩

/-- SYMBOL: the match is the maximal run of name characters -/
theorem isMatch_symbol_maximal {rest m : Str} (h : IsMatch cfg .SYMBOL rest m) :
    ∀ c, (rest.drop m.length).head? = some c → c ∈ cfg.symExcl := by
  intro c hc
  apply Decidable.byContradiction
  intro hn
  obtain ⟨⟨hp, ⟨hne, hall⟩, -⟩, hmax⟩ := h
  have : Matches cfg .SYMBOL rest (m ++ [c]) := by
    refine ⟨prefix_drop_head hp hc, ⟨by simp, ?_⟩, by simp⟩
    intro d hd; simp only [List.mem_append, List.mem_singleton] at hd
    rcases hd with hd | rfl
    · exact hall d hd
    · exact hn
  have := hmax _ this
  simp at this
  omega

/-- ROLE: the match is `:` plus the maximal run of name characters -/
theorem isMatch_role_maximal {rest m : Str} (h : IsMatch cfg .ROLE rest m) :
    ∀ c, (rest.drop m.length).head? = some c → c ∈ cfg.roleExcl := by
  intro c hc
  apply Decidable.byContradiction
  intro hn
  obtain ⟨⟨hp, ⟨body, rfl, hall⟩, -⟩, hmax⟩ := h
  have : Matches cfg .ROLE rest ((':' :: body) ++ [c]) := by
    refine ⟨prefix_drop_head hp hc, ⟨body ++ [c], by simp, ?_⟩, by simp⟩
    intro d hd; simp only [List.mem_append, List.mem_singleton] at hd
    rcases hd with hd | rfl
    · exact hall d hd
    · exact hn
  have := hmax _ this
  simp at this
  omega

/-- COMMENT: the match is the whole rest of the line, without a final line feed -/
theorem isMatch_comment_rest {rest m : Str} (h : IsMatch cfg .COMMENT rest m) :
    rest = m ∨ rest = m ++ ['\n'] := by
  obtain ⟨⟨hp, -, hend⟩, -⟩ := h
  rw [List.prefix_iff_eq_append] at hp
  rcases hend rfl with h | h
  · left; rw [h] at hp; simpa using hp.symm
  · right; rw [h] at hp; exact hp.symm

/-- STRING: the match is the only string literal that is a prefix of the input -/
theorem isMatch_string_unique (hwf : CfgWfP cfg) {rest m m' : Str} (h : IsMatch cfg .STRING rest m)
    (hm' : IsString cfg m') (hp' : m' <+: rest) : m' = m := by
  obtain ⟨⟨hp, ⟨b, rfl, hb⟩, -⟩, -⟩ := h
  obtain ⟨b', rfl, hb'⟩ := hm'
  obtain ⟨t, rfl⟩ := hp
  have : b' <+: b ++ t := by
    obtain ⟨u, hu⟩ := hp'
    exact ⟨u, by simpa using hu⟩
  rw [strTail_unique hwf.quote_str hwf.bslash_str hb' hb this (List.prefix_append _ _)]

end Penman.Lex

/-
  # C11 — Edge reification and dereification are mutually inverse

  Property text, clause by clause, and the theorem(s) covering it
  (`m : Model`, `g : Graph` arbitrary unless a hypothesis says otherwise):

  * "every model whose reification table is unambiguous for the roles used"
      `ReifWf m` (decidable table condition), `Unambiguous m r` (decidable);
      `amr_reifWf`, `amr_unambiguous` (all 36 AMR roles but `:superset`),
      `amr_superset_ambiguous`; `noop_reifWf` (no reifications: the no-op case).
  * "every well-formed graph that contains no collapsible reified node"
      `WfGraph g` (decidable), `NoCollapsible m g` (decidable).
  * "reifying all reifiable edges"                    `C11_reify_total` (never raises, ANY graph/model)
  * "leaves no reifiable role"                        `C11_reify_no_reifiable`
  * "introduces only fresh variables"                 `C11_reify_keeps` (fresh, pairwise distinct,
                                                      spelled `_`/`_N`), `C11_reify_fresh_shape`
  * "keeps the top and all other triples"             `C11_reify_keeps` (in-place replacement by
                                                      the three triples, order kept, same top)
  * "dereifying the result restores the original graph"
                                                      `C11_inverse_triples` (triples as lists, top)
  * "down to the identical encoded text, alignments included"
                                                      `C11_inverse_epidata` (marker lists, up to the
                                                      normal form `normEpis`), `normEpis_decoded`
                                                      (identity on decoded-shape lists),
                                                      `C11_text` (identical `configure` tree, hence
                                                      identical `format` text, for every top)
  * "Dereifying never collapses a node that has another relation, is the top,
     or is referenced elsewhere"                      `C11_dereify_guard`, `C11_dereify_removed`

  Hypotheses that the property text leaves implicit and that are NECESSARY
  (each with a counterexample below, all reproduced on the real code):
  * `FreshSafe g` — no constant target spelled `_`, `_2`, …  (`reify_edges` picks
    names fresh w.r.t. the variables only): `(a / x :mod _)`.
  * distinct reifiable triples (marker level only): `(a / x :mod~1 7 :mod 7)`.
  * `PushVars g` — every `Push` names a variable (marker level; `exPushFresh`).
  * `Unambiguous` — finding F4: `(a / x :superset 7)` (since fix F20 the reified
    node is left alone instead of producing `(7 :subset a)`).
  * `HasInst g` — since fix F20 (`exNoNode`).
-/
import Penman.Proofs.Transform
import Penman.Generated
namespace Penman
open Generated

/-! ## hypotheses -/

/-- A well-formed graph: roles carry their colon and the marker table is a
    dictionary (both true of every Python `Graph`), `Push` markers name
    variables, no constant is spelled like a generated variable, and every
    source has a node (`HasInst`; needed since fix F20: the source of a reified
    relation must still be a variable of the reified graph, `exNoNode`). -/
def WfGraph (g : Graph) : Prop :=
  RolesColon g ∧ EpiKeysNodup g ∧ PushVars g ∧ FreshSafe g ∧ HasInst g

instance (g : Graph) : Decidable (WfGraph g) := by unfold WfGraph; infer_instance

/-- all reifiable roles used in the graph are unambiguous in the model -/
def RolesUnambiguous (m : Model) (g : Graph) : Prop :=
  ∀ t ∈ g.triples, m.isReifiable t.role = true → Unambiguous m t.role

instance (m : Model) (g : Graph) : Decidable (RolesUnambiguous m g) := by
  unfold RolesUnambiguous; infer_instance

/-- the reifiable triples are pairwise distinct -/
def ReifiableNodup (m : Model) (g : Graph) : Prop :=
  (g.triples.filter (fun t => m.isReifiable t.role)).Nodup

instance (m : Model) (g : Graph) : Decidable (ReifiableNodup m g) := by
  unfold ReifiableNodup; infer_instance

/-! ## the tables -/

theorem amr_reifWf : ReifWf amrModel := by decide +kernel
theorem noop_reifWf : ReifWf noopModel := by decide +kernel

/-- every reifiable AMR role except `:superset` is unambiguous -/
theorem amr_unambiguous :
    ∀ rf ∈ amrModel.reifs, rf.role ≠ ":superset".toList → Unambiguous amrModel rf.role := by decide +kernel

/-- `:superset` is ambiguous: `include-91` lists `:subset` first, with swapped roles -/
theorem amr_superset_ambiguous : ¬ Unambiguous amrModel ":superset".toList := by decide +kernel

/-- a role that is not reifiable is trivially unambiguous -/
theorem unambiguous_of_not_reifiable {m : Model} {r : Str} (h : m.isReifiable r = false) :
    Unambiguous m r := by
  unfold Unambiguous
  cases hf : m.reifs.find? (·.role = r) with
  | none => trivial
  | some rf => rw [isReifiable_of_find? hf] at h; simp at h

/-! ## reification -/

/-- `reify_edges` never raises (for ANY graph and model; `node_contexts` is total
    after fix F19 and the `ModelError` of `Model.reify` is unreachable behind
    the `is_role_reifiable` guard). -/
theorem C11_reify_total (m : Model) (g : Graph) : ∃ g1, reifyEdges m g = .ok g1 := by
  obtain ⟨rev, st, _, _, h⟩ := reifyEdges_result m g
  exact ⟨_, h⟩

theorem newVar_reverse (rev : List Ev) :
    rev.reverse.flatMap Ev.newVar = (rev.flatMap Ev.newVar).reverse := by
  induction rev with
  | nil => rfl
  | cons e r ih =>
    simp only [List.reverse_cons, List.flatMap_append, List.flatMap_cons, List.flatMap_nil,
      List.append_nil, List.reverse_append, ih]
    cases e <;> simp [Ev.newVar]

/-- **What reification does.** The result is obtained by replacing, in place,
    each reifiable triple `t` by the three triples
    `(v, src_role, t.src) (v, :instance, concept) (v, tgt_role, t.tgt)` of the first
    reification of its role (first and third swapped when `t` appears inverted),
    keeping every other triple; the new variables `v` are pairwise distinct, not
    variables of `g`, spelled `_`/`_N`; the top is kept. -/
theorem C11_reify_keeps {m : Model} {g g1 : Graph} (hm : ReifWf m) (hg : RolesColon g)
    (h : reifyEdges m g = .ok g1) :
    ∃ evs : List Ev, evs.map Ev.orig = g.triples ∧ g1.triples = evs.flatMap Ev.out ∧
      (∀ e ∈ evs, EvOk m g e) ∧ (evs.flatMap Ev.newVar).Nodup ∧
      (∀ v ∈ evs.flatMap Ev.newVar, v ∉ g.variables ∧ isGenName v = true) ∧
      g1.getTop = g.getTop ∧ g1.top = g.getTop ∧ g1.metadata = AList.ofList g.metadata := by
  obtain ⟨rev, st, hrun, ho, h'⟩ := reifyEdges_result m g
  rw [h'] at h
  simp only [Except.ok.injEq] at h
  subst h
  refine ⟨rev.reverse, ho, reifyResult_triples hm hg hrun, evOk_rev hrun, ?_, ?_,
    reifyResult_getTop hrun ho, rfl, rfl⟩
  · rw [newVar_reverse]; exact List.pairwise_reverse.mpr ((run_newVars hrun).1.imp Ne.symm)
  · intro v hv
    rw [newVar_reverse] at hv
    exact (run_newVars hrun).2 v (by simpa using hv)

/-- each new variable is `freshVar` of the variables of `g` and the earlier new
    variables, i.e. `_` or the first free `_N`, `N ≥ 2` (see `freshVar_shape`) -/
theorem C11_reify_fresh_shape {m : Model} {g : Graph} :
    ∃ evs : List Ev, evs.map Ev.orig = g.triples ∧
      (∃ g1, reifyEdges m g = .ok g1) ∧
      ∀ pre t rf v inv post, evs = pre ++ .reif t rf v inv :: post →
        v = freshVar ((pre.flatMap Ev.newVar).reverse ++ g.variables) := by
  obtain ⟨rev, st, hrun, ho, h'⟩ := reifyEdges_result m g
  refine ⟨rev.reverse, ho, ⟨_, h'⟩, ?_⟩
  intro pre t rf v inv post hevs
  have : rev = post.reverse ++ .reif t rf v inv :: pre.reverse := by
    have := congrArg List.reverse hevs
    simpa using this
  have hs := run_shape hrun post.reverse t rf v inv pre.reverse this
  rw [hs, newVar_reverse]

/-- **No reifiable role is left.** (`RolesColon` is necessary: a role `mod` without
    its colon is not reifiable, but `Graph(...)` turns it into `:mod`.) -/
theorem C11_reify_no_reifiable {m : Model} {g g1 : Graph} (hm : ReifWf m) (hg : RolesColon g)
    (h : reifyEdges m g = .ok g1) : ∀ t ∈ g1.triples, m.isReifiable t.role = false := by
  obtain ⟨evs, _, ht, hok, _⟩ := C11_reify_keeps hm hg h
  intro t1 h1
  rw [ht, List.mem_flatMap] at h1
  obtain ⟨e, he, h1⟩ := h1
  exact ev_out_not_reifiable hm (hok e he) t1 h1

/-! ## the inverse theorem -/

/-- **C11, triples level.** Dereifying the reified graph succeeds and restores
    the triples (as lists) and the top. -/
theorem C11_inverse_triples {m : Model} {g g1 : Graph} (hm : ReifWf m) (hw : WfGraph g)
    (hnc : NoCollapsible m g) (hu : RolesUnambiguous m g) (h1 : reifyEdges m g = .ok g1) :
    ∃ g2, dereifyEdges m g1 = .ok g2 ∧ g2.triples = g.triples ∧ g2.getTop = g.getTop := by
  obtain ⟨hg, hk, hp, hf, hi⟩ := hw
  obtain ⟨rev, st, hrun, ho, h'⟩ := reifyEdges_result m g
  rw [h'] at h1
  simp only [Except.ok.injEq] at h1
  subst h1
  obtain ⟨g2, a, b, c, _⟩ := reify_dereify_triples hm hg hk hp hf hi hrun ho hnc hu
  exact ⟨g2, a, b, c⟩

/-- **C11, marker level.** Every non-reifiable triple keeps its marker entry;
    every reified triple gets its marker list back in the normal form `normEpis`
    (last role alignment, alignments, last `Push`, `POP`s). -/
theorem C11_inverse_epidata {m : Model} {g g1 g2 : Graph} (hm : ReifWf m) (hw : WfGraph g)
    (hnc : NoCollapsible m g) (hu : RolesUnambiguous m g) (hnd : ReifiableNodup m g)
    (h1 : reifyEdges m g = .ok g1) (h2 : dereifyEdges m g1 = .ok g2) :
    ∀ k ∈ g.triples, AList.get? g2.epidata k =
      if m.isReifiable k.role then some (normEpis ((AList.get? g.epidata k).getD []))
      else AList.get? g.epidata k := by
  obtain ⟨hg, hk, hp, hf, hi⟩ := hw
  obtain ⟨rev, st, hrun, ho, h'⟩ := reifyEdges_result m g
  rw [h'] at h1
  simp only [Except.ok.injEq] at h1
  subst h1
  exact reify_dereify_epidata hm hg hk hp hf hi hrun ho hnc hu hnd h2

/-- the marker lists of the reifiable triples have the shape `interpret` produces -/
def DecodedMarkers (m : Model) (g : Graph) : Prop :=
  ∀ t ∈ g.triples, m.isReifiable t.role = true → DecodedShape ((AList.get? g.epidata t).getD [])

/-- **C11, text level.** For marker lists of the decoded shape the round trip
    gives the identical `configure` tree for every choice of top — hence the
    identical `format` text (`encode = format ∘ configure`). -/
theorem C11_text {m : Model} {g g1 g2 : Graph} (hm : ReifWf m) (hw : WfGraph g)
    (hnc : NoCollapsible m g) (hu : RolesUnambiguous m g) (hnd : ReifiableNodup m g)
    (hds : DecodedMarkers m g) (hmd : (AList.keys g.metadata).Nodup)
    (h1 : reifyEdges m g = .ok g1) (h2 : dereifyEdges m g1 = .ok g2) (top : Option Str) :
    configure m g2 top = configure m g top := by
  have hep := C11_inverse_epidata hm hw hnc hu hnd h1 h2
  obtain ⟨hg, hk, hp, hf, hi⟩ := hw
  obtain ⟨rev, st, hrun, ho, h'⟩ := reifyEdges_result m g
  rw [h'] at h1
  simp only [Except.ok.injEq] at h1
  subst h1
  obtain ⟨g2', a, b, c, d⟩ := reify_dereify_triples hm hg hk hp hf hi hrun ho hnc hu
  rw [h2] at a
  simp only [Except.ok.injEq] at a
  subst a
  apply configure_congr m top b (variables_eq_of d b) c
  · rw [(dereifyEdges_ok h2).2.2.1]
    show AList.ofList (AList.ofList g.metadata) = g.metadata
    rw [AList.ofList_of_nodup _ hmd, AList.ofList_of_nodup _ hmd]
  · intro t ht
    rw [hep t ht]
    by_cases hr : m.isReifiable t.role = true
    · rw [if_pos hr, Option.getD_some, normEpis_decoded (hds t ht hr)]
    · rw [if_neg hr]

/-! ## the guard of `dereify_edges` -/

/-- **Guard.** A variable that is the top, or is the target of a relation, or does
    not have exactly two relations is never collapsed by `dereify_edges`: all its
    triples are kept. -/
theorem C11_dereify_guard {m : Model} {g g' : Graph} (h : dereifyEdges m g = .ok g') (x : Str)
    (hx : g.getTop = some x ∨ (∃ t ∈ g.triples, t.role ≠ CONCEPT_ROLE ∧ t.tgt = .str x) ∨
      (otherOf g.triples x).length ≠ 2) :
    ∀ t ∈ g.triples, t.src = x → { t with role := ensureColon t.role } ∈ g'.triples :=
  dereify_guard h x hx

/-- conversely: a triple that disappears belonged to a node that is not the top,
    is not referenced and has exactly two relations -/
theorem C11_dereify_removed {m : Model} {g g' : Graph} (h : dereifyEdges m g = .ok g') (t : Triple)
    (ht : t ∈ g.triples) (hgone : { t with role := ensureColon t.role } ∉ g'.triples) :
    g.getTop ≠ some t.src ∧ (∀ t' ∈ g.triples, t'.role ≠ CONCEPT_ROLE → t'.tgt ≠ .str t.src) ∧
      (otherOf g.triples t.src).length = 2 :=
  dereify_removed h t ht hgone

/-- `dereify_edges` is total: it never raises, for any graph and model (after
    fix F20 a node whose dereified triple would get a non-variable source is
    left alone) -/
theorem C11_dereify_total (m : Model) (g : Graph) : ∃ g', dereifyEdges m g = .ok g' :=
  dereifyEdges_total m g

/-- the source of every triple `dereify_edges` creates is a variable of the graph -/
theorem C11_dereify_src_var {m : Model} {g : Graph} {x : Str} {ag : Agenda}
    (h : collapseOf m g x = some ag) : ag.dereified.src ∈ g.variables :=
  (collapseOf_some h).2.2.2.2

/-! ## non-vacuity and counterexamples -/

section Examples

private def tr (s r t : String) : Triple := ⟨s.toList, r.toList, .str t.toList⟩

/-- `(c / chapter :mod~1 7~2)` as decoded: alignments on the reifiable triple -/
def exChapter : Graph :=
  Graph.mk' [tr "c" ":instance" "chapter", tr "c" ":mod" "7"] (some "c".toList)
    [(tr "c" ":instance" "chapter", []), (tr "c" ":mod" "7", [.roleAln none [1], .aln none [2]])] []

example : WfGraph exChapter := by decide +kernel
example : NoCollapsible amrModel exChapter := by decide +kernel
example : RolesUnambiguous amrModel exChapter := by decide +kernel
example : ReifiableNodup amrModel exChapter := by decide +kernel

/-- the reified graph: `(c / chapter :ARG1-of (_ / have-mod-91~1 :ARG2 7~2))` -/
example : (reifyEdges amrModel exChapter).toOption.map (·.triples) =
    some [tr "c" ":instance" "chapter", tr "_" ":ARG1" "c", tr "_" ":instance" "have-mod-91",
      tr "_" ":ARG2" "7"] := by decide +kernel

/-- round trip on the example: triples and the markers of `(c :mod 7)` -/
example : ((reifyEdges amrModel exChapter >>= dereifyEdges amrModel).toOption.map
      fun g2 => (g2.triples, AList.get? g2.epidata (tr "c" ":mod" "7"))) =
    some (exChapter.triples, some [.roleAln none [1], .aln none [2]]) := by decide +kernel

/-- an inverted reifiable edge with pre-existing variables `_` and `_2`:
    `(_ / x :mod-of (_2 / y))`, decoded as `(_2 :mod _)` with `Push(_2)` -/
def exInverted : Graph :=
  Graph.mk' [tr "_" ":instance" "x", tr "_2" ":mod" "_", tr "_2" ":instance" "y"] (some "_".toList)
    [(tr "_" ":instance" "x", []), (tr "_2" ":mod" "_", [.push "_2".toList]),
     (tr "_2" ":instance" "y", [.pop])] []

example : WfGraph exInverted ∧ NoCollapsible amrModel exInverted ∧
    RolesUnambiguous amrModel exInverted ∧ ReifiableNodup amrModel exInverted := by decide +kernel

example : ((reifyEdges amrModel exInverted).toOption.map (·.triples)) =
    some [tr "_" ":instance" "x", tr "_3" ":ARG2" "_", tr "_3" ":instance" "have-mod-91",
      tr "_3" ":ARG1" "_2", tr "_2" ":instance" "y"] := by decide +kernel

example : ((reifyEdges amrModel exInverted >>= dereifyEdges amrModel).toOption.map
      fun g2 => (g2.triples, AList.get? g2.epidata (tr "_2" ":mod" "_"))) =
    some (exInverted.triples, some [.push "_2".toList]) := by decide +kernel

/-- **F4.** `(a / x :superset 7)`: the hypothesis `Unambiguous` fails. Before fix
    F20 the round trip yielded `(7 :subset a)`; now the dereified source `7` is
    not a variable, so the reified node is LEFT ALONE: dereify is the identity on
    the reified graph, and the round trip is still not the identity. -/
def exSuperset : Graph :=
  Graph.mk' [tr "a" ":instance" "x", tr "a" ":superset" "7"] (some "a".toList) [] []

example : WfGraph exSuperset ∧ NoCollapsible amrModel exSuperset ∧
    ¬ RolesUnambiguous amrModel exSuperset := by decide +kernel
example : ((reifyEdges amrModel exSuperset >>= dereifyEdges amrModel).toOption.map (·.triples)) =
    (reifyEdges amrModel exSuperset).toOption.map (·.triples) := by decide +kernel
example : ((reifyEdges amrModel exSuperset >>= dereifyEdges amrModel).toOption.map (·.triples)) =
    some [tr "a" ":instance" "x", tr "_" ":ARG1" "a", tr "_" ":instance" "include-91",
      tr "_" ":ARG2" "7"] := by decide +kernel

/-- **`FreshSafe` is necessary.** `(a / x :mod _)`: the constant `_` becomes a
    reference to the new node `_`, which is then "referenced elsewhere" and is
    not collapsed: dereifying does not restore the graph. -/
def exUnderscore : Graph :=
  Graph.mk' [tr "a" ":instance" "x", tr "a" ":mod" "_"] (some "a".toList) [] []

example : ¬ FreshSafe exUnderscore ∧ RolesColon exUnderscore ∧ EpiKeysNodup exUnderscore ∧
    PushVars exUnderscore ∧ HasInst exUnderscore ∧ NoCollapsible amrModel exUnderscore ∧
    RolesUnambiguous amrModel exUnderscore := by decide +kernel
example : ((reifyEdges amrModel exUnderscore >>= dereifyEdges amrModel).toOption.map (·.triples)) =
    some [tr "a" ":instance" "x", tr "_" ":ARG1" "a", tr "_" ":instance" "have-mod-91",
      tr "_" ":ARG2" "_"] := by decide +kernel

/-- **Distinct reifiable triples are necessary at the marker level.**
    `(a / x :mod~1 7 :mod 7)`: the triples come back, the alignment does not. -/
def exDuplicate : Graph :=
  Graph.mk' [tr "a" ":instance" "x", tr "a" ":mod" "7", tr "a" ":mod" "7"] (some "a".toList)
    [(tr "a" ":mod" "7", [.roleAln none [1]])] []

example : WfGraph exDuplicate ∧ NoCollapsible amrModel exDuplicate ∧
    RolesUnambiguous amrModel exDuplicate ∧ ¬ ReifiableNodup amrModel exDuplicate := by decide +kernel
example : ((reifyEdges amrModel exDuplicate >>= dereifyEdges amrModel).toOption.map
      fun g2 => (g2.triples, AList.get? g2.epidata (tr "a" ":mod" "7"))) =
    some (exDuplicate.triples, some []) := by decide +kernel

/-- **`HasInst` is necessary (since fix F20).** `a` has no node and is not the
    top: after reification `a` is no longer a variable, so the new node is left
    alone by `dereify_edges`. -/
def exNoNode : Graph :=
  Graph.mk' [tr "b" ":instance" "y", tr "a" ":mod" "7"] (some "b".toList) [] []

example : ¬ HasInst exNoNode ∧ RolesColon exNoNode ∧ EpiKeysNodup exNoNode ∧ PushVars exNoNode ∧
    FreshSafe exNoNode ∧ NoCollapsible amrModel exNoNode ∧ RolesUnambiguous amrModel exNoNode := by
  decide +kernel
example : ((reifyEdges amrModel exNoNode >>= dereifyEdges amrModel).toOption.map (·.triples)) =
    some [tr "b" ":instance" "y", tr "_" ":ARG1" "a", tr "_" ":instance" "have-mod-91",
      tr "_" ":ARG2" "7"] := by decide +kernel

/-- **`PushVars` is necessary at the marker level.** A `Push` naming the (not yet
    existing) variable `_` on the reifiable triple makes the agenda pick the wrong
    "second" triple: the triples come back, the alignment `~3` is lost. -/
def exPushFresh : Graph :=
  Graph.mk' [tr "a" ":instance" "x", tr "a" ":mod" "7"] (some "a".toList)
    [(tr "a" ":mod" "7", [.aln none [3], .push "_".toList])] []

example : ¬ PushVars exPushFresh ∧ RolesColon exPushFresh ∧ EpiKeysNodup exPushFresh ∧
    FreshSafe exPushFresh ∧ HasInst exPushFresh ∧ NoCollapsible amrModel exPushFresh ∧
    RolesUnambiguous amrModel exPushFresh ∧ ReifiableNodup amrModel exPushFresh := by decide +kernel
example : ((reifyEdges amrModel exPushFresh >>= dereifyEdges amrModel).toOption.map
      fun g2 => (g2.triples, AList.get? g2.epidata (tr "a" ":mod" "7"))) =
    some (exPushFresh.triples, some [.push "_".toList]) := by decide +kernel

/-- the guard: the top `v` of `(v / have-mod-91 :ARG1 a :ARG2 7)` is not collapsed -/
def exTop : Graph :=
  Graph.mk' [tr "v" ":instance" "have-mod-91", tr "v" ":ARG1" "a", tr "v" ":ARG2" "7"]
    (some "v".toList) [] []

example : (dereifyEdges amrModel exTop).toOption.map (·.triples) = some exTop.triples := by decide +kernel

end Examples

end Penman

/-
  Penman.Proofs.Configure16 — tree-level form of C03: the configured tree of a
  well-formed connected graph writes exactly the graph's triples (each possibly
  inverted once towards a variable; null node labels are left out), and has one
  node per variable.
-/
import Penman.Proofs.Configure18
namespace Penman
namespace Cfg

/-- everything the later steps need to know about a successful `configure` on a well-formed graph -/
structure Encoded (m : Model) (g : Graph) (t : Str) (T : Tree) (st : St) (l : List Triple) : Prop where
  store : storeOf m g t = .ok st
  build : buildNode st.cells (2 * st.cells.length + 2) t = .ok T.node
  metaEq : T.metadata = g.metadata
  /-- the store's triples, in the order of the graph's triples -/
  perm : l.Perm (placed st.cells)
  /-- each is the graph's triple or its inversion towards a variable -/
  version : ∀ x ∈ l, ∃ t0 ∈ g.triples, x = t0 ∨ (x = m.invert t0 ∧ (∃ b, t0.tgt = .str b) ∧ t0.role ≠ CONCEPT_ROLE)
  notNull : ∀ x ∈ l, ¬ NullInst x
  /-- deinverting once identifies them with the graph's triples; the null labels are aside -/
  same : (g.triples.map (deinvert1 m g)).Perm
    (l.map (deinvert1 m g) ++ (g.triples.filter nullB).map (deinvert1 m g))
  /-- the cells are exactly the variables -/
  keys : ∀ k, k ∈ ckeys st.cells ↔ k ∈ g.variables
  plain : Plain st.cells
  /-- non-null node labels are kept as they are -/
  inst : ∀ t0 ∈ g.triples, t0.role = CONCEPT_ROLE → nullB t0 = false → t0 ∈ l

theorem encoded {m : Model} {g : Graph} {top : Option Str} {t : Str} (hw : ModelWf m) (hg : WfGraph m g)
    (hpv : PushVars g) (hps : PushSrcOK g) (ht : topOf g top = some t) (htv : t ∈ g.variables)
    (hreach : ∀ v ∈ g.variables, Reach g t v) :
    ∃ T st l, configure m g top = .ok T ∧ Encoded m g t T st l := by
  obtain ⟨T, hT⟩ := configure_complete hg.noInstOf hps ht htv hreach
  have hr2 : ∀ x ∈ g.triples, RoleOK2 m x := fun x hx => roleOK2_of_colon m x (hg.roles x hx).1
  rcases configure_cases m g top with ⟨he, _⟩ | ⟨_, _, h'⟩ | ⟨t', _, ht', _, ⟨e, _, h'⟩ | ⟨st, node, hs, _, hb, h'⟩⟩
  · rw [hg.nonempty] at he; simp at he
  · rw [h'] at hT; simp at hT
  · rw [h'] at hT; simp at hT
  · rw [ht] at ht'; simp only [Option.some.injEq] at ht'; subst ht'
    rw [h'] at hT; simp only [Except.ok.injEq] at hT; subst hT
    obtain ⟨l1, hpre, l, hcorr, hperm⟩ := storeOf_sound hs hr2
    have hsub := keys_subset_variables hg.noInstOf hpv htv hs
    have hnd : ∀ x ∈ g.triples, nullB x = false → ∀ t1, PreStep m x t1 → ¬ Step m t1 none :=
      fun x hx hn t1 h1 => no_drop hg.noInstOf hx hn h1
    have hsrc : ∀ x ∈ l, x.src ∈ g.variables :=
      fun x hx => hsub _ (placed_src_key (hperm.subset hx))
    have hver : ∀ x ∈ l, ∃ t0 ∈ g.triples, x = t0 ∨ (x = m.invert t0 ∧ (∃ b, t0.tgt = .str b) ∧ t0.role ≠ CONCEPT_ROLE) := by
      intro x hx
      obtain ⟨t0, ht0, t1, h1, h2⟩ := chain_back hpre hcorr x hx
      exact ⟨t0, ht0, two_steps hw (hg.roles t0 ht0).2.2 h1 h2⟩
    have hnn : ∀ x ∈ l, ¬ NullInst x := by
      intro x hx
      obtain ⟨t0, _, t1, _, h2⟩ := chain_back hpre hcorr x hx
      cases h2 with
      | keep h => exact h
      | inv _ _ _ h => exact h
    have hinst : ∀ t0 ∈ g.triples, t0.role = CONCEPT_ROLE → nullB t0 = false → t0 ∈ l := by
      intro t0 ht0 hr0 hn0
      obtain ⟨t1, h1, h2⟩ := chain_fwd hpre hcorr t0 ht0
      rcases h2 with h2 | ⟨x, hx, h2⟩
      · exact absurd h2 (hnd t0 ht0 hn0 t1 h1)
      · have hx0 : x = t0 := by
          cases h1 with
          | same =>
            cases h2 with
            | keep => rfl
            | inv v hv hr => exact absurd hr0 hr
          | inv v hv hr => exact absurd hr0 hr
        subst hx0; exact hx
    refine ⟨_, st, l, h', ⟨hs, hb, rfl, hperm, hver, hnn, ?_, ?_, storeOf_plain hg.noAlign hs, hinst⟩⟩
    · apply chain_map (deinvert1 m g) (deinvert1 m g) (fun x => x.src ∈ g.variables) hpre hcorr hnd _ hsrc
      intro t0 ht0 t1 t2 h1 h2 hq
      exact deinvert1_version hw ht0 (hg.roles t0 ht0).2.2 (two_steps hw (hg.roles t0 ht0).2.2 h1 h2) hq
    · intro k
      refine ⟨hsub k, ?_⟩
      intro hk
      obtain ⟨t0, ht0, hs0, hr0⟩ := hg.labelled k hk
      rw [← hs0]
      exact storeOf_ownInst hs t0 ht0 hr0

/-- **C03, tree level (no `interpret`).** -/
theorem encode_tree {m : Model} {g : Graph} {top : Option Str} {t : Str} (hw : ModelWf m) (hg : WfGraph m g)
    (hpv : PushVars g) (hps : PushSrcOK g) (ht : topOf g top = some t) (htv : t ∈ g.variables)
    (hreach : ∀ v ∈ g.variables, Reach g t v) :
    ∃ T, configure m g top = .ok T ∧ T.metadata = g.metadata ∧ T.node.var = some t ∧
      (∀ x, x ∈ T.node.vars ↔ x ∈ g.variables) ∧ T.node.vars.Nodup ∧
      (T.node.edgeTriples.map (deinvert1 m g)).Perm
        ((g.triples.filter (fun x => !nullB x)).map (deinvert1 m g)) ∧
      ∀ x ∈ T.node.edgeTriples, ∃ t0 ∈ g.triples, x = t0 ∨ (x = m.invert t0 ∧ (∃ b, t0.tgt = .str b) ∧ t0.role ≠ CONCEPT_ROLE) := by
  obtain ⟨T, st, l, hT, E⟩ := encoded hw hg hpv hps ht htv hreach
  have hr2 : ∀ x ∈ g.triples, RoleOK2 m x := fun x hx => roleOK2_of_colon m x (hg.roles x hx).1
  obtain ⟨_, hvars, _, hnd, hvar⟩ := storeOf_tree hr2 E.store E.build
  have htt := storeOf_tree_triples hr2 hg.noAlign E.store E.build
  refine ⟨T, hT, E.metaEq, hvar, ?_, (hvars.nodup_iff).2 hnd, ?_, ?_⟩
  · intro x; rw [← E.keys x]; exact hvars.mem_iff
  · refine ((htt.trans E.perm.symm).map _).trans ?_
    have hsplit : (g.triples.map (deinvert1 m g)).Perm
        ((g.triples.filter (fun x => !nullB x)).map (deinvert1 m g) ++ (g.triples.filter nullB).map (deinvert1 m g)) := by
      rw [← List.map_append]
      apply List.Perm.map
      have := List.filter_append_perm (fun x => !nullB x) g.triples
      simpa using this.symm
    exact (List.perm_append_right_iff _).1 (E.same.symm.trans hsplit)
  · intro x hx
    exact E.version x (E.perm.symm.subset (htt.subset hx))

end Cfg
end Penman

/-
  Penman.Proofs.ConstantTotal — totality and case analysis of `evaluate`/`ctype` (C18).
-/
import Penman.Proofs.ConstantNum

namespace Penman
namespace C18

/-! ## 6. `evaluate` and `jsonLoads`, unfolded -/

theorem evaluate_some (s : Str) : evaluate (some s) =
    if s.isEmpty then .ok .none
    else if startsWith ['"'] s != endsWith ['"'] s then .error .constant
    else if s = "true".toList ∨ s = "false".toList ∨ s = "null".toList then .ok (.str s)
    else match jsonLoads s with
      | .error e => .error e
      | .ok none => .ok (.str s)
      | .ok (some (.str v)) => .ok (.str v)
      | .ok (some (.int t)) => .ok (.int t)
      | .ok (some (.float t)) => .ok (.float t)
      | .ok (some (.const n)) => .ok (.str n)
      | .ok (some .bool) => .ok .bool
      | .ok (some .null) => .ok .none
      | .ok (some .container) => .error .constant := by
  unfold evaluate
  simp only []
  split; · rfl
  split; · rfl
  split; · rfl
  rcases jsonLoads s with e | (_ | v)
  · rfl
  · rfl
  · cases v <;> rfl

theorem jsonLoads_ok {s : Str} {v : JVal} (h : jsonLoads s = .ok (some v)) :
    ∃ rest, scanJson (2 * s.length + 2) (skipWs s) = .ok v rest ∧ skipWs rest = [] := by
  unfold jsonLoads at h
  split at h
  · rename_i v' rest hsc
    split at h
    · rename_i he
      injection h with h; injection h with h; subst h
      exact ⟨rest, hsc, by simpa using he⟩
    · simp at h
  · simp at h
  · simp at h

theorem jsonLoads_error {s : Str} {e : PyErr} (h : jsonLoads s = .error e) :
    e = .unmodelled "json: lone surrogate or nesting" ∧
      scanJson (2 * s.length + 2) (skipWs s) = .unmodelled := by
  unfold jsonLoads at h
  split at h
  · split at h <;> simp at h
  · simp at h
  · rename_i hsc; injection h with h; exact ⟨h.symm, hsc⟩

/-! ## 7. whitespace helpers -/

theorem skipWs_split (s : Str) : ∃ pre, s = pre ++ skipWs s ∧ AllWs pre :=
  ⟨s.takeWhile isJsonWs, (List.takeWhile_append_dropWhile).symm, by
    intro c hc
    induction s with
    | nil => simp at hc
    | cons x xs ih =>
      by_cases hx : isJsonWs x = true
      · rw [List.takeWhile_cons_of_pos hx] at hc
        rcases List.mem_cons.mp hc with rfl | hc
        · exact hx
        · exact ih hc
      · rw [List.takeWhile_cons_of_neg hx] at hc; simp at hc⟩

theorem skipWs_eq_nil {r : Str} (h : skipWs r = []) : AllWs r := by
  intro c hc
  induction r with
  | nil => simp at hc
  | cons x xs ih =>
    by_cases hx : isJsonWs x = true
    · rw [skipWs, List.dropWhile_cons_of_pos hx] at h
      rcases List.mem_cons.mp hc with rfl | hc
      · exact hx
      · exact ih h hc
    · rw [skipWs, List.dropWhile_cons_of_neg hx] at h; simp at h

theorem skipWs_allWs_append {pre : Str} (h : AllWs pre) (r : Str) : skipWs (pre ++ r) = skipWs r := by
  induction pre with
  | nil => rfl
  | cons x xs ih =>
    have hx : isJsonWs x = true := h x (by simp)
    simp only [skipWs, List.cons_append]
    rw [List.dropWhile_cons_of_pos hx]
    exact ih (fun c hc => h c (by simp [hc]))

theorem skipWs_allWs {r : Str} (h : AllWs r) : skipWs r = [] := by
  have := skipWs_allWs_append h []
  simpa [skipWs] using this

theorem skipWs_cons_of_not {c : Char} (hc : isJsonWs c = false) (r : Str) : skipWs (c :: r) = c :: r := by
  rw [skipWs, List.dropWhile_cons_of_neg (by simp [hc])]

theorem skipWs_noWs {s : Str} (h : NoWs s) : skipWs s = s := by
  cases s with
  | nil => rfl
  | cons c r => exact skipWs_cons_of_not (h c (by simp)) r

/-! ## 8. containers only return `container` -/

theorem scanArray_ok : ∀ (f : Nat) (s : Str) (b : Bool) (v : JVal) (r : Str),
    scanArray f s b = .ok v r → v = .container := by
  intro f
  induction f with
  | zero => intro s b v r h; simp [scanArray] at h
  | succ f ih =>
    intro s b v r h
    unfold scanArray at h
    repeat' (split at h)
    all_goals first
      | exact ih _ _ _ _ h
      | (injection h with h1 _; exact h1.symm)
      | (simp at h; done)

theorem scanObject_ok : ∀ (f : Nat) (s : Str) (b : Bool) (v : JVal) (r : Str),
    scanObject f s b = .ok v r → v = .container := by
  intro f
  induction f with
  | zero => intro s b v r h; simp [scanObject] at h
  | succ f ih =>
    intro s b v r h
    unfold scanObject at h
    repeat' (split at h)
    all_goals first
      | exact ih _ _ _ _ h
      | (injection h with h1 _; exact h1.symm)
      | (simp at h; done)

/-- what `scanJson` can return and from which input -/
theorem scanJson_inv {f : Nat} {s : Str} {v : JVal} {r : Str} (h : scanJson (f+1) s = .ok v r) :
    (∃ x q, v = .str x ∧ s = '"' :: q) ∨
    (v = .container ∧ ∃ q, s = '[' :: q ∨ s = '{' :: q) ∨
    (v = .null ∧ s = "null".toList ++ r) ∨
    (v = .bool ∧ (s = "true".toList ++ r ∨ s = "false".toList ++ r)) ∨
    (∃ t isF, scanJsonNumber s = some (t, isF, r) ∧ v = if isF then .float t else .int t) ∨
    (∃ n, v = .const n) := by
  have hpre : ∀ p : Str, startsWith p s = true → s = p ++ s.drop p.length := by
    intro p hp
    rw [startsWith, List.isPrefixOf_iff_prefix] at hp
    obtain ⟨t, rfl⟩ := hp
    simp
  unfold scanJson at h
  split at h
  · split at h
    · injection h with h1 h2; exact Or.inl ⟨_, _, h1.symm, rfl⟩
    · simp at h
    · simp at h
  · exact Or.inr (Or.inl ⟨scanObject_ok _ _ _ _ _ h, _, Or.inr rfl⟩)
  · exact Or.inr (Or.inl ⟨scanArray_ok _ _ _ _ _ h, _, Or.inl rfl⟩)
  · split at h
    · rename_i hp; injection h with h1 h2
      exact Or.inr (Or.inr (Or.inl ⟨h1.symm, by rw [← h2]; exact hpre _ hp⟩))
    split at h
    · rename_i hp; injection h with h1 h2
      exact Or.inr (Or.inr (Or.inr (Or.inl ⟨h1.symm, Or.inl (by rw [← h2]; exact hpre _ hp)⟩)))
    split at h
    · rename_i hp; injection h with h1 h2
      exact Or.inr (Or.inr (Or.inr (Or.inl ⟨h1.symm, Or.inr (by rw [← h2]; exact hpre _ hp)⟩)))
    split at h
    · rename_i t isF r' hn
      injection h with h1 h2; subst h2
      exact Or.inr (Or.inr (Or.inr (Or.inr (Or.inl ⟨t, isF, hn, h1.symm⟩))))
    · split at h
      · injection h with h1 _; exact Or.inr (Or.inr (Or.inr (Or.inr (Or.inr ⟨_, h1.symm⟩))))
      split at h
      · injection h with h1 _; exact Or.inr (Or.inr (Or.inr (Or.inr (Or.inr ⟨_, h1.symm⟩))))
      split at h
      · injection h with h1 _; exact Or.inr (Or.inr (Or.inr (Or.inr (Or.inr ⟨_, h1.symm⟩))))
      · simp at h

end C18
end Penman

/-
  Penman.Proofs.Align7 — a graph without alignment markers satisfies `AlignOK`
  (so C03al contains C03).
-/
import Penman.Proofs.Align6
namespace Penman
namespace Cfg
namespace Al

theorem filter_mode_of_noAlign {g : Graph} (h : NoAlign g) {t : Triple} (ht : t ∈ g.triples) (k : Nat) (hk : k ≠ 0) :
    ((episOf g t).filter fun e => e.mode = k) = [] := by
  rw [List.filter_eq_nil_iff]
  intro e he
  have := h t ht e he
  simp only [decide_eq_true_eq]
  omega

theorem alignOK_of_noAlign (isAlpha : Char → Bool) (m : Model) {g : Graph} (h : NoAlign g) : AlignOK isAlpha m g := by
  have hr : ∀ t ∈ g.triples, roleAlnOf g t = none := fun t ht => by
    unfold roleAlnOf; rw [filter_mode_of_noAlign h ht 1 (by decide)]; rfl
  have hta : ∀ t ∈ g.triples, tgtAlnOf g t = none := fun t ht => by
    unfold tgtAlnOf; rw [filter_mode_of_noAlign h ht 2 (by decide)]; rfl
  refine ⟨?_, ?_, ?_, ?_, ?_⟩
  · intro t ht
    rw [filter_mode_of_noAlign h ht 1 (by decide), filter_mode_of_noAlign h ht 2 (by decide)]; simp
  · intro t ht e he
    have := h t ht e he
    cases e <;> simp [Epi.mode] at this <;> trivial
  · intro t ht hne; exact absurd (hr t ht) hne
  · intro t ht hne; exact absurd (hta t ht) hne
  · intro t ht t' ht' _
    rw [hr t ht, hr t' ht', hta t ht, hta t' ht']; exact ⟨rfl, rfl⟩

end Al
end Cfg
end Penman

#!/bin/sh
# run_seed.sh <name> <ID>... : apply /verif/seeded/<name>/patch.diff to /repo, run the checks, undo
NAME=$1; shift
cd /verif
git -C /repo apply /verif/seeded/$NAME/patch.diff || exit 2
for P in "$@"; do
  ./check $P 2>&1 | grep -v conda | tail -2 | cut -c1-400
done
git -C /repo checkout -- .

import Penman.Proofs.Cli
/-!
# C20 — the `penman` command equals the library pipeline and emits a normal form

Model functions: `processIn`, `processOut`, `checkGraph`, `processTree`, `processLoop`,
`processInput`, `mainRun`, `fileLines` (Penman/Main.lean); the stage-order and key tables
`Generated.processInOrder/processOutOrder/rearrangeKeys/reconfigureKeys` are produced from
/repo/penman/__main__.py by the translator (`_process_in`, `_process_out`: the options are tested
in source order and top-level `layout.interpret/configure` calls are recorded as `@interpret`,
`@configure`; `REARRANGE_KEYS`, `RECONFIGURE_KEYS`: command-line key ↦ `Model` method, renamed
`random_order ↦ random`, `canonical_order ↦ canonical`, `alphanumeric_order ↦ alphanumeric`,
`is_role_inverted ↦ invertedLast`, `attributes_first ↦ attributesFirst`, `original_order ↦ original`).

Specification vocabulary (Penman/Proofs/Cli.lean, written independently of `Penman.Main`):
`optStage`, `graphOf` (canonicalise? → interpret → reify edges? → dereify edges? → reify
attributes? → indicate branches?), `annotate`/`status` (`--check`), `layoutStage` (reconfigure and
re-interpret | configure), `rearrangeStage`, `relabelStage`, `treeOf`, `render` (`format` |
`format_triples`), `pipeline`, `pipelineFull` (text and status), `renderAll` (over the LIST OF
TREES), `withParserError`, `parseInput` (= `iterparseToks` of the lexed lines), `runInput`, `runAll`,
`joinGraphs`, `orAll`, `preFormat`, `preTriples`, `SameContentOpts`, `PlainOpts`.

Clause of the property text                               ↦ theorem(s)
-------------------------------------------------------------------------------------------------
the stages of `__main__.py` are in the documented order   ↦ `stage_order`, `key_tables`
  (fails when the source reorders them / renames keys)
"writes exactly what the documented library pipeline      ↦ `processTree_eq_pipeline`,
  … returns for each graph"                                  `processTree_text`, `status_no_check`
"one output graph per input graph, in order"              ↦ `cli_eq_pipeline_loop` (any fuel),
                                                             `cli_eq_pipeline` (`processInput`),
                                                             `cli_eq_pipeline_main` (`mainRun`),
                                                             `cli_output_ok` (explicit text: the texts
                                                             each followed by "\n", one blank line
                                                             between; status = OR), `cli_output_inv`
exceptions: parser / pipeline, output so far is kept      ↦ `cli_output_parse_error`,
                                                             `cli_output_pipeline_error`, `cli_error_source`
the loops' fuel never runs out (no theorem is true        ↦ `cli_fuel_free`, `parse_consumes`,
  because of fuel)                                           `parser_errors_are_decode_errors`
"formatting options never change content"                 ↦ `fmt_invariant`, `fmt_invariant_triples`,
                                                             `fmt_invariant_exit`
"feeding the output back … reproduces it byte for byte"   ↦ UNPROVED (stated) `cli_normal_form`;
                                                             proved: `cli_normal_form_partial`;
                                                             hypotheses that the statement NEEDS:
                                                             `normal_form_needs_no_triples`,
                                                             `normal_form_F18`,
                                                             `normal_form_needs_distinct_variables`
"no normalisation options + well-formed input ⇒ the        ↦ `cli_plain_output` (proved: the command
  output decodes to the same graphs"                         is `format ∘ configure ∘ interpret`),
                                                             UNPROVED (stated) `cli_identity`;
                                                             proved: `cli_identity_partial`

What is missing for the two UNPROVED statements: the text round trip `parse (lex (format t)) = t`
(C01), the graph round trip `interpret (configure g) ≅ g` (C02/C03) and the idempotence of every
normalisation stage through that round trip (C05, C10, C11, C12). `cli_normal_form_partial` and
`cli_identity_partial` take exactly these facts as explicit hypotheses and prove the rest (the
plumbing of the command: separators, statuses, parser/pipeline interleaving).

A random key is not in the model (`KeyFn` has no `random` constructor), so "without a random key"
holds for every `Opts`.

Evaluation of concrete runs: `buildNode` (in `configure`) is compiled by well-founded recursion,
which the kernel cannot unfold; Proofs/Cli.lean proves `processInput = runInputS ∘ parseInput`
(`processInput_eq_S`, …) where the `…S` functions use a structurally recursive but provably equal
`buildNodeS`; the examples rewrite with these equations and then use `decide +kernel`.
-/
namespace Penman.C20
open Penman Penman.Cli

/-! ### concrete values for the non-vacuity examples -/

/-- ASCII stand-ins for the Unicode tables -/
def uT : UTables := ⟨fun c => c = ' ' || c = '\n', isAsciiAlpha, fun c => [c]⟩

abbrev cfgG := Generated.lexCfg
abbrev dM := Generated.defaultModel
abbrev amr := Generated.amrModel

def tk (ty : TokTy) (s : String) (line off : Nat) : Tok := ⟨ty, s.toList, line, off⟩
/-- the tokens of `(a / b) (c / d) (`  -/
def toksABC : List Tok :=
  [tk .LPAREN "(" 1 0, tk .SYMBOL "a" 1 1, tk .SLASH "/" 1 3, tk .SYMBOL "b" 1 5, tk .RPAREN ")" 1 6,
   tk .LPAREN "(" 1 8, tk .SYMBOL "c" 1 9, tk .SLASH "/" 1 11, tk .SYMBOL "d" 1 13, tk .RPAREN ")" 1 14,
   tk .LPAREN "(" 1 16]
def treeAB : Tree := { node := .mk (some ['a']) (.atom ['/'] (.str ['b']) .nil) }

/-- evaluate a closed run of the command -/
macro "cli_decide" : tactic => `(tactic|
  (simp only [processInput_eq_S, mainRun_eq_S, processTree_eq_S, pipeline_eq_S]
   decide +kernel))

/-! ### the stage order and the key tables -/

/-- `_process_in` / `_process_out` test their options and call `layout` in the documented order -/
theorem stage_order :
    Generated.processInOrder =
      ["canonicalize_roles", "@interpret", "reify_edges", "dereify_edges", "reify_attributes",
       "indicate_branches"].map String.toList ∧
    Generated.processOutOrder =
      ["reconfigure", "@interpret", "@configure", "rearrange", "make_variables"].map String.toList := by
  decide

/-- `REARRANGE_KEYS` / `RECONFIGURE_KEYS`: the documented key names and the ordering functions -/
theorem key_tables :
    Generated.rearrangeKeys =
      [("random", "random"), ("canonical", "canonical"), ("alphanumeric", "alphanumeric"),
       ("inverted-last", "invertedLast"), ("attributes-first", "attributesFirst")].map
        (fun p => (p.1.toList, p.2.toList)) ∧
    Generated.reconfigureKeys =
      [("original", "original"), ("random", "random"), ("canonical", "canonical")].map
        (fun p => (p.1.toList, p.2.toList)) := by
  decide

/-! ### one graph -/

/-- the command's per-graph function is the documented pipeline; it exposes the text and the
    `--check` status (`status m o g = (checkGraph m g).2` under `--check`, else 0) of the graph `g`
    the input stages produce -/
theorem processTree_eq_pipeline (u : UTables) (m : Model) (o : Opts) (t : Tree) :
    processTree u m o t =
      (graphOf u m o t >>= fun g => (render u m o g).map fun s => (s, status m o g)) :=
  processTree_eq_pipelineFull u m o t

example : processTree uT dM { check := true } { node := .mk (some ['a']) (.atom ":foo".toList (.str ['7']) .nil) }
    = .ok ("# ::error-1 (a :foo 7) invalid role\n(a :foo 7)".toList, 1) := by cli_decide

/-- the text that is printed is `pipeline` -/
theorem processTree_text (u : UTables) (m : Model) (o : Opts) (t : Tree) :
    (processTree u m o t).map (·.1) = pipeline u m o t := by
  rw [pipeline_eq_fst, processTree_eq_pipelineFull]

example : pipeline uT dM { indent := none } treeAB = .ok "(a / b)".toList := by cli_decide

/-- without `--check` every graph's status is 0 -/
theorem status_no_check (u : UTables) (m : Model) (o : Opts) (t : Tree) (s : Str) (c : Nat)
    (ho : o.check = false) (h : processTree u m o t = .ok (s, c)) : c = 0 := by
  rw [processTree_eq_pipelineFull, pipelineFull] at h
  cases hg : graphOf u m o t with
  | error e => rw [hg] at h; cases h
  | ok g =>
    rw [hg, ok_bind] at h
    cases hr : render u m o g with
    | error e => rw [hr] at h; cases h
    | ok s' =>
      rw [hr] at h
      simp only [Except.map, Except.ok.injEq, Prod.mk.injEq, status, ho] at h
      exact h.2.symm

example : (processTree uT dM {} { node := .mk (some ['a']) (.atom ":foo".toList (.str ['7']) .nil) }).map (·.2)
    = .ok 0 := by cli_decide

/-! ### the stream of graphs -/

/-- `processLoop` (any fuel, any state) = `renderAll` over the trees that `iterparseLoop` yields
    with the same context and fuel, followed by the parser's exception if it raised -/
theorem cli_eq_pipeline_loop (u : UTables) (m : Model) (o : Opts) (c : PCtx) (f : Nat) (toks : List Tok)
    (first : Bool) (out : Str) (code : Nat) :
    processLoop u m o c f toks first out code =
      withParserError (renderAll u m o (iterparseLoop c u.isSpace f toks []).1 first out code)
        (iterparseLoop c u.isSpace f toks []).2 :=
  processLoop_eq_renderAll u m o c f toks first out code

/-- two graphs then a truncated one (`--triples`): both are printed (blank line between), then the
    parser's `DecodeError` is returned -/
example : processLoop uT dM { triples := true } ⟨(1, 17)⟩ 12 toksABC true [] 0
    = ("instance(a, b)\n\ninstance(c, d)\n".toList, .error (.decode 1 17 0)) := by decide +kernel

/-- one input stream: the command prints `renderAll` of the parsed trees -/
theorem cli_eq_pipeline (cfg : LexCfg) (u : UTables) (m : Model) (o : Opts) (input : Str) :
    processInput cfg u m o input =
      withParserError (renderAll u m o (parseInput cfg u input).1 true [] 0) (parseInput cfg u input).2 :=
  processInput_eq cfg u m o input

example : processInput cfgG uT dM {} "# ::id 1\n(a / b :x c)  (e / f)\n(g /".toList
    = ("# ::id 1\n(a / b\n   :x c)\n\n(e / f)\n".toList, .error (.decode 3 4 0)) := by cli_decide

/-- several inputs (stdin, or FILEs in order): outputs concatenated, statuses OR-ed, the first
    exception stops the run and keeps the output so far -/
theorem cli_eq_pipeline_main (cfg : LexCfg) (u : UTables) (m : Model) (o : Opts) (inputs : List Str)
    (out : Str) (code : Nat) :
    mainRun cfg u m o inputs out code = runAll u m o (inputs.map (parseInput cfg u)) out code :=
  mainRun_eq cfg u m o inputs out code

example : mainRun cfgG uT dM { check := true } ["(a / x :foo 7)".toList, "(b / y)\n(c / z)".toList] [] 0
    = ("# ::error-1 (a :foo 7) invalid role\n(a / x\n   :foo 7)\n(b / y)\n\n(c / z)\n".toList, .ok 1) := by
  cli_decide

/-- everything succeeds: the output is, in order, one text per input graph, each followed by a
    newline, with one blank line between graphs; the exit status is the OR of the statuses -/
theorem cli_output_ok (cfg : LexCfg) (u : UTables) (m : Model) (o : Opts) (input : Str)
    (trees : List Tree) (rs : List (Str × Nat))
    (hparse : parseInput cfg u input = (trees, none))
    (hpipe : trees.map (pipelineFull u m o) = rs.map .ok) :
    processInput cfg u m o input = (joinGraphs (rs.map (·.1)), .ok (orAll 0 (rs.map (·.2)))) := by
  rw [processInput_eq, runInput, hparse, renderAll_ok u m o trees rs hpipe]
  simp [withParserError]

example : parseInput cfgG uT "(a / b)".toList = ([treeAB], none) ∧
    [treeAB].map (pipelineFull uT dM {}) = [("(a / b)".toList, 0)].map .ok := by
  simp only [pipelineFull_funext_S]; decide +kernel

/-- conversely, a successful run has exactly this form -/
theorem cli_output_inv (cfg : LexCfg) (u : UTables) (m : Model) (o : Opts) (input s : Str) (c : Nat)
    (h : processInput cfg u m o input = (s, .ok c)) :
    ∃ rs : List (Str × Nat), (parseInput cfg u input).2 = none ∧
      (parseInput cfg u input).1.map (pipelineFull u m o) = rs.map .ok ∧
      s = joinGraphs (rs.map (·.1)) ∧ c = orAll 0 (rs.map (·.2)) :=
  processInput_ok_inv cfg u m o input s c h

example : processInput cfgG uT dM {} "(a / b)\n(c / d)".toList = ("(a / b)\n\n(c / d)\n".toList, .ok 0) := by
  cli_decide

/-- the parser raises after `trees`: their output is kept (no trailing separator), the error returned -/
theorem cli_output_parse_error (cfg : LexCfg) (u : UTables) (m : Model) (o : Opts) (input : Str)
    (trees : List Tree) (rs : List (Str × Nat)) (e : PyErr)
    (hparse : parseInput cfg u input = (trees, some e))
    (hpipe : trees.map (pipelineFull u m o) = rs.map .ok) :
    processInput cfg u m o input = (joinGraphs (rs.map (·.1)), .error e) := by
  rw [processInput_eq, runInput, hparse, renderAll_ok u m o trees rs hpipe]
  simp [withParserError]

example : parseInput cfgG uT "(a / b) (".toList = ([treeAB], some (.decode 1 9 0)) ∧
    [treeAB].map (pipelineFull uT dM {}) = [("(a / b)".toList, 0)].map .ok := by
  simp only [pipelineFull_funext_S]; decide +kernel

/-- the pipeline of the graph after `pre` raises: the output of `pre` is kept, followed by the
    separator that was already written (unless it is the first graph); the error is returned,
    whatever the parser would have done later -/
theorem cli_output_pipeline_error (cfg : LexCfg) (u : UTables) (m : Model) (o : Opts) (input : Str)
    (pre post : List Tree) (t : Tree) (pe : Option PyErr) (rs : List (Str × Nat)) (e : PyErr)
    (hparse : parseInput cfg u input = (pre ++ t :: post, pe))
    (hpipe : pre.map (pipelineFull u m o) = rs.map .ok) (herr : pipelineFull u m o t = .error e) :
    processInput cfg u m o input =
      (joinGraphs (rs.map (·.1)) ++ (if pre.isEmpty then [] else ['\n']), .error e) := by
  rw [processInput_eq, runInput, hparse]
  refine renderAll_error_left u m o _ _ _ _ pe _ e ?_
  rw [renderAll_error u m o pre rs t post e hpipe herr]
  simp

/-- `()` has no variable (`interpret` raises; `.unmodelled` in the model): the first graph and the
    separator are printed, then the exception; the third graph is never reached -/
example : processInput cfgG uT dM {} "(a / b) () (c / d)".toList
    = ("(a / b)\n\n".toList, .error (.unmodelled "node without a variable")) := by cli_decide

/-- an exception of the command is the parser's or that of one graph's pipeline -/
theorem cli_error_source (cfg : LexCfg) (u : UTables) (m : Model) (o : Opts) (input s : Str) (e : PyErr)
    (h : processInput cfg u m o input = (s, .error e)) :
    (parseInput cfg u input).2 = some e ∨ ∃ t ∈ (parseInput cfg u input).1, pipeline u m o t = .error e := by
  rw [processInput_eq, runInput] at h
  rcases hr : renderAll u m o (parseInput cfg u input).1 true [] 0 with ⟨s', r⟩
  rw [hr] at h
  cases r with
  | error e' =>
    have : e' = e := by cases hp : (parseInput cfg u input).2 <;> rw [hp] at h <;> simp_all [withParserError]
    exact .inr (renderAll_error_source u m o _ _ _ _ _ _ (this ▸ hr))
  | ok c =>
    cases hp : (parseInput cfg u input).2 with
    | none => rw [hp] at h; simp [withParserError] at h
    | some e' => rw [hp] at h; simp only [withParserError, Prod.mk.injEq, Except.error.injEq] at h; exact .inl (by rw [h.2])

example : (processInput cfgG uT dM {} "(a / b) (".toList).2 = .error (.decode 1 9 0) := by cli_decide

/-! ### fuel -/

/-- a successful `parseTree` consumes at least one token -/
theorem parse_consumes (c : PCtx) (sp : Char → Bool) (toks : List Tok) (t : Tree) (rest : List Tok)
    (h : parseTree c sp toks = .ok (t, rest)) : rest.length < toks.length :=
  parseTree_len h

example : (parseTree ⟨(1, 17)⟩ uT.isSpace toksABC).toOption.map (·.2.length) = some 6 := by decide +kernel

/-- `parseTree` never runs out of its recursion fuel: every exception is a `DecodeError` -/
theorem parser_errors_are_decode_errors (c : PCtx) (sp : Char → Bool) (toks : List Tok) (e : PyErr)
    (h : parseTree c sp toks = .error e) : ∃ l o k, e = .decode l o k :=
  parseTree_err h

example : parseTree ⟨(1, 17)⟩ uT.isSpace (toksABC.drop 10) = .error (.decode 1 17 0) := by decide +kernel

/-- the fuel `toks.length + 1` of `processInput` / `iterparseToks` never runs out: any larger fuel
    gives the same result, and the parser side never reports `.other "fuel"` (its exceptions are
    `DecodeError`s); by `cli_error_source` an exception of the command is therefore a `DecodeError`
    or the exception of a graph's pipeline -/
theorem cli_fuel_free (u : UTables) (m : Model) (o : Opts) (c : PCtx) (toks : List Tok) (f : Nat)
    (hf : toks.length < f) :
    (∀ first out code, processLoop u m o c f toks first out code =
        processLoop u m o c (toks.length + 1) toks first out code) ∧
    (∀ acc, iterparseLoop c u.isSpace f toks acc = iterparseLoop c u.isSpace (toks.length + 1) toks acc) ∧
    (∀ acc e, (iterparseLoop c u.isSpace (toks.length + 1) toks acc).2 = some e → ∃ l o k, e = .decode l o k) :=
  ⟨fun first out code => processLoop_fuel u m o c f _ toks first out code hf (Nat.lt_succ_self _),
   fun acc => iterparseLoop_fuel c u.isSpace f _ toks acc hf (Nat.lt_succ_self _),
   fun acc e h => iterparseLoop_err c u.isSpace _ toks acc e (Nat.lt_succ_self _) h⟩

/-- … while too little fuel does change the result (the hypothesis `toks.length < f` matters) -/
example : processLoop uT dM { triples := true } ⟨(1, 17)⟩ 1 toksABC true [] 0
    = ("instance(a, b)\n".toList, .error (.other "fuel")) := by decide +kernel

/-! ### formatting options never change content -/

/-- two option sets that differ only in `--indent` / `--compact`: the same tree (and status, and
    exception) is handed to `format`; the two outputs are `format` of that one tree -/
theorem fmt_invariant (u : UTables) (m : Model) (o o' : Opts) (t : Tree)
    (h : SameContentOpts o o') (ht : o.triples = false) :
    preFormat u m o' t = preFormat u m o t ∧
    processTree u m o t = (preFormat u m o t).map (fun p => (format p.1 o.indent o.compact, p.2)) ∧
    processTree u m o' t = (preFormat u m o t).map (fun p => (format p.1 o'.indent o'.compact, p.2)) := by
  refine ⟨preFormat_same u m h t, processTree_eq_preFormat u m o t ht, ?_⟩
  rw [processTree_eq_preFormat u m o' t (h.2.1 ▸ ht), preFormat_same u m h t]

example : SameContentOpts { reifyAttributes := true } { reifyAttributes := true, indent := none, compact := true } := by
  decide
example : (preFormat uT dM { reifyAttributes := true } treeAB).toOption.map (·.2) = some 0 := by
  simp only [preFormat, treeOf, layoutStage_eq_S]; decide +kernel

/-- the same for `--triples`: the same triple list is handed to `format_triples`; only the
    delimiter (`" ^\n"` or `" ^ "`) depends on `--indent` -/
theorem fmt_invariant_triples (u : UTables) (m : Model) (o o' : Opts) (t : Tree)
    (h : SameContentOpts o o') (ht : o.triples = true) :
    preTriples u m o' t = preTriples u m o t ∧
    processTree u m o t = (preTriples u m o t).map (fun p => (formatTriples p.1 (indentFlag o.indent), p.2)) ∧
    processTree u m o' t = (preTriples u m o t).map (fun p => (formatTriples p.1 (indentFlag o'.indent), p.2)) := by
  refine ⟨preTriples_same u m h t, processTree_eq_preTriples u m o t ht, ?_⟩
  rw [processTree_eq_preTriples u m o' t (h.2.1 ▸ ht), preTriples_same u m h t]

example : (preTriples uT dM { triples := true } treeAB).toOption.map (·.1) =
    some [⟨['a'], ":instance".toList, .str ['b']⟩] := by decide +kernel

/-- formatting options change neither the exit status nor whether/which exception is raised,
    for a whole run over several inputs -/
theorem fmt_invariant_exit (cfg : LexCfg) (u : UTables) (m : Model) (o o' : Opts) (input : Str)
    (h : SameContentOpts o o') :
    (processInput cfg u m o' input).2 = (processInput cfg u m o input).2 := by
  rw [processInput_eq, processInput_eq, runInput, runInput]
  have := renderAll_snd_congr u m o o' (parseInput cfg u input).1 (fun t _ => outcome_same u m h t)
    true true [] [] 0
  rcases h1 : renderAll u m o' (parseInput cfg u input).1 true [] 0 with ⟨s1, r1⟩
  rcases h2 : renderAll u m o (parseInput cfg u input).1 true [] 0 with ⟨s2, r2⟩
  rw [h1, h2] at this
  simp only at this
  subst this
  cases r1 <;> cases (parseInput cfg u input).2 <;> rfl

example : (processInput cfgG uT dM { check := true, indent := some 3, compact := true } "(a / x :foo 7)".toList).2
    = .ok 1 := by cli_decide

/-! ### no normalisation options: the command is `format ∘ configure ∘ interpret` -/

/-- with no normalisation option (and neither `--check` nor `--triples`) a successful run prints
    `format (configure (interpret tree))` for each parsed tree, in order; the status is 0 -/
theorem cli_plain_output (cfg : LexCfg) (u : UTables) (m : Model) (o : Opts) (hp : PlainOpts o)
    (input s : Str) (c : Nat) (h : processInput cfg u m o input = (s, .ok c)) :
    ∃ ts' : List Tree, (parseInput cfg u input).2 = none ∧
      (parseInput cfg u input).1.map (fun t => interpret u.isAlpha m t >>= fun g => configure m g none)
        = ts'.map .ok ∧
      s = joinGraphs (ts'.map fun t' => format t' o.indent o.compact) ∧ c = 0 := by
  obtain ⟨rs, h1, h2, h3, h4⟩ := processInput_ok_inv cfg u m o input s c h
  obtain ⟨ts', h5, h6⟩ := plain_results u m o hp _ rs h2
  refine ⟨ts', h1, h5, ?_, ?_⟩
  · rw [h3, h6]; simp [Function.comp_def]
  · rw [h4, h6]
    clear h6 h5
    induction ts' with
    | nil => rfl
    | cons a as ih => simpa [orAll] using ih

example : PlainOpts { indent := some 2, compact := true } := by decide

/-! ### feeding the output back -/

/- UNPROVED (stated): `cli_normal_form`.

   theorem cli_normal_form (cfg : LexCfg) (u : UTables) (m : Model) (o : Opts) (input s : Str) (c : Nat)
       (hcfg : LexCfgWf cfg) (hm : ModelWf m)
       (hrc : o.reconfigure = none) (hib : o.indicateBranches = false) (htr : o.triples = false)
       (hF18 : ¬ (o.reifyEdges ∧ o.reifyAttributes ∧ HasInvertedReifiableAttr m input))
       (hwf : ∀ t ∈ (parseInput cfg u input).1, WfTree t)      -- distinct variables, … (C01/C02)
       (hfmt : ∀ f, o.makeVariables = some f → f.progressive)
       (h : processInput cfg u m o input = (s, .ok c)) :
       processInput cfg u m o s = (s, .ok c)

   The hypotheses `htr`, `hF18`, `hwf` are NECESSARY: see `normal_form_needs_no_triples`,
   `normal_form_F18`, `normal_form_needs_distinct_variables` below. (`LexCfgWf`, `ModelWf`, `WfTree`
   are the decidable well-formedness predicates of C08/C13/C01.) What is proved is the reduction
   to the round-trip facts: -/

/-- if the output parses back without an exception into trees whose pipelines give the same
    results as those of the input trees (C01 round trip + stage idempotence), then feeding the
    output back reproduces it byte for byte, with the same status -/
theorem cli_normal_form_partial (cfg : LexCfg) (u : UTables) (m : Model) (o : Opts) (input s : Str) (c : Nat)
    (h : processInput cfg u m o input = (s, .ok c))
    (hparse : (parseInput cfg u s).2 = none)
    (hidem : (parseInput cfg u s).1.map (pipelineFull u m o) =
             (parseInput cfg u input).1.map (pipelineFull u m o)) :
    processInput cfg u m o s = (s, .ok c) := by
  rw [processInput_eq, runInput] at h ⊢
  obtain ⟨h1, _⟩ := withParserError_ok h
  rw [hparse, renderAll_congr u m o o _ _ hidem, h1]
  rfl

/-- the hypotheses hold for `(a / b :x (c / d))` with `--make-variables '{prefix}{j}' --compact` -/
example :
    processInput cfgG uT dM { makeVariables := some [.pre, .j], compact := true } "(a / b :x (c / d))".toList
      = ("(b / b\n   :x (d / d))\n".toList, .ok 0) ∧
    (parseInput cfgG uT "(b / b\n   :x (d / d))\n".toList).2 = none ∧
    (parseInput cfgG uT "(b / b\n   :x (d / d))\n".toList).1.map
        (pipelineFull uT dM { makeVariables := some [.pre, .j], compact := true }) =
      (parseInput cfgG uT "(a / b :x (c / d))".toList).1.map
        (pipelineFull uT dM { makeVariables := some [.pre, .j], compact := true }) := by
  simp only [processInput_eq_S, pipelineFull_funext_S]
  decide +kernel

/-- `--triples` must be excluded: the output of `--triples` is a triple conjunction, which the
    command does not read (it starts with a SYMBOL: no graph, empty output) -/
theorem normal_form_needs_no_triples :
    processInput cfgG uT dM { triples := true } "(a / b)".toList = ("instance(a, b)\n".toList, .ok 0) ∧
    processInput cfgG uT dM { triples := true } "instance(a, b)\n".toList = ([], .ok 0) := by
  cli_decide

/-- finding F18: `--amr --reify-edges --reify-attributes` on an inverted attribute whose base role
    is reifiable is not a fixed point of itself -/
theorem normal_form_F18 :
    let o : Opts := { reifyEdges := true, reifyAttributes := true }
    processInput cfgG uT amr o "(a / x :mod-of 7)".toList = ("(a / x\n   :mod-of (_ / 7))\n".toList, .ok 0) ∧
    processInput cfgG uT amr o "(a / x\n   :mod-of (_ / 7))\n".toList =
      ("(a / x\n   :ARG2-of (_2 / have-mod-91\n                :ARG1 (_ / 7)))\n".toList, .ok 0) := by
  cli_decide

/-- well-formed input is needed: with a variable used for two nodes the command (no options at
    all) prints a text with two concepts, which it cannot read back -/
theorem normal_form_needs_distinct_variables :
    processInput cfgG uT dM {} "(a / b :x (a / c))".toList = ("(a / c\n   / b\n   :x-of a)\n".toList, .ok 0) ∧
    processInput cfgG uT dM {} "(a / c\n   / b\n   :x-of a)\n".toList = ([], .error (.decode 2 3 1)) := by
  cli_decide

/- UNPROVED (stated): `cli_identity`.

   theorem cli_identity (cfg : LexCfg) (u : UTables) (m : Model) (o : Opts) (input : Str)
       (hcfg : LexCfgWf cfg) (hm : ModelWf m) (hp : PlainOpts o)
       (hok : (parseInput cfg u input).2 = none)
       (hwf : ∀ t ∈ (parseInput cfg u input).1, WfTree t) :
       ∃ s, processInput cfg u m o input = (s, .ok 0) ∧ (parseInput cfg u s).2 = none ∧
         SameGraphs u m (parseInput cfg u input).1 (parseInput cfg u s).1

   Missing: C01 (`parseInput (joinGraphs (ts'.map format)) = (ts', none)` for well-formed trees),
   C02 (`interpret (configure (interpret t)) ≅ interpret t`, and that `configure` succeeds on an
   interpreted well-formed tree). With these as hypotheses: -/

/-- `ts` and `ts'` decode (pairwise, in order) to equal graphs (`Graph.__eq__`) with equal metadata -/
def SameGraphs (u : UTables) (m : Model) : List Tree → List Tree → Prop
  | [], [] => True
  | t :: ts, t' :: ts' =>
    (∃ g g', interpret u.isAlpha m t = .ok g ∧ interpret u.isAlpha m t' = .ok g' ∧
      g'.eqv g = true ∧ g'.metadata = g.metadata) ∧ SameGraphs u m ts ts'
  | _, _ => False

theorem cli_identity_partial (cfg : LexCfg) (u : UTables) (m : Model) (o : Opts) (hp : PlainOpts o)
    (input s : Str) (c : Nat) (h : processInput cfg u m o input = (s, .ok c))
    -- C01: the printed trees are read back as they were printed
    (hC01 : ∀ ts' : List Tree, s = joinGraphs (ts'.map fun t' => format t' o.indent o.compact) →
        (parseInput cfg u input).1.map (fun t => interpret u.isAlpha m t >>= fun g => configure m g none)
          = ts'.map .ok → parseInput cfg u s = (ts', none))
    -- C02: re-interpreting a configured graph gives an equal graph
    (hC02 : ∀ t ∈ (parseInput cfg u input).1, ∀ g t', interpret u.isAlpha m t = .ok g →
        configure m g none = .ok t' →
        ∃ g', interpret u.isAlpha m t' = .ok g' ∧ g'.eqv g = true ∧ g'.metadata = g.metadata) :
    (parseInput cfg u s).2 = none ∧ SameGraphs u m (parseInput cfg u input).1 (parseInput cfg u s).1 := by
  obtain ⟨ts', _, h2, h3, _⟩ := cli_plain_output cfg u m o hp input s c h
  rw [hC01 ts' h3 h2]
  refine ⟨rfl, ?_⟩
  simp only
  generalize (parseInput cfg u input).1 = ts at h2 hC02
  clear hC01 h3 h
  induction ts generalizing ts' with
  | nil =>
    cases ts' with
    | nil => trivial
    | cons _ _ => simp at h2
  | cons t ts ih =>
    cases ts' with
    | nil => simp at h2
    | cons t' ts' =>
      simp only [List.map_cons, List.cons.injEq] at h2
      refine ⟨?_, ih ts' h2.2 (fun t ht => hC02 t (by simp [ht]))⟩
      cases hg : interpret u.isAlpha m t with
      | error e => rw [hg] at h2; cases h2.1
      | ok g =>
        rw [hg, ok_bind] at h2
        obtain ⟨g', h4, h5, h6⟩ := hC02 t (by simp) g t' hg h2.1
        exact ⟨g, g', rfl, h4, h5, h6⟩

/-- the hypotheses and the conclusion hold for a two-graph stream -/
example : processInput cfgG uT dM {} "(a / b)(e / f)".toList = ("(a / b)\n\n(e / f)\n".toList, .ok 0) := by
  cli_decide
example : parseInput cfgG uT "(a / b)\n\n(e / f)\n".toList = ((parseInput cfgG uT "(a / b)(e / f)".toList).1, none) := by
  decide +kernel

end Penman.C20

/-
  Position-free view of `lexStr`: the (type, text) sequence `lexC` of a string,
  with rewriting lemmas `lexC (m ++ rest) = (ty, m) :: lexC rest` derived from the
  separator lemmas of `LexLemmas`, a line feed lemma and a COMMENT-line lemma.
  Line numbers and offsets never matter for parsing (`TreeToks` / `ConjToks` only look at
  token types and texts), so they are projected away here once and for all.
-/
import Penman.Proofs.LexLemmas

namespace Penman.FL
open Penman Penman.Spec Penman.Lex

/-- type and text of a token -/
def core (t : Tok) : TokTy × Str := (t.ty, t.text)

@[simp] theorem core_mk (ty : TokTy) (s : Str) (n off : Nat) : core ⟨ty, s, n, off⟩ = (ty, s) := rfl

/-- the (type, text) sequence does not depend on the line number and start offset -/
theorem lexAux_core (cfg : LexCfg) (order : List TokTy) (n n' : Nat) :
    ∀ (f off off' : Nat) (s : Str),
      (lexAux cfg order n f off s).map core = (lexAux cfg order n' f off' s).map core := by
  intro f
  induction f with
  | zero => intro off off' s; rfl
  | succ f ih =>
    intro off off' s
    cases s with
    | nil => rfl
    | cons c cs =>
      simp only [lexAux]
      split
      · split
        · exact ih _ _ _
        · simp only [List.map_cons, core_mk, List.cons.injEq, true_and]; exact ih _ _ _
      · exact ih _ _ _

/-- the (type, text) sequence of one line -/
def lineC (cfg : LexCfg) (order : List TokTy) (l : Str) : List (TokTy × Str) :=
  (lexLine cfg order 0 l).map core

theorem lexAux_lineC (cfg : LexCfg) (order : List TokTy) (n f off : Nat) (s : Str) (hf : s.length < f) :
    (lexAux cfg order n f off s).map core = lineC cfg order s := by
  rw [lineC, lexLine, lexAux_fuel cfg order n f (s.length + 1) off s hf (by omega)]
  exact lexAux_core cfg order n 0 _ _ _ _

theorem lexLinesFrom_core (cfg : LexCfg) (order : List TokTy) :
    ∀ (ls : List Str) (n : Nat), (lexLinesFrom cfg order n ls).map core = (ls.map (lineC cfg order)).flatten := by
  intro ls
  induction ls with
  | nil => intro n; rfl
  | cons l ls ih =>
    intro n
    simp only [lexLinesFrom, List.map_append, List.map_cons, List.flatten_cons, ih]
    congr 1
    exact lexAux_lineC cfg order n _ 0 l (by omega)

/-- the (type, text) sequence of `lex(s)` -/
def lexC (cfg : LexCfg) (order : List TokTy) (s : Str) : List (TokTy × Str) :=
  (lexStr cfg order s).map core

theorem lexC_eq (cfg : LexCfg) (order : List TokTy) (s : Str) :
    lexC cfg order s = ((splitLines s).map (lineC cfg order)).flatten :=
  lexLinesFrom_core cfg order _ 1

theorem lineC_nil (cfg : LexCfg) (order : List TokTy) : lineC cfg order [] = [] := rfl

/-! ### from one line to the whole string -/

theorem splitLines_head {rest l : Str} {ls : List Str} (h : splitLines rest = l :: ls) :
    ∀ c, l.head? = some c → rest.head? = some c := by
  intro c hc
  rw [splitLines.eq_def] at h
  split at h
  · simp at h; rw [h.1] at hc; simp at hc
  · simp at h; rw [h.1] at hc; simp at hc
  · simp at h; rw [h.1] at hc; simp at hc
  · simp at h; rw [h.1] at hc; simp at hc
  · split at h
    · simp at h; rw [← h.1] at hc; simpa using hc
    · simp at h; rw [← h.1] at hc; simpa using hc

/-- a step valid on every line is valid on the string, as long as the consumed prefix `m`
    has no line break.  The continuation line `l` starts like `rest` (or is empty). -/
theorem lexC_step {cfg : LexCfg} {order : List TokTy} {m rest : Str} {pre : List (TokTy × Str)}
    (hm : NoBreak m)
    (H : ∀ l : Str, (∀ c, l.head? = some c → rest.head? = some c) →
      lineC cfg order (m ++ l) = pre ++ lineC cfg order l) :
    lexC cfg order (m ++ rest) = pre ++ lexC cfg order rest := by
  rw [lexC_eq, lexC_eq]
  cases h : splitLines rest with
  | nil => exact absurd h (splitLines_ne_nil rest)
  | cons l ls =>
    rw [splitLines_append hm h]
    simp only [List.map_cons, List.flatten_cons]
    rw [H l (splitLines_head h), List.append_assoc]

/-- a line feed is skipped -/
theorem lexC_newline (cfg : LexCfg) (order : List TokTy) (rest : Str) :
    lexC cfg order ('\n' :: rest) = lexC cfg order rest := by
  rw [lexC_eq, lexC_eq]
  simp [splitLines, lineC_nil]

theorem noBreak_append {a b : Str} (ha : NoBreak a) (hb : NoBreak b) : NoBreak (a ++ b) :=
  ⟨by simp [ha.1, hb.1], by simp [ha.2, hb.2]⟩

theorem noBreak_singleton {c : Char} (h1 : c ≠ '\n') (h2 : c ≠ '\r') : NoBreak [c] :=
  ⟨by simp [h1.symm], by simp [h2.symm]⟩

/-! ### one-token steps -/

variable {cfg : LexCfg}

theorem lineC_of_step {order : List TokTy} {ty : TokTy} {m l : Str}
    (h : ∀ n f off, (m ++ l).length < f → lexAux cfg order n f off (m ++ l) =
      ⟨ty, m, n, off⟩ :: lexAux cfg order n (l.length + 1) (off + m.length) l) :
    lineC cfg order (m ++ l) = [(ty, m)] ++ lineC cfg order l := by
  rw [lineC, lexLine, h 0 _ 0 (by omega)]
  simp only [List.map_cons, core_mk, List.singleton_append, List.cons.injEq, true_and]
  exact lexAux_lineC cfg order 0 _ _ l (by omega)

/-- SYMBOL -/
theorem lexC_symbol (hwf : CfgWfP cfg) {order : List TokTy} (ho : orderWf order = true)
    (hT : TokTy.SYMBOL ∈ order) {s rest : Str} (hs : IsSymbol cfg s) (hnb : NoBreak s)
    (hhash : s.head? ≠ some '#') (hrest : ∀ c, rest.head? = some c → c ∈ cfg.symExcl) :
    lexC cfg order (s ++ rest) = (.SYMBOL, s) :: lexC cfg order rest := by
  have := lexC_step (cfg := cfg) (order := order) (m := s) (rest := rest) (pre := [(.SYMBOL, s)]) hnb ?_
  · simpa using this
  · intro l hl
    exact lineC_of_step (fun n f off hf =>
      lexAux_symbol hwf ho hT hs hhash (fun c hc => hrest c (hl c hc)) n f off hf)

/-- ROLE -/
theorem lexC_role (hwf : CfgWfP cfg) {order : List TokTy} (ho : orderWf order = true)
    (hT : TokTy.ROLE ∈ order) {s rest : Str} (hs : IsRole cfg s) (hnb : NoBreak s)
    (hrest : ∀ c, rest.head? = some c → c ∈ cfg.roleExcl) :
    lexC cfg order (s ++ rest) = (.ROLE, s) :: lexC cfg order rest := by
  have := lexC_step (cfg := cfg) (order := order) (m := s) (rest := rest) (pre := [(.ROLE, s)]) hnb ?_
  · simpa using this
  · intro l hl
    exact lineC_of_step (fun n f off hf =>
      lexAux_role hwf ho hT hs (fun c hc => hrest c (hl c hc)) n f off hf)

/-- STRING -/
theorem lexC_string (hwf : CfgWfP cfg) {order : List TokTy} (ho : orderWf order = true)
    (hT : TokTy.STRING ∈ order) {s : Str} (rest : Str) (hs : IsString cfg s) (hnb : NoBreak s) :
    lexC cfg order (s ++ rest) = (.STRING, s) :: lexC cfg order rest := by
  have := lexC_step (cfg := cfg) (order := order) (m := s) (rest := rest) (pre := [(.STRING, s)]) hnb ?_
  · simpa using this
  · intro l _
    exact lineC_of_step (fun n f off hf => lexAux_string hwf ho hT hs n f off hf)

/-- ALIGNMENT -/
theorem lexC_alignment (hwf : CfgWfP cfg) {order : List TokTy} (ho : orderWf order = true)
    (hT : TokTy.ALIGNMENT ∈ order) {s rest : Str} (hs : IsAlignment cfg s) (hnb : NoBreak s)
    (hrest : AlnEnd cfg rest) :
    lexC cfg order (s ++ rest) = (.ALIGNMENT, s) :: lexC cfg order rest := by
  have := lexC_step (cfg := cfg) (order := order) (m := s) (rest := rest) (pre := [(.ALIGNMENT, s)]) hnb ?_
  · simpa using this
  · intro l hl
    exact lineC_of_step (fun n f off hf =>
      lexAux_alignment hwf ho hT hs (fun c hc => hrest c (hl c hc)) n f off hf)

/-- `(`, `)`, `/` -/
theorem lexC_delim (hwf : CfgWfP cfg) {order : List TokTy} (ho : orderWf order = true)
    {ty : TokTy} {c : Char} (hc : (ty, c) ∈ [(TokTy.LPAREN, '('), (TokTy.RPAREN, ')'), (TokTy.SLASH, '/')])
    (hT : ty ∈ order) (rest : Str) :
    lexC cfg order (c :: rest) = (ty, [c]) :: lexC cfg order rest := by
  have hnb : NoBreak [c] := by
    simp only [List.mem_cons, Prod.mk.injEq, List.not_mem_nil, or_false] at hc
    rcases hc with ⟨-, rfl⟩ | ⟨-, rfl⟩ | ⟨-, rfl⟩ <;> exact ⟨by decide, by decide⟩
  have := lexC_step (cfg := cfg) (order := order) (m := [c]) (rest := rest) (pre := [(ty, [c])]) hnb ?_
  · simpa using this
  · intro l _
    exact lineC_of_step (m := [c]) (fun n f off hf => by
      simpa using lexAux_delim hwf ho hc hT l n f off (by simpa using hf))

/-- a blank that is not a line break is skipped -/
theorem lexC_blank (hwf : CfgWfP cfg) {order : List TokTy} {c : Char} (hc : c ∈ cfg.blank)
    (h1 : c ≠ '\n') (h2 : c ≠ '\r') (rest : Str) :
    lexC cfg order (c :: rest) = lexC cfg order rest := by
  have := lexC_step (cfg := cfg) (order := order) (m := [c]) (rest := rest) (pre := [])
    (noBreak_singleton h1 h2) ?_
  · simpa using this
  · intro l _
    rw [lineC, lexLine]
    simp only [List.singleton_append, List.nil_append]
    rw [lexAux_blank hwf hc l 0 _ 0 (by simp)]
    exact lexAux_lineC cfg order 0 _ _ l (by omega)

/-- a run of blanks is skipped -/
theorem lexC_blanks (hwf : CfgWfP cfg) {order : List TokTy} {c : Char} (hc : c ∈ cfg.blank)
    (h1 : c ≠ '\n') (h2 : c ≠ '\r') (k : Nat) (rest : Str) :
    lexC cfg order (List.replicate k c ++ rest) = lexC cfg order rest := by
  induction k with
  | zero => rfl
  | succ k ih => rw [List.replicate_succ, List.cons_append, lexC_blank hwf hc h1 h2, ih]

/-- a COMMENT line: `#` up to the end of the string, when COMMENT is the first alternative -/
theorem lexC_comment_line {order : List TokTy} {tl : List TokTy} (ho : order = .COMMENT :: tl)
    (body : Str) (hb : NoBreak body) :
    lineC cfg order ('#' :: body) = [(.COMMENT, '#' :: body)] := by
  have hsp : spanP (· != '\n') body = (body, []) := by
    have := spanP_eq (· != '\n') body [] (by
      intro x hx; simp only [bne_iff_ne, ne_eq]; rintro rfl; exact hb.1 hx) (by simp)
    simpa using this
  have hfm : firstMatch cfg order (('#' :: body) ++ []) = some (.COMMENT, '#' :: body) := by
    subst ho
    simp [firstMatch, scanTy, scanComment, hsp]
  have := lexAux_step (cfg := cfg) (n := 0) (f := ('#' :: body).length + 1) (off := 0) hfm (by simp)
  simp only [List.append_nil] at this
  rw [lineC, lexLine, this, lexAux_nil]
  rfl

end Penman.FL

/-
  The shape of `joinParts` / `formatNode` output: the edge texts, in order, glued
  with separators that are either one space or the joiner.
-/
import Penman.Format

namespace Penman.FL
open Penman

/-- `xs` glued together with separators satisfying `J` -/
inductive Joined (J : Str → Prop) : List Str → Str → Prop
  | nil : Joined J [] []
  | one (x : Str) : Joined J [x] x
  | cons (x y : Str) (r : List Str) (sep s : Str) : J sep → Joined J (y :: r) s →
      Joined J (x :: y :: r) (x ++ sep ++ s)

theorem joinStr_joined {J : Str → Prop} {sep : Str} (hsep : J sep) :
    ∀ xs : List Str, Joined J xs (joinStr sep xs)
  | [] => .nil
  | [x] => .one x
  | x :: y :: r => by
    rw [joinStr]
    exact .cons x y r sep _ hsep (joinStr_joined hsep (y :: r))

/-- a glued group may stand for its members -/
theorem Joined.flatten_head {J : Str → Prop} {xs : List Str} {x : Str} (h : Joined J xs x) :
    xs ≠ [] → ∀ {L : List Str} {s : Str}, Joined J (x :: L) s → Joined J (xs ++ L) s := by
  induction h with
  | nil => intro h; exact absurd rfl h
  | one x => intro _ L s h; exact h
  | cons x' y r sep s' hsep _ ih =>
    intro _ L s h
    cases h with
    | one _ => simpa using Joined.cons x' y r sep s' hsep ‹_›
    | cons _ z L' sep2 s2 hsep2 h2 =>
      have := ih (by simp) (Joined.cons s' z L' sep2 s2 hsep2 h2)
      have := Joined.cons x' y (r ++ z :: L') sep _ hsep this
      simpa [List.append_assoc] using this

theorem joinParts_joined {J : Str → Prop} {joiner : Str} (h1 : J [' ']) (h2 : J joiner) :
    ∀ (es : List (Bool × Str)) (compact : Bool) (parts : List Str),
      Joined J (parts.reverse ++ es.map (·.2)) (joinParts joiner compact parts es) := by
  intro es
  induction es with
  | nil =>
    intro compact parts
    simp only [joinParts, List.map_nil, List.append_nil]
    cases compact with
    | true => simpa [joinStr] using joinStr_joined h1 parts.reverse
    | false => simpa using joinStr_joined h2 parts.reverse
  | cons e es ih =>
    intro compact parts
    obtain ⟨brk, txt⟩ := e
    simp only [joinParts, List.map_cons]
    split
    · by_cases hp : parts = []
      · subst hp
        simpa using ih false [txt]
      · have hp' : parts.isEmpty = false := by cases parts <;> simp_all
        simp only [hp', Bool.false_eq_true, if_false]
        have := ih false [txt, joinStr [' '] parts.reverse]
        simp only [List.reverse_cons, List.reverse_nil, List.nil_append, List.cons_append] at this
        have hj := joinStr_joined h1 parts.reverse
        exact hj.flatten_head (by simpa using hp) this
    · have := ih compact (txt :: parts)
      simpa [List.append_assoc] using this

/-- separators of `formatNode`: one space, or a line feed and an indentation -/
def Sep (s : Str) : Prop := s = [' '] ∨ ∃ k, s = '\n' :: List.replicate k ' '

theorem sep_space : Sep [' '] := .inl rfl
theorem sep_joiner (indent : Indent) (col : Int) :
    Sep (match indent with | none => [' '] | some _ => '\n' :: spaces col) := by
  cases indent with
  | none => exact .inl rfl
  | some i => exact .inr ⟨_, rfl⟩

/-- `_format_node` of a node with a non-empty variable and at least one branch -/
theorem formatNode_some (indent : Indent) (vars : List Str) (v : Str) (bs : Branches) (column : Int)
    (hv : v ≠ []) (hbs : bs ≠ .nil) :
    ∃ (col : Int) (j : Str), Joined Sep ((formatEdges indent vars bs col).map (·.2)) j ∧
      formatNode indent vars (.mk (some v) bs) column = '(' :: v ++ ' ' :: (j ++ [')']) := by
  have hv' : v.isEmpty = false := by cases v <;> simp_all
  let col : Int := match indent with
    | none => column
    | some i => if i = -1 then column + v.length + 2 else column + i
  cases bs with
  | nil => exact absurd rfl hbs
  | atom r a rest =>
    have hj := joinParts_joined sep_space (sep_joiner indent col)
      (formatEdges indent vars (.atom r a rest) col) (!vars.isEmpty) []
    refine ⟨col, _, by simpa using hj, ?_⟩
    simp [formatNode, hv', col]; rfl
  | sub r n rest =>
    have hj := joinParts_joined sep_space (sep_joiner indent col)
      (formatEdges indent vars (.sub r n rest) col) (!vars.isEmpty) []
    refine ⟨col, _, by simpa using hj, ?_⟩
    simp [formatNode, hv', col]; rfl

theorem formatNode_nil (indent : Indent) (vars : List Str) (v : Str) (column : Int) (hv : v ≠ []) :
    formatNode indent vars (.mk (some v) .nil) column = '(' :: v ++ [')'] := by
  have hv' : v.isEmpty = false := by cases v <;> simp_all
  simp [formatNode, hv']

theorem formatNode_none (indent : Indent) (vars : List Str) (bs : Branches) (column : Int) :
    formatNode indent vars (.mk none bs) column = ['(', ')'] := by
  simp [formatNode]

end Penman.FL

/-
  Penman.Proofs.TransformDecodeTables — a cheap sufficient condition for `TableOK`.

  `TableOK` asks `RoleOK` (canonical inversion, ROLE text of the role and of its inversion, no
  inversion to `:instance`) of role / source role / target role of every reification and of the top
  role.  For a role that is DECLARED in the model (`hasRole1`) all of this follows from four
  character-level facts (`roleOK_of_fast`); `TableFast` asks those of the duplicate-free list of table
  roles, which the kernel decides quickly for the generated AMR tables.
-/
import Penman.Proofs.TransformDecodeBase
namespace Penman.C12dec
open Penman Penman.Spec Penman.C03Text

/-- the roles the transformations can introduce, without duplicates -/
def tableRoles (m : Model) : List Str :=
  dedup (m.reifs.flatMap (fun rf => [rf.role, rf.source, rf.target]) ++ [m.topRole])

/-- a declared role that is a colon-prefixed ROLE text without `~` -/
def RoleFast (cfg : LexCfg) (m : Model) (r : Str) : Prop :=
  m.hasRole1 r = true ∧ r.head? = some ':' ∧ '~' ∉ r ∧ roleB cfg r = true

instance (cfg : LexCfg) (m : Model) (r : Str) : Decidable (RoleFast cfg m r) := by
  unfold RoleFast; infer_instance

def TableFast (cfg : LexCfg) (m : Model) : Prop :=
  OfOK cfg = true ∧ (∀ r ∈ tableRoles m, RoleFast cfg m r) ∧
  (∀ rf ∈ m.reifs, ConceptOK cfg rf.concept) ∧ GenOK cfg

instance (cfg : LexCfg) (m : Model) : Decidable (TableFast cfg m) := by
  unfold TableFast; infer_instance

theorem append_of_ne_concept (r : Str) : r ++ ofStr ≠ CONCEPT_ROLE := by
  intro h
  have h1 : (r ++ ofStr).getLast? = some 'f' := by
    rw [List.getLast?_append]; simp [ofStr]
  have h2 : CONCEPT_ROLE.getLast? = some 'e' := by decide
  rw [h, h2] at h1
  simp at h1

theorem dropEnd_append_of (r : Str) : dropEnd 3 (r ++ ofStr) = r := by
  have : (r ++ ofStr).length - 3 = r.length := by simp [ofStr]
  rw [dropEnd, this, List.take_left']
  rfl

theorem roleOK_of_fast {cfg : LexCfg} {m : Model} {r : Str} (hof : OfOK cfg = true)
    (h : RoleFast cfg m r) : RoleOK cfg m r := by
  obtain ⟨h1, h2, h3, h4⟩ := h
  have hinv : m.invertRole r = r ++ ofStr := by simp [Model.invertRole, h1]
  refine ⟨h2, h3, by simp [Model.canonInversion, h1], fun hne =>
    ⟨⟨h4, roleB_invertRole hof m h4⟩, ?_, ?_⟩⟩
  · rw [hinv]; exact append_of_ne_concept r
  · rw [hinv]
    unfold Model.invertRole
    split
    · rw [dropEnd_append_of]; exact hne
    · exact append_of_ne_concept _

theorem tableOK_of_fast {cfg : LexCfg} {m : Model} (h : TableFast cfg m) : TableOK cfg m := by
  obtain ⟨hof, hr, hc, hg⟩ := h
  have hmem : ∀ r, r ∈ m.reifs.flatMap (fun rf => [rf.role, rf.source, rf.target]) ++ [m.topRole] →
      RoleOK cfg m r := fun r hmem => roleOK_of_fast hof (hr r ((mem_dedup _ r).mpr hmem))
  refine ⟨fun rf hrf => ⟨?_, ?_, ?_, hc rf hrf⟩, hmem _ (by simp), hg⟩
  · exact hmem _ (List.mem_append_left _ (List.mem_flatMap.mpr ⟨rf, hrf, by simp⟩))
  · exact hmem _ (List.mem_append_left _ (List.mem_flatMap.mpr ⟨rf, hrf, by simp⟩))
  · exact hmem _ (List.mem_append_left _ (List.mem_flatMap.mpr ⟨rf, hrf, by simp⟩))

end Penman.C12dec

/-
  Penman.Proofs.Align5 — C03 with alignments, graph level: `configure` then
  `interpret` on a well-formed connected graph whose alignment markers satisfy
  `AlignOK`.  Same proof as `Cfg.encode_decode` (Configure17), with the edges of
  the store read by `denote_edge_al`; the reading is returned as well, each of
  its relations with the graph triple whose alignments it carries.
-/
import Penman.Proofs.Align4
set_option linter.unusedSimpArgs false
set_option linter.unusedVariables false
namespace Penman
namespace Cfg
namespace Al
open Penman.Spec.Reading

theorem encode_decode_core (isAlpha : Char → Bool) {m : Model} {g : Graph} {top : Option Str} {t : Str}
    (hw : ModelWf m) (hnoop : m.noop = false) (hg : WfGraphAl m g) (hal : AlignOK isAlpha m g) (hnum : NoNum g)
    (hpv : PushVars g) (hps : PushSrcOK g) (ht : topOf g top = some t) (htv : t ∈ g.variables)
    (hreach : ∀ v ∈ g.variables, Reach g t v) :
    ∃ T g' ds, configure m g top = .ok T ∧ interpret isAlpha m T = .ok g' ∧
      Spec.Reading.read isAlpha m T.node = .ok ⟨T.node.var, ds⟩ ∧
      g'.getTop = some t ∧ (∀ x, x ∈ g'.variables ↔ x ∈ g.variables) ∧
      (g'.triples.map (deinvert1 m g)).Perm (g.triples.map (deinvert1 m g)) ∧
      (∀ x ∈ g'.triples, ∃ t0 ∈ g.triples, x = t0 ∨ x = m.invert t0) ∧
      (∀ d ∈ ds, ∃ t1 ∈ g.triples, d.triple = deinvert1 m g t1 ∧ colon d.triple = d.triple ∧
        d.roleAln.map (fun a => Epi.roleAln a.1 a.2) = roleAlnOf g t1 ∧
        d.tgtAln.map (fun a => Epi.aln a.1 a.2) = tgtAlnOf g t1) := by
  obtain ⟨T, st, l, hT, E⟩ := encodedAl hw hg hpv hps ht htv hreach
  have hr2 : ∀ x ∈ g.triples, RoleOK2 m x := fun x hx => roleOK2_of_colon m x (hg.roles x hx).1
  obtain ⟨hW, hvars, _, hnd, hvar⟩ := storeOf_tree hr2 E.store E.build
  have hgood := storeOf_good E.store
  have hvmem : ∀ s, s ∈ T.node.vars ↔ s ∈ g.variables := fun s => hvars.mem_iff.trans (E.keys s)
  have hEF := fun p hp e he => edgeFacts (isAlpha := isAlpha) (p := p) (e := e) hw hg hal E hvmem hgood.forest hp he
  -- facts about every triple of the store
  have hfacts : ∀ x ∈ placed st.cells, GoodT m x ∧ notNum x.tgt = true ∧ x.src ∈ g.variables := by
    intro x hx
    obtain ⟨t0, ht0, hv⟩ := E.version x (E.perm.symm.subset hx)
    refine ⟨goodT_of_version_al hw hg ht0 hv, ?_, (E.keys _).1 (placed_src_key hx)⟩
    rcases hv with rfl | ⟨rfl, _, _⟩
    · exact hnum _ ht0
    · rw [invert_tgt]; rfl
  -- a cell is labelled iff it holds a `/` edge
  have hlabel : ∀ p ∈ st.cells, (cellLabelled p.2 = true ↔ ∃ e ∈ p.2, e.role = ['/']) := by
    intro p hp
    simp only [cellLabelled, List.any_eq_true, decide_eq_true_eq]
    constructor
    · rintro ⟨e, he, hrn⟩
      refine ⟨e, he, ?_⟩
      obtain ⟨F, _⟩ := hEF p hp e he
      rw [roleName_outRole F, denote_role_slash] at hrn
      unfold slashRole at hrn
      split at hrn
      · assumption
      · exact absurd hrn F.notInst
    · rintro ⟨e, he, hs⟩
      refine ⟨e, he, ?_⟩
      obtain ⟨F, _⟩ := hEF p hp e he
      rw [roleName_outRole F, denote_role_slash]; simp [slashRole, hs]
  have hW' := hW.trans (flat_ownW_split st.cells)
  -- every written relation reads as the store's triple, deinverted once, with the edge's alignments
  let D : Written → Denoted := fun w =>
    match Spec.Reading.denote isAlpha m T.node.vars w with
    | .ok d => d
    | .error _ => ⟨⟨[], [], .none⟩, none, none, [], none, false⟩
  let G : Written → Triple := fun w => (D w).triple
  have hDedge : ∀ p ∈ st.cells, ∀ e ∈ p.2,
      Spec.Reading.denote isAlpha m T.node.vars (edgeWritten p.1 e) = .ok (D (edgeWritten p.1 e)) ∧
      (D (edgeWritten p.1 e)).triple = readTriple m T.node.vars (Cfg.denote p.1 e) ∧
      (D (edgeWritten p.1 e)).roleAln.map (fun a => Epi.roleAln a.1 a.2) = (e.epis.filter fun x => x.mode = 1).getLast? ∧
      (D (edgeWritten p.1 e)).tgtAln.map (fun a => Epi.aln a.1 a.2) = (e.epis.filter fun x => x.mode = 2).getLast? := by
    intro p hp e he
    obtain ⟨F, _⟩ := hEF p hp e he
    obtain ⟨d, hd, h1, h2, h3⟩ := denote_edge_al hnoop F (hfacts _ (mem_placed hp he)).2.1
    have : D (edgeWritten p.1 e) = d := by simp only [D, hd]
    rw [this]; exact ⟨hd, h1, h2, h3⟩
  have hGedge : ∀ p ∈ st.cells, ∀ e ∈ p.2, G (edgeWritten p.1 e) = readTriple m T.node.vars (Cfg.denote p.1 e) :=
    fun p hp e he => (hDedge p hp e he).2.1
  have hDnull : ∀ v, Spec.Reading.denote isAlpha m T.node.vars (nullW v) = .ok (D (nullW v)) ∧
      D (nullW v) = ⟨⟨v, CONCEPT_ROLE, .none⟩, none, none, v, none, false⟩ := by
    intro v
    have hd : Spec.Reading.denote isAlpha m T.node.vars (nullW v) =
        .ok ⟨⟨v, CONCEPT_ROLE, .none⟩, none, none, v, none, false⟩ := by
      simp [nullW, Spec.Reading.denote, roleName, roleAlnText, parseAln?]
    have : D (nullW v) = ⟨⟨v, CONCEPT_ROLE, .none⟩, none, none, v, none, false⟩ := by simp only [D, hd]
    rw [this]; exact ⟨hd, rfl⟩
  have hGnull : ∀ v, G (nullW v) = ⟨v, CONCEPT_ROLE, .none⟩ := by
    intro v; simp only [G, (hDnull v).2]
  have hall : ∀ w ∈ Node.written T.node,
      (Spec.Reading.denote isAlpha m T.node.vars w).map id = .ok (D w) := by
    intro w hw'
    have := hW'.subset hw'
    simp only [List.mem_append, nullsW, flat, List.mem_flatMap, List.mem_map] at this
    rcases this with ⟨p, _, rfl⟩ | ⟨p, hp, e, he, rfl⟩
    · rw [(hDnull p.1).1]; rfl
    · rw [(hDedge p hp e he).1]; rfl
  obtain ⟨ds, hds, hdsD⟩ := mapM_map _ (id : Denoted → Denoted) D _ hall
  simp only [List.map_id] at hdsD
  have hdsmap : ds.map Denoted.triple = (Node.written T.node).map G := by
    rw [hdsD, List.map_map]; rfl
  have hread : Spec.Reading.read isAlpha m T.node = .ok ⟨T.node.var, ds⟩ := by
    unfold Spec.Reading.read; rw [hds]; rfl
  obtain ⟨g', hg'⟩ := Interp.interpret_defined hread
  obtain ⟨r, hr, htop, _, _, htr⟩ := Props.C04.C04 isAlpha m T g' hg'
  rw [hread] at hr; simp only [Except.ok.injEq] at hr; subst hr
  obtain ⟨_, _, hv3⟩ := Props.C04.C04_variables isAlpha m T g' _ hg' hread
  -- the decoded triples, up to order
  have hD : ∀ x ∈ l, colon (readTriple m T.node.vars x) = deinvert1 m g x := by
    intro x hx
    obtain ⟨f1, _, _⟩ := hfacts x (E.perm.subset hx)
    have e1 : readTriple m T.node.vars x = deinvert1 m g x := by
      unfold readTriple deinvert1; rw [isVar_eq hvmem]
    rw [e1]
    have hc : (deinvert1 m g x).role.head? = some ':' := by
      unfold deinvert1; split
      · rw [invert_role]; exact head_invertRole m _ f1.colon
      · exact f1.colon
    simp [colon, ensureColon_of_head hc]
  obtain ⟨nullTs, hnT⟩ : ∃ x : List Triple,
      x = (st.cells.filter fun p => !cellLabelled p.2).map fun p => (⟨p.1, CONCEPT_ROLE, .none⟩ : Triple) := ⟨_, rfl⟩
  have hperm : g'.triples.Perm (nullTs ++ l.map (deinvert1 m g)) := by
    rw [htr]
    simp only [Reading.triples, hdsmap]
    have h1 : ((Node.written T.node).map G).Perm (nullTs ++ (placed st.cells).map (readTriple m T.node.vars)) := by
      refine (hW'.map G).trans ?_
      rw [List.map_append]
      have e1 : (nullsW st.cells).map G = nullTs := by
        rw [hnT]
        simp only [nullsW, List.map_map]
        apply List.map_congr_left
        intro p _
        exact hGnull p.1
      have e2 : (flat (fun v es => es.map (edgeWritten v)) st.cells).map G =
          (placed st.cells).map (readTriple m T.node.vars) := by
        simp only [flat, placed, List.map_flatMap, List.map_map]
        apply flatMap_congr'
        intro p hp
        apply List.map_congr_left
        intro e he
        exact hGedge p hp e he
      rw [e1, e2]
    refine (h1.map colon).trans ?_
    rw [List.map_append]
    have e1 : nullTs.map colon = nullTs := by
      conv => rhs; rw [← List.map_id nullTs]
      apply List.map_congr_left
      intro x hx
      rw [hnT] at hx
      simp only [List.mem_map] at hx
      obtain ⟨p, _, rfl⟩ := hx
      have : ensureColon CONCEPT_ROLE = CONCEPT_ROLE := by decide
      simp [colon, this]
    rw [e1]
    refine List.Perm.append_left _ ?_
    refine ((E.perm.symm.map (readTriple m T.node.vars)).map colon).trans ?_
    rw [List.map_map]
    have : l.map (colon ∘ readTriple m T.node.vars) = l.map (deinvert1 m g) :=
      List.map_congr_left (fun x hx => hD x hx)
    rw [this]
  -- the label-less cells are exactly the null labels of `g`
  have hnullD : ∀ x : Triple, x.tgt = .none → deinvert1 m g x = x := by
    intro x hx; simp [deinvert1, hx, Graph.isVar]
  have hnulls : nullTs.Perm (g.triples.filter nullB) := by
    apply perm_of_nodup
    · have hsub : ((st.cells.filter fun p => !cellLabelled p.2).map (·.1)).Nodup :=
        List.Nodup.sublist (List.Sublist.map _ List.filter_sublist) hnd
      have := List.Pairwise.map (S := fun a b : Triple => a ≠ b) (fun v : Str => (⟨v, CONCEPT_ROLE, .none⟩ : Triple))
        (fun a b hab h => hab (by injection h)) hsub
      rw [List.map_map] at this
      rw [hnT]
      exact this
    · exact hg.nullNodup
    · intro x
      rw [hnT]
      simp only [List.mem_map, List.mem_filter, Bool.not_eq_eq_eq_not, Bool.not_true]
      constructor
      · rintro ⟨p, ⟨hp, hunl⟩, rfl⟩
        obtain ⟨t0, ht0, hs0, hr0⟩ := hg.labelled p.1 ((E.keys _).1 (mem_keys_of_mem hp))
        cases hn0 : nullB t0 with
        | false =>
          exfalso
          have hmem := E.perm.subset (E.inst t0 ht0 hr0 hn0)
          simp only [placed, List.mem_flatMap, List.mem_map] at hmem
          obtain ⟨q, hq, e, he, hden⟩ := hmem
          have hk : q.1 = p.1 := by rw [← hs0, ← hden]; rfl
          have hes : q.2 = p.2 := by
            have h1 := get?_of_mem_nodup hnd (k := q.1) (es := q.2) hq
            have h2 := get?_of_mem_nodup hnd (k := p.1) (es := p.2) hp
            rw [hk, h2] at h1; simpa using h1.symm
          rw [hes] at he
          have hrole : (Cfg.denote q.1 e).role = CONCEPT_ROLE := by rw [hden]; exact hr0
          simp only [Cfg.denote] at hrole
          split at hrole
          · rename_i h
            have := (hlabel p hp).2 ⟨e, he, h⟩
            rw [this] at hunl; exact absurd hunl (by simp)
          · exact (hEF p hp e he).1.notInst hrole
        | true =>
          have hmiss : t0.tgt = .none := by
            have h1 := ((nullB_iff t0).1 hn0).2
            cases htg : t0.tgt with
            | none => rfl
            | num _ => rw [htg] at h1; simp [Atom.isMissing] at h1
            | str s' =>
              rw [htg] at h1
              simp only [Atom.isMissing, List.isEmpty_iff] at h1
              subst h1
              exact absurd htg (hg.instNotEmpty t0 ht0 hr0)
          have : (⟨p.1, CONCEPT_ROLE, .none⟩ : Triple) = t0 := by
            cases t0 with
            | mk a b c => simp only [] at hs0 hr0 hmiss; subst hs0 hr0 hmiss; rfl
          rw [this]; exact ⟨ht0, hn0⟩
      · rintro ⟨hx, hxn⟩
        have hnull := (nullB_iff x).1 hxn
        have hmiss : x.tgt = .none := by
          have h1 := hnull.2
          cases htg : x.tgt with
          | none => rfl
          | num _ => rw [htg] at h1; simp [Atom.isMissing] at h1
          | str s' =>
            rw [htg] at h1
            simp only [Atom.isMissing, List.isEmpty_iff] at h1
            subst h1
            exact absurd htg (hg.instNotEmpty x hx hnull.1)
        have hkey := storeOf_ownInst E.store x hx hnull.1
        simp only [ckeys, AList.keys, List.mem_map] at hkey
        obtain ⟨p, hp, hp1⟩ := hkey
        refine ⟨p, ⟨hp, ?_⟩, ?_⟩
        · cases hl : cellLabelled p.2 with
          | false => rfl
          | true =>
            exfalso
            obtain ⟨e, he, hs⟩ := (hlabel p hp).1 hl
            have hy : Cfg.denote p.1 e ∈ placed st.cells := by
              simp only [placed, List.mem_flatMap, List.mem_map]; exact ⟨p, hp, e, he, rfl⟩
            have hyl := E.perm.symm.subset hy
            obtain ⟨t0, ht0, hv⟩ := E.version _ hyl
            have hyr : (Cfg.denote p.1 e).role = CONCEPT_ROLE := by simp [Cfg.denote, hs]
            have hy0 : Cfg.denote p.1 e = t0 := by
              rcases hv with h | ⟨h, _, hr0⟩
              · exact h
              · exfalso
                rw [h, invert_role] at hyr
                exact (hg.noInstOf t0 ht0 hr0).1 hyr
            have h0r : t0.role = CONCEPT_ROLE := by rw [← hy0]; exact hyr
            have h0s : t0.src = x.src := by rw [← hy0, ← hp1]; rfl
            have := hg.nullAlone x hx hxn t0 ht0 h0r h0s
            apply E.notNull _ hyl
            rw [hy0, this]; exact hnull
        · cases x with
          | mk a b c =>
            simp only [] at hp1 hmiss
            have hb := hnull.1
            simp only [] at hb
            subst hp1 hmiss hb; rfl
  refine ⟨T, g', ds, hT, hg', hread, by rw [htop]; exact hvar, fun x => (hv3 x).trans (hvmem x), ?_, ?_, ?_⟩
  · refine (hperm.map (deinvert1 m g)).trans ?_
    rw [List.map_append, List.map_map]
    have e1 : l.map (deinvert1 m g ∘ deinvert1 m g) = l.map (deinvert1 m g) := by
      apply List.map_congr_left
      intro x hx
      exact deinvert1_idem hw (hfacts x (E.perm.subset hx)).1.canon
    rw [e1]
    refine List.perm_append_comm.trans ?_
    refine (List.Perm.append_left _ (hnulls.map _)).trans ?_
    exact E.same.symm
  · intro x hx
    have := hperm.subset hx
    rcases List.mem_append.1 this with hxn | hxl
    · have := hnulls.subset hxn
      exact ⟨x, (List.mem_filter.1 this).1, Or.inl rfl⟩
    · obtain ⟨y, hy, rfl⟩ := List.mem_map.1 hxl
      obtain ⟨t0, ht0, hv⟩ := E.version y hy
      have hc0 := (hg.roles t0 ht0).2.2
      refine ⟨t0, ht0, ?_⟩
      unfold deinvert1
      rcases hv with rfl | ⟨rfl, ⟨b, hb⟩, _⟩
      · split
        · exact Or.inr rfl
        · exact Or.inl rfl
      · split
        · exact Or.inl (C13.invert_invert hw hb hc0)
        · exact Or.inr rfl

  · intro d hd
    rw [hdsD] at hd
    obtain ⟨w, hw', rfl⟩ := List.mem_map.1 hd
    have := hW'.subset hw'
    simp only [List.mem_append, nullsW, flat, List.mem_flatMap, List.mem_map, List.mem_filter] at this
    rcases this with ⟨p, ⟨hp, hunl⟩, rfl⟩ | ⟨p, hp, e, he, rfl⟩
    · rw [(hDnull p.1).2]
      have hmem : (⟨p.1, CONCEPT_ROLE, .none⟩ : Triple) ∈ nullTs := by
        rw [hnT]; exact List.mem_map.2 ⟨p, List.mem_filter.2 ⟨hp, hunl⟩, rfl⟩
      have hin := List.mem_filter.1 (hnulls.subset hmem)
      refine ⟨_, hin.1, (hnullD _ rfl).symm, ?_, ?_, ?_⟩
      · have : ensureColon CONCEPT_ROLE = CONCEPT_ROLE := by decide
        simp [colon, this]
      · cases hra : roleAlnOf g ⟨p.1, CONCEPT_ROLE, .none⟩ with
        | none => rfl
        | some x => exact absurd rfl (hal.roleAln _ hin.1 (by rw [hra]; simp))
      · cases hta : tgtAlnOf g ⟨p.1, CONCEPT_ROLE, .none⟩ with
        | none => rfl
        | some x => exact absurd (hal.tgtAln _ hin.1 (by rw [hta]; simp)) (by simp [AlnTgtOK])
    · obtain ⟨_, t1, ht1, _, hde, hra, hta⟩ := hEF p hp e he
      obtain ⟨_, h1, h2, h3⟩ := hDedge p hp e he
      have hx : Cfg.denote p.1 e ∈ l := E.perm.symm.subset (mem_placed hp he)
      have e1 : readTriple m T.node.vars (Cfg.denote p.1 e) = deinvert1 m g (Cfg.denote p.1 e) := by
        unfold readTriple deinvert1; rw [isVar_eq hvmem]
      refine ⟨t1, ht1, by rw [h1, e1, hde], ?_, by rw [h2, hra], by rw [h3, hta]⟩
      rw [h1, hD _ hx, e1]

end Al
end Cfg
end Penman

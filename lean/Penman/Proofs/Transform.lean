/-
  Penman.Proofs.Transform — proofs about the graph transformations
  (`penman.transform`); the hypotheses live in `Penman.Spec.Transform`. Split into:

  * `Transform.Basic`       : `natToStr` injectivity, pigeonhole, `freshVar`, `attrVarLoop`,
                              association lists, `dedup`, `ensureColon`, `Graph.mk'`.
  * `Transform.Reify`       : totality of `nodeContexts`/`appearsInverted`; `ReifWf`,
                              `Unambiguous`; `reifyEdges` as a `Run` of events.
  * `Transform.Dereify`     : `agendaScan`, `dereifyAgenda`, `dereifyEdges` characterised
                              (`collapseOf`, `derOut`).
  * `Transform.ReifyProps`  : hypotheses on graphs (`EpiKeysNodup`, `PushVars`, `FreshSafe`),
                              the result of `reifyEdges`, static structure of its triples.
  * `Transform.Inverse`, `Transform.InverseMain` : dereify ∘ reify = id on triples and top;
                              the guard of `dereifyEdges`.
  * `Transform.Epidata`     : dereify ∘ reify on the markers.
  * `Transform.Text`        : `configure` congruence (identical tree / text).
  * `Transform.Attr`        : `reifyAttributes`.
  * `Transform.Branches`    : `indicateBranches`.
  * `Transform.Preserve`    : nodes/top/errors preserved by `reifyEdges`/`dereifyEdges`.
  * `Transform.Connected`   : undirected connectivity is preserved.
  * `Transform.Encode`      : the results satisfy C06's hypotheses, hence `configure` succeeds.
  * `Transform.Program`     : every step / program preserves well-formedness, connectivity, top.
-/
import Penman.Proofs.Transform.Basic
import Penman.Proofs.Transform.Reify
import Penman.Proofs.Transform.Dereify
import Penman.Proofs.Transform.ReifyProps
import Penman.Proofs.Transform.Inverse
import Penman.Proofs.Transform.InverseMain
import Penman.Proofs.Transform.Attr
import Penman.Proofs.Transform.Branches
import Penman.Proofs.Transform.Preserve
import Penman.Proofs.Transform.Epidata
import Penman.Proofs.Transform.Text
import Penman.Proofs.Transform.Connected
import Penman.Proofs.Transform.Program
import Penman.Proofs.Transform.Encode

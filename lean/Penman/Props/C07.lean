/-
# C07 — the parser accepts exactly the documented language and fails cleanly
(with the token-level parts of C01 "parse ∘ format" and C19 "triples round trip")

Property text → theorems (all about the token-level parser of `Penman.Parse`;
the lexer is C08's business):

* "parsing one graph, iterating over graphs, and parsing a triple conjunction
  each either return a result or raise the decode error — never another
  exception, never a hang"
  → `parse_total`, `iterparse_total`, `parseTriples_total`; the model's only
  other outcome is running out of fuel (`.other "RecursionError"`, `.other "fuel"`),
  excluded by `parseNode_fuel`, and the fuel is irrelevant above the number of
  tokens: `parseNode_fuel_irrelevant`, `parseTriples_fuel_irrelevant`
  (termination itself: all model functions are structurally recursive).
* "Acceptance, the resulting tree, and on rejection the reported line and
  column … agree with an independent recogniser of that grammar"
  → `parse_eq_spec` (node level, any fuel above the token count),
  `parseTree_eq_spec`, `parseToks_eq_spec` (one graph with comments),
  `iterparse_eq_spec` (iteration). The recogniser is `Spec.Automaton`
  (iterative, explicit stack, one transition per token).
* "accepts exactly the documented language" — besides the automaton, the
  grammar is also given declaratively: a well-formed concrete syntax tree
  (`CNode` / `CEdges` with `CNode.wf`, in `Proofs/ParseRoundTrip.lean`) is
  exactly a derivation of
  `Node := '(' Var ('/' Concept Alignment?)? Edge* ')'`,
  `Edge := Role Alignment? (Atom Alignment? | Node)` with the three extensions
  (`()`, missing concept, missing target — the latter two are automatically
  followed by a ROLE or `)`), `TreeToks t ts` says `ts` is the token list of
  such a derivation with abstract tree `t`.
  → `parse_accepts_iff` (parser ⇔ grammar), `automaton_accepts_iff`
  (automaton ⇔ grammar).
* "the first token at which the documented grammar plus its documented
  robustness extensions fails, or the end of the last token when input runs out"
  → `error_position` (kind 1: the token is in the input, what precedes it is
  a viable prefix of the language, with it it is not), `error_position_eof`
  (kind 0: position = end of the last token, the whole input is a viable
  prefix but contains no complete graph), `error_kinds`.
* C01, token level: `parse_toks` (canonical token list of a `WfTree`),
  `parse_treeToks` (any token list related to the tree by `TreeToks`:
  arbitrary positions, ALIGNMENT tokens split off, SYMBOL or STRING atoms),
  `parseToks_treeToks` (with leading comments, on the top-level function).
* metadata: `parseComments_leading`, `commentMeta_entries` (right to left!),
  `commentMeta_fmtLine`, `metadata_fmtLines`.
* C19, token level: `parseTriples_toks`.

Nothing is left unproved.  The triple conjunction has no separate automaton:
its totality / fuel-irrelevance is proved directly and its accepted language
is characterised from the inside by `parseTriples_toks` (all spacing variants).
-/
import Penman.Spec.Automaton
import Penman.Format
import Penman.Proofs.ParseLemmas
import Penman.Proofs.ParseRoundTrip
import Penman.Proofs.ParseComplete
import Penman.Proofs.ParseMeta
import Penman.Proofs.ParseTriples
namespace Penman.C07
open Penman Penman.Spec.Automaton

/-! ## concrete inputs used in the non-vacuity examples -/

def tk (ty : TokTy) (s : String) (off : Nat) : Tok := ⟨ty, s.toList, 1, off⟩

/-- the tokens of `(a / b :ARG0 (c / d) :mod-of a)` -/
def exToks : List Tok :=
  [tk .LPAREN "(" 0, tk .SYMBOL "a" 1, tk .SLASH "/" 3, tk .SYMBOL "b" 5, tk .ROLE ":ARG0" 7,
   tk .LPAREN "(" 13, tk .SYMBOL "c" 14, tk .SLASH "/" 16, tk .SYMBOL "d" 18, tk .RPAREN ")" 19,
   tk .ROLE ":mod-of" 21, tk .SYMBOL "a" 29, tk .RPAREN ")" 30]

def exNode : Node :=
  .mk (some "a".toList) (.atom "/".toList (.str "b".toList)
    (.sub ":ARG0".toList (.mk (some "c".toList) (.atom "/".toList (.str "d".toList) .nil))
      (.atom ":mod-of".toList (.str "a".toList) .nil)))

/-- the tokens of `(a / b :ARG0 (c / d) / x)` : the second `/` (offset 21) is wrong -/
def badToks : List Tok :=
  [tk .LPAREN "(" 0, tk .SYMBOL "a" 1, tk .SLASH "/" 3, tk .SYMBOL "b" 5, tk .ROLE ":ARG0" 7,
   tk .LPAREN "(" 13, tk .SYMBOL "c" 14, tk .SLASH "/" 16, tk .SYMBOL "d" 18, tk .RPAREN ")" 19,
   tk .SLASH "/" 21, tk .SYMBOL "x" 23, tk .RPAREN ")" 24]

/-- the tokens of `(a / b :ARG0 (c` : input runs out after the `c` at offset 14 -/
def cutToks : List Tok := exToks.take 7

/-- `# ::id 1 ::snt x` then the graph -/
def cmToks : List Tok := ⟨.COMMENT, "# ::id 1 ::snt x".toList, 1, 0⟩ :: exToks.map (fun t => { t with lineno := 2 })

def isSp (c : Char) : Bool := c = ' ' || c = '\t'

/-! ## 1. totality, no other exception, fuel -/

/-- with fuel above the number of tokens `parseNode` never reports anything
    but a tree or a decode error (in particular not the model's
    `.other "RecursionError"` for exhausted fuel) -/
theorem parseNode_fuel (c : PCtx) (f : Nat) (toks : List Tok) (hf : toks.length < f) :
    (∃ x, parseNode c f toks = .ok x) ∨ (∃ l k n, parseNode c f toks = .error (.decode l k n)) := by
  rw [parseNode_eq_loop c f toks hf]; exact toExcept_ok_or_decode c _

/-- fuel irrelevance -/
theorem parseNode_fuel_irrelevant (c : PCtx) (f g : Nat) (toks : List Tok)
    (hf : toks.length < f) (hg : toks.length < g) : parseNode c f toks = parseNode c g toks := by
  rw [parseNode_eq_loop c f toks hf, parseNode_eq_loop c g toks hg]

example : exToks.length < 14 ∧ exToks.length < 100 := by decide

/-- `parse` : a tree or the decode error -/
theorem parse_total (isSpace : Char → Bool) (toks : List Tok) :
    (∃ t, parseToks isSpace toks = .ok t) ∨ (∃ l k n, parseToks isSpace toks = .error (.decode l k n)) := by
  rw [parseToks_eq, report_eq_toExcept]
  rcases toExcept_ok_or_decode ⟨eofPos toks⟩ (run true toks) with ⟨x, h⟩ | ⟨l, k, n, h⟩
  · exact .inl ⟨_, by rw [h]; rfl⟩
  · exact .inr ⟨l, k, n, by rw [h]; rfl⟩

/-- `iterparse` : the generator ends normally or raises the decode error
    (never the model's `.other "fuel"`) -/
theorem iterparse_total (isSpace : Char → Bool) (toks : List Tok) :
    (iterparseToks isSpace toks).2 = none ∨ ∃ l k n, (iterparseToks isSpace toks).2 = some (.decode l k n) := by
  rw [iterparseToks_eq]
  cases (runAll toks).2 with
  | ended => exact .inl rfl
  | rejectAt t => exact .inr ⟨_, _, _, rfl⟩
  | exhausted => exact .inr ⟨_, _, _, rfl⟩

/-- `parse_triples` : a list of triples or the decode error -/
theorem parseTriples_total (toks : List Tok) :
    (∃ r, parseTriplesToks toks = .ok r) ∨ (∃ l k n, parseTriplesToks toks = .error (.decode l k n)) :=
  parseTriplesLoop_total _ _ _ _ _ (Nat.lt_succ_self _)

theorem parseTriples_fuel_irrelevant (c : PCtx) (f g : Nat) (strip : Bool) (toks : List Tok) (acc : List Triple)
    (hf : toks.length < f) (hg : toks.length < g) :
    parseTriplesLoop c f strip toks acc = parseTriplesLoop c g strip toks acc :=
  parseTriplesLoop_fuel c f g strip toks acc hf hg

/-! ## 2. agreement with the independent recogniser -/

/-- **`parseNode` is the automaton** : same tree and remainder, or the same
    error position (`all` is the whole input, for the end-of-input position) -/
theorem parse_eq_spec (all toks : List Tok) :
    parseNode ⟨eofPos all⟩ (toks.length + 1) toks = (run false toks).report all := by
  rw [parseNode_eq_loop _ _ _ (Nat.lt_succ_self _), report_eq_toExcept]

example : parseNode ⟨eofPos exToks⟩ (exToks.length + 1) exToks = .ok (exNode, []) := rfl
example : run false exToks = .accept exNode [] := rfl
example : (run false badToks).report badToks = .error (.decode 1 21 1) := rfl
example : (run false cutToks).report cutToks = .error (.decode 1 15 0) := rfl

/-- `_parse` (comments, then a node) against the automaton started with
    comments allowed; the metadata is what `commentMeta` decodes from the
    leading COMMENT tokens (characterised in section 5) -/
theorem parseTree_eq_spec (all : List Tok) (isSpace : Char → Bool) (toks : List Tok) :
    parseTree ⟨eofPos all⟩ isSpace toks =
      ((run true toks).report all).map (fun x => (⟨x.1, metaOf isSpace toks []⟩, x.2)) := by
  rw [parseTree_eq, report_eq_toExcept]

/-- `parse` -/
theorem parseToks_eq_spec (isSpace : Char → Bool) (toks : List Tok) :
    parseToks isSpace toks = ((run true toks).report toks).map (fun x => ⟨x.1, metaOf isSpace toks []⟩) :=
  parseToks_eq isSpace toks

example : (parseToks isSp cmToks).map (·.metadata) = .ok [("snt".toList, "x".toList), ("id".toList, "1".toList)] := rfl

/-- `iterparse` : the trees yielded are those of `runAll`, and the error (if
    any) is the one reported for the reason `runAll` stopped -/
theorem iterparse_eq_spec (isSpace : Char → Bool) (toks : List Tok) :
    iterparseToks isSpace toks = ((runAll toks).1.map (mkTree isSpace), (runAll toks).2.error? toks) :=
  iterparseToks_eq isSpace toks

example : (iterparseToks isSp (exToks ++ badToks)).1.map (·.node.var) = [some ['a']]
    ∧ (iterparseToks isSp (exToks ++ badToks)).2 = some (.decode 1 21 1) := ⟨rfl, rfl⟩

/-- **the parser accepts exactly the sentences of the documented grammar**
    (with the robustness extensions), and returns the tree of the derivation -/
theorem parse_accepts_iff (c : PCtx) (f : Nat) (toks : List Tok) (hf : toks.length < f) (t : Node)
    (rest : List Tok) :
    parseNode c f toks = .ok (t, rest) ↔ ∃ ts, TreeToks t ts ∧ toks = ts ++ rest :=
  parseNode_ok_iff c f toks hf t rest

/-- … and so does the automaton -/
theorem automaton_accepts_iff (toks : List Tok) (t : Node) (rest : List Tok) :
    run false toks = .accept t rest ↔ ∃ ts, TreeToks t ts ∧ toks = ts ++ rest := by
  rw [← parseNode_ok_iff ⟨(0, 0)⟩ (toks.length + 1) toks (Nat.lt_succ_self _) t rest,
    parseNode_eq_loop _ _ _ (Nat.lt_succ_self _)]
  cases run false toks <;> simp [Outcome.toExcept]

/-! ## 3. the position of an error -/

/-- only the two kinds of decode error occur -/
theorem error_kinds (isSpace : Char → Bool) (toks : List Tok) (l k n : Nat)
    (h : parseToks isSpace toks = .error (.decode l k n)) : n = 0 ∨ n = 1 := by
  rw [parseToks_eq] at h
  cases hr : run true toks with
  | accept nd rest => simp [hr, Outcome.report, Except.map] at h
  | rejectAt t => simp [hr, Outcome.report, Except.map] at h; exact .inr h.2.2.symm
  | exhausted => simp [hr, Outcome.report, Except.map] at h; exact .inl h.2.2.symm

/-- **error position, kind 1** : the reported `(l, k)` is the position of a
    token `t` of the input such that the tokens before `t` are a viable prefix
    of the language (they can be completed to an accepted input) and adding
    `t` makes them non-viable: `t` is the first token at which the grammar
    (with its robustness extensions) fails -/
theorem error_position (isSpace : Char → Bool) (toks : List Tok) (l k : Nat)
    (h : parseToks isSpace toks = .error (.decode l k 1)) :
    ∃ pre t post, toks = pre ++ t :: post ∧ l = t.lineno ∧ k = t.offset ∧
      run true toks = .rejectAt t ∧ Viable true pre ∧ ¬ Viable true (pre ++ [t]) := by
  rw [parseToks_eq] at h
  cases hr : run true toks with
  | accept nd rest => simp [hr, Outcome.report, Except.map] at h
  | exhausted => simp [hr, Outcome.report, Except.map] at h
  | rejectAt t =>
    simp [hr, Outcome.report, Except.map] at h
    obtain ⟨pre, post, e, v, nv⟩ := run_rejectAt true toks t hr
    exact ⟨pre, t, post, e, h.1.symm, h.2.symm, rfl, v, nv⟩

example : parseToks isSp badToks = .error (.decode 1 21 1) := rfl

/-- **error position, kind 0** : the position is the end of the last token;
    the whole input is a viable prefix, and no graph is complete -/
theorem error_position_eof (isSpace : Char → Bool) (toks : List Tok) (l k : Nat)
    (h : parseToks isSpace toks = .error (.decode l k 0)) :
    (l, k) = eofPos toks ∧ run true toks = .exhausted ∧ Viable true toks ∧ ¬ Accepts true toks := by
  rw [parseToks_eq] at h
  cases hr : run true toks with
  | accept nd rest => simp [hr, Outcome.report, Except.map] at h
  | rejectAt t => simp [hr, Outcome.report, Except.map] at h
  | exhausted =>
    simp [hr, Outcome.report, Except.map, endPos_eq_eofPos] at h
    refine ⟨by rw [← h.1, ← h.2], rfl, run_exhausted true toks hr, ?_⟩
    rintro ⟨n, rest, ha⟩; rw [hr] at ha; cases ha

example : parseToks isSp cutToks = .error (.decode 1 15 0) := rfl

/-- the same for a node (no comments), any context, enough fuel -/
theorem error_position_node (c : PCtx) (f : Nat) (toks : List Tok) (hf : toks.length < f) (l k : Nat)
    (h : parseNode c f toks = .error (.decode l k 1)) :
    ∃ pre t post, toks = pre ++ t :: post ∧ l = t.lineno ∧ k = t.offset ∧
      Viable false pre ∧ ¬ Viable false (pre ++ [t]) := by
  rw [parseNode_eq_loop c f toks hf] at h
  cases hr : run false toks with
  | accept nd rest => simp [hr, Outcome.toExcept] at h
  | exhausted => simp [hr, Outcome.toExcept, PCtx.eofErr] at h
  | rejectAt t =>
    simp [hr, Outcome.toExcept, tokErr] at h
    obtain ⟨pre, post, e, v, nv⟩ := run_rejectAt false toks t hr
    exact ⟨pre, t, post, e, h.1.symm, h.2.symm, v, nv⟩

example : parseNode ⟨(9, 9)⟩ 20 badToks = .error (.decode 1 21 1) := rfl

/-! ## 4. token-level round trip (C01) -/

/-- **parsing the token list of a tree gives back the tree** — for every
    `rest` (the closing parenthesis delimits the node) and every fuel ≥ the
    size of the tree. `sh` fixes how role / atom texts are cut into
    ROLE / SYMBOL / STRING + ALIGNMENT tokens. -/
theorem parse_toks (c : PCtx) (sh : TokShape) (t : Node) (rest : List Tok) (f : Nat)
    (h : t.WfTree sh = true) (hf : t.size ≤ f) :
    parseNode c f (t.toks sh ++ rest) = .ok (t, rest) :=
  Penman.parse_toks c sh t rest f h hf

example : exNode.WfTree .plain = true ∧ exNode.size ≤ 14 := by decide

/-- a shape that cuts `~…` suffixes off: `b~1` is the SYMBOL `b` and the ALIGNMENT `~1` -/
def tildeShape : TokShape :=
  ⟨fun s => match (partitionStr ['~'] s) with
            | (core, true, a) => (core, some ('~' :: a))
            | (core, false, _) => (core, none),
   fun s => startsWith ['"'] s⟩

def alnNode : Node :=
  .mk (some ['a']) (.atom ['/'] (.str "b~1".toList) (.atom ":x~e.2".toList (.str "\"s\"~3".toList)
    (.atom ":y".toList .none (.sub ":z".toList (.mk none .nil) .nil))))

example : alnNode.WfTree tildeShape = true := by decide
example : (alnNode.toks tildeShape).map (fun t => (t.ty, String.ofList t.text)) =
    [(.LPAREN, "("), (.SYMBOL, "a"), (.SLASH, "/"), (.SYMBOL, "b"), (.ALIGNMENT, "~1"),
     (.ROLE, ":x"), (.ALIGNMENT, "~e.2"), (.STRING, "\"s\""), (.ALIGNMENT, "~3"),
     (.ROLE, ":y"), (.ROLE, ":z"), (.LPAREN, "("), (.RPAREN, ")"), (.RPAREN, ")")] := by decide

example : (Branches.atom ":x".toList (.str "y~1".toList) .nil).WfTree tildeShape = true := by decide

/-- the same for any token list related to the tree (`TreeToks` : arbitrary
    positions and texts, built by the rules `TreeToks.node`, `.node_slash`,
    `.node_concept`, `.empty`, `EdgesToks.atom_str`, `.atom_none`, `.sub`, …) -/
theorem parse_treeToks (c : PCtx) (t : Node) (ts rest : List Tok) (f : Nat) (h : TreeToks t ts)
    (hf : t.size ≤ f) : parseNode c f (ts ++ rest) = .ok (t, rest) :=
  parseNode_treeToks c t ts rest f h hf

/-- edge lists: the next token must be the closing `)` (which `parseEdges` consumes) -/
theorem parseEdges_toks (c : PCtx) (sh : TokShape) (bs : Branches) (rp : Tok) (rest : List Tok) (f : Nat)
    (h : bs.WfTree sh = true) (hrp : rp.ty = .RPAREN) (hf : bs.size ≤ f) :
    parseEdges c f (bs.toks sh ++ rp :: rest) = .ok (bs, rest) :=
  Penman.parseEdges_toks c sh bs rp rest f h hrp hf

/-- on the top-level function, with leading comments: the fuel `parse` uses suffices -/
theorem parseToks_treeToks (isSpace : Char → Bool) (cs : List Tok) (t : Node) (ts rest : List Tok)
    (hcs : ∀ x ∈ cs, x.ty = .COMMENT) (h : TreeToks t ts) :
    parseToks isSpace (cs ++ (ts ++ rest)) =
      .ok ⟨t, cs.foldl (fun md x => commentMeta isSpace (x.text.length + 1) x.text md) []⟩ := by
  obtain ⟨k, hw, rfl, rfl⟩ := h
  obtain ⟨m, ms, e, hm⟩ := k.head rest hw
  have hm' : m.ty ≠ .COMMENT := by simp [hm]
  simp only [parseToks, parseTree, parseComments_eq, e]
  rw [(leadingComments_append cs m ms hcs hm').2, metaOf_append isSpace cs m ms hcs hm']
  simp only [reduceCtorEq, if_false, bind, Except.bind]
  rw [← e, parseNode_cst_top _ k rest hw]
  rfl

/-- the token list `exToks` (with its real positions) is related to `exNode` -/
theorem exToks_treeToks : TreeToks exNode exToks :=
  ⟨.mk (tk .LPAREN "(" 0) (tk .SYMBOL "a" 1) (some (tk .SLASH "/" 3, some ⟨tk .SYMBOL "b" 5, none⟩))
    (.sub ⟨tk .ROLE ":ARG0" 7, none⟩
      (.mk (tk .LPAREN "(" 13) (tk .SYMBOL "c" 14) (some (tk .SLASH "/" 16, some ⟨tk .SYMBOL "d" 18, none⟩)) .nil
        (tk .RPAREN ")" 19))
      (.atom ⟨tk .ROLE ":mod-of" 21, none⟩ (some ⟨tk .SYMBOL "a" 29, none⟩) .nil)) (tk .RPAREN ")" 30),
    by decide, rfl, rfl⟩

example : parseToks isSp ([⟨.COMMENT, "# ::id 1".toList, 1, 0⟩] ++ (exToks ++ badToks))
    = .ok ⟨exNode, [("id".toList, "1".toList)]⟩ :=
  parseToks_treeToks isSp _ exNode exToks badToks (by decide) exToks_treeToks

example : run false (exToks ++ badToks) = .accept exNode badToks :=
  (automaton_accepts_iff _ _ _).2 ⟨exToks, exToks_treeToks, rfl⟩

example : parseNode ⟨(0, 0)⟩ 50 (exToks ++ badToks) = .ok (exNode, badToks) :=
  parse_treeToks _ exNode exToks badToks 50 exToks_treeToks (by decide)

/-! ## 5. metadata comments -/

/-- `_parse_comments` consumes exactly the leading COMMENT tokens, folding
    `commentMeta` over them; it fails (end of input) iff nothing follows -/
theorem parseComments_leading (c : PCtx) (isSpace : Char → Bool) (toks : List Tok) (md : AList Str Str) :
    parseComments c isSpace toks md =
      if afterComments toks = [] then .error c.eofErr
      else .ok ((leadingComments toks).foldl
                  (fun md t => commentMeta isSpace (t.text.length + 1) t.text md) md,
                afterComments toks) :=
  parseComments_eq c isSpace toks md

/-- **one comment** `pre ::k1 v1 ::k2 v2 … ::kn vn` (`pre` without `::`; keys
    without blank; no `::` inside an entry or across its left boundary):
    the entries are stored from RIGHT TO LEFT, `kn` first, with Python `dict`
    semantics (`AList.set` : an existing key keeps its position and gets the
    new value, a new key is appended).  So new keys of one line appear in
    reverse order, and of two equal keys on one line the LEFT one wins. -/
theorem commentMeta_entries (isSpace : Char → Bool) (pre : Str) (es : List MetaEntry) (md : AList Str Str)
    (hpre : hasSep pre = false) (hes : ∀ e ∈ es, e.ok = true) :
    commentMeta isSpace ((metaLine pre es).length + 1) (metaLine pre es) md
      = es.foldr (fun e md => md.set e.1 (e.value isSpace)) md :=
  commentMeta_metaLine isSpace pre es _ md hpre hes (by have := metaLine_length pre es; omega)

example : metaLine "# ".toList [("id".toList, some "1 ".toList), ("snt".toList, some "x".toList)]
    = "# ::id 1 ::snt x".toList := by decide
example : ∀ e ∈ [("id".toList, some "1 ".toList), ("snt".toList, some "x".toList)], MetaEntry.ok e = true := by
  decide
example : commentMeta isSp 17 "# ::id 1 ::snt x".toList [] = [("snt".toList, "x".toList), ("id".toList, "1".toList)] :=
  rfl

/-- **round trip of the line `format` writes for one key** :
    `# ::key value` ↦ `(key, value.rstrip())`, `# ::key` ↦ `(key, '')` -/
theorem commentMeta_fmtLine (isSpace : Char → Bool) (kv : Str × Str) (md : AList Str Str)
    (hok : (fmtEntry kv).ok = true) :
    let line := "# ::".toList ++ kv.1 ++ (if kv.2.isEmpty then kv.2 else ' ' :: kv.2)
    commentMeta isSpace (line.length + 1) line md = md.set kv.1 (rstripBy isSpace kv.2) :=
  Penman.commentMeta_fmtLine isSpace kv md _ hok (by omega)

example : (fmtEntry ("snt".toList, "the boy: he sleeps".toList)).ok = true := by decide

/-- a dictionary written one `# ::key value` line per key (distinct keys,
    well-formed entries, values equal to their own `rstrip`) is read back
    unchanged, in order -/
theorem metadata_fmtLines (isSpace : Char → Bool) (md : AList Str Str) (cs : List Tok)
    (hcs : cs.map (·.text) = formatMeta md)
    (hnd : (md.map (·.1)).Pairwise (· ≠ ·))
    (hok : ∀ kv ∈ md, (fmtEntry kv).ok = true ∧ rstripBy isSpace kv.2 = kv.2) :
    cs.foldl (fun d x => commentMeta isSpace (x.text.length + 1) x.text d) [] = md := by
  have h1 : cs.foldl (fun d x => commentMeta isSpace (x.text.length + 1) x.text d) []
      = (cs.map (·.text)).foldl (fun d s => commentMeta isSpace (s.length + 1) s d) [] := by
    rw [List.foldl_map]
  rw [h1, hcs, formatMeta, List.foldl_map]
  have := foldl_fmtLines isSpace md [] (by simpa using hnd) hok
  simpa using this

example : let md : AList Str Str := [("id".toList, "7".toList), ("snt".toList, "a: b".toList), ("e".toList, [])]
    (md.map (·.1)).Pairwise (· ≠ ·) ∧ (∀ kv ∈ md, (fmtEntry kv).ok = true ∧ rstripBy isSp kv.2 = kv.2)
    ∧ formatMeta md = ["# ::id 7".toList, "# ::snt a: b".toList, "# ::e".toList] := by decide

/-! ## 6. triple conjunctions (C19) -/

/-- **the tokens of `role(src, tgt) ^ role(…`, in any mix of the spacing
    variants** (`a,b` / `a,`+`b` / `a`+`,`+`b` / `a`+`,b` / no target;
    `^` alone or glued to the next role) **parse to the triple list**, roles
    with a leading colon; whatever follows is ignored if it does not start
    with a `^` SYMBOL -/
theorem parseTriples_toks {trs : List Triple} {ts : List Tok} (h : ConjToks false trs ts)
    (rest : List Tok) (hst : StopsAt rest) : parseTriplesToks (ts ++ rest) = .ok trs :=
  parseTriplesToks_conj h rest hst

/-- the tokens of `instance(a, b) ^ ARG0(a , c)` -/
def trToks : List Tok :=
  [tk .SYMBOL "instance" 0, tk .LPAREN "(" 8, tk .SYMBOL "a," 9, tk .SYMBOL "b" 12, tk .RPAREN ")" 13,
   tk .SYMBOL "^" 15, tk .SYMBOL "ARG0" 17, tk .LPAREN "(" 21, tk .SYMBOL "a" 22, tk .SYMBOL "," 24,
   tk .SYMBOL "c" 26, tk .RPAREN ")" 27]

def trTriples : List Triple :=
  [⟨"a".toList, ":instance".toList, .str "b".toList⟩, ⟨"a".toList, ":ARG0".toList, .str "c".toList⟩]

example : ConjToks false trTriples trToks := by
  refine ConjToks.sep false _ [tk .SYMBOL "instance" 0, tk .LPAREN "(" 8, tk .SYMBOL "a," 9, tk .SYMBOL "b" 12,
    tk .RPAREN ")" 13] (tk .SYMBOL "^" 15) _ _ ?_ rfl rfl (ConjToks.last false _ _ ?_)
  · exact ⟨"instance".toList, _, _, _, [tk .SYMBOL "a," 9, tk .SYMBOL "b" 12], HeadTok.plain (tk .SYMBOL "instance" 0) rfl, rfl, rfl,
      ArgToks.commaLeft _ (tk .SYMBOL "b" 12) rfl rfl rfl, by decide, rfl, rfl⟩
  · exact ⟨"ARG0".toList, _, _, _, [tk .SYMBOL "a" 22, tk .SYMBOL "," 24, tk .SYMBOL "c" 26], HeadTok.plain (tk .SYMBOL "ARG0" 17) rfl, rfl, rfl,
      ArgToks.spaced _ _ (tk .SYMBOL "c" 26) rfl rfl rfl rfl rfl, by decide, rfl, rfl⟩

example : parseTriplesToks trToks = .ok trTriples := rfl

/-- `instance(a,b) ^ARG0(a ,c)` : glued variants -/
example : ConjToks false trTriples
    [tk .SYMBOL "instance" 0, tk .LPAREN "(" 8, tk .SYMBOL "a,b" 9, tk .RPAREN ")" 12,
     tk .SYMBOL "^ARG0" 14, tk .LPAREN "(" 19, tk .SYMBOL "a" 20, tk .SYMBOL ",c" 22, tk .RPAREN ")" 24] := by
  refine ConjToks.glue false _ [tk .SYMBOL "instance" 0, tk .LPAREN "(" 8, tk .SYMBOL "a,b" 9, tk .RPAREN ")" 12]
    _ _ ?_ (ConjToks.last true _ _ ?_)
  · exact ⟨"instance".toList, _, _, _, [tk .SYMBOL "a,b" 9], HeadTok.plain (tk .SYMBOL "instance" 0) rfl, rfl, rfl,
      ArgToks.glued _ "b".toList rfl rfl (by decide), by decide, rfl, rfl⟩
  · exact ⟨"ARG0".toList, _, _, _, [tk .SYMBOL "a" 20, tk .SYMBOL ",c" 22],
      HeadTok.caret (tk .SYMBOL "^ARG0" 14) _ rfl rfl (by decide), rfl, rfl,
      ArgToks.commaRight _ _ "c".toList rfl rfl rfl rfl (by decide), by decide, rfl, rfl⟩

end Penman.C07

/-
  Penman.Proofs.DumpsLoads — helper lemmas for C09 at the level of graphs (`Props/C09g.lean`):
  * `parseTree_treeToks`: `parseToks_treeToks` (C07) on `_parse` itself, exposing the remainder;
  * `format_lex_num`, `format_parses_completely`: the tokens of a formatted tree (numbers allowed)
    are comments + a token list of its written form, and they parse completely (nothing left over);
  * `format_getLast`: a formatted text ends in `)`; `format_closedLast`: it ends in a closed line;
  * `encode_parses_completely_aux`: the same for `encode`;
  * `loadToks_of_iterparse`, `encodeAll_spec`: gluing.
-/
import Penman.Spec.DumpsLoads
import Penman.Proofs.FramingInline
namespace Penman.C09g
open Penman Penman.Spec Penman.Cfg Penman.C03Text Penman.Framing Penman.FL Penman.Lex

/-! ### `_parse` on comments followed by a token list of a tree -/

/-- `C07.parseToks_treeToks` for `parseTree`: the remainder is exactly what follows the closing
    parenthesis, under every error context -/
theorem parseTree_treeToks (c : PCtx) (isSpace : Char → Bool) (cs : List Tok) (t : Node)
    (ts rest : List Tok) (hcs : ∀ x ∈ cs, x.ty = .COMMENT) (h : TreeToks t ts) :
    parseTree c isSpace (cs ++ (ts ++ rest)) =
      .ok (⟨t, cs.foldl (fun md x => commentMeta isSpace (x.text.length + 1) x.text md) []⟩, rest) := by
  obtain ⟨k, hw, rfl, rfl⟩ := h
  obtain ⟨m, ms, e, hm⟩ := k.head rest hw
  have hm' : m.ty ≠ .COMMENT := by simp [hm]
  simp only [parseTree, parseComments_eq, e]
  rw [(leadingComments_append cs m ms hcs hm').2, metaOf_append isSpace cs m ms hcs hm']
  simp only [reduceCtorEq, if_false, bind, Except.bind]
  rw [← e, parseNode_cst_top _ k rest hw]
  rfl

/-! ### the tokens of a formatted tree with numbers -/

variable {cfg : LexCfg}

/-- `C01.format_lex` for trees with numbers: the tokens of the text are one COMMENT per metadata
    line followed by a token list of the WRITTEN FORM of the tree -/
theorem format_lex_num (hw : FmtCfgWf cfg = true) (n : Node) (md : AList Str Str)
    (ht : WfTreeText cfg (writtenForm n)) (hmd : ∀ kv ∈ md, Spec.NoBreak kv.1 ∧ Spec.NoBreak kv.2)
    (i : Indent) (c : Bool) :
    ∃ cs ts, lexStr cfg cfg.penmanOrder (format ⟨n, md⟩ i c) = cs ++ ts ∧
      (∀ x ∈ cs, x.ty = .COMMENT) ∧ cs.map (·.text) = formatMeta md ∧ TreeToks (writtenForm n) ts := by
  have hwp := FmtCfgWf.toP hw
  obtain ⟨k, hk, hkt⟩ := wfNode_cst hwp.base (writtenForm n) ht
  have h := format_lexC_num hwp k hk n hkt.symm md hmd i c
  simp only [lexP, lexC, List.map_eq_append_iff] at h
  obtain ⟨cs, ts, e, h1, h2⟩ := h
  refine ⟨cs, ts, e, ?_, ?_, hkt ▸ treeToks_of_core hk.1 h2⟩
  · intro x hx
    have := congrArg (List.map Prod.fst) h1
    simp only [List.map_map] at this
    have h3 : ∀ y ∈ cs.map (Prod.fst ∘ core), y = TokTy.COMMENT := by
      rw [this]; intro y hy; simp at hy; exact hy.2.symm
    exact h3 _ (List.mem_map.2 ⟨x, hx, rfl⟩)
  · have := congrArg (List.map Prod.snd) h1
    simpa [List.map_map, Function.comp_def, core] using this

/-- **the text of a tree parses completely**: `_parse` on its tokens returns the written form of the
    tree with the same metadata and leaves NOTHING over -/
theorem format_parses_completely (hw : FmtCfgWf cfg = true) (isSpace : Char → Bool) (n : Node)
    (md : AList Str Str) (ht : WfTreeText cfg (writtenForm n)) (hmd : WfMeta isSpace md)
    (i : Indent) (c : Bool) (ctx : PCtx) :
    parseTree ctx isSpace (lexStr cfg cfg.penmanOrder (format ⟨n, md⟩ i c)) =
      .ok (⟨writtenForm n, md⟩, []) := by
  obtain ⟨cs, ts, e, hcs, htx, htt⟩ := format_lex_num hw n md ht (C01.wfMeta_noBreak hmd) i c
  have hp := parseTree_treeToks ctx isSpace cs (writtenForm n) ts [] hcs htt
  rw [List.append_nil] at hp
  rw [e, hp]
  have hmd' := (C01.wfMeta_iff isSpace md).1 hmd
  rw [C07.metadata_fmtLines isSpace md cs htx hmd'.1 (fun kv hkv => by
    obtain ⟨a, b, c', d, e', -, -⟩ := hmd'.2 kv hkv
    rw [hasColons_eq] at c' d
    exact ⟨(entry_ok_iff kv.1 kv.2).2 ⟨a, b, c', d⟩, e'⟩)]

/-! ### a formatted text ends in `)` -/

theorem formatNode_getLast (indent : Indent) (vars : List Str) (n : Node) (col : Int) :
    ∃ pre, formatNode indent vars n col = pre ++ [')'] := by
  cases n with
  | mk v bs =>
    cases v with
    | none => exact ⟨['('], by simp [formatNode]⟩
    | some v =>
      cases bs with
      | nil =>
        by_cases hv : v.isEmpty = true
        · exact ⟨['('], by simp [formatNode, hv]⟩
        · exact ⟨'(' :: v, by simp [formatNode, hv]⟩
      | atom r a rest =>
        by_cases hv : v.isEmpty = true
        · exact ⟨['('], by simp [formatNode, hv]⟩
        · exact ⟨_, by simp only [formatNode, hv]; rfl⟩
      | sub r k rest =>
        by_cases hv : v.isEmpty = true
        · exact ⟨['('], by simp [formatNode, hv]⟩
        · exact ⟨_, by simp only [formatNode, hv]; rfl⟩

theorem joinStr_concat (sep : Str) (l : List Str) (x : Str) : ∃ pre, joinStr sep (l ++ [x]) = pre ++ x := by
  induction l with
  | nil => exact ⟨[], rfl⟩
  | cons y l ih =>
    obtain ⟨pre, hpre⟩ := ih
    cases hl : l ++ [x] with
    | nil => simp at hl
    | cons z r =>
      rw [hl] at hpre
      exact ⟨y ++ sep ++ pre, by simp [joinStr, hl, hpre]⟩

/-- every formatted text ends in `)` -/
theorem format_getLast (T : Tree) (i : Indent) (c : Bool) : (format T i c).getLast? = some ')' := by
  unfold format
  obtain ⟨pre, h⟩ := joinStr_concat ['\n'] (formatMeta T.metadata)
    (formatNode i (if c = true then T.node.vars else []) T.node 0)
  obtain ⟨pre', h'⟩ := formatNode_getLast i (if c = true then T.node.vars else []) T.node 0
  simp only [] at h ⊢
  rw [h, h', ← List.append_assoc]
  simp

theorem getLast_ne_cr {s : Str} (h : s.getLast? = some ')') : s.getLast? ≠ some '\r' := by
  rw [h]; decide

/-! ### the last line of a text that ends in a character other than LF / CR -/

theorem splitLines_getLast (c : Char) (h1 : c ≠ '\n') (h2 : c ≠ '\r') :
    ∀ s : Str, s.getLast? = some c → ∃ ia la, splitLines s = ia ++ [la ++ [c]] := by
  intro s
  induction s using split_cases with
  | nil => intro h; simp at h
  | crlf r ih =>
    intro h
    have hr : r.getLast? = some c := by
      cases r with
      | nil => simp at h; exact absurd h.symm h1
      | cons d ds => simpa [List.getLast?_cons_cons] using h
    obtain ⟨ia, la, e⟩ := ih hr
    exact ⟨[] :: ia, la, by rw [splitLines_crlf, e]; rfl⟩
  | cr r hh ih =>
    intro h
    have hr : r.getLast? = some c := by
      cases r with
      | nil => simp at h; exact absurd h.symm h2
      | cons d ds => simpa [List.getLast?_cons_cons] using h
    obtain ⟨ia, la, e⟩ := ih hr
    exact ⟨[] :: ia, la, by rw [splitLines_cr r hh, e]; rfl⟩
  | lf r ih =>
    intro h
    have hr : r.getLast? = some c := by
      cases r with
      | nil => simp at h; exact absurd h.symm h1
      | cons d ds => simpa [List.getLast?_cons_cons] using h
    obtain ⟨ia, la, e⟩ := ih hr
    exact ⟨[] :: ia, la, by rw [splitLines_lf, e]; rfl⟩
  | other d r hd1 hd2 ih =>
    intro h
    cases r with
    | nil =>
      simp at h; subst h
      exact ⟨[], [], by rw [splitLines_other d [] [] [] hd1 hd2 splitLines_nil]; rfl⟩
    | cons d' ds =>
      have hr : (d' :: ds).getLast? = some c := by simpa [List.getLast?_cons_cons] using h
      obtain ⟨ia, la, e⟩ := ih hr
      cases ia with
      | nil =>
        exact ⟨[], d :: la, by rw [splitLines_other d _ _ [] hd1 hd2 e]; rfl⟩
      | cons l ia' =>
        exact ⟨(d :: l) :: ia', la, by rw [splitLines_other d _ l (ia' ++ [la ++ [c]]) hd1 hd2 e]; rfl⟩

/-! ### the token types of a token list of a tree -/

/-- the token types of the grammar -/
def gramTy (ty : TokTy) : Bool :=
  ty = .LPAREN || ty = .RPAREN || ty = .SYMBOL || ty = .STRING || ty = .SLASH || ty = .ROLE || ty = .ALIGNMENT

theorem ttext_gram (x : TText) (h1 : gramTy x.tok.ty = true) (h2 : x.wfAln = true) :
    ∀ t ∈ x.toks, gramTy t.ty = true := by
  intro t ht
  unfold TText.toks at ht
  unfold TText.wfAln at h2
  cases ha : x.aln with
  | none => rw [ha] at ht; simp at ht; subst ht; exact h1
  | some a =>
    rw [ha] at ht h2
    simp at ht h2
    rcases ht with rfl | rfl
    · exact h1
    · simp [gramTy, h2]

theorem isSymOrStr_gram {t : Tok} (h : isSymOrStr t = true) : gramTy t.ty = true := by
  simp only [isSymOrStr, Bool.or_eq_true, decide_eq_true_eq] at h
  rcases h with h | h <;> simp [gramTy, h]

mutual
theorem cnode_gram : (k : CNode) → k.wf = true → ∀ t ∈ k.toks, gramTy t.ty = true
  | .empty lp rp, h, t, ht => by
    simp only [CNode.wf, Bool.and_eq_true, decide_eq_true_eq] at h
    simp only [CNode.toks, List.mem_cons, List.mem_nil_iff, or_false] at ht
    rcases ht with rfl | rfl <;> simp [gramTy, h.1, h.2]
  | .mk lp var sl es rp, h, t, ht => by
    simp only [CNode.wf, Bool.and_eq_true, decide_eq_true_eq] at h
    obtain ⟨⟨⟨⟨h1, h2⟩, h3⟩, h4⟩, h5⟩ := h
    simp only [CNode.toks, List.mem_cons, List.mem_append, List.mem_nil_iff, or_false] at ht
    rcases ht with rfl | rfl | ht | ht | rfl
    · simp [gramTy, h1]
    · simp [gramTy, h2]
    · match sl, h3, ht with
      | none, _, ht => simp [slashToks] at ht
      | some (s, none), h3, ht =>
        simp [slashToks] at ht; simp [slashWf] at h3; subst ht; simp [gramTy, h3]
      | some (s, some x), h3, ht =>
        simp only [slashWf, Bool.and_eq_true, decide_eq_true_eq] at h3
        simp only [slashToks, List.mem_cons] at ht
        rcases ht with rfl | ht
        · simp [gramTy, h3.1.1]
        · exact ttext_gram x (isSymOrStr_gram h3.1.2) h3.2 t ht
    · exact cedges_gram es h4 t ht
    · simp [gramTy, h5]
theorem cedges_gram : (es : CEdges) → es.wf = true → ∀ t ∈ es.toks, gramTy t.ty = true
  | .nil, _, t, ht => by simp [CEdges.toks] at ht
  | .atom r none rest, h, t, ht => by
    simp only [CEdges.wf, Bool.and_eq_true, decide_eq_true_eq] at h
    simp only [CEdges.toks, List.mem_append] at ht
    rcases ht with ht | ht
    · exact ttext_gram r (by simp [gramTy, h.1.1]) h.1.2 t ht
    · exact cedges_gram rest h.2 t ht
  | .atom r (some a) rest, h, t, ht => by
    simp only [CEdges.wf, Bool.and_eq_true, decide_eq_true_eq] at h
    obtain ⟨⟨⟨⟨h1, h2⟩, h3⟩, h4⟩, h5⟩ := h
    simp only [CEdges.toks, List.mem_append] at ht
    rcases ht with ht | ht | ht
    · exact ttext_gram r (by simp [gramTy, h1]) h2 t ht
    · exact ttext_gram a (isSymOrStr_gram h3) h4 t ht
    · exact cedges_gram rest h5 t ht
  | .sub r n rest, h, t, ht => by
    simp only [CEdges.wf, Bool.and_eq_true, decide_eq_true_eq] at h
    obtain ⟨⟨⟨h1, h2⟩, h3⟩, h4⟩ := h
    simp only [CEdges.toks, List.mem_append] at ht
    rcases ht with ht | ht | ht
    · exact ttext_gram r (by simp [gramTy, h1]) h2 t ht
    · exact cnode_gram n h3 t ht
    · exact cedges_gram rest h4 t ht
end

theorem treeToks_gram {t : Node} {ts : List Tok} (h : TreeToks t ts) :
    ts ≠ [] ∧ ∀ x ∈ ts, x.ty ≠ .COMMENT ∧ x.ty ≠ .UNEXPECTED := by
  obtain ⟨k, hw, -, rfl⟩ := h
  refine ⟨?_, fun x hx => ?_⟩
  · cases k <;> simp [CNode.toks]
  · have := cnode_gram k hw x hx
    constructor <;> intro hc <;> simp [gramTy, hc] at this

/-! ### a formatted text ends in a closed line -/

/-- a text whose tokens are comments followed by a token list of a tree, and which ends in `)`,
    ends in a closed line -/
theorem closedLast_of_lex (order : List TokTy) (s : Str) (cs ts : List Tok) (t : Node)
    (hl : s.getLast? = some ')') (e : lexStr cfg order s = cs ++ ts)
    (hcs : ∀ x ∈ cs, x.ty = .COMMENT) (htt : TreeToks t ts) : ClosedLast cfg order s := by
  obtain ⟨hne, hty⟩ := treeToks_gram htt
  obtain ⟨ia, la, hs⟩ := splitLines_getLast ')' (by decide) (by decide) s hl
  have hnb : Framing.NoBreak (la ++ [')']) := splitLines_noBreak s (la ++ [')']) (by rw [hs]; simp)
  refine ⟨getLast_ne_cr hl, ?_⟩
  rw [hs]
  simp only [List.getLast?_append, List.getLast?_singleton, Option.some_or]
  refine ⟨by simp, hnb.noLF, ?_⟩
  -- the tokens of the last line are a suffix of `cs ++ ts`
  have hsuf : lexStr cfg order s =
      lexLinesFrom cfg order 1 ia ++ lexLine cfg order (1 + ia.length) (la ++ [')']) := by
    unfold lexStr lexLines
    rw [hs, lexLinesFrom_append]
    simp [lexLinesFrom]
  have key : ∀ x ∈ lexLine cfg order (1 + ia.length) (la ++ [')']),
      x.ty ≠ .COMMENT ∧ x.ty ≠ .UNEXPECTED := by
    intro x hx
    have hmem : x ∈ cs ++ ts := by rw [← e, hsuf]; exact List.mem_append_right _ hx
    refine ⟨?_, ?_⟩
    · -- a COMMENT can only be the last token of its line, and the last token is in `ts`
      rcases List.eq_nil_or_concat (lexLine cfg order (1 + ia.length) (la ++ [')'])) with hnil | ⟨L, z, hL⟩
      · rw [hnil] at hx; simp at hx
      · have hdl := lexLine_comment_last cfg order (1 + ia.length) (la ++ [')']) hnb.noLF
        rw [hL] at hx hdl
        simp only [List.concat_eq_append, List.dropLast_concat, List.mem_append, List.mem_singleton] at hx hdl
        rcases hx with hx | rfl
        · exact hdl x hx
        · have hz : (cs ++ ts).getLast? = some x := by
            rw [← e, hsuf, hL]; simp [List.getLast?_append]
          obtain ⟨ts', y, rfl⟩ : ∃ ts' y, ts = ts' ++ [y] := by
            rcases List.eq_nil_or_concat ts with h | ⟨a, b, h⟩
            · exact absurd h hne
            · exact ⟨a, b, by simpa using h⟩
          rw [← List.append_assoc, List.getLast?_append] at hz
          simp at hz
          subst hz
          exact (hty _ (by simp)).1
    · rcases List.mem_append.1 hmem with h | h
      · rw [hcs x h]; decide
      · exact (hty x h).2
  unfold lexLine at key ⊢
  exact lexAux_types cfg order 1 (1 + ia.length) _ 0 _ (fun ty => ty ≠ .COMMENT ∧ ty ≠ .UNEXPECTED) key

/-- every formatted text of a grammar-valid tree ends in a closed line -/
theorem format_closedLast (hw : FmtCfgWf cfg = true) (n : Node) (md : AList Str Str)
    (ht : WfTreeText cfg (writtenForm n)) (hmd : ∀ kv ∈ md, Spec.NoBreak kv.1 ∧ Spec.NoBreak kv.2)
    (i : Indent) (c : Bool) : ClosedLast cfg cfg.penmanOrder (format ⟨n, md⟩ i c) := by
  obtain ⟨cs, ts, e, hcs, _, htt⟩ := format_lex_num hw n md ht hmd i c
  exact closedLast_of_lex _ _ cs ts _ (format_getLast _ i c) e hcs htt

/-! ### one graph: `encode`, then `_parse` on the tokens, then `interpret` -/

/-- **the text of an encoded graph parses completely** (under every error context `ctx`, in
    particular `⟨eofPos toks⟩`): `_parse` on its tokens returns the written form of the configured
    tree with its metadata and leaves nothing over; the text ends in `)` — so not in CR — and its
    last line is closed -/
theorem encode_parses_completely_aux (hcfg : FmtCfgWf cfg = true) (isSpace : Char → Bool) {m : Model}
    {g : Graph} {top : Option Str} {T : Tree} (hw : ModelWf m) (hg : WfGraph m g)
    (htx : GraphTextOK cfg isSpace m g) (hpv : PushVars g) (h : configure m g top = .ok T)
    (i : Indent) (c : Bool) :
    encode m g top i c = .ok (format T i c) ∧
    (∀ ctx, parseTree ctx isSpace (lexStr cfg cfg.penmanOrder (format T i c)) =
      .ok (⟨writtenForm T.node, T.metadata⟩, [])) ∧
    (format T i c).getLast? = some ')' ∧ (format T i c).getLast? ≠ some '\r' ∧
    ClosedLast cfg cfg.penmanOrder (format T i c) := by
  obtain ⟨h1, h2⟩ := configured_tree_wf hw hg htx hpv h
  refine ⟨by simp [encode, h, Except.map], fun ctx => ?_, format_getLast T i c,
    getLast_ne_cr (format_getLast T i c), ?_⟩
  · exact format_parses_completely hcfg isSpace T.node T.metadata h1 h2 i c ctx
  · exact format_closedLast hcfg T.node T.metadata h1 (C01.wfMeta_noBreak h2) i c

/-- one encodable graph: its text, the tree `iterparse` yields for it, the graph `interpret` makes
    of that tree -/
theorem encodable_roundtrip (hcfg : FmtCfgWf cfg = true) (isSpace isAlpha : Char → Bool) {m : Model}
    {g : Graph} (hw : ModelWf m) (hnoop : m.noop = false) (h : Encodable cfg isSpace m g)
    (i : Indent) (c : Bool) :
    ∃ s T g', encode m g none i c = .ok s ∧ s.getLast? = some ')' ∧
      ClosedLast cfg cfg.penmanOrder s ∧
      (∀ ctx, parseTree ctx isSpace (lexStr cfg cfg.penmanOrder s) = .ok (T, [])) ∧
      interpret isAlpha m T = .ok g' ∧ SameGraph m g g' := by
  obtain ⟨t, ht, htv, hreach⟩ := h.top
  obtain ⟨s, g', h1, h2, h3, h4, h5, h6, h7⟩ := encode_decode_text hcfg isSpace isAlpha (top := none)
    hw hnoop h.wf h.text h.pushVars h.pushSrc (show topOf g none = some t from ht) htv hreach i c
  obtain ⟨T, hT⟩ := encode_ok_iff.1 ⟨s, h1⟩
  obtain ⟨e1, e2, e3, _, e5⟩ := encode_parses_completely_aux hcfg isSpace hw h.wf h.text h.pushVars hT i c
  have hs : s = format T i c := by rw [e1] at h1; exact (Except.ok.inj h1).symm
  subst hs
  refine ⟨_, ⟨writtenForm T.node, T.metadata⟩, g', h1, e3, e5, e2, ?_, ⟨h3.trans ht.symm, h4, h5, h6, h7⟩⟩
  simp only [decode, C01.parse, parseToks, e2, Except.map, bind, Except.bind] at h2
  exact h2

/-! ### a list of graphs -/

/-- two lists related elementwise -/
inductive Rel₂ {α β : Type} (R : α → β → Prop) : List α → List β → Prop
  | nil : Rel₂ R [] []
  | cons {a : α} {b : β} {l : List α} {l' : List β} : R a b → Rel₂ R l l' → Rel₂ R (a :: l) (b :: l')

theorem mapE_ok_length {α β ε : Type} (f : α → Except ε β) : ∀ (xs : List α) (ys : List β),
    mapE f xs = .ok ys → ys.length = xs.length
  | [], ys, h => by simp [mapE] at h; subst h; rfl
  | x :: xs, ys, h => by
    simp only [mapE] at h
    split at h
    · cases h
    · split at h
      · cases h
      · rename_i zs hz
        cases h
        simp [mapE_ok_length f xs zs hz]

/-- all graphs of a list: their texts `p.1`, the trees `p.2` they parse to, the loaded graphs -/
theorem encodeAll_roundtrip (hcfg : FmtCfgWf cfg = true) (isSpace isAlpha : Char → Bool) {m : Model}
    (hw : ModelWf m) (hnoop : m.noop = false) (i : Indent) (c : Bool) :
    ∀ gs : List Graph, (∀ g ∈ gs, Encodable cfg isSpace m g) →
    ∃ (ps : List (Str × Tree)) (gs' : List Graph),
      encodeAll m gs i c = .ok (ps.map (·.1)) ∧
      (∀ p ∈ ps, p.1.getLast? = some ')' ∧ ClosedLast cfg cfg.penmanOrder p.1 ∧
        ∀ ctx, parseTree ctx isSpace (lexStr cfg cfg.penmanOrder p.1) = .ok (p.2, [])) ∧
      mapE (interpret isAlpha m) (ps.map (·.2)) = .ok gs' ∧ Rel₂ (SameGraph m) gs gs'
  | [], _ => ⟨[], [], rfl, by simp, rfl, .nil⟩
  | g :: gs, h => by
    obtain ⟨ps, gs', a1, a2, a3, a4⟩ := encodeAll_roundtrip hcfg isSpace isAlpha hw hnoop i c gs
      (fun x hx => h x (by simp [hx]))
    obtain ⟨s, T, g', b1, b2, b3, b4, b5, b6⟩ :=
      encodable_roundtrip hcfg isSpace isAlpha hw hnoop (h g (by simp)) i c
    refine ⟨(s, T) :: ps, g' :: gs', ?_, ?_, ?_, .cons b6 a4⟩
    · unfold encodeAll at a1 ⊢
      simp [mapE, b1, a1]
    · intro p hp
      simp only [List.mem_cons] at hp
      rcases hp with rfl | hp
      · exact ⟨b2, b3, b4⟩
      · exact a2 p hp
    · simp [mapE, b5, a3]

theorem rel₂_index {α β : Type} {R : α → β → Prop} : ∀ {l : List α} {l' : List β},
    Rel₂ R l l' →
    l'.length = l.length ∧ ∀ (k : Nat) (h : k < l.length) (h' : k < l'.length), R l[k] l'[k]
  | _, _, .nil => ⟨rfl, fun k h => by simp at h⟩
  | _, _, .cons h t => by
    obtain ⟨e, f⟩ := rel₂_index t
    refine ⟨by simp [e], fun k hk hk' => ?_⟩
    cases k with
    | zero => exact h
    | succ k => exact f k (by simpa using hk) (by simpa using hk')

/-- loading a token stream on which `iterparse` yields `Ts` without error -/
theorem loadToks_of_iterparse (isSpace isAlpha : Char → Bool) (m : Model) (toks : List Tok)
    (Ts : List Tree) (gs' : List Graph) (h1 : iterparseToks isSpace toks = (Ts, none))
    (h2 : mapE (interpret isAlpha m) Ts = .ok gs') : loadToks isSpace isAlpha m toks = .ok gs' := by
  simp [loadToks, h1, h2]

/-- `loadToks` succeeds exactly when `iterparse` ends without error and every tree is interpreted
    (so for the success case the order in which errors are raised plays no role) -/
theorem loadToks_ok_iff (isSpace isAlpha : Char → Bool) (m : Model) (toks : List Tok) (gs' : List Graph) :
    loadToks isSpace isAlpha m toks = .ok gs' ↔
      (iterparseToks isSpace toks).2 = none ∧
      mapE (interpret isAlpha m) (iterparseToks isSpace toks).1 = .ok gs' := by
  unfold loadToks
  cases h : mapE (interpret isAlpha m) (iterparseToks isSpace toks).1 with
  | error e => simp
  | ok gs =>
    cases h' : (iterparseToks isSpace toks).2 with
    | none => simp
    | some e => simp

/-- what `dump` writes is the `'\n\n'`-join followed by one line feed (nothing for no graph) -/
theorem dumpStream_eq : ∀ ss : List Str,
    dumpStream ss = joinStr ['\n', '\n'] ss ++ (if ss = [] then [] else ['\n'])
  | [] => rfl
  | [x] => by simp [dumpStream, joinStr]
  | x :: y :: r => by
    have ih := dumpStream_eq (y :: r)
    simp only [dumpStream, List.map_cons, List.flatten_cons, reduceCtorEq, if_false, joinStr] at ih ⊢
    simp only [List.append_assoc, List.cons_append, List.nil_append] at ih ⊢
    rw [← ih]

end Penman.C09g

/-
  Penman.Props.C05 — "Re-layout operations never change the graph".

  * rearrange clauses (branch sets, concept first, sortedness, stability, key
    meaning, graph content, idempotence): `Penman.Props.C05a`.
  * reconfigure / new-top clauses: `Penman.Props.C05b` (namespace `Penman.C05b`) —
    corollaries of the configure development (`Penman.Props.C03`, `Penman.Props.C06`):
    `reconfigure_prep`, `reconfigure_graph`, `reconfigure_tree`, `new_top_graph`,
    `new_top_tree`, `reconfigure_new_top`, `reconfigure_sorted`, `decoded_top_explicit`;
    "same top for reconfigure" holds for every key and every graph, an implicit top
    included (fix F21: the top is resolved before sorting; the graph that exposed the
    defect is `C05b.Examples.reconfigure_implicit_top_kept`).
-/
import Penman.Props.C05a
import Penman.Props.C05b

/-
  Penman.Proofs.Configure17 — reading the configured tree back: every written
  relation denotes the store's triple, deinverted once if its role is inverted
  and its target a node variable.
-/
import Penman.Proofs.Configure16
import Penman.Props.C04
namespace Penman
namespace Cfg
open Penman.Spec.Reading

/-! ### text facts -/

theorem takeWhile_all {α : Type} (p : α → Bool) : ∀ (l : List α), (∀ x ∈ l, p x = true) → l.takeWhile p = l := by
  intro l
  induction l with
  | nil => intro _; rfl
  | cons a r ih =>
    intro h
    simp only [List.takeWhile, h a List.mem_cons_self]
    rw [ih (fun x hx => h x (List.mem_cons_of_mem _ hx))]

theorem beforeTilde_of_noTilde {r : Str} (h : '~' ∉ r) : beforeTilde r = r := by
  unfold beforeTilde
  apply takeWhile_all
  intro x hx
  simp only [ne_eq, decide_not, Bool.not_eq_eq_eq_not, Bool.not_true, decide_eq_false_iff_not]
  rintro rfl; exact h hx

theorem roleName_plain {r : Str} (h : '~' ∉ r) : roleName r = slashRole r := by
  unfold roleName slashRole
  split
  · rfl
  · exact beforeTilde_of_noTilde h

theorem roleAlnText_plain {r : Str} (h : '~' ∉ r) : roleAlnText r = none := by
  unfold roleAlnText; split
  · rfl
  · simp

theorem splitTarget_ok {s : Str} (h : TextOK s) : splitTarget s = (s, none) := by
  unfold splitTarget
  rcases h with h | ⟨h1, h2⟩
  · simp [h]
  · split
    · simp
    · rfl

theorem invertRole_noTilde (m : Model) {r : Str} (h : '~' ∉ r) : '~' ∉ m.invertRole r := by
  unfold Model.invertRole
  split
  · unfold dropEnd; exact fun hm => h (List.mem_of_mem_take hm)
  · simp [h, ofStr]

/-! ### the triples of the store are well-behaved text -/

structure GoodT (m : Model) (x : Triple) : Prop where
  colon : x.role.head? = some ':'
  roleTilde : '~' ∉ x.role
  canon : m.canonInversion x.role = some x.role
  tgt : TgtOK x.tgt

theorem goodT_of_version {m : Model} {g : Graph} (hw : ModelWf m) (hg : WfGraph m g) {x t0 : Triple}
    (ht0 : t0 ∈ g.triples)
    (h : x = t0 ∨ (x = m.invert t0 ∧ (∃ b, t0.tgt = .str b) ∧ t0.role ≠ CONCEPT_ROLE)) : GoodT m x := by
  obtain ⟨r1, r2, r3⟩ := hg.roles t0 ht0
  rcases h with rfl | ⟨rfl, _, _⟩
  · exact ⟨r1, r2, r3, hg.tgts _ ht0⟩
  · refine ⟨by rw [invert_role]; exact head_invertRole m _ r1, by rw [invert_role]; exact invertRole_noTilde m r2,
      by rw [invert_role]; exact canon_invertRole hw r3, ?_⟩
    rw [invert_tgt]; exact Or.inl (hg.srcs t0 ht0)

/-! ### reading one edge -/

/-- what reading does to a written triple: swap once iff the role is inverted and the target a node variable -/
def readTriple (m : Model) (vars : List Str) (p : Triple) : Triple :=
  if m.isRoleInverted p.role = true ∧ atomInVars vars p.tgt = true then m.invert p else p

theorem denote_edge (isAlpha : Char → Bool) {m : Model} (hnoop : m.noop = false) (vars : List Str) {v : Str} {e : Edge}
    (hp : PlainE e) (hgood : GoodT m (Cfg.denote v e)) (hnum : notNum (Cfg.denote v e).tgt = true)
    (hnode : ∀ w, e.tgt = .node w → w ∈ vars) :
    (Spec.Reading.denote isAlpha m vars (edgeWritten v e)).map (·.triple) =
      .ok (readTriple m vars (Cfg.denote v e)) := by
  obtain ⟨hrole, hepis⟩ := hp
  cases e with
  | mk role tgt epis =>
    simp only [] at hepis hrole; subst hepis
    have hr : '~' ∉ role := by
      have := hgood.roleTilde
      simp only [Cfg.denote] at this
      split at this
      · rename_i h; rw [h]; decide
      · exact this
    have hrn : roleName role = (Cfg.denote v ⟨role, tgt, []⟩).role := by
      rw [roleName_plain hr]; simp [Cfg.denote, slashRole]
    have hout : outRole ⟨role, tgt, []⟩ = role := by simp [outRole, applyEpis]
    cases tgt with
    | node w =>
      have hw := hnode w rfl
      have hden : (Cfg.denote v ⟨role, .node w, []⟩) = ⟨v, roleName role, .str w⟩ := by
        rw [hrn]; simp [Cfg.denote]
      rw [hden]
      simp only [edgeWritten, hout, Spec.Reading.denote, roleAlnText_plain hr, parseAln?, Except.map,
        readTriple, orientTriple, hnoop, Bool.not_false, Bool.true_and, atomInVars, hw, decide_true, and_true]
    | atom a =>
      have hoa : outAtom ⟨role, .atom a, []⟩ a = a := by simp [outAtom]
      have hden : (Cfg.denote v ⟨role, .atom a, []⟩) = ⟨v, roleName role, a⟩ := by
        rw [hrn]; simp [Cfg.denote]
      rw [hden] at hnum hgood ⊢
      cases a with
      | none =>
        simp [edgeWritten, hout, hoa, Spec.Reading.denote, roleAlnText_plain hr, parseAln?, Except.map,
          readTriple, atomInVars]
      | num x => simp [notNum] at hnum
      | str s =>
        have hs : TextOK s := hgood.tgt
        simp only [edgeWritten, hout, hoa, Spec.Reading.denote, roleAlnText_plain hr, parseAln?, Except.map,
          splitTarget_ok hs, readTriple, orientTriple, hnoop, Bool.not_false, Bool.true_and, atomInVars,
          Bool.and_eq_true, decide_eq_true_eq]


/-! ### reading the whole tree -/

theorem mapM_map {α β γ : Type} (f : α → Except PyErr β) (tr : β → γ) (G : α → γ) : ∀ (l : List α),
    (∀ x ∈ l, (f x).map tr = .ok (G x)) → ∃ ds, l.mapM f = .ok ds ∧ ds.map tr = l.map G := by
  intro l
  induction l with
  | nil => intro _; exact ⟨[], rfl, rfl⟩
  | cons a r ih =>
    intro h
    obtain ⟨ds, h1, h2⟩ := ih (fun x hx => h x (List.mem_cons_of_mem _ hx))
    have ha := h a List.mem_cons_self
    cases hf : f a with
    | error e => rw [hf] at ha; simp [Except.map] at ha
    | ok d =>
      rw [hf] at ha
      simp only [Except.map, Except.ok.injEq] at ha
      refine ⟨d :: ds, ?_, by simp [ha, h2]⟩
      rw [List.mapM_cons, hf, h1]; rfl

theorem ensureColon_of_head {r : Str} (h : r.head? = some ':') : ensureColon r = r := by
  cases r with
  | nil => simp at h
  | cons c cs => simp at h; subst h; simp [ensureColon, startsWith]

theorem isVar_eq {g : Graph} {vars : List Str} (h : ∀ s, s ∈ vars ↔ s ∈ g.variables) (a : Atom) :
    atomInVars vars a = g.isVar a := by
  cases a with
  | str s =>
    simp only [atomInVars, Graph.isVar]
    by_cases hs : s ∈ vars
    · simp [hs, (h s).1 hs]
    · have : s ∉ g.variables := fun h' => hs ((h s).2 h')
      simp [hs, this]
  | none => rfl
  | num _ => rfl

/-! ### label-less cells -/

/-- the implicit null label a label-less node is read with -/
def nullW (v : Str) : Written := ⟨some v, ['/'], .atom .none⟩

def nullsW (c : Cells) : List Written := (c.filter fun p => !cellLabelled p.2).map fun p => nullW p.1

theorem flatMap_append_perm {α β : Type} (f g : α → List β) : ∀ l : List α,
    (l.flatMap fun x => f x ++ g x).Perm (l.flatMap f ++ l.flatMap g) := by
  intro l
  induction l with
  | nil => simp
  | cons a r ih =>
    simp only [List.flatMap_cons]
    refine (List.Perm.append_left _ ih).trans ?_
    rw [List.append_assoc, List.append_assoc]
    refine List.Perm.append_left _ ?_
    rw [← List.append_assoc, ← List.append_assoc]
    exact List.Perm.append_right _ List.perm_append_comm

theorem nullsW_eq (c : Cells) :
    nullsW c = c.flatMap fun p => if cellLabelled p.2 then [] else [nullW p.1] := by
  induction c with
  | nil => rfl
  | cons p r ih =>
    simp only [nullsW, List.filter_cons, List.flatMap_cons] at ih ⊢
    cases hl : cellLabelled p.2 <;> simp [ih]

theorem flat_ownW_split (c : Cells) :
    (flat ownW c).Perm (nullsW c ++ flat (fun v es => es.map (edgeWritten v)) c) := by
  rw [nullsW_eq]
  exact flatMap_append_perm (fun p => if cellLabelled p.2 then [] else [nullW p.1])
    (fun p => p.2.map (edgeWritten p.1)) c

theorem denote_null (isAlpha : Char → Bool) (m : Model) (vars : List Str) (v : Str) :
    (Spec.Reading.denote isAlpha m vars (nullW v)).map (·.triple) = .ok ⟨v, CONCEPT_ROLE, .none⟩ := by
  simp [nullW, Spec.Reading.denote, roleName, roleAlnText, parseAln?, Except.map]

theorem perm_of_nodup {α : Type} [DecidableEq α] {l1 l2 : List α} (h1 : l1.Nodup) (h2 : l2.Nodup)
    (h : ∀ x, x ∈ l1 ↔ x ∈ l2) : l1.Perm l2 := by
  apply List.perm_iff_count.2
  intro a
  rw [h1.count, h2.count]
  by_cases ha : a ∈ l1
  · simp [ha, (h a).1 ha]
  · have : a ∉ l2 := fun h' => ha ((h a).2 h')
    simp [ha, this]

/-- **C03, graph level.** Encoding a well-formed connected graph from any variable and decoding the
    tree gives back the same top, the same variables, and the same triples up to order and one
    de-inversion. -/
theorem encode_decode (isAlpha : Char → Bool) {m : Model} {g : Graph} {top : Option Str} {t : Str}
    (hw : ModelWf m) (hnoop : m.noop = false) (hg : WfGraph m g) (hnum : NoNum g)
    (hpv : PushVars g) (hps : PushSrcOK g) (ht : topOf g top = some t) (htv : t ∈ g.variables)
    (hreach : ∀ v ∈ g.variables, Reach g t v) :
    ∃ T g', configure m g top = .ok T ∧ interpret isAlpha m T = .ok g' ∧
      g'.getTop = some t ∧ (∀ x, x ∈ g'.variables ↔ x ∈ g.variables) ∧
      (g'.triples.map (deinvert1 m g)).Perm (g.triples.map (deinvert1 m g)) ∧
      (∀ x ∈ g'.triples, ∃ t0 ∈ g.triples, x = t0 ∨ x = m.invert t0) := by
  obtain ⟨T, st, l, hT, E⟩ := encoded hw hg hpv hps ht htv hreach
  have hr2 : ∀ x ∈ g.triples, RoleOK2 m x := fun x hx => roleOK2_of_colon m x (hg.roles x hx).1
  obtain ⟨hW, hvars, _, hnd, hvar⟩ := storeOf_tree hr2 E.store E.build
  have hgood := storeOf_good E.store
  have hvmem : ∀ s, s ∈ T.node.vars ↔ s ∈ g.variables := fun s => hvars.mem_iff.trans (E.keys s)
  -- facts about every triple of the store
  have hfacts : ∀ x ∈ placed st.cells, GoodT m x ∧ notNum x.tgt = true ∧ x.src ∈ g.variables := by
    intro x hx
    obtain ⟨t0, ht0, hv⟩ := E.version x (E.perm.symm.subset hx)
    refine ⟨goodT_of_version hw hg ht0 hv, ?_, (E.keys _).1 (placed_src_key hx)⟩
    rcases hv with rfl | ⟨rfl, _, _⟩
    · exact hnum _ ht0
    · rw [invert_tgt]; rfl
  -- a cell is labelled iff it holds a `/` edge
  have hlabel : ∀ p ∈ st.cells, (cellLabelled p.2 = true ↔ ∃ e ∈ p.2, e.role = ['/']) := by
    intro p hp
    simp only [cellLabelled, List.any_eq_true, decide_eq_true_eq]
    constructor
    · rintro ⟨e, he, hrn⟩
      refine ⟨e, he, ?_⟩
      obtain ⟨hne, hep⟩ := E.plain p hp e he
      have hx : Cfg.denote p.1 e ∈ placed st.cells := by
        simp only [placed, List.mem_flatMap, List.mem_map]; exact ⟨p, hp, e, he, rfl⟩
      have hrt := (hfacts _ hx).1.roleTilde
      apply Classical.byContradiction
      intro hns
      simp only [Cfg.denote, hns, if_false] at hrt
      have : outRole e = e.role := by simp [outRole, hep, applyEpis]
      rw [this, roleName_plain hrt] at hrn
      simp only [slashRole, hns, if_false] at hrn
      exact hne hrn
    · rintro ⟨e, he, hs⟩
      refine ⟨e, he, ?_⟩
      obtain ⟨_, hep⟩ := E.plain p hp e he
      simp [outRole, hep, applyEpis, hs, roleName]
  have hW' := hW.trans (flat_ownW_split st.cells)
  -- every written relation reads as the store's triple, deinverted once
  let G : Written → Triple := fun w =>
    match Spec.Reading.denote isAlpha m T.node.vars w with | .ok d => d.triple | .error _ => ⟨[], [], .none⟩
  have hedge : ∀ p ∈ st.cells, ∀ e ∈ p.2,
      (Spec.Reading.denote isAlpha m T.node.vars (edgeWritten p.1 e)).map (·.triple) =
        .ok (readTriple m T.node.vars (Cfg.denote p.1 e)) := by
    intro p hp e he
    have hx : Cfg.denote p.1 e ∈ placed st.cells := by
      simp only [placed, List.mem_flatMap, List.mem_map]; exact ⟨p, hp, e, he, rfl⟩
    obtain ⟨f1, f2, _⟩ := hfacts _ hx
    apply denote_edge isAlpha hnoop T.node.vars (E.plain p hp e he) f1 f2
    intro w hw'
    exact hvars.symm.subset (hgood.forest p hp e he w hw').2
  have hGedge : ∀ p ∈ st.cells, ∀ e ∈ p.2, G (edgeWritten p.1 e) = readTriple m T.node.vars (Cfg.denote p.1 e) := by
    intro p hp e he
    have := hedge p hp e he
    simp only [G]
    cases hd : Spec.Reading.denote isAlpha m T.node.vars (edgeWritten p.1 e) with
    | error x => rw [hd] at this; simp [Except.map] at this
    | ok d => rw [hd] at this; simpa [Except.map] using this
  have hGnull : ∀ v, G (nullW v) = ⟨v, CONCEPT_ROLE, .none⟩ := by
    intro v
    have := denote_null isAlpha m T.node.vars v
    simp only [G]
    cases hd : Spec.Reading.denote isAlpha m T.node.vars (nullW v) with
    | error x => rw [hd] at this; simp [Except.map] at this
    | ok d => rw [hd] at this; simpa [Except.map] using this
  have hall : ∀ w ∈ Node.written T.node,
      (Spec.Reading.denote isAlpha m T.node.vars w).map (·.triple) = .ok (G w) := by
    intro w hw'
    have := hW'.subset hw'
    simp only [List.mem_append, nullsW, flat, List.mem_flatMap, List.mem_map] at this
    rcases this with ⟨p, _, rfl⟩ | ⟨p, hp, e, he, rfl⟩
    · rw [hGnull]; exact denote_null isAlpha m T.node.vars p.1
    · rw [hGedge p hp e he]; exact hedge p hp e he
  obtain ⟨ds, hds, hdsmap⟩ := mapM_map _ Denoted.triple G _ hall
  have hread : Spec.Reading.read isAlpha m T.node = .ok ⟨T.node.var, ds⟩ := by
    unfold Spec.Reading.read; rw [hds]; rfl
  obtain ⟨g', hg'⟩ := Interp.interpret_defined hread
  obtain ⟨r, hr, htop, _, _, htr⟩ := Props.C04.C04 isAlpha m T g' hg'
  rw [hread] at hr; simp only [Except.ok.injEq] at hr; subst hr
  obtain ⟨_, _, hv3⟩ := Props.C04.C04_variables isAlpha m T g' _ hg' hread
  -- the decoded triples, up to order
  have hD : ∀ x ∈ l, colon (readTriple m T.node.vars x) = deinvert1 m g x := by
    intro x hx
    obtain ⟨f1, _, _⟩ := hfacts x (E.perm.subset hx)
    have e1 : readTriple m T.node.vars x = deinvert1 m g x := by
      unfold readTriple deinvert1; rw [isVar_eq hvmem]
    rw [e1]
    have hc : (deinvert1 m g x).role.head? = some ':' := by
      unfold deinvert1; split
      · rw [invert_role]; exact head_invertRole m _ f1.colon
      · exact f1.colon
    simp [colon, ensureColon_of_head hc]
  obtain ⟨nullTs, hnT⟩ : ∃ x : List Triple,
      x = (st.cells.filter fun p => !cellLabelled p.2).map fun p => (⟨p.1, CONCEPT_ROLE, .none⟩ : Triple) := ⟨_, rfl⟩
  have hperm : g'.triples.Perm (nullTs ++ l.map (deinvert1 m g)) := by
    rw [htr]
    simp only [Reading.triples, hdsmap]
    have h1 : ((Node.written T.node).map G).Perm (nullTs ++ (placed st.cells).map (readTriple m T.node.vars)) := by
      refine (hW'.map G).trans ?_
      rw [List.map_append]
      have e1 : (nullsW st.cells).map G = nullTs := by
        rw [hnT]
        simp only [nullsW, List.map_map]
        apply List.map_congr_left
        intro p _
        exact hGnull p.1
      have e2 : (flat (fun v es => es.map (edgeWritten v)) st.cells).map G =
          (placed st.cells).map (readTriple m T.node.vars) := by
        simp only [flat, placed, List.map_flatMap, List.map_map]
        apply flatMap_congr'
        intro p hp
        apply List.map_congr_left
        intro e he
        exact hGedge p hp e he
      rw [e1, e2]
    refine (h1.map colon).trans ?_
    rw [List.map_append]
    have e1 : nullTs.map colon = nullTs := by
      conv => rhs; rw [← List.map_id nullTs]
      apply List.map_congr_left
      intro x hx
      rw [hnT] at hx
      simp only [List.mem_map] at hx
      obtain ⟨p, _, rfl⟩ := hx
      have : ensureColon CONCEPT_ROLE = CONCEPT_ROLE := by decide
      simp [colon, this]
    rw [e1]
    refine List.Perm.append_left _ ?_
    refine ((E.perm.symm.map (readTriple m T.node.vars)).map colon).trans ?_
    rw [List.map_map]
    have : l.map (colon ∘ readTriple m T.node.vars) = l.map (deinvert1 m g) :=
      List.map_congr_left (fun x hx => hD x hx)
    rw [this]
  -- the label-less cells are exactly the null labels of `g`
  have hnullD : ∀ x : Triple, x.tgt = .none → deinvert1 m g x = x := by
    intro x hx; simp [deinvert1, hx, Graph.isVar]
  have hnulls : nullTs.Perm (g.triples.filter nullB) := by
    apply perm_of_nodup
    · have hsub : ((st.cells.filter fun p => !cellLabelled p.2).map (·.1)).Nodup :=
        List.Nodup.sublist (List.Sublist.map _ List.filter_sublist) hnd
      have := List.Pairwise.map (S := fun a b : Triple => a ≠ b) (fun v : Str => (⟨v, CONCEPT_ROLE, .none⟩ : Triple))
        (fun a b hab h => hab (by injection h)) hsub
      rw [List.map_map] at this
      rw [hnT]
      exact this
    · exact hg.nullNodup
    · intro x
      rw [hnT]
      simp only [List.mem_map, List.mem_filter, Bool.not_eq_eq_eq_not, Bool.not_true]
      constructor
      · rintro ⟨p, ⟨hp, hunl⟩, rfl⟩
        obtain ⟨t0, ht0, hs0, hr0⟩ := hg.labelled p.1 ((E.keys _).1 (mem_keys_of_mem hp))
        cases hn0 : nullB t0 with
        | false =>
          exfalso
          have hmem := E.perm.subset (E.inst t0 ht0 hr0 hn0)
          simp only [placed, List.mem_flatMap, List.mem_map] at hmem
          obtain ⟨q, hq, e, he, hden⟩ := hmem
          have hk : q.1 = p.1 := by rw [← hs0, ← hden]; rfl
          have hes : q.2 = p.2 := by
            have h1 := get?_of_mem_nodup hnd (k := q.1) (es := q.2) hq
            have h2 := get?_of_mem_nodup hnd (k := p.1) (es := p.2) hp
            rw [hk, h2] at h1; simpa using h1.symm
          rw [hes] at he
          have hrole : (Cfg.denote q.1 e).role = CONCEPT_ROLE := by rw [hden]; exact hr0
          simp only [Cfg.denote] at hrole
          split at hrole
          · rename_i h
            have := (hlabel p hp).2 ⟨e, he, h⟩
            rw [this] at hunl; exact absurd hunl (by simp)
          · exact (E.plain p hp e he).1 hrole
        | true =>
          have hmiss : t0.tgt = .none := by
            have h1 := ((nullB_iff t0).1 hn0).2
            cases htg : t0.tgt with
            | none => rfl
            | num _ => rw [htg] at h1; simp [Atom.isMissing] at h1
            | str s' =>
              rw [htg] at h1
              simp only [Atom.isMissing, List.isEmpty_iff] at h1
              subst h1
              exact absurd htg (hg.instNotEmpty t0 ht0 hr0)
          have : (⟨p.1, CONCEPT_ROLE, .none⟩ : Triple) = t0 := by
            cases t0 with
            | mk a b c => simp only [] at hs0 hr0 hmiss; subst hs0 hr0 hmiss; rfl
          rw [this]; exact ⟨ht0, hn0⟩
      · rintro ⟨hx, hxn⟩
        have hnull := (nullB_iff x).1 hxn
        have hmiss : x.tgt = .none := by
          have h1 := hnull.2
          cases htg : x.tgt with
          | none => rfl
          | num _ => rw [htg] at h1; simp [Atom.isMissing] at h1
          | str s' =>
            rw [htg] at h1
            simp only [Atom.isMissing, List.isEmpty_iff] at h1
            subst h1
            exact absurd htg (hg.instNotEmpty x hx hnull.1)
        have hkey := storeOf_ownInst E.store x hx hnull.1
        simp only [ckeys, AList.keys, List.mem_map] at hkey
        obtain ⟨p, hp, hp1⟩ := hkey
        refine ⟨p, ⟨hp, ?_⟩, ?_⟩
        · cases hl : cellLabelled p.2 with
          | false => rfl
          | true =>
            exfalso
            obtain ⟨e, he, hs⟩ := (hlabel p hp).1 hl
            have hy : Cfg.denote p.1 e ∈ placed st.cells := by
              simp only [placed, List.mem_flatMap, List.mem_map]; exact ⟨p, hp, e, he, rfl⟩
            have hyl := E.perm.symm.subset hy
            obtain ⟨t0, ht0, hv⟩ := E.version _ hyl
            have hyr : (Cfg.denote p.1 e).role = CONCEPT_ROLE := by simp [Cfg.denote, hs]
            have hy0 : Cfg.denote p.1 e = t0 := by
              rcases hv with h | ⟨h, _, hr0⟩
              · exact h
              · exfalso
                rw [h, invert_role] at hyr
                exact (hg.noInstOf t0 ht0 hr0).1 hyr
            have h0r : t0.role = CONCEPT_ROLE := by rw [← hy0]; exact hyr
            have h0s : t0.src = x.src := by rw [← hy0, ← hp1]; rfl
            have := hg.nullAlone x hx hxn t0 ht0 h0r h0s
            apply E.notNull _ hyl
            rw [hy0, this]; exact hnull
        · cases x with
          | mk a b c =>
            simp only [] at hp1 hmiss
            have hb := hnull.1
            simp only [] at hb
            subst hp1 hmiss hb; rfl
  refine ⟨T, g', hT, hg', by rw [htop]; exact hvar, fun x => (hv3 x).trans (hvmem x), ?_, ?_⟩
  · refine (hperm.map (deinvert1 m g)).trans ?_
    rw [List.map_append, List.map_map]
    have e1 : l.map (deinvert1 m g ∘ deinvert1 m g) = l.map (deinvert1 m g) := by
      apply List.map_congr_left
      intro x hx
      exact deinvert1_idem hw (hfacts x (E.perm.subset hx)).1.canon
    rw [e1]
    refine List.perm_append_comm.trans ?_
    refine (List.Perm.append_left _ (hnulls.map _)).trans ?_
    exact E.same.symm
  · intro x hx
    have := hperm.subset hx
    rcases List.mem_append.1 this with hxn | hxl
    · have := hnulls.subset hxn
      exact ⟨x, (List.mem_filter.1 this).1, Or.inl rfl⟩
    · obtain ⟨y, hy, rfl⟩ := List.mem_map.1 hxl
      obtain ⟨t0, ht0, hv⟩ := E.version y hy
      have hc0 := (hg.roles t0 ht0).2.2
      refine ⟨t0, ht0, ?_⟩
      unfold deinvert1
      rcases hv with rfl | ⟨rfl, ⟨b, hb⟩, _⟩
      · split
        · exact Or.inr rfl
        · exact Or.inl rfl
      · split
        · exact Or.inl (C13.invert_invert hw hb hc0)
        · exact Or.inr rfl

end Cfg
end Penman

/-
  Penman.Proofs.Constant — helper lemmas for property C18
  (quoting / evaluation / typing of constants, and the lexer's STRING scanner).
-/
import Penman.Spec.Constant

namespace Penman
namespace C18

/-! ## 1. Shape of `escapeChar` / `jsonDumpsStr` -/

theorem hexDigit_lower : ∀ k, k < 16 → isHexLower (hexDigit k) = true := by decide

theorem hexDigit_printable : ∀ k, k < 16 →
    isPrintable (hexDigit k) = true ∧ hexDigit k ≠ '"' ∧ hexDigit k ≠ '\\' := by decide

theorem hexVal_hexDigit : ∀ k, k < 16 → hexVal (hexDigit k) = some k := by decide

theorem isEscBlock_hex4 (n : Nat) : isEscBlock (hex4 n) = true := by
  have h := fun k (hk : k < 16) => hexDigit_lower k hk
  simp [hex4, isEscBlock, h, Nat.mod_lt]

theorem isEscBlock_hex4_pair (n m : Nat) : isEscBlock (hex4 n ++ hex4 m) = true := by
  have h := fun k (hk : k < 16) => hexDigit_lower k hk
  simp [hex4, isEscBlock, h, Nat.mod_lt]

theorem isEscBlock_escapeChar (c : Char) : isEscBlock (escapeChar c) = true := by
  unfold escapeChar
  split; · decide
  split; · decide
  split; · decide
  split; · decide
  split; · decide
  split; · decide
  split; · decide
  rename_i h1 h2 _ _ _ _ _
  simp only []
  split
  · rename_i h; simp [isEscBlock, isPrintable, h1, h2, h.1, h.2]
  split
  · exact isEscBlock_hex4 _
  · exact isEscBlock_hex4_pair _ _

/-- every character of an escape block is printable ASCII -/
theorem isEscBlock_printable {b : Str} (hb : isEscBlock b = true) : ∀ x ∈ b, isPrintable x = true := by
  have hl : ∀ c, isHexLower c = true → isPrintable c = true := by
    intro c hc
    simp only [isHexLower, isPrintable, Bool.or_eq_true, Bool.and_eq_true, decide_eq_true_eq,
      Char.le_def, UInt32.le_iff_toNat_le, Char.toNat] at *
    have e0 : ('0' : Char).val.toNat = 48 := by decide
    have e9 : ('9' : Char).val.toNat = 57 := by decide
    have ea : ('a' : Char).val.toNat = 97 := by decide
    have ef : ('f' : Char).val.toNat = 102 := by decide
    omega
  have hs : ∀ e, simpleEscapes.contains e = true → isPrintable e = true := by
    intro e he
    simp only [simpleEscapes, List.contains_eq_mem, List.mem_cons, List.not_mem_nil, or_false,
      decide_eq_true_eq] at he
    rcases he with h | h | h | h | h | h | h <;> subst h <;> decide
  have hb' : isPrintable '\\' = true := by decide
  have hu : isPrintable 'u' = true := by decide
  unfold isEscBlock at hb
  split at hb
  · simp at hb; intro x hx; simp at hx; subst hx; exact hb.2
  · simp at hb; intro x hx; simp at hx; rcases hx with rfl | rfl
    · rw [hb.1]; exact hb'
    · exact hs _ (by simpa using hb.2)
  · simp at hb
    obtain ⟨⟨⟨⟨⟨rfl, rfl⟩, h3⟩, h2⟩, h1⟩, h0⟩ := hb
    intro x hx; simp at hx
    rcases hx with rfl | rfl | rfl | rfl | rfl | rfl <;> first | exact hb' | exact hu | (apply hl; assumption)
  · simp at hb
    obtain ⟨⟨⟨⟨⟨⟨⟨⟨⟨⟨⟨rfl, rfl⟩, h3⟩, h2⟩, h1⟩, h0⟩, rfl⟩, rfl⟩, l3⟩, l2⟩, l1⟩, l0⟩ := hb
    intro x hx; simp at hx
    rcases hx with rfl | rfl | rfl | rfl | rfl | rfl | rfl | rfl | rfl | rfl | rfl | rfl <;>
      first | exact hb' | exact hu | (apply hl; assumption)
  · simp at hb

theorem jsonDumpsStr_eq (s : Str) :
    jsonDumpsStr s = '"' :: (s.map escapeChar).flatten ++ ['"'] := by
  simp [jsonDumpsStr, List.flatMap_def]

theorem body_printable (s : Str) : ∀ x ∈ s.flatMap escapeChar, isPrintable x = true := by
  intro x hx
  obtain ⟨c, _, hc⟩ := List.mem_flatMap.mp hx
  exact isEscBlock_printable (isEscBlock_escapeChar c) x hc

/-! ## 2. Lexing a quoted string -/

/-- fuel-free version of `scanStringBody` -/
def scanBody (excl : List Char) : Str → Option Str
  | [] => none
  | c :: cs =>
    if c = '"' then some ['"']
    else if c = '\\' then
      match cs with
      | d :: ds => if d = '\n' then none else (scanBody excl ds).map (fun r => c :: d :: r)
      | [] => none
    else if c ∈ excl then none
    else (scanBody excl cs).map (fun r => c :: r)

/-- the fuel `length + 1` (or more) given to `scanStringBody` never runs out -/
theorem scanStringBody_eq (excl : List Char) :
    ∀ f s, s.length < f → scanStringBody excl f s = scanBody excl s := by
  intro f
  induction f with
  | zero => intro s h; omega
  | succ f ih =>
    intro s h
    cases s with
    | nil => simp [scanStringBody, scanBody]
    | cons c cs =>
      cases cs with
      | nil =>
        have : scanStringBody excl f [] = none := by cases f <;> rfl
        simp [scanStringBody, scanBody, this]
      | cons d ds =>
        simp only [List.length_cons] at h
        rw [scanStringBody, scanBody, ih ds (by omega), ih (d :: ds) (by simp; omega)]

theorem not_mem_excl {excl : List Char} (h : strExclOk excl = true) {c : Char}
    (h1 : c ≠ '"') (h2 : c ≠ '\\') (h3 : isPrintable c = true) : c ∉ excl := by
  intro hc
  have := List.all_eq_true.mp h c hc
  simp [h1, h2, h3] at this

theorem scanBody_plain {excl : List Char} (h : strExclOk excl = true) {c : Char}
    (h1 : c ≠ '"') (h2 : c ≠ '\\') (h3 : isPrintable c = true) (rest : Str) :
    scanBody excl (c :: rest) = (scanBody excl rest).map (c :: ·) := by
  rw [scanBody.eq_def]; simp [h1, h2, not_mem_excl h h1 h2 h3]

theorem scanBody_esc (excl : List Char) {d : Char} (hd : d ≠ '\n') (rest : Str) :
    scanBody excl ('\\' :: d :: rest) = (scanBody excl rest).map (fun r => '\\' :: d :: r) := by
  rw [scanBody.eq_def]; simp [hd]

theorem scanBody_hex4 {excl : List Char} (h : strExclOk excl = true) (n : Nat) (rest : Str) :
    scanBody excl (hex4 n ++ rest) = (scanBody excl rest).map (hex4 n ++ ·) := by
  have hp := fun k (hk : k < 16) => hexDigit_printable k hk
  have m4 : n / 4096 % 16 < 16 := Nat.mod_lt _ (by decide)
  have m3 : n / 256 % 16 < 16 := Nat.mod_lt _ (by decide)
  have m2 : n / 16 % 16 < 16 := Nat.mod_lt _ (by decide)
  have m1 : n % 16 < 16 := Nat.mod_lt _ (by decide)
  simp only [hex4, List.cons_append, List.nil_append]
  rw [scanBody_esc excl (by decide),
    scanBody_plain h (hp _ m4).2.1 (hp _ m4).2.2 (hp _ m4).1,
    scanBody_plain h (hp _ m3).2.1 (hp _ m3).2.2 (hp _ m3).1,
    scanBody_plain h (hp _ m2).2.1 (hp _ m2).2.2 (hp _ m2).1,
    scanBody_plain h (hp _ m1).2.1 (hp _ m1).2.2 (hp _ m1).1]
  cases scanBody excl rest <;> simp

theorem scanBody_escapeChar {excl : List Char} (h : strExclOk excl = true) (c : Char) (rest : Str) :
    scanBody excl (escapeChar c ++ rest) = (scanBody excl rest).map (escapeChar c ++ ·) := by
  unfold escapeChar
  split; · simp only [List.cons_append, List.nil_append]; rw [scanBody_esc excl (by decide)]
  split; · simp only [List.cons_append, List.nil_append]; rw [scanBody_esc excl (by decide)]
  split; · simp only [List.cons_append, List.nil_append]; rw [scanBody_esc excl (by decide)]
  split; · simp only [List.cons_append, List.nil_append]; rw [scanBody_esc excl (by decide)]
  split; · simp only [List.cons_append, List.nil_append]; rw [scanBody_esc excl (by decide)]
  split; · simp only [List.cons_append, List.nil_append]; rw [scanBody_esc excl (by decide)]
  split; · simp only [List.cons_append, List.nil_append]; rw [scanBody_esc excl (by decide)]
  rename_i h1 h2 _ _ _ _ _
  simp only []
  split
  · rename_i hr
    simp only [List.cons_append, List.nil_append]
    rw [scanBody_plain h h1 h2 (by simp [isPrintable, hr.1, hr.2])]
  split
  · exact scanBody_hex4 h _ _
  · rw [List.append_assoc, scanBody_hex4 h, scanBody_hex4 h]
    cases scanBody excl rest <;> simp

theorem scanBody_body {excl : List Char} (h : strExclOk excl = true) (s : Str) :
    scanBody excl (s.flatMap escapeChar ++ ['"']) = some (s.flatMap escapeChar ++ ['"']) := by
  induction s with
  | nil => simp [scanBody]
  | cons c cs ih =>
    rw [List.flatMap_cons, List.append_assoc, scanBody_escapeChar h, ih]
    simp

theorem scanString_quote {excl : List Char} (h : strExclOk excl = true) (s : Str) :
    scanString excl (jsonDumpsStr s) = some (jsonDumpsStr s) := by
  simp only [jsonDumpsStr, List.cons_append, scanString]
  rw [scanStringBody_eq _ _ _ (Nat.lt_succ_self _), scanBody_body h]
  rfl

theorem scanTy_quote_none {cfg : LexCfg} {ty : TokTy} (h : failsOnQuote cfg ty = true) (r : Str) :
    scanTy cfg ty ('"' :: r) = none := by
  cases ty <;> simp [failsOnQuote] at h <;>
    simp [scanTy, scanComment, scanChar, scanRole, scanAlignment, scanSymbol, scanUnexpected, spanP, h]

theorem firstMatch_quote {cfg : LexCfg} {order : List TokTy} (h : stringFirst cfg order = true)
    {r m : Str} (hm : scanString cfg.strExcl ('"' :: r) = some m) :
    firstMatch cfg order ('"' :: r) = some (.STRING, m) := by
  induction order with
  | nil => simp [stringFirst] at h
  | cons ty tys ih =>
    by_cases hty : ty = .STRING
    · subst hty; simp [firstMatch, scanTy, hm]
    · simp [stringFirst, hty] at h
      simp [firstMatch, scanTy_quote_none h.1, ih h.2]

theorem splitLines_noBreak : ∀ s : Str, (∀ c ∈ s, c ≠ '\n' ∧ c ≠ '\r') → splitLines s = [s] := by
  intro s
  induction s with
  | nil => intro _; rfl
  | cons c cs ih =>
    intro h
    have hc := h c (by simp)
    have ih' := ih (fun x hx => h x (by simp [hx]))
    rw [splitLines.eq_def]
    split
    · simp at *
    · rename_i heq; simp at heq; exact absurd heq.1 hc.2
    · rename_i heq; simp at heq; exact absurd heq.1 hc.2
    · rename_i heq; simp at heq; exact absurd heq.1 hc.1
    · rename_i heq; injection heq with e1 e2; subst e1; subst e2
      rw [ih']

theorem jsonDumpsStr_noBreak (s : Str) : ∀ c ∈ jsonDumpsStr s, c ≠ '\n' ∧ c ≠ '\r' := by
  intro c hc
  have hp : isPrintable c = true := by
    simp only [jsonDumpsStr, List.mem_cons, List.mem_append, List.not_mem_nil, or_false] at hc
    rcases hc with (rfl | hc) | rfl
    · decide
    · exact body_printable s c hc
    · decide
  constructor <;> (intro e; subst e; revert hp; decide)

theorem lexStr_jsonDumpsStr {cfg : LexCfg} {order : List TokTy} (h : lexQuoteOk cfg order = true)
    (s : Str) : lexStr cfg order (jsonDumpsStr s) = [⟨.STRING, jsonDumpsStr s, 1, 0⟩] := by
  simp only [lexQuoteOk, Bool.and_eq_true] at h
  have hm := scanString_quote h.2 s
  rw [lexStr, splitLines_noBreak _ (jsonDumpsStr_noBreak s)]
  simp only [lexLines, lexLinesFrom, lexLine, List.append_nil]
  generalize hq : jsonDumpsStr s = q at *
  have hq' : ∃ r, q = '"' :: r := ⟨s.flatMap escapeChar ++ ['"'], by rw [← hq]; simp [jsonDumpsStr]⟩
  obtain ⟨r, rfl⟩ := hq'
  rw [lexAux, firstMatch_quote h.1 hm]
  simp
  cases r <;> simp [lexAux]

end C18
end Penman

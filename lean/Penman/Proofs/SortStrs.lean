/-
  Penman.Proofs.SortStrs — `strLt` is a strict total order on `Str`, so
  `sortStrs` (Python's `sorted` on strings) returns THE sorted permutation
  of its argument: its result does not depend on the order in which the
  argument was enumerated.
-/
import Penman.Spec.Reach
namespace Penman

theorem strLt_irrefl : ∀ a : Str, strLt a a = false
  | [] => rfl
  | c :: cs => by
    simp only [strLt, Char.lt_irrefl, if_false]
    exact strLt_irrefl cs

theorem strLt_trans : ∀ a b c : Str, strLt a b = true → strLt b c = true → strLt a c = true
  | [], [], _, h, _ => by simp [strLt] at h
  | [], _ :: _, [], _, h => by simp [strLt] at h
  | [], _ :: _, _ :: _, _, _ => rfl
  | _ :: _, [], _, h, _ => by simp [strLt] at h
  | _ :: _, _ :: _, [], _, h => by simp [strLt] at h
  | x :: xs, y :: ys, z :: zs, h₁, h₂ => by
    simp only [strLt] at h₁ h₂ ⊢
    by_cases hxy : x < y
    · by_cases hyz : y < z
      · simp [Char.lt_trans hxy hyz]
      · by_cases hzy : z < y
        · simp [hyz, hzy] at h₂
        · have : y = z := Char.le_antisymm (Char.not_lt.1 hzy) (Char.not_lt.1 hyz)
          subst this
          simp [hxy]
    · by_cases hyx : y < x
      · simp [hxy, hyx] at h₁
      · have : x = y := Char.le_antisymm (Char.not_lt.1 hyx) (Char.not_lt.1 hxy)
        subst this
        simp only [hxy, if_false] at h₁
        by_cases hxz : x < z
        · simp [hxz]
        · by_cases hzx : z < x
          · simp [hxz, hzx] at h₂
          · simp only [hxz, hzx, if_false] at h₂ ⊢
            exact strLt_trans xs ys zs h₁ h₂

/-- trichotomy: two strings neither of which is below the other are equal -/
theorem strLt_tri : ∀ a b : Str, strLt a b = false → strLt b a = false → a = b
  | [], [], _, _ => rfl
  | [], _ :: _, h, _ => by simp [strLt] at h
  | _ :: _, [], _, h => by simp [strLt] at h
  | x :: xs, y :: ys, h₁, h₂ => by
    simp only [strLt] at h₁ h₂
    by_cases hxy : x < y
    · simp [hxy] at h₁
    · by_cases hyx : y < x
      · simp [hyx] at h₂
      · have : x = y := Char.le_antisymm (Char.not_lt.1 hyx) (Char.not_lt.1 hxy)
        subst this
        simp only [hxy, if_false] at h₁ h₂
        rw [strLt_tri xs ys h₁ h₂]

theorem strLt_asymm (a b : Str) (h : strLt a b = true) : strLt b a = false := by
  cases hb : strLt b a with
  | false => rfl
  | true =>
    have := strLt_trans a b a h hb
    rw [strLt_irrefl] at this
    cases this

/-- the comparison `sortStrs` sorts by: `a ≤ b` -/
def strLe (a b : Str) : Bool := !strLt b a

theorem sortStrs_eq (l : List Str) : sortStrs l = l.mergeSort strLe := rfl

theorem strLe_trans (a b c : Str) (h₁ : strLe a b = true) (h₂ : strLe b c = true) : strLe a c = true := by
  simp only [strLe, Bool.not_eq_true'] at *
  cases hca : strLt c a with
  | false => rfl
  | true =>
    -- c < a, ¬ b < a, ¬ c < b : then a ≤ b ≤ c < a
    cases hab : strLt a b with
    | true =>
      have := strLt_trans c a b hca hab
      rw [h₂] at this; cases this
    | false =>
      have e : a = b := strLt_tri a b hab h₁
      subst e
      rw [h₂] at hca; cases hca

theorem strLe_total (a b : Str) : (strLe a b || strLe b a) = true := by
  simp only [strLe]
  cases hba : strLt b a with
  | false => rfl
  | true => simp [strLt_asymm b a hba]

theorem strLe_antisymm (a b : Str) (h₁ : strLe a b = true) (h₂ : strLe b a = true) : a = b := by
  simp only [strLe, Bool.not_eq_true'] at *
  exact strLt_tri a b h₂ h₁

/-- `sortStrs l` is a permutation of `l` -/
theorem sortStrs_perm (l : List Str) : (sortStrs l).Perm l := List.mergeSort_perm l _

theorem mem_sortStrs (l : List Str) (x : Str) : x ∈ sortStrs l ↔ x ∈ l := List.mem_mergeSort

/-- `sortStrs l` is sorted: no later element is strictly below an earlier one -/
theorem sortStrs_sorted (l : List Str) :
    (sortStrs l).Pairwise (fun a b => strLt b a = false) := by
  have := List.pairwise_mergeSort (le := strLe) strLe_trans strLe_total l
  rw [sortStrs_eq]
  refine this.imp ?_
  intro a b h
  simpa [strLe] using h

/-- a sorted permutation is unique: the result of `sortStrs` depends only
    on the multiset of its argument -/
theorem sortStrs_congr {l₁ l₂ : List Str} (h : l₁.Perm l₂) : sortStrs l₁ = sortStrs l₂ := by
  have s₁ := List.pairwise_mergeSort (le := strLe) strLe_trans strLe_total l₁
  have s₂ := List.pairwise_mergeSort (le := strLe) strLe_trans strLe_total l₂
  rw [sortStrs_eq, sortStrs_eq]
  refine List.Perm.eq_of_pairwise (le := fun a b => strLe a b = true) ?_ s₁ s₂ ?_
  · intro a b _ _ hab hba
    exact strLe_antisymm a b hab hba
  · exact (List.mergeSort_perm l₁ _).trans (h.trans (List.mergeSort_perm l₂ _).symm)

/-- any sorted permutation of `l` IS `sortStrs l` -/
theorem sortStrs_unique {l s : List Str} (hp : s.Perm l)
    (hs : s.Pairwise (fun a b => strLt b a = false)) : sortStrs l = s := by
  have s₁ := List.pairwise_mergeSort (le := strLe) strLe_trans strLe_total l
  rw [sortStrs_eq]
  refine List.Perm.eq_of_pairwise (le := fun a b => strLe a b = true) ?_ s₁ ?_ ?_
  · intro a b _ _ hab hba
    exact strLe_antisymm a b hab hba
  · refine hs.imp ?_
    intro a b h
    simp [strLe, h]
  · exact (List.mergeSort_perm l _).trans hp.symm

/-- the list of unreachable variables that `Model.errors` walks through does
    not depend on the enumeration order of the sources -/
theorem sortStrs_filter_congr {l₁ l₂ : List Str} (p : Str → Bool) (h : l₁.Perm l₂) :
    sortStrs (l₁.filter p) = sortStrs (l₂.filter p) :=
  sortStrs_congr (h.filter p)

end Penman

/-
  Penman.Proofs.FramingSplit — specification of `splitLines`
  (`_LINE_BREAK_RE.split`) for property C09.
-/
import Penman.Lexer
import Penman.Proofs.LexLemmas
import Penman.Main
namespace Penman.Framing
open Penman

/-! ### equations of `splitLines` with explicit side conditions -/

theorem splitLines_nil : splitLines [] = [[]] := by simp [splitLines]

theorem splitLines_lf (r : Str) : splitLines ('\n' :: r) = [] :: splitLines r := by
  simp [splitLines]

theorem splitLines_crlf (r : Str) : splitLines ('\r' :: '\n' :: r) = [] :: splitLines r := by
  simp [splitLines]

theorem splitLines_cr (r : Str) (h : r.head? ≠ some '\n') :
    splitLines ('\r' :: r) = [] :: splitLines r := by
  apply splitLines.eq_3
  intro rest hr
  subst hr
  simp at h

theorem splitLines_ne_nil (s : Str) : splitLines s ≠ [] := by
  fun_induction splitLines s <;> simp_all

theorem splitLines_other (c : Char) (r l : Str) (ls : List Str) (h1 : c ≠ '\n') (h2 : c ≠ '\r')
    (h : splitLines r = l :: ls) : splitLines (c :: r) = (c :: l) :: ls := by
  rw [splitLines.eq_5 c r (by intro _ hc; exact absurd hc h2) (fun hc => h2 hc) (fun hc => h1 hc), h]

theorem splitLines_exists (r : Str) : ∃ l ls, splitLines r = l :: ls :=
  List.exists_cons_of_ne_nil (splitLines_ne_nil r)

/-! ### `splitLinesT` : pieces together with the terminator that was removed -/

/-- `splitLines` that also returns, for every piece, the terminator that ended it
    (`[]` for the last piece). -/
def splitLinesT : Str → List (Str × Str)
  | [] => [([], [])]
  | '\r' :: '\n' :: rest => ([], ['\r', '\n']) :: splitLinesT rest
  | '\r' :: rest => ([], ['\r']) :: splitLinesT rest
  | '\n' :: rest => ([], ['\n']) :: splitLinesT rest
  | c :: rest =>
    match splitLinesT rest with
    | [] => [([c], [])]
    | (l, t) :: ls => (c :: l, t) :: ls

/-- number of line terminators, CRLF counted once -/
def countBreaks : Str → Nat
  | [] => 0
  | '\r' :: '\n' :: rest => countBreaks rest + 1
  | '\r' :: rest => countBreaks rest + 1
  | '\n' :: rest => countBreaks rest + 1
  | _ :: rest => countBreaks rest

/-- a character that is neither LF nor CR -/
def NoBreak (s : Str) : Prop := ∀ c ∈ s, c ≠ '\n' ∧ c ≠ '\r'

instance (s : Str) : Decidable (NoBreak s) := by unfold NoBreak; infer_instance

/-- the three terminators -/
def IsTerm (t : Str) : Prop := t = ['\n'] ∨ t = ['\r', '\n'] ∨ t = ['\r']

instance (t : Str) : Decidable (IsTerm t) := by unfold IsTerm; infer_instance

theorem splitLinesT_ne_nil (s : Str) : splitLinesT s ≠ [] := by
  fun_induction splitLinesT s <;> simp_all

theorem splitLinesT_nil : splitLinesT [] = [([], [])] := by simp [splitLinesT]
theorem splitLinesT_lf (r : Str) : splitLinesT ('\n' :: r) = ([], ['\n']) :: splitLinesT r := by
  simp [splitLinesT]
theorem splitLinesT_crlf (r : Str) :
    splitLinesT ('\r' :: '\n' :: r) = ([], ['\r', '\n']) :: splitLinesT r := by
  simp [splitLinesT]
theorem splitLinesT_other (c : Char) (r l t : Str) (ls : List (Str × Str)) (h1 : c ≠ '\n')
    (h2 : c ≠ '\r') (h : splitLinesT r = (l, t) :: ls) :
    splitLinesT (c :: r) = (c :: l, t) :: ls := by
  rw [splitLinesT.eq_5 c r (by intro _ hc; exact absurd hc h2) (fun hc => h2 hc) (fun hc => h1 hc), h]

/-- induction principle following the five clauses, with usable side conditions -/
theorem split_cases {motive : Str → Prop}
    (nil : motive [])
    (crlf : ∀ r, motive r → motive ('\r' :: '\n' :: r))
    (cr : ∀ r, r.head? ≠ some '\n' → motive r → motive ('\r' :: r))
    (lf : ∀ r, motive r → motive ('\n' :: r))
    (other : ∀ c r, c ≠ '\n' → c ≠ '\r' → motive r → motive (c :: r)) :
    ∀ s, motive s := by
  intro s
  fun_induction countBreaks s with
  | case1 => exact nil
  | case2 rest ih => exact crlf rest ih
  | case3 rest h ih =>
    refine cr rest ?_ ih
    cases rest with
    | nil => simp
    | cons d ds => intro hd; simp at hd; exact h ds (by rw [hd])
  | case4 rest ih => exact lf rest ih
  | case5 c rest h1 h2 h3 ih => exact other c rest (fun h => h3 h) (fun h => h2 h) ih

theorem splitLinesT_cr (r : Str) (h : r.head? ≠ some '\n') :
    splitLinesT ('\r' :: r) = ([], ['\r']) :: splitLinesT r := by
  apply splitLinesT.eq_3
  intro rest hr
  subst hr
  simp at h

theorem splitLinesT_exists (r : Str) : ∃ l t ls, splitLinesT r = (l, t) :: ls := by
  obtain ⟨⟨l, t⟩, ls, h⟩ := List.exists_cons_of_ne_nil (splitLinesT_ne_nil r)
  exact ⟨l, t, ls, h⟩

theorem countBreaks_cr (r : Str) (h : r.head? ≠ some '\n') :
    countBreaks ('\r' :: r) = countBreaks r + 1 := by
  apply countBreaks.eq_3
  intro rest hr
  subst hr
  simp at h

theorem countBreaks_other (c : Char) (r : Str) (h1 : c ≠ '\n') (h2 : c ≠ '\r') :
    countBreaks (c :: r) = countBreaks r :=
  countBreaks.eq_5 c r (by intro _ hc; exact absurd hc h2) (fun hc => h2 hc) (fun hc => h1 hc)

/-- the pieces of `splitLinesT` are those of `splitLines` -/
theorem splitLinesT_fst (s : Str) : (splitLinesT s).map Prod.fst = splitLines s := by
  induction s using split_cases with
  | nil => simp [splitLines, splitLinesT]
  | crlf r ih => simp [splitLines_crlf, splitLinesT_crlf, ih]
  | cr r h ih => simp [splitLines_cr r h, splitLinesT_cr r h, ih]
  | lf r ih => simp [splitLines_lf, splitLinesT_lf, ih]
  | other c r h1 h2 ih =>
    obtain ⟨l, t, ls, h⟩ := splitLinesT_exists r
    rw [h] at ih
    rw [splitLinesT_other c r l t ls h1 h2 h, splitLines_other c r l (ls.map Prod.fst) h1 h2 ih.symm]
    simp

/-- re-joining every piece with the terminator that was removed gives the text back -/
theorem splitLinesT_join (s : Str) :
    ((splitLinesT s).map fun p => p.1 ++ p.2).flatten = s := by
  induction s using split_cases with
  | nil => simp [splitLinesT]
  | crlf r ih => simp [splitLinesT_crlf, ih]
  | cr r h ih => simp [splitLinesT_cr r h, ih]
  | lf r ih => simp [splitLinesT_lf, ih]
  | other c r h1 h2 ih =>
    obtain ⟨l, t, ls, h⟩ := splitLinesT_exists r
    rw [h] at ih
    rw [splitLinesT_other c r l t ls h1 h2 h]
    simp only [List.map_cons, List.flatten_cons] at ih ⊢
    simp [ih]

/-- no piece contains LF or CR -/
theorem splitLinesT_noBreak (s : Str) : ∀ p ∈ splitLinesT s, NoBreak p.1 := by
  induction s using split_cases with
  | nil => simp [splitLinesT, NoBreak]
  | crlf r ih =>
    rw [splitLinesT_crlf]; intro p hp; simp at hp; rcases hp with rfl | hp
    · simp [NoBreak]
    · exact ih p hp
  | cr r h ih =>
    rw [splitLinesT_cr r h]; intro p hp; simp at hp; rcases hp with rfl | hp
    · simp [NoBreak]
    · exact ih p hp
  | lf r ih =>
    rw [splitLinesT_lf]; intro p hp; simp at hp; rcases hp with rfl | hp
    · simp [NoBreak]
    · exact ih p hp
  | other c r h1 h2 ih =>
    obtain ⟨l, t, ls, h⟩ := splitLinesT_exists r
    rw [h] at ih
    rw [splitLinesT_other c r l t ls h1 h2 h]
    intro p hp
    simp at hp
    rcases hp with rfl | hp
    · have := ih (l, t) (by simp)
      intro d hd
      simp at hd
      rcases hd with rfl | hd
      · exact ⟨h1, h2⟩
      · exact this d hd
    · exact ih p (by simp [hp])

/-- every pair but the last carries one of the three terminators, the last carries none -/
def TermsOk : List (Str × Str) → Prop
  | [] => False
  | [p] => p.2 = []
  | p :: q :: r => IsTerm p.2 ∧ TermsOk (q :: r)

instance TermsOk.dec : ∀ l : List (Str × Str), Decidable (TermsOk l)
  | [] => isFalse (by simp [TermsOk])
  | [p] => by unfold TermsOk; infer_instance
  | p :: q :: r =>
    have := TermsOk.dec (q :: r)
    by unfold TermsOk; infer_instance

theorem TermsOk.cons {p : Str × Str} {l : List (Str × Str)} (hp : IsTerm p.2) (hl : TermsOk l) :
    TermsOk (p :: l) := by
  cases l with
  | nil => exact absurd hl (by simp [TermsOk])
  | cons q r => exact ⟨hp, hl⟩

theorem splitLinesT_terms (s : Str) : TermsOk (splitLinesT s) := by
  induction s using split_cases with
  | nil => simp [splitLinesT, TermsOk]
  | crlf r ih => rw [splitLinesT_crlf]; exact TermsOk.cons (by simp [IsTerm]) ih
  | cr r h ih => rw [splitLinesT_cr r h]; exact TermsOk.cons (by simp [IsTerm]) ih
  | lf r ih => rw [splitLinesT_lf]; exact TermsOk.cons (by simp [IsTerm]) ih
  | other c r h1 h2 ih =>
    obtain ⟨l, t, ls, h⟩ := splitLinesT_exists r
    rw [h] at ih
    rw [splitLinesT_other c r l t ls h1 h2 h]
    cases ls with
    | nil => simpa [TermsOk] using ih
    | cons q qs => exact ih

theorem TermsOk.dropLast : ∀ {l : List (Str × Str)}, TermsOk l → ∀ p ∈ l.dropLast, IsTerm p.2
  | [], h => by simp
  | [p], h => by simp
  | p :: q :: r, h => by
    intro x hx
    simp only [List.dropLast_cons_cons, List.mem_cons] at hx
    rcases hx with rfl | hx
    · exact h.1
    · exact TermsOk.dropLast h.2 x (by simpa using hx)

theorem TermsOk.getLast? : ∀ {l : List (Str × Str)}, TermsOk l → l.getLast?.map (·.2) = some []
  | [], h => by simp [TermsOk] at h
  | [p], h => by simpa [TermsOk] using h
  | p :: q :: r, h => by
    rw [List.getLast?_cons_cons]; exact TermsOk.getLast? h.2

/-- maximal munch (what makes the decomposition unique): the text after a lone-CR
    terminator does not start with LF. -/
def MunchOk : List (Str × Str) → Prop
  | [] => True
  | [_] => True
  | p :: q :: r => ¬ (p.2 = ['\r'] ∧ q.1 = [] ∧ q.2 = ['\n']) ∧ MunchOk (q :: r)

instance MunchOk.dec : ∀ l : List (Str × Str), Decidable (MunchOk l)
  | [] => isTrue trivial
  | [_] => isTrue trivial
  | p :: q :: r =>
    have := MunchOk.dec (q :: r)
    by unfold MunchOk; infer_instance

theorem splitLinesT_head_of_head (r : Str) (h : r.head? ≠ some '\n') (q : Str × Str)
    (post : List (Str × Str)) (hq : splitLinesT r = q :: post) : ¬ (q.1 = [] ∧ q.2 = ['\n']) := by
  cases r with
  | nil => simp [splitLinesT] at hq; rcases hq with ⟨rfl, _⟩; simp
  | cons d ds =>
    have hd : d ≠ '\n' := by simpa using h
    by_cases hc : d = '\r'
    · subst hc
      cases ds with
      | nil => rw [splitLinesT_cr [] (by simp)] at hq; simp at hq; rcases hq with ⟨rfl, _⟩; simp
      | cons e es =>
        by_cases he : e = '\n'
        · subst he; rw [splitLinesT_crlf] at hq; simp at hq; rcases hq with ⟨rfl, _⟩; simp
        · rw [splitLinesT_cr (e :: es) (by simpa using he)] at hq
          simp at hq; rcases hq with ⟨rfl, _⟩; simp
    · obtain ⟨l, t, ls, h'⟩ := splitLinesT_exists ds
      rw [splitLinesT_other d ds l t ls hd hc h'] at hq
      simp at hq; rcases hq with ⟨rfl, _⟩; simp

theorem splitLinesT_munch (s : Str) : MunchOk (splitLinesT s) := by
  induction s using split_cases with
  | nil => simp [splitLinesT, MunchOk]
  | crlf r ih =>
    rw [splitLinesT_crlf]
    obtain ⟨l, t, ls, h⟩ := splitLinesT_exists r
    rw [h] at ih ⊢
    exact ⟨by simp, ih⟩
  | cr r hh ih =>
    rw [splitLinesT_cr r hh]
    obtain ⟨l, t, ls, h⟩ := splitLinesT_exists r
    rw [h] at ih ⊢
    refine ⟨?_, ih⟩
    intro hx
    exact splitLinesT_head_of_head r hh (l, t) ls h hx.2
  | lf r ih =>
    rw [splitLinesT_lf]
    obtain ⟨l, t, ls, h⟩ := splitLinesT_exists r
    rw [h] at ih ⊢
    exact ⟨by simp, ih⟩
  | other c r h1 h2 ih =>
    obtain ⟨l, t, ls, h⟩ := splitLinesT_exists r
    rw [h] at ih
    rw [splitLinesT_other c r l t ls h1 h2 h]
    cases ls with
    | nil => simp [MunchOk]
    | cons q qs => exact ⟨by simpa [MunchOk] using ih.1, ih.2⟩

/-! ### `splitLines` itself -/

theorem splitLines_noBreak (s : Str) : ∀ l ∈ splitLines s, NoBreak l := by
  intro l hl
  rw [← splitLinesT_fst] at hl
  simp only [List.mem_map] at hl
  obtain ⟨p, hp, rfl⟩ := hl
  exact splitLinesT_noBreak s p hp

theorem splitLinesT_length (s : Str) : (splitLinesT s).length = (splitLines s).length := by
  rw [← splitLinesT_fst]; simp

/-- number of pieces = number of terminators + 1 -/
theorem splitLines_length (s : Str) : (splitLines s).length = countBreaks s + 1 := by
  induction s using split_cases with
  | nil => simp [splitLines, countBreaks]
  | crlf r ih => simp [splitLines_crlf, countBreaks, ih]
  | cr r h ih => simp [splitLines_cr r h, countBreaks_cr r h, ih]
  | lf r ih => simp [splitLines_lf, countBreaks, ih]
  | other c r h1 h2 ih =>
    obtain ⟨l, ls, h⟩ := splitLines_exists r
    rw [splitLines_other c r l ls h1 h2 h, countBreaks_other c r h1 h2, ← ih, h]
    simp

/-- the terminators counted by `countBreaks` are exactly the non-empty second components -/
theorem splitLinesT_count (s : Str) :
    ((splitLinesT s).filter fun p => !p.2.isEmpty).length = countBreaks s := by
  induction s using split_cases with
  | nil => simp [splitLinesT, countBreaks]
  | crlf r ih => simp [splitLinesT_crlf, countBreaks, ih]
  | cr r h ih => simp [splitLinesT_cr r h, countBreaks_cr r h, ih]
  | lf r ih => simp [splitLinesT_lf, countBreaks, ih]
  | other c r h1 h2 ih =>
    obtain ⟨l, t, ls, h⟩ := splitLinesT_exists r
    rw [splitLinesT_other c r l t ls h1 h2 h, countBreaks_other c r h1 h2, ← ih, h]
    simp only [List.filter_cons]
    split <;> simp

/-- LF-only text: the terminators are the LF characters -/
theorem countBreaks_lfOnly (s : Str) (h : '\r' ∉ s) : countBreaks s = s.count '\n' := by
  induction s with
  | nil => simp [countBreaks]
  | cons c r ih =>
    have hr : '\r' ∉ r := fun hh => h (by simp [hh])
    have hc : c ≠ '\r' := fun hh => h (by simp [hh])
    by_cases hn : c = '\n'
    · subst hn; simp [countBreaks, ih hr]
    · rw [countBreaks_other c r hn hc, ih hr, List.count_cons]; simp [hn]

/-- any character other than LF and CR (VT, FF, NEL, LS, PS, FS …) never splits -/
theorem splitLines_noBreak_eq (s : Str) (h : NoBreak s) : splitLines s = [s] := by
  induction s with
  | nil => simp [splitLines]
  | cons c r ih =>
    have hc := h c (by simp)
    have hr : NoBreak r := fun d hd => h d (by simp [hd])
    rw [splitLines_other c r r [] hc.1 hc.2 (ih hr)]

/-- a single piece means there was no terminator, and conversely -/
theorem splitLines_singleton_iff (s : Str) : splitLines s = [s] ↔ NoBreak s := by
  constructor
  · intro h
    exact splitLines_noBreak s s (by rw [h]; simp)
  · exact splitLines_noBreak_eq s

/-- LF-only text: `splitLines` is `str.split('\n')` -/
theorem splitLines_lfOnly (s : Str) (h : '\r' ∉ s) : splitLines s = splitChar '\n' s := by
  induction s with
  | nil => simp [splitLines, splitChar]
  | cons c r ih =>
    have hr : '\r' ∉ r := fun hh => h (by simp [hh])
    have hc : c ≠ '\r' := fun hh => h (by simp [hh])
    by_cases hn : c = '\n'
    · subst hn; simp [splitLines_lf, splitChar, ih hr]
    · obtain ⟨l, ls, h'⟩ := splitLines_exists r
      rw [splitLines_other c r l ls hn hc h', splitChar]
      simp only [beq_iff_eq, hn, ↓reduceIte]
      rw [← ih hr, h']

theorem joinStr_cons_cons (sep x : Str) (l : List Str) (h : l ≠ []) :
    joinStr sep (x :: l) = x ++ sep ++ joinStr sep l := by
  cases l with
  | nil => exact absurd rfl h
  | cons y r => simp [joinStr]

/-- LF-only text: joining the pieces with LF gives the text back -/
theorem splitLines_join_lf (s : Str) (h : '\r' ∉ s) : joinStr ['\n'] (splitLines s) = s := by
  induction s with
  | nil => simp [splitLines, joinStr]
  | cons c r ih =>
    have hr : '\r' ∉ r := fun hh => h (by simp [hh])
    have hc : c ≠ '\r' := fun hh => h (by simp [hh])
    have hne := splitLines_ne_nil r
    by_cases hn : c = '\n'
    · subst hn
      rw [splitLines_lf, joinStr_cons_cons _ _ _ hne, ih hr]; simp
    · have ih' := ih hr
      obtain ⟨l, ls, h'⟩ := splitLines_exists r
      rw [splitLines_other c r l ls hn hc h']
      rw [h'] at ih'
      cases ls with
      | nil => simp [joinStr] at ih' ⊢; exact ih'
      | cons y ys => simp [joinStr] at ih' ⊢; exact ih'

/-! ### splitting a concatenation -/

/-- a text that does not end in CR, followed by LF and more text, splits piecewise -/
theorem splitLines_append_lf (a b : Str) (h : a.getLast? ≠ some '\r') :
    splitLines (a ++ '\n' :: b) = splitLines a ++ splitLines b := by
  induction a using split_cases with
  | nil => simp [splitLines_lf, splitLines_nil]
  | crlf r ih =>
    have hr : r.getLast? ≠ some '\r' := by
      cases r with
      | nil => simp
      | cons d ds => simpa [List.getLast?_cons_cons] using h
    simp only [List.cons_append, splitLines_crlf, ih hr]
  | cr r hh ih =>
    cases r with
    | nil => simp at h
    | cons d ds =>
      have hr : (d :: ds).getLast? ≠ some '\r' := by simpa [List.getLast?_cons_cons] using h
      rw [List.cons_append, splitLines_cr _ (by simpa using hh), splitLines_cr _ hh, ih hr]; simp
  | lf r ih =>
    have hr : r.getLast? ≠ some '\r' := by
      cases r with
      | nil => simp
      | cons d ds => simpa [List.getLast?_cons_cons] using h
    simp only [List.cons_append, splitLines_lf, ih hr]
  | other c r h1 h2 ih =>
    have hr : r.getLast? ≠ some '\r' := by
      cases r with
      | nil => simp
      | cons d ds => simpa [List.getLast?_cons_cons] using h
    obtain ⟨l, ls, h'⟩ := splitLines_exists r
    rw [List.cons_append, splitLines_other c (r ++ '\n' :: b) l (ls ++ splitLines b) h1 h2
      (by rw [ih hr, h']; simp), splitLines_other c r l ls h1 h2 h']
    simp

/-- a trailing LF adds one empty final piece -/
theorem splitLines_append_lf_nil (a : Str) (h : a.getLast? ≠ some '\r') :
    splitLines (a ++ ['\n']) = splitLines a ++ [[]] := by
  rw [splitLines_append_lf a [] h, splitLines_nil]

/-! ### the decomposition is unique: `splitLines` splits *exactly* at LF, CRLF, CR -/

theorem splitLinesT_noBreak_eq (s : Str) (h : NoBreak s) : splitLinesT s = [(s, [])] := by
  induction s with
  | nil => simp [splitLinesT]
  | cons c r ih =>
    have hc := h c (by simp)
    have hr : NoBreak r := fun d hd => h d (by simp [hd])
    rw [splitLinesT_other c r r [] [] hc.1 hc.2 (ih hr)]

/-- a break-free piece, one terminator, then more text (not starting with LF if the
    terminator is a lone CR) -/
theorem splitLinesT_piece (l t rest : Str) (hl : NoBreak l) (ht : IsTerm t)
    (hm : t = ['\r'] → rest.head? ≠ some '\n') :
    splitLinesT (l ++ t ++ rest) = (l, t) :: splitLinesT rest := by
  induction l with
  | nil =>
    rcases ht with rfl | rfl | rfl
    · simp [splitLinesT_lf]
    · simp [splitLinesT_crlf]
    · simp only [List.nil_append, List.cons_append]
      exact splitLinesT_cr rest (hm rfl)
  | cons c r ih =>
    have hc := hl c (by simp)
    have hr : NoBreak r := fun d hd => hl d (by simp [hd])
    have := ih hr
    simp only [List.cons_append, List.append_assoc] at this ⊢
    exact splitLinesT_other c _ r t _ hc.1 hc.2 this

/-- any decomposition of `s` into break-free pieces with LF / CRLF / CR terminators
    (the last piece unterminated, no lone CR directly before an LF) is the one
    `splitLinesT` computes -/
theorem splitLinesT_unique : ∀ (ps : List (Str × Str)) (s : Str),
    (∀ p ∈ ps, NoBreak p.1) → TermsOk ps → MunchOk ps →
    (ps.map fun p => p.1 ++ p.2).flatten = s → splitLinesT s = ps
  | [], _, _, ht, _, _ => by simp [TermsOk] at ht
  | [p], s, hn, ht, _, hj => by
    obtain ⟨l, t⟩ := p
    simp only [TermsOk] at ht
    subst ht
    simp only [List.map_cons, List.map_nil, List.flatten_cons, List.flatten_nil,
      List.append_nil] at hj
    subst hj
    exact splitLinesT_noBreak_eq l (hn (l, []) (by simp))
  | p :: q :: r, s, hn, ht, hm, hj => by
    obtain ⟨l, t⟩ := p
    have ih := splitLinesT_unique (q :: r) _ (fun x hx => hn x (by simp [hx])) ht.2 hm.2 rfl
    simp only [List.map_cons, List.flatten_cons] at hj ih
    subst hj
    have hq := hn q (by simp)
    have := splitLinesT_piece l t (q.1 ++ q.2 ++ (r.map fun p => p.1 ++ p.2).flatten)
      (hn (l, t) (by simp)) ht.1 (by
        intro hcr hhead
        apply hm.1
        refine ⟨hcr, ?_⟩
        obtain ⟨ql, qt⟩ := q
        cases ql with
        | nil =>
          refine ⟨rfl, ?_⟩
          cases r with
          | nil =>
            have : qt = [] := by simpa [TermsOk] using ht.2
            subst this
            simp at hhead
          | cons r0 rs =>
            have hqt : IsTerm qt := ht.2.1
            rcases hqt with rfl | rfl | rfl
            · rfl
            · simp at hhead
            · simp at hhead
        | cons d ds =>
          simp only [List.cons_append, List.head?_cons, Option.some.injEq] at hhead
          exact absurd hhead (hq d (by simp)).1)
    simp only [List.append_assoc] at this ih ⊢
    rw [this, ih]

end Penman.Framing

/-
  Penman.Proofs.NormalFormVarsCli — the command with `--make-variables FMT`: both passes on one tree,
  with hypotheses on the FIRST pass only.  The facts the second pass needs about the relabelled tree
  (`WfLayout`, no empty concept slot, grammar validity, fixed point of canonicalisation / graph stages /
  rearrangement) are transported along the renaming `RV.renNode vm` (C10 `reset_shape`):
  `NormalFormVarsLayout.lean` (a), `NormalFormVarsTree.lean` (b, c, d), `NormalFormVarsStages.lean` (e).
-/
import Penman.Proofs.NormalFormGraphVars
import Penman.Proofs.NormalFormVarsLayout
import Penman.Proofs.NormalFormVarsTree
import Penman.Proofs.NormalFormVarsStages

namespace Penman
namespace C20gen
open Penman.NF Penman.Cfg Penman.C03Text Penman.Framing Penman.RV

/-! ### the variables of a grammar-valid tree are SYMBOL texts -/

mutual
theorem wfText_nodes_symbol (cfg : LexCfg) : ∀ n : Node, Spec.wfNodeB cfg n = true →
    ∀ p ∈ n.nodes, Spec.symbolB cfg p.1 = true
  | .mk none bs, h, p, hp => by
    cases bs with
    | nil => simp [Node.nodes, Branches.nodes] at hp
    | atom r a rest => simp [Spec.wfNodeB] at h
    | sub r n rest => simp [Spec.wfNodeB] at h
  | .mk (some v) bs, h, p, hp => by
    simp only [Spec.wfNodeB, Bool.and_eq_true] at h
    simp only [Node.nodes, List.singleton_append, List.mem_cons] at hp
    rcases hp with rfl | hp
    · exact h.1
    · exact wfText_top_symbol cfg bs h.2 p hp
theorem wfText_top_symbol (cfg : LexCfg) : ∀ bs : Branches, Spec.wfTopB cfg bs = true →
    ∀ p ∈ bs.nodes, Spec.symbolB cfg p.1 = true
  | .nil, _, p, hp => by simp [Branches.nodes] at hp
  | .atom r a rest, h, p, hp => by
    simp only [Spec.wfTopB, Bool.and_eq_true] at h
    simp only [Branches.nodes] at hp
    exact wfText_edges_symbol cfg rest h.2 p hp
  | .sub r n rest, h, p, hp => by
    simp only [Spec.wfTopB, Bool.and_eq_true] at h
    simp only [Branches.nodes, List.mem_append] at hp
    rcases hp with hp | hp
    · exact wfText_nodes_symbol cfg n h.1.2 p hp
    · exact wfText_edges_symbol cfg rest h.2 p hp
theorem wfText_edges_symbol (cfg : LexCfg) : ∀ bs : Branches, Spec.wfEdgesB cfg bs = true →
    ∀ p ∈ bs.nodes, Spec.symbolB cfg p.1 = true
  | .nil, _, p, hp => by simp [Branches.nodes] at hp
  | .atom r a rest, h, p, hp => by
    simp only [Spec.wfEdgesB, Bool.and_eq_true] at h
    simp only [Branches.nodes] at hp
    exact wfText_edges_symbol cfg rest h.2 p hp
  | .sub r n rest, h, p, hp => by
    simp only [Spec.wfEdgesB, Bool.and_eq_true] at h
    simp only [Branches.nodes, List.mem_append] at hp
    rcases hp with hp | hp
    · exact wfText_nodes_symbol cfg n h.1.2 p hp
    · exact wfText_edges_symbol cfg rest h.2 p hp
end

theorem wfText_vars_symbol (cfg : LexCfg) (n : Node) (h : Spec.WfTreeText cfg n) :
    ∀ v ∈ n.vars, Spec.symbolB cfg v = true := by
  intro v hv
  simp only [Node.vars, List.mem_map] at hv
  obtain ⟨p, hp, rfl⟩ := hv
  exact wfText_nodes_symbol cfg n h p hp

theorem symbol_ne_nil {cfg : LexCfg} {s : Str} (h : Spec.symbolB cfg s = true) : s ≠ [] := by
  intro e; subst e; simp [Spec.symbolB] at h

/-! ### what the relabelling gives: the hypotheses of the transport lemmas -/

/-- the facts about the variable map used by all transport lemmas -/
structure ResetFacts (cfg : LexCfg) (m : Model) (vm : AList Str Str) (n n' : Node) : Prop where
  shape : n' = renNode vm n
  vmOk : VmOk vm n.vars
  mappable : nodeMappable vm n = true
  isoOk : nodeIsoOk m vm (n.vars.map (renVar vm)) n = true
  newSym : ∀ k nv, AList.get? vm k = some nv → Spec.symbolB cfg nv = true

theorem resetFacts {cfg : LexCfg} (isAlpha : Char → Bool) (lower : Char → Str) (fmt : Fmt) (m : Model)
    (n n' : Node) (vm : AList Str Str)
    (hvm : buildVarmap isAlpha lower fmt n.nodes [] [] = some vm)
    (h : n.resetVariables isAlpha lower fmt = .ok n')
    (hwf : WfReset m vm n = true)
    (hnames : ∀ v ∈ n'.vars, Spec.symbolB cfg v = true) : ResetFacts cfg m vm n n' := by
  obtain ⟨vm', hvm', hn', hall, hvars, _⟩ := reset_shape isAlpha lower fmt n n' h
  rw [hvm] at hvm'
  injection hvm' with hvm'
  subst hvm'
  obtain ⟨_, _, hkeys, hnodup, _, _⟩ := varmap_injective isAlpha lower fmt n vm hvm
  simp only [WfReset, Bool.and_eq_true, List.all_eq_true, bne_iff_ne, ne_eq, Bool.not_eq_true',
    List.contains_eq_mem, decide_eq_false_iff_not] at hwf
  obtain ⟨⟨hq, hnews⟩, hiso⟩ := hwf
  have hv : VmOk vm n.vars :=
    { keys := fun x => (hkeys x).symm
      inj := hnodup
      keysQ := hq
      newsOk := fun k nv hg => hnews nv (List.mem_map.2 ⟨(k, nv), RV.mem_of_get? hg, rfl⟩) }
  refine ⟨hn', hv, (nodeMappable_iff vm n).2 ⟨hall, fun v hv' => (hkeys v).2 hv'⟩, hiso, ?_⟩
  intro k nv hg
  apply hnames
  rw [hvars]
  exact (mem_news hv).2 ⟨k, hg⟩

/-! ### one graph, both passes -/

/-- **`--make-variables`, one graph, both passes, hypotheses on the first pass only.**  The first pass
    decodes/transforms `T` to `g1`, encodes it to `T1`; `R = nfTree m re T1` is the rearranged tree and
    `N'` its relabelling.  Hypotheses: those of `tree_normal_form_stages` on `g1` and `R`, C10's `WfReset`
    for the variable map, and new names that are SYMBOL texts. -/
theorem tree_normal_form_vars_first {cfg : LexCfg} (hwc : Spec.FmtCfgWf cfg = true) (u : UTables) (m : Model)
    (canon : Bool) (re : Option (List KeyFn × Bool)) (rE dE rA : Bool) (fmt : Fmt) (i : Indent) (c : Bool)
    (hw : ModelWf m) (hnoop : m.noop = false) (T : Tree) (g1 : Graph) (T1 : Tree) (N' : Node)
    (vm : AList Str Str)
    (hin : processIn u m (varOpts canon re rE dE rA fmt i c) T = .ok g1)
    (hcf : configure m g1 none = .ok T1)
    (hg : WfGraph m g1) (hL : LayoutOK m g1) (htx : GraphTextOK cfg u.isSpace m g1) (hpv : Cfg.PushVars g1)
    (hnum : NoNum g1)
    (hcanon : canonStep m canon (nfTree m re T1) = .ok (nfTree m re T1))
    (hfix : StagesFixed u.isAlpha m (stageOpts canon re rE dE rA i c) (nfTree m re T1))
    (hvm : buildVarmap u.isAlpha u.lower fmt (nfTree m re T1).node.nodes [] [] = some vm)
    (hrv : (nfTree m re T1).node.resetVariables u.isAlpha u.lower fmt = .ok N')
    (hreset : WfReset m vm (nfTree m re T1).node = true)
    (hnames : ∀ v ∈ N'.vars, Spec.symbolB cfg v = true) :
    processTree u m (varOpts canon re rE dE rA fmt i c) T = .ok (format ⟨N', T1.metadata⟩ i c, 0) ∧
    Spec.WfTreeText cfg N' ∧ Spec.WfMeta u.isSpace T1.metadata ∧
    processTree u m (varOpts canon re rE dE rA fmt i c) ⟨N', T1.metadata⟩ =
      .ok (format ⟨N', T1.metadata⟩ i c, 0) := by
  have hwf := configure_noNum hw hg hpv hnum hcf
  obtain ⟨hl, hnn, hme⟩ := configured_wfLayout u.isAlpha hw hnoop hg hL hpv hcf
  obtain ⟨ht1, ht2⟩ := configured_tree_wf (cfg := cfg) hw hg htx hpv hcf
  rw [hwf] at hl hnn ht1
  have hR := nfTree_of_noNull m re T1 hnn
  have hlR := nfTree_wfLayout u m re T1 hl
  have hnR := nfTree_noNull m re T1
  have htR := nfTree_wfText m re cfg T1 ht1
  have hmdR : (nfTree m re T1).metadata = T1.metadata := nfTree_metadata m re T1
  have hidR : rearrangeOpt m re (nfTree m re T1) = nfTree m re T1 := by
    rw [hR]; exact rearrangeOpt_idem m re T1
  have F := resetFacts (cfg := cfg) u.isAlpha u.lower fmt m _ N' vm hvm hrv hreset hnames
  have hsymK : ∀ k ∈ AList.keys vm, Spec.symbolB cfg k = true := fun k hk =>
    wfText_vars_symbol cfg _ htR k ((F.vmOk.keys k).2 hk)
  have hne : ∀ k nv, AList.get? vm k = some nv → nv ≠ [] := fun k nv hg => symbol_ne_nil (F.newSym k nv hg)
  have eR : (⟨(nfTree m re T1).node, T1.metadata⟩ : Tree) = nfTree m re T1 := by
    rw [← hmdR]
  -- (a)
  have hl' : WfLayout u.isAlpha m N' := by
    rw [F.shape]; exact wfLayout_ren u.isAlpha m _ F.vmOk hne F.mappable F.isoOk hlR
  have hnn' : noNullN N' = true := by rw [F.shape, noNullN_ren]; exact hnR
  -- (b)
  have hwt' : Spec.WfTreeText cfg N' := by
    rw [F.shape]
    exact wfTreeText_ren hwc vm _ F.newSym (fun k hk => F.vmOk.keysQ k hk) htR
  -- (d)
  have hcanon' : canonStep m canon ⟨N', T1.metadata⟩ = .ok ⟨N', T1.metadata⟩ := by
    rw [F.shape]
    exact canonStep_ren_fixed m canon vm _ _ (by rw [eR]; exact hcanon)
  -- (c)
  have hre' : rearrangeOpt m re ⟨N', T1.metadata⟩ = ⟨N', T1.metadata⟩ := by
    rw [F.shape]
    exact rearrangeOpt_ren_fixed u.isAlpha m re vm _ _ F.vmOk F.mappable F.isoOk hlR.1
      (fun k hk => tilde_not_in_symbol hwc (hsymK k hk)) (by rw [eR]; exact hidR)
  -- (e)
  have hfix' : StagesFixed u.isAlpha m (varOpts canon re rE dE rA fmt i c) ⟨N', T1.metadata⟩ := by
    intro g' hg'
    rw [F.shape, interpret_ren u.isAlpha m vm _ T1.metadata F.vmOk F.mappable F.isoOk] at hg'
    cases hi : interpret u.isAlpha m ⟨(nfTree m re T1).node, T1.metadata⟩ with
    | error e => rw [hi] at hg'; cases hg'
    | ok g =>
      rw [hi] at hg'
      injection hg' with hg'
      subst hg'
      have hidle : StagesIdle m (stageOpts canon re rE dE rA i c) g := hfix g (by rw [← eR]; exact hi)
      have := stagesIdle_interpret_ren u.isAlpha m (stageOpts canon re rE dE rA i c) vm _ T1.metadata g
        F.vmOk F.mappable F.isoOk hi hidle
      exact ⟨this.reify, this.dereify, this.attrs⟩
  have hrv' : (rearrangeOpt m re T1).node.resetVariables u.isAlpha u.lower fmt = .ok N' := by
    rw [← hR]; exact hrv
  have hnd : (rearrangeOpt m re T1).node.vars.Nodup := by rw [← hR]; exact hlR.2.1
  exact tree_normal_form_vars (cfg := cfg) u m canon re rE dE rA fmt i c T g1 T1 N' hin hcf hnd hrv' hl' hnn'
    hwt' ht2 hcanon' hfix' hre'

end C20gen
end Penman

/-
  Penman.Proofs.RearrangeInterp — `interpret` is insensitive to branch order:
  for `NodePerm`-related trees the triples are a permutation, the concept flag
  is the same and the epidata agree up to order and the position of `POP`.
-/
import Penman.Proofs.Rearrange
namespace Penman.RA

/-! ### `interpretNode` uses `variables` only through membership -/

theorem atomInVars_congr {vs vs' : List Str} (h : ∀ x, x ∈ vs ↔ x ∈ vs') (a : Atom) :
    atomInVars vs a = atomInVars vs' a := by
  cases a <;> simp [atomInVars, h]

mutual
theorem interpretNode_congr (isAlpha : Char → Bool) (m : Model) {vs vs' : List Str}
    (h : ∀ x, x ∈ vs ↔ x ∈ vs') : ∀ n : Node, interpretNode isAlpha m vs n = interpretNode isAlpha m vs' n
  | .mk v bs => by
    cases v with
    | none => simp [interpretNode]
    | some var => simp only [interpretNode, interpretBranches_congr isAlpha m h var bs]
theorem interpretBranches_congr (isAlpha : Char → Bool) (m : Model) {vs vs' : List Str}
    (h : ∀ x, x ∈ vs ↔ x ∈ vs') (var : Str) :
    ∀ bs : Branches, interpretBranches isAlpha m vs var bs = interpretBranches isAlpha m vs' var bs
  | .nil => by simp [interpretBranches]
  | .atom r a rest => by
    simp only [interpretBranches, atomInVars_congr h, interpretBranches_congr isAlpha m h var rest]
  | .sub r n rest => by
    simp only [interpretBranches, interpretNode_congr isAlpha m h n,
      interpretBranches_congr isAlpha m h var rest]
end

/-! ### `interpretBranches` as a fold of single-branch results -/

/-- what one branch contributes -/
def branchOut (isAlpha : Char → Bool) (m : Model) (vs : List Str) (var : Str) : Branch → Except PyErr InterpOut
  | (role, .atom a) => do
    let (role, repis) ← processRole isAlpha role
    let (tgt, tepis) ← processAtomic isAlpha a
    let triple : Triple := ⟨var, role, tgt⟩
    let triple := if m.isRoleInverted role && atomInVars vs tgt then m.deinvert triple else triple
    pure ⟨role = CONCEPT_ROLE, [triple], [(triple, repis ++ tepis)]⟩
  | (role, .node n) => do
    let (role, repis) ← processRole isAlpha role
    match n.var with
    | none => throw (.unmodelled "node without a variable")
    | some nv =>
      let triple := m.deinvert ⟨var, role, .str nv⟩
      let (ntriples, nepis) ← interpretNode isAlpha m vs n
      pure ⟨role = CONCEPT_ROLE, triple :: ntriples, (triple, repis ++ [.push nv]) :: appendPopLast nepis⟩

def _root_.Penman.InterpOut.combine (o out : InterpOut) : InterpOut :=
  ⟨out.hasConcept || o.hasConcept, o.triples ++ out.triples, o.epidata ++ out.epidata⟩

theorem Except.bind_eq_ok_iff {ε α β : Type} {x : Except ε α} {f : α → Except ε β} {b : β} :
    (x >>= f) = .ok b ↔ ∃ a, x = .ok a ∧ f a = .ok b := by
  cases x <;> simp [bind, Except.bind]

theorem interpretBranches_atom (isAlpha : Char → Bool) (m : Model) (vs : List Str) (var r : Str) (a : Atom)
    (rest : Branches) :
    interpretBranches isAlpha m vs var (.atom r a rest) =
      (branchOut isAlpha m vs var (r, .atom a) >>= fun o =>
        interpretBranches isAlpha m vs var rest >>= fun out => pure (o.combine out)) := by
  simp only [interpretBranches, branchOut]
  cases processRole isAlpha r with
  | error e => rfl
  | ok p =>
    obtain ⟨role, repis⟩ := p
    cases processAtomic isAlpha a with
    | error e => rfl
    | ok q =>
      obtain ⟨tgt, tepis⟩ := q
      cases interpretBranches isAlpha m vs var rest with
      | error e => rfl
      | ok out => simp [bind, Except.bind, pure, Except.pure, InterpOut.combine]

theorem interpretBranches_sub (isAlpha : Char → Bool) (m : Model) (vs : List Str) (var r : Str) (n : Node)
    (rest : Branches) :
    interpretBranches isAlpha m vs var (.sub r n rest) =
      (branchOut isAlpha m vs var (r, .node n) >>= fun o =>
        interpretBranches isAlpha m vs var rest >>= fun out => pure (o.combine out)) := by
  simp only [interpretBranches, branchOut]
  cases processRole isAlpha r with
  | error e => rfl
  | ok p =>
    obtain ⟨role, repis⟩ := p
    cases hv : n.var with
    | none => rfl
    | some nv =>
      cases interpretNode isAlpha m vs n with
      | error e => rfl
      | ok q =>
        obtain ⟨nt, ne⟩ := q
        cases interpretBranches isAlpha m vs var rest with
        | error e => rfl
        | ok out => simp [bind, Except.bind, pure, Except.pure, InterpOut.combine]

/-- `interpretBranches` on a branch list given as a `List` -/
def interpList (isAlpha : Char → Bool) (m : Model) (vs : List Str) (var : Str) (l : List Branch) :
    Except PyErr InterpOut :=
  interpretBranches isAlpha m vs var (Branches.ofList l)

theorem interpList_cons (isAlpha : Char → Bool) (m : Model) (vs : List Str) (var : Str) (b : Branch)
    (l : List Branch) :
    interpList isAlpha m vs var (b :: l) =
      (branchOut isAlpha m vs var b >>= fun o =>
        interpList isAlpha m vs var l >>= fun out => pure (o.combine out)) := by
  obtain ⟨r, t⟩ := b
  cases t with
  | atom a => simp only [interpList, Branches.ofList, interpretBranches_atom]
  | node n => simp only [interpList, Branches.ofList, interpretBranches_sub]

theorem interpList_cons_ok {isAlpha : Char → Bool} {m : Model} {vs : List Str} {var : Str} {b : Branch}
    {l : List Branch} {o : InterpOut} :
    interpList isAlpha m vs var (b :: l) = .ok o ↔
      ∃ ob out, branchOut isAlpha m vs var b = .ok ob ∧ interpList isAlpha m vs var l = .ok out ∧
        o = ob.combine out := by
  rw [interpList_cons, Except.bind_eq_ok_iff]
  constructor
  · rintro ⟨ob, h1, h2⟩
    rw [Except.bind_eq_ok_iff] at h2
    obtain ⟨out, h2, h3⟩ := h2
    exact ⟨ob, out, h1, h2, by cases h3; rfl⟩
  · rintro ⟨ob, out, h1, h2, rfl⟩
    exact ⟨ob, h1, by rw [Except.bind_eq_ok_iff]; exact ⟨out, h2, rfl⟩⟩

/-! ### the relation between the outputs -/

theorem popless_append (a b : List (Triple × List Epi)) : popless (a ++ b) = popless a ++ popless b := by
  simp [popless]

theorem popless_appendPopLast : ∀ es : List (Triple × List Epi), popless (appendPopLast es) = popless es
  | [] => rfl
  | [(t, e)] => by simp [appendPopLast, popless, Epi.isPop]
  | x :: y :: r => by
    have := popless_appendPopLast (y :: r)
    simp only [popless, appendPopLast, List.map_cons, List.cons.injEq, true_and] at this ⊢
    exact this

structure OutRel (o o' : InterpOut) : Prop where
  hc : o'.hasConcept = o.hasConcept
  tr : o'.triples.Perm o.triples
  ep : (popless o'.epidata).Perm (popless o.epidata)

theorem OutRel.refl (o : InterpOut) : OutRel o o := ⟨rfl, .refl _, .refl _⟩

theorem OutRel.trans {a b c : InterpOut} (h1 : OutRel a b) (h2 : OutRel b c) : OutRel a c :=
  ⟨h2.hc.trans h1.hc, h2.tr.trans h1.tr, h2.ep.trans h1.ep⟩

theorem OutRel.combine {a a' b b' : InterpOut} (h1 : OutRel a a') (h2 : OutRel b b') :
    OutRel (a.combine b) (a'.combine b') := by
  refine ⟨?_, ?_, ?_⟩
  · simp [InterpOut.combine, h1.hc, h2.hc]
  · exact h1.tr.append h2.tr
  · simp only [InterpOut.combine, popless_append]; exact h1.ep.append h2.ep

theorem OutRel.combine_swap (a b c : InterpOut) :
    OutRel (a.combine (b.combine c)) (b.combine (a.combine c)) := by
  refine ⟨?_, ?_, ?_⟩
  · simp only [InterpOut.combine]
    cases a.hasConcept <;> cases b.hasConcept <;> cases c.hasConcept <;> rfl
  · exact List.perm_append_comm_assoc _ _ _
  · simp only [InterpOut.combine, popless_append]; exact List.perm_append_comm_assoc _ _ _

theorem interpList_perm {isAlpha : Char → Bool} {m : Model} {vs : List Str} {var : Str}
    {l1 l2 : List Branch} (h : l1.Perm l2) :
    ∀ o, interpList isAlpha m vs var l1 = .ok o →
      ∃ o', interpList isAlpha m vs var l2 = .ok o' ∧ OutRel o o' := by
  induction h with
  | nil => exact fun o h => ⟨o, h, .refl o⟩
  | cons x _ ih =>
    intro o ho
    obtain ⟨ob, out, h1, h2, rfl⟩ := interpList_cons_ok.mp ho
    obtain ⟨out', h3, h4⟩ := ih out h2
    exact ⟨ob.combine out', interpList_cons_ok.mpr ⟨ob, out', h1, h3, rfl⟩, (OutRel.refl ob).combine h4⟩
  | swap x y l =>
    intro o ho
    obtain ⟨oy, out1, h1, h2, rfl⟩ := interpList_cons_ok.mp ho
    obtain ⟨ox, out, h3, h4, rfl⟩ := interpList_cons_ok.mp h2
    refine ⟨ox.combine (oy.combine out), ?_, OutRel.combine_swap oy ox out⟩
    exact interpList_cons_ok.mpr ⟨ox, _, h3, interpList_cons_ok.mpr ⟨oy, out, h1, h4, rfl⟩, rfl⟩
  | trans _ _ ih1 ih2 =>
    intro o ho
    obtain ⟨o1, h1, r1⟩ := ih1 o ho
    obtain ⟨o2, h2, r2⟩ := ih2 o1 h1
    exact ⟨o2, h2, r1.trans r2⟩

/-! ### `NodePerm`-related trees interpret alike -/

/-- the statement transported along `NodePerm` -/
def NodeInterpRel (isAlpha : Char → Bool) (m : Model) (vs : List Str) (n n' : Node) : Prop :=
  ∀ ts es, interpretNode isAlpha m vs n = .ok (ts, es) →
    ∃ ts' es', interpretNode isAlpha m vs n' = .ok (ts', es') ∧ ts'.Perm ts ∧ (popless es').Perm (popless es)

theorem branchOut_node_rel {isAlpha : Char → Bool} {m : Model} {vs : List Str} (var r : Str) {n n' : Node}
    (hv : n'.var = n.var) (hA : NodeInterpRel isAlpha m vs n n') :
    ∀ o, branchOut isAlpha m vs var (r, .node n) = .ok o →
      ∃ o', branchOut isAlpha m vs var (r, .node n') = .ok o' ∧ OutRel o o' := by
  intro o ho
  simp only [branchOut, hv] at ho ⊢
  cases hp : processRole isAlpha r with
  | error e => simp [hp, bind, Except.bind] at ho
  | ok p =>
    obtain ⟨role, repis⟩ := p
    cases hnv : n.var with
    | none => simp [hp, hnv, bind, Except.bind, throw, throwThe, MonadExceptOf.throw] at ho
    | some nv =>
      cases hn : interpretNode isAlpha m vs n with
      | error e => simp [hp, hnv, hn, bind, Except.bind] at ho
      | ok q =>
        obtain ⟨nt, ne⟩ := q
        obtain ⟨nt', ne', hn', hperm, heperm⟩ := hA nt ne hn
        simp only [hp, hnv, hn, bind, Except.bind, pure, Except.pure, Except.ok.injEq] at ho
        subst ho
        refine ⟨⟨role = CONCEPT_ROLE, m.deinvert ⟨var, role, .str nv⟩ :: nt',
          (m.deinvert ⟨var, role, .str nv⟩, repis ++ [.push nv]) :: appendPopLast ne'⟩, ?_, ⟨rfl, ?_, ?_⟩⟩
        · simp only [hn', bind, Except.bind, pure, Except.pure]
        · exact hperm.cons _
        · simp only [popless, List.map_cons] at heperm ⊢
          have h1 := popless_appendPopLast ne
          have h2 := popless_appendPopLast ne'
          simp only [popless] at h1 h2
          rw [h1, h2]
          exact heperm.cons _

mutual
theorem _root_.Penman.NodePerm.interp (isAlpha : Char → Bool) (m : Model) (vs : List Str) :
    ∀ (n : Node) {n' : Node}, NodePerm n n' → NodeInterpRel isAlpha m vs n n'
  | .mk v bs, _, h => by
    cases h with
    | @mk _ _ mid bs' hrel hperm =>
      intro ts es ho
      cases v with
      | none => simp [interpretNode] at ho
      | some var =>
        simp only [interpretNode] at ho ⊢
        rw [Except.bind_eq_ok_iff] at ho
        obtain ⟨out, h1, h2⟩ := ho
        obtain ⟨out1, h3, r1⟩ := BranchesRel.interp isAlpha m vs var bs hrel out h1
        have h3' : interpList isAlpha m vs var mid.toList = .ok out1 := by
          simpa only [interpList, Branches.ofList_toList] using h3
        obtain ⟨out2, h4, r2⟩ := interpList_perm hperm out1 h3'
        have h4' : interpretBranches isAlpha m vs var bs' = .ok out2 := by
          simpa only [interpList, Branches.ofList_toList] using h4
        have r := r1.trans r2
        rw [h4']
        simp only [bind, Except.bind, r.hc]
        cases hc : out.hasConcept with
        | true =>
          simp only [hc, if_true, pure, Except.pure, Except.ok.injEq, Prod.mk.injEq] at h2 ⊢
          exact ⟨_, _, ⟨rfl, rfl⟩, h2.1 ▸ r.tr, h2.2 ▸ r.ep⟩
        | false =>
          simp only [hc, Bool.false_eq_true, if_false, pure, Except.pure, Except.ok.injEq,
            Prod.mk.injEq] at h2 ⊢
          refine ⟨_, _, ⟨rfl, rfl⟩, h2.1 ▸ r.tr.cons _, h2.2 ▸ ?_⟩
          simp only [popless, List.map_cons]
          exact List.Perm.cons _ r.ep
theorem _root_.Penman.BranchesRel.interp (isAlpha : Char → Bool) (m : Model) (vs : List Str) (var : Str) :
    ∀ (bs : Branches) {mid : Branches}, BranchesRel bs mid →
      ∀ o, interpretBranches isAlpha m vs var bs = .ok o →
        ∃ o', interpretBranches isAlpha m vs var mid = .ok o' ∧ OutRel o o'
  | .nil, _, h => by cases h; exact fun o ho => ⟨o, ho, .refl o⟩
  | .atom r a rest, _, h => by
    cases h with
    | @atom _ _ _ rest' h =>
      intro o ho
      rw [interpretBranches_atom, Except.bind_eq_ok_iff] at ho
      obtain ⟨ob, h1, h2⟩ := ho
      rw [Except.bind_eq_ok_iff] at h2
      obtain ⟨out, h2, h3⟩ := h2
      obtain ⟨out', h4, rr⟩ := BranchesRel.interp isAlpha m vs var rest h out h2
      refine ⟨ob.combine out', ?_, ?_⟩
      · rw [interpretBranches_atom, h1, h4]; rfl
      · cases h3; exact (OutRel.refl ob).combine rr
  | .sub r n rest, _, h => by
    cases h with
    | @sub _ _ n' _ rest' hn h =>
      intro o ho
      rw [interpretBranches_sub, Except.bind_eq_ok_iff] at ho
      obtain ⟨ob, h1, h2⟩ := ho
      rw [Except.bind_eq_ok_iff] at h2
      obtain ⟨out, h2, h3⟩ := h2
      obtain ⟨out', h4, rr⟩ := BranchesRel.interp isAlpha m vs var rest h out h2
      obtain ⟨ob', h5, rr'⟩ := branchOut_node_rel var r hn.var_eq (NodePerm.interp isAlpha m vs n hn) ob h1
      refine ⟨ob'.combine out', ?_, ?_⟩
      · rw [interpretBranches_sub, h5, h4]; rfl
      · cases h3; exact rr'.combine rr
end

/-! ### the epidata keys are the triples -/

theorem appendPopLast_keys : ∀ es : List (Triple × List Epi), (appendPopLast es).map (·.1) = es.map (·.1)
  | [] => rfl
  | [(t, e)] => rfl
  | x :: y :: r => by
    have := appendPopLast_keys (y :: r)
    simp only [appendPopLast, List.map_cons, List.cons.injEq, true_and] at this ⊢
    exact this

theorem _root_.Penman.InterpOut.combine_keys {a b : InterpOut} (h1 : a.epidata.map (·.1) = a.triples)
    (h2 : b.epidata.map (·.1) = b.triples) : (a.combine b).epidata.map (·.1) = (a.combine b).triples := by
  simp [InterpOut.combine, h1, h2]

mutual
theorem interpretNode_keys (isAlpha : Char → Bool) (m : Model) (vs : List Str) :
    ∀ (n : Node) (ts : List Triple) (es : List (Triple × List Epi)),
      interpretNode isAlpha m vs n = .ok (ts, es) → es.map (·.1) = ts
  | .mk v bs, ts, es, ho => by
    cases v with
    | none => simp [interpretNode] at ho
    | some var =>
      simp only [interpretNode] at ho
      rw [Except.bind_eq_ok_iff] at ho
      obtain ⟨out, h1, h2⟩ := ho
      have hk := interpretBranches_keys isAlpha m vs var bs out h1
      cases hc : out.hasConcept with
      | true =>
        simp only [hc, if_true, pure, Except.pure, Except.ok.injEq, Prod.mk.injEq] at h2
        rw [← h2.1, ← h2.2]; exact hk
      | false =>
        simp only [hc, Bool.false_eq_true, if_false, pure, Except.pure, Except.ok.injEq,
          Prod.mk.injEq] at h2
        rw [← h2.1, ← h2.2]; simp [hk]
theorem interpretBranches_keys (isAlpha : Char → Bool) (m : Model) (vs : List Str) (var : Str) :
    ∀ (bs : Branches) (o : InterpOut),
      interpretBranches isAlpha m vs var bs = .ok o → o.epidata.map (·.1) = o.triples
  | .nil, o, ho => by
    simp only [interpretBranches, Except.ok.injEq] at ho
    subst ho; rfl
  | .atom r a rest, o, ho => by
    rw [interpretBranches_atom, Except.bind_eq_ok_iff] at ho
    obtain ⟨ob, h1, h2⟩ := ho
    rw [Except.bind_eq_ok_iff] at h2
    obtain ⟨out, h2, h3⟩ := h2
    cases h3
    refine InterpOut.combine_keys ?_ (interpretBranches_keys isAlpha m vs var rest out h2)
    simp only [branchOut] at h1
    cases hp : processRole isAlpha r with
    | error e => simp [hp, bind, Except.bind] at h1
    | ok p =>
      obtain ⟨role, repis⟩ := p
      cases hq : processAtomic isAlpha a with
      | error e => simp [hp, hq, bind, Except.bind] at h1
      | ok q =>
        obtain ⟨tgt, tepis⟩ := q
        simp only [hp, hq, bind, Except.bind, pure, Except.pure, Except.ok.injEq] at h1
        subst h1; rfl
  | .sub r n rest, o, ho => by
    rw [interpretBranches_sub, Except.bind_eq_ok_iff] at ho
    obtain ⟨ob, h1, h2⟩ := ho
    rw [Except.bind_eq_ok_iff] at h2
    obtain ⟨out, h2, h3⟩ := h2
    cases h3
    refine InterpOut.combine_keys ?_ (interpretBranches_keys isAlpha m vs var rest out h2)
    simp only [branchOut] at h1
    cases hp : processRole isAlpha r with
    | error e => simp [hp, bind, Except.bind] at h1
    | ok p =>
      obtain ⟨role, repis⟩ := p
      cases hnv : n.var with
      | none => simp [hp, hnv, bind, Except.bind, throw, throwThe, MonadExceptOf.throw] at h1
      | some nv =>
        cases hn : interpretNode isAlpha m vs n with
        | error e => simp [hp, hnv, hn, bind, Except.bind] at h1
        | ok q =>
          obtain ⟨nt, ne⟩ := q
          simp only [hp, hnv, hn, bind, Except.bind, pure, Except.pure, Except.ok.injEq] at h1
          subst h1
          simp [appendPopLast_keys, interpretNode_keys isAlpha m vs n nt ne hn]
end

/-! ### association lists with distinct keys -/

theorem epimapOf_of_nodup : ∀ es : List (Triple × List Epi), (es.map (·.1)).Nodup → epimapOf es = es
  | [], _ => rfl
  | (t, e) :: rest, h => by
    simp only [List.map_cons, List.nodup_cons] at h
    simp only [epimapOf, epimapOf_of_nodup rest h.2, List.cons.injEq, true_and, List.filter_eq_self]
    intro p hp
    have : p.1 ≠ t := fun e => h.1 (e ▸ List.mem_map_of_mem hp)
    simpa using this

theorem AList.set_of_not_mem {α β : Type} [DecidableEq α] : ∀ (d : AList α β) (k : α) (v : β),
    k ∉ d.map (·.1) → d.set k v = d ++ [(k, v)]
  | [], _, _, _ => rfl
  | (k', v') :: r, k, v, h => by
    simp only [List.map_cons, List.mem_cons, not_or] at h
    have hne : ¬ k' = k := fun e => h.1 e.symm
    simp only [AList.set, hne, if_false, List.cons_append, AList.set_of_not_mem r k v h.2]

theorem AList.foldl_set_of_nodup {α β : Type} [DecidableEq α] : ∀ (l d : AList α β),
    (l.map (·.1)).Nodup → (∀ p ∈ l, p.1 ∉ d.map (·.1)) →
    l.foldl (fun d p => d.set p.1 p.2) d = d ++ l
  | [], d, _, _ => by simp
  | (k, v) :: rest, d, hn, hd => by
    simp only [List.map_cons, List.nodup_cons] at hn
    simp only [List.foldl_cons]
    rw [AList.set_of_not_mem d k v (hd (k, v) List.mem_cons_self),
      AList.foldl_set_of_nodup rest _ hn.2]
    · simp
    · intro p hp
      simp only [List.map_append, List.map_cons, List.map_nil, List.mem_append, List.mem_cons,
        List.not_mem_nil, or_false, not_or]
      exact ⟨hd p (List.mem_cons_of_mem _ hp), fun e => hn.1 (e ▸ List.mem_map_of_mem hp)⟩

theorem AList.ofList_of_nodup {α β : Type} [DecidableEq α] (l : AList α β) (h : (l.map (·.1)).Nodup) :
    AList.ofList l = l := by
  have := AList.foldl_set_of_nodup l [] h (by simp)
  simpa [AList.ofList] using this

theorem AList.get?_eq_some_iff {α β : Type} [DecidableEq α] : ∀ (l : AList α β) (k : α) (v : β),
    (l.map (·.1)).Nodup → (AList.get? l k = some v ↔ (k, v) ∈ l)
  | [], _, _, _ => by simp [AList.get?]
  | (k', v') :: r, k, v, h => by
    simp only [List.map_cons, List.nodup_cons] at h
    have ih := AList.get?_eq_some_iff r k v h.2
    simp only [AList.get?] at ih ⊢
    by_cases hk : k' = k
    · subst hk
      simp only [List.find?_cons, decide_true, Option.map_some, Option.some.injEq, List.mem_cons,
        Prod.mk.injEq, true_and]
      constructor
      · intro e; exact Or.inl e.symm
      · rintro (e | hm)
        · exact e.symm
        · exact absurd (List.mem_map_of_mem (f := (·.1)) hm) h.1
    · have hk' : ¬ k = k' := fun e => hk e.symm
      simp only [List.find?_cons, hk, decide_false, List.mem_cons, Prod.mk.injEq, hk', false_and,
        false_or]
      exact ih

theorem AList.get?_perm {α β : Type} [DecidableEq α] {l l' : AList α β} (hp : l'.Perm l)
    (h : (l.map (·.1)).Nodup) (k : α) : AList.get? l' k = AList.get? l k := by
  have h' : (l'.map (·.1)).Nodup := ((hp.map (·.1)).nodup_iff).mpr h
  apply Option.ext
  intro v
  rw [AList.get?_eq_some_iff l' k v h', AList.get?_eq_some_iff l k v h, hp.mem_iff]

theorem popless_keys (es : List (Triple × List Epi)) : (popless es).map (·.1) = es.map (·.1) := by
  simp [popless]

theorem get?_popless : ∀ (es : List (Triple × List Epi)) (k : Triple),
    AList.get? (popless es) k = (AList.get? es k).map (·.filter (fun e => !e.isPop))
  | [], _ => rfl
  | (t, e) :: r, k => by
    have ih := get?_popless r k
    simp only [AList.get?, popless, List.map_cons] at ih ⊢
    by_cases h : t = k
    · simp only [List.find?_cons, h, decide_true, Option.map_some]
    · simp only [List.find?_cons, h, decide_false]
      exact ih

/-! ### graph level -/

/-- `interpret` on a tree whose node is replaced by a `NodePerm`-related one -/
theorem interpret_nodePerm (isAlpha : Char → Bool) (m : Model) (t : Tree) (n' : Node) (g : Graph)
    (hn : NodePerm t.node n') (h : interpret isAlpha m t = .ok g) :
    ∃ g', interpret isAlpha m { t with node := n' } = .ok g' ∧ g'.top = g.top ∧
      g'.triples.Perm g.triples ∧ g'.metadata = g.metadata ∧
      (g.triples.Nodup →
        (popless g'.epidata).Perm (popless g.epidata) ∧
        ∀ tr, (AList.get? g'.epidata tr).map (·.filter (fun e => !e.isPop)) =
              (AList.get? g.epidata tr).map (·.filter (fun e => !e.isPop))) := by
  simp only [interpret] at h ⊢
  rw [Except.bind_eq_ok_iff] at h
  obtain ⟨⟨ts, es⟩, h1, h2⟩ := h
  have hmem : ∀ x, x ∈ n'.vars ↔ x ∈ t.node.vars := fun x => (NodePerm.vars_perm t.node hn).mem_iff
  obtain ⟨ts', es', h3, hts, hes⟩ := NodePerm.interp isAlpha m t.node.vars t.node hn ts es h1
  rw [interpretNode_congr isAlpha m hmem n', h3]
  simp only [pure, Except.pure, Except.ok.injEq] at h2
  subst h2
  refine ⟨_, rfl, ?_, ?_, rfl, ?_⟩
  · simp only [Graph.mk', hn.var_eq]
  · simp only [Graph.mk']; exact hts.map _
  · intro hnd
    have hk := interpretNode_keys isAlpha m t.node.vars t.node ts es h1
    have hk' := interpretNode_keys isAlpha m t.node.vars n' ts' es' h3
    have hnd1 : ts.Nodup := by
      simp only [Graph.mk'] at hnd
      exact List.Pairwise.of_map _ (fun a b hab e => hab (e ▸ rfl)) hnd
    have hnd2 : ts'.Nodup := hts.nodup_iff.mpr hnd1
    have e1 : (Graph.mk' ts t.node.var (epimapOf es) t.metadata).epidata = es := by
      simp only [Graph.mk']
      rw [epimapOf_of_nodup es (hk ▸ hnd1), AList.ofList_of_nodup es (hk ▸ hnd1)]
    have e2 : (Graph.mk' ts' n'.var (epimapOf es') t.metadata).epidata = es' := by
      simp only [Graph.mk']
      rw [epimapOf_of_nodup es' (hk' ▸ hnd2), AList.ofList_of_nodup es' (hk' ▸ hnd2)]
    rw [e1, e2]
    refine ⟨hes, fun tr => ?_⟩
    rw [← get?_popless, ← get?_popless]
    exact AList.get?_perm hes (by rw [popless_keys, hk]; exact hnd1) tr

end Penman.RA

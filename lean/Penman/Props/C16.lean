import Penman.Proofs.Errors
import Penman.Proofs.SubRoles
import Penman.Proofs.CheckCli
import Penman.Generated
/-!
# C16 — model checking is sound and complete, and `--check` reports it in the exit status

Model functions: `neighbours`, `dfsLoop`, `reachable`, `sortStrs`, `Model.errors`
(Penman/Transform.lean), `Model.hasRole` (Penman/Model.lean), `interpret`
(Penman/Layout.lean), `checkGraph`, `processTree`, `processLoop`, `processInput`,
`mainRun` (Penman/Main.lean). Specification vocabulary (`Graph.IsSrc`, `Graph.Adj`,
`Reach`, `Graph.TopOk`, message codes `E_ROLE … E_TOPVAR`, `ParsedTrees`, `InputTrees`)
is in Penman/Spec/Reach.lean; `SubRolesOk` (decidable, on trees) is in
Penman/Proofs/InterpReach.lean, `errCtx` in Penman/Proofs/CheckCli.lean, `errList`
in Penman/Proofs/Errors.lean.

Clause of the property text                             ↦ theorem(s)
------------------------------------------------------------------------------------------
"`invalid role` for exactly the triples whose role the  ↦ `errors_role`
  model does not define (directly or as one inversion)"    (`Model.hasRole` IS "defined directly
                                                            or with one `-of` removed")
"`unreachable` for exactly the triples whose source is  ↦ `errors_unreach`, resting on
  not weakly connected to the top"                         `dfs_reach` (+ `dfs_fuel`: the worklist
                                                            finishes within the model's fuel
                                                            `n*n+n+2`; any fuel ≥ `1+n·|srcs|`
                                                            gives the same set)
"the empty/top messages exactly when they apply"        ↦ `errors_general`
nothing else is ever reported                           ↦ `errors_no_other`, `errors_spec`
the report is empty iff the graph is fine               ↦ `errors_empty_iff`
determinism of the order of the report                  ↦ `strLt_strict_total`, `sortStrs_sorted_perm`,
                                                            `sortStrs_perm_eq`, `unreach_order_indep`,
                                                            `errors_order`
"a graph decoded from a text with a non-empty top node  ↦ `decoded_only_role_errors` (needs the
  can only ever receive role errors"                       decidable hypothesis `SubRolesOk`),
                                                            `decoded_all_reachable`,
                                                            `subRolesOk_sufficient`;
                                                            WITHOUT the hypothesis the clause is
                                                            FALSE: `decoded_counterexample_*`
"`--check` exits non-zero exactly when at least one     ↦ `exit_status` (+ `exit_status_defined`:
  graph in any of its inputs has an error"                 when the hypothesis holds;
                                                            `exit_fuel`: the loop fuel suffices)
"records every offending triple in that graph's         ↦ `check_metadata`, `check_metadata_entry`,
  metadata"                                                `check_status`

## Finding (counterexample to the property text as written)

After repair F16 (`_dfs` no longer follows instance triples) the clause "a graph decoded
from a text with a non-empty top node can only ever receive role errors" fails for texts
whose nested-node branch carries the instance role: `(a :instance (b / x))` decodes to
`(a :instance b) (b :instance x)`, and `(a :instance-of (b / x))` de-inverts to
`(b :instance a)`; in both `b` is not connected to `a` by any edge and `Model.errors`
reports `unreachable` (reproduced on the real code). `decoded_counterexample_instance` and
`decoded_counterexample_instance_of` below prove this of the model by evaluation. The
clause is proved under `SubRolesOk isAlpha m t.node`: no nested-node branch role becomes
`:instance` after `processRole`, de-inversion and `ensureColon`; `subRolesOk_sufficient`
gives the readable sufficient condition "the role text (alignment stripped) is none of
`:instance`, `instance`, `:instance-of`, `instance-of`".

UNPROVED (stated): nothing. Every theorem below is proved without extra hypotheses other
than the ones shown. (The only deviation from the property text is the FALSE clause above.)
-/
namespace Penman.C16
open Penman

/-! ## reachability: `_dfs` -/

/-- `_dfs` computes weak connectivity (any top that is a source). -/
theorem dfs_reach (g : Graph) (top v : Str) (htop : g.IsSrc top) :
    v ∈ reachable g top ↔ Reach g top v :=
  Penman.dfs_reach g top v htop

/-- The worklist terminates before its fuel runs out: the model's fuel `n*n+n+2` is at
    least the bound `1 + n·|srcs|`, and every fuel beyond that bound yields the same set. -/
theorem dfs_fuel (g : Graph) (top : Str) (htop : g.IsSrc top) :
    1 + g.triples.length * g.srcs.length ≤
        g.triples.length * g.triples.length + g.triples.length + 2 ∧
    ∀ f, 1 + g.triples.length * g.srcs.length ≤ f →
      dfsLoop g g.srcs f [top] [] = reachable g top := by
  refine ⟨?_, fun f hf => reachable_fuel_indep g top htop f hf⟩
  have := Nat.mul_le_mul_left g.triples.length (length_srcs_le g)
  omega

/-- the docstring graph of `Model.errors`:
    `(a :instance alpha) (a :foo bar) (b :instance beta)` -/
def docGraph : Graph :=
  { triples := [⟨"a".toList, ":instance".toList, .str "alpha".toList⟩,
      ⟨"a".toList, ":foo".toList, .str "bar".toList⟩,
      ⟨"b".toList, ":instance".toList, .str "beta".toList⟩] }

/-- a connected graph: `(a :instance alpha) (a :ARG0 b) (b :instance beta) (c :ARG1 b)` -/
def connGraph : Graph :=
  { triples := [⟨"a".toList, ":instance".toList, .str "alpha".toList⟩,
      ⟨"a".toList, ":ARG0".toList, .str "b".toList⟩,
      ⟨"b".toList, ":instance".toList, .str "beta".toList⟩,
      ⟨"c".toList, ":ARG1".toList, .str "b".toList⟩] }

example : connGraph.IsSrc "a".toList := ⟨_, List.mem_cons_self .., rfl⟩
example : reachable connGraph "a".toList = ["c".toList, "b".toList, "a".toList] := by decide +kernel
example : reachable docGraph "a".toList = ["a".toList] := by decide +kernel
/-- hence, through `dfs_reach`, `c` is weakly connected to `a` (against edge direction) -/
example : Reach connGraph "a".toList "c".toList :=
  (dfs_reach connGraph _ _ ⟨_, List.mem_cons_self .., rfl⟩).1 (by decide +kernel)
example : ¬ Reach docGraph "a".toList "b".toList := fun h =>
  absurd ((dfs_reach docGraph _ _ ⟨_, List.mem_cons_self .., rfl⟩).2 h) (by decide +kernel)

/-! ## the error report -/

/-- "invalid role" is reported for exactly the triples whose role the model does not define
    (`Model.hasRole r` = `r` is defined, or ends in `-of` and is defined without it). -/
theorem errors_role (m : Model) (g : Graph) (t : Triple) :
    E_ROLE ∈ (AList.get? (m.errors g) (some t)).getD [] ↔
      t ∈ g.triples ∧ m.hasRole t.role = false :=
  Penman.errors_role m g t

/-- "unreachable" is reported for exactly the triples whose source is not weakly connected
    to the top (and the top is usable: set, not `''`, a source). -/
theorem errors_unreach (m : Model) (g : Graph) (t : Triple) :
    E_UNREACH ∈ (AList.get? (m.errors g) (some t)).getD [] ↔
      t ∈ g.triples ∧ ∃ top, g.TopOk top ∧ ¬ Reach g top t.src :=
  Penman.errors_unreach m g t

/-- the general messages, exactly when they apply -/
theorem errors_general (m : Model) (g : Graph) :
    (E_EMPTY ∈ (AList.get? (m.errors g) none).getD [] ↔ g.triples = []) ∧
    (E_NOTOP ∈ (AList.get? (m.errors g) none).getD [] ↔
      g.triples ≠ [] ∧ (g.getTop = none ∨ g.getTop = some [])) ∧
    (E_TOPVAR ∈ (AList.get? (m.errors g) none).getD [] ↔
      g.triples ≠ [] ∧ ∃ top, g.getTop = some top ∧ top ≠ [] ∧ ¬ g.IsSrc top) :=
  ⟨errors_general_empty m g, errors_general_notop m g, errors_general_topvar m g⟩

/-- no other message anywhere: triple contexts are triples of the graph and carry only
    0/1, the general context carries only 2/3/4 -/
theorem errors_no_other (m : Model) (g : Graph) (k : Option Triple) (c : Nat)
    (h : c ∈ (AList.get? (m.errors g) k).getD []) :
    (∃ t, k = some t ∧ t ∈ g.triples ∧ (c = E_ROLE ∨ c = E_UNREACH)) ∨
    (k = none ∧ (c = E_EMPTY ∨ c = E_NOTOP ∨ c = E_TOPVAR)) :=
  Penman.errors_no_other m g k c h

/-- all of the above in one statement: message `c` is recorded under context `k` iff the
    specification `ErrSpec` says so; every entry of the dict is non-empty and keys are unique -/
theorem errors_spec (m : Model) (g : Graph) :
    (∀ k c, c ∈ (AList.get? (m.errors g) k).getD [] ↔ ErrSpec m g k c) ∧
    (∀ p ∈ m.errors g, p.2 ≠ []) ∧ ((m.errors g).map (·.1)).Nodup :=
  ⟨mem_codes_errors_iff m g, (errors_wf m g).1, (errors_wf m g).2⟩

/-- the report is empty exactly when the graph is non-empty, every role is defined, and
    every source is weakly connected to a usable top -/
theorem errors_empty_iff (m : Model) (g : Graph) :
    m.errors g = [] ↔
      g.triples ≠ [] ∧ (∀ t ∈ g.triples, m.hasRole t.role = true) ∧
      ∃ top, g.TopOk top ∧ ∀ t ∈ g.triples, Reach g top t.src :=
  Penman.errors_empty_iff m g

/-- non-vacuity: the docstring example of `Model.errors`, under the AMR model … -/
example : Generated.amrModel.errors docGraph =
    [(some ⟨"a".toList, ":foo".toList, .str "bar".toList⟩, [E_ROLE]),
     (some ⟨"b".toList, ":instance".toList, .str "beta".toList⟩, [E_UNREACH])] := by
  decide +kernel
/-- … the connected graph has no error under the AMR model, two role errors under the
    default one … -/
example : Generated.amrModel.errors connGraph = [] := by decide +kernel
example : Generated.defaultModel.errors connGraph =
    [(some ⟨"a".toList, ":ARG0".toList, .str "b".toList⟩, [E_ROLE]),
     (some ⟨"c".toList, ":ARG1".toList, .str "b".toList⟩, [E_ROLE])] := by decide +kernel
/-- … and the general messages -/
example : Generated.defaultModel.errors {} = [(none, [E_EMPTY])] := by decide +kernel
example : Generated.defaultModel.errors { docGraph with top := some [] } =
    [(some ⟨"a".toList, ":foo".toList, .str "bar".toList⟩, [E_ROLE]), (none, [E_NOTOP])] := by
  decide +kernel
example : Generated.defaultModel.errors { docGraph with top := some "z".toList } =
    [(some ⟨"a".toList, ":foo".toList, .str "bar".toList⟩, [E_ROLE]), (none, [E_TOPVAR])] := by
  decide +kernel
/-- a triple can carry both messages (so contexts map to LISTS of messages) -/
example : Generated.defaultModel.errors
      { docGraph with triples := docGraph.triples ++ [⟨"b".toList, ":foo".toList, .none⟩] } =
    [(some ⟨"a".toList, ":foo".toList, .str "bar".toList⟩, [E_ROLE]),
     (some ⟨"b".toList, ":foo".toList, .none⟩, [E_ROLE, E_UNREACH]),
     (some ⟨"b".toList, ":instance".toList, .str "beta".toList⟩, [E_UNREACH])] := by
  decide +kernel

/-! ## order of the report: determinism -/

/-- `strLt` (code-point order) is a strict total order on `Str` -/
theorem strLt_strict_total :
    (∀ a, strLt a a = false) ∧
    (∀ a b c, strLt a b = true → strLt b c = true → strLt a c = true) ∧
    (∀ a b, strLt a b = false → strLt b a = false → a = b) :=
  ⟨strLt_irrefl, strLt_trans, strLt_tri⟩

/-- `sortStrs l` is a permutation of `l`, sorted w.r.t. `strLt`, and the only such list -/
theorem sortStrs_sorted_perm (l : List Str) :
    (sortStrs l).Perm l ∧ (sortStrs l).Pairwise (fun a b => strLt b a = false) ∧
    ∀ s : List Str, s.Perm l → s.Pairwise (fun a b => strLt b a = false) → sortStrs l = s :=
  ⟨sortStrs_perm l, sortStrs_sorted l, fun _ hp hs => sortStrs_unique hp hs⟩

/-- the result of `sortStrs` does not depend on the order of its argument -/
theorem sortStrs_perm_eq {l₁ l₂ : List Str} (h : l₁.Perm l₂) : sortStrs l₁ = sortStrs l₂ :=
  sortStrs_congr h

/-- the unreachable variables are walked in an order that does not depend on how the
    sources were enumerated (Python iterates a `set` there) -/
theorem unreach_order_indep (g : Graph) (top : Str) (srcs' : List Str) (h : srcs'.Perm g.srcs) :
    sortStrs (srcs'.filter (· ∉ reachable g top)) = unreachVars g top :=
  sortStrs_filter_congr _ h

/-- the dict in insertion order: the report is `err[k].append(msg)` applied along the
    explicit list `errList` — role errors in triple order, then the unreachable variables in
    sorted order, each with its triples in triple order (or the single general message) -/
theorem errors_order (m : Model) (g : Graph) : m.errors g = errAddAll [] (errList m g) :=
  errors_eq_errAddAll m g

example : sortStrs ["b".toList, "a".toList, "B".toList, "ab".toList, []] =
    [[], "B".toList, "a".toList, "ab".toList, "b".toList] :=
  (sortStrs_sorted_perm _).2.2 _ (by decide) (by decide)
example : sortStrs ["b".toList, "a".toList, "c".toList] = sortStrs ["c".toList, "b".toList, "a".toList] :=
  sortStrs_perm_eq (by decide)
example : errList Generated.defaultModel docGraph =
    [(some ⟨"a".toList, ":foo".toList, .str "bar".toList⟩, E_ROLE),
     (some ⟨"b".toList, ":instance".toList, .str "beta".toList⟩, E_UNREACH)] := by decide +kernel

/-! ## decoded graphs -/

/-- In a graph interpreted from a tree whose root has a variable (`interpret` succeeding
    means every nested node has one too), every variable is weakly connected to the top,
    provided no nested-node branch turns into an instance triple (`SubRolesOk`). -/
theorem decoded_all_reachable (isAlpha : Char → Bool) (m : Model) (t : Tree) (g : Graph) (top : Str)
    (h : interpret isAlpha m t = .ok g) (hv : t.node.var = some top)
    (hok : SubRolesOk isAlpha m t.node = true) :
    g.getTop = some top ∧ g.IsSrc top ∧ ∀ v, g.IsSrc v → Reach g top v :=
  interpret_all_reach isAlpha m t g top h hv hok

/-- … hence such a graph with a non-empty top can only ever receive role errors. -/
theorem decoded_only_role_errors (isAlpha : Char → Bool) (m : Model) (t : Tree) (g : Graph)
    (top : Str) (h : interpret isAlpha m t = .ok g) (hv : t.node.var = some top) (hne : top ≠ [])
    (hok : SubRolesOk isAlpha m t.node = true) (k : Option Triple) (c : Nat)
    (hc : c ∈ (AList.get? (m.errors g) k).getD []) :
    c = E_ROLE ∧ ∃ tr, k = some tr ∧ tr ∈ g.triples ∧ m.hasRole tr.role = false := by
  obtain ⟨h1, h2, h3⟩ := interpret_all_reach isAlpha m t g top h hv hok
  exact errors_only_role_of_reach m g top ⟨h1, hne, h2⟩ h3 k c hc

/-- the same for a text: whatever tree the parser returns -/
theorem decoded_text_only_role_errors (c : PCtx) (isSpace isAlpha : Char → Bool) (m : Model)
    (toks rest : List Tok) (t : Tree) (g : Graph) (top : Str)
    (hp : parseTree c isSpace toks = .ok (t, rest))
    (h : interpret isAlpha m t = .ok g) (hv : t.node.var = some top) (hne : top ≠ [])
    (hok : SubRolesOk isAlpha m t.node = true) (k : Option Triple) (c : Nat)
    (hc : c ∈ (AList.get? (m.errors g) k).getD []) :
    c = E_ROLE ∧ ∃ tr, k = some tr ∧ tr ∈ g.triples ∧ m.hasRole tr.role = false :=
  have _ := hp
  decoded_only_role_errors isAlpha m t g top h hv hne hok k c hc

/-- non-vacuity for a TEXT: lexing and parsing `(a / alpha :ARG0 (b / beta :ARG1-of (c / gamma)))`
    gives a tree with root variable `a` that satisfies `SubRolesOk` and is interpreted
    successfully (AMR model), so `decoded_text_only_role_errors` applies to it -/
example :
    (let toks := lexLines Generated.lexCfg Generated.lexCfg.penmanOrder
        (fileLines "(a / alpha :ARG0 (b / beta :ARG1-of (c / gamma)))".toList)
     match parseTree ⟨eofPos toks⟩ (fun c => c = ' ') toks with
     | .ok (t, rest) =>
       rest.isEmpty && t.node.var == some "a".toList &&
       SubRolesOk isAsciiAlpha Generated.amrModel t.node &&
       (interpret isAsciiAlpha Generated.amrModel t).toOption.isSome
     | .error _ => false) = true := by decide +kernel

/-- a readable sufficient condition for one branch of `SubRolesOk`, valid for every model:
    the role (alignment stripped) is not instance-like -/
theorem subRolesOk_sufficient (isAlpha : Char → Bool) (m : Model) (role : Str)
    (h : ∀ r e, processRole isAlpha role = .ok (r, e) → r ∉ instanceLike) :
    subRoleOk isAlpha m role = true :=
  subRoleOk_of_not_instanceLike isAlpha m role h

/-- non-vacuity: `(a / alpha :ARG0 (b / beta :ARG1-of (c / gamma)))` satisfies every
    hypothesis, under the AMR model there is no error at all -/
example : ∃ g, interpret InterpReach.noAlpha Generated.amrModel InterpReach.exTree = .ok g ∧
    InterpReach.exTree.node.var = some "a".toList ∧
    SubRolesOk InterpReach.noAlpha Generated.amrModel InterpReach.exTree.node = true ∧
    Generated.amrModel.errors g = [] := by
  cases hg : interpret InterpReach.noAlpha Generated.amrModel InterpReach.exTree with
  | error e =>
    have h : (interpret InterpReach.noAlpha Generated.amrModel InterpReach.exTree).toOption.isSome
        = true := by decide +kernel
    rw [hg] at h
    exact absurd h (by simp [Except.toOption])
  | ok g =>
    refine ⟨g, rfl, rfl, by decide +kernel, ?_⟩
    have h : ((interpret InterpReach.noAlpha Generated.amrModel InterpReach.exTree).toOption.map
        (fun g => decide (Generated.amrModel.errors g = []))) = some true := by decide +kernel
    rw [hg] at h
    simpa [Except.toOption] using h

/-- COUNTEREXAMPLE to the clause without `SubRolesOk`: the text `(a :instance (b / x))`
    (root variable `a`, non-empty) decodes to a graph where `(b :instance x)` is reported
    `unreachable`, and indeed `b` is a source not weakly connected to `a`. -/
theorem decoded_counterexample_instance :
    ∃ g, interpret InterpReach.noAlpha InterpReach.m0
        ⟨.mk (some "a".toList) (.sub ":instance".toList InterpReach.cexB .nil), []⟩ = .ok g ∧
      E_UNREACH ∈ codes (InterpReach.m0.errors g) (some ⟨"b".toList, CONCEPT_ROLE, .str "x".toList⟩) ∧
      g.IsSrc "b".toList ∧ ¬ Reach g "a".toList "b".toList := by
  obtain ⟨g, h1, _, _, h4, h5, h6⟩ := InterpReach.cexCheck_sound InterpReach.cex_instance
  exact ⟨g, h1, h4, h5, h6⟩

/-- COUNTEREXAMPLE: `(a :instance-of (b / x))` de-inverts to `(b :instance a)`. -/
theorem decoded_counterexample_instance_of :
    ∃ g, interpret InterpReach.noAlpha InterpReach.m0
        ⟨.mk (some "a".toList) (.sub ":instance-of".toList InterpReach.cexB .nil), []⟩ = .ok g ∧
      E_UNREACH ∈ codes (InterpReach.m0.errors g) (some ⟨"b".toList, CONCEPT_ROLE, .str "x".toList⟩) ∧
      g.IsSrc "b".toList ∧ ¬ Reach g "a".toList "b".toList := by
  obtain ⟨g, h1, _, _, h4, h5, h6⟩ := InterpReach.cexCheck_sound InterpReach.cex_instance_of
  exact ⟨g, h1, h4, h5, h6⟩

/-! ## the command -/

/-- `--check` : the command exits non-zero exactly when checking is on and some graph
    processed from some input has a non-empty error report; the status is 0 or 1. -/
theorem exit_status (cfg : LexCfg) (u : UTables) (m : Model) (o : Opts) (inputs : List Str)
    (out : Str) (code : Nat) (h : mainRun cfg u m o inputs [] 0 = (out, .ok code)) :
    (code ≠ 0 ↔ o.check = true ∧ ∃ input ∈ inputs, ∃ trees, InputTrees cfg u input trees ∧
        ∃ tree ∈ trees, ∃ g, processIn u m o tree = .ok g ∧ m.errors g ≠ [])
    ∧ code ≤ 1 :=
  Penman.exit_status cfg u m o inputs out code h

/-- the hypothesis of `exit_status` holds exactly when no exception escapes: every input
    parses into trees (`InputTrees` is functional: `InputTrees_unique`) that are all processed -/
theorem exit_status_defined (cfg : LexCfg) (u : UTables) (m : Model) (o : Opts) (inputs : List Str) :
    (∃ out code, mainRun cfg u m o inputs [] 0 = (out, .ok code)) ↔
    ∀ input ∈ inputs, ∃ trees, InputTrees cfg u input trees ∧
      ∀ tree ∈ trees, ∃ r, processTree u m o tree = .ok r :=
  mainRun_ok_iff cfg u m o inputs

/-- the fuel of the per-input loop (`#tokens + 1`) always suffices: any larger fuel gives
    the same result -/
theorem exit_fuel (cfg : LexCfg) (u : UTables) (m : Model) (o : Opts) (input : Str) (f : Nat)
    (hf : (lexLines cfg cfg.penmanOrder (fileLines input)).length < f) :
    processInput cfg u m o input
      = processLoop u m o ⟨eofPos (lexLines cfg cfg.penmanOrder (fileLines input))⟩ f
          (lexLines cfg cfg.penmanOrder (fileLines input)) true [] 0 :=
  processInput_fuel cfg u m o input f hf

/-- `_check` returns 1 exactly when the report is non-empty, and leaves the triples alone -/
theorem check_status (m : Model) (g : Graph) :
    ((checkGraph m g).2 ≠ 0 ↔ m.errors g ≠ []) ∧ (checkGraph m g).1.triples = g.triples := by
  refine ⟨?_, checkGraph_triples m g⟩
  rw [checkGraph_code]
  by_cases h : m.errors g = [] <;> simp [h]

/-- the `j`-th context of the report is recorded under `error-(j+1)`, with its last message -/
theorem check_metadata_entry (m : Model) (g : Graph) (j : Nat) (k : Option Triple) (cs : List Nat)
    (hj : (m.errors g)[j]? = some (k, cs)) :
    ∃ hcs : cs ≠ [],
      AList.get? (checkGraph m g).1.metadata ("error-".toList ++ natToStr (j+1))
        = some (errCtx k ++ errMsg (cs.getLast hcs)) := by
  have hmem : (k, cs) ∈ m.errors g := List.mem_of_getElem? hj
  have hcs := (errors_wf m g).1 _ hmem
  exact ⟨hcs, Penman.check_metadata_entry m g j k cs hj hcs⟩

/-- every offending triple — one with an undefined role, or unreachable from a usable top —
    is recorded in the metadata of the checked graph: some `error-i` value starts with its
    rendering `(src role tgt) ` -/
theorem check_metadata (m : Model) (g : Graph) (t : Triple) (ht : t ∈ g.triples)
    (hbad : m.hasRole t.role = false ∨ ∃ top, g.TopOk top ∧ ¬ Reach g top t.src) :
    ∃ i, 1 ≤ i ∧ i ≤ (m.errors g).length ∧ ∃ v,
      AList.get? (checkGraph m g).1.metadata ("error-".toList ++ natToStr i) = some v ∧
      errCtx (some t) <+: v := by
  have hkey : some t ∈ (m.errors g).map (·.1) := by
    rw [errors_key_iff]
    rcases hbad with h | h
    · exact ⟨E_ROLE, (mem_codes_errors m g _ _).1 ((Penman.errors_role m g t).2 ⟨ht, h⟩)⟩
    · exact ⟨E_UNREACH, (mem_codes_errors m g _ _).1 ((Penman.errors_unreach m g t).2 ⟨ht, h⟩)⟩
  obtain ⟨⟨k, cs⟩, hmem, hk⟩ := List.mem_map.1 hkey
  simp only at hk
  subst hk
  obtain ⟨i, h1, h2, v, h3, _, h5⟩ :=
    Penman.check_metadata m g t cs hmem ((errors_wf m g).1 _ hmem)
  exact ⟨i, h1, h2, v, h3, h5⟩

/-! ### non-vacuity of the command theorems -/

/-- `_check` on the docstring graph: status 1 and both offending triples recorded -/
example : (checkGraph Generated.defaultModel docGraph).2 = 1 ∧
    (checkGraph Generated.defaultModel docGraph).1.metadata =
      [("error-1".toList, "(a :foo bar) invalid role".toList),
       ("error-2".toList, "(b :instance beta) unreachable".toList)] := by decide +kernel

def exU : UTables := { isSpace := fun c => c = ' ', isAlpha := isAsciiAlpha, lower := fun c => [c] }

theorem run_ok {r : Str × Except PyErr Nat} {n : Nat} (h : r.2.toOption = some n) :
    ∃ out, r = (out, .ok n) := by
  obtain ⟨out, e⟩ := r
  cases e with
  | error _ => simp [Except.toOption] at h
  | ok a =>
    simp only [Except.toOption, Option.some.injEq] at h
    exact ⟨out, by rw [h]⟩

/-- two input files, `penman --amr --check --triples`: the second file's second graph has an
    invalid role → exit status 1 (fix F3: the status of every file counts) … -/
example : ∃ out, mainRun Generated.lexCfg exU Generated.amrModel { check := true, triples := true }
    ["(a / alpha :ARG0 (b / beta))".toList, "(c / d)\n(a / alpha :foo bar)".toList] [] 0 = (out, .ok 1) :=
  run_ok (by decide +kernel)

/-- … status 0 when all graphs are fine, and without `--check` -/
example : ∃ out, mainRun Generated.lexCfg exU Generated.amrModel { check := true, triples := true }
    ["(a / alpha :ARG0 (b / beta))".toList, "(c / d)".toList] [] 0 = (out, .ok 0) :=
  run_ok (by decide +kernel)
example : ∃ out, mainRun Generated.lexCfg exU Generated.defaultModel { check := false, triples := true }
    ["(a / alpha :foo bar)".toList] [] 0 = (out, .ok 0) :=
  run_ok (by decide +kernel)

end Penman.C16

#print axioms Penman.C16.dfs_reach
#print axioms Penman.C16.dfs_fuel
#print axioms Penman.C16.errors_role
#print axioms Penman.C16.errors_unreach
#print axioms Penman.C16.errors_general
#print axioms Penman.C16.errors_no_other
#print axioms Penman.C16.errors_spec
#print axioms Penman.C16.errors_empty_iff
#print axioms Penman.C16.strLt_strict_total
#print axioms Penman.C16.sortStrs_sorted_perm
#print axioms Penman.C16.sortStrs_perm_eq
#print axioms Penman.C16.unreach_order_indep
#print axioms Penman.C16.errors_order
#print axioms Penman.C16.decoded_all_reachable
#print axioms Penman.C16.decoded_only_role_errors
#print axioms Penman.C16.decoded_text_only_role_errors
#print axioms Penman.C16.subRolesOk_sufficient
#print axioms Penman.C16.decoded_counterexample_instance
#print axioms Penman.C16.decoded_counterexample_instance_of
#print axioms Penman.C16.exit_status
#print axioms Penman.C16.exit_status_defined
#print axioms Penman.C16.exit_fuel
#print axioms Penman.C16.check_status
#print axioms Penman.C16.check_metadata_entry
#print axioms Penman.C16.check_metadata

/-
  Penman.Proofs.AlignText2 — reading the WRITTEN FORM of the configured tree of a graph with
  alignment markers (`Cfg.decode_written` of EncodeDecodeC and `Cfg.Al.encode_decode_core` of Align5
  combined): numbers are allowed (the tree the parser returns carries them as strings) and every
  relation is read with the alignments of the graph triple it expresses.
  This file: the pieces (written form of an edge, label-less cells).
-/
import Penman.Proofs.Align6
import Penman.Proofs.EncodeDecodeC
set_option linter.unusedSimpArgs false
set_option linter.unusedVariables false
namespace Penman
namespace Cfg
namespace Al
open Penman.Spec.Reading Penman.C03Text

theorem atomStr_written (a : Atom) : atomStr (writtenAtom a) = atomStr a := by cases a <;> rfl

/-- the written form of the relation an edge becomes is the relation its written form becomes -/
theorem edgeWritten_wE_al (v : Str) (e : Edge) : wW (edgeWritten v e) = edgeWritten v (wE e) := by
  cases e with
  | mk role tgt epis =>
    cases tgt with
    | atom a =>
      simp only [wW, wE, edgeWritten, outRole, outAtom, atomStr_written]
      split <;> simp [writtenAtom]
    | node w => simp [wW, wE, edgeWritten, outRole]

variable {isAlpha : Char → Bool} {m : Model} {vars : List Str} {v : Str} {e : Edge}

/-- the facts about an edge carry over to its written form -/
theorem edgeFacts_wE (F : EdgeFacts isAlpha m vars v e)
    (hn : ∀ s, (Cfg.denote v e).tgt = .num s → '~' ∉ s) : EdgeFacts isAlpha m vars v (wE e) := by
  refine ⟨F.notInst, ?_, ?_, F.one1, F.one2, F.ok, F.ra, ?_⟩
  · rw [← denote_wE]; exact goodT_written F.good hn
  · intro w hw'
    apply F.node w
    cases e with
    | mk role tgt epis => cases tgt <;> simp [wE] at hw' ⊢; exact hw'
  · intro hne
    obtain ⟨s, hs, h2, h3⟩ := F.ta hne
    refine ⟨s, ?_, h2, h3⟩
    cases e with
    | mk role tgt epis =>
      simp only [] at hs; subst hs
      rfl

section
variable {g : Graph} {t : Str} {T : Tree} {st : St} {l : List Triple}

/-- the label-less cells of the store are exactly the null labels of `g` -/
theorem nulls_perm (hg : WfGraphAl m g) (E : EncodedAl m g t T st l) (hnd : (ckeys st.cells).Nodup)
    (hlabel : ∀ p ∈ st.cells, (cellLabelled p.2 = true ↔ ∃ e ∈ p.2, e.role = ['/'])) :
    ((st.cells.filter fun p => !cellLabelled p.2).map
      fun p => (⟨p.1, CONCEPT_ROLE, .none⟩ : Triple)).Perm (g.triples.filter nullB) := by
  apply perm_of_nodup
  · have hsub : ((st.cells.filter fun p => !cellLabelled p.2).map (·.1)).Nodup :=
      List.Nodup.sublist (List.Sublist.map _ List.filter_sublist) hnd
    have := List.Pairwise.map (S := fun a b : Triple => a ≠ b) (fun v : Str => (⟨v, CONCEPT_ROLE, .none⟩ : Triple))
      (fun a b hab h => hab (by injection h)) hsub
    rw [List.map_map] at this
    exact this
  · exact hg.nullNodup
  · intro x
    simp only [List.mem_map, List.mem_filter, Bool.not_eq_eq_eq_not, Bool.not_true]
    constructor
    · rintro ⟨p, ⟨hp, hunl⟩, rfl⟩
      obtain ⟨t0, ht0, hs0, hr0⟩ := hg.labelled p.1 ((E.keys _).1 (mem_keys_of_mem hp))
      cases hn0 : nullB t0 with
      | false =>
        exfalso
        have hmem := E.perm.subset (E.inst t0 ht0 hr0 hn0)
        simp only [placed, List.mem_flatMap, List.mem_map] at hmem
        obtain ⟨q, hq, e, he, hden⟩ := hmem
        have hk : q.1 = p.1 := by rw [← hs0, ← hden]; rfl
        have hes : q.2 = p.2 := by
          have h1 := get?_of_mem_nodup hnd (k := q.1) (es := q.2) hq
          have h2 := get?_of_mem_nodup hnd (k := p.1) (es := p.2) hp
          rw [hk, h2] at h1; simpa using h1.symm
        rw [hes] at he
        have hrole : (Cfg.denote q.1 e).role = CONCEPT_ROLE := by rw [hden]; exact hr0
        simp only [Cfg.denote] at hrole
        split at hrole
        · rename_i h
          have := (hlabel p hp).2 ⟨e, he, h⟩
          rw [this] at hunl; exact absurd hunl (by simp)
        · exact (E.edges p hp e he).1 hrole
      | true =>
        have hmiss : t0.tgt = .none := by
          have h1 := ((nullB_iff t0).1 hn0).2
          cases htg : t0.tgt with
          | none => rfl
          | num _ => rw [htg] at h1; simp [Atom.isMissing] at h1
          | str s' =>
            rw [htg] at h1
            simp only [Atom.isMissing, List.isEmpty_iff] at h1
            subst h1
            exact absurd htg (hg.instNotEmpty t0 ht0 hr0)
        have : (⟨p.1, CONCEPT_ROLE, .none⟩ : Triple) = t0 := by
          cases t0 with
          | mk a b c => simp only [] at hs0 hr0 hmiss; subst hs0 hr0 hmiss; rfl
        rw [this]; exact ⟨ht0, hn0⟩
    · rintro ⟨hx, hxn⟩
      have hnull := (nullB_iff x).1 hxn
      have hmiss : x.tgt = .none := by
        have h1 := hnull.2
        cases htg : x.tgt with
        | none => rfl
        | num _ => rw [htg] at h1; simp [Atom.isMissing] at h1
        | str s' =>
          rw [htg] at h1
          simp only [Atom.isMissing, List.isEmpty_iff] at h1
          subst h1
          exact absurd htg (hg.instNotEmpty x hx hnull.1)
      have hkey := storeOf_ownInst E.store x hx hnull.1
      simp only [ckeys, AList.keys, List.mem_map] at hkey
      obtain ⟨p, hp, hp1⟩ := hkey
      refine ⟨p, ⟨hp, ?_⟩, ?_⟩
      · cases hl : cellLabelled p.2 with
        | false => rfl
        | true =>
          exfalso
          obtain ⟨e, he, hs⟩ := (hlabel p hp).1 hl
          have hy : Cfg.denote p.1 e ∈ placed st.cells := mem_placed hp he
          have hyl := E.perm.symm.subset hy
          obtain ⟨t0, ht0, hv⟩ := E.version _ hyl
          have hyr : (Cfg.denote p.1 e).role = CONCEPT_ROLE := by simp [Cfg.denote, hs]
          have hy0 : Cfg.denote p.1 e = t0 := by
            rcases hv with h | ⟨h, _, hr0⟩
            · exact h
            · exfalso
              rw [h, invert_role] at hyr
              exact (hg.noInstOf t0 ht0 hr0).1 hyr
          have h0r : t0.role = CONCEPT_ROLE := by rw [← hy0]; exact hyr
          have h0s : t0.src = x.src := by rw [← hy0, ← hp1]; rfl
          have := hg.nullAlone x hx hxn t0 ht0 h0r h0s
          apply E.notNull _ hyl
          rw [hy0, this]; exact hnull
      · cases x with
        | mk a b c =>
          simp only [] at hp1 hmiss
          have hb := hnull.1
          simp only [] at hb
          subst hp1 hmiss hb; rfl
end

end Al
end Cfg
end Penman

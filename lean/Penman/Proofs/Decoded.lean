/-
  Penman.Proofs.Decoded — what `interpret` returns, in terms of the documented
  reading (`Decoded`), and the consequences used by C04 (variables, alignment
  tables, `~`-freeness) and C14 (node contexts, pushed variable, appears
  inverted, totality of the diagnostics).
-/
import Penman.Proofs.InterpretGraph
namespace Penman.Interp
open Penman Penman.Spec.Reading

theorem mem_dedup {α : Type} [DecidableEq α] (l : List α) (x : α) : x ∈ dedup l ↔ x ∈ l := by
  induction l with
  | nil => simp [dedup]
  | cons a l ih =>
    simp only [dedup, List.mem_cons, List.mem_filter, ih]
    by_cases h : x = a <;> simp [h]

theorem interpret_ok {isAlpha m t g} (h : interpret isAlpha m t = .ok g) :
    ∃ ts es, interpretNode isAlpha m t.node.vars t.node = .ok (ts, es) ∧
      g = Graph.mk' ts t.node.var (epimapOf es) t.metadata := by
  unfold interpret at h
  cases hn : interpretNode isAlpha m t.node.vars t.node with
  | error e => simp [hn, bind, Except.bind] at h
  | ok p =>
    obtain ⟨ts, es⟩ := p
    simp only [hn, bind, Except.bind, pure, Except.pure, Except.ok.injEq] at h
    exact ⟨ts, es, rfl, h.symm⟩

/-- everything the interpreter's result has to do with the reading -/
structure Decoded (isAlpha : Char → Bool) (m : Model) (t : Tree) (g : Graph)
    (v : Str) (ds : List Denoted) (es : List (Triple × List Epi)) : Prop where
  var : t.node.var = some v
  rd : Spec.Reading.read isAlpha m t.node = .ok ⟨some v, ds⟩
  den : All2 (fun w d => denote isAlpha m t.node.vars w = .ok d) (Node.written t.node) ds
  triples : g.triples = ds.map fun d => colon d.triple
  top : g.top = some v
  epi : g.epidata = epimapOf es
  md : g.metadata = AList.ofList t.metadata
  ent : All2 EntryOk es ds
  run : ∀ vars', Good vars' ds → RunInv vars' v es (ds.map fun d => some d.ctx)

theorem decoded {isAlpha m t g} (h : interpret isAlpha m t = .ok g) :
    ∃ v ds es, Decoded isAlpha m t g v ds es := by
  obtain ⟨ts, es, hn, rfl⟩ := interpret_ok h
  obtain ⟨v, ds, hv, hds, rfl, hall, -, hrun⟩ := node_spec isAlpha m t.node.vars t.node ts es hn
  refine ⟨v, ds, es, hv, ?_, mapM_ok_all2 hds, ?_, ?_, ?_, rfl, hall, hrun⟩
  · simp [Spec.Reading.read, hds, Except.map, hv]
  · simp [Graph.mk', colon]
  · simp [Graph.mk', hv]
  · simp only [Graph.mk']
    apply ofList_of_nodup
    rw [epimapOf_eq_firstOcc]
    exact (firstOccAux_keys_nodup (·.1) [] es).1

section
variable {isAlpha : Char → Bool} {m : Model} {t : Tree} {g : Graph} {v : Str} {ds : List Denoted}
  {es : List (Triple × List Epi)}

theorem Decoded.getTop (D : Decoded isAlpha m t g v ds es) : g.getTop = some v := by
  simp [Graph.getTop, D.top]

theorem Decoded.written_of (D : Decoded isAlpha m t g v ds es) {d} (hd : d ∈ ds) :
    ∃ w ∈ Node.written t.node, w.ctx = some d.ctx ∧ parseAln? isAlpha (roleAlnText w.role) = .ok d.roleAln ∧
      Shape isAlpha m t.node.vars w d := by
  obtain ⟨w, hw, hden⟩ := D.den.mem_right hd
  exact ⟨w, hw, denote_shape hden⟩

theorem Decoded.ctx_mem (D : Decoded isAlpha m t g v ds es) {d} (hd : d ∈ ds) : d.ctx ∈ t.node.vars := by
  obtain ⟨w, hw, hc, -, -⟩ := D.written_of hd
  exact (written_node_vars t.node w hw).1 _ hc

theorem Decoded.opens_mem (D : Decoded isAlpha m t g v ds es) {d nv} (hd : d ∈ ds) (ho : d.opens = some nv) :
    nv ∈ t.node.vars := by
  obtain ⟨w, hw, -, -, hs⟩ := D.written_of hd
  cases hs with
  | opens nv' h1 h2 h3 h4 => rw [h2] at ho; cases ho; exact (written_node_vars t.node w hw).2 _ h1
  | null h1 h2 => rw [h2] at ho; cases ho
  | str raw h1 h2 => rw [h2] at ho; cases ho

theorem Decoded.src_mem (D : Decoded isAlpha m t g v ds es) {d} (hd : d ∈ ds) : d.triple.src ∈ t.node.vars := by
  have hc := D.ctx_mem hd
  obtain ⟨w, hw, -, -, hs⟩ := D.written_of hd
  cases hs with
  | opens nv h1 h2 h3 h4 =>
    rw [h4]
    cases hsw : d.swapped with
    | false => simpa [orientTriple] using hc
    | true => simpa [orientTriple, Model.invert] using (written_node_vars t.node w hw).2 _ h1
  | null h1 h2 h3 h4 => rw [h4]; exact hc
  | str raw h1 h2 h3 h4 =>
    rw [h4]
    cases hsw : d.swapped with
    | false => simpa [orientTriple] using hc
    | true =>
      rw [hsw] at h3
      have : (splitTarget raw).1 ∈ t.node.vars := by
        have := h3.symm; simp only [Bool.and_eq_true, decide_eq_true_eq] at this; exact this.2
      simpa [orientTriple, Model.invert] using this

theorem Decoded.var_is_src (D : Decoded isAlpha m t g v ds es) {x} (hx : x ∈ t.node.vars) :
    ∃ d ∈ ds, d.triple.src = x ∧ d.triple.role = CONCEPT_ROLE ∧ d.ctx = x ∧ d.swapped = false := by
  obtain ⟨w, hw, hc, hr⟩ := written_instance_node t.node x hx
  obtain ⟨d, hd, hden⟩ := D.den.mem_left hw
  obtain ⟨h1, -, hs⟩ := denote_shape hden
  rw [hc] at h1; cases h1
  refine ⟨d, hd, ?_⟩
  have hni := not_inverted_concept m
  cases hs with
  | opens nv h1 h2 h3 h4 =>
    rw [hr, hni] at h3; simp at h3
    rw [h4, h3, hr]; simp [orientTriple]
  | null h1 h2 h3 h4 => rw [h4, hr]; simp [h3]
  | str raw h1 h2 h3 h4 =>
    rw [hr, hni] at h3; simp at h3
    rw [h4, h3, hr]; simp [orientTriple]

theorem Decoded.top_mem (D : Decoded isAlpha m t g v ds es) : v ∈ t.node.vars := by
  have := D.var
  cases hn : t.node with
  | mk x bs => rw [hn] at this; simp only [Node.var] at this; subst this; exact mem_vars_mk v bs

theorem Decoded.srcs (D : Decoded isAlpha m t g v ds es) :
    g.triples.map (·.src) = ds.map fun d => d.triple.src := by
  rw [D.triples]; simp [colon]

theorem Decoded.mem_srcs (D : Decoded isAlpha m t g v ds es) (y : Str) :
    y ∈ (ds.map fun d => d.triple.src) ↔ y ∈ t.node.vars := by
  simp only [List.mem_map]
  constructor
  · rintro ⟨d, hd, rfl⟩; exact D.src_mem hd
  · intro hy
    obtain ⟨d, hd, h1, -⟩ := D.var_is_src hy
    exact ⟨d, hd, h1⟩

theorem Decoded.variables_eq (D : Decoded isAlpha m t g v ds es) :
    g.variables = dedup (ds.map fun d => d.triple.src) := by
  have h : v ∈ dedup (ds.map fun d => d.triple.src) := (mem_dedup _ _).2 ((D.mem_srcs v).2 D.top_mem)
  unfold Graph.variables
  simp only [D.top, D.srcs, h, if_true]

theorem Decoded.mem_variables (D : Decoded isAlpha m t g v ds es) (x : Str) :
    x ∈ g.variables ↔ x ∈ t.node.vars := by
  rw [D.variables_eq, mem_dedup, D.mem_srcs]

/-! ### alignments -/

theorem filterMap_congr' {α β : Type} {f g : α → Option β} {l : List α} (h : ∀ x ∈ l, f x = g x) :
    l.filterMap f = l.filterMap g := by
  induction l with
  | nil => rfl
  | cons a l ih =>
    rw [List.filterMap_cons, List.filterMap_cons, h a List.mem_cons_self,
      ih fun x hx => h x (List.mem_cons_of_mem _ hx)]

def entryProj (x : Triple × List Epi) : Triple × Option Epi × Option Epi := (x.1, roleProj x.2, tgtProj x.2)
def denProj (d : Denoted) : Triple × Option Epi × Option Epi :=
  (d.triple, d.roleAln.map fun a => Epi.roleAln a.1 a.2, d.tgtAln.map fun a => Epi.aln a.1 a.2)

theorem Decoded.epimap_proj (D : Decoded isAlpha m t g v ds es) :
    g.epidata.map entryProj = (firstOccBy (·.triple) ds).map denProj := by
  have h1 : es.map entryProj = ds.map denProj :=
    D.ent.map_eq (fun x d h => by simp [entryProj, denProj, h.key, h.ra, h.ta])
  rw [D.epi, epimapOf_eq_firstOcc]
  unfold firstOccBy
  have h2 := firstOccAux_map entryProj (·.1) [] es
  have h3 := firstOccAux_map denProj (·.1) [] ds
  simp only [entryProj] at h2
  simp only [denProj] at h3
  rw [← h2, ← h3]
  exact congrArg _ h1

theorem getAlignments_eq (g : Graph) (role : Bool) :
    getAlignments g role = (g.epidata.map entryProj).filterMap fun p =>
      (if role then p.2.1 else p.2.2).map fun e => (p.1, e) := by
  unfold getAlignments
  rw [List.filterMap_map]
  apply filterMap_congr'
  rintro ⟨tr, e⟩ _
  cases role
  · simp only [Bool.false_eq_true, if_false, Function.comp, entryProj, tgtProj]
    cases (List.filter (fun x => decide (x.mode = 2)) e).getLast? <;> rfl
  · simp only [if_true, Function.comp, entryProj, roleProj]
    cases (List.filter (fun x => decide (x.mode = 1)) e).getLast? <;> rfl

theorem Decoded.alignments (D : Decoded isAlpha m t g v ds es) :
    getAlignments g false =
      (Reading.alignments ⟨some v, ds⟩).map fun p => (p.1, Epi.aln p.2.1 p.2.2) := by
  rw [getAlignments_eq, D.epimap_proj, List.filterMap_map, Reading.alignments, List.map_filterMap]
  apply filterMap_congr'
  intro d _
  simp only [Function.comp, denProj, Bool.false_eq_true, if_false]
  cases d.tgtAln <;> rfl

theorem Decoded.roleAlignments (D : Decoded isAlpha m t g v ds es) :
    getAlignments g true =
      (Reading.roleAlignments ⟨some v, ds⟩).map fun p => (p.1, Epi.roleAln p.2.1 p.2.2) := by
  rw [getAlignments_eq, D.epimap_proj, List.filterMap_map, Reading.roleAlignments, List.map_filterMap]
  apply filterMap_congr'
  intro d _
  simp only [Function.comp, denProj, if_true]
  cases d.roleAln <;> rfl

/-! ### no `~` in a triple -/

theorem Decoded.no_tilde (D : Decoded isAlpha m t g v ds es) {d} (hd : d ∈ ds) :
    '~' ∉ (colon d.triple).role ∧
      ∀ s, (colon d.triple).tgt = .str s → '~' ∈ s → s.head? = some '"' ∨ s ∈ t.node.vars := by
  have hc := D.ctx_mem hd
  obtain ⟨w, hw, -, -, hs⟩ := D.written_of hd
  have hr := tilde_not_mem_roleName w.role
  simp only [colon]
  cases hs with
  | opens nv h1 h2 h3 h4 =>
    have hnv := (written_node_vars t.node w hw).2 _ h1
    rw [h4]
    cases d.swapped with
    | false =>
      refine ⟨tilde_not_mem_ensureColon _ hr, fun s hs _ => .inr ?_⟩
      simp only [orientTriple, Bool.false_eq_true, if_false, Atom.str.injEq] at hs; exact hs ▸ hnv
    | true =>
      refine ⟨tilde_not_mem_ensureColon _ (tilde_not_mem_invertRole m _ hr), fun s hs _ => .inr ?_⟩
      simp only [orientTriple, if_true, Model.invert, Atom.str.injEq] at hs; exact hs ▸ hc
  | null h1 h2 h3 h4 =>
    rw [h4]; exact ⟨tilde_not_mem_ensureColon _ hr, fun s hs => by cases hs⟩
  | str raw h1 h2 h3 h4 =>
    rw [h4]
    cases d.swapped with
    | false =>
      refine ⟨tilde_not_mem_ensureColon _ hr, fun s hs ht => .inl ?_⟩
      simp only [orientTriple, Bool.false_eq_true, if_false, Atom.str.injEq] at hs
      subst hs; exact tilde_splitTarget raw ht
    | true =>
      refine ⟨tilde_not_mem_ensureColon _ (tilde_not_mem_invertRole m _ hr), fun s hs _ => .inr ?_⟩
      simp only [orientTriple, if_true, Model.invert, Atom.str.injEq] at hs; exact hs ▸ hc

/-! ### C14: diagnostics on a layoutable reading -/

theorem Decoded.keys (D : Decoded isAlpha m t g v ds es) : es.map (·.1) = ds.map (·.triple) :=
  D.ent.map_eq fun _ _ h => h.key

theorem Decoded.triples_eq (D : Decoded isAlpha m t g v ds es) (L : Reading.Layoutable ⟨some v, ds⟩) :
    g.triples = ds.map (·.triple) := by
  rw [D.triples]
  apply List.map_congr_left
  intro d hd
  have := L.2.1 d hd
  simp only [colon, this]

theorem Decoded.epi_eq (D : Decoded isAlpha m t g v ds es) (L : Reading.Layoutable ⟨some v, ds⟩) :
    g.epidata = es := by
  rw [D.epi, epimapOf_eq_firstOcc]
  apply firstOccAux_of_nodup
  · rw [D.keys]; exact L.1
  · intro x _; simp

theorem Decoded.lookup (D : Decoded isAlpha m t g v ds es) (L : Reading.Layoutable ⟨some v, ds⟩)
    {x} (hx : x ∈ es) : AList.get? g.epidata x.1 = some x.2 := by
  rw [D.epi_eq L]
  apply get?_of_mem_nodup
  · rw [D.keys]; exact L.1
  · exact hx

theorem eventsG_eq_events (g : Graph) (l : List (Triple × List Epi))
    (h : ∀ x ∈ l, AList.get? g.epidata x.1 = some x.2) : eventsG g (l.map (·.1)) = events l := by
  induction l with
  | nil => rfl
  | cons x l ih =>
    simp only [eventsG, events, List.map_cons, List.flatMap_cons] at ih ⊢
    rw [ih fun y hy => h y (List.mem_cons_of_mem _ hy), h x List.mem_cons_self]
    rfl

theorem Decoded.good (D : Decoded isAlpha m t g v ds es) (L : Reading.Layoutable ⟨some v, ds⟩) :
    Good g.variables ds := fun d hd =>
  ⟨(D.mem_variables _).2 (D.ctx_mem hd), L.2.2.1 d hd, L.2.2.2 d hd⟩

theorem Decoded.nodeContexts (D : Decoded isAlpha m t g v ds es) (L : Reading.Layoutable ⟨some v, ds⟩) :
    nodeContexts g = .ok (ds.map fun d => some d.ctx) := by
  unfold Penman.nodeContexts
  rw [loop_eq_run, D.getTop, D.triples_eq L, ← D.keys, eventsG_eq_events g es (fun x hx => D.lookup L hx)]
  have := D.run g.variables (D.good L) [] []
  simp only [List.append_nil, Interp.run] at this
  rw [this]

theorem Decoded.pushed (D : Decoded isAlpha m t g v ds es) (L : Reading.Layoutable ⟨some v, ds⟩)
    {d} (hd : d ∈ ds) : getPushedVariable g d.triple = d.opens := by
  obtain ⟨x, hx, hok⟩ := D.ent.mem_pair hd
  have hxe : x ∈ es := (List.of_mem_zip hx).1
  have := D.lookup L hxe
  rw [hok.key] at this
  unfold getPushedVariable
  rw [this]
  exact hok.push

theorem Decoded.pushed_none (D : Decoded isAlpha m t g v ds es) {tr : Triple}
    (h : tr ∉ ds.map (·.triple)) : getPushedVariable g tr = none := by
  unfold getPushedVariable
  rw [get?_none_of_not_mem]
  · rfl
  · rw [D.epi, epimapOf_eq_firstOcc]
    intro hm
    obtain ⟨x, hx, rfl⟩ := List.mem_map.1 hm
    have hsub : ∀ (seen : List Triple) (l : List (Triple × List Epi)) y, y ∈ firstOccAux (·.1) seen l → y ∈ l := by
      intro seen l
      induction l generalizing seen with
      | nil => intro y hy; cases hy
      | cons a l ih =>
        intro y hy
        simp only [firstOccAux] at hy
        split at hy
        · exact List.mem_cons_of_mem _ (ih _ _ hy)
        · rcases List.mem_cons.1 hy with rfl | hy
          · exact List.mem_cons_self
          · exact List.mem_cons_of_mem _ (ih _ _ hy)
    have := hsub [] es x hx
    exact h (D.keys ▸ List.mem_map.2 ⟨x, this, rfl⟩)

theorem scan_of_mem (ds : List Denoted) (h : (ds.map (·.triple)).Nodup) {d} (hd : d ∈ ds) :
    invertedScan d.triple (ds.map fun d => some d.ctx) (ds.map (·.triple)) = decide (d.triple.tgt = .str d.ctx) := by
  induction ds with
  | nil => cases hd
  | cons a ds ih =>
    simp only [List.map_cons, List.nodup_cons] at h
    simp only [List.map_cons, invertedScan]
    rcases List.mem_cons.1 hd with rfl | hd'
    · simp
    · have hne : a.triple ≠ d.triple := by
        intro e; exact h.1 (e ▸ List.mem_map.2 ⟨d, hd', rfl⟩)
      simp only [hne, if_false]
      exact ih h.2 hd'

theorem Decoded.isVar (D : Decoded isAlpha m t g v ds es) (s : Str) :
    g.isVar (.str s) = decide (s ∈ t.node.vars) := by
  simp only [Graph.isVar, D.mem_variables]

theorem Decoded.appearsInverted (D : Decoded isAlpha m t g v ds es) (L : Reading.Layoutable ⟨some v, ds⟩)
    {d} (hd : d ∈ ds) (hne : Atom.str d.triple.src ≠ d.triple.tgt) :
    appearsInverted g d.triple = .ok d.swapped := by
  have hpush := D.pushed L hd
  have hctx := D.nodeContexts L
  have hscan := scan_of_mem ds L.1 hd
  have hinst := L.2.2.2 d hd
  have hc := D.ctx_mem hd
  obtain ⟨w, hw, -, -, hs⟩ := D.written_of hd
  unfold Penman.appearsInverted
  rw [hpush, hctx, D.triples_eq L]
  simp only [bind, Except.bind, pure, Except.pure, hscan]
  cases hs with
  | opens nv h1 h2 h3 h4 =>
    have hnv := (written_node_vars t.node w hw).2 _ h1
    rw [h2]
    cases hsw : d.swapped with
    | false =>
      rw [hsw] at h4
      simp only [orientTriple, Bool.false_eq_true, if_false] at h4
      rw [h4] at hne ⊢
      simp only [D.isVar, hnv, decide_true, Bool.not_true, Bool.or_false]
      by_cases hr : roleName w.role = CONCEPT_ROLE
      · simp [hr]
      · simp only [hr, decide_false, Bool.false_eq_true, if_false, Except.ok.injEq, decide_eq_false_iff_not]
        intro e; exact hne (by rw [e])
    | true =>
      have hi := hinst hsw
      rw [hsw] at h4
      simp only [orientTriple, if_true, Model.invert] at h4
      rw [h4] at hi ⊢
      simp only at hi
      simp [D.isVar, hc, hi]
  | null h1 h2 h3 h4 =>
    rw [h4, h3]; simp [Graph.isVar]
  | str raw h1 h2 h3 h4 =>
    rw [h2]
    cases hsw : d.swapped with
    | false =>
      rw [hsw] at h4 h3
      simp only [orientTriple, Bool.false_eq_true, if_false] at h4
      rw [h4] at hne ⊢
      simp only [D.isVar]
      by_cases hr : roleName w.role = CONCEPT_ROLE
      · simp [hr]
      · by_cases hv : (splitTarget raw).1 ∈ t.node.vars
        · simp only [hr, hv, decide_false, decide_true, Bool.not_true, Bool.or_false, Bool.false_eq_true,
            if_false, Except.ok.injEq, decide_eq_false_iff_not]
          intro e; simp only [Atom.str.injEq] at e; exact hne (by rw [e])
        · simp [hv]
    | true =>
      have hi := hinst hsw
      rw [hsw] at h4
      simp only [orientTriple, if_true, Model.invert] at h4
      rw [h4] at hi ⊢
      simp only at hi
      simp [D.isVar, hc, hi]
end

/-! ### totality of the diagnostics (after fix F19) and marker-less graphs -/

theorem run_length (vars : List Str) (evs : List Ev) (st : List (Option Str)) :
    (run vars evs st).length = countT evs := by
  induction evs generalizing st with
  | nil => simp [run, countT]
  | cons e evs ih =>
    cases e with
    | p => cases st <;> simp [run, countT, ih]
    | t tr push =>
      cases st with
      | nil => simp [run, countT]
      | cons top st =>
        cases top with
        | none => simp [run, countT]
        | some cur =>
          simp only [run, countT]
          split <;> simp [ih]

theorem nodeContexts_eq_run (g : Graph) :
    nodeContexts g = .ok (run g.variables (eventsG g g.triples) [g.getTop]) := by
  unfold nodeContexts; exact loop_eq_run _ _ _ _

theorem appearsInverted_eq (g : Graph) (t : Triple) :
    appearsInverted g t = .ok
      (if t.role = CONCEPT_ROLE || !g.isVar t.tgt then false
       else match getPushedVariable g t with
        | some v => decide (v = t.src)
        | none => invertedScan t (run g.variables (eventsG g g.triples) [g.getTop]) g.triples) := by
  unfold appearsInverted
  rw [nodeContexts_eq_run]
  split
  · rfl
  · cases getPushedVariable g t <;> rfl

/-- the contexts a marker-less graph gets: the top for as long as it is eligible, unknown afterwards -/
def topWhileEligible (vars : List Str) (c : Str) : List Triple → List (Option Str)
  | [] => []
  | t :: r => if c ∈ eligible vars t then some c :: topWhileEligible vars c r
              else List.replicate (r.length + 1) none

theorem eventsG_markerless (g : Graph) (h : g.epidata = []) (ts : List Triple) :
    eventsG g ts = ts.map fun t => Ev.t t none := by
  induction ts with
  | nil => rfl
  | cons t ts ih =>
    simp only [eventsG, List.flatMap_cons, List.map_cons] at ih ⊢
    rw [ih]
    simp [h, AList.get?, evOf, firstPush, countPop]

theorem countT_map_t (ts : List Triple) : countT (ts.map fun t => Ev.t t none) = ts.length := by
  induction ts with
  | nil => rfl
  | cons t ts ih => simp [countT, ih]

theorem run_markerless (vars : List Str) (c : Str) (ts : List Triple) :
    run vars (ts.map fun t => Ev.t t none) [some c] = topWhileEligible vars c ts := by
  induction ts with
  | nil => rfl
  | cons t ts ih =>
    simp only [List.map_cons, run, topWhileEligible, pushOn, ih, countT_map_t]
    by_cases h : c ∈ eligible vars t <;> simp [h]


/-! ### converse: the interpreter is defined wherever the reading is -/

theorem mapM_cons_inv {α β ε : Type} {f : α → Except ε β} {a : α} {l : List α} {bs : List β}
    (h : List.mapM f (a :: l) = .ok bs) : ∃ b bs', f a = .ok b ∧ List.mapM f l = .ok bs' ∧ bs = b :: bs' := by
  rw [List.mapM_cons] at h
  cases hfa : f a with
  | error e => simp [hfa, bind, Except.bind] at h
  | ok b =>
    cases hl : l.mapM f with
    | error e => simp [hfa, hl, bind, Except.bind] at h
    | ok bs' =>
      simp [hfa, hl, bind, Except.bind, pure, Except.pure] at h
      exact ⟨b, bs', rfl, rfl, h.symm⟩

theorem mapM_append_inv {α β ε : Type} {f : α → Except ε β} {l₁ l₂ : List α} {bs : List β}
    (h : List.mapM f (l₁ ++ l₂) = .ok bs) :
    ∃ b₁ b₂, List.mapM f l₁ = .ok b₁ ∧ List.mapM f l₂ = .ok b₂ ∧ bs = b₁ ++ b₂ := by
  rw [List.mapM_append] at h
  cases h1 : l₁.mapM f with
  | error e => simp [h1, bind, Except.bind] at h
  | ok b₁ =>
    cases h2 : l₂.mapM f with
    | error e => simp [h1, h2, bind, Except.bind] at h
    | ok b₂ =>
      simp [h1, h2, bind, Except.bind, pure, Except.pure] at h
      exact ⟨b₁, b₂, rfl, rfl, h.symm⟩

theorem denote_ctx_none {isAlpha m vars role tgt d} :
    denote isAlpha m vars ⟨none, role, tgt⟩ ≠ .ok d := by
  simp [denote]

mutual
theorem node_defined (isAlpha : Char → Bool) (m : Model) (vars : List Str) :
    (n : Node) → ∀ ds, (Node.written n).mapM (denote isAlpha m vars) = .ok ds →
      ∃ p, interpretNode isAlpha m vars n = .ok p
  | .mk v bs => by
    intro ds h
    simp only [Node.written] at h
    obtain ⟨b₁, b₂, h1, h2, -⟩ := mapM_append_inv h
    cases v with
    | none =>
      exfalso
      by_cases hl : labelled bs
      · cases bs with
        | nil => simp [labelled, Branches.toList] at hl
        | atom r a rest =>
          simp only [Branches.written] at h2
          obtain ⟨b, _, hb, -⟩ := mapM_cons_inv h2
          exact denote_ctx_none hb
        | sub r n rest =>
          simp only [Branches.written] at h2
          obtain ⟨b, _, hb, -⟩ := mapM_cons_inv h2
          exact denote_ctx_none hb
      · simp only [hl, Bool.false_eq_true, if_false] at h1
        obtain ⟨b, _, hb, -⟩ := mapM_cons_inv h1
        exact denote_ctx_none hb
    | some var =>
      obtain ⟨out, ho⟩ := branches_defined isAlpha m vars bs var b₂ h2
      simp only [interpretNode, ho, bind, Except.bind]
      split <;> exact ⟨_, rfl⟩
theorem branches_defined (isAlpha : Char → Bool) (m : Model) (vars : List Str) :
    (bs : Branches) → ∀ v ds, (Branches.written (some v) bs).mapM (denote isAlpha m vars) = .ok ds →
      ∃ out, interpretBranches isAlpha m vars v bs = .ok out
  | .nil => by intro v ds _; exact ⟨_, rfl⟩
  | .atom r a rest => by
    intro v ds h
    simp only [Branches.written] at h
    obtain ⟨d, ds', hd, hrest, -⟩ := mapM_cons_inv h
    obtain ⟨out', ho⟩ := branches_defined isAlpha m vars rest v ds' hrest
    obtain ⟨-, hra, hs⟩ := denote_shape hd
    have hpr := processRole_eq isAlpha r
    simp only at hra
    rw [hra] at hpr
    cases hs with
    | opens nv h1 => cases h1
    | null h1 =>
      simp only [WTarget.atom.injEq] at h1; subst h1
      simp only [interpretBranches, hpr, Except.map, processAtomic, ho, bind, Except.bind, pure, Except.pure]
      exact ⟨_, rfl⟩
    | str raw h1 h2 h3 h4 h5 =>
      simp only [WTarget.atom.injEq] at h1; subst h1
      have hpa := processAtomic_str isAlpha raw
      rw [h5] at hpa
      simp only [interpretBranches, hpr, Except.map, hpa, ho, bind, Except.bind, pure, Except.pure]
      exact ⟨_, rfl⟩
  | .sub r n rest => by
    intro v ds h
    simp only [Branches.written] at h
    obtain ⟨d, ds', hd, hrest, -⟩ := mapM_cons_inv h
    obtain ⟨dn, dr, hn, hr, -⟩ := mapM_append_inv hrest
    obtain ⟨out', ho⟩ := branches_defined isAlpha m vars rest v dr hr
    obtain ⟨p, hp⟩ := node_defined isAlpha m vars n dn hn
    obtain ⟨-, hra, hs⟩ := denote_shape hd
    have hpr := processRole_eq isAlpha r
    simp only at hra
    rw [hra] at hpr
    cases hs with
    | null h1 => cases h1
    | str raw h1 => cases h1
    | opens nv h1 =>
      simp only [WTarget.opens.injEq] at h1
      obtain ⟨nts, nes⟩ := p
      simp only [interpretBranches, hpr, Except.map, h1, hp, ho, bind, Except.bind, pure, Except.pure]
      exact ⟨_, rfl⟩
end

theorem interpret_defined {isAlpha m} {t : Tree} {r} (h : Spec.Reading.read isAlpha m t.node = .ok r) :
    ∃ g, interpret isAlpha m t = .ok g := by
  unfold Spec.Reading.read at h
  cases hm : (Node.written t.node).mapM (denote isAlpha m t.node.vars) with
  | error e => simp [hm, Except.map] at h
  | ok ds =>
    obtain ⟨p, hp⟩ := node_defined isAlpha m t.node.vars t.node ds hm
    obtain ⟨ts, es⟩ := p
    refine ⟨Graph.mk' ts t.node.var (epimapOf es) t.metadata, ?_⟩
    simp only [interpret, hp, bind, Except.bind, pure, Except.pure]


end Penman.Interp

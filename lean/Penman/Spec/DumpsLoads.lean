/-
  Penman.Spec.DumpsLoads — vocabulary of C09 at the level of GRAPHS: `dumps` / `dump` / `loads` / `load`
  of `penman/codec.py`, the hypothesis on a graph (`Encodable`: the hypotheses of `C03_text` with the
  graph's own top) and the comparison of a loaded graph with the dumped one (`SameGraph`: the
  conclusion of `C03_text`).
-/
import Penman.Proofs.EncodeDecode
import Penman.Main
namespace Penman
namespace C09g
open Penman.Spec Penman.Cfg Penman.C03Text

/-- `[f x for x in xs]` where `f` may raise: the first error wins -/
def mapE {α β ε : Type} (f : α → Except ε β) : List α → Except ε (List β)
  | [] => .ok []
  | x :: xs =>
    match f x with
    | .error e => .error e
    | .ok y =>
      match mapE f xs with
      | .error e => .error e
      | .ok ys => .ok (y :: ys)

/-- `[codec.encode(g, indent=indent, compact=compact) for g in graphs]` (`top=None`) -/
def encodeAll (m : Model) (gs : List Graph) (i : Indent) (c : Bool) : Except PyErr (List Str) :=
  mapE (fun g => encode m g none i c) gs

/-- `sep.join(encode(g) for g in graphs)` -/
def dumpsSep (sep : Str) (m : Model) (gs : List Graph) (i : Indent) (c : Bool) : Except PyErr Str :=
  (encodeAll m gs i c).map (joinStr sep)

/-- `penman.dumps(graphs, model, indent, compact)` = `'\n\n'.join(strings)` -/
def dumps (m : Model) (gs : List Graph) (i : Indent) (c : Bool) : Except PyErr Str :=
  dumpsSep ['\n', '\n'] m gs i c

/-- what `_dump_stream` writes: `print(s₀, file=fh)`, then for every further string
    `print(file=fh); print(s, file=fh)` -/
def dumpStream : List Str → Str
  | [] => []
  | s :: ss => s ++ ['\n'] ++ (ss.map fun x => ['\n'] ++ (x ++ ['\n'])).flatten

/-- the content of the file after `penman.dump(graphs, file, model, indent, compact)`
    (only the case without exception is modelled: on an error Python has already written the
    encodings before the failing one) -/
def dumpFile (m : Model) (gs : List Graph) (i : Indent) (c : Bool) : Except PyErr Str :=
  (encodeAll m gs i c).map dumpStream

/-- `list(codec.iterdecode(tokens))`: `interpret` is applied to each tree as soon as `iterparse` has
    yielded it, so an `interpret` error of a yielded tree comes before a later parse error; if all
    yielded trees are interpreted and the generator then raises, that error is the result -/
def loadToks (isSpace isAlpha : Char → Bool) (m : Model) (toks : List Tok) : Except PyErr (List Graph) :=
  match mapE (interpret isAlpha m) (iterparseToks isSpace toks).1 with
  | .error e => .error e
  | .ok gs =>
    match (iterparseToks isSpace toks).2 with
    | some e => .error e
    | none => .ok gs

/-- `penman.loads(string, model)` -/
def loads (cfg : LexCfg) (isSpace isAlpha : Char → Bool) (m : Model) (s : Str) : Except PyErr (List Graph) :=
  loadToks isSpace isAlpha m (lexStr cfg cfg.penmanOrder s)

/-- `penman.load(file, model)` where the file has content `s` (iterated by lines, universal newlines) -/
def loadFile (cfg : LexCfg) (isSpace isAlpha : Char → Bool) (m : Model) (s : Str) : Except PyErr (List Graph) :=
  loadToks isSpace isAlpha m (lexLines cfg cfg.penmanOrder (fileLines s))

/-- the hypotheses of `C03_text` on a graph that is encoded from its own top (`top = None`) -/
structure Encodable (cfg : LexCfg) (isSpace : Char → Bool) (m : Model) (g : Graph) : Prop where
  wf : WfGraph m g
  text : GraphTextOK cfg isSpace m g
  pushVars : PushVars g
  pushSrc : PushSrcOK g
  top : ∃ t, g.getTop = some t ∧ t ∈ g.variables ∧ ∀ v ∈ g.variables, Reach g t v

/-- the conclusion of `C03_text`: `g'` (loaded) has the content of `g` (dumped) — same top, same
    variables, same triples as a multiset after one de-inversion (constants by their written form),
    every triple of `g'` is the written form of a triple of `g` or its inversion, and the SAME
    metadata (keys, values, order) -/
structure SameGraph (m : Model) (g g' : Graph) : Prop where
  top : g'.getTop = g.getTop
  vars : ∀ x, x ∈ g'.variables ↔ x ∈ g.variables
  triples : (g'.triples.map (deinvert1 m g)).Perm ((g.triples.map writtenTriple).map (deinvert1 m g))
  written : ∀ x ∈ g'.triples, ∃ t0 ∈ g.triples, x = writtenTriple t0 ∨ x = m.invert (writtenTriple t0)
  metadata : g'.metadata = g.metadata

end C09g
end Penman


/-
  Penman.Format — `penman._format`: `format`, `format_triples`.
-/
import Penman.Tree
import Penman.Model
namespace Penman

/-- `indent` argument: `None`, or an integer (−1 = adaptive, n ≥ 0 fixed).
    Other negative values behave like a fixed width in Python
    (`' ' * negative = ''`); we carry the `Int`. -/
abbrev Indent := Option Int

def spaces (n : Int) : Str := List.replicate n.toNat ' '

def atomText : Atom → Str
  | .none => []
  | .str s => s
  | .num t => t

def ensureColonRole (r : Str) : Str :=
  if r ≠ ['/'] && !startsWith [':'] r then ':' :: r else r

/-- the parts/compact bookkeeping of `_format_node`:
    `go compact parts` over the formatted edges `(breaksCompact, text)` -/
def joinParts (joiner : Str) : Bool → List Str → List (Bool × Str) → Str
  | compact, parts, [] =>
    let parts := if compact then [joinStr [' '] parts.reverse] else parts.reverse
    joinStr joiner parts
  | compact, parts, (brk, txt) :: rest =>
    if compact && brk then
      let parts := if parts.isEmpty then parts else [joinStr [' '] parts.reverse]
      joinParts joiner false (txt :: parts) rest
    else joinParts joiner compact (txt :: parts) rest

mutual
/-- `_format_node(node, indent, column, vars)` -/
def formatNode (indent : Indent) (vars : List Str) : Node → Int → Str
  | .mk var bs, column =>
    match var with
    | none => "()".toList
    | some v =>
      if v.isEmpty then "()".toList
      else match bs with
      | .nil => '(' :: v ++ [')']
      | bs =>
        let column' : Int := match indent with
          | none => column
          | some i => if i = -1 then column + v.length + 2 else column + i
        let joiner : Str := match indent with
          | none => [' ']
          | some _ => '\n' :: spaces column'
        let edges := formatEdges indent vars bs column'
        '(' :: v ++ [' '] ++ joinParts joiner (!vars.isEmpty) [] edges ++ [')']
/-- each edge as `(breaks compact mode?, text)` -/
def formatEdges (indent : Indent) (vars : List Str) : Branches → Int → List (Bool × Str)
  | .nil, _ => []
  | .atom role a rest, column =>
    let role := ensureColonRole role
    let txt := if a.isMissing then role else role ++ [' '] ++ atomText a
    (atomInVars vars a, txt) :: formatEdges indent vars rest column
  | .sub role n rest, column =>
    let role := ensureColonRole role
    let col : Int := if indent = some (-1) then column + role.length + 1 else column
    (true, role ++ [' '] ++ formatNode indent vars n col) :: formatEdges indent vars rest column
end

/-- the metadata lines of `format` -/
def formatMeta (md : AList Str Str) : List Str :=
  md.map fun (k, v) => "# ::".toList ++ k ++ (if v.isEmpty then v else ' ' :: v)

/-- `format(tree, indent, compact)` -/
def format (t : Tree) (indent : Indent) (compact : Bool) : Str :=
  let vars := if compact then t.node.vars else []
  joinStr ['\n'] (formatMeta t.metadata ++ [formatNode indent vars t.node 0])

/-- `format_triples(triples, indent)` -/
def formatTriples (ts : List Triple) (indent : Bool) : Str :=
  let delim := if indent then " ^\n".toList else " ^ ".toList
  joinStr delim (ts.map fun t =>
    lstripChar ':' t.role ++ ['('] ++ t.src ++ ", ".toList ++
      (match t.tgt with | .none => "None".toList | a => atomText a) ++ [')'])

end Penman

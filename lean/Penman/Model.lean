/-
  Penman.Model — `penman.model.Model`: role membership, inversion,
  canonicalisation, reification tables, ordering keys.
  Mirrors penman/model.py function by function.
-/
import Penman.Basic
namespace Penman

/-- The role patterns the translator accepts (everything in the shipped
    tables): a literal, a literal followed by one ASCII digit (`[0-9]`),
    or by one or more (`[0-9]+`). -/
inductive RolePat where
  | lit (s : Str)
  | digit (s : Str)
  | digits (s : Str)
deriving DecidableEq, Repr

structure Triple where
  src : Str
  role : Str
  tgt : Atom
deriving DecidableEq, Repr, Inhabited

structure Reif where
  role : Str
  concept : Atom
  source : Str
  target : Str
deriving DecidableEq, Repr

structure Model where
  /-- `NoOpModel`: `deinvert` is the identity -/
  noop : Bool := false
  topVariable : Str := "top".toList
  topRole : Str := ":TOP".toList
  conceptRole : Str := ":instance".toList
  roles : List RolePat := []
  norm : AList Str Str := []
  reifs : List Reif := []
deriving Repr

def CONCEPT_ROLE : Str := ":instance".toList

def RolePat.matches (p : RolePat) (r : Str) : Bool :=
  match p with
  | .lit s => r == s
  | .digit s => s.isPrefixOf r && (match r.drop s.length with | [d] => isAsciiDigit d | _ => false)
  | .digits s => s.isPrefixOf r && (let t := r.drop s.length; !t.isEmpty && t.all isAsciiDigit)

/-- all alternatives of `_role_re` in order -/
def Model.pats (m : Model) : List RolePat := m.roles ++ [.lit m.topRole, .lit m.conceptRole]

/-- full match of one of the alternatives (no `$`-before-newline quirk) -/
def Model.matchExact (m : Model) (r : Str) : Bool := m.pats.any (·.matches r)

/-- `Model._has_role`: `re.match('^(...)$', role)`; Python's `$` also matches
    just before a trailing line feed. -/
def Model.hasRole1 (m : Model) (r : Str) : Bool :=
  m.matchExact r || (endsWith ['\n'] r && m.matchExact (dropEnd 1 r))

def ofStr : Str := "-of".toList

/-- `Model.has_role` -/
def Model.hasRole (m : Model) (r : Str) : Bool :=
  m.hasRole1 r || (endsWith ofStr r && m.hasRole1 (dropEnd 3 r))

/-- `Model.is_role_inverted` -/
def Model.isRoleInverted (m : Model) (r : Str) : Bool :=
  !m.hasRole1 r && endsWith ofStr r

/-- `Model.invert_role` -/
def Model.invertRole (m : Model) (r : Str) : Str :=
  if !m.hasRole1 r && endsWith ofStr r then dropEnd 3 r else r ++ ofStr

/-- `Model.invert` (target must be usable as a source: a `str`; any other
    target is outside the model). -/
def Model.invert (m : Model) (t : Triple) : Triple :=
  match t.tgt with
  | .str s => ⟨s, m.invertRole t.role, .str t.src⟩
  | _ => ⟨[], m.invertRole t.role, .str t.src⟩  -- unmodelled (non-string source); guarded by callers

/-- `Model.deinvert` (`NoOpModel.deinvert` returns the triple) -/
def Model.deinvert (m : Model) (t : Triple) : Triple :=
  if m.noop then t else if m.isRoleInverted t.role then m.invert t else t

/-- the loop of `_canonicalize_inversion`, with fuel; `none` = fuel ran out -/
def Model.canonLoop (m : Model) : Nat → Str → Option Str
  | 0, _ => none
  | f+1, r =>
    let r' := m.invertRole (m.invertRole r)
    if r' = r then some r else m.canonLoop f r'

def Model.canonFuel (m : Model) (r : Str) : Nat := r.length + 2 * m.pats.length + 4

/-- `Model._canonicalize_inversion` -/
def Model.canonInversion (m : Model) (r : Str) : Option Str :=
  if m.hasRole1 r then some r else m.canonLoop (m.canonFuel r) r

/-- `Model.canonicalize_role` (`none` would be non-termination) -/
def Model.canonRole (m : Model) (r : Str) : Option Str :=
  let r := if r ≠ ['/'] && !startsWith [':'] r then ':' :: r else r
  match m.canonInversion r with
  | none => none
  | some r => some ((AList.get? m.norm r).getD r)

/-- `Model.is_role_reifiable` -/
def Model.isReifiable (m : Model) (r : Str) : Bool := m.reifs.any (·.role = r)

/-- `Model.is_concept_dereifiable` -/
def Model.isDereifiable (m : Model) (c : Atom) : Bool := m.reifs.any (·.concept = c)

/-- fresh variable choice of `Model.reify`: `_`, `_2`, `_3`, … not in `vars` -/
def freshVarLoop (vars : List Str) : Nat → Nat → Str
  | 0, i => '_' :: natToStr i
  | f+1, i => let v := '_' :: natToStr i; if v ∈ vars then freshVarLoop vars f (i+1) else v

def freshVar (vars : List Str) : Str :=
  if ['_'] ∈ vars then freshVarLoop vars (vars.length + 1) 2 else ['_']

/-- `Model.reify` (first reification listed for the role) -/
def Model.reify (m : Model) (t : Triple) (vars : List Str) : Except PyErr (Triple × Triple × Triple) :=
  match m.reifs.find? (·.role = t.role) with
  | none => .error .model
  | some rf =>
    let v := freshVar vars
    .ok (⟨v, rf.source, .str t.src⟩, ⟨v, CONCEPT_ROLE, rf.concept⟩, ⟨v, rf.target, t.tgt⟩)

/-- the search loop of `Model.dereify` over the dereifications of a concept -/
def dereifyLoop (srcRole tgtRole : Str) (srcTgt tgtTgt : Atom) : List Reif → Option (Atom × Str × Atom)
  | [] => none
  | rf :: rest =>
    if rf.source = srcRole ∧ rf.target = tgtRole then some (srcTgt, rf.role, tgtTgt)
    else if rf.target = srcRole ∧ rf.source = tgtRole then some (tgtTgt, rf.role, srcTgt)
    else dereifyLoop srcRole tgtRole srcTgt tgtTgt rest

/-- `Model.dereify`; the new source is whatever the chosen triple's target
    was (possibly a constant: finding F4), so it is returned as an `Atom`. -/
def Model.dereify (m : Model) (inst src tgt : Triple) : Except PyErr (Atom × Str × Atom) :=
  if inst.role ≠ CONCEPT_ROLE then .error (.other "ValueError")
  else if ¬ (inst.src = src.src ∧ src.src = tgt.src) then .error (.other "ValueError")
  else
    let ds := m.reifs.filter (·.concept = inst.tgt)
    if ds.isEmpty then .error .model
    else match dereifyLoop src.role tgt.role src.tgt tgt.tgt ds with
      | some r => .ok r
      | none => .error .model

/-! ### ordering keys -/

/-- `re.match(r'(.*\D)(\d+)$', role)` restricted to ASCII digits: a prefix
    ending in a non-digit followed by the maximal non-empty digit suffix,
    where `$` also matches just before one trailing line feed and `.` does
    not match a line feed (but `\D` does). Returns `(rolename, roleno)`. -/
def alphanumericSplit (r : Str) : Option (Str × Nat) :=
  let digs := (r.reverse.takeWhile isAsciiDigit).reverse
  let pre := r.take (r.length - digs.length)
  if digs.isEmpty || pre.isEmpty || pre.dropLast.contains '\n' then none else some (pre, natOfDigits digs)

def alphanumericOrder (r : Str) : Str × Nat :=
  match alphanumericSplit r with
  | some p => p
  | none =>
    if endsWith ['\n'] r then
      match alphanumericSplit (dropEnd 1 r) with
      | some p => p
      | none => (r, 0)
    else (r, 0)

def Model.canonicalOrder (m : Model) (r : Str) : Bool × Str × Nat :=
  (m.isRoleInverted r, alphanumericOrder r)

end Penman

/-
  Penman.Spec.TextWf — character-level well-formedness of trees, metadata and
  triples: what "assembled from grammar-valid variables, roles, atoms,
  alignments and metadata" means.  All predicates are decidable (Boolean
  functions, or `Prop`s built from them); their relation to the lexical grammar of
  `Spec/LexSpec.lean` (`IsSymbol`, `IsRole`, `IsString`, `IsAlignment`) is proved in
  `Proofs/TextWfLemmas.lean` (`symbolB_iff`, `roleB_iff`, `stringB_iff`, `alignmentB_iff`,
  `alignedB_iff`).
-/
import Penman.Spec.LexSpec
import Penman.Tree
import Penman.Model

namespace Penman.Spec
open Penman

/-- What the format/lex round trip needs of the lexer tables, beyond `CfgWf`:
    * the space (the formatter's separator) and the line feed are blanks;
    * COMMENT is the first alternative in both orders (so a `# ::key value` line is one
      COMMENT token, and no SYMBOL token of a `str` input starts with `#`);
    * the PENMAN order has all seven proper classes, the triple order has
      STRING, LPAREN, RPAREN, SYMBOL;
    * `,` and `^` are name characters (triple conjunctions: `a,` and `^` are SYMBOL tokens). -/
def FmtCfgWf (cfg : LexCfg) : Bool :=
  CfgWf cfg && cfg.blank.contains ' ' && cfg.blank.contains '\n'
  && cfg.penmanOrder.head? == some TokTy.COMMENT && cfg.tripleOrder.head? == some TokTy.COMMENT
  && [TokTy.STRING, .LPAREN, .RPAREN, .SLASH, .ROLE, .SYMBOL, .ALIGNMENT].all (cfg.penmanOrder.contains ·)
  && [TokTy.STRING, .LPAREN, .RPAREN, .SYMBOL].all (cfg.tripleOrder.contains ·)
  && !cfg.symExcl.contains ',' && !cfg.symExcl.contains '^'

/-- no raw line break: `lex(s)` of a `str` first splits `s` at `\n`, `\r\n`, `\r`,
    so a text containing one can never come back as a single token -/
def noBreakB (s : Str) : Bool := !s.contains '\n' && !s.contains '\r'

/-- a SYMBOL text: non-empty, only name characters, not starting with `#` (that would
    lex as a COMMENT), no line break -/
def symbolB (cfg : LexCfg) (s : Str) : Bool :=
  !s.isEmpty && s.all (fun c => !cfg.symExcl.contains c) && s.head? != some '#' && noBreakB s

/-- a ROLE text: `:` and name characters -/
def roleB (cfg : LexCfg) : Str → Bool
  | ':' :: b => b.all (fun c => !cfg.roleExcl.contains c) && noBreakB b
  | _ => false

/-- a STRING literal `"…"` (with `\`-escapes), no raw line break inside -/
def stringB (cfg : LexCfg) (s : Str) : Bool := scanString cfg.strExcl s == some s && noBreakB s

/-- an ALIGNMENT text `~[a-zA-Z]?\.?[0-9]+(,[0-9]+)*` -/
def alignmentB (cfg : LexCfg) (s : Str) : Bool := scanAlignment cfg s == some s && noBreakB s

/-- `s = m ++ a` with `p m` and `a` empty or an ALIGNMENT text -/
def alignedB (cfg : LexCfg) (p : Str → Bool) (s : Str) : Bool :=
  (List.range (s.length + 1)).any fun i =>
    p (s.take i) && ((s.drop i).isEmpty || alignmentB cfg (s.drop i))

/-- a role as the tree stores it: ROLE text, optionally followed by an ALIGNMENT text -/
def roleTextB (cfg : LexCfg) (s : Str) : Bool := alignedB cfg (roleB cfg) s

/-- an atom as the tree stores it: SYMBOL or STRING text, optionally followed by an
    ALIGNMENT text -/
def atomTextB (cfg : LexCfg) (s : Str) : Bool := alignedB cfg (fun m => symbolB cfg m || stringB cfg m) s

/-- an atomic target: missing (`None`), or a well-formed (hence non-empty) atom text.
    Numbers (`int`/`float` targets) are excluded: they are read back as strings. -/
def atomB (cfg : LexCfg) : Atom → Bool
  | .none => true
  | .str s => atomTextB cfg s
  | .num _ => false

mutual
/-- **character-level well-formedness of a tree**:
    * a node without variable is the empty node `()` (no branches);
      (a node whose variable is the empty string is excluded: it is also written `()`);
    * a variable is a SYMBOL text;
    * `/` is allowed only as the role of the first branch, with an atomic target;
    * every other role is a ROLE text optionally followed by an ALIGNMENT text;
    * atomic targets: missing, or SYMBOL / STRING text optionally followed by an ALIGNMENT
      text; no numbers;
    * nested nodes recursively;
    * no text contains a raw `\n` or `\r`. -/
def wfNodeB (cfg : LexCfg) : Node → Bool
  | .mk none bs => (match bs with | .nil => true | _ => false)
  | .mk (some v) bs => symbolB cfg v && wfTopB cfg bs
/-- the branch list of a node: the first branch may be the concept branch -/
def wfTopB (cfg : LexCfg) : Branches → Bool
  | .nil => true
  | .atom r a rest =>
    (if r = ['/'] then atomB cfg a else roleTextB cfg r && atomB cfg a) && wfEdgesB cfg rest
  | .sub r n rest => roleTextB cfg r && wfNodeB cfg n && wfEdgesB cfg rest
def wfEdgesB (cfg : LexCfg) : Branches → Bool
  | .nil => true
  | .atom r a rest => roleTextB cfg r && atomB cfg a && wfEdgesB cfg rest
  | .sub r n rest => roleTextB cfg r && wfNodeB cfg n && wfEdgesB cfg rest
end

def WfTreeText (cfg : LexCfg) (t : Node) : Prop := wfNodeB cfg t = true

instance (cfg : LexCfg) (t : Node) : Decidable (WfTreeText cfg t) := by
  unfold WfTreeText; infer_instance

/-- `'::' in s` -/
def hasColons : Str → Bool
  | ':' :: ':' :: _ => true
  | _ :: cs => hasColons cs
  | [] => false

/-- one metadata item `key ↦ value` that `# ::key value` gives back:
    the key has no space, does not start with `:` and contains no `::`; the value contains no
    `::` and is its own `rstrip()`; neither contains a raw line break.
    (The key may be empty, and may contain other blanks than the space.) -/
def metaItemB (isSpace : Char → Bool) (kv : Str × Str) : Bool :=
  !kv.1.contains ' ' && kv.1.head? != some ':' && !hasColons kv.1 && !hasColons kv.2
  && rstripBy isSpace kv.2 == kv.2 && noBreakB kv.1 && noBreakB kv.2

/-- well-formed metadata: a dictionary (distinct keys) of well-formed items -/
def WfMeta (isSpace : Char → Bool) (md : AList Str Str) : Prop :=
  (md.map (·.1)).Pairwise (· ≠ ·) ∧ md.all (metaItemB isSpace) = true

instance (isSpace : Char → Bool) (md : AList Str Str) : Decidable (WfMeta isSpace md) := by
  unfold WfMeta; infer_instance

/-- a triple that `format_triples` / `_parse_triples` round-trips:
    * the source is a SYMBOL text without `,` (the parser cuts `a,b` at the first comma);
    * the role, after removing leading colons, is a SYMBOL text (so non-empty, and without `(`,
      `:` …, which are not name characters);
    * the target is a SYMBOL text — commas anywhere and a leading `^` are fine: in `r(a, b,c)` the
      tokens are `a,` and `b,c` — or a STRING literal without raw line break.
      `None` is written `None` and read back as the string `None`, the empty string is read back
      as `None`, numbers are read back as strings: all excluded. -/
def wfTripleB (cfg : LexCfg) (t : Triple) : Bool :=
  symbolB cfg t.src && !t.src.contains ','
  && symbolB cfg (lstripChar ':' t.role)
  && (match t.tgt with
      | .str s => symbolB cfg s || stringB cfg s
      | _ => false)

def WfTripleText (cfg : LexCfg) (t : Triple) : Prop := wfTripleB cfg t = true

instance (cfg : LexCfg) (t : Triple) : Decidable (WfTripleText cfg t) := by
  unfold WfTripleText; infer_instance

/-- a string of spaces and line feeds only -/
def GapStr (g : Str) : Prop := ∀ c ∈ g, c = ' ' ∨ c = '\n'

/-- `Woven [t₁, …, tₙ] s` : `s = g₀ t₁ g₁ … tₙ gₙ` where every gap `gᵢ` consists of spaces and
    line feeds only.  Two strings woven from the same list of texts are equal after deleting
    spaces and line feeds that lie outside those texts. -/
inductive Woven : List Str → Str → Prop
  | nil (g : Str) : GapStr g → Woven [] g
  | cons (g t : Str) (ts : List Str) (s : Str) : GapStr g → Woven ts s → Woven (t :: ts) (g ++ (t ++ s))

end Penman.Spec

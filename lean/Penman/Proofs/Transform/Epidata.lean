/-
  Penman.Proofs.Transform.Epidata — dereify ∘ reify on the epigraphical
  markers: every original triple gets its markers back, in the normal form
  `normEpis` (identity on marker lists of the shape `interpret` produces).
-/
import Penman.Proofs.Transform.InverseMain
set_option linter.unusedSimpArgs false
namespace Penman

/-! ### marker normal form -/

theorem filter_replicate_pop (n : Nat) (p : Epi → Bool) :
    (List.replicate n Epi.pop).filter p = if p .pop then List.replicate n .pop else [] := by
  induction n with
  | zero => simp
  | succ n ih =>
    rw [List.replicate_succ, List.filter_cons, ih]
    cases p .pop <;> simp [List.replicate_succ]

theorem normEpis_decoded {l : List Epi} (h : DecodedShape l) : normEpis l = l := by
  obtain ⟨ra, al, pu, n, rfl, hra, hal, hpu⟩ := h
  unfold normEpis
  simp only [List.filter_append, filter_replicate_pop]
  rcases hra with rfl | ⟨p, i, rfl⟩ <;> rcases hal with rfl | ⟨p', i', rfl⟩ <;>
    rcases hpu with rfl | ⟨v, rfl⟩ <;> simp [Epi.mode, Epi.isPush, Epi.isPop]

/-! ### `edgeMarkers` -/

theorem roleEpis_eq (old : List Epi) :
    old.filter (fun e => !e.isPush && !e.isPop && e.mode = 1) = old.filter (fun e => e.mode = 1) := by
  apply List.filter_congr
  intro e _; cases e <;> simp [Epi.isPush, Epi.isPop, Epi.mode]

theorem otherEpis_eq (old : List Epi) :
    old.filter (fun e => !e.isPush && !e.isPop && e.mode ≠ 1) = old.filter (fun e => e.mode = 2) := by
  apply List.filter_congr
  intro e _; cases e <;> simp [Epi.isPush, Epi.isPop, Epi.mode]

def roleToAln : Epi → Epi
  | .roleAln p i => .aln p i
  | e => e

theorem edgeMarkers_fst (old : List Epi) :
    (edgeMarkers old).1 = (old.filter (fun e => e.mode = 1)).map roleToAln := by
  simp only [edgeMarkers, reifiedMarkers, roleEpis_eq]
  have : ∀ (l : List Epi), (∀ e ∈ l, e.mode = 1) →
      l.filterMap (fun | .roleAln p i => some (Epi.aln p i) | _ => none) = l.map roleToAln := by
    intro l hl
    induction l with
    | nil => rfl
    | cons e r ih =>
      have he := hl e (by simp)
      have ih' := ih (fun e he => hl e (by simp [he]))
      cases e with
      | roleAln p i => simp [roleToAln, ih']
      | aln p i => simp [Epi.mode] at he
      | push v => simp [Epi.mode] at he
      | pop => simp [Epi.mode] at he
  apply this
  intro e he
  simpa using (List.mem_filter.mp he).2

theorem edgeMarkers_snd (old : List Epi) :
    (edgeMarkers old).2 = old.filter (fun e => e.mode = 2) ++
      (match (old.filter (·.isPush)).getLast? with | some p => [p] | none => []) ++
      old.filter (·.isPop) := by
  simp only [edgeMarkers, reifiedMarkers, otherEpis_eq]
  rfl

theorem edgeMarkers_snd_noRole (old : List Epi) :
    (edgeMarkers old).2.filter notRoleAln = (edgeMarkers old).2 := by
  rw [List.filter_eq_self]
  intro e he
  rw [edgeMarkers_snd] at he
  simp only [List.mem_append, List.mem_filter] at he
  rcases he with (he | he) | he
  · cases e <;> simp [Epi.mode, notRoleAln] at he ⊢
  · cases hl : (old.filter (·.isPush)).getLast? with
    | none => rw [hl] at he; simp at he
    | some q =>
      rw [hl] at he
      simp only [List.mem_singleton] at he
      subst he
      have := (List.mem_filter.mp (List.mem_of_getLast? hl)).2
      cases e <;> simp [Epi.isPush, notRoleAln] at this ⊢
  · cases e <;> simp [Epi.isPop, notRoleAln] at he ⊢

theorem edgeMarkers_fst_last (old : List Epi) :
    alnBack (((edgeMarkers old).1.filter (fun e => e.mode = 2)).getLast?) =
    (match (old.filter (fun e => e.mode = 1)).getLast? with | some e => [e] | none => []) := by
  rw [edgeMarkers_fst]
  have hall : ((old.filter (fun e => e.mode = 1)).map roleToAln).filter (fun e => e.mode = 2)
      = (old.filter (fun e => e.mode = 1)).map roleToAln := by
    rw [List.filter_eq_self]
    intro e he
    rw [List.mem_map] at he
    obtain ⟨e0, he0, rfl⟩ := he
    have := (List.mem_filter.mp he0).2
    cases e0 <;> simp [Epi.mode, roleToAln] at this ⊢
  rw [hall, List.getLast?_map]
  cases hl : (old.filter (fun e => e.mode = 1)).getLast? with
  | none => rfl
  | some e =>
    have := (List.mem_filter.mp (List.mem_of_getLast? hl)).2
    cases e <;> simp [Epi.mode, roleToAln, alnBack] at this ⊢

/-! ### `getAlignments` -/

theorem get?_filterMap_val {α β γ : Type} [DecidableEq α] (f : β → Option γ) :
    ∀ (d : AList α β), (AList.keys d).Nodup → ∀ k,
    AList.get? (d.filterMap (fun p => (f p.2).map (fun c => (p.1, c)))) k = (AList.get? d k).bind f
  | [], _, k => rfl
  | p :: r, hn, k => by
    simp only [AList.keys, List.map_cons, List.nodup_cons] at hn
    have ih := get?_filterMap_val f r hn.2 k
    rw [List.filterMap_cons, AList.get?_cons]
    by_cases hk : p.1 = k
    · subst hk
      simp only [if_true, Option.bind_some]
      cases hf : f p.2 with
      | none =>
        simp only [Option.map_none]
        rw [ih]
        have : AList.get? r p.1 = none := (AList.get?_eq_none_iff r p.1).mpr hn.1
        rw [this]; rfl
      | some c => simp [AList.get?_cons]
    · simp only [hk, if_false]
      cases hf : f p.2 with
      | none => simpa using ih
      | some c => simp [AList.get?_cons, hk, ih]

theorem filterMap_congr' {α β : Type} {l : List α} {f h : α → Option β} (hfh : ∀ a ∈ l, f a = h a) :
    l.filterMap f = l.filterMap h := by
  induction l with
  | nil => rfl
  | cons a r ih =>
    rw [List.filterMap_cons, List.filterMap_cons, hfh a (by simp),
      ih (fun b hb => hfh b (by simp [hb]))]

theorem getAlignments_get? (g : Graph) (hk : (AList.keys g.epidata).Nodup) (k : Triple) :
    AList.get? (getAlignments g false) k =
      (AList.get? g.epidata k).bind (fun epis => (epis.filter (fun e => e.mode = 2)).getLast?) := by
  rw [← get?_filterMap_val _ g.epidata hk k]
  unfold getAlignments
  congr 1
  apply filterMap_congr'
  intro p _
  obtain ⟨t, epis⟩ := p
  simp only [Bool.false_eq_true, if_false]
  cases (epis.filter (fun e => e.mode = 2)).getLast? <;> rfl

/-! ### the marker loop of `dereify_edges` -/

/-- pointwise effect of the loop of `dereify_edges` on the lookup of key `k` -/
def epAfter (look : Str → Option Agenda) : List Triple → Triple → Option (List Epi) → Option (List Epi)
  | [], _, init => init
  | t :: r, k, init =>
    epAfter look r k (match look t.src with
      | some ag =>
        if t = k then none
        else if t = ag.first ∧ ag.dereified = k then some ag.epidata else init
      | none => init)

theorem get?_derEp (look : Str → Option Agenda) (t k : Triple) (ep : Epidata) :
    AList.get? (derEp look t ep) k = (match look t.src with
      | some ag =>
        if t = k then none
        else if t = ag.first ∧ ag.dereified = k then some ag.epidata else AList.get? ep k
      | none => AList.get? ep k) := by
  unfold derEp
  cases look t.src with
  | none => rfl
  | some ag =>
    simp only [AList.get?_erase]
    by_cases h1 : t = k
    · simp [h1]
    · simp only [h1, if_false]
      by_cases h2 : t = ag.first
      · simp only [h2, if_true, AList.get?_set, true_and]
      · simp [h2]

theorem get?_derFold (look : Str → Option Agenda) (l : List Triple) (k : Triple) (ep : Epidata) :
    AList.get? (l.foldl (fun ep t => derEp look t ep) ep) k = epAfter look l k (AList.get? ep k) := by
  induction l generalizing ep with
  | nil => rfl
  | cons t r ih => rw [List.foldl_cons, ih, get?_derEp]; rfl

theorem epAfter_append (look : Str → Option Agenda) (a b : List Triple) (k : Triple)
    (init : Option (List Epi)) :
    epAfter look (a ++ b) k init = epAfter look b k (epAfter look a k init) := by
  induction a generalizing init with
  | nil => rfl
  | cons t r ih => simp only [List.cons_append, epAfter, ih]

theorem derFold_keys_nodup (look : Str → Option Agenda) (l : List Triple) (ep : Epidata)
    (h : (AList.keys ep).Nodup) : (AList.keys (l.foldl (fun ep t => derEp look t ep) ep)).Nodup := by
  induction l generalizing ep with
  | nil => exact h
  | cons t r ih =>
    rw [List.foldl_cons]
    apply ih
    unfold derEp
    split
    · apply AList.nodup_keys_erase
      split
      · exact AList.nodup_keys_set _ _ _ h
      · exact h
    · exact h

section Epi
variable {m : Model} {g : Graph} {rev : List Ev} {st : RState}

/-- events that do not touch the key `k` -/
theorem epAfter_untouched {look : Str → Option Agenda} {l : List Ev} {k : Triple}
    (hkeep : ∀ t, Ev.keep t ∈ l → look t.src = none)
    (hreif : ∀ t rf v inv, Ev.reif t rf v inv ∈ l →
      v ≠ k.src ∧ ∃ ag, look v = some ag ∧ (ag.dereified = k → ag.first.src ≠ v))
    (init : Option (List Epi)) :
    epAfter look (l.flatMap Ev.out) k init = init := by
  induction l generalizing init with
  | nil => rfl
  | cons e r ih =>
    have ih' := ih (fun t ht => hkeep t (by simp [ht]))
      (fun t rf v inv h' => hreif t rf v inv (by simp [h']))
    rw [List.flatMap_cons, epAfter_append, ih']
    cases e with
    | keep t => simp [Ev.out, epAfter, hkeep t (by simp)]
    | reif t rf v inv =>
      obtain ⟨hv, ag, hag, hne⟩ := hreif t rf v inv (by simp)
      have h1 : firstTriple t rf v inv ≠ k := by intro h; apply hv; rw [← h]; simp
      have h2 : nodeTriple rf v ≠ k := by intro h; apply hv; rw [← h]; simp
      have h3 : lastTriple t rf v inv ≠ k := by intro h; apply hv; rw [← h]; simp
      have hx : ∀ (x : Triple), x.src = v → ¬ (x = ag.first ∧ ag.dereified = k) := by
        rintro x hx ⟨rfl, hd⟩; exact hne hd hx
      have h4 := hx (firstTriple t rf v inv) (by simp)
      have h5 := hx (nodeTriple rf v) (by simp)
      have h6 := hx (lastTriple t rf v inv) (by simp)
      simp only [Ev.out, epAfter, firstTriple_src, nodeTriple_src, lastTriple_src, hag, h1, h2, h3,
        h4, h5, h6, if_false]

/-- the block of a reification event sets the markers of its original triple -/
theorem epAfter_block {look : Str → Option Agenda} {t : Triple} {rf : Reif} {v : Str} {inv : Bool}
    {E : List Epi} (hm : ReifEntryOk m rf) (hv : v ≠ t.src)
    (hag : look v = some ⟨v, firstTriple t rf v inv, t, E⟩) (init : Option (List Epi)) :
    epAfter look (Ev.reif t rf v inv).out t init = some E := by
  have h1 : firstTriple t rf v inv ≠ t := by intro h; apply hv; rw [← h]; simp
  have h2 : nodeTriple rf v ≠ t := by intro h; apply hv; rw [← h]; simp
  have h3 : lastTriple t rf v inv ≠ t := by intro h; apply hv; rw [← h]; simp
  have h4 : nodeTriple rf v ≠ firstTriple t rf v inv := by
    intro h; have := congrArg Triple.role h
    cases inv
    · exact hm.2.2.1 this.symm
    · exact hm.2.2.2.1 this.symm
  have h5 : lastTriple t rf v inv ≠ firstTriple t rf v inv := by
    intro h; have := congrArg Triple.role h
    cases inv
    · exact hm.2.2.2.2.1 this.symm
    · exact hm.2.2.2.2.1 this
  simp [Ev.out, epAfter, hag, h1, h2, h3, h4, h5]

/-- the markers the agenda rebuilds for a reified triple -/
theorem agendaEpis_new (hm : ReifWf m) (hk : EpiKeysNodup g) (hrun : Run m g rev st)
    {post pre : List Ev} {t rf v inv} (hrev : rev = post ++ .reif t rf v inv :: pre)
    (hnot : t ∉ pre.flatMap Ev.reified) :
    agendaEpis (reifyResult g st) (nodeTriple rf v) (lastTriple t rf v inv) =
      normEpis ((AList.get? g.epidata t).getD []) := by
  have he : Ev.reif t rf v inv ∈ rev := by rw [hrev]; simp
  obtain ⟨post', pre', hrev', hpost, hpre⟩ := reif_split hrun he
  have hnv := (new_not_var hrun he).1
  have hok := run_evOk hrun
  have heok := hok _ he
  have hrf := hm.1 rf (evOk_reif heok).2.1
  have ht := heok.1
  have hts : t.src ≠ v := fun h => hnv (h ▸ src_mem_variables ht)
  -- positions agree with the given decomposition
  have hpost0 : ∀ e ∈ post, v ∉ e.newVar := by
    intro e hepost hv
    have hn := (run_newVars hrun).1
    rw [hrev] at hn
    simp only [List.flatMap_append, List.flatMap_cons, Ev.newVar] at hn
    rw [List.nodup_append] at hn
    exact hn.2.2 v (List.mem_flatMap.mpr ⟨e, hepost, hv⟩) v (by simp) rfl
  have hpre0 : ∀ e ∈ pre, t.src ∉ e.newVar := by
    intro e hepre h
    have hn := (run_newVars hrun).2 t.src (by
      rw [hrev]; simp only [List.flatMap_append, List.flatMap_cons, List.mem_append]
      right; right; exact List.mem_flatMap.mpr ⟨e, hepre, h⟩)
    exact hn.1 (src_mem_variables ht)
  have hsrc : ∀ e ∈ post, e.orig.src ≠ v := by
    intro e hepost h
    have : e.orig ∈ g.triples := by
      have := hok e (by rw [hrev]; simp [hepost])
      cases e with
      | keep t => exact this.1
      | reif t rf v inv => exact this.1
    exact hnv (h ▸ src_mem_variables this)
  have hnl : nodeTriple rf v ≠ lastTriple t rf v inv := by
    intro h; have := congrArg Triple.role h
    cases inv
    · exact hrf.2.2.2.1 this.symm
    · exact hrf.2.2.1 this.symm
  have hold : (expEp g pre t).getD [] = (AList.get? g.epidata t).getD [] := by
    rw [expEp_old hpre0, if_neg hnot]
  have hlast : AList.get? (reifyResult g st).epidata (lastTriple t rf v inv) =
      some (edgeMarkers ((AList.get? g.epidata t).getD [])).2 := by
    rw [reifyResult_get? hk hrun, hrev, expEp_last hpost0 hsrc hts, hold]
  have hnode : AList.get? (reifyResult g st).epidata (nodeTriple rf v) =
      some (edgeMarkers ((AList.get? g.epidata t).getD [])).1 := by
    rw [reifyResult_get? hk hrun, hrev, expEp_node hpost0 hsrc hts hnl, hold]
  have hk1 : (AList.keys (reifyResult g st).epidata).Nodup := by
    rw [reifyResult_epidata hk hrun]; exact run_keys_nodup hrun hk
  unfold agendaEpis
  rw [getAlignments_get? _ hk1, hnode, hlast]
  simp only [Option.bind_some, Option.getD_some, edgeMarkers_snd_noRole]
  rw [edgeMarkers_fst_last, edgeMarkers_snd]
  unfold normEpis
  simp only [List.append_assoc]
  rfl

/-- **Inverse, marker level.** After reify → dereify every non-reifiable
    triple has its marker entry unchanged and every reified triple has its
    marker list back in normal form. -/
theorem reify_dereify_epidata (hm : ReifWf m) (hg : RolesColon g) (hk : EpiKeysNodup g)
    (hp : PushVars g) (hf : FreshSafe g) (hi : HasInst g) (hrun : Run m g rev st)
    (ho : rev.reverse.map Ev.orig = g.triples) (hnc : dereifyAgenda m g = .ok [])
    (hu : ∀ t ∈ g.triples, m.isReifiable t.role = true → Unambiguous m t.role)
    (hnd : (g.triples.filter (fun t => m.isReifiable t.role)).Nodup)
    {g2 : Graph} (h2 : dereifyEdges m (reifyResult g st) = .ok g2) :
    ∀ k ∈ g.triples, AList.get? g2.epidata k =
      if m.isReifiable k.role then some (normEpis ((AList.get? g.epidata k).getD []))
      else AList.get? g.epidata k := by
  intro k hkg
  have hk1 : (AList.keys (reifyResult g st).epidata).Nodup := by
    rw [reifyResult_epidata hk hrun]; exact run_keys_nodup hrun hk
  have hksrc : k.src ∈ g.variables := src_mem_variables hkg
  have hknew : ∀ e ∈ rev, k.src ∉ e.newVar := old_var_not_new hrun hksrc
  rw [(dereifyEdges_ok h2).2.2.2, AList.ofList_of_nodup _ (derFold_keys_nodup _ _ _ hk1),
    get?_derFold, reifyResult_triples hm hg hrun]
  -- generic facts about the lookup of events
  have hkeep : ∀ t, Ev.keep t ∈ rev → collapseOf m (reifyResult g st) t.src = none := by
    intro t ht
    exact collapseOf_old_none hm hg hk hf hrun ho hnc
      (old_var_not_new hrun (src_mem_variables (run_evOk hrun (.keep t) ht).1))
  have hreif : ∀ t rf v inv, Ev.reif t rf v inv ∈ rev → t ≠ k →
      v ≠ k.src ∧ ∃ ag, collapseOf m (reifyResult g st) v = some ag ∧
        (ag.dereified = k → ag.first.src ≠ v) := by
    intro t rf v inv he hne
    refine ⟨fun h => hknew _ he (by simp [Ev.newVar, h]), _,
      collapse_new hm hg hk hp hf hi hrun ho hu he, fun h => absurd h hne⟩
  by_cases hre : m.isReifiable k.role = true
  · rw [if_pos hre]
    -- the event of `k`
    have : k ∈ rev.reverse.map Ev.orig := by rw [ho]; exact hkg
    rw [List.mem_map] at this
    obtain ⟨e, he, heo⟩ := this
    cases e with
    | keep t =>
      simp only [Ev.orig] at heo; subst heo
      have := (run_evOk hrun (.keep t) (by simpa using he)).2
      rw [hre] at this; simp at this
    | reif t rf v inv =>
      simp only [Ev.orig] at heo; subst heo
      have he' : Ev.reif t rf v inv ∈ rev := by simpa using he
      obtain ⟨post, pre, hrev⟩ := List.append_of_mem he'
      -- uniqueness of `t` among the reifiable triples
      have hsplit : g.triples = pre.reverse.map Ev.orig ++ t :: post.reverse.map Ev.orig := by
        rw [← ho, hrev]; simp [Ev.orig]
      rw [hsplit, List.filter_append, List.filter_cons, if_pos (by simpa using hre),
        List.nodup_append] at hnd
      have hpre_ne : ∀ t' rf' v' inv', Ev.reif t' rf' v' inv' ∈ pre → t' ≠ t := by
        intro t' rf' v' inv' h' heq
        subst heq
        apply hnd.2.2 t' _ t' (by simp) rfl
        rw [List.mem_filter]
        exact ⟨List.mem_map.mpr ⟨_, by simpa using h', rfl⟩, by simpa using hre⟩
      have hpost_ne : ∀ t' rf' v' inv', Ev.reif t' rf' v' inv' ∈ post → t' ≠ t := by
        intro t' rf' v' inv' h' heq
        subst heq
        have := (List.nodup_cons.mp hnd.2.1).1
        apply this
        rw [List.mem_filter]
        exact ⟨List.mem_map.mpr ⟨_, by simpa using h', rfl⟩, by simpa using hre⟩
      have hnot : t ∉ pre.flatMap Ev.reified := by
        intro hmem
        rw [List.mem_flatMap] at hmem
        obtain ⟨e', he'', hte⟩ := hmem
        cases e' with
        | keep _ => simp [Ev.reified] at hte
        | reif t' rf' v' inv' =>
          simp only [Ev.reified, List.mem_singleton] at hte
          exact hpre_ne t' rf' v' inv' he'' hte.symm
      have hvt : v ≠ t.src := fun h => hknew _ he' (by simp [Ev.newVar, h])
      rw [hrev]
      simp only [List.reverse_append, List.reverse_cons, List.append_assoc, List.singleton_append,
        List.flatMap_append, List.flatMap_cons, epAfter_append]
      rw [epAfter_block (hm.1 rf (evOk_reif (run_evOk hrun _ he')).2.1) hvt
        (collapse_new hm hg hk hp hf hi hrun ho hu he')]
      rw [epAfter_untouched]
      · rw [agendaEpis_new hm hk hrun hrev hnot]
      · intro t' ht'
        exact hkeep t' (by rw [hrev]; simp at ht' ⊢; left; exact ht')
      · intro t' rf' v' inv' h'
        have hmem : Ev.reif t' rf' v' inv' ∈ post := by simpa using h'
        exact hreif t' rf' v' inv' (by rw [hrev]; simp [hmem]) (hpost_ne _ _ _ _ hmem)
  · rw [if_neg hre]
    rw [epAfter_untouched]
    · rw [reifyResult_get? hk hrun, expEp_old hknew, if_neg]
      intro hmem
      rw [List.mem_flatMap] at hmem
      obtain ⟨e', he'', hte⟩ := hmem
      cases e' with
      | keep _ => simp [Ev.reified] at hte
      | reif t' rf' v' inv' =>
        simp only [Ev.reified, List.mem_singleton] at hte
        subst hte
        exact hre (evOk_reif (run_evOk hrun _ he'')).2.2.2
    · intro t' ht'
      exact hkeep t' (by simpa using ht')
    · intro t' rf' v' inv' h'
      have hmem : Ev.reif t' rf' v' inv' ∈ rev := by simpa using h'
      refine hreif t' rf' v' inv' hmem ?_
      rintro rfl
      exact hre (evOk_reif (run_evOk hrun _ hmem)).2.2.2

end Epi

end Penman

#!/bin/sh
# run every seeded change against the real ./check of its property, on a scratch worktree of
# /repo (PENMAN_REPO), never on /repo itself; one line per seed
W=${1:-/tmp/seedrun}
cd /verif
for d in seeded/*/; do
  NAME=$(basename $d)
  P=$(python3 -c "import json;print(json.load(open('$d/meta.json'))['property'])")
  git -C $W checkout -q -- .
  git -C $W apply /verif/$d/patch.diff || { echo "$NAME: patch does not apply"; continue; }
  OUT=$(PENMAN_REPO=$W ./check $P 2>&1 | grep -v conda | tail -2 | tr '\n' ' ' | cut -c1-260)
  git -C $W checkout -q -- .
  echo "$NAME [$P]: $OUT"
done
PENMAN_REPO=/repo /venv/bin/python tools/gen_tables.py >/dev/null

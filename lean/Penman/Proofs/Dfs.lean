/-
  Penman.Proofs.Dfs — the worklist `dfsLoop` terminates within its fuel and
  computes the weakly-connected component of the top (`Reach`).
-/
import Penman.Spec.Reach
namespace Penman

/-! ### `dedup` -/

theorem mem_dedup {α : Type} [DecidableEq α] (l : List α) (x : α) : x ∈ dedup l ↔ x ∈ l := by
  induction l with
  | nil => simp [dedup]
  | cons a l ih =>
    simp only [dedup, List.mem_cons, List.mem_filter, ih]
    by_cases h : x = a <;> simp [h]

theorem length_dedup_le {α : Type} [DecidableEq α] (l : List α) : (dedup l).length ≤ l.length := by
  induction l with
  | nil => simp [dedup]
  | cons a l ih =>
    simp only [dedup, List.length_cons]
    have := List.length_filter_le (fun x => decide (x ≠ a)) (dedup l)
    omega

theorem mem_srcs (g : Graph) (v : Str) : v ∈ g.srcs ↔ g.IsSrc v := by
  simp only [Graph.srcs, mem_dedup, List.mem_map, Graph.IsSrc]

theorem length_srcs_le (g : Graph) : g.srcs.length ≤ g.triples.length := by
  have := length_dedup_le (g.triples.map (·.src))
  simpa [Graph.srcs] using this

/-! ### neighbours -/

theorem mem_neighbours (g : Graph) (srcs : List Str) (v w : Str) :
    w ∈ neighbours g srcs v ↔
      ∃ t ∈ g.triples, t.role ≠ CONCEPT_ROLE ∧ w ∈ srcs ∧
        ((t.src = v ∧ t.tgt = .str w) ∨ (t.src = w ∧ t.tgt = .str v)) := by
  simp only [neighbours, List.mem_filterMap]
  constructor
  · rintro ⟨t, ht, h⟩
    refine ⟨t, ht, ?_⟩
    split at h
    · simp at h
    · rename_i hr
      split at h
      · rename_i s hs
        split at h
        · rename_i h1
          simp only [Option.some.injEq] at h
          subst h
          exact ⟨hr, h1.2, Or.inl ⟨h1.1, hs⟩⟩
        · split at h
          · rename_i h2
            simp only [Option.some.injEq] at h
            subst h
            refine ⟨hr, h2.2, Or.inr ?_⟩
            constructor
            · rfl
            · rw [hs, h2.1]
          · simp at h
      · simp at h
  · rintro ⟨t, ht, hr, hw, h⟩
    refine ⟨t, ht, ?_⟩
    rw [if_neg hr]
    rcases h with ⟨h1, h2⟩ | ⟨h1, h2⟩
    · simp only [h2]
      rw [if_pos ⟨h1, hw⟩]
    · simp only [h2]
      by_cases hc : t.src = v ∧ v ∈ srcs
      · rw [if_pos hc, ← h1, hc.1]
      · rw [if_neg hc]
        simp [h1, hw]

theorem length_neighbours_le (g : Graph) (srcs : List Str) (v : Str) :
    (neighbours g srcs v).length ≤ g.triples.length := by
  simp only [neighbours]
  exact List.length_filterMap_le _ _

/-- for a source `v`, the neighbours computed w.r.t. `g.srcs` are exactly the `Adj`-neighbours -/
theorem mem_neighbours_srcs (g : Graph) (v w : Str) (hv : g.IsSrc v) :
    w ∈ neighbours g g.srcs v ↔ g.Adj v w := by
  rw [mem_neighbours]
  simp only [mem_srcs, Graph.Adj]
  constructor
  · rintro ⟨t, ht, hr, hw, h⟩
    exact ⟨hv, hw, t, ht, hr, h⟩
  · rintro ⟨_, hw, t, ht, hr, h⟩
    exact ⟨t, ht, hr, hw, h⟩

/-! ### the worklist -/

/-- the termination measure: pending agenda entries plus `n` per unvisited source -/
def dfsMeasure (n : Nat) (srcs agenda visited : List Str) : Nat :=
  agenda.length + n * (srcs.filter (· ∉ visited)).length

theorem length_filter_mono {α : Type} (p q : α → Bool) (l : List α) (h : ∀ x, p x = true → q x = true) :
    (l.filter p).length ≤ (l.filter q).length := by
  induction l with
  | nil => simp
  | cons a l ih =>
    simp only [List.filter_cons]
    by_cases hp : p a = true
    · rw [if_pos hp, if_pos (h a hp)]
      simp only [List.length_cons]
      omega
    · rw [if_neg hp]
      by_cases hq : q a = true
      · rw [if_pos hq]
        simp only [List.length_cons]
        omega
      · rw [if_neg hq]
        exact ih

theorem filter_notMem_cons_lt (srcs visited : List Str) (cur : Str)
    (hc : cur ∈ srcs) (hv : cur ∉ visited) :
    (srcs.filter (fun x => decide (x ∉ cur :: visited))).length <
      (srcs.filter (fun x => decide (x ∉ visited))).length := by
  induction srcs with
  | nil => cases hc
  | cons a l ih =>
    by_cases ha : a = cur
    · subst ha
      have hle : (l.filter (fun x => decide (x ∉ a :: visited))).length ≤
          (l.filter (fun x => decide (x ∉ visited))).length := by
        apply length_filter_mono
        intro x
        simp only [List.mem_cons, not_or, decide_eq_true_eq]
        exact fun h => h.2
      rw [List.filter_cons_of_neg (by simp), List.filter_cons_of_pos (by simpa using hv)]
      simp only [List.length_cons]
      omega
    · have hc' : cur ∈ l := by
        rcases List.mem_cons.1 hc with h | h
        · exact absurd h.symm ha
        · exact h
      have := ih hc'
      by_cases hav : a ∈ visited
      · rw [List.filter_cons_of_neg (by simp [hav]), List.filter_cons_of_neg (by simp [hav])]
        exact this
      · rw [List.filter_cons_of_pos (by simp [hav, ha]), List.filter_cons_of_pos (by simpa using hav)]
        simp only [List.length_cons]
        omega

variable (g : Graph) (srcs : List Str)

/-- one unfolding step, visited head -/
theorem dfsLoop_visited (f : Nat) (cur : Str) (agenda visited : List Str) (h : cur ∈ visited) :
    dfsLoop g srcs (f+1) (cur :: agenda) visited = dfsLoop g srcs f agenda visited := by
  simp [dfsLoop, h]

theorem dfsLoop_fresh (f : Nat) (cur : Str) (agenda visited : List Str) (h : cur ∉ visited) :
    dfsLoop g srcs (f+1) (cur :: agenda) visited =
      dfsLoop g srcs f ((neighbours g srcs cur).filter (· ∉ cur :: visited) ++ agenda) (cur :: visited) := by
  simp [dfsLoop, h]

/-- measure decreases on a fresh step -/
theorem dfsMeasure_fresh (cur : Str) (agenda visited : List Str)
    (hc : cur ∈ srcs) (hv : cur ∉ visited) :
    dfsMeasure g.triples.length srcs
        ((neighbours g srcs cur).filter (· ∉ cur :: visited) ++ agenda) (cur :: visited)
      < dfsMeasure g.triples.length srcs (cur :: agenda) visited := by
  simp only [dfsMeasure, List.length_append, List.length_cons]
  have h1 := filter_notMem_cons_lt srcs visited cur hc hv
  have h2 : ((neighbours g srcs cur).filter (· ∉ cur :: visited)).length ≤ g.triples.length :=
    Nat.le_trans (List.length_filter_le _ _) (length_neighbours_le g srcs cur)
  generalize (srcs.filter (· ∉ cur :: visited)).length = a at *
  generalize (srcs.filter (· ∉ visited)).length = b at *
  generalize ((neighbours g srcs cur).filter (· ∉ cur :: visited)).length = k at *
  generalize g.triples.length = n at *
  have : n * (a + 1) ≤ n * b := Nat.mul_le_mul_left n h1
  rw [Nat.mul_add, Nat.mul_one] at this
  omega

theorem neighbours_subset (v w : Str) (h : w ∈ neighbours g srcs v) : w ∈ srcs := by
  rw [mem_neighbours] at h
  obtain ⟨_, _, _, hw, _⟩ := h
  exact hw

/-- **fuel independence**: beyond the measure, the result does not depend on the fuel -/
theorem dfsLoop_fuel (f₁ f₂ : Nat) (agenda visited : List Str)
    (hA : ∀ a ∈ agenda, a ∈ srcs)
    (h₁ : dfsMeasure g.triples.length srcs agenda visited ≤ f₁)
    (h₂ : dfsMeasure g.triples.length srcs agenda visited ≤ f₂) :
    dfsLoop g srcs f₁ agenda visited = dfsLoop g srcs f₂ agenda visited := by
  induction f₁ generalizing f₂ agenda visited with
  | zero =>
    have hz : agenda = [] := by
      cases agenda with
      | nil => rfl
      | cons a l => simp [dfsMeasure] at h₁
    subst hz
    cases f₂ <;> simp [dfsLoop]
  | succ f₁ ih =>
    cases agenda with
    | nil => cases f₂ <;> simp [dfsLoop]
    | cons cur agenda =>
      cases f₂ with
      | zero => simp [dfsMeasure] at h₂
      | succ f₂ =>
        by_cases hv : cur ∈ visited
        · rw [dfsLoop_visited g srcs _ _ _ _ hv, dfsLoop_visited g srcs _ _ _ _ hv]
          apply ih
          · exact fun a ha => hA a (List.mem_cons_of_mem _ ha)
          · simp only [dfsMeasure, List.length_cons] at h₁ ⊢; omega
          · simp only [dfsMeasure, List.length_cons] at h₂ ⊢; omega
        · rw [dfsLoop_fresh g srcs _ _ _ _ hv, dfsLoop_fresh g srcs _ _ _ _ hv]
          have hm := dfsMeasure_fresh g srcs cur agenda visited (hA cur (List.mem_cons_self ..)) hv
          apply ih
          · intro a ha
            rcases List.mem_append.1 ha with h | h
            · exact neighbours_subset g srcs cur a (List.mem_filter.1 h).1
            · exact hA a (List.mem_cons_of_mem _ h)
          · omega
          · omega

/-- soundness: any property closed under `neighbours` that holds of the
    agenda and the visited set holds of the result (no fuel condition) -/
theorem dfsLoop_sound (P : Str → Prop)
    (hP : ∀ v w, P v → w ∈ neighbours g srcs v → P w)
    (f : Nat) (agenda visited : List Str)
    (hA : ∀ a ∈ agenda, P a) (hV : ∀ a ∈ visited, P a) :
    ∀ a ∈ dfsLoop g srcs f agenda visited, P a := by
  induction f generalizing agenda visited with
  | zero => simpa [dfsLoop] using hV
  | succ f ih =>
    cases agenda with
    | nil => simpa [dfsLoop] using hV
    | cons cur agenda =>
      by_cases hv : cur ∈ visited
      · rw [dfsLoop_visited g srcs _ _ _ _ hv]
        exact ih _ _ (fun a ha => hA a (List.mem_cons_of_mem _ ha)) hV
      · rw [dfsLoop_fresh g srcs _ _ _ _ hv]
        have hc : P cur := hA cur (List.mem_cons_self ..)
        apply ih
        · intro a ha
          rcases List.mem_append.1 ha with h | h
          · exact hP cur a hc (List.mem_filter.1 h).1
          · exact hA a (List.mem_cons_of_mem _ h)
        · intro a ha
          rcases List.mem_cons.1 ha with h | h
          · exact h ▸ hc
          · exact hV a h

/-- completeness: with enough fuel the result contains agenda and visited
    and is closed under `neighbours` -/
theorem dfsLoop_complete (f : Nat) (agenda visited : List Str)
    (hA : ∀ a ∈ agenda, a ∈ srcs)
    (hf : dfsMeasure g.triples.length srcs agenda visited ≤ f)
    (hI : ∀ v ∈ visited, ∀ w ∈ neighbours g srcs v, w ∈ visited ∨ w ∈ agenda) :
    (∀ a ∈ visited, a ∈ dfsLoop g srcs f agenda visited) ∧
    (∀ a ∈ agenda, a ∈ dfsLoop g srcs f agenda visited) ∧
    (∀ v ∈ dfsLoop g srcs f agenda visited, ∀ w ∈ neighbours g srcs v,
        w ∈ dfsLoop g srcs f agenda visited) := by
  induction f generalizing agenda visited with
  | zero =>
    have hz : agenda = [] := by
      cases agenda with
      | nil => rfl
      | cons a l => simp [dfsMeasure] at hf
    subst hz
    have e : dfsLoop g srcs 0 [] visited = visited := rfl
    rw [e]
    refine ⟨fun a h => h, fun a h => (nomatch h), ?_⟩
    intro v hv w hw
    rcases hI v hv w hw with h | h
    · exact h
    · cases h
  | succ f ih =>
    cases agenda with
    | nil =>
      have e : dfsLoop g srcs (f+1) [] visited = visited := rfl
      rw [e]
      refine ⟨fun a h => h, fun a h => (nomatch h), ?_⟩
      intro v hv w hw
      rcases hI v hv w hw with h | h
      · exact h
      · cases h
    | cons cur agenda =>
      by_cases hv : cur ∈ visited
      · rw [dfsLoop_visited g srcs _ _ _ _ hv]
        have := ih agenda visited (fun a ha => hA a (List.mem_cons_of_mem _ ha))
          (by simp only [dfsMeasure, List.length_cons] at hf ⊢; omega)
          (by
            intro v hv' w hw
            rcases hI v hv' w hw with h | h
            · exact Or.inl h
            · rcases List.mem_cons.1 h with h | h
              · exact Or.inl (h ▸ hv)
              · exact Or.inr h)
        obtain ⟨h1, h2, h3⟩ := this
        refine ⟨h1, ?_, h3⟩
        intro a ha
        rcases List.mem_cons.1 ha with h | h
        · exact h ▸ h1 cur hv
        · exact h2 a h
      · rw [dfsLoop_fresh g srcs _ _ _ _ hv]
        have hm := dfsMeasure_fresh g srcs cur agenda visited (hA cur (List.mem_cons_self ..)) hv
        have := ih ((neighbours g srcs cur).filter (· ∉ cur :: visited) ++ agenda) (cur :: visited)
          (by
            intro a ha
            rcases List.mem_append.1 ha with h | h
            · exact neighbours_subset g srcs cur a (List.mem_filter.1 h).1
            · exact hA a (List.mem_cons_of_mem _ h))
          (by omega)
          (by
            intro v hv' w hw
            by_cases hwv : w ∈ cur :: visited
            · exact Or.inl hwv
            · right
              rcases List.mem_cons.1 hv' with h | h
              · subst h
                exact List.mem_append_left _ (List.mem_filter.2 ⟨hw, by simpa using hwv⟩)
              · rcases hI v h w hw with h' | h'
                · exact absurd (List.mem_cons_of_mem _ h') hwv
                · rcases List.mem_cons.1 h' with h'' | h''
                  · exact absurd (h'' ▸ List.mem_cons_self ..) hwv
                  · exact List.mem_append_right _ h'')
        obtain ⟨h1, h2, h3⟩ := this
        refine ⟨fun a ha => h1 a (List.mem_cons_of_mem _ ha), ?_, h3⟩
        intro a ha
        rcases List.mem_cons.1 ha with h | h
        · exact h ▸ h1 cur (List.mem_cons_self ..)
        · exact h2 a (List.mem_append_right _ h)

/-! ### `reachable` -/

/-- the fuel `n*n+n+2` of `reachable` is beyond the measure of the initial state -/
theorem reachable_fuel_ok (g : Graph) (top : Str) :
    dfsMeasure g.triples.length g.srcs [top] [] ≤
      g.triples.length * g.triples.length + g.triples.length + 2 := by
  simp only [dfsMeasure, List.length_cons, List.length_nil]
  have h1 : (g.srcs.filter (· ∉ ([] : List Str))).length ≤ g.triples.length :=
    Nat.le_trans (List.length_filter_le _ _) (length_srcs_le g)
  have := Nat.mul_le_mul_left g.triples.length h1
  omega

theorem reachable_eq (g : Graph) (top : Str) :
    reachable g top = dfsLoop g g.srcs
      (g.triples.length * g.triples.length + g.triples.length + 2) [top] [] := rfl

/-- `reachable` does not depend on the fuel: any fuel beyond the measure
    `1 + n·|srcs|` (in particular the model's `n*n+n+2`) gives the same set -/
theorem reachable_fuel_indep (g : Graph) (top : Str) (htop : g.IsSrc top) (f : Nat)
    (hf : 1 + g.triples.length * g.srcs.length ≤ f) :
    dfsLoop g g.srcs f [top] [] = reachable g top := by
  rw [reachable_eq]
  apply dfsLoop_fuel
  · intro a ha
    simp only [List.mem_singleton] at ha
    exact ha ▸ (mem_srcs g top).2 htop
  · simp only [dfsMeasure, List.length_cons, List.length_nil]
    have : (g.srcs.filter (· ∉ ([] : List Str))).length ≤ g.srcs.length := List.length_filter_le _ _
    have := Nat.mul_le_mul_left g.triples.length this
    omega
  · exact reachable_fuel_ok g top

/-- **`_dfs` computes weak connectivity** -/
theorem dfs_reach (g : Graph) (top v : Str) (htop : g.IsSrc top) :
    v ∈ reachable g top ↔ Reach g top v := by
  have hsrc : top ∈ g.srcs := (mem_srcs g top).2 htop
  constructor
  · intro h
    rw [reachable_eq] at h
    refine dfsLoop_sound g g.srcs (fun a => Reach g top a ∧ g.IsSrc a) ?_ _ [top] [] ?_ ?_ v h |>.1
    · rintro a w ⟨ha, hs⟩ hw
      have hadj := (mem_neighbours_srcs g a w hs).1 hw
      exact ⟨Reach.step ha hadj, hadj.2.1⟩
    · intro a ha
      simp only [List.mem_singleton] at ha
      subst ha
      exact ⟨Reach.refl, htop⟩
    · intro a ha; cases ha
  · intro h
    have hc := dfsLoop_complete g g.srcs
      (g.triples.length * g.triples.length + g.triples.length + 2) [top] []
      (by intro a ha; simp only [List.mem_singleton] at ha; exact ha ▸ hsrc)
      (reachable_fuel_ok g top)
      (by intro v hv; cases hv)
    rw [← reachable_eq] at hc
    obtain ⟨_, h2, h3⟩ := hc
    induction h with
    | refl => exact h2 top (List.mem_singleton.2 rfl)
    | step hr hadj ih =>
      exact h3 _ ih _ ((mem_neighbours_srcs g _ _ hadj.1).2 hadj)

/-- everything `_dfs` visits is a source -/
theorem reachable_subset_srcs (g : Graph) (top v : Str) (htop : g.IsSrc top)
    (h : v ∈ reachable g top) : g.IsSrc v := by
  rw [reachable_eq] at h
  refine dfsLoop_sound g g.srcs (fun a => g.IsSrc a) ?_ _ [top] [] ?_ ?_ v h
  · intro a w _ hw
    exact (mem_srcs g w).1 (neighbours_subset g g.srcs a w hw)
  · intro a ha
    simp only [List.mem_singleton] at ha
    exact ha ▸ htop
  · intro a ha; cases ha

end Penman

/-
  Penman.Proofs.EncodeDecodeA — format ∘ lex ∘ parse for trees that carry NUMBERS.
  `format` writes a numeric atom by its text, the parser reads the text back as a string, so
  the text of a tree `n` parses to `writtenForm n`.  (The texts of `n` and `writtenForm n`
  may differ in whitespace when `compact` is set and a number is spelled like a variable — the
  formatter's "is the target a variable" test sees a number in one and a string in the other —
  so this is proved on the token level, by the induction of `FL.node_lex`, not by rewriting.)
-/
import Penman.Props.C01
import Penman.Spec.EncodeText

set_option linter.unusedSimpArgs false
namespace Penman.C03Text
open Penman Penman.Spec Penman.Lex Penman.FL

variable {cfg : LexCfg}

/-! ### the written form -/

theorem atomText_written (a : Atom) : atomText (writtenAtom a) = atomText a := by cases a <;> rfl

theorem writtenAtom_idem (a : Atom) : writtenAtom (writtenAtom a) = writtenAtom a := by cases a <;> rfl

theorem writtenAtom_eq_none {a : Atom} (h : writtenAtom a = .none) : a = .none := by
  cases a <;> simp [writtenAtom] at h ⊢

theorem writtenAtom_eq_str {a : Atom} {s : Str} (h : writtenAtom a = .str s) : a = .str s ∨ a = .num s := by
  cases a <;> simp [writtenAtom] at h ⊢ <;> exact h

theorem writtenBs_eq_nil {bs : Branches} (h : writtenBs bs = .nil) : bs = .nil := by
  cases bs <;> simp [writtenBs] at h ⊢

theorem writtenBs_eq_atom {bs : Branches} {r : Str} {a : Atom} {B : Branches} (h : writtenBs bs = .atom r a B) :
    ∃ a0 bs', bs = .atom r a0 bs' ∧ writtenAtom a0 = a ∧ writtenBs bs' = B := by
  cases bs with
  | nil => simp [writtenBs] at h
  | atom r' a' rest =>
    simp only [writtenBs, Branches.atom.injEq] at h
    obtain ⟨rfl, h2, h3⟩ := h
    exact ⟨a', rest, rfl, h2, h3⟩
  | sub r' n' rest => simp [writtenBs] at h

theorem writtenBs_eq_sub {bs : Branches} {r : Str} {k : Node} {B : Branches} (h : writtenBs bs = .sub r k B) :
    ∃ n bs', bs = .sub r n bs' ∧ writtenForm n = k ∧ writtenBs bs' = B := by
  cases bs with
  | nil => simp [writtenBs] at h
  | atom r' a' rest => simp [writtenBs] at h
  | sub r' n' rest =>
    simp only [writtenBs, Branches.sub.injEq] at h
    obtain ⟨rfl, h2, h3⟩ := h
    exact ⟨n', rest, rfl, h2, h3⟩

theorem writtenForm_eq_mk {n : Node} {v : Option Str} {B : Branches} (h : writtenForm n = .mk v B) :
    ∃ bs, n = .mk v bs ∧ writtenBs bs = B := by
  cases n with
  | mk v' bs =>
    simp only [writtenForm, Node.mk.injEq] at h
    obtain ⟨rfl, h2⟩ := h
    exact ⟨bs, rfl, h2⟩

theorem writtenForm_var (n : Node) : (writtenForm n).var = n.var := by
  cases n; simp [writtenForm, Node.var]

mutual
theorem writtenForm_nodes_fst : (n : Node) → (writtenForm n).nodes.map (·.1) = n.nodes.map (·.1)
  | .mk v bs => by
    cases v with
    | none => simp [writtenForm, Node.nodes, writtenBs_nodes_fst bs]
    | some x => simp [writtenForm, Node.nodes, writtenBs_nodes_fst bs]
theorem writtenBs_nodes_fst : (bs : Branches) → (writtenBs bs).nodes.map (·.1) = bs.nodes.map (·.1)
  | .nil => rfl
  | .atom r a rest => by simp [writtenBs, Branches.nodes, writtenBs_nodes_fst rest]
  | .sub r n rest => by
    simp [writtenBs, Branches.nodes, writtenBs_nodes_fst rest, writtenForm_nodes_fst n]
end

theorem writtenForm_vars (n : Node) : (writtenForm n).vars = n.vars := writtenForm_nodes_fst n

/-! ### format ∘ lex with numbers: the induction of `FL.node_lex`, the tree being any `n` whose
    written form is the abstract tree of the concrete syntax tree -/

mutual
theorem node_lex_num (hw : FmtCfgWfP cfg) : (k : CNode) → k.wf = true → (∀ t ∈ k.toks, TokGood cfg t) →
    ∀ (n : Node), writtenForm n = k.tree → ∀ (indent : Indent) (vars : List Str) (column : Int) (rest : Str),
      lexP cfg (formatNode indent vars n column ++ rest) = k.toks.map core ++ lexP cfg rest
  | .empty lp rp, hwf, hg, n, hn, indent, vars, column, rest => by
    simp only [CNode.tree] at hn
    obtain ⟨bs, rfl, -⟩ := writtenForm_eq_mk hn
    simp only [CNode.wf, Bool.and_eq_true, decide_eq_true_eq] at hwf
    simp only [CNode.toks, List.mem_cons, List.not_mem_nil, or_false, forall_eq_or_imp, forall_eq] at hg
    simp only [formatNode_none, CNode.toks, List.map_cons, List.map_nil, List.cons_append,
      List.nil_append, lang_lparen hwf.1 hg.1, lang_rparen hwf.2 hg.2]
    rw [lexP_lparen hw, lexP_rparen hw]
  | .mk lp var sl es rp, hwf, hg, n, hn, indent, vars, column, rest => by
    simp only [CNode.tree] at hn
    obtain ⟨bs, rfl, hbs⟩ := writtenForm_eq_mk hn
    simp only [CNode.wf, Bool.and_eq_true, decide_eq_true_eq] at hwf
    obtain ⟨⟨⟨⟨hlp, hv⟩, hsl⟩, hes⟩, hrp⟩ := hwf
    have glp : TokGood cfg lp := hg lp (by simp [CNode.toks])
    have gvar : TokGood cfg var := hg var (by simp [CNode.toks])
    have grp : TokGood cfg rp := hg rp (by simp [CNode.toks])
    have ges : ∀ t ∈ es.toks, TokGood cfg t := fun t ht => hg t (by simp [CNode.toks, ht])
    have gsl : ∀ t ∈ slashToks sl, TokGood cfg t := fun t ht => hg t (by simp [CNode.toks, ht])
    obtain ⟨hvl, hvnb, hvh⟩ := gvar
    rw [hv] at hvl
    have hvne : var.text ≠ [] := hvl.1
    have hvar : ∀ tail, SepHead tail →
        lexP cfg (var.text ++ tail) = (.SYMBOL, var.text) :: lexP cfg tail := fun tail ht =>
      lexP_symbol hw hvl hvnb (hvh hv) (fun c hc => (sepHead_ends hw (ht c hc)).1)
    have cvar : core var = (.SYMBOL, var.text) := by simp [core, hv]
    simp only [CNode.toks, List.map_cons, List.map_append, List.map_nil, lang_lparen hlp glp,
      lang_rparen hrp grp, cvar]
    match sl, hsl, gsl, hbs with
    | none, _, _, hbs =>
      simp only [] at hbs
      have ihE := edges_lex_num hw es hes ges bs hbs indent vars
      simp only [slashToks, List.map_nil, List.nil_append]
      by_cases hnil : es = .nil
      · subst hnil
        have : bs = .nil := writtenBs_eq_nil (by simpa [CEdges.tree] using hbs)
        subst this
        simp only [formatNode_nil indent vars _ column hvne, CEdges.toks, List.map_nil,
          List.nil_append, List.cons_append, List.append_assoc, List.singleton_append]
        rw [lexP_lparen hw, hvar _ (sepHead_cons _ (.inr (.inr rfl))), lexP_rparen hw]
      · have hbne : bs ≠ .nil := by
          intro h; subst h
          simp only [writtenBs] at hbs
          exact cedges_tree_ne_nil es hnil hbs.symm
        obtain ⟨col, j, hj, he⟩ := formatNode_some indent vars var.text bs column hvne hbne
        rw [he]
        simp only [List.cons_append, List.append_assoc, List.singleton_append, List.nil_append]
        rw [lexP_lparen hw, hvar _ (sepHead_cons _ (.inl rfl)), lexP_space hw, ihE col j rest hj,
          lexP_rparen hw]
    | some (s, none), hsl, gsl, hbs =>
      simp only [] at hbs
      obtain ⟨a0, bs', rfl, ha0, hbs'⟩ := writtenBs_eq_atom hbs
      have ha0 := writtenAtom_eq_none ha0
      subst ha0
      have ihE := edges_lex_num hw es hes ges bs' hbs' indent vars
      simp only [slashWf, decide_eq_true_eq] at hsl
      have gs : TokGood cfg s := gsl s (by simp [slashToks])
      simp only [slashToks, List.map_cons, List.map_nil, lang_slash hsl gs]
      obtain ⟨col, j, hj, he⟩ := formatNode_some indent vars var.text (.atom ['/'] .none bs') column hvne
        (by simp)
      rw [he]
      simp only [List.cons_append, List.append_assoc, List.singleton_append, List.nil_append]
      rw [lexP_lparen hw, hvar _ (sepHead_cons _ (.inl rfl)), lexP_space hw]
      have hj' : Joined Sep (['/'] :: (formatEdges indent vars bs' col).map (·.2)) j := by
        simpa [formatEdges, ensureColonRole, Atom.isMissing] using hj
      rw [joined_cons_lex hw hj' (cx := [(.SLASH, ['/'])]) (fun tail _ => by
          simpa using lexP_slash hw tail) (fun s' hs' => ihE col s' rest hs'), lexP_rparen hw]
      simp
    | some (s, some c), hsl, gsl, hbs =>
      simp only [] at hbs
      obtain ⟨a0, bs', rfl, ha0, hbs'⟩ := writtenBs_eq_atom hbs
      have ihE := edges_lex_num hw es hes ges bs' hbs' indent vars
      simp only [slashWf, Bool.and_eq_true, decide_eq_true_eq] at hsl
      obtain ⟨⟨hs, hc⟩, hca⟩ := hsl
      have gs : TokGood cfg s := gsl s (by simp [slashToks])
      have gc : ∀ t ∈ c.toks, TokGood cfg t := fun t ht => gsl t (by simp [slashToks, ht])
      have hcne : c.text ≠ [] := ttText_ne_nil c (gc _ (by rw [ttToks_eq c]; simp)) (.inl hc)
      have hcne' : c.text.isEmpty = false := by cases h : c.text <;> simp_all
      simp only [slashToks, List.map_cons, List.map_nil, lang_slash hs gs]
      obtain ⟨col, j, hj, he⟩ := formatNode_some indent vars var.text (.atom ['/'] a0 bs')
        column hvne (by simp)
      rw [he]
      simp only [List.cons_append, List.append_assoc, List.singleton_append, List.nil_append]
      rw [lexP_lparen hw, hvar _ (sepHead_cons _ (.inl rfl)), lexP_space hw]
      have hj' : Joined Sep (('/' :: ' ' :: c.text) :: (formatEdges indent vars bs' col).map (·.2)) j := by
        rcases writtenAtom_eq_str ha0 with rfl | rfl <;>
          simpa [formatEdges, ensureColonRole, Atom.isMissing, hcne', atomText] using hj
      rw [joined_cons_lex hw hj' (cx := (.SLASH, ['/']) :: c.toks.map core) (fun tail ht => by
          simp only [List.cons_append]
          rw [lexP_slash hw, lexP_space hw, atom_lex hw c hc hca gc tail ht])
          (fun s' hs' => ihE col s' rest hs'), lexP_rparen hw]
      simp
theorem edges_lex_num (hw : FmtCfgWfP cfg) : (es : CEdges) → es.wf = true → (∀ t ∈ es.toks, TokGood cfg t) →
    ∀ (bs : Branches), writtenBs bs = es.tree →
    ∀ (indent : Indent) (vars : List Str) (column : Int) (j rest : Str),
      Joined Sep ((formatEdges indent vars bs column).map (·.2)) j →
      lexP cfg (j ++ ')' :: rest) = es.toks.map core ++ lexP cfg (')' :: rest)
  | .nil, _, _, bs, hbs, indent, vars, column, j, rest, hj => by
    have : bs = .nil := writtenBs_eq_nil (by simpa [CEdges.tree] using hbs)
    subst this
    simp only [formatEdges, List.map_nil] at hj
    cases hj
    simp [CEdges.toks]
  | .atom r none es, hwf, hg, bs, hbs, indent, vars, column, j, rest, hj => by
    simp only [CEdges.tree] at hbs
    obtain ⟨a0, bs', rfl, ha0, hbs'⟩ := writtenBs_eq_atom hbs
    have ha0 := writtenAtom_eq_none ha0
    subst ha0
    simp only [CEdges.wf, Bool.and_eq_true, decide_eq_true_eq] at hwf
    obtain ⟨⟨hr, hra⟩, hes⟩ := hwf
    have gr : ∀ t ∈ r.toks, TokGood cfg t := fun t ht => hg t (by simp [CEdges.toks, ht])
    have ges : ∀ t ∈ es.toks, TokGood cfg t := fun t ht => hg t (by simp [CEdges.toks, ht])
    have hcol := role_text_colon r hr (gr _ (by rw [ttToks_eq r]; simp))
    have hj' : Joined Sep (r.text :: (formatEdges indent vars bs' column).map (·.2)) j := by
      simpa [formatEdges, hcol, Atom.isMissing] using hj
    rw [joined_cons_lex hw hj' (fun tail ht => role_lex hw r hr hra gr tail ht)
      (fun s' hs' => edges_lex_num hw es hes ges bs' hbs' indent vars column s' rest hs')]
    simp [CEdges.toks]
  | .atom r (some a) es, hwf, hg, bs, hbs, indent, vars, column, j, rest, hj => by
    simp only [CEdges.tree] at hbs
    obtain ⟨a0, bs', rfl, ha0, hbs'⟩ := writtenBs_eq_atom hbs
    simp only [CEdges.wf, Bool.and_eq_true, decide_eq_true_eq] at hwf
    obtain ⟨⟨⟨⟨hr, hra⟩, ha⟩, haa⟩, hes⟩ := hwf
    have gr : ∀ t ∈ r.toks, TokGood cfg t := fun t ht => hg t (by simp [CEdges.toks, ht])
    have ga : ∀ t ∈ a.toks, TokGood cfg t := fun t ht => hg t (by simp [CEdges.toks, ht])
    have ges : ∀ t ∈ es.toks, TokGood cfg t := fun t ht => hg t (by simp [CEdges.toks, ht])
    have hcol := role_text_colon r hr (gr _ (by rw [ttToks_eq r]; simp))
    have hane : a.text ≠ [] := ttText_ne_nil a (ga _ (by rw [ttToks_eq a]; simp)) (.inl ha)
    have hane' : a.text.isEmpty = false := by cases h : a.text <;> simp_all
    have hj' : Joined Sep ((r.text ++ ' ' :: a.text) :: (formatEdges indent vars bs' column).map (·.2)) j := by
      rcases writtenAtom_eq_str ha0 with rfl | rfl <;>
        simpa [formatEdges, hcol, Atom.isMissing, hane', atomText] using hj
    rw [joined_cons_lex hw hj' (cx := r.toks.map core ++ a.toks.map core) (fun tail ht => by
        simp only [List.append_assoc, List.cons_append]
        rw [role_lex hw r hr hra gr _ (sepHead_cons _ (.inl rfl)), lexP_space hw,
          atom_lex hw a ha haa ga tail ht])
      (fun s' hs' => edges_lex_num hw es hes ges bs' hbs' indent vars column s' rest hs')]
    simp [CEdges.toks]
  | .sub r k es, hwf, hg, bs, hbs, indent, vars, column, j, rest, hj => by
    simp only [CEdges.tree] at hbs
    obtain ⟨n, bs', rfl, hn, hbs'⟩ := writtenBs_eq_sub hbs
    simp only [CEdges.wf, Bool.and_eq_true, decide_eq_true_eq] at hwf
    obtain ⟨⟨⟨hr, hra⟩, hk⟩, hes⟩ := hwf
    have gr : ∀ t ∈ r.toks, TokGood cfg t := fun t ht => hg t (by simp [CEdges.toks, ht])
    have gn : ∀ t ∈ k.toks, TokGood cfg t := fun t ht => hg t (by simp [CEdges.toks, ht])
    have ges : ∀ t ∈ es.toks, TokGood cfg t := fun t ht => hg t (by simp [CEdges.toks, ht])
    have hcol := role_text_colon r hr (gr _ (by rw [ttToks_eq r]; simp))
    simp only [formatEdges, hcol, List.map_cons] at hj
    rw [joined_cons_lex hw hj (cx := r.toks.map core ++ k.toks.map core) (fun tail _ => by
        simp only [List.append_assoc, List.cons_append, List.nil_append]
        rw [role_lex hw r hr hra gr _ (sepHead_cons _ (.inl rfl)), lexP_space hw,
          node_lex_num hw k hk gn n hn])
      (fun s' hs' => edges_lex_num hw es hes ges bs' hbs' indent vars column s' rest hs')]
    simp [CEdges.toks]
end

/-- the (type, text) sequence of `lex(format(tree))` for a tree with numbers -/
theorem format_lexC_num (hw : FmtCfgWfP cfg) (k : CNode) (hk : CNode.Good cfg k) (n : Node)
    (hn : writtenForm n = k.tree) (md : AList Str Str)
    (hmd : ∀ kv ∈ md, NoBreak kv.1 ∧ NoBreak kv.2) (i : Indent) (c : Bool) :
    lexP cfg (format ⟨n, md⟩ i c) =
      (formatMeta md).map (fun l => (TokTy.COMMENT, l)) ++ k.toks.map core := by
  obtain ⟨tl, ho⟩ := hw.penman_head
  simp only [format]
  rw [lexP, lexC_lines ho _ _ (formatMeta_lines md hmd)]
  have := node_lex_num hw k hk.1 hk.2 n hn i (if c = true then n.vars else []) 0 []
  simp only [List.append_nil] at this
  rw [show lexC cfg cfg.penmanOrder = lexP cfg from rfl, this]
  have : lexP cfg [] = [] := rfl
  rw [this, List.append_nil]

/-- **parse ∘ format with numbers**: the text of a tree whose written form is grammar-valid
    parses, under every formatting option, to its written form with the same metadata -/
theorem parse_format_num (hw : FmtCfgWf cfg = true) (isSpace : Char → Bool) (n : Node)
    (md : AList Str Str) (ht : WfTreeText cfg (writtenForm n)) (hmd : WfMeta isSpace md)
    (i : Indent) (c : Bool) :
    C01.parse cfg isSpace (format ⟨n, md⟩ i c) = .ok ⟨writtenForm n, md⟩ := by
  have hwp := FmtCfgWf.toP hw
  obtain ⟨k, hk, hkt⟩ := wfNode_cst hwp.base (writtenForm n) ht
  have h := format_lexC_num hwp k hk n hkt.symm md (C01.wfMeta_noBreak hmd) i c
  simp only [lexP, lexC, List.map_eq_append_iff] at h
  obtain ⟨cs, ts, e, h1, h2⟩ := h
  have hcs : ∀ x ∈ cs, x.ty = .COMMENT := by
    intro x hx
    have := congrArg (List.map Prod.fst) h1
    simp only [List.map_map] at this
    have h3 : ∀ y ∈ cs.map (Prod.fst ∘ core), y = TokTy.COMMENT := by
      rw [this]; intro y hy; simp at hy; exact hy.2.symm
    exact h3 _ (List.mem_map.2 ⟨x, hx, rfl⟩)
  have htx : cs.map (·.text) = formatMeta md := by
    have := congrArg (List.map Prod.snd) h1
    simpa [List.map_map, Function.comp_def, core] using this
  have htt : TreeToks (writtenForm n) ts := hkt ▸ treeToks_of_core hk.1 h2
  have hp := C07.parseToks_treeToks isSpace cs (writtenForm n) ts [] hcs htt
  rw [List.append_nil] at hp
  rw [C01.parse, e, hp]
  have hmd' := (C01.wfMeta_iff isSpace md).1 hmd
  rw [C07.metadata_fmtLines isSpace md cs htx hmd'.1 (fun kv hkv => by
    obtain ⟨a, b, c', d, e', -, -⟩ := hmd'.2 kv hkv
    rw [hasColons_eq] at c' d
    exact ⟨(entry_ok_iff kv.1 kv.2).2 ⟨a, b, c', d⟩, e'⟩)]

end Penman.C03Text

import Penman.Proofs.FramingInline
import Penman.Generated
/-!
# C09 — the same text means the same graphs in every container and stream framing

Model functions: `splitLines`, `lexLine`, `lexLinesFrom`, `lexLines`, `lexStr`, `scanComment`,
`lexAux`, `firstMatch` (Penman/Lexer.lean, tables `Generated.lexCfg`), `fileLines`
(Penman/Main.lean), `parseTree`, `parseComments`, `commentMeta`, `iterparseLoop`,
`iterparseToks`, `eofPos` (Penman/Parse.lean).  Helper lemmas: Penman/Proofs/Framing*.lean.

Specification vocabulary (all decidable, defined in the Proofs files):
* `NoBreak s` / `NoLF s` : no LF and no CR / no LF in `s`.
* `splitLinesT s` : `splitLines` that also returns the terminator removed after each piece
  (`[]` after the last); `TermsOk` : every pair but the last carries `"\n"`, `"\r\n"` or `"\r"`
  (`IsTerm`), the last `[]`; `MunchOk` : no lone-CR terminator directly before an LF;
  `countBreaks s` : number of terminators, CRLF counted once; `keepends s` : the lines of `s`
  with the terminators they have in `s` (`str.splitlines(keepends=True)` restricted to the
  three terminators).
* `SepChar cfg c` : in the tables `cfg` the character `c` is skipped between tokens, ends ROLE
  and SYMBOL runs, cannot occur in an ALIGNMENT and has no lexical role of its own;
  `LexWf cfg := SepChar cfg '\n' ∧ SepChar cfg '\r'`  (`lexWf_generated`, by `decide`).
* `tailTok rs t` : `t` with `rs` appended to its text if `t` is a COMMENT; `tailLast rs` : the
  same applied to the last token of a list only.
* `ParenStop cfg` : `)` ends ROLE, SYMBOL and ALIGNMENT matches, `"` cannot start a SYMBOL and
  is not skipped; `OrderOk order` : the alternation starts COMMENT, STRING and contains
  UNEXPECTED (`parenStop_generated`, `orderOk_generated`); `ClosedLine cfg order l` : `l` ends in
  `)`, has no LF and no COMMENT / UNEXPECTED token; `ClosedLast cfg order x` : the last line of
  the text `x` is closed and `x` does not end in CR.
* `MetaStable text` : after the last `::` of the comment `text` there is a space (or there is
  no `::`); `CommentsStable toks` : every COMMENT token of `toks` is `MetaStable`.

Clause of the property text                              ↦ theorem(s)
-------------------------------------------------------------------------------------------
"in string … input … only LF, CRLF and CR end a line"    ↦ `split_spec` (no piece contains LF/CR;
                                                            pieces ++ removed terminators = text;
                                                            terminators are LF/CRLF/CR; #pieces =
                                                            #terminators + 1; VT, FF, NEL, LS, FS …
                                                            never split), `split_exact` (the
                                                            decomposition is the only one),
                                                            `split_lf_only`, `split_single_iff`
"… and file input alike"                                 ↦ `file_lines_spec` (`fileLines` = the same
                                                            pieces, LF appended, empty last piece
                                                            dropped), `framing_tokens`
a terminating LF changes no token, text, offset          ↦ `trailing_newline_irrelevant`
a terminating CRLF / CR: only a final COMMENT grows       ↦ `trailing_crlf`, `trailing_cr`
… and its metadata is unchanged                          ↦ `trailing_cr_meta`; hypothesis needed:
                                                            `crlf_key_only_counterexample` (F: real
                                                            penman behaves the same)
"decodes to the same sequence of graphs whether one      ↦ `framing_tokens` (identical token lists,
 string, a list of lines with or without terminators,      line numbers included), `framing_indep`
 or read from a file"                                       (same trees, same error), for CRLF/CR
                                                            terminators `framing_indep_keepends`
                                                            (same trees, error iff error) and
                                                            `framing_keepends_lf`
"every metadata comment stays attached to the graph      ↦ `parse_frame`, `iterparse_concat`
 that follows it"; "returns equal graphs in order"
"with blank-line separation, with none [one newline],    ↦ `dumps_loads_framing` (texts joined by
 and when written to a file [final newline]"               k+1 newlines, optional final newline);
                                                            blanks or nothing on the same line:
                                                            `dumps_loads_inline`; token level:
                                                            `iterparse_concat`,
                                                            `blank_line_no_tokens`,
                                                            `positions_irrelevant`
recorded behaviour O8                                    ↦ `trailing_comment_error` + example

Findings.
* F (counterexample, `crlf_key_only_counterexample`): when the lines are handed over *with*
  CRLF (or CR) terminators, `.` in `\#.*$` matches the CR, the COMMENT token ends in CR, and a
  comment whose last key has no value — `# ::snt\r\n` — yields the metadata key `"snt\r"`
  instead of `"snt"` (a value would be `rstrip`ped; a key is not).  Same text as one string or
  read from a file gives `"snt"`.  Real penman (`iterparse(['# ::id 1 ::snt\r\n','(a / b)'])`)
  shows the same difference.  Hence `framing_indep_keepends` needs `CommentsStable`.
* With CRLF-terminated lines a decode error "end of input" after a trailing comment is reported
  one column further right (the swallowed CR); therefore `framing_indep_keepends` states
  "error iff error", not equality of the error value.
* `parse_frame` holds for *every* continuation `rest`, not only those starting with COMMENT or
  LPAREN: a successful `_parse` never looks past its closing parenthesis.
* Separators on the same line (blanks, or nothing) between two serialised graphs need the
  first text to end in a closed line (`ClosedLast`): `dumps_loads_inline`.
-/
namespace Penman.C09
open Penman Penman.Framing

/- decidable equality of trees, for the `decide` examples only -/
deriving instance DecidableEq for Node, Branches
deriving instance DecidableEq for Tree
deriving instance DecidableEq for Except

/-! ## hypothesis on the tables -/

theorem lexWf_generated : LexWf Generated.lexCfg := by decide

/-- a Unicode `isspace` for the examples -/
def pySpace (c : Char) : Bool := c ∈ Generated.spaceChars

abbrev gcfg : LexCfg := Generated.lexCfg
abbrev gorder : List TokTy := Generated.lexCfg.penmanOrder

/-- the running example and its containers -/
def sample : Str := "# ::snt a b\n(a / b)\r\n(c / d)".toList

/-! ## `splitLines` -/

/-- `splitLines` splits at LF, CRLF, CR and nowhere else. -/
theorem split_spec (s : Str) :
    (∀ l ∈ splitLines s, NoBreak l) ∧
    (splitLinesT s).map Prod.fst = splitLines s ∧
    ((splitLinesT s).map fun p => p.1 ++ p.2).flatten = s ∧
    TermsOk (splitLinesT s) ∧ MunchOk (splitLinesT s) ∧
    (splitLines s).length = countBreaks s + 1 ∧
    ((splitLinesT s).filter fun p => !p.2.isEmpty).length = countBreaks s ∧
    (NoBreak s → splitLines s = [s]) :=
  ⟨splitLines_noBreak s, splitLinesT_fst s, splitLinesT_join s, splitLinesT_terms s,
   splitLinesT_munch s, splitLines_length s, splitLinesT_count s, splitLines_noBreak_eq s⟩

example : splitLinesT "a\r\n\rb\n\nc\r".toList =
    [("a".toList, "\r\n".toList), ([], "\r".toList), ("b".toList, "\n".toList),
     ([], "\n".toList), ("c".toList, "\r".toList), ([], [])] ∧
    countBreaks "a\r\n\rb\n\nc\r".toList = 5 := by decide +kernel

/-- VT, FF, NEL (U+0085), LS (U+2028), PS (U+2029), FS, GS, RS never split -/
example : NoBreak "a\x0bb\x0cc\u0085d e f\x1cg\x1dh\x1ei".toList ∧
    splitLines "a\x0bb\x0cc\u0085d e f\x1cg\x1dh\x1ei".toList =
      ["a\x0bb\x0cc\u0085d e f\x1cg\x1dh\x1ei".toList] := by decide +kernel

example : splitLines sample = ["# ::snt a b".toList, "(a / b)".toList, "(c / d)".toList] := by
  decide +kernel

/-- the decomposition computed by `splitLines` is the only one into break-free pieces and
    LF / CRLF / CR terminators (longest terminator first) -/
theorem split_exact (ps : List (Str × Str)) (s : Str) (h1 : ∀ p ∈ ps, NoBreak p.1)
    (h2 : TermsOk ps) (h3 : MunchOk ps) (h4 : (ps.map fun p => p.1 ++ p.2).flatten = s) :
    splitLinesT s = ps ∧ splitLines s = ps.map Prod.fst := by
  have := splitLinesT_unique ps s h1 h2 h3 h4
  exact ⟨this, by rw [← splitLinesT_fst, this]⟩

example : (∀ p ∈ [("x".toList, "\r".toList), ("y".toList, [])], NoBreak p.1) ∧
    TermsOk [("x".toList, "\r".toList), ("y".toList, [])] ∧
    MunchOk [("x".toList, "\r".toList), ("y".toList, [])] := by decide +kernel

/-- a single piece iff the text has no LF and no CR -/
theorem split_single_iff (s : Str) : splitLines s = [s] ↔ NoBreak s := splitLines_singleton_iff s

/-- LF-only text: `splitLines` is `str.split('\n')`, joining with LF restores the text, and
    the number of pieces is the number of LF characters plus one -/
theorem split_lf_only (s : Str) (h : '\r' ∉ s) :
    splitLines s = splitChar '\n' s ∧ joinStr ['\n'] (splitLines s) = s ∧
    (splitLines s).length = s.count '\n' + 1 :=
  ⟨splitLines_lfOnly s h, splitLines_join_lf s h, by
    rw [splitLines_length, countBreaks_lfOnly s h]⟩

example : '\r' ∉ "(a / b)\n\n(c / d)\n".toList := by decide +kernel

/-- `fileLines` (an open text file iterated by lines, universal newlines): the same pieces,
    each followed by LF, except that the last piece has no LF and is dropped when empty -/
theorem file_lines_spec (s : Str) : ∃ init last, splitLines s = init ++ [last] ∧
    fileLines s = init.map (· ++ ['\n']) ++ (if last.isEmpty then [] else [last]) := by
  obtain ⟨init, last, h⟩ := splitLines_concat s
  exact ⟨init, last, h, fileLines_eq s init last h⟩

example : fileLines sample = ["# ::snt a b\n".toList, "(a / b)\n".toList, "(c / d)".toList] ∧
    fileLines "(a / b)\r\n".toList = ["(a / b)\n".toList] := by decide +kernel

/-! ## one line and its terminator -/

/-- A terminating LF is irrelevant: tokens, texts and offsets are identical.
    (A COMMENT stops before the LF: `scanComment_tail`; a STRING cannot be closed by it:
    `scanString_append`; ROLE, SYMBOL, ALIGNMENT … stop at it: `scanTy_append`; the LF itself
    yields no token: `lexAux_seps`.) -/
theorem trailing_newline_irrelevant (cfg : LexCfg) (h : SepChar cfg '\n') (order : List TokTy)
    (n : Nat) (l : Str) (hl : NoLF l) :
    lexLine cfg order n (l ++ ['\n']) = lexLine cfg order n l :=
  lexLine_lf cfg order n l hl h

/-- instance at the generated tables -/
theorem trailing_newline_irrelevant_generated (order : List TokTy) (n : Nat) (l : Str)
    (hl : NoLF l) :
    lexLine Generated.lexCfg order n (l ++ ['\n']) = lexLine Generated.lexCfg order n l :=
  trailing_newline_irrelevant _ lexWf_generated.1 order n l hl

example : NoLF "(a :r \"x\\\"y\" # ::k v".toList ∧
    (lexLine gcfg gorder 1 "(a :r \"x\\\"y\" # ::k v".toList).length = 5 ∧
    lexLine gcfg gorder 1 "\"ab\n".toList = lexLine gcfg gorder 1 "\"ab".toList := by
  decide +kernel

/-- A terminating CRLF: all tokens are the same, except that a COMMENT at the end of the line
    (the only place where one can be) has the CR appended to its text. -/
theorem trailing_crlf (cfg : LexCfg) (h : LexWf cfg) (order : List TokTy) (n : Nat) (l : Str)
    (hl : NoLF l) :
    lexLine cfg order n (l ++ ['\r', '\n']) = tailLast ['\r'] (lexLine cfg order n l) ∧
    (∀ t ∈ (lexLine cfg order n l).dropLast, t.ty ≠ .COMMENT) := by
  refine ⟨?_, lexLine_comment_last cfg order n l hl⟩
  rw [lexLine_crlf cfg order n l hl h.1 h.2]
  exact map_tailTok_eq_tailLast _ _ (lexLine_comment_last cfg order n l hl)

/-- the same for a lone CR terminator -/
theorem trailing_cr (cfg : LexCfg) (h : LexWf cfg) (order : List TokTy) (n : Nat) (l : Str)
    (hl : NoLF l) :
    lexLine cfg order n (l ++ ['\r']) = tailLast ['\r'] (lexLine cfg order n l) := by
  rw [lexLine_cr cfg order n l hl h.2]
  exact map_tailTok_eq_tailLast _ _ (lexLine_comment_last cfg order n l hl)

example : lexLine gcfg gorder 1 "(a) # c\r\n".toList =
      tailLast ['\r'] (lexLine gcfg gorder 1 "(a) # c".toList) ∧
    (lexLine gcfg gorder 1 "(a) # c\r\n".toList).getLast? =
      some ⟨.COMMENT, "# c\r".toList, 1, 4⟩ := by decide +kernel

/-- The CR swallowed by a COMMENT does not change the metadata, provided the comment's last
    key is followed by a space (`MetaStable`): the CR then ends a value and is `rstrip`ped. -/
theorem trailing_cr_meta (isSpace : Char → Bool) (hsp : isSpace '\r' = true) (text : Str)
    (md : AList Str Str) (h : MetaStable text) :
    commentMeta isSpace ((text ++ ['\r']).length + 1) (text ++ ['\r']) md =
      commentMeta isSpace (text.length + 1) text md :=
  commentMeta_tail isSpace text ['\r'] md
    (by intro c hc; simp at hc; subst hc; exact ⟨hsp, by decide⟩) h

example : MetaStable "# ::id 1 ::snt a b".toList ∧ pySpace '\r' = true ∧
    commentMeta pySpace 100 "# ::id 1 ::snt a b\r".toList [] =
      [("snt".toList, "a b".toList), ("id".toList, "1".toList)] := by decide +kernel

/-- F — the hypothesis `MetaStable` is needed: a key without value keeps the CR. -/
theorem crlf_key_only_counterexample :
    ¬ MetaStable "# ::id 1 ::snt".toList ∧
    (iterparseToks pySpace (lexStr gcfg gorder "# ::id 1 ::snt\r\n(a / b)".toList)).1.map
        (·.metadata) = [[("snt".toList, []), ("id".toList, "1".toList)]] ∧
    (iterparseToks pySpace
        (lexLines gcfg gorder ["# ::id 1 ::snt\r\n".toList, "(a / b)".toList])).1.map
        (·.metadata) = [[("snt\r".toList, []), ("id".toList, "1".toList)]] := by
  decide +kernel

/-! ## the token stream of a text in its containers -/

/-- One string, the list of its lines, the lines each followed by LF, and the lines of the
    text read as a file give the same token list: types, texts, line numbers, offsets. -/
theorem framing_tokens (cfg : LexCfg) (h : SepChar cfg '\n') (order : List TokTy) (s : Str) :
    lexStr cfg order s = lexLines cfg order (splitLines s) ∧
    lexLines cfg order ((splitLines s).map (· ++ ['\n'])) = lexStr cfg order s ∧
    lexLines cfg order (fileLines s) = lexStr cfg order s :=
  ⟨rfl, lexLines_map_lf cfg order h s, lexLines_fileLines cfg order h s⟩

/-- lines followed by CRLF: the same tokens, COMMENT texts end in CR -/
theorem framing_tokens_crlf (cfg : LexCfg) (h : LexWf cfg) (order : List TokTy) (s : Str) :
    lexLines cfg order ((splitLines s).map (· ++ ['\r', '\n'])) =
      (lexStr cfg order s).map (tailTok ['\r']) :=
  lexLines_map_crlf cfg order h.1 h.2 s

/-- The same trees (metadata included) and the same error, if any, for: the string, the list
    of lines, the lines with LF terminators, the text read from a file. -/
theorem framing_indep (cfg : LexCfg) (h : SepChar cfg '\n') (order : List TokTy)
    (isSpace : Char → Bool) (s : Str) :
    iterparseToks isSpace (lexLines cfg order (splitLines s)) =
      iterparseToks isSpace (lexStr cfg order s) ∧
    iterparseToks isSpace (lexLines cfg order ((splitLines s).map (· ++ ['\n']))) =
      iterparseToks isSpace (lexStr cfg order s) ∧
    iterparseToks isSpace (lexLines cfg order (fileLines s)) =
      iterparseToks isSpace (lexStr cfg order s) := by
  obtain ⟨_, h2, h3⟩ := framing_tokens cfg h order s
  exact ⟨rfl, by rw [h2], by rw [h3]⟩

/-- instance at the generated tables -/
theorem framing_indep_generated (isSpace : Char → Bool) (s : Str) :
    iterparseToks isSpace (lexLines gcfg gorder ((splitLines s).map (· ++ ['\n']))) =
      iterparseToks isSpace (lexStr gcfg gorder s) ∧
    iterparseToks isSpace (lexLines gcfg gorder (fileLines s)) =
      iterparseToks isSpace (lexStr gcfg gorder s) :=
  ⟨(framing_indep gcfg lexWf_generated.1 gorder isSpace s).2.1,
   (framing_indep gcfg lexWf_generated.1 gorder isSpace s).2.2⟩

/- FALSE AS STATED (not "UNPROVED"): the unconditional statement
     `(iterparseToks isSpace (lexLines cfg order (keepends s))).1 =
        (iterparseToks isSpace (lexStr cfg order s)).1`
   fails for `s = "# ::id 1 ::snt\r\n(a / b)"` — see `crlf_key_only_counterexample`.  The theorem
   below carries the explicit decidable hypothesis `CommentsStable`. -/

/-- The lines handed over with the terminators they have in the text (LF, CRLF, CR, none on
    the last): the same trees, metadata included, and an error iff an error — provided every
    metadata comment is `MetaStable` (see `crlf_key_only_counterexample`). -/
theorem framing_indep_keepends (cfg : LexCfg) (h : LexWf cfg) (order : List TokTy)
    (isSpace : Char → Bool) (hsp : isSpace '\r' = true) (s : Str)
    (hst : CommentsStable (lexStr cfg order s)) :
    (iterparseToks isSpace (lexLines cfg order (keepends s))).1 =
      (iterparseToks isSpace (lexStr cfg order s)).1 ∧
    (iterparseToks isSpace (lexLines cfg order (keepends s))).2.isSome =
      (iterparseToks isSpace (lexStr cfg order s)).2.isSome := by
  have := iterparseToks_sim isSpace _ _ (lsim_lexLines_keepends isSpace cfg order h hsp s hst)
  exact ⟨this.1.symm, this.2.symm⟩

/-- the same for lines that all end in CRLF -/
theorem framing_indep_crlf (cfg : LexCfg) (h : LexWf cfg) (order : List TokTy)
    (isSpace : Char → Bool) (hsp : isSpace '\r' = true) (s : Str)
    (hst : CommentsStable (lexStr cfg order s)) :
    (iterparseToks isSpace (lexLines cfg order ((splitLines s).map (· ++ ['\r', '\n'])))).1 =
      (iterparseToks isSpace (lexStr cfg order s)).1 ∧
    (iterparseToks isSpace (lexLines cfg order ((splitLines s).map (· ++ ['\r', '\n'])))).2.isSome =
      (iterparseToks isSpace (lexStr cfg order s)).2.isSome := by
  rw [framing_tokens_crlf cfg h order s]
  have := iterparseToks_sim isSpace _ _ (lsim_map_tailTok isSpace ['\r']
    (by intro c hc; simp at hc; subst hc; exact ⟨hsp, by decide⟩) (lexStr cfg order s) hst)
  exact ⟨this.1.symm, this.2.symm⟩

/-- without CR in the text the lines with their terminators give identical tokens -/
theorem framing_keepends_lf (cfg : LexCfg) (h : SepChar cfg '\n') (order : List TokTy) (s : Str)
    (hs : '\r' ∉ s) : lexLines cfg order (keepends s) = lexStr cfg order s :=
  lexLines_keepends_lfOnly cfg order h s hs

/-- the running example: hypotheses hold, the text has two graphs, and all containers agree -/
example : CommentsStable (lexStr gcfg gorder sample) ∧ pySpace '\r' = true ∧
    keepends sample = ["# ::snt a b\n".toList, "(a / b)\r\n".toList, "(c / d)".toList] ∧
    (iterparseToks pySpace (lexStr gcfg gorder sample)).1.map (·.metadata) =
      [[("snt".toList, "a b".toList)], []] ∧
    (iterparseToks pySpace (lexStr gcfg gorder sample)).2 = none ∧
    iterparseToks pySpace (lexLines gcfg gorder (keepends sample)) =
      iterparseToks pySpace (lexStr gcfg gorder sample) ∧
    iterparseToks pySpace (lexLines gcfg gorder (fileLines sample)) =
      iterparseToks pySpace (lexStr gcfg gorder sample) ∧
    iterparseToks pySpace (lexLines gcfg gorder ((splitLines sample).map (· ++ ['\r', '\n']))) =
      iterparseToks pySpace (lexStr gcfg gorder sample) := by decide +kernel

/-! ## several graphs in one stream -/

/-- The frame property: if a token list parses completely as `T`, then followed by any `rest`
    (and under any error context) it parses as `T` and leaves exactly `rest`. -/
theorem parse_frame (isSpace : Char → Bool) (c : PCtx) (ts : List Tok) (T : Tree)
    (h : parseTree c isSpace ts = .ok (T, [])) (c' : PCtx) (rest : List Tok) :
    parseTree c' isSpace (ts ++ rest) = .ok (T, rest) :=
  parseTree_frame h c' rest

/-- If each `tsₖ` parses completely as `Tₖ`, `iterparse` on the concatenation yields exactly
    `[T₁, …, Tₙ]`, in order, without error: every block of metadata comments stays attached to
    the graph that follows it.  Separators play no role because they produce no tokens. -/
theorem iterparse_concat (isSpace : Char → Bool) (gs : List (List Tok × Tree))
    (h : ∀ p ∈ gs, parseTree ⟨eofPos p.1⟩ isSpace p.1 = .ok (p.2, [])) :
    iterparseToks isSpace (gs.map (·.1)).flatten = (gs.map (·.2), none) :=
  iterparseToks_concat isSpace gs (fun p hp => ⟨_, h p hp⟩)

/-- separators (blanks for the generated tables) produce no tokens -/
theorem blank_line_no_tokens (cfg : LexCfg) (order : List TokTy) (n : Nat) (l : Str)
    (h : ∀ c ∈ l, SepChar cfg c) : lexLine cfg order n l = [] :=
  lexLine_seps cfg order n l h

example : (∀ c ∈ " \t\r\x0b\x0c \n".toList, SepChar gcfg c) := by decide +kernel

/-- line numbers and offsets are invisible to a successful parse: token streams that agree in
    types and texts (comments: in metadata) give the same trees, and an error iff an error -/
theorem positions_irrelevant (isSpace : Char → Bool) (ts ts' : List Tok)
    (h : LSim isSpace [] ts ts') :
    (iterparseToks isSpace ts).1 = (iterparseToks isSpace ts').1 ∧
    (iterparseToks isSpace ts).2.isSome = (iterparseToks isSpace ts').2.isSome :=
  iterparseToks_sim isSpace ts ts' h

/-- Serialise-then-load framing.  Texts `sₖ` (the serialisations) that each parse completely as
    `Tₖ`, joined by `k+1` newlines — `k = 1`: blank-line separation as written by `dumps`,
    `k = 0`: no blank line — with or without a final newline (as written to a file by `dump`):
    loading returns exactly `[T₁, …, Tₙ]`, in order, without error, for every lexer table. -/
theorem dumps_loads_framing (isSpace : Char → Bool) (cfg : LexCfg) (order : List TokTy) (k : Nat)
    (trail : Str) (ht : trail = [] ∨ trail = ['\n']) (gs : List (Str × Tree))
    (hcr : ∀ p ∈ gs, p.1.getLast? ≠ some '\r')
    (hp : ∀ p ∈ gs, parseTree ⟨eofPos (lexStr cfg order p.1)⟩ isSpace (lexStr cfg order p.1) =
      .ok (p.2, [])) :
    iterparseToks isSpace
        (lexStr cfg order (joinStr ('\n' :: List.replicate k '\n') (gs.map (·.1)) ++ trail)) =
      (gs.map (·.2), none) :=
  iterparse_join isSpace cfg order k trail ht gs hcr (fun p h => ⟨_, hp p h⟩)

/-- … and the same through a file -/
theorem dumps_loads_framing_file (isSpace : Char → Bool) (cfg : LexCfg) (hc : SepChar cfg '\n')
    (order : List TokTy) (k : Nat) (trail : Str) (ht : trail = [] ∨ trail = ['\n'])
    (gs : List (Str × Tree)) (hcr : ∀ p ∈ gs, p.1.getLast? ≠ some '\r')
    (hp : ∀ p ∈ gs, parseTree ⟨eofPos (lexStr cfg order p.1)⟩ isSpace (lexStr cfg order p.1) =
      .ok (p.2, [])) :
    iterparseToks isSpace (lexLines cfg order
        (fileLines (joinStr ('\n' :: List.replicate k '\n') (gs.map (·.1)) ++ trail))) =
      (gs.map (·.2), none) := by
  rw [lexLines_fileLines cfg order hc]
  exact dumps_loads_framing isSpace cfg order k trail ht gs hcr hp

/-- two serialised graphs with metadata: the hypotheses of `dumps_loads_framing` hold -/
def g1 : Str := "# ::id 1\n# ::snt a b\n(a / alpha\n   :ARG0 (b / beta))".toList
def g2 : Str := "# ::id 2\n(c / gamma)".toList

def T1 : Tree := (iterparseToks pySpace (lexStr gcfg gorder g1)).1.headD ⟨.mk none .nil, []⟩
def T2 : Tree := (iterparseToks pySpace (lexStr gcfg gorder g2)).1.headD ⟨.mk none .nil, []⟩

example :
    parseTree ⟨eofPos (lexStr gcfg gorder g1)⟩ pySpace (lexStr gcfg gorder g1) = .ok (T1, []) ∧
    parseTree ⟨eofPos (lexStr gcfg gorder g2)⟩ pySpace (lexStr gcfg gorder g2) = .ok (T2, []) ∧
    T1.metadata = [("id".toList, "1".toList), ("snt".toList, "a b".toList)] ∧
    T2.metadata = [("id".toList, "2".toList)] ∧
    g1.getLast? ≠ some '\r' ∧ g2.getLast? ≠ some '\r' ∧
    iterparseToks pySpace (lexStr gcfg gorder (g1 ++ "\n\n".toList ++ g2 ++ "\n".toList)) =
      ([T1, T2], none) ∧
    iterparseToks pySpace (lexStr gcfg gorder (g1 ++ " ".toList ++ g2)) = ([T1, T2], none) := by
  decide +kernel

/-- Serialise-then-load with the graphs on the same line, separated by blanks (space, TAB, VT,
    FF) or by nothing at all.  Each text must end in a *closed line* (`ClosedLast`: its last line
    ends in `)` and has no COMMENT and no UNEXPECTED token — true of every serialisation, where
    comments come first); the tables must satisfy `ParenStop` and the alternation `OrderOk`
    (both decidable, instantiated below). -/
theorem dumps_loads_inline (isSpace : Char → Bool) (cfg : LexCfg) (hp : ParenStop cfg)
    (order : List TokTy) (ho : OrderOk order) (sp : Str) (hsp : ∀ c ∈ sp, SepChar cfg c)
    (hnb : NoBreak sp) (gs : List (Str × Tree)) (hcl : ∀ p ∈ gs, ClosedLast cfg order p.1)
    (hpt : ∀ p ∈ gs, parseTree ⟨eofPos (lexStr cfg order p.1)⟩ isSpace (lexStr cfg order p.1) =
      .ok (p.2, [])) :
    iterparseToks isSpace (lexStr cfg order (joinStr sp (gs.map (·.1)))) =
      (gs.map (·.2), none) :=
  iterparse_join_inline isSpace cfg hp order ho sp hsp hnb gs hcl (fun p h => ⟨_, hpt p h⟩)

theorem parenStop_generated : ParenStop Generated.lexCfg := by decide +kernel
theorem orderOk_generated :
    OrderOk Generated.lexCfg.penmanOrder ∧ OrderOk Generated.lexCfg.tripleOrder := by decide +kernel

example : ClosedLast gcfg gorder g1 ∧ ClosedLast gcfg gorder g2 ∧
    (∀ c ∈ " \t".toList, SepChar gcfg c) ∧ NoBreak " \t".toList ∧
    iterparseToks pySpace (lexStr gcfg gorder (joinStr [] [g1, g2])) = ([T1, T2], none) := by
  decide +kernel

/-- the closedness hypothesis is needed: a comment (or an unterminated string) on the last line
    swallows what follows -/
example : ¬ ClosedLast gcfg gorder "(a / b) # c".toList ∧
    ¬ ClosedLast gcfg gorder "(a / \"b)".toList ∧
    iterparseToks pySpace (lexStr gcfg gorder ("(a / b) # c".toList ++ "(c / d)".toList)) =
      ([⟨.mk (some "a".toList) (.atom "/".toList (.str "b".toList) .nil), []⟩],
        some (.decode 1 18 0)) ∧
    (iterparseToks pySpace
      (lexStr gcfg gorder ("(a / \"b)".toList ++ " ".toList ++ "(c / \"d\")".toList))).1 = [] := by
  decide +kernel

/-! ## recorded behaviour O8 -/

/-- O8: COMMENT tokens after the last graph are not silently dropped: `iterparse` yields all
    the graphs and then raises a decode error "end of input" (kind 0) positioned at the end of
    the last token. -/
theorem trailing_comment_error (isSpace : Char → Bool) (gs : List (List Tok × Tree))
    (h : ∀ p ∈ gs, parseTree ⟨eofPos p.1⟩ isSpace p.1 = .ok (p.2, []))
    (cs : List Tok) (hne : cs ≠ []) (hcs : ∀ t ∈ cs, t.ty = .COMMENT) :
    iterparseToks isSpace ((gs.map (·.1)).flatten ++ cs) =
      (gs.map (·.2), some (.decode (eofPos ((gs.map (·.1)).flatten ++ cs)).1
        (eofPos ((gs.map (·.1)).flatten ++ cs)).2 0)) :=
  iterparseToks_trailing_comments isSpace gs (fun p hp => ⟨_, h p hp⟩) cs hne hcs

example : (iterparseToks pySpace (lexStr gcfg gorder "(a / b)\n# x".toList)).1.length = 1 ∧
    (iterparseToks pySpace (lexStr gcfg gorder "(a / b)\n# x".toList)).2 =
      some (.decode 2 3 0) ∧
    (iterparseToks pySpace (lexLines gcfg gorder ["(a / b)\r\n".toList, "# x\r\n".toList])).2 =
      some (.decode 2 4 0) := by decide +kernel

end Penman.C09

/-
  Penman.Proofs.ConstantNumComplete — the converse of `scanJsonNumber_spec` / `evaluate_number`:
  `scanJsonNumber` accepts EVERY text of the JSON number grammar (greedily, exactly that text when
  what follows cannot continue a number), hence `evaluate` maps every whitespace-padded JSON number
  text to the int / float carrying that text (C18).
-/
import Penman.Proofs.ConstantNum
import Penman.Proofs.ConstantCases

namespace Penman
namespace C18

/-- the head of `r` (if any) does not satisfy `p` -/
def headNot (p : Char → Bool) : Str → Bool
  | [] => true
  | c :: _ => !p c

/-- a character that could continue a number text -/
def numCont (c : Char) : Bool := isAsciiDigit c || c == '.' || c == 'e' || c == 'E'

theorem takeWhile_digits_append {ds r : Str} (hd : ∀ c ∈ ds, isAsciiDigit c = true) (hr : headNot isAsciiDigit r = true) :
    (ds ++ r).takeWhile isAsciiDigit = ds ∧ (ds ++ r).dropWhile isAsciiDigit = r := by
  induction ds with
  | nil =>
    cases r with
    | nil => simp
    | cons c q =>
      have : isAsciiDigit c = false := by simpa [headNot] using hr
      simp [this]
  | cons d ds ih =>
    have h1 : isAsciiDigit d = true := hd d (by simp)
    have := ih (fun c hc => hd c (by simp [hc]))
    simp [h1, this]

theorem signPart_append {sign r : Str} (hs : sign = [] ∨ sign = ['-']) (hr : headNot (· == '-') r = true) :
    signPart (sign ++ r) = (sign, r) := by
  rcases hs with rfl | rfl
  · cases r with
    | nil => rfl
    | cons c q =>
      have : c ≠ '-' := by simpa [headNot] using hr
      unfold signPart
      split
      · rename_i h; injection h with h1 _; exact absurd h1 this
      · rfl
  · rfl

theorem digit_of_range {c : Char} (h1 : '1' ≤ c) (h2 : c ≤ '9') : isAsciiDigit c = true := by
  simp only [isAsciiDigit, Bool.and_eq_true, decide_eq_true_eq]
  exact ⟨Char.le_trans (by decide) h1, h2⟩

theorem intPart_append {int r : Str}
    (hi : int = ['0'] ∨ ∃ c ds, int = c :: ds ∧ '1' ≤ c ∧ c ≤ '9' ∧ ∀ d ∈ ds, isAsciiDigit d = true)
    (hr : headNot isAsciiDigit r = true) : intPart (int ++ r) = some (int, r) := by
  rcases hi with rfl | ⟨c, ds, rfl, h1, h2, hds⟩
  · rfl
  · have hc0 : c ≠ '0' := by
      intro e; subst e; exact absurd h1 (by decide)
    have hall : ∀ x ∈ c :: ds, isAsciiDigit x = true := by
      intro x hx
      rcases List.mem_cons.mp hx with rfl | hx
      · exact digit_of_range h1 h2
      · exact hds x hx
    obtain ⟨t1, t2⟩ := takeWhile_digits_append hall hr
    unfold intPart
    split
    · rename_i h; injection h with e _; exact absurd e hc0
    · rename_i c' tl _ h
      injection h with e1 e2
      subst e1
      have : ('1' ≤ c && c ≤ '9') = true := by simp [h1, h2]
      simp only [this, if_true]
      rw [t1, t2]
    · rename_i h; simp at h

theorem fracPart_append {frac r : Str} (hf : frac = [] ∨ ∃ ds, frac = '.' :: ds ∧ IsDigits ds)
    (hr : headNot (fun c => isAsciiDigit c || c == '.') r = true) : fracPart (frac ++ r) = (frac, r) := by
  rcases hf with rfl | ⟨ds, rfl, hne, hds⟩
  · cases r with
    | nil => rfl
    | cons c q =>
      have : c ≠ '.' := by
        have := hr; simp [headNot] at this; exact this.2
      unfold fracPart
      split
      · rename_i h; injection h with h1 _; exact absurd h1 this
      · rfl
  · have hr' : headNot isAsciiDigit r = true := by
      cases r with
      | nil => rfl
      | cons c q => simp [headNot] at hr ⊢; exact hr.1
    obtain ⟨t1, t2⟩ := takeWhile_digits_append hds hr'
    have : ds.isEmpty = false := by cases ds <;> simp_all
    simp [fracPart, t1, t2, this]

theorem expPart_append {exp r : Str}
    (he : exp = [] ∨ ∃ e sg ds, exp = e :: sg ++ ds ∧ (e = 'e' ∨ e = 'E') ∧
      (sg = [] ∨ sg = ['-'] ∨ sg = ['+']) ∧ IsDigits ds)
    (hr : headNot (fun c => isAsciiDigit c || c == 'e' || c == 'E') r = true) :
    expPart (exp ++ r) = (exp, r) := by
  rcases he with rfl | ⟨e, sg, ds, rfl, he, hsg, hne, hds⟩
  · cases r with
    | nil => rfl
    | cons c q =>
      have h := hr
      simp [headNot] at h
      simp only [List.nil_append, expPart]
      simp [h.1.2, h.2]
  · have hr' : headNot isAsciiDigit r = true := by
      cases r with
      | nil => rfl
      | cons c q => simp [headNot] at hr ⊢; exact hr.1.1
    obtain ⟨t1, t2⟩ := takeWhile_digits_append hds hr'
    have hee : (e = 'e' || e = 'E') = true := by simpa using he
    obtain ⟨d, ds', rfl⟩ : ∃ d ds', ds = d :: ds' := by
      cases ds with
      | nil => exact absurd rfl hne
      | cons d ds' => exact ⟨d, ds', rfl⟩
    have hd : isAsciiDigit d = true := hds d (by simp)
    have hdm : d ≠ '-' := by intro e; subst e; revert hd; decide
    have hdp : d ≠ '+' := by intro e; subst e; revert hd; decide
    simp only [List.cons_append] at t1 t2
    rcases hsg with rfl | rfl | rfl
    · simp only [List.cons_append, List.nil_append, expPart, hee, if_true]
      split
      · rename_i h; injection h with h1 _; exact absurd h1 hdm
      · rename_i h; injection h with h1 _; exact absurd h1 hdp
      · simp [t1, t2]
    · simp only [List.cons_append, List.nil_append, expPart, hee, if_true]
      simp [t1, t2]
    · simp only [List.cons_append, List.nil_append, expPart, hee, if_true]
      simp [t1, t2]

/-! ### the scanner is complete for the number grammar -/

theorem headNot_nil (p : Char → Bool) : headNot p [] = true := rfl

theorem headNot_append {p : Char → Bool} {a b : Str} (ha : a = [] → headNot p b = true)
    (ha' : a ≠ [] → headNot p a = true) : headNot p (a ++ b) = true := by
  cases a with
  | nil => exact ha rfl
  | cons c q => exact ha' (by simp)

theorem headNot_mono {p q : Char → Bool} {r : Str} (hpq : ∀ c, p c = true → q c = true)
    (h : headNot q r = true) : headNot p r = true := by
  cases r with
  | nil => rfl
  | cons c x =>
    simp only [headNot, Bool.not_eq_true'] at h ⊢
    cases hp : p c with
    | false => rfl
    | true => rw [hpq c hp] at h; cases h

/-- **completeness of `scanJsonNumber`** : on a number text followed by something that cannot
    continue a number, the scanner returns exactly that text -/
theorem scanJsonNumber_complete {sign int frac exp post : Str} (h : JsonNumberParts sign int frac exp)
    (hpost : headNot numCont post = true) :
    scanJsonNumber (sign ++ int ++ frac ++ exp ++ post) =
      some (sign ++ int ++ frac ++ exp, !(frac.isEmpty && exp.isEmpty), post) := by
  obtain ⟨hs, hi, hf, he⟩ := h
  have hexp_head : exp ≠ [] → ∃ e x, exp = e :: x ∧ (e = 'e' ∨ e = 'E') := by
    intro hne
    rcases he with rfl | ⟨e, sg, ds, rfl, he, _⟩
    · exact absurd rfl hne
    · exact ⟨e, _, rfl, he⟩
  have hfrac_head : frac ≠ [] → ∃ x, frac = '.' :: x := by
    intro hne
    rcases hf with rfl | ⟨ds, rfl, _⟩
    · exact absurd rfl hne
    · exact ⟨_, rfl⟩
  have hint_head : ∃ d x, int = d :: x ∧ isAsciiDigit d = true := by
    rcases hi with rfl | ⟨c, ds, rfl, h1, h2, _⟩
    · exact ⟨'0', [], rfl, by decide⟩
    · exact ⟨c, ds, rfl, digit_of_range h1 h2⟩
  -- what follows each part cannot be taken for a continuation of that part
  have h3 : headNot (fun c => isAsciiDigit c || c == 'e' || c == 'E') post = true :=
    headNot_mono (q := numCont) (fun c hc => by
      simp only [numCont, Bool.or_eq_true, beq_iff_eq] at hc ⊢
      rcases hc with (hc | hc) | hc
      · exact .inl (.inl (.inl hc))
      · exact .inl (.inr hc)
      · exact .inr hc) hpost
  have h2 : headNot (fun c => isAsciiDigit c || c == '.') (exp ++ post) = true := by
    refine headNot_append (fun _ => headNot_mono (q := numCont) (fun c hc => ?_) hpost) (fun hne => ?_)
    · simp only [numCont, Bool.or_eq_true, beq_iff_eq] at hc ⊢
      rcases hc with hc | hc
      · exact .inl (.inl (.inl hc))
      · exact .inl (.inl (.inr hc))
    · obtain ⟨e, x, rfl, he'⟩ := hexp_head hne
      rcases he' with rfl | rfl <;> (simp only [headNot]; decide)
  have h1 : headNot isAsciiDigit (frac ++ (exp ++ post)) = true := by
    refine headNot_append (fun _ => headNot_mono (fun c hc => ?_) h2) (fun hne => ?_)
    · simp [hc]
    · obtain ⟨x, rfl⟩ := hfrac_head hne; simp only [headNot]; decide
  have h0 : headNot (· == '-') (int ++ (frac ++ (exp ++ post))) = true := by
    obtain ⟨d, x, rfl, hd⟩ := hint_head
    simp only [List.cons_append, headNot, Bool.not_eq_true', beq_eq_false_iff_ne]
    intro e; subst e; revert hd; decide
  rw [scanJsonNumber_eq]
  simp only [List.append_assoc]
  rw [signPart_append hs h0]
  simp only [intPart_append hi h1, fracPart_append hf h2, expPart_append he h3]

/-- the characters of a number text -/
def numChar (c : Char) : Bool := isAsciiDigit c || c == '-' || c == '+' || c == '.' || c == 'e' || c == 'E'

theorem numChar_of_digit {c : Char} (h : isAsciiDigit c = true) : numChar c = true := by simp [numChar, h]

theorem parts_chars {sign int frac exp : Str} (h : JsonNumberParts sign int frac exp) :
    ∀ c ∈ sign ++ int ++ frac ++ exp, numChar c = true := by
  obtain ⟨hs, hi, hf, he⟩ := h
  intro c hc
  simp only [List.mem_append] at hc
  rcases hc with ((hc | hc) | hc) | hc
  · rcases hs with rfl | rfl
    · simp at hc
    · simp at hc; subst hc; decide
  · rcases hi with rfl | ⟨d, ds, rfl, h1, h2, hds⟩
    · simp at hc; subst hc; decide
    · rcases List.mem_cons.mp hc with rfl | hc
      · exact numChar_of_digit (digit_of_range h1 h2)
      · exact numChar_of_digit (hds c hc)
  · rcases hf with rfl | ⟨ds, rfl, _, hds⟩
    · simp at hc
    · rcases List.mem_cons.mp hc with rfl | hc
      · decide
      · exact numChar_of_digit (hds c hc)
  · rcases he with rfl | ⟨e, sg, ds, rfl, he, hsg, _, hds⟩
    · simp at hc
    · rcases List.mem_cons.mp hc with rfl | hc
      · rcases he with rfl | rfl <;> decide
      · rcases List.mem_append.mp hc with hc | hc
        · rcases hsg with rfl | rfl | rfl
          · simp at hc
          · simp at hc; subst hc; decide
          · simp at hc; subst hc; decide
        · exact numChar_of_digit (hds c hc)

/-- a number text starts with `-` or a digit -/
theorem parts_head {sign int frac exp : Str} (h : JsonNumberParts sign int frac exp) :
    ∃ c q, sign ++ int ++ frac ++ exp = c :: q ∧ (c = '-' ∨ isAsciiDigit c = true) := by
  obtain ⟨hs, hi, hf, he⟩ := h
  rcases hs with rfl | rfl
  · rcases hi with rfl | ⟨d, ds, rfl, h1, h2, _⟩
    · exact ⟨'0', _, rfl, .inr (by decide)⟩
    · exact ⟨d, _, rfl, .inr (digit_of_range h1 h2)⟩
  · exact ⟨'-', _, rfl, .inl rfl⟩

theorem scanJson_number {f : Nat} {s t post : Str} {isF : Bool} {c : Char} {q : Str}
    (hnum : scanJsonNumber s = some (t, isF, post)) (hs : s = c :: q) (hc : c = '-' ∨ isAsciiDigit c = true) :
    scanJson (f+1) s = .ok (if isF then .float t else .int t) post := by
  have hne : ∀ x : Char, x ≠ '-' → isAsciiDigit x = false → c ≠ x := by
    intro x h1 h2 e; subst e
    rcases hc with rfl | hc
    · exact h1 rfl
    · rw [hc] at h2; cases h2
  have hq := hne '"' (by decide) (by decide)
  have hb := hne '{' (by decide) (by decide)
  have hk := hne '[' (by decide) (by decide)
  have hn := hne 'n' (by decide) (by decide)
  have ht := hne 't' (by decide) (by decide)
  have hf := hne 'f' (by decide) (by decide)
  subst hs
  unfold scanJson
  split
  · rename_i h; injection h with h1 _; exact absurd h1 hq
  · rename_i h; injection h with h1 _; exact absurd h1 hb
  · rename_i h; injection h with h1 _; exact absurd h1 hk
  · have e1 : startsWith "null".toList (c :: q) = false := by
      simp [startsWith, List.isPrefixOf]; intro e; exact absurd e.symm hn
    have e2 : startsWith "true".toList (c :: q) = false := by
      simp [startsWith, List.isPrefixOf]; intro e; exact absurd e.symm ht
    have e3 : startsWith "false".toList (c :: q) = false := by
      simp [startsWith, List.isPrefixOf]; intro e; exact absurd e.symm hf
    simp only [e1, e2, e3, Bool.false_eq_true, if_false, hnum]

/-- the characters of a padded number text -/
def okChar (c : Char) : Bool := numChar c || isJsonWs c

/-- **completeness of `evaluate` on numbers** -/
theorem evaluate_number_complete {s t : Str} {isF : Bool} (hn : IsJsonNumber t isF) (hp : WsPadded s t) :
    evaluate (some s) = .ok (if isF then .float t else .int t) := by
  obtain ⟨sign, int, frac, exp, rfl, hparts, hisF⟩ := hn
  obtain ⟨pre, post, hs, hpre, hpost⟩ := hp
  obtain ⟨c, q, ht, hc⟩ := parts_head hparts
  -- every character is a number character or whitespace
  have hchars : ∀ x ∈ s, okChar x = true := by
    intro x hx
    rw [hs] at hx
    rcases List.mem_append.mp hx with hx | hx
    rotate_left
    · simp [okChar, hpost x hx]
    rcases List.mem_append.mp hx with hx | hx
    · simp [okChar, hpre x hx]
    · simp [okChar, parts_chars hparts x hx]
  have ws_cases : ∀ x : Char, isJsonWs x = true → x = ' ' ∨ x = '\t' ∨ x = '\n' ∨ x = '\r' := by
    intro x hx
    simpa [isJsonWs, or_assoc] using hx
  have hcws : isJsonWs c = false := by
    cases hw : isJsonWs c with
    | false => rfl
    | true =>
      exfalso
      rcases ws_cases c hw with rfl | rfl | rfl | rfl <;> revert hc <;> decide
  have hsk : skipWs s = sign ++ int ++ frac ++ exp ++ post := wsPadded_skipWs hs hpre ht hcws
  have hstop : headNot numCont post = true := by
    cases post with
    | nil => rfl
    | cons x xs =>
      have hx : isJsonWs x = true := hpost x (by simp)
      simp only [headNot]
      rcases ws_cases x hx with rfl | rfl | rfl | rfl <;> decide
  have hnum := scanJsonNumber_complete hparts hstop
  have hisF' : (!(frac.isEmpty && exp.isEmpty)) = isF := by
    cases isF with
    | true =>
      have := hisF.1 rfl
      cases frac <;> cases exp <;> simp_all
    | false =>
      have : ¬ (frac ≠ [] ∨ exp ≠ []) := fun h => by have := hisF.2 h; cases this
      cases frac <;> cases exp <;> simp_all
  rw [hisF'] at hnum
  have hj : jsonLoads s = .ok (some (if isF then .float (sign ++ int ++ frac ++ exp) else .int (sign ++ int ++ frac ++ exp))) := by
    unfold jsonLoads
    rw [hsk, scanJson_number hnum (by rw [ht]; rfl) hc]
    simp [skipWs_allWs hpost]
  have hne' : s.isEmpty = false := by
    cases s with
    | nil => rw [ht] at hsk; simp [skipWs] at hsk
    | cons _ _ => rfl
  have hnot : ∀ x : Char, okChar x = false → x ∉ s := fun x hx hm => by rw [hchars x hm] at hx; cases hx
  have hq1 : startsWith ['"'] s = false := by
    cases hb : startsWith ['"'] s with
    | false => rfl
    | true =>
      obtain ⟨r, hr⟩ := startsWith_quote_iff hb
      exact absurd (by rw [hr]; simp) (hnot '"' (by decide))
  have hq2 : endsWith ['"'] s = false := by
    cases hb : endsWith ['"'] s with
    | false => rfl
    | true =>
      obtain ⟨r, hr⟩ := endsWith_quote_iff hb
      exact absurd (by rw [hr]; simp) (hnot '"' (by decide))
  have hlit : ¬ (s = "true".toList ∨ s = "false".toList ∨ s = "null".toList) := by
    rintro (e | e | e)
    · exact hnot 't' (by decide) (by rw [e]; decide)
    · exact hnot 'f' (by decide) (by rw [e]; decide)
    · exact hnot 'n' (by decide) (by rw [e]; decide)
  rw [evaluate_some]
  simp only [hne', hq1, hq2, hlit, hj]
  cases isF <;> rfl

end C18
end Penman



"""Seeded generators of operations for the correspondence check.
Every random choice comes from the `random.Random` passed in."""
import itertools
import json

from common import (penman, layout, Graph, j_graph, j_tree, j_node, j_triple, py_tree, py_model,
                    Unrepresentable)

# ---------------------------------------------------------------- alphabets

VARS = ['a', 'b', 'c', 'd', 'e', 'x1', 'x2', '_', '_2', 'a2', 'b0', 'x01', 'top', 't']
# a node named like a model's top variable gets an edge with that model's top role most of the time:
# (top :TOP x) / (t :top x) are ordinary triples of an ordinary node
TOP_DECL = {'top': ':TOP', 't': ':top'}
CONCEPTS = ['alpha', 'beta', '_', '_2', 'Chase-01', '"str ing"', '"(x"', 'a', 'b', '7', 'have-mod-91', 'include-91',
            'own-01', 'have-03', 'ôter', '中', '_x', '"q~1"', '-', 'have-org-role-91', '٣', 'İ', '0', '1.5',
            '²-norm', '½life', 'Ⅷ-century', '①a', 'ǅungla', 'ʰa', 'e\u0301cole', 'ẞig', 'ﬁn', '\u0301x', 'ª1', '٣x']
ROLES_PLAIN = [':ARG0', ':ARG1', ':ARG2', ':op1', ':op2', ':op10', ':mod', ':domain', ':quant', ':polarity',
               ':consist-of', ':prep-on-behalf-of', ':superset', ':subset', ':poss', ':beneficiary', ':name',
               ':foo', ':R', ':', ':snt3', ':wiki', ':time', ':location', ':ARG10', ':role', ':employed-by', ':TOP',
               ':consist', ':prep-on-behalf', ':prep-out-of', ':prep-out', ':mode', ':year2', ':year', ':prep-on',
               ':instance', ':ARG0xyz', ':modabc', ':polarity-on', ':quant-if',
               ':X', ':X-of', ':Y-of', ':Y', ':a', ':b', ':N1', ':op100', ':op99', ':op20', ':op19', ':ARG2',
               ':possessor', ':part-of', ':op01', ':op2', ':ARG01', ':snt007', ':snt12']
# role suffixes written with digits of other scripts (decimal: \d and int() accept them; or not decimal:
# superscripts, Ethiopic): the Lean model knows ASCII digits only (boundary O24), so these roles are
# used by the C05 oracle on the real code, never in the correspondence
ROLES_UNICODE_DIGITS = [':op\u0661', ':op\u0662\u0663', ':op\u0669', ':op\u1369', ':x\u00b2', ':op\u2460']
CONSTS = ['-', '+', '7', '0', '0.0', '-1.5e3', '"a b"', '"x:y(z)"', '"\\"q\\""', '"C:\\\\"', '"e\\\\\\"f"', 'imperative', 'x~y', '"t~1"',
          '"#h"', '"a #b"', '"see #5, ^ x"', '"~/d"', '"~5"', '"say \\"~\\" x"', 'a/b', 'Ω', '"é "', '""', '1e400', 'true', 'null', 'NaN']
ALNS = ['~1', '~e.2', '~e.1,2', '~E.3', '~x4', '~01', '~2,03', '~3,1', '~e.5,2,4']
BLANKS = [' ', '  ', '\t', '\n', '\n  ', ' \n', '\r\n', '\r', '\x0b', '\x0c']
EXOTIC = ['\xa0', '　', ' ', '\x85', '\x1c', ' ']


def maybe(rng, p):
    return rng.random() < p


def role_alphabet(rng):
    """the roles to draw from: for stretches of 8-60 draws a small alphabet (three roles plus their
    '-of' relatives: :X with :X-of, :consist with :consist-of, :part-of) instead of the whole list, so
    that repeated roles, role/inverse pairs and a custom model's own roles meet in one tree"""
    st = getattr(rng, '_role_focus', None)
    if st is None or st[1] <= 0:
        if maybe(rng, 0.3):
            base = rng.sample(ROLES_PLAIN, 3)
            rel = [r for r in ROLES_PLAIN if any(r == b + '-of' or b == r + '-of' for b in base)]
            alphabet = base + rel
        else:
            alphabet = ROLES_PLAIN
        st = [alphabet, rng.randint(8, 60)]
        rng._role_focus = st
    st[1] -= 1
    return st[0]


def role(rng, invert=True):
    r = rng.choice(role_alphabet(rng))
    if invert and maybe(rng, 0.05):
        # an over-inverted role that is a normalisation key only after its inversions collapse
        return rng.choice([':mod', ':domain', ':consist', ':consist-of', ':prep-out-of']) + '-of' * rng.choice([2, 3, 3, 4])
    if invert:
        k = rng.choice([0, 0, 0, 0, 1, 1, 2, 3])
        r += '-of' * k
    return r


def aln(rng, p=0.15):
    return rng.choice(ALNS) if maybe(rng, p) else ''


# ---------------------------------------------------------------- trees (as python node tuples)

class TreeGen:
    """random trees; `wf=True` keeps them well-formed for layout (unique
    variables, distinct triples) but still uses every syntactic feature"""

    def __init__(self, rng, wf=True, max_nodes=8, aligned=True, weird=0.08, strict=False):
        # strict: only grammar-valid atoms, canonical alignments and at most one "-of":
        # the domain of the layout theorems (used by the oracles, to waste fewer cases)
        self.wf_strict = strict
        self.rng = rng
        self.wf = wf
        self.max_nodes = max_nodes
        self.aligned = aligned
        self.weird = weird

    def fresh(self):
        rng = self.rng
        if self.wf or maybe(rng, 0.8):
            for _ in range(50):
                v = rng.choice(VARS) if maybe(rng, 0.7) else rng.choice('abcdefgxyz') + str(rng.randint(0, 30))
                if v not in self.used:
                    self.used.append(v)
                    return v
            v = 'v%d' % len(self.used)
            self.used.append(v)
            return v
        return rng.choice(self.used) if self.used else 'a'

    def gen(self):
        self.used = []
        self.budget = self.rng.randint(1, self.max_nodes)
        self.seen_triples = set()
        node = self.node(0)
        if len(self.used) > 1 and maybe(self.rng, 0.5):
            node = self.forward_refs(node)
        return node

    def forward_refs(self, node):
        """turn some constant targets into references to ANY node variable, so that
        references also precede the definition of their variable"""
        rng = self.rng
        allvars = list(self.used)

        def walk(n):
            var, bs = n
            out = []
            for r, t in bs:
                if isinstance(t, tuple):
                    out.append((r, walk(t)))
                    continue
                if r != '/' and maybe(rng, 0.05) and not self.wf_strict:
                    t = rng.choice(allvars) + rng.choice(['2', 'm', 'x', '0'])
                elif r != '/' and maybe(rng, 0.2):
                    v = rng.choice(allvars)
                    if maybe(rng, 0.35) and '-of' not in r and r.startswith(':') and len(r) > 1:
                        core, tl, al_ = r.partition('~')
                        r = core + '-of' + tl + al_          # an INVERTED (possibly forward) reference
                    key = (var, r.partition('~')[0], v)
                    if not self.wf or key not in self.seen_triples:
                        self.seen_triples.add(key)
                        t = v + self.al(0.2)
                out.append((r, t))
            return (var, out)
        return walk(node)

    def al(self, p=0.15):
        if not self.aligned:
            return ''
        if self.wf_strict:
            return self.rng.choice(['~1', '~e.2', '~e.1,2', '~E.3', '~x4', '~3,1', '~e.5,2,4']) if maybe(self.rng, p) else ''
        return aln(self.rng, p)

    def role_(self):
        rng = self.rng
        if self.wf_strict:
            r = rng.choice([x for x in role_alphabet(rng) if not x.startswith(':instance')] or [':ARG0'])
            if maybe(rng, 0.3) and not r.endswith('-of'):
                r += '-of'
            return r
        return role(rng)

    def const_(self):
        if self.wf_strict:
            return self.rng.choice([c for c in CONSTS if c not in ('x~y', 'a/b', '""')])
        return self.rng.choice(CONSTS)

    def node(self, depth):
        rng = self.rng
        self.budget -= 1
        var = self.fresh()
        branches = []
        r = rng.random()
        if r < 0.82:
            c = rng.choice(CONCEPTS)
            if not c.startswith('"') or maybe(rng, 0.5):
                c += self.al()
            branches.append(('/', c))
        elif r < 0.88:
            branches.append(('/', None))
        n = rng.choice([0, 0, 1, 1, 2, 2, 3, 4, 5])
        if maybe(rng, 0.06) and self.budget > 0 and depth < 12:
            # a concept-less node whose only branch opens a nested node
            return (var, [(role(rng, invert=False), self.node(depth + 1))])
        for k_ in range(n + (1 if var in TOP_DECL else 0)):
            ro = self.role_()
            if var in TOP_DECL and k_ == 0 and maybe(rng, 0.7):
                ro = TOP_DECL[var]
            if self.wf and ro.startswith(':instance'):
                continue        # an explicit :instance role is a second way to write the concept
            ra = self.al()
            ro += ra
            if ra and not self.wf_strict and maybe(rng, 0.06):
                ro += self.al(1.0)          # a second alignment glued to the role (split at the FIRST '~')
            k = rng.random()
            if k < 0.35 and self.budget > 0 and depth < 12:
                tgt = self.node(depth + 1)
            elif k < 0.6 and self.used:
                # re-entrancy (or self-loop); sometimes the SAME alignment as on the role
                tgt = rng.choice(self.used) + (ra if ra and maybe(rng, 0.4) else self.al(0.1))
            elif k < 0.93:
                tgt = self.const_()
                if ra and maybe(rng, 0.4):
                    tgt += ra
                elif not tgt.startswith('"') or maybe(rng, 0.4):
                    tgt += self.al(0.1)
            else:
                tgt = None
            if self.wf:
                key = (var, ro.partition('~')[0], tgt if not isinstance(tgt, tuple) else tgt[0])
                if key in self.seen_triples:
                    continue
                self.seen_triples.add(key)
            branches.append((ro, tgt))
        if not self.wf and maybe(rng, 0.1):
            atomic = [b for b in branches if b[0] != '/' and not isinstance(b[1], tuple)]
            if atomic and any(isinstance(b[1], tuple) for b in branches):
                branches.append(rng.choice(atomic))            # the same attribute once more, after a nested node
        if not self.wf and maybe(rng, self.weird):
            branches.append(('/', rng.choice(CONCEPTS)))       # second concept
        return (var, branches)


def permute_vars(rng, node):
    """the same tree with its variables permuted among themselves (definitions and references,
    alignment suffixes kept); written independently of penman.tree"""
    vs = []

    def collect(n):
        if n[0] is not None and n[0] not in vs:
            vs.append(n[0])
        for _, t in n[1]:
            if isinstance(t, tuple):
                collect(t)
    collect(node)
    if len(vs) < 2:
        return node
    ws = list(vs)
    rng.shuffle(ws)
    ren = dict(zip(vs, ws))

    def go(n):
        out = []
        for r, t in n[1]:
            if isinstance(t, tuple):
                out.append((r, go(t)))
            elif r != '/' and isinstance(t, str) and t.partition('~')[0] in ren:
                base, tl, al_ = t.partition('~')
                out.append((r, ren[base] + tl + al_))
            else:
                out.append((r, t))
        return (ren.get(n[0], n[0]), out)
    return go(node)


def gen_tree(rng, **kw):
    return TreeGen(rng, **kw).gen()


AMR_REIFS = [(':mod', 'have-mod-91', ':ARG1', ':ARG2'), (':location', 'be-located-at-91', ':ARG1', ':ARG2'),
             (':poss', 'own-01', ':ARG1', ':ARG0'), (':quant', 'have-quant-91', ':ARG1', ':ARG2'),
             (':beneficiary', 'benefit-01', ':ARG0', ':ARG1'), (':polarity', 'have-polarity-91', ':ARG1', ':ARG2'),
             (':time', 'be-temporally-at-91', ':ARG1', ':ARG2'), (':name', 'have-name-91', ':ARG1', ':ARG2')]


def reified_tree(rng):
    """a tree containing written-out reified relations (collapsible nodes) followed by further
    branches, re-entrancies and reifiable plain relations: exercises dereify then reify"""
    vs = ['a', 'b', 'c', 'd', 'e']
    used = ['a']
    counter = [0]

    def fresh():
        for v in vs:
            if v not in used:
                used.append(v)
                return v
        counter[0] += 1
        v = 'x%d' % counter[0]
        used.append(v)
        return v

    def node(var, depth):
        bs = [('/', rng.choice(['alpha', 'beta', 'gamma', 'delta']))]
        for _ in range(rng.randint(1, 3)):
            k = rng.random()
            role, concept, sr, tr = rng.choice(AMR_REIFS)
            if k < 0.4 and depth < 3:
                rv = '_' if '_' not in used else '_%d' % (len(used) + 1)
                used.append(rv)
                if maybe(rng, 0.5):
                    tgt = rng.choice(['7', '-', '"s"'])
                else:
                    tv = fresh()
                    tgt = node(tv, depth + 1) if maybe(rng, 0.7) else rng.choice(used[:-1])
                if maybe(rng, 0.12):
                    tr = rng.choice([':ARG3', ':ARG0', ':mod'])       # roles that do not fit the concept: ModelError path
                if isinstance(tgt, str) and not tgt.startswith('"') and maybe(rng, 0.2):
                    tgt += aln(rng, 1.0)
                # the two relations of the reified node may carry role alignments of their own (with or
                # without an aligned concept): dereify_edges has to decide what the collapsed edge keeps
                inner = [('/', concept + aln(rng, 0.2)), (tr + aln(rng, 0.25), tgt)]
                bs.append((sr + '-of' + aln(rng, 0.25), (rv, inner)))
            elif k < 0.6:
                a1 = aln(rng, 0.3)
                bs.append((role + a1, rng.choice(used) + (a1 if maybe(rng, 0.5) else '')))    # reifiable re-entrancy
            elif k < 0.8:
                a1 = aln(rng, 0.3)
                bs.append((role + a1, rng.choice(['7', '-', '"s"']) + (a1 if maybe(rng, 0.5) else aln(rng, 0.2))))
            elif depth < 3:
                tv = fresh()
                bs.append((rng.choice([':ARG0', ':ARG1', ':op1']), node(tv, depth + 1)))
            else:
                bs.append((':ARG0-of', rng.choice(used)))
        return (var, bs)
    t = node('a', 0)
    k = rng.random()
    if k < 0.15:
        # the collapsible node is the top of the graph (it must stay: dereify_edges keeps the top)
        role, concept, sr, tr = rng.choice(AMR_REIFS)
        tgt = rng.choice(['7', '-', ('q', [('/', 'gamma')])])
        t = ('_0', [('/', concept), (sr, t), (tr, tgt)])
    elif k < 0.3:
        # ... or the target of a further edge (a re-entrancy keeps it a node)
        rvs = [u for u in used if u.startswith('_')]
        if rvs:
            t[1].append((rng.choice([':ARG0', ':op1', ':mod']), rng.choice(rvs)))
    return t


def gen_metadata(rng):
    md = {}
    for _ in range(rng.choice([0, 0, 0, 1, 1, 2, 3])):
        k = rng.choice(['snt', 'id', 'tok', 'k-1', 'é', 'snt', 'snt:', 'k:', 'a:b'])
        v = rng.choice(['', 'hello world', 'a ; b ( c ) " d # e', 'x  y', 'zh 中文', 'l s', 'v\x0bt', 'n\x85l',
                        'with :: inside'[:rng.randint(0, 14)], 'trail ', ' lead', '  two words', '\tx', '\u3000wide', '\xa0nb'])
        v = v.rstrip()
        if '::' in v or '::' in k:
            continue
        md[k] = v
    return md


# ---------------------------------------------------------------- strings

def merge_comment_lines(rng, s):
    """put several `::key value` pairs on one comment line, add plain comments"""
    lines = s.split('\n')
    out = []
    for l in lines:
        if out and l.startswith('# ::') and out[-1].startswith('#') and maybe(rng, 0.6):
            out[-1] = out[-1] + rng.choice([' ', '  ', '\t']) + l[2:]
        else:
            out.append(l)
    if maybe(rng, 0.2):
        out.insert(0, rng.choice(['# a comment', '#', '# :: ', '# ::k', '# x ::y z', '#::a b']))
    return '\n'.join(out)


def gen_penman_string(rng, wf=True):
    """format a random tree with random indentation, then perturb spacing"""
    t = gen_tree(rng, wf=wf)
    indent = rng.choice([None, -1, -1, 0, 1, 2, 3, 8])
    try:
        s = penman.format(penman.Tree(t, metadata=gen_metadata(rng) if maybe(rng, 0.4) else {}),
                          indent=indent, compact=maybe(rng, 0.3))
    except Exception:  # noqa: BLE001
        s = '(a / b)'
    if s.startswith('#') and maybe(rng, 0.5):
        s = merge_comment_lines(rng, s)
    return s


TOKENS = ['(', ')', '/', ':ARG0', ':', ':r-of', 'a', 'b', 'a,b', ',', '^', '"s t"', '"', '"a\\"', '"b\\\\"', '\\"', '"c\\\\\\"', '~1', '~e.1', '~e.', '~', '#c',
          '# ::k v', '\\', '.', '-', '1', 'B', 'x~1', ':r~e.1', '^r', ',b', 'a,',
          # letters that case-fold to ASCII letters are NOT alignment prefixes; neither are digits-less forms
          'b~ſ.1', ':r~K2', 'c~ı3,4', 'x~İ.1', '~é1', 'b~e1', ':r~x2,3', 'b~E4']


def perturb(rng, s):
    """one or two token-level edits"""
    for _ in range(rng.choice([1, 1, 2])):
        if not s:
            return rng.choice(TOKENS)
        i = rng.randrange(len(s) + 1)
        k = rng.random()
        if k < 0.35:
            j = min(len(s), i + rng.randint(1, 4))
            s = s[:i] + s[j:]
        elif k < 0.8:
            s = s[:i] + rng.choice([' ', '']) + rng.choice(TOKENS + BLANKS + EXOTIC) + rng.choice([' ', '']) + s[i:]
        else:
            s = s[:i] + rng.choice(BLANKS + EXOTIC) + s[i:]
    return s


def gen_blank_line(rng):
    return ''.join(rng.choice(BLANKS[:3] + EXOTIC + ['\x0b', '\x0c']) for _ in range(rng.randint(1, 4)))


def gen_token_soup(rng, n=None):
    n = n or rng.randint(0, 12)
    return rng.choice(['', ' ']).join(rng.choice(TOKENS + BLANKS) for _ in range(n))


def newline_variant(rng, s):
    k = rng.random()
    if k < 0.5:
        return s
    nl = rng.choice(['\r\n', '\r', '\n'])
    return s.replace('\n', nl)


def container_variants(rng, s):
    """the same text as str / list of lines / lines with terminators"""
    import re
    pieces = re.split(r'\r\n|\r|\n', s)
    k = rng.random()
    if k < 0.4:
        return {'s': s}
    if k < 0.7:
        return {'lines': pieces}
    return {'lines': [p + '\n' for p in pieces[:-1]] + ([pieces[-1]] if pieces[-1] else [])}


ALPHABET_FULL = ['(', ')', '/', ':', '~', '"', '\\', '#', ',', '^', '.', '-', 'a', 'B', '1',
                 ' ', '\t', '\n', '\r', '\x0b', '\x0c', '\xa0', ' ', '\x85', '　']
ALPHABET_CLASS = ['(', ')', '/', ':', '~', '"', '\\', '#', ',', '.', 'a', '1', ' ', '\n']


def exhaustive_strings(alphabet, maxlen, minlen=0):
    for n in range(minlen, maxlen + 1):
        for tup in itertools.product(alphabet, repeat=n):
            yield ''.join(tup)


# ---------------------------------------------------------------- models

CUSTOM_MODELS = [
    {'roles': [['lit', ':X'], ['lit', ':Y-of'], ['digit', ':N'], ['digits', ':op']],
     'norm': [[':X-of', ':Y']], 'reifs': [[':X', 'x-01', ':ARG1', ':ARG2'], [':R', 'r-91', ':ARG0', ':ARG1']]},
    {'roles': [['lit', ':ARG0'], ['lit', ':ARG1'], ['lit', ':ARG2'], ['lit', ':R'], ['lit', ':mod'], ['lit', ':foo']],
     'norm': [], 'reifs': [[':mod', 'have-mod-91', ':ARG1', ':ARG2'], [':foo', 'foo-01', ':ARG0', ':ARG2'],
                           [':R', 'r-91', ':ARG1', ':ARG0']], 'topRole': ':top', 'topVariable': 't'},
    {'roles': [['lit', ':X'], ['lit', ':X-of'], ['lit', ':a'], ['lit', ':b']],     # X / X-of collision: not ModelWf
     'norm': [[':a', ':b'], [':b', ':c']], 'reifs': []},
    {'noop': True, 'roles': [['lit', ':ARG0'], ['lit', ':consist-of']], 'norm': [[':mod-of', ':domain']], 'reifs': []},
    # normalisation keys that the role table itself defines (a still-accepted alias, a defined -of role)
    {'roles': [['lit', ':poss'], ['lit', ':possessor'], ['lit', ':part-of'], ['lit', ':ARG1'], ['digit', ':ARG']],
     'norm': [[':possessor', ':poss'], [':part-of', ':ARG1']], 'reifs': [[':poss', 'own-01', ':ARG1', ':ARG0']]},
]


def focus_on_model(rng, spec):
    """half of the time a custom model is in play, the next roles are drawn from ITS role table,
    normalisations and reifications (with the usual '-of' suffixes added by role())"""
    if isinstance(spec, dict) and maybe(rng, 0.5):
        own = [r for _, r in spec.get('roles', [])]
        own = [r + '1' if kind != 'lit' else r for (kind, _), r in zip(spec.get('roles', []), own)]
        for row in spec.get('norm', []):
            own += list(row)
        own += [row[0] for row in spec.get('reifs', [])]
        own = [r for r in own if isinstance(r, str) and r.startswith(':')]
        if own:
            rng._role_focus = [own, rng.randint(8, 40)]
    return spec


def gen_model(rng, custom=True):
    k = rng.random()
    if k < 0.3:
        return 'default'
    if k < 0.65 or not custom:
        return 'amr'
    if k < 0.78:
        return 'noop'
    return focus_on_model(rng, rng.choice(CUSTOM_MODELS))


def model_roles(spec):
    """roles worth probing for a model: its defined roles and neighbours"""
    m = py_model(spec)
    out = [':instance', ':TOP', m.top_role, m.concept_role]
    for p in list(m.roles)[:60]:
        base = p.replace('[0-9]+', '12').replace('[0-9]', '3')
        out += [base, p.replace('[0-9]+', '').replace('[0-9]', ''), base + '4']
    for k, v in m.normalizations.items():
        out += [k, v]
    return out


def gen_role_probe(rng, spec):
    defined = model_roles(spec)
    pool = defined + [r + rng.choice(['abc', '-on', '-if', 'xof', '123']) for r in defined[:12] if isinstance(r, str)] + ROLES_PLAIN + ['', 'ARG0', 'mod', '/', ':a-of-b', ':of', ':-of', '-of', ':x\n', ':ARG0\n',
                                               ':op', ':op1x', ':ARG', ':ARG12', ':é', 'consist-of', ':mod~1']
    r = rng.choice(pool)
    r += '-of' * rng.choice([0, 0, 1, 1, 2, 3, 4])
    if maybe(rng, 0.03):
        r = r[1:]
    return r


# ---------------------------------------------------------------- graphs

def decode_graph(rng, model_spec='default', wf=True):
    t = gen_tree(rng, wf=wf)
    tree = penman.Tree(t, metadata=gen_metadata(rng) if maybe(rng, 0.2) else {})
    try:
        return layout.interpret(tree, py_model(model_spec))
    except Exception:  # noqa: BLE001
        return None


NUM_KIND = None


def handbuilt_graph(rng, connected=True, nvars=None):
    """triples without any markers, random order"""
    n = nvars or rng.randint(1, 6)
    # ONE kind of number per graph (and per group of graphs that meet in one operation: NUM_KIND):
    # 0 == 0.0 and 10 == 10.0 (and hash alike) in Python, so a graph holding both spellings of one
    # number under one source and role is outside the model (finding M3)
    kind = NUM_KIND or rng.choice(['int', 'float'])
    zero = 0 if kind == 'int' else 0.0
    vs = rng.sample(VARS + ['k', 'm', 'n'], n)
    triples = []
    for v in vs:
        if maybe(rng, 0.9):
            c = rng.choice(CONCEPTS + [None, None, ''])
            triples.append((v, ':instance', c))
    # spanning structure
    if connected:
        for i in range(1, n):
            j = rng.randrange(i)
            s, t = (vs[j], vs[i]) if maybe(rng, 0.6) else (vs[i], vs[j])
            triples.append((s, role(rng, invert=maybe(rng, 0.15)), t))
    for v in vs:
        if v in TOP_DECL and maybe(rng, 0.7):
            triples.append((v, TOP_DECL[v], rng.choice(vs + ['7'])))
    for _ in range(rng.choice([0, 0, 1, 2, 3])):
        s = rng.choice(vs)
        k = rng.random()
        if k < 0.4:
            triples.append((s, role(rng, invert=maybe(rng, 0.15)), rng.choice(vs)))
        else:
            # 0 and 0.0 compare (and hash) equal in Python: a graph holding both is outside the model
            tgt = rng.choice(CONSTS + [None, zero, -3, 2.5, 7])
            r_ = role(rng, invert=maybe(rng, 0.1))
            if maybe(rng, 0.12):
                # one role, == constants of different type/sign in different graphs (never within one)
                r_, tgt = ':value', (rng.choice([1, 10]) if kind == 'int' else rng.choice([1.0, 10.0]))
            triples.append((s, r_, tgt))
    if maybe(rng, 0.7):
        rng.shuffle(triples)
    # distinct triples
    seen, out = set(), []
    for t in triples:
        key = (t[0], t[1], repr(t[2]))
        if key not in seen or maybe(rng, 0.03):
            seen.add(key)
            out.append(t)
    top = rng.choice(vs) if maybe(rng, 0.4) else None
    return Graph(out, top=top)


def corrupt_markers(rng, g):
    """an edit history on the Push/POP assignment and the triple order"""
    g = Graph(list(g.triples), top=g._top, epidata={k: list(v) for k, v in g.epidata.items()}, metadata=g.metadata)
    vs = sorted(g.variables())
    for _ in range(rng.choice([1, 1, 2, 3, 5])):
        if not g.triples:
            break
        k = rng.random()
        t = rng.choice(g.triples)
        if k < 0.2:
            g.epidata[t] = [e for e in g.epidata.get(t, []) if not isinstance(e, layout.LayoutMarker)]
        elif k < 0.4:
            g.epidata.setdefault(t, []).append(layout.Push(rng.choice(vs)))
        elif k < 0.55:
            g.epidata.setdefault(t, []).insert(0, layout.Push(rng.choice([t[0], t[2]] if isinstance(t[2], str) else [t[0]])))
        elif k < 0.7:
            for _ in range(rng.randint(1, 3)):
                g.epidata.setdefault(t, []).append(layout.POP)
        elif k < 0.8:
            u = rng.choice(g.triples)
            g.epidata[t], g.epidata[u] = g.epidata.get(u, []), g.epidata.get(t, [])
        elif k < 0.9:
            rng.shuffle(g.triples)
        elif k < 0.93:
            g.triples.remove(t)
        elif k < 0.945:
            # a second alignment marker of the same kind on one triple (the last one is reported, both are written)
            from penman import surface as _sf
            cls = rng.choice([_sf.Alignment, _sf.RoleAlignment])
            g.epidata.setdefault(t, []).insert(rng.randrange(len(g.epidata.get(t, [])) + 1),
                                               cls((rng.randint(1, 9),), prefix=rng.choice([None, 'e.'])))
            g.epidata[t].append(cls((rng.randint(1, 9),), prefix=rng.choice([None, 'e.'])))
        elif k < 0.96:
            # a second node context for an already pushed variable, followed by further markers
            pushed = [(u, e) for u in g.triples for e in g.epidata.get(u, []) if isinstance(e, layout.Push)]
            if pushed:
                u, e = rng.choice(pushed)
                cands = [w for w in g.triples if e.variable in (w[0], w[2])]
                w = rng.choice(cands) if cands else t
                g.epidata.setdefault(w, []).extend([layout.Push(e.variable)] + [layout.POP] * rng.randint(0, 2)
                                                   + ([layout.Push(w[0])] if maybe(rng, 0.3) else []))
        else:
            s = rng.choice(vs)
            g.triples.insert(rng.randrange(len(g.triples) + 1), (s, role(rng), rng.choice(vs + CONSTS)))
    return g


def gen_graph(rng, model_spec='default', mode=None):
    mode = mode or rng.choice(['decoded', 'decoded', 'hand', 'corrupt', 'corrupt', 'hand-disc', 'illformed'])
    focus_on_model(rng, model_spec)
    g = None
    if mode in ('decoded', 'corrupt'):
        g = decode_graph(rng, model_spec)
        if g is not None and mode == 'corrupt':
            g = corrupt_markers(rng, g)
    elif mode == 'illformed':
        g = decode_graph(rng, model_spec, wf=False)
    if g is None:
        g = handbuilt_graph(rng, connected=(mode != 'hand-disc'))
        if maybe(rng, 0.2):
            g = corrupt_markers(rng, g)
    return g


def pick_top(rng, g):
    vs = sorted(g.variables())
    k = rng.random()
    if k < 0.5 or not vs:
        return None
    if k < 0.93:
        return rng.choice(vs)
    consts = [t[2] for t in g.triples if isinstance(t[2], str) and t[2] not in vs]
    if consts and k < 0.97:
        return rng.choice(consts)     # a constant target (or a concept) is not a variable
    return rng.choice(['zz', '7', ''])


# ---------------------------------------------------------------- misc

KEYS = [None, ['original'], ['alphanumeric'], ['canonical'], ['invertedLast'], ['canonical', 'alphanumeric'],
        ['invertedLast', 'alphanumeric'], []]

FMTS = [['pre', 'j'], ['pre', 'i'], [['lit', 'v'], 'i'], ['pre', ['lit', '_'], 'i'], ['pre', 'i', 'j'], [['lit', 'x{'], 'j'],
        ['j', 'pre'], ['pre'], [['lit', 'x']], ['i']]


def gen_constant_string(rng):
    parts = ['"', '\\', 'a', 'é', '\n', '\t', '\x00', '\x7f', ' ', ' ', '(', ')', '~', ':', '/', '#', '😀', '\x1f', 'u', '0',
             '\x08', '\x0c', '\r', '\x0b', 'b', 'f', 'n']
    n = rng.randint(0, 8)
    return ''.join(rng.choice(parts) for _ in range(n))


def gen_atom_text(rng):
    parts = ['0', '1', '9', '-', '+', '.', 'e', 'E', '"', 'a', 'n', 'u', 'l', 't', 'r', 'N', 'I', '\\', '[', ']', '{', '}', '01', '00', '-0', '007', '0x1', '1_0',
             ':', ',', ' ', 'true', 'null', 'NaN', 'Infinity', '\\u00e9', '\\n', '1.5', '-0', '1e5', '[1]', '{"a":1}']
    n = rng.randint(0, 6)
    return ''.join(rng.choice(parts) for _ in range(n))

/-
  Penman.Proofs.FramingInline — property C09: two serialised graphs on the same line
  (separated by blanks or by nothing).  A line that ends in `)` and whose tokens contain
  neither COMMENT nor UNEXPECTED is lexed the same way whatever follows it.
-/
import Penman.Proofs.Framing
namespace Penman.Framing
open Penman

/-! ### conditions on the tables and on the alternation order -/

/-- `)` ends ROLE / SYMBOL / ALIGNMENT matches; `"` cannot start a SYMBOL and is not skipped -/
def ParenStop (cfg : LexCfg) : Prop :=
  ')' ∈ cfg.roleExcl ∧ ')' ∈ cfg.symExcl ∧ inRanges cfg.alnDigit ')' = false ∧
  inRanges cfg.alnPrefix ')' = false ∧ '"' ∈ cfg.symExcl ∧ '"' ∉ cfg.blank

instance (cfg : LexCfg) : Decidable (ParenStop cfg) := by unfold ParenStop; infer_instance

/-- the alternation tries COMMENT, then STRING, first, and has the catch-all UNEXPECTED -/
def OrderOk (order : List TokTy) : Prop :=
  ∃ rest, order = .COMMENT :: .STRING :: rest ∧ .COMMENT ∉ rest ∧ .STRING ∉ rest ∧
    .UNEXPECTED ∈ rest

instance (order : List TokTy) : Decidable (OrderOk order) :=
  match order with
  | .COMMENT :: .STRING :: rest =>
    if h : .COMMENT ∉ rest ∧ .STRING ∉ rest ∧ .UNEXPECTED ∈ rest then
      isTrue ⟨rest, rfl, h⟩
    else isFalse (by rintro ⟨r, hr, h'⟩; cases hr; exact h h')
  | [] => isFalse (by rintro ⟨r, hr, _⟩; cases hr)
  | [_] => isFalse (by rintro ⟨r, hr, _⟩; cases hr)
  | .STRING :: _ :: _ => isFalse (by rintro ⟨r, hr, _⟩; cases hr)
  | .LPAREN :: _ :: _ => isFalse (by rintro ⟨r, hr, _⟩; cases hr)
  | .RPAREN :: _ :: _ => isFalse (by rintro ⟨r, hr, _⟩; cases hr)
  | .SLASH :: _ :: _ => isFalse (by rintro ⟨r, hr, _⟩; cases hr)
  | .ROLE :: _ :: _ => isFalse (by rintro ⟨r, hr, _⟩; cases hr)
  | .SYMBOL :: _ :: _ => isFalse (by rintro ⟨r, hr, _⟩; cases hr)
  | .ALIGNMENT :: _ :: _ => isFalse (by rintro ⟨r, hr, _⟩; cases hr)
  | .UNEXPECTED :: _ :: _ => isFalse (by rintro ⟨r, hr, _⟩; cases hr)
  | .COMMENT :: .COMMENT :: _ => isFalse (by rintro ⟨r, hr, _⟩; cases hr)
  | .COMMENT :: .LPAREN :: _ => isFalse (by rintro ⟨r, hr, _⟩; cases hr)
  | .COMMENT :: .RPAREN :: _ => isFalse (by rintro ⟨r, hr, _⟩; cases hr)
  | .COMMENT :: .SLASH :: _ => isFalse (by rintro ⟨r, hr, _⟩; cases hr)
  | .COMMENT :: .ROLE :: _ => isFalse (by rintro ⟨r, hr, _⟩; cases hr)
  | .COMMENT :: .SYMBOL :: _ => isFalse (by rintro ⟨r, hr, _⟩; cases hr)
  | .COMMENT :: .ALIGNMENT :: _ => isFalse (by rintro ⟨r, hr, _⟩; cases hr)
  | .COMMENT :: .UNEXPECTED :: _ => isFalse (by rintro ⟨r, hr, _⟩; cases hr)

/-! ### scanners on `s0 ++ ")" ++ u` -/

/-- every scanner but COMMENT and STRING gives the same match on `s0 ++ ")"` whatever follows -/
theorem scanTy_paren (cfg : LexCfg) (hp : ParenStop cfg) (ty : TokTy) (h1 : ty ≠ .COMMENT)
    (h2 : ty ≠ .STRING) (s0 u : Str) :
    scanTy cfg ty (s0 ++ ')' :: u) = scanTy cfg ty (s0 ++ [')']) := by
  obtain ⟨p1, p2, p3, p4, _, _⟩ := hp
  cases ty <;> simp only [scanTy]
  · exact absurd rfl h1
  · exact absurd rfl h2
  · rw [scanChar_append _ s0 ')' u (by decide), scanChar_append _ s0 ')' [] (by decide)]
  · cases s0 <;> simp [scanChar]
  · rw [scanChar_append _ s0 ')' u (by decide), scanChar_append _ s0 ')' [] (by decide)]
  · rw [scanRole_append _ s0 ')' u p1 (by decide), scanRole_append _ s0 ')' [] p1 (by decide)]
  · rw [scanSymbol_append _ s0 ')' u p2, scanSymbol_append _ s0 ')' [] p2]
  · rw [scanAlignment_append cfg ')' u p3 p4 (by decide) (by decide) (by decide) s0,
      scanAlignment_append cfg ')' [] p3 p4 (by decide) (by decide) (by decide) s0]
  · cases s0 <;> simp [scanUnexpected]

theorem firstMatch_stable (cfg : LexCfg) (tys : List TokTy) (s u : Str)
    (h : ∀ ty ∈ tys, scanTy cfg ty (s ++ u) = scanTy cfg ty s) :
    firstMatch cfg tys (s ++ u) = firstMatch cfg tys s := by
  induction tys with
  | nil => rfl
  | cons ty tys ih =>
    simp only [firstMatch, h ty (by simp)]
    rw [ih (fun t ht => h t (by simp [ht]))]

theorem firstMatch_ne_none (cfg : LexCfg) (tys : List TokTy) (s m : Str) (ty : TokTy)
    (hty : ty ∈ tys) (h : scanTy cfg ty s = some m) : firstMatch cfg tys s ≠ none := by
  induction tys with
  | nil => simp at hty
  | cons t ts ih =>
    simp only [firstMatch]
    cases ht : scanTy cfg t s with
    | some m' => simp
    | none =>
      simp only
      rcases List.mem_cons.1 hty with rfl | h'
      · rw [h] at ht; cases ht
      · exact ih h'

theorem firstMatch_mem (cfg : LexCfg) (tys : List TokTy) (s m : Str) (ty : TokTy)
    (h : firstMatch cfg tys s = some (ty, m)) : ty ∈ tys ∧ scanTy cfg ty s = some m := by
  induction tys with
  | nil => simp [firstMatch] at h
  | cons t ts ih =>
    simp only [firstMatch] at h
    cases ht : scanTy cfg t s with
    | some m' => rw [ht] at h; simp only [Option.some.injEq, Prod.mk.injEq] at h
                 obtain ⟨rfl, rfl⟩ := h; exact ⟨by simp, ht⟩
    | none => rw [ht] at h; have := ih h; exact ⟨by simp [this.1], this.2⟩

/-- at a double quote whose STRING does not close, the first match of the remaining
    alternatives is UNEXPECTED -/
theorem firstMatch_quote (cfg : LexCfg) (hp : ParenStop cfg) (rest : List TokTy)
    (h1 : .COMMENT ∉ rest) (h2 : .STRING ∉ rest) (h3 : .UNEXPECTED ∈ rest) (cs : Str) :
    ∃ m, firstMatch cfg rest ('"' :: cs) = some (.UNEXPECTED, m) := by
  obtain ⟨_, _, _, _, q1, q2⟩ := hp
  have hu : scanTy cfg .UNEXPECTED ('"' :: cs) = some ['"'] := by
    simp [scanTy, scanUnexpected, q2]
  cases hf : firstMatch cfg rest ('"' :: cs) with
  | none => exact absurd hf (firstMatch_ne_none cfg rest _ _ _ h3 hu)
  | some p =>
    obtain ⟨ty, m⟩ := p
    obtain ⟨hmem, hs⟩ := firstMatch_mem cfg rest _ m ty hf
    cases ty
    · exact absurd hmem h1
    · exact absurd hmem h2
    · simp [scanTy, scanChar] at hs
    · simp [scanTy, scanChar] at hs
    · simp [scanTy, scanChar] at hs
    · simp [scanTy, scanRole] at hs
    · simp [scanTy, scanSymbol, spanP, q1] at hs
    · simp [scanTy, scanAlignment] at hs
    · exact ⟨m, rfl⟩

/-- the match at the start of `s = s0 ++ ")"` does not depend on what follows, unless it is
    a COMMENT or an UNEXPECTED -/
theorem firstMatch_paren (cfg : LexCfg) (hp : ParenStop cfg) (order : List TokTy)
    (ho : OrderOk order) (s0 u : Str) (hs : NoLF (s0 ++ [')']))
    (hbad : ∀ m, firstMatch cfg order (s0 ++ [')']) ≠ some (.COMMENT, m) ∧
      firstMatch cfg order (s0 ++ [')']) ≠ some (.UNEXPECTED, m)) :
    firstMatch cfg order (s0 ++ ')' :: u) = firstMatch cfg order (s0 ++ [')']) := by
  obtain ⟨rest, rfl, h1, h2, h3⟩ := ho
  have e : s0 ++ ')' :: u = (s0 ++ [')']) ++ u := by simp
  have hrest : firstMatch cfg rest (s0 ++ ')' :: u) = firstMatch cfg rest (s0 ++ [')']) := by
    rw [e]
    apply firstMatch_stable
    intro ty hty
    rw [← e]
    exact scanTy_paren cfg hp ty (fun h => h1 (h ▸ hty)) (fun h => h2 (h ▸ hty)) s0 u
  -- COMMENT
  have hc : scanComment (s0 ++ [')']) = none := by
    cases hsc : scanComment (s0 ++ [')']) with
    | none => rfl
    | some m => exact absurd (by simp [firstMatch, scanTy, hsc]) (hbad m).1
  have hhash : (s0 ++ [')']).head? ≠ some '#' := by
    intro hh
    cases h0 : s0 ++ [')'] with
    | nil => rw [h0] at hh; simp at hh
    | cons c cs =>
      rw [h0] at hh hs hc
      simp at hh; subst hh
      rw [scanComment_noLF cs hs.tail] at hc; cases hc
  have hc' : scanComment (s0 ++ ')' :: u) = none := by
    apply scanComment_not_hash
    cases s0 with
    | nil => simp
    | cons c cs => simpa using hhash
  simp only [firstMatch, scanTy, hc, hc']
  -- STRING
  cases hst : scanString cfg.strExcl (s0 ++ [')']) with
  | some m =>
    have : scanString cfg.strExcl (s0 ++ ')' :: u) = some m := by
      rw [e]
      unfold scanString at hst ⊢
      cases h0 : s0 ++ [')'] with
      | nil => rw [h0] at hst; simp at hst
      | cons c cs =>
        rw [h0] at hst
        simp only [List.cons_append]
        split at hst
        · rename_i r heq
          cases heq
          simp only [Option.map_eq_some_iff] at hst
          obtain ⟨b, hb, rfl⟩ := hst
          simp only
          rw [scanStringBody_append_some _ u _ _ _ hb _ (by simp)]
          rfl
        · cases hst
    simp [this]
  | none =>
    simp only
    by_cases hq : (s0 ++ [')']).head? = some '"'
    · exfalso
      cases h0 : s0 ++ [')'] with
      | nil => rw [h0] at hq; simp at hq
      | cons c cs =>
        rw [h0] at hq hst hbad
        simp at hq; subst hq
        obtain ⟨m, hm⟩ := firstMatch_quote cfg hp rest h1 h2 h3 cs
        refine (hbad m).2 ?_
        have hcq : scanComment ('"' :: cs) = none := scanComment_not_hash _ (by simp)
        simp [firstMatch, scanTy, hcq, hst, hm]
    · have : scanString cfg.strExcl (s0 ++ ')' :: u) = none := by
        unfold scanString
        split
        · rename_i r heq
          cases s0 with
          | nil => simp at heq
          | cons c cs => simp at heq hq; exact absurd heq.1 hq
        · rfl
      simp only [this]
      exact hrest

/-! ### `lexAux` on a closed line followed by anything -/

theorem lexAux_fuel (cfg : LexCfg) (order : List TokTy) (n : Nat) : ∀ (f f' : Nat) (s : Str) (off : Nat),
    s.length ≤ f → s.length ≤ f' → lexAux cfg order n f off s = lexAux cfg order n f' off s := by
  intro f
  induction f with
  | zero =>
    intro f' s off h _
    have : s = [] := List.eq_nil_of_length_eq_zero (by omega)
    subst this
    simp [lexAux_nil]
  | succ f ih =>
    intro f' s off h h'
    cases s with
    | nil => simp [lexAux_nil]
    | cons c cs =>
      obtain ⟨g, rfl⟩ : ∃ g, f' = g + 1 := ⟨f' - 1, by simp at h'; omega⟩
      simp only [List.length_cons] at h h'
      simp only [lexAux]
      cases hm : firstMatch cfg order (c :: cs) with
      | none => exact ih g cs _ (by omega) (by omega)
      | some p =>
        obtain ⟨ty, m⟩ := p
        simp only
        split
        · exact ih g cs _ (by omega) (by omega)
        · rename_i hne
          have hm1 : 1 ≤ m.length := by
            cases m with
            | nil => simp at hne
            | cons _ _ => simp
          congr 1
          apply ih
          · simp only [List.length_drop, List.length_cons]; omega
          · simp only [List.length_drop, List.length_cons]; omega

theorem getLast?_drop {s : Str} {k : Nat} (h : s.drop k ≠ []) : (s.drop k).getLast? = s.getLast? := by
  induction k generalizing s with
  | zero => simp
  | succ k ih =>
    cases s with
    | nil => simp at h
    | cons c cs =>
      simp only [List.drop_succ_cons] at h ⊢
      rw [ih h]
      cases cs with
      | nil => simp at h
      | cons d ds => simp [List.getLast?_cons_cons]

theorem exists_concat_of_getLast? {s : Str} {c : Char} (h : s.getLast? = some c) :
    ∃ s0, s = s0 ++ [c] := by
  rcases List.eq_nil_or_concat s with rfl | ⟨init, last, rfl⟩
  · simp at h
  · simp at h; subst h; exact ⟨init, by simp⟩

/-- a line suffix that ends in `)` and whose tokens are neither COMMENT nor UNEXPECTED is
    lexed independently of what follows on the line -/
theorem lexAux_closed (cfg : LexCfg) (hp : ParenStop cfg) (order : List TokTy) (ho : OrderOk order)
    (n : Nat) (u : Str) : ∀ (f : Nat) (s : Str) (off : Nat), s.getLast? = some ')' → NoLF s →
    s.length ≤ f →
    (∀ t ∈ lexAux cfg order n f off s, t.ty ≠ .COMMENT ∧ t.ty ≠ .UNEXPECTED) →
    ∀ f', s.length + u.length ≤ f' →
    lexAux cfg order n f' off (s ++ u) =
      lexAux cfg order n f off s ++ lexAux cfg order n u.length (off + s.length) u := by
  intro f
  induction f with
  | zero =>
    intro s off hl _ hf
    have : s = [] := List.eq_nil_of_length_eq_zero (by omega)
    subst this; simp at hl
  | succ f ih =>
    intro s off hl hs hf htok f' hf'
    cases s with
    | nil => simp at hl
    | cons c cs =>
      obtain ⟨g, rfl⟩ : ∃ g, f' = g + 1 := ⟨f' - 1, by simp at hf'; omega⟩
      simp only [List.length_cons] at hf hf'
      obtain ⟨s0, hs0⟩ : ∃ s0, c :: cs = s0 ++ [')'] := exists_concat_of_getLast? hl
      have hstep : ∀ cs' : Str, cs' = cs → ∀ off', off' = off + 1 → ∀ g0 g0', g0 = f → g0' = g →
          (∀ t ∈ lexAux cfg order n g0 off' cs', t.ty ≠ .COMMENT ∧ t.ty ≠ .UNEXPECTED) →
          lexAux cfg order n g0' off' (cs' ++ u) =
            lexAux cfg order n g0 off' cs' ++
              lexAux cfg order n u.length (off + (cs.length + 1)) u := by
        intro cs' e1 off' e2 g0 g0' e3 e4 ht
        subst e1 e2 e3 e4
        cases cs' with
        | nil =>
          simp only [List.nil_append, lexAux_nil, List.length_nil, Nat.zero_add]
          exact lexAux_fuel cfg order n _ _ u _ (by omega) (Nat.le_refl _)
        | cons d ds =>
          have hl' : (d :: ds).getLast? = some ')' := by
            rw [List.getLast?_cons_cons] at hl; exact hl
          have := ih (d :: ds) (off + 1) hl' hs.tail (by simpa using hf) ht g0'
            (by simp only [List.length_cons] at hf' ⊢; omega)
          rw [this]
          simp only [List.length_cons]
          congr 2
          omega
      simp only [List.cons_append, lexAux] at htok ⊢
      have hfm : firstMatch cfg order (c :: (cs ++ u)) = firstMatch cfg order (c :: cs) := by
        have e : c :: (cs ++ u) = s0 ++ ')' :: u := by
          rw [← List.cons_append, hs0]; simp
        rw [e, hs0]
        apply firstMatch_paren cfg hp order ho s0 u (by rw [← hs0]; exact hs)
        intro m
        rw [← hs0]
        constructor
        · intro hh
          rw [hh] at htok
          simp only at htok
          split at htok
          · have := firstMatch_comment_all cfg order (c :: cs) m hs hh
            subst this
            rename_i he; simp at he
          · exact (htok ⟨.COMMENT, m, n, off⟩ (by simp)).1 rfl
        · intro hh
          rw [hh] at htok
          have hpre := (firstMatch_mem cfg order _ m _ hh).2
          simp only at htok
          split at htok
          · rename_i he
            simp only [scanTy, scanUnexpected] at hpre
            split at hpre <;> cases hpre
            simp at he
          · exact (htok ⟨.UNEXPECTED, m, n, off⟩ (by simp)).2 rfl
      rw [hfm]
      cases hm : firstMatch cfg order (c :: cs) with
      | none =>
        rw [hm] at htok
        exact hstep cs rfl _ rfl f g rfl rfl htok
      | some p =>
        obtain ⟨ty, m⟩ := p
        rw [hm] at htok
        simp only at htok ⊢
        split
        · rename_i he
          simp only [he, ↓reduceIte] at htok
          exact hstep cs rfl _ rfl f g rfl rfl htok
        · rename_i hne
          simp only [hne] at htok
          have hpre := firstMatch_prefix hm
          have hml : m.length ≤ cs.length + 1 := by simpa using hpre.length_le
          have hm1 : 1 ≤ m.length := by
            cases m with
            | nil => simp at hne
            | cons _ _ => simp
          have e1 : List.drop m.length (c :: (cs ++ u)) = List.drop m.length (c :: cs) ++ u := by
            rw [← List.cons_append, List.drop_append_of_le_length (by simpa using hml)]
          rw [e1]
          simp only [List.cons_append]
          congr 1
          have htok' : ∀ t ∈ lexAux cfg order n f (off + m.length) (List.drop m.length (c :: cs)),
              t.ty ≠ .COMMENT ∧ t.ty ≠ .UNEXPECTED := fun t ht => htok t (by simp [ht])
          cases hd : List.drop m.length (c :: cs) with
          | nil =>
            have hlen : m.length = cs.length + 1 := by
              have := congrArg List.length hd
              simp only [List.length_drop, List.length_cons, List.length_nil] at this
              omega
            simp only [List.nil_append, lexAux_nil, hlen]
            exact lexAux_fuel cfg order n _ _ u _ (by omega) (Nat.le_refl _)
          | cons d ds =>
            have hne' : List.drop m.length (c :: cs) ≠ [] := by rw [hd]; simp
            have hl' : (d :: ds).getLast? = some ')' := by
              rw [← hd, getLast?_drop hne']; exact hl
            have hdl : (d :: ds).length = cs.length + 1 - m.length := by
              rw [← hd]; simp
            rw [hd] at htok'
            have := ih (d :: ds) (off + m.length) hl' (by rw [← hd]; exact hs.drop _)
              (by omega) htok' g (by omega)
            rw [this]
            congr 2
            simp only [List.length_cons] at hdl ⊢
            omega

/-- a closed line: ends in `)`, no LF, and no COMMENT or UNEXPECTED among its tokens -/
def ClosedLine (cfg : LexCfg) (order : List TokTy) (l : Str) : Prop :=
  l.getLast? = some ')' ∧ NoLF l ∧
  ∀ t ∈ lexLine cfg order 1 l, t.ty ≠ .COMMENT ∧ t.ty ≠ .UNEXPECTED

instance (cfg : LexCfg) (order : List TokTy) (l : Str) : Decidable (ClosedLine cfg order l) := by
  unfold ClosedLine; infer_instance

/-! ### separators followed by anything; positions -/

theorem scanTy_sep_head (cfg : LexCfg) (ty : TokTy) (c : Char) (rest : Str) (h : SepChar cfg c) :
    scanTy cfg ty (c :: rest) = none := by
  obtain ⟨a1, a2, a3, a4, a5, a6, a7, a8, a9⟩ := h.not_special
  obtain ⟨b1, b2, b3, b4, b5, _⟩ := h
  cases ty <;> simp only [scanTy]
  · exact scanComment_not_hash _ (by simpa using a1)
  · unfold scanString; split
    · rename_i heq; cases heq; exact absurd rfl a2
    · rfl
  · simp [scanChar, a3]
  · simp [scanChar, a4]
  · simp [scanChar, a5]
  · unfold scanRole; split
    · rename_i heq; cases heq; exact absurd rfl a6
    · rfl
  · simp [scanSymbol, spanP, b3]
  · exact scanAlignment_not_tilde _ _ (by simpa using a7)
  · simp [scanUnexpected, b1]

theorem firstMatch_sep_head (cfg : LexCfg) (order : List TokTy) (c : Char) (rest : Str)
    (h : SepChar cfg c) : firstMatch cfg order (c :: rest) = none := by
  induction order with
  | nil => rfl
  | cons ty tys ih => simp [firstMatch, scanTy_sep_head cfg ty c rest h, ih]

theorem lexAux_skip_seps (cfg : LexCfg) (order : List TokTy) (n : Nat) (v : Str) :
    ∀ (sp : Str), (∀ c ∈ sp, SepChar cfg c) → ∀ (f off : Nat), sp.length + v.length ≤ f →
    lexAux cfg order n f off (sp ++ v) = lexAux cfg order n v.length (off + sp.length) v := by
  intro sp
  induction sp with
  | nil => intro _ f off hf; simpa using lexAux_fuel cfg order n f _ v off (by simpa using hf) (Nat.le_refl _)
  | cons c cs ih =>
    intro h f off hf
    obtain ⟨g, rfl⟩ : ∃ g, f = g + 1 := ⟨f - 1, by simp at hf; omega⟩
    simp only [List.cons_append, lexAux, firstMatch_sep_head cfg order c _ (h c (by simp))]
    rw [ih (fun d hd => h d (by simp [hd])) g (off + 1) (by simp at hf; omega)]
    simp only [List.length_cons]
    congr 1
    omega

/-- line number and starting offset are invisible to a successful parse -/
theorem lsim_lexAux (isSpace : Char → Bool) (cfg : LexCfg) (order : List TokTy) (n n' : Nat) :
    ∀ (f : Nat) (s : Str) (off off' : Nat),
    LSim isSpace [] (lexAux cfg order n f off s) (lexAux cfg order n' f off' s) := by
  intro f
  induction f with
  | zero => intro s off off'; simp only [lexAux]; exact .nil
  | succ f ih =>
    intro s off off'
    cases s with
    | nil => simp only [lexAux]; exact .nil
    | cons c cs =>
      simp only [lexAux]
      cases firstMatch cfg order (c :: cs) with
      | none => exact ih _ _ _
      | some p =>
        obtain ⟨ty, m⟩ := p
        simp only
        split
        · exact ih _ _ _
        · exact .cons ⟨rfl, fun _ => rfl, fun _ _ => rfl⟩ (ih _ _ _)

theorem lexAux_types (cfg : LexCfg) (order : List TokTy) (n n' : Nat) (f off : Nat) (s : Str)
    (P : TokTy → Prop) (h : ∀ t ∈ lexAux cfg order n' f off s, P t.ty) :
    ∀ t ∈ lexAux cfg order n f off s, P t.ty := by
  rw [lexAux_lineno cfg order n n']
  intro t ht
  simp only [List.mem_map] at ht
  obtain ⟨t', ht', rfl⟩ := ht
  exact h t' ht'

/-- a closed line, separators, then any text on the same line: up to positions, the tokens
    of the closed line followed by the tokens of the text -/
theorem lsim_closed_line (isSpace : Char → Bool) (cfg : LexCfg) (hp : ParenStop cfg)
    (order : List TokTy) (ho : OrderOk order) (la sp fb : Str) (hla : ClosedLine cfg order la)
    (hsp : ∀ c ∈ sp, SepChar cfg c) (n n1 n2 : Nat) :
    LSim isSpace [] (lexLine cfg order n (la ++ (sp ++ fb)))
      (lexLine cfg order n1 la ++ lexLine cfg order n2 fb) := by
  obtain ⟨h1, h2, h3⟩ := hla
  unfold lexLine at h3 ⊢
  have htok : ∀ t ∈ lexAux cfg order n (la.length + 1) 0 la,
      t.ty ≠ .COMMENT ∧ t.ty ≠ .UNEXPECTED :=
    lexAux_types cfg order n 1 _ 0 la (fun ty => ty ≠ .COMMENT ∧ ty ≠ .UNEXPECTED) h3
  rw [lexAux_closed cfg hp order ho n (sp ++ fb) (la.length + 1) la 0 h1 h2 (by omega) htok _
    (by simp), lexAux_skip_seps cfg order n fb sp hsp _ _ (by simp)]
  refine LSim.append (lsim_lexAux isSpace cfg order n n1 _ la 0 0) ?_
  rw [lexAux_fuel cfg order n fb.length (fb.length + 1) fb _ (Nat.le_refl _) (by omega)]
  exact lsim_lexAux isSpace cfg order n n2 _ fb _ 0

/-! ### gluing the last line of one text to the first line of the next -/

/-- the lines of `a ++ b` from the lines of `a` and of `b` -/
def glue : List Str → List Str → List Str
  | [], B => B
  | [x], B => match B with | [] => [x] | y :: B' => (x ++ y) :: B'
  | x :: x' :: A, B => x :: glue (x' :: A) B

theorem glue_cons (x : Str) (A B : List Str) (h : A ≠ []) : glue (x :: A) B = x :: glue A B := by
  cases A with
  | nil => exact absurd rfl h
  | cons x' A' => rfl

theorem glue_concat : ∀ (ia : List Str) (la fb : Str) (tb : List Str),
    glue (ia ++ [la]) (fb :: tb) = ia ++ (la ++ fb) :: tb
  | [], la, fb, tb => rfl
  | x :: ia, la, fb, tb => by
    rw [List.cons_append, glue_cons _ _ _ (by simp), glue_concat ia la fb tb]; rfl

theorem splitLines_append (a b : Str) (h : a.getLast? ≠ some '\r') :
    splitLines (a ++ b) = glue (splitLines a) (splitLines b) := by
  induction a using split_cases with
  | nil =>
    obtain ⟨l, ls, hb⟩ := splitLines_exists b
    simp [splitLines_nil, hb, glue]
  | crlf r ih =>
    have hr : r.getLast? ≠ some '\r' := by
      cases r with
      | nil => simp
      | cons d ds => simpa [List.getLast?_cons_cons] using h
    simp only [List.cons_append, splitLines_crlf, ih hr]
    rw [glue_cons _ _ _ (splitLines_ne_nil r)]
  | cr r hh ih =>
    cases r with
    | nil => simp at h
    | cons d ds =>
      have hr : (d :: ds).getLast? ≠ some '\r' := by simpa [List.getLast?_cons_cons] using h
      rw [List.cons_append, splitLines_cr _ (by simpa using hh), splitLines_cr _ hh, ih hr,
        glue_cons _ _ _ (splitLines_ne_nil _)]
  | lf r ih =>
    have hr : r.getLast? ≠ some '\r' := by
      cases r with
      | nil => simp
      | cons d ds => simpa [List.getLast?_cons_cons] using h
    simp only [List.cons_append, splitLines_lf, ih hr]
    rw [glue_cons _ _ _ (splitLines_ne_nil r)]
  | other c r h1 h2 ih =>
    have hr : r.getLast? ≠ some '\r' := by
      cases r with
      | nil => simp
      | cons d ds => simpa [List.getLast?_cons_cons] using h
    obtain ⟨l, ls, h'⟩ := splitLines_exists r
    obtain ⟨y, B', hb⟩ := splitLines_exists b
    have ih' := ih hr
    rw [h', hb] at ih'
    rw [List.cons_append, splitLines_other c r l ls h1 h2 h', hb]
    cases ls with
    | nil =>
      simp only [glue] at ih' ⊢
      exact splitLines_other c _ _ _ h1 h2 ih'
    | cons x' A =>
      simp only [glue] at ih' ⊢
      exact splitLines_other c _ _ _ h1 h2 ih'

theorem splitLines_noBreak_append (sp b fb : Str) (tb : List Str) (hsp : NoBreak sp)
    (hb : splitLines b = fb :: tb) : splitLines (sp ++ b) = (sp ++ fb) :: tb := by
  induction sp with
  | nil => simpa using hb
  | cons c r ih =>
    have hc := hsp c (by simp)
    have hr : NoBreak r := fun d hd => hsp d (by simp [hd])
    exact splitLines_other c _ _ _ hc.1 hc.2 (ih hr)

/-! ### texts joined on the same line -/

theorem TokSim.trans {isSpace : Char → Bool} {a b c : Tok} (h : TokSim isSpace a b)
    (h' : TokSim isSpace b c) : TokSim isSpace a c :=
  ⟨h.1.trans h'.1, fun hn => (h.2.1 hn).trans (h'.2.1 (by rw [← h.1]; exact hn)),
   fun hc md => (h.2.2 hc md).trans (h'.2.2 (by rw [← h.1]; exact hc) md)⟩

theorem LSim.trans_nil {isSpace : Char → Bool} {a b c : List Tok} (h : LSim isSpace [] a b)
    (h' : LSim isSpace [] b c) : LSim isSpace [] a c := by
  induction h generalizing c with
  | nil => exact h'
  | cons h1 _ ih =>
    obtain ⟨t'', ts'', rfl, h2, h3⟩ := h'.cons_inv
    exact .cons (h1.trans h2) (ih h3)

/-- the last line of the text is closed, and the text does not end in CR -/
def ClosedLast (cfg : LexCfg) (order : List TokTy) (x : Str) : Prop :=
  x.getLast? ≠ some '\r' ∧
  match (splitLines x).getLast? with
  | some la => ClosedLine cfg order la
  | none => False

instance (cfg : LexCfg) (order : List TokTy) (x : Str) : Decidable (ClosedLast cfg order x) := by
  unfold ClosedLast
  cases (splitLines x).getLast? <;> infer_instance

theorem ClosedLast.exists {cfg : LexCfg} {order : List TokTy} {x : Str}
    (h : ClosedLast cfg order x) :
    ∃ ia la, splitLines x = ia ++ [la] ∧ ClosedLine cfg order la := by
  obtain ⟨ia, la, hx⟩ := splitLines_concat x
  have := h.2
  rw [hx] at this
  simp only [List.getLast?_append, List.getLast?_singleton, Option.some_or] at this
  exact ⟨ia, la, hx, this⟩

/-- texts with a closed last line, joined by separators that are not line breaks (or by
    nothing): up to positions, the concatenation of their token streams -/
theorem lexJoinInline_sim (isSpace : Char → Bool) (cfg : LexCfg) (hp : ParenStop cfg)
    (order : List TokTy) (ho : OrderOk order) (sp : Str) (hsp : ∀ c ∈ sp, SepChar cfg c)
    (hnb : NoBreak sp) : ∀ (ss : List Str), (∀ x ∈ ss, ClosedLast cfg order x) → ∀ i,
    LSim isSpace [] (lexLinesFrom cfg order i (splitLines (joinStr sp ss)))
      ((ss.map (lexStr cfg order)).flatten) := by
  intro ss
  induction ss with
  | nil =>
    intro _ i
    simp only [joinStr, splitLines_nil, lexLinesFrom_nil_line, List.map_nil, List.flatten_nil]
    exact .nil
  | cons x r ih =>
    intro h i
    cases r with
    | nil =>
      simp only [joinStr, List.map_cons, List.map_nil, List.flatten_cons, List.flatten_nil,
        List.append_nil]
      exact lsim_lexLinesFrom isSpace cfg order i 1 _
    | cons y r =>
      have hx := h x (by simp)
      obtain ⟨ia, la, hxl, hcl⟩ := hx.exists
      obtain ⟨fJ, tJ, hJ⟩ := splitLines_exists (joinStr sp (y :: r))
      have e : joinStr sp (x :: y :: r) = x ++ (sp ++ joinStr sp (y :: r)) := by simp [joinStr]
      have ih' := ih (fun z hz => h z (by simp [hz]))
      rw [e, splitLines_append x _ hx.1, splitLines_noBreak_append sp _ fJ tJ hnb hJ, hxl,
        glue_concat, lexLinesFrom_append]
      simp only [lexLinesFrom, List.map_cons, List.flatten_cons]
      have hxs : lexStr cfg order x =
          lexLinesFrom cfg order 1 ia ++ lexLine cfg order (1 + ia.length) la := by
        unfold lexStr lexLines
        rw [hxl, lexLinesFrom_append]
        simp [lexLinesFrom]
      rw [hxs, List.append_assoc]
      refine LSim.append (lsim_lexLinesFrom isSpace cfg order i 1 ia) ?_
      have hrest := ih' (i + ia.length)
      rw [hJ] at hrest
      simp only [lexLinesFrom, List.map_cons, List.flatten_cons] at hrest
      have h1 := lsim_closed_line isSpace cfg hp order ho la sp fJ hcl hsp (i + ia.length)
        (1 + ia.length) (i + ia.length)
      have h2 := LSim.append h1 (LSim.refl_nil isSpace
        (lexLinesFrom cfg order (i + ia.length + 1) tJ))
      rw [List.append_assoc] at h2
      -- h2 : LSim (line ++ tailJ) (lexLine la ++ (lexLine fJ ++ tailJ)); hrest : LSim (lexLine fJ ++ tailJ) flattenRest
      exact LSim.trans_nil h2 (LSim.append (LSim.refl_nil isSpace _) hrest)

/-- texts that each parse completely and end in a closed line, joined on the same line by
    blanks or by nothing: `iterparse` returns exactly their trees, in order, without error -/
theorem iterparse_join_inline (isSpace : Char → Bool) (cfg : LexCfg) (hp : ParenStop cfg)
    (order : List TokTy) (ho : OrderOk order) (sp : Str) (hsp : ∀ c ∈ sp, SepChar cfg c)
    (hnb : NoBreak sp) (gs : List (Str × Tree))
    (hcl : ∀ p ∈ gs, ClosedLast cfg order p.1)
    (hpt : ∀ p ∈ gs, ∃ c0, parseTree c0 isSpace (lexStr cfg order p.1) = .ok (p.2, [])) :
    iterparseToks isSpace (lexStr cfg order (joinStr sp (gs.map (·.1)))) =
      (gs.map (·.2), none) := by
  have hsim := lexJoinInline_sim isSpace cfg hp order ho sp hsp hnb (gs.map (·.1))
    (by intro x hx; simp only [List.mem_map] at hx; obtain ⟨p, hp', rfl⟩ := hx; exact hcl p hp') 1
  have hcat := iterparseToks_concat isSpace (gs.map fun p => (lexStr cfg order p.1, p.2))
    (by intro q hq; simp only [List.mem_map] at hq; obtain ⟨p, hp', rfl⟩ := hq; exact hpt p hp')
  simp only [List.map_map] at hsim hcat
  have := iterparseToks_sim isSpace _ _ hsim
  exact prod_eq_of_sim this.1 this.2 (by simpa [Function.comp_def] using hcat)

end Penman.Framing

/-
  Penman.Proofs.ConstantFuel — the fuel of `scanJson`/`scanArray`/`scanObject` (C18):
  irrelevant outside containers; answers other than `.unmodelled` are stable under more fuel;
  the fuel `2 * length + 2` of `jsonLoads` always suffices (`.unmodelled` only for lone surrogates).
-/
import Penman.Proofs.ConstantSurr

namespace Penman
namespace C18

theorem scanJson_fuel_irrelevant (s : Str) (h1 : ∀ q, s ≠ '[' :: q) (h2 : ∀ q, s ≠ '{' :: q)
    (f g : Nat) : scanJson (f+1) s = scanJson (g+1) s := by
  unfold scanJson
  split
  · rfl
  · exact absurd rfl (h2 _)
  · exact absurd rfl (h1 _)
  · rfl

theorem fuel_mono (f : Nat) :
    (∀ s, scanJson f s ≠ .unmodelled → scanJson (f+1) s = scanJson f s) ∧
    (∀ s b, scanArray f s b ≠ .unmodelled → scanArray (f+1) s b = scanArray f s b) ∧
    (∀ s b, scanObject f s b ≠ .unmodelled → scanObject (f+1) s b = scanObject f s b) := by
  induction f with
  | zero =>
    refine ⟨fun s h => absurd ?_ h, fun s b h => absurd ?_ h, fun s b h => absurd ?_ h⟩
    · rw [scanJson]
    · rw [scanArray]
    · rw [scanObject]
  | succ f ih =>
    obtain ⟨ihJ, ihA, ihO⟩ := ih
    refine ⟨?_, ?_, ?_⟩
    · intro s h
      unfold scanJson at h ⊢
      split
      · rfl
      · exact ihO _ _ (by simpa using h)
      · exact ihA _ _ (by simpa using h)
      · rfl
    · intro s b h
      unfold scanArray at h ⊢
      split
      · rfl
      · rename_i hs
        split at h
        · exact absurd rfl (hs _)
        have hj : scanJson f s ≠ .unmodelled := by
          intro e; rw [e] at h; simp at h
        rw [ihJ s hj]
        cases hr : scanJson f s with
        | ok v r =>
          rw [hr] at h
          simp only [] at h ⊢
          split
          · rename_i heq
            rw [heq] at h
            exact ihA _ _ (by simpa using h)
          · rfl
          · rfl
        | bad => rfl
        | unmodelled => exact absurd hr hj
    · intro s b h
      unfold scanObject at h ⊢
      split
      · rfl
      · rename_i rest
        simp only [] at h
        cases hk : scanJsonString (rest.length + 1) rest [] with
        | ok k r =>
          rw [hk] at h
          simp only [] at h ⊢
          split
          · rename_i r1 heq
            rw [heq] at h
            simp only [] at h
            have hj : scanJson f (skipWs r1) ≠ .unmodelled := by
              intro e; rw [e] at h; simp at h
            rw [ihJ _ hj]
            cases hr : scanJson f (skipWs r1) with
            | ok v r2 =>
              rw [hr] at h
              simp only [] at h ⊢
              split
              · rename_i r3 heq2
                rw [heq2] at h
                simp only [] at h
                split
                · rename_i heq3
                  rw [heq3] at h
                  exact ihO _ _ (by simpa [heq3] using h)
                · rfl
              · rfl
              · rfl
            | bad => rfl
            | unmodelled => exact absurd hr hj
          · rfl
        | bad => rfl
        | surrogate => rfl
      · rfl

/-! ## the fuel `2 * length + 2` of `jsonLoads` always suffices -/

theorem skipWs_suffix (s : Str) : skipWs s <:+ s := List.dropWhile_suffix _

theorem scanJsonString_ok_suffix (f : Nat) (s acc : Str) (v r : Str) :
    scanJsonString f s acc = .ok v r → r <:+ s := by
  fun_induction scanJsonString f s acc
  case case3 => intro h; injection h with _ h; subst h; exact List.suffix_cons _ _
  case case14 ih2 ih1 =>
    rename_i hv2 _ _ _ _ _ _ _ _ _ _ hv
    intro h
    exact (ih1 h).trans (suffix_cons2 _ _ ((hex4Val_suffix hv2).trans
      ((suffix_cons2 _ _ (List.suffix_refl _)).trans (hex4Val_suffix hv))))
  case case19 ih2 ih1 =>
    rename_i hv _ _ _ _ _ _ _ _ _ _ _
    intro h
    exact (ih1 h).trans (suffix_cons2 _ _ (hex4Val_suffix hv))
  case case22 ih1 =>
    intro h
    exact (ih1 h).trans (List.suffix_cons _ _)
  all_goals first
    | (intro h; cases h; done)
    | (rename_i ih1; intro h; exact (ih1 _ h).trans (suffix_cons2 _ _ (List.suffix_refl _)))

theorem suffix_of_skipWs_cons {r r' s : Str} {c : Char} (h : skipWs r = c :: r') (hr : r <:+ s) :
    skipWs r' <:+ s :=
  (skipWs_suffix r').trans ((List.suffix_cons c r').trans (h ▸ (skipWs_suffix r).trans hr))

theorem length_of_skipWs_cons {r r' : Str} {c : Char} (h : skipWs r = c :: r') :
    (skipWs r').length + 1 ≤ r.length := by
  have a := (skipWs_suffix r').length_le
  have b := (skipWs_suffix r).length_le
  rw [h] at b; simp only [List.length_cons] at b; omega

/-- whatever a scanner returns as the rest is a suffix of its input -/
theorem rest_suffix (f : Nat) :
    (∀ s v r, scanJson f s = .ok v r → r <:+ s) ∧
    (∀ s b v r, scanArray f s b = .ok v r → r <:+ s) ∧
    (∀ s b v r, scanObject f s b = .ok v r → r <:+ s) := by
  induction f with
  | zero =>
    refine ⟨fun s v r h => ?_, fun s b v r h => ?_, fun s b v r h => ?_⟩
    · rw [scanJson] at h; cases h
    · rw [scanArray] at h; cases h
    · rw [scanObject] at h; cases h
  | succ f ih =>
    obtain ⟨ihJ, ihA, ihO⟩ := ih
    refine ⟨?_, ?_, ?_⟩
    · intro s v r h
      unfold scanJson at h
      split at h
      · split at h
        · rename_i hs; injection h with _ h; subst h
          exact (scanJsonString_ok_suffix _ _ _ _ _ hs).trans (List.suffix_cons _ _)
        · cases h
        · cases h
      · exact (ihO _ _ _ _ h).trans ((skipWs_suffix _).trans (List.suffix_cons _ _))
      · exact (ihA _ _ _ _ h).trans ((skipWs_suffix _).trans (List.suffix_cons _ _))
      · repeat' (split at h)
        all_goals first
          | (cases h; done)
          | (injection h with _ h; subst h; exact List.drop_suffix _ _)
          | (rename_i hn _
             injection h with _ h; subst h
             rw [(scanJsonNumber_spec hn).1]; exact List.suffix_append _ _)
    · intro s b v r h
      unfold scanArray at h
      split at h
      · split at h
        · injection h with _ h; subst h; exact List.suffix_cons _ _
        · cases h
      · split at h
        · rename_i hj
          have hr := ihJ _ _ _ hj
          split at h
          · rename_i heq
            exact (ihA _ _ _ _ h).trans (suffix_of_skipWs_cons heq hr)
          · rename_i heq
            injection h with _ h; subst h
            exact (List.suffix_cons _ _).trans (heq ▸ (skipWs_suffix _).trans hr)
          · cases h
        · cases h
        · cases h
    · intro s b v r h
      unfold scanObject at h
      split at h
      · split at h
        · injection h with _ h; subst h; exact List.suffix_cons _ _
        · cases h
      · rename_i rest
        split at h
        · rename_i k rk hk
          have h0 : rk <:+ '"' :: rest :=
            (scanJsonString_ok_suffix _ _ _ _ _ hk).trans (List.suffix_cons _ _)
          split at h
          · rename_i r1 heq
            have h1 : skipWs r1 <:+ '"' :: rest := suffix_of_skipWs_cons heq h0
            split at h
            · rename_i v2 r2 hj
              have h2 : r2 <:+ '"' :: rest := (ihJ _ _ _ hj).trans h1
              split at h
              · rename_i r3 heq2
                split at h
                · exact (ihO _ _ _ _ h).trans (suffix_of_skipWs_cons heq2 h2)
                · cases h
              · rename_i r3 heq2
                injection h with _ h; subst h
                exact (List.suffix_cons _ _).trans (heq2 ▸ (skipWs_suffix _).trans h2)
              · cases h
            · cases h
            · cases h
          · cases h
        · cases h
        · cases h
      · cases h

/-- with fuel `2 * length + 1` (values) resp. `2 * length + 2` (container bodies) the scanners
    answer `.unmodelled` only because of a lone surrogate escape, never because of the fuel -/
theorem fuel_suffices (f : Nat) :
    (∀ s, 2 * s.length + 1 ≤ f → scanJson f s = .unmodelled → HasLoneSurrogateEscape s) ∧
    (∀ s b, 2 * s.length + 2 ≤ f → scanArray f s b = .unmodelled → HasLoneSurrogateEscape s) ∧
    (∀ s b, 2 * s.length + 2 ≤ f → scanObject f s b = .unmodelled → HasLoneSurrogateEscape s) := by
  induction f with
  | zero =>
    refine ⟨fun s hf _ => ?_, fun s b hf _ => ?_, fun s b hf _ => ?_⟩ <;> omega
  | succ f ih =>
    obtain ⟨ihJ, ihA, ihO⟩ := ih
    have lenSkip : ∀ t : Str, (skipWs t).length ≤ t.length := fun t => (skipWs_suffix t).length_le
    refine ⟨?_, ?_, ?_⟩
    · intro s hf h
      unfold scanJson at h
      split at h
      · split at h
        · cases h
        · cases h
        · rename_i hs
          exact lone_suffix (scanJsonString_surrogate _ _ _ hs) (List.suffix_cons _ _)
      · rename_i rest
        have := lenSkip rest
        simp only [List.length_cons] at hf
        exact lone_suffix (ihO _ _ (by omega) h) ((skipWs_suffix _).trans (List.suffix_cons _ _))
      · rename_i rest
        have := lenSkip rest
        simp only [List.length_cons] at hf
        exact lone_suffix (ihA _ _ (by omega) h) ((skipWs_suffix _).trans (List.suffix_cons _ _))
      · repeat' (split at h)
        all_goals cases h
    · intro s b hf h
      unfold scanArray at h
      split at h
      · split at h <;> cases h
      · split at h
        · rename_i v r hj
          have hr := (rest_suffix f).1 _ _ _ hj
          split at h
          · rename_i r' heq
            have hsuf := suffix_of_skipWs_cons heq hr
            have hl := hsuf.length_le
            have h1 : (skipWs r').length + 1 ≤ s.length := by
              have a := (skipWs_suffix r').length_le
              have b := (skipWs_suffix r).length_le
              have c := hr.length_le
              rw [heq] at b; simp only [List.length_cons] at b; omega
            exact lone_suffix (ihA _ _ (by omega) h) hsuf
          · cases h
          · cases h
        · cases h
        · rename_i hj
          exact ihJ _ (by omega) hj
    · intro s b hf h
      unfold scanObject at h
      split at h
      · split at h <;> cases h
      · rename_i rest
        simp only [List.length_cons] at hf
        split at h
        · rename_i k rk hk
          have h0 : rk <:+ '"' :: rest :=
            (scanJsonString_ok_suffix _ _ _ _ _ hk).trans (List.suffix_cons _ _)
          split at h
          · rename_i r1 heq
            have h1 : skipWs r1 <:+ '"' :: rest := suffix_of_skipWs_cons heq h0
            have l0 := (scanJsonString_ok_suffix _ _ _ _ _ hk).length_le
            have l1 := length_of_skipWs_cons heq
            split at h
            · rename_i v2 r2 hj
              have h2 : r2 <:+ '"' :: rest := ((rest_suffix f).1 _ _ _ hj).trans h1
              have l2 := ((rest_suffix f).1 _ _ _ hj).length_le
              split at h
              · rename_i r3 heq2
                split at h
                · have h3 := suffix_of_skipWs_cons heq2 h2
                  have l3 := length_of_skipWs_cons heq2
                  exact lone_suffix (ihO _ _ (by omega) h) h3
                · cases h
              · cases h
              · cases h
            · cases h
            · rename_i hj
              exact lone_suffix (ihJ _ (by omega) hj) h1
          · cases h
        · cases h
        · rename_i hs
          exact lone_suffix (scanJsonString_surrogate _ _ _ hs) (List.suffix_cons _ _)
      · cases h

/-- `jsonLoads`' fuel: `.unmodelled` is never caused by the fuel -/
theorem jsonLoads_fuel {s : Str} (h : scanJson (2 * s.length + 2) (skipWs s) = .unmodelled) :
    HasLoneSurrogateEscape s := by
  have hl := (skipWs_suffix s).length_le
  exact lone_suffix ((fuel_suffices _).1 _ (by omega) h) (skipWs_suffix s)

end C18
end Penman

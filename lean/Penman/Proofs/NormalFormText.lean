/-
  Penman.Proofs.NormalFormText — `WfTreeText` (the hypothesis of C01's round trip) is preserved
  by `dropNullConcept`, by `rearrangeNode` and — for models whose normalisation values are ROLE
  texts (`NormRolesText`) — by `canonNode`.
-/
import Penman.Proofs.NormalFormTree
import Penman.Proofs.TextWfLemmas
import Penman.Proofs.Role
import Penman.Spec.NormalForm
namespace Penman.NF
open Penman Penman.RA

variable (cfg : LexCfg)

/-! ### the edge predicate of `wfEdgesB` -/

def textEdge : Branch → Bool
  | (r, .atom a) => Spec.roleTextB cfg r && Spec.atomB cfg a
  | (r, .node n) => Spec.roleTextB cfg r && Spec.wfNodeB cfg n

theorem wfEdgesB_iff : ∀ bs : Branches,
    Spec.wfEdgesB cfg bs = true ↔ ∀ b ∈ bs.toList, textEdge cfg b = true
  | .nil => by simp [Spec.wfEdgesB, Branches.toList]
  | .atom r a rest => by
    simp only [Spec.wfEdgesB, Branches.toList, List.mem_cons, forall_eq_or_imp, textEdge,
      wfEdgesB_iff rest, Bool.and_eq_true]
  | .sub r n rest => by
    simp only [Spec.wfEdgesB, Branches.toList, List.mem_cons, forall_eq_or_imp, textEdge,
      wfEdgesB_iff rest, Bool.and_eq_true]

theorem wfNodeB_none (bs : Branches) : Spec.wfNodeB cfg (.mk none bs) = true ↔ bs = .nil := by
  cases bs <;> simp [Spec.wfNodeB]

theorem wfNodeB_some (v : Str) (bs : Branches) :
    Spec.wfNodeB cfg (.mk (some v) bs) = (Spec.symbolB cfg v && Spec.wfTopB cfg bs) := by
  simp [Spec.wfNodeB]

theorem wfTopB_atom (r : Str) (a : Atom) (rest : Branches) :
    Spec.wfTopB cfg (.atom r a rest) =
      ((if r = ['/'] then Spec.atomB cfg a else Spec.roleTextB cfg r && Spec.atomB cfg a)
        && Spec.wfEdgesB cfg rest) := by
  simp [Spec.wfTopB]

theorem wfTopB_sub (r : Str) (n : Node) (rest : Branches) :
    Spec.wfTopB cfg (.sub r n rest) =
      (Spec.roleTextB cfg r && Spec.wfNodeB cfg n && Spec.wfEdgesB cfg rest) := by
  simp [Spec.wfTopB]

theorem wfTopB_edges (bs : Branches) (h : Spec.wfTopB cfg bs = true) :
    ∀ b ∈ bs.sortedPart.toList, textEdge cfg b = true := by
  cases bs with
  | nil => simp [Branches.sortedPart, Branches.toList]
  | atom r a rest =>
    rw [wfTopB_atom, Bool.and_eq_true] at h
    by_cases hr : r = ['/']
    · simp only [Branches.sortedPart, hr, if_true]
      exact (wfEdgesB_iff cfg rest).1 h.2
    · simp only [hr, if_false, Bool.and_eq_true] at h
      simp only [Branches.sortedPart, hr, if_false, Branches.toList, List.mem_cons, forall_eq_or_imp,
        textEdge, Bool.and_eq_true]
      exact ⟨h.1, (wfEdgesB_iff cfg rest).1 h.2⟩
  | sub r n rest =>
    rw [wfTopB_sub, Bool.and_eq_true, Bool.and_eq_true] at h
    intro b hb
    have hb' := mem_of_mem_sortedPart hb
    simp only [Branches.toList, List.mem_cons] at hb'
    rcases hb' with rfl | hb'
    · simp only [textEdge, Bool.and_eq_true]; exact h.1
    · exact (wfEdgesB_iff cfg rest).1 h.2 b hb'

theorem text_stable : RearrStable (fun n => Spec.wfNodeB cfg n = true)
    (fun _ b => textEdge cfg b = true) where
  decomp := fun v bs hp b hb => by
    cases v with
    | none =>
      rw [(wfNodeB_none cfg bs).1 hp] at hb
      simp [Branches.sortedPart, Branches.toList] at hb
    | some var =>
      rw [wfNodeB_some, Bool.and_eq_true] at hp
      exact wfTopB_edges cfg bs hp.2 b hb
  rebuild := fun v bs x hp hlen hx => by
    have hx' : Spec.wfEdgesB cfg x = true := (wfEdgesB_iff cfg x).2 hx
    cases v with
    | none =>
      have hb := (wfNodeB_none cfg bs).1 hp
      subst hb
      have : x = .nil := toList_eq_nil (List.eq_nil_of_length_eq_zero (by simpa [Branches.sortedPart, Branches.toList] using hlen))
      subst this
      simp [Branches.leading, Branches.append, Spec.wfNodeB]
    | some var =>
      rw [wfNodeB_some, Bool.and_eq_true] at hp ⊢
      refine ⟨hp.1, ?_⟩
      have hp2 := hp.2
      cases bs with
      | nil => exact FL.wfTop_of_edges x hx'
      | atom r a rest =>
        rw [wfTopB_atom, Bool.and_eq_true] at hp2
        by_cases hr : r = ['/']
        · subst hr
          have key : (Branches.atom ['/'] a rest).leading.append x = .atom ['/'] a x := by
            simp [Branches.leading, Branches.append]
          rw [key, wfTopB_atom, Bool.and_eq_true]
          exact ⟨hp2.1, hx'⟩
        · have key : (Branches.atom r a rest).leading.append x = x := by
            simp [Branches.leading, hr, Branches.append]
          rw [key]; exact FL.wfTop_of_edges x hx'
      | sub r n rest =>
        rw [wfTopB_sub, Bool.and_eq_true] at hp2
        by_cases hr : r = ['/']
        · subst hr
          have key : (Branches.sub ['/'] n rest).leading.append x = .sub ['/'] n x := by
            simp [Branches.leading, Branches.append]
          rw [key, wfTopB_sub, Bool.and_eq_true]
          exact ⟨hp2.1, hx'⟩
        · have key : (Branches.sub r n rest).leading.append x = x := by
            simp [Branches.leading, hr, Branches.append]
          rw [key]; exact FL.wfTop_of_edges x hx'
  sub := fun v r n h => by
    simp only [textEdge, Bool.and_eq_true] at h; exact h.2
  resub := fun v r n n' h h' => by
    simp only [textEdge, Bool.and_eq_true] at h ⊢; exact ⟨h.1, h'⟩

theorem wfTreeText_rearrange (m : Model) (vars : List Str) (key : Option (List KeyFn)) (n : Node)
    (h : Spec.WfTreeText cfg n) : Spec.WfTreeText cfg (rearrangeNode m vars key n) :=
  rearrangeNode_stable (text_stable cfg) m vars key n h

/-! ### `dropNullConcept` -/

mutual
theorem wfTreeText_dropNull : ∀ n : Node, Spec.wfNodeB cfg n = true →
    Spec.wfNodeB cfg (dropNullConcept n) = true
  | .mk none bs, h => by
    rw [(wfNodeB_none cfg bs).1 h]; simp [dropNullConcept, dropNullBranches, Spec.wfNodeB]
  | .mk (some v) .nil, h => by simpa [dropNullConcept, dropNullBranches] using h
  | .mk (some v) (.atom r a rest), h => by
    rw [wfNodeB_some, Bool.and_eq_true, wfTopB_atom, Bool.and_eq_true] at h
    have ih := wfEdgesB_dropNull rest h.2.2
    simp only [dropNullConcept, dropNullBranches]
    rw [wfNodeB_some, Bool.and_eq_true]
    refine ⟨h.1, ?_⟩
    split
    · exact FL.wfTop_of_edges _ ih
    · rw [wfTopB_atom, Bool.and_eq_true]; exact ⟨h.2.1, ih⟩
  | .mk (some v) (.sub r n rest), h => by
    rw [wfNodeB_some, Bool.and_eq_true, wfTopB_sub, Bool.and_eq_true, Bool.and_eq_true] at h
    simp only [dropNullConcept, dropNullBranches]
    rw [wfNodeB_some, Bool.and_eq_true, wfTopB_sub, Bool.and_eq_true, Bool.and_eq_true]
    exact ⟨h.1, ⟨h.2.1.1, wfTreeText_dropNull n h.2.1.2⟩, wfEdgesB_dropNull rest h.2.2⟩
theorem wfEdgesB_dropNull : ∀ bs : Branches, Spec.wfEdgesB cfg bs = true →
    Spec.wfEdgesB cfg (dropNullBranches bs) = true
  | .nil, _ => by simp [dropNullBranches, Spec.wfEdgesB]
  | .atom r a rest, h => by
    simp only [Spec.wfEdgesB, Bool.and_eq_true] at h
    have ih := wfEdgesB_dropNull rest h.2
    simp only [dropNullBranches]
    split
    · exact ih
    · simp only [Spec.wfEdgesB, Bool.and_eq_true]; exact ⟨h.1, ih⟩
  | .sub r n rest, h => by
    simp only [Spec.wfEdgesB, Bool.and_eq_true] at h
    simp only [dropNullBranches, Spec.wfEdgesB, Bool.and_eq_true]
    exact ⟨⟨h.1.1, wfTreeText_dropNull n h.1.2⟩, wfEdgesB_dropNull rest h.2⟩
end

/-! ### role texts under canonicalisation -/

theorem roleB_iff' (s : Str) : Spec.roleB cfg s = true ↔
    ∃ b, s = ':' :: b ∧ ∀ c ∈ b, c ∉ cfg.roleExcl ∧ c ≠ '\n' ∧ c ≠ '\r' := by
  cases s with
  | nil => simp [Spec.roleB]
  | cons x b =>
    by_cases hx : x = ':'
    · subst hx
      simp only [Spec.roleB, Spec.noBreakB, Bool.and_eq_true, List.all_eq_true, Bool.not_eq_true',
        List.contains_eq_mem, decide_eq_false_iff_not, List.cons.injEq, true_and, exists_eq_left']
      constructor
      · rintro ⟨h1, h2, h3⟩ c hc
        exact ⟨h1 c hc, fun e => h2 (e ▸ hc), fun e => h3 (e ▸ hc)⟩
      · intro h
        exact ⟨fun c hc => (h c hc).1, fun hc => (h _ hc).2.1 rfl, fun hc => (h _ hc).2.2 rfl⟩
    · constructor
      · intro h
        have : Spec.roleB cfg (x :: b) = false := by
          unfold Spec.roleB; split
          · rename_i heq; simp only [List.cons.injEq] at heq; exact absurd heq.1 hx
          · rfl
        rw [this] at h; cases h
      · rintro ⟨b', h, _⟩
        simp only [List.cons.injEq] at h; exact absurd h.1 hx

variable {cfg} {m : Model}

theorem nrt_tilde (h : NormRolesText cfg m = true) : '~' ∈ cfg.roleExcl := by
  simp only [NormRolesText, Bool.and_eq_true, List.contains_eq_mem, decide_eq_true_eq] at h
  exact h.1.1

theorem nrt_of (h : NormRolesText cfg m = true) : ∀ c ∈ ofStr, c ∉ cfg.roleExcl := by
  simp only [NormRolesText, Bool.and_eq_true, List.all_eq_true, Bool.not_eq_true',
    List.contains_eq_mem, decide_eq_false_iff_not] at h
  exact h.1.2

theorem nrt_norm (h : NormRolesText cfg m = true) {k v : Str} (hg : AList.get? m.norm k = some v) :
    Spec.roleB cfg v = true := by
  simp only [NormRolesText, Bool.and_eq_true, List.all_eq_true] at h
  unfold AList.get? at hg
  cases hf : m.norm.find? (·.1 = k) with
  | none => rw [hf] at hg; cases hg
  | some kv =>
    rw [hf] at hg
    simp only [Option.map_some, Option.some.injEq] at hg
    have := h.2 _ (List.mem_of_find?_eq_some hf)
    rwa [hg] at this

theorem roleB_noTilde (h : NormRolesText cfg m = true) {s : Str} (hs : Spec.roleB cfg s = true) : '~' ∉ s := by
  obtain ⟨b, rfl, hb⟩ := (roleB_iff' cfg s).1 hs
  intro hm
  simp only [List.mem_cons] at hm
  rcases hm with e | hm
  · cases e
  · exact (hb _ hm).1 (nrt_tilde h)

theorem roleB_append_of (h : NormRolesText cfg m = true) {s : Str} (hs : Spec.roleB cfg s = true) :
    Spec.roleB cfg (s ++ ofStr) = true := by
  obtain ⟨b, rfl, hb⟩ := (roleB_iff' cfg _).1 hs
  refine (roleB_iff' cfg _).2 ⟨b ++ ofStr, rfl, ?_⟩
  intro c hc
  rcases List.mem_append.1 hc with hc | hc
  · exact hb c hc
  · refine ⟨nrt_of h c hc, ?_, ?_⟩ <;> (intro e; subst e; simp [ofStr] at hc)

theorem roleB_of_append_of {s : Str} (hs : Spec.roleB cfg (s ++ ofStr) = true) :
    Spec.roleB cfg s = true := by
  obtain ⟨b, hb1, hb⟩ := (roleB_iff' cfg _).1 hs
  cases s with
  | nil => simp [ofStr] at hb1
  | cons x s' =>
    simp only [List.cons_append, List.cons.injEq] at hb1
    obtain ⟨rfl, rfl⟩ := hb1
    exact (roleB_iff' cfg _).2 ⟨s', rfl, fun c hc => hb c (List.mem_append_left _ hc)⟩

theorem roleB_invInv (h : NormRolesText cfg m = true) (x : Str) (hx : Spec.roleB cfg x = true) :
    Spec.roleB cfg (m.invertRole (m.invertRole x)) = true := by
  rcases Role.invInv_cases m x with ⟨hfix, _⟩ | ⟨b, hb, _, _, hdown⟩ | ⟨_, _, hup⟩
  · rw [hfix]; exact hx
  · rw [hdown]; rw [hb] at hx
    exact roleB_of_append_of (roleB_of_append_of hx)
  · rw [hup]; exact roleB_append_of h (roleB_append_of h hx)

theorem roleB_head {s : Str} (hs : Spec.roleB cfg s = true) : s = ['/'] ∨ s.head? = some ':' := by
  obtain ⟨b, rfl, _⟩ := (roleB_iff' cfg s).1 hs
  exact Or.inr rfl

/-- canonicalising a ROLE text gives a ROLE text -/
theorem roleB_canonRole (h : NormRolesText cfg m = true) {s c : Str} (hs : Spec.roleB cfg s = true)
    (hc : m.canonRole s = some c) : Spec.roleB cfg c = true := by
  obtain ⟨r1, h1, rfl⟩ := Role.canonRole_iff.1 hc
  rw [Role.addColon_of_ok (roleB_head hs)] at h1
  have hr1 : Spec.roleB cfg r1 = true :=
    Role.canonInversion_inv (fun x => Spec.roleB cfg x = true) (roleB_invInv h) hs h1
  cases hg : AList.get? m.norm r1 with
  | none => simpa using hr1
  | some v => simpa using nrt_norm h hg

theorem alignment_head {a : Str} (ha : Spec.alignmentB cfg a = true) : ∃ rest, a = '~' :: rest := by
  simp only [Spec.alignmentB, Bool.and_eq_true, beq_iff_eq] at ha
  cases a with
  | nil => simp [scanAlignment] at ha
  | cons x rest =>
    by_cases hx : x = '~'
    · exact ⟨rest, by rw [hx]⟩
    · have hn : scanAlignment cfg (x :: rest) = none := by
        unfold scanAlignment; split
        · rename_i heq; simp only [List.cons.injEq] at heq; exact absurd heq.1 hx
        · rfl
      rw [hn] at ha
      cases ha.1

/-- **(R1)** a role text (ROLE + optional ALIGNMENT) stays one under `canonicalize_roles` -/
theorem roleText_rewritten (h : NormRolesText cfg m = true) {r r' : Str}
    (hr : Spec.roleTextB cfg r = true) (hrw : RoleRewritten m r r') : Spec.roleTextB cfg r' = true := by
  obtain ⟨mm, a, rfl, hmm, ha⟩ := (FL.alignedB_iff _ _).1 hr
  have ha' : a = [] ∨ ∃ rest, a = '~' :: rest := ha.imp id alignment_head
  obtain ⟨h1, h2⟩ := Role.partition_rebuild (roleB_noTilde h hmm) ha'
  obtain ⟨c, hc, rfl⟩ := hrw
  rw [h1] at hc; rw [h2]
  exact (FL.alignedB_iff _ _).2 ⟨c, a, rfl, roleB_canonRole h hmm hc, ha⟩

/-- **(R2)** the concept role `/` stays `/` or becomes a role text -/
theorem slash_rewritten (h : NormRolesText cfg m = true) (hs : m.slashOk = true) {r' : Str}
    (hrw : RoleRewritten m ['/'] r') : r' = ['/'] ∨ Spec.roleTextB cfg r' = true := by
  obtain ⟨c, hc, rfl⟩ := hrw
  have hp : rolePart ['/'] = ['/'] ∧ alnPart ['/'] = [] := by decide
  rw [hp.1] at hc; rw [hp.2, List.append_nil]
  obtain ⟨r1, h1, rfl⟩ := Role.canonRole_iff.1 hc
  rw [Role.addColon_of_ok (Or.inl rfl), Role.canonInversion_slash hs] at h1
  cases h1
  cases hg : AList.get? m.norm ['/'] with
  | none => left; rfl
  | some v =>
    right
    exact (FL.alignedB_iff _ _).2 ⟨v, [], by simp, nrt_norm h hg, Or.inl rfl⟩

/-! ### `canonNode` -/

mutual
theorem wfTreeText_sameShape (h : NormRolesText cfg m = true) (hs : m.slashOk = true) :
    ∀ n n' : Node, Node.sameShape (RoleRewritten m) n n' → Spec.wfNodeB cfg n = true →
    Spec.wfNodeB cfg n' = true
  | .mk none bs, .mk v' bs', hsh, hw => by
    obtain ⟨rfl, hb⟩ := hsh
    rw [(wfNodeB_none cfg bs).1 hw] at hb
    cases bs' with
    | nil => simp [Spec.wfNodeB]
    | atom _ _ _ => exact hb.elim
    | sub _ _ _ => exact hb.elim
  | .mk (some v) .nil, .mk v' bs', hsh, hw => by
    obtain ⟨rfl, hb⟩ := hsh
    cases bs' with
    | nil => exact hw
    | atom _ _ _ => exact hb.elim
    | sub _ _ _ => exact hb.elim
  | .mk (some v) (.atom r a rest), .mk v' bs', hsh, hw => by
    obtain ⟨rfl, hb⟩ := hsh
    cases bs' with
    | nil => exact hb.elim
    | sub _ _ _ => exact hb.elim
    | atom r' a' rest' =>
      obtain ⟨hr, rfl, hrest⟩ := hb
      rw [wfNodeB_some, Bool.and_eq_true, wfTopB_atom, Bool.and_eq_true] at hw
      rw [wfNodeB_some, Bool.and_eq_true, wfTopB_atom, Bool.and_eq_true]
      refine ⟨hw.1, ?_, wfEdgesB_sameShape h hs rest rest' hrest hw.2.2⟩
      by_cases hsl : r = ['/']
      · subst hsl
        simp only [if_true] at hw
        rcases slash_rewritten h hs hr with rfl | h'
        · simpa using hw.2.1
        · split
          · exact hw.2.1
          · simp [h', hw.2.1]
      · simp only [hsl, if_false, Bool.and_eq_true] at hw
        have h' := roleText_rewritten h hw.2.1.1 hr
        split
        · exact hw.2.1.2
        · simp [h', hw.2.1.2]
  | .mk (some v) (.sub r n rest), .mk v' bs', hsh, hw => by
    obtain ⟨rfl, hb⟩ := hsh
    cases bs' with
    | nil => exact hb.elim
    | atom _ _ _ => exact hb.elim
    | sub r' n' rest' =>
      obtain ⟨hr, hn, hrest⟩ := hb
      rw [wfNodeB_some, Bool.and_eq_true, wfTopB_sub, Bool.and_eq_true, Bool.and_eq_true] at hw
      rw [wfNodeB_some, Bool.and_eq_true, wfTopB_sub, Bool.and_eq_true, Bool.and_eq_true]
      exact ⟨hw.1, ⟨roleText_rewritten h hw.2.1.1 hr, wfTreeText_sameShape h hs n n' hn hw.2.1.2⟩,
        wfEdgesB_sameShape h hs rest rest' hrest hw.2.2⟩
theorem wfEdgesB_sameShape (h : NormRolesText cfg m = true) (hs : m.slashOk = true) :
    ∀ bs bs' : Branches, Branches.sameShape (RoleRewritten m) bs bs' → Spec.wfEdgesB cfg bs = true →
    Spec.wfEdgesB cfg bs' = true
  | .nil, .nil, _, _ => rfl
  | .atom r a rest, .atom r' a' rest', hsh, hw => by
    obtain ⟨hr, rfl, hrest⟩ := hsh
    simp only [Spec.wfEdgesB, Bool.and_eq_true] at hw ⊢
    exact ⟨⟨roleText_rewritten h hw.1.1 hr, hw.1.2⟩, wfEdgesB_sameShape h hs rest rest' hrest hw.2⟩
  | .sub r n rest, .sub r' n' rest', hsh, hw => by
    obtain ⟨hr, hn, hrest⟩ := hsh
    simp only [Spec.wfEdgesB, Bool.and_eq_true] at hw ⊢
    exact ⟨⟨roleText_rewritten h hw.1.1 hr, wfTreeText_sameShape h hs n n' hn hw.1.2⟩,
      wfEdgesB_sameShape h hs rest rest' hrest hw.2⟩
  | .nil, .atom .., hsh, _ | .nil, .sub .., hsh, _ | .atom .., .nil, hsh, _ | .atom .., .sub .., hsh, _
  | .sub .., .nil, hsh, _ | .sub .., .atom .., hsh, _ => hsh.elim
end

/-- `canonicalize_roles` keeps a grammar-valid tree grammar-valid -/
theorem wfTreeText_canon (h : NormRolesText cfg m = true) (hs : m.slashOk = true) {n n' : Node}
    (hc : canonNode m n = .ok n') (hw : Spec.WfTreeText cfg n) : Spec.WfTreeText cfg n' :=
  wfTreeText_sameShape h hs n n' (Role.canonNode_shape m n n' hc) hw

end Penman.NF

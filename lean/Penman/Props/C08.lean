/-
# C08 — Tokens tile the input and follow the documented lexical grammar

Model: `Penman/Lexer.lean` (`lexLine`, `lexLines`, `lexStr`, `splitLines`) with the tables
`Penman.Generated.lexCfg`.  Specification: `Penman/Spec/LexSpec.lean` (written without
reference to the scanners).  Lemmas: `Penman/Proofs/LexLemmas.lean`.

Clause of the property text ↦ theorem(s)

* *"the tokens produced are non-overlapping, in order"* ↦ `lex_tiles` (the recursive
  `Tiling`: each token starts at or after the end of the previous one), `tiles_sorted`.
* *"carry the exact line number, column and text of the span they cover"* ↦ `lex_tiles`,
  `tiles_tokens` (`lineno = n`, `text = line[offset, offset+len)`, `text ≠ ""`, in bounds),
  `lineno_enumerate`, `lexStr_lineno` (line numbers are `enumerate(lines, 1)`).
* *"together cover every character except ASCII space, tab, CR, LF, VT and FF … no other
  character is ever skipped or treated as a separator"* ↦ `tiles_cover` (every character
  not in `cfg.blank` lies inside a token), `reassemble` (`line = g₀ t₀ g₁ t₁ … gₖ` with all
  `gᵢ` blank and `offset tᵢ = |g₀ t₀ … gᵢ|`), `generated_tables` (`blank` is exactly those six).
  *"outside strings and comments"*: blanks inside a STRING / COMMENT token are covered by that
  token; the gap condition speaks of uncovered characters only.
* *"Each token's class is the one the documented lexical grammar assigns"* ↦ `lex_spec`
  (`TokOk`: the class is the FIRST class of the alternation order that has any match at that
  offset, and the text is the longest = greedy match of that class), unpacked in
  `tok_class_sound`, `tok_first_class`, `tok_longest`, and class by class in
  `symbol_maximal`, `role_maximal`, `comment_to_eol`, `string_is_unique_literal`;
  `scanner_is_longest_match` / `scanner_fails_iff` relate every scanner to its grammar.
* uniqueness of the specification ↦ `lex_unique`.
* `splitLines` ↦ `splitLines_spec`, `splitLines_unique`, `splitLines_join`.
* well-formedness of the generated tables ↦ `cfg_wf`; instances `lex_spec_penman`,
  `lex_spec_triple`.

All theorems are general in `cfg` (hypothesis `CfgWf cfg`, decidable) and in the alternation
`order` (hypothesis `UNEXPECTED ∈ order`, implied by `orderWf order` = "UNEXPECTED is last").
`lex_tiles` does not need `CfgWf` at all.

Nothing is left unproved.  No counterexample to the property was found in the model.
(Remarks: the greedy regex match is specified as the *longest* match; for these
alternation-free, deterministic patterns the two coincide — for ALIGNMENT this uses that
prefix letters and digits are disjoint and `,` `.` are not digits, which is part of `CfgWf`.)
-/
import Penman.Proofs.LexLemmas
import Penman.Generated

namespace Penman.C08
open Penman Penman.Spec Penman.Lex

/-! ## the generated tables -/

theorem cfg_wf : CfgWf Generated.lexCfg = true := by decide

/-- the generated tables are the documented ones -/
theorem generated_tables :
    Generated.lexCfg.blank = " \t\r\n\x0b\x0c".toList ∧
    Generated.lexCfg.symExcl = " \t\r\n\x0b\x0c\"()/:~".toList ∧
    Generated.lexCfg.roleExcl = " \t\r\n\x0b\x0c\"()/:~".toList ∧
    Generated.lexCfg.strExcl = "\"\\".toList ∧
    Generated.lexCfg.alnPrefix = [('a', 'z'), ('A', 'Z')] ∧
    Generated.lexCfg.alnDigit = [('0', '9')] ∧
    Generated.lexCfg.penmanOrder =
      [.COMMENT, .STRING, .LPAREN, .RPAREN, .SLASH, .ROLE, .SYMBOL, .ALIGNMENT, .UNEXPECTED] ∧
    Generated.lexCfg.tripleOrder = [.COMMENT, .STRING, .LPAREN, .RPAREN, .SYMBOL, .UNEXPECTED] := by
  decide

theorem unexpected_mem_of_orderWf {order : List TokTy} (h : orderWf order = true) :
    TokTy.UNEXPECTED ∈ order := orderWf_mem h

/-! ## tiling -/

/-- The tokens of a line tile it: in order, non-overlapping, exact lineno/offset/text,
    non-empty, all gaps (before, between, after) blank.  Needs only that `UNEXPECTED` is
    one of the alternatives. -/
theorem lex_tiles {cfg : LexCfg} {order : List TokTy} (hU : TokTy.UNEXPECTED ∈ order) (n : Nat)
    (line : Str) : Tiling cfg n line (lexLine cfg order n line) :=
  lexLine_tiling hU n line

example : TokTy.UNEXPECTED ∈ Generated.lexCfg.penmanOrder := by decide

/-- every token of a tiling: line number, non-empty text, exact text at its offset, in bounds -/
theorem tiles_tokens {cfg : LexCfg} {n : Nat} {line : Str} {toks : List Tok}
    (h : Tiling cfg n line toks) : ∀ t ∈ toks,
      t.lineno = n ∧ t.text ≠ [] ∧ t.text = (line.drop t.offset).take t.text.length ∧
      t.offset + t.text.length ≤ line.length :=
  fun t ht => (tilingFrom_mem toks 0 h t ht).2

/-- tokens are in order and do not overlap -/
theorem tiles_sorted {cfg : LexCfg} {n : Nat} {line : Str} {toks : List Tok}
    (h : Tiling cfg n line toks) :
    toks.Pairwise (fun a b => a.offset + a.text.length ≤ b.offset) :=
  tilingFrom_sorted toks 0 h

/-- every non-blank character is inside a token: nothing but blanks is ever skipped -/
theorem tiles_cover {cfg : LexCfg} {n : Nat} {line : Str} {toks : List Tok}
    (h : Tiling cfg n line toks) (i : Nat) (hi : i < line.length) (hnb : line[i] ∉ cfg.blank) :
    ∃ t ∈ toks, t.offset ≤ i ∧ i < t.offset + t.text.length :=
  tilingFrom_covered toks 0 h i hi (Nat.zero_le _) hnb

example : ∃ t ∈ lexLine Generated.lexCfg Generated.lexCfg.penmanOrder 1 "(a b)".toList,
    t.offset ≤ 3 ∧ 3 < t.offset + t.text.length :=
  tiles_cover (lex_tiles (by decide) 1 _) 3 (by decide) (by decide)

/-- the line is the interleaving of blank gaps and token texts, and every token's offset is
    the length of what precedes it -/
theorem reassemble {cfg : LexCfg} {n : Nat} {line : Str} {toks : List Tok}
    (h : Tiling cfg n line toks) :
    ∃ gaps : List Str, gaps.length = toks.length + 1 ∧ (∀ g ∈ gaps, ∀ c ∈ g, c ∈ cfg.blank) ∧
      interleave gaps toks = line ∧
      ∀ (i : Nat) (hi : i < toks.length),
        toks[i].offset = (interleave (gaps.take (i+1)) (toks.take i)).length := by
  obtain ⟨gaps, h1, h2, h3, h4⟩ := genFrom_reassemble toks 0 line (tiling_iff_from.mp h)
  exact ⟨gaps, h1, h2, h3, fun i hi => by simpa using h4 i hi⟩

example : ∃ gaps : List Str, interleave gaps
      (lexLine Generated.lexCfg Generated.lexCfg.penmanOrder 1 " (a  b) ".toList) = " (a  b) ".toList := by
  obtain ⟨gaps, _, _, h, _⟩ := reassemble (lex_tiles (cfg := Generated.lexCfg)
    (order := Generated.lexCfg.penmanOrder) (by decide) 1 " (a  b) ".toList)
  exact ⟨gaps, h⟩

/-! ## classification -/

/-- **Main theorem.**  The tokens of a line satisfy the full specification: they tile the line
    and each token is what the ordered alternation of the documented grammar yields at its
    offset. -/
theorem lex_spec {cfg : LexCfg} (hwf : CfgWf cfg = true) {order : List TokTy}
    (hU : TokTy.UNEXPECTED ∈ order) (n : Nat) (line : Str) :
    LexSpec cfg order n line (lexLine cfg order n line) :=
  lexLine_spec (CfgWf.toP hwf) hU n line

theorem lex_spec_penman (n : Nat) (line : Str) :
    LexSpec Generated.lexCfg Generated.lexCfg.penmanOrder n line
      (lexLine Generated.lexCfg Generated.lexCfg.penmanOrder n line) :=
  lex_spec cfg_wf (by decide) n line

theorem lex_spec_triple (n : Nat) (line : Str) :
    LexSpec Generated.lexCfg Generated.lexCfg.tripleOrder n line
      (lexLine Generated.lexCfg Generated.lexCfg.tripleOrder n line) :=
  lex_spec cfg_wf (by decide) n line

/-- the specification has exactly one solution: it determines the token list -/
theorem lex_unique {cfg : LexCfg} (hwf : CfgWf cfg = true) {order : List TokTy} {n : Nat}
    {line : Str} {a b : List Tok} (ha : LexSpec cfg order n line a)
    (hb : LexSpec cfg order n line b) : a = b :=
  lexSpec_unique (CfgWf.toP hwf) ha hb

example (toks : List Tok)
    (h : LexSpec Generated.lexCfg Generated.lexCfg.penmanOrder 1 "(a / b)".toList toks) :
    toks = lexLine Generated.lexCfg Generated.lexCfg.penmanOrder 1 "(a / b)".toList :=
  lex_unique cfg_wf h (lex_spec_penman _ _)

/-- hence: a token list satisfies the specification iff it is the lexer's output -/
theorem lex_spec_iff {cfg : LexCfg} (hwf : CfgWf cfg = true) {order : List TokTy}
    (hU : TokTy.UNEXPECTED ∈ order) (n : Nat) (line : Str) (toks : List Tok) :
    LexSpec cfg order n line toks ↔ toks = lexLine cfg order n line :=
  ⟨fun h => lex_unique hwf h (lex_spec hwf hU n line), fun h => h ▸ lex_spec hwf hU n line⟩

/-- soundness: the text of a token is in the language of its class -/
theorem tok_class_sound {cfg : LexCfg} {order : List TokTy} {n : Nat} {line : Str}
    {toks : List Tok} (h : LexSpec cfg order n line toks) : ∀ t ∈ toks, Lang cfg t.ty t.text :=
  fun t ht => by
    obtain ⟨_, _, _, _, hm⟩ := h.2 t ht
    exact hm.1.2.1

/-- the class is the first in the alternation order with a match at the token's offset -/
theorem tok_first_class {cfg : LexCfg} {order : List TokTy} {n : Nat} {line : Str}
    {toks : List Tok} (h : LexSpec cfg order n line toks) : ∀ t ∈ toks,
      ∃ pre post, order = pre ++ t.ty :: post ∧
        ∀ ty ∈ pre, ∀ m, ¬ Matches cfg ty (line.drop t.offset) m :=
  fun t ht => by
    obtain ⟨pre, post, h1, h2, _⟩ := h.2 t ht
    exact ⟨pre, post, h1, h2⟩

/-- the text is the longest match of the token's class at its offset -/
theorem tok_longest {cfg : LexCfg} {order : List TokTy} {n : Nat} {line : Str}
    {toks : List Tok} (h : LexSpec cfg order n line toks) : ∀ t ∈ toks,
      IsMatch cfg t.ty (line.drop t.offset) t.text :=
  fun t ht => by
    obtain ⟨_, _, _, _, hm⟩ := h.2 t ht
    exact hm

/-- SYMBOL tokens are maximal: the next character (if any) is not a name character -/
theorem symbol_maximal {cfg : LexCfg} {order : List TokTy} {n : Nat} {line : Str}
    {toks : List Tok} (h : LexSpec cfg order n line toks) {t : Tok} (ht : t ∈ toks)
    (hty : t.ty = .SYMBOL) :
    ∀ c, (line.drop (t.offset + t.text.length)).head? = some c → c ∈ cfg.symExcl := by
  have := tok_longest h t ht
  rw [hty] at this
  intro c hc
  exact isMatch_symbol_maximal this c (by rwa [List.drop_drop])

example : ∀ c, ("ab c".toList.drop (0 + 2)).head? = some c → c ∈ Generated.lexCfg.symExcl :=
  symbol_maximal (lex_spec_penman 1 "ab c".toList) (t := ⟨.SYMBOL, "ab".toList, 1, 0⟩)
    (by decide) rfl

/-- ROLE tokens are maximal -/
theorem role_maximal {cfg : LexCfg} {order : List TokTy} {n : Nat} {line : Str}
    {toks : List Tok} (h : LexSpec cfg order n line toks) {t : Tok} (ht : t ∈ toks)
    (hty : t.ty = .ROLE) :
    ∀ c, (line.drop (t.offset + t.text.length)).head? = some c → c ∈ cfg.roleExcl := by
  have := tok_longest h t ht
  rw [hty] at this
  intro c hc
  exact isMatch_role_maximal this c (by rwa [List.drop_drop])

example : ∀ c, ("x :r(".toList.drop (2 + 2)).head? = some c → c ∈ Generated.lexCfg.roleExcl :=
  role_maximal (lex_spec_penman 1 "x :r(".toList) (t := ⟨.ROLE, ":r".toList, 1, 2⟩)
    (by decide) rfl

/-- a COMMENT token extends to the end of the line (a final LF excluded) -/
theorem comment_to_eol {cfg : LexCfg} {order : List TokTy} {n : Nat} {line : Str}
    {toks : List Tok} (h : LexSpec cfg order n line toks) {t : Tok} (ht : t ∈ toks)
    (hty : t.ty = .COMMENT) :
    line.drop t.offset = t.text ∨ line.drop t.offset = t.text ++ ['\n'] := by
  have := tok_longest h t ht
  rw [hty] at this
  exact isMatch_comment_rest this

example : "a # b\n".toList.drop 2 = "# b".toList ∨ "a # b\n".toList.drop 2 = "# b".toList ++ ['\n'] :=
  comment_to_eol (lex_spec_penman 1 "a # b\n".toList) (t := ⟨.COMMENT, "# b".toList, 1, 2⟩)
    (by decide) rfl

/-- a STRING token is the one and only string literal starting at its offset -/
theorem string_is_unique_literal {cfg : LexCfg} (hwf : CfgWf cfg = true) {order : List TokTy}
    {n : Nat} {line : Str} {toks : List Tok} (h : LexSpec cfg order n line toks) {t : Tok}
    (ht : t ∈ toks) (hty : t.ty = .STRING) {m : Str} (hm : IsString cfg m)
    (hp : m <+: line.drop t.offset) : m = t.text := by
  have := tok_longest h t ht
  rw [hty] at this
  exact isMatch_string_unique (CfgWf.toP hwf) this hm hp

example (m : Str) (hm : IsString Generated.lexCfg m) (hp : m <+: "x \"a\\\"b\" \"".toList.drop 2) :
    m = "\"a\\\"b\"".toList :=
  string_is_unique_literal cfg_wf (lex_spec_penman 1 "x \"a\\\"b\" \"".toList)
    (t := ⟨.STRING, "\"a\\\"b\"".toList, 1, 2⟩) (by decide) rfl hm hp

/-- each scanner computes exactly the longest match of its class … -/
theorem scanner_is_longest_match {cfg : LexCfg} (hwf : CfgWf cfg = true) (ty : TokTy) (s m : Str) :
    scanTy cfg ty s = some m ↔ IsMatch cfg ty s m :=
  scanTy_some_iff (CfgWf.toP hwf)

/-- … and fails exactly when the class has no match -/
theorem scanner_fails_iff {cfg : LexCfg} (hwf : CfgWf cfg = true) (ty : TokTy) (s : Str) :
    scanTy cfg ty s = none ↔ ∀ m, ¬ Matches cfg ty s m :=
  scanTy_none_iff (CfgWf.toP hwf)

/-! ## line numbers and line splitting -/

/-- `_lex` numbers the lines with `enumerate(lines, 1)` -/
theorem lineno_enumerate (cfg : LexCfg) (order : List TokTy) (lines : List Str) :
    lexLines cfg order lines =
      ((lines.zipIdx 1).map fun p => lexLine cfg order p.2 p.1).flatten :=
  lexLinesFrom_eq cfg order lines 1

theorem lexStr_lineno (cfg : LexCfg) (order : List TokTy) (s : Str) :
    lexStr cfg order s =
      (((splitLines s).zipIdx 1).map fun p => lexLine cfg order p.2 p.1).flatten :=
  lineno_enumerate cfg order (splitLines s)

/-- `splitLines` splits exactly at LF, CRLF and lone CR -/
theorem splitLines_spec (s : Str) : Splits s (splitLines s) := splitLines_splits s

theorem splitLines_unique {s : Str} {ps : List Str} (h : Splits s ps) : ps = splitLines s :=
  splits_eq_splitLines h

example : Splits "a\r\nb".toList ["a".toList, "b".toList] :=
  .crlf "a".toList "b".toList _ ⟨by decide, by decide⟩ (.last _ ⟨by decide, by decide⟩)

/-- re-joining the pieces with the removed terminators gives the string back; no piece
    contains `\n` or `\r` -/
theorem splitLines_join (s : Str) :
    ∃ terms : List Str, terms.length + 1 = (splitLines s).length ∧
      (∀ t ∈ terms, t = ['\n'] ∨ t = ['\r', '\n'] ∨ t = ['\r']) ∧
      joinWith (splitLines s) terms = s ∧ ∀ p ∈ splitLines s, '\n' ∉ p ∧ '\r' ∉ p :=
  splits_join (splitLines_splits s)

/-! ## non-vacuity -/

/-- the example line of the task, fully lexed (graph pattern) -/
example : lexLine Generated.lexCfg Generated.lexCfg.penmanOrder 1
      "(a / b~e.1 :ARG0 \"x \\\" y\" # c".toList =
    [⟨.LPAREN, "(".toList, 1, 0⟩, ⟨.SYMBOL, "a".toList, 1, 1⟩, ⟨.SLASH, "/".toList, 1, 3⟩,
     ⟨.SYMBOL, "b".toList, 1, 5⟩, ⟨.ALIGNMENT, "~e.1".toList, 1, 6⟩,
     ⟨.ROLE, ":ARG0".toList, 1, 11⟩, ⟨.STRING, "\"x \\\" y\"".toList, 1, 17⟩,
     ⟨.COMMENT, "# c".toList, 1, 26⟩] := by decide

/-- … and it satisfies the specification (instance of `lex_spec_penman`) -/
example : LexSpec Generated.lexCfg Generated.lexCfg.penmanOrder 1
      "(a / b~e.1 :ARG0 \"x \\\" y\" # c".toList
      (lexLine Generated.lexCfg Generated.lexCfg.penmanOrder 1
        "(a / b~e.1 :ARG0 \"x \\\" y\" # c".toList) := lex_spec_penman _ _

/-- upper-case alignment prefix, several indices, VT/FF as separators, exotic spaces are
    *not* separators (NBSP, U+3000, U+2028, U+0085 are part of the symbol) -/
example : (lexLine Generated.lexCfg Generated.lexCfg.penmanOrder 7
      "x~E.1,22\x0b:r\x0c\"\"y\u00a0z\u3000\u2028\u0085w".toList).map (fun t => (t.ty, t.text, t.offset)) =
    [(.SYMBOL, "x".toList, 0), (.ALIGNMENT, "~E.1,22".toList, 1), (.ROLE, ":r".toList, 9),
     (.STRING, "\"\"".toList, 12), (.SYMBOL, "y\u00a0z\u3000\u2028\u0085w".toList, 14)] := by decide

/-- the triple pattern has no ROLE/ALIGNMENT/SLASH: `~`, `/`, `:` come out UNEXPECTED -/
example : (lexLine Generated.lexCfg Generated.lexCfg.tripleOrder 3
      "i(a, b~1) ^ :x".toList).map (fun t => (t.ty, t.text, t.offset)) =
    [(.SYMBOL, "i".toList, 0), (.LPAREN, "(".toList, 1), (.SYMBOL, "a,".toList, 2),
     (.SYMBOL, "b".toList, 5), (.UNEXPECTED, "~".toList, 6), (.SYMBOL, "1".toList, 7),
     (.RPAREN, ")".toList, 8), (.SYMBOL, "^".toList, 10), (.UNEXPECTED, ":".toList, 12),
     (.SYMBOL, "x".toList, 13)] := by decide

/-- an unterminated string is not a STRING: the quote is UNEXPECTED -/
example : (lexLine Generated.lexCfg Generated.lexCfg.penmanOrder 1 "\"ab\\\"".toList).map
      (fun t => (t.ty, t.text, t.offset)) =
    [(.UNEXPECTED, "\"".toList, 0), (.SYMBOL, "ab\\".toList, 1), (.UNEXPECTED, "\"".toList, 4)] := by
  decide

/-- grammar predicates are inhabited by non-trivial values -/
example : IsAlignment Generated.lexCfg "~e.1,23".toList :=
  ⟨"e.".toList, "1".toList, ",23".toList, rfl, .inr ⟨'e', by decide, .inr rfl⟩,
    ⟨by decide, by decide⟩, .cons "23".toList [] ⟨by decide, by decide⟩ .nil⟩

example : IsString Generated.lexCfg "\"x \\\" y\"".toList :=
  ⟨_, rfl, .plain 'x' _ (by decide) (.plain ' ' _ (by decide) (.esc '"' _ (by decide)
    (.plain ' ' _ (by decide) (.plain 'y' _ (by decide) .close))))⟩

/-- line splitting and numbering -/
example : splitLines "a\r\nb\rc\n\nd".toList = ["a".toList, "b".toList, "c".toList, [], "d".toList] := by
  decide

example : (lexStr Generated.lexCfg Generated.lexCfg.penmanOrder "(a\r\n:b\r\rc)".toList).map
      (fun t => (t.ty, t.lineno, t.offset)) =
    [(.LPAREN, 1, 0), (.SYMBOL, 1, 1), (.ROLE, 2, 0), (.SYMBOL, 4, 0), (.RPAREN, 4, 1)] := by decide

/-- the separator lemmas apply to concrete input (hypotheses are satisfiable) -/
example (rest : Str) (n off : Nat) :
    lexAux Generated.lexCfg Generated.lexCfg.penmanOrder n (("ab".toList ++ ')' :: rest).length + 1) off
        ("ab".toList ++ ')' :: rest) =
      ⟨.SYMBOL, "ab".toList, n, off⟩ ::
        lexAux Generated.lexCfg Generated.lexCfg.penmanOrder n ((')' :: rest).length + 1) (off + 2)
          (')' :: rest) :=
  lexAux_symbol (CfgWf.toP cfg_wf) (by decide) (by decide) ⟨by decide, by decide⟩ (by decide)
    (by intro c hc; simp at hc; subst hc; decide) n _ off (by omega)

end Penman.C08

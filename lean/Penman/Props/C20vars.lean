import Penman.Proofs.NormalFormVarsCli
import Penman.Props.C20genEval
/-!
# C20 (normal-form clause) — `--make-variables FMT`, hypotheses on the FIRST pass only

Property C20 (the `penman` command): "… feeding the tool's output back to it with the same options reproduces
it byte for byte …".  `Penman/Props/C20genVars.lean` proved `reset_variables_idempotent` and
`make_variables_normal_form_partial` (hypotheses on the PRINTED, relabelled tree) and left
`make_variables_normal_form` as UNPROVED (stated).  This file proves it.

Model functions: `processInput`, `processTree`, `processIn`, `processOut` (Penman/Main.lean), `configure`,
`rearrange`, `Node.resetVariables`, `buildVarmap`, `Node.mapVars` (Penman/Tree.lean), `interpret`,
`canonicalizeRoles`, `reifyEdges`, `dereifyEdges`, `reifyAttributes`.
Vocabulary: `varOpts`, `stageOpts`, `StagesFixed`, `LayoutOK` (Spec/NormalFormGraph.lean), `nfTree`, `canonStep`,
`streamOut` (Spec/NormalForm.lean), `WfReset` (Props/C10.lean), `Spec.symbolB` (Spec/TextWf.lean),
`WfGraph`, `GraphTextOK`, `PushVars`, `NoNum`.

Clause ↦ theorem
* "with `--make-variables FMT` (and any of `--canonicalize-roles`, `--rearrange KEY`, `--reify-edges`,
  `--dereify-edges`, `--reify-attributes`, `--indent`, `--compact`) the output is reproduced byte for byte"
  ↦ `make_variables_normal_form` (one graph) and `make_variables_normal_form_stream` (any number of graphs in
  one input).  Hypotheses, all decidable, on the FIRST pass only: those of
  `Penman.C20gen.cli_normal_form_graph_stages` on the first-pass graph `g1` and on the rearranged tree
  `R = nfTree m re (configure g1)` BEFORE relabelling (`WfGraph`, `LayoutOK`, `GraphTextOK`, `PushVars`, `NoNum`,
  `canonStep R = R`, `StagesFixed R`), plus: the variable map `vm` that `reset_variables` builds for `R`
  satisfies C10's `WfReset` (old variables do not start with `"`, new names contain no `~` and do not start with
  `"`, NO CONSTANT IS SPELLED LIKE A NEW NAME, references hang on roles that do not give `:instance`), and the
  new names are SYMBOL texts (`hnames`).  The template need not be progressive: success of the relabelling
  (`hrv`) is a hypothesis (for a progressive template it follows from C10 `reset_total`).
  Proof: the printed tree is `N' = RV.renNode vm R.node` (C10 `reset_shape`); each fact the second pass needs
  about `N'` is transported along the renaming:
  (a) `WfLayout`, `noNullN` — `RV.wfLayout_ren`, `RV.noNullN_ren` (Proofs/NormalFormVarsLayout.lean);
  (b) `WfTreeText` — `RV.wfTreeText_ren`; (c) rearrangement fixed point — `RV.rearrangeOpt_ren_fixed`;
  (d) canonicalisation fixed point — `RV.canonStep_ren_fixed` (Proofs/NormalFormVarsTree*.lean);
  (e) `StagesFixed` — C10 `interpret_ren` + `RV.stagesIdle_interpret_ren` (Proofs/NormalFormVarsStages*.lean):
  `NoReifiable`, `NoCollapsible`, `NoAttributes` are invariant under an injective renaming of the variables
  that captures no constant;
  then `tree_normal_form_vars` (second-pass relabelling is the identity by `reset_variables_idempotent`).
* the proviso "no constant is spelled like a new name" is NEEDED ↦ `make_variables_capture_counterexample`:
  `penman --amr --make-variables '{prefix}{j}'` on `(x / foo :ARG0-of f)` prints `(f / foo :ARG0-of f)`, and on
  that prints `(f / foo :ARG0 f)`.  Replayed on /repo: same two outputs (the real `reset_variables` does not
  avoid names that collide with constants), so this is a boundary of the property that the real code shares,
  not a discrepancy of the model.

Nothing is left UNPROVED (stated) in this file.
-/
namespace Penman.C20gen
open Penman Penman.NF Penman.Cfg Penman.C03Text Penman.Framing Penman.C20nf

/-- **normal-form clause with `--make-variables`, one graph, hypotheses on the first pass only.**
    The input parses completely as `T`; the first pass turns it into the graph `g1` and encodes `g1` as `T1`;
    `R = nfTree m re T1` is the rearranged tree, `vm` the variable map `reset_variables` builds for it and `N'`
    its relabelling — the printed tree is `⟨N', metadata⟩`. -/
theorem make_variables_normal_form {cfg : LexCfg} (hwc : Spec.FmtCfgWf cfg = true) (hsep : SepChar cfg '\n')
    (u : UTables) (m : Model) (canon : Bool) (re : Option (List KeyFn × Bool)) (rE dE rA : Bool) (fmt : Fmt)
    (i : Indent) (c : Bool) (hw : ModelWf m) (hnoop : m.noop = false)
    (x : Str) (T : Tree) (g1 : Graph) (T1 : Tree) (N' : Node) (vm : AList Str Str)
    (hp : parseTree ⟨eofPos (lexStr cfg cfg.penmanOrder x)⟩ u.isSpace (lexStr cfg cfg.penmanOrder x)
      = .ok (T, []))
    (hin : processIn u m (varOpts canon re rE dE rA fmt i c) T = .ok g1)
    (hcf : configure m g1 none = .ok T1)
    (hg : WfGraph m g1) (hL : LayoutOK m g1) (htx : GraphTextOK cfg u.isSpace m g1) (hpv : Cfg.PushVars g1)
    (hnum : NoNum g1)
    (hcanon : canonStep m canon (nfTree m re T1) = .ok (nfTree m re T1))
    (hfix : StagesFixed u.isAlpha m (stageOpts canon re rE dE rA i c) (nfTree m re T1))
    (hvm : buildVarmap u.isAlpha u.lower fmt (nfTree m re T1).node.nodes [] [] = some vm)
    (hrv : (nfTree m re T1).node.resetVariables u.isAlpha u.lower fmt = .ok N')
    (hreset : WfReset m vm (nfTree m re T1).node = true)
    (hnames : ∀ v ∈ N'.vars, Spec.symbolB cfg v = true) :
    let out1 := format ⟨N', T1.metadata⟩ i c ++ ['\n']
    processInput cfg u m (varOpts canon re rE dE rA fmt i c) x = (out1, .ok 0) ∧
    processInput cfg u m (varOpts canon re rE dE rA fmt i c) out1 = (out1, .ok 0) := by
  have key := tree_normal_form_vars_first (cfg := cfg) hwc u m canon re rE dE rA fmt i c hw hnoop T g1 T1 N' vm
    hin hcf hg hL htx hpv hnum hcanon hfix hvm hrv hreset hnames
  have := stream_fixed hwc hsep u m (varOpts canon re rE dE rA fmt i c) x [⟨x, T, ⟨N', T1.metadata⟩⟩]
    (by intro g hgm; simp only [List.mem_singleton] at hgm; subst hgm; exact ⟨⟨_, hp⟩, key⟩)
    (by simpa using LSim.refl_nil u.isSpace _)
  simpa [streamOut, varOpts, stageOpts] using this

/-- the hypotheses of `make_variables_normal_form` on one graph of a stream: its text `s`, the parsed tree `T`,
    the first-pass graph `g1`, its encoding `T1`, the variable map `vm` and the relabelled node `N'` -/
structure VarRun (cfg : LexCfg) (u : UTables) (m : Model) (canon : Bool) (re : Option (List KeyFn × Bool))
    (rE dE rA : Bool) (fmt : Fmt) (i : Indent) (c : Bool) (s : Str) (T : Tree) (g1 : Graph) (T1 : Tree)
    (vm : AList Str Str) (N' : Node) : Prop where
  parse : ∃ c0, parseTree c0 u.isSpace (lexStr cfg cfg.penmanOrder s) = .ok (T, [])
  first : processIn u m (varOpts canon re rE dE rA fmt i c) T = .ok g1
  enc : configure m g1 none = .ok T1
  wf : WfGraph m g1
  lay : LayoutOK m g1
  text : GraphTextOK cfg u.isSpace m g1
  push : Cfg.PushVars g1
  noNum : NoNum g1
  canonFix : canonStep m canon (nfTree m re T1) = .ok (nfTree m re T1)
  fixed : StagesFixed u.isAlpha m (stageOpts canon re rE dE rA i c) (nfTree m re T1)
  varmap : buildVarmap u.isAlpha u.lower fmt (nfTree m re T1).node.nodes [] [] = some vm
  reset : (nfTree m re T1).node.resetVariables u.isAlpha u.lower fmt = .ok N'
  wfReset : WfReset m vm (nfTree m re T1).node = true
  names : ∀ v ∈ N'.vars, Spec.symbolB cfg v = true

/-- **normal-form clause with `--make-variables`, streams**: any number of graphs in one input (separated by
    anything that produces no tokens) -/
theorem make_variables_normal_form_stream {cfg : LexCfg} (hwc : Spec.FmtCfgWf cfg = true)
    (hsep : SepChar cfg '\n') (u : UTables) (m : Model) (canon : Bool) (re : Option (List KeyFn × Bool))
    (rE dE rA : Bool) (fmt : Fmt) (i : Indent) (c : Bool) (hw : ModelWf m) (hnoop : m.noop = false)
    (x : Str) (gs : List (Str × Tree × Graph × Tree × AList Str Str × Node))
    (hg : ∀ g ∈ gs, VarRun cfg u m canon re rE dE rA fmt i c g.1 g.2.1 g.2.2.1 g.2.2.2.1 g.2.2.2.2.1 g.2.2.2.2.2)
    (hx : LSim u.isSpace [] (gs.map fun g => lexStr cfg cfg.penmanOrder g.1).flatten
      (lexStr cfg cfg.penmanOrder x)) :
    let out1 := streamOut true (gs.map fun g => format ⟨g.2.2.2.2.2, g.2.2.2.1.metadata⟩ i c)
    processInput cfg u m (varOpts canon re rE dE rA fmt i c) x = (out1, .ok 0) ∧
    processInput cfg u m (varOpts canon re rE dE rA fmt i c) out1 = (out1, .ok 0) := by
  have := stream_fixed hwc hsep u m (varOpts canon re rE dE rA fmt i c) x
    (gs.map fun g => ⟨g.1, g.2.1, ⟨g.2.2.2.2.2, g.2.2.2.1.metadata⟩⟩)
    (by
      intro r hr; simp only [List.mem_map] at hr
      obtain ⟨g, hgm, rfl⟩ := hr
      have h := hg g hgm
      exact ⟨h.parse, tree_normal_form_vars_first (cfg := cfg) hwc u m canon re rE dE rA fmt i c hw hnoop g.2.1
        g.2.2.1 g.2.2.2.1 g.2.2.2.2.2 g.2.2.2.2.1 h.first h.enc h.wf h.lay h.text h.push h.noNum h.canonFix h.fixed
        h.varmap h.reset h.wfReset h.names⟩)
    (by simpa [List.map_map, Function.comp_def] using hx)
  simpa [List.map_map, Function.comp_def, varOpts, stageOpts] using this

/-! ## non-vacuity: `penman --amr --make-variables 'v{i}' --rearrange canonical` -/

/-- three nodes and a re-entrancy -/
def vxText : Str := s "(a / alpha :ARG1 (b / beta :ARG0 (g / gamma)) :ARG0 g)"
def vxTree : Tree :=
  ⟨.mk (some (s "a")) (.atom (s "/") (.str (s "alpha"))
    (.sub (s ":ARG1") (.mk (some (s "b")) (.atom (s "/") (.str (s "beta"))
      (.sub (s ":ARG0") (.mk (some (s "g")) (.atom (s "/") (.str (s "gamma")) .nil)) .nil)))
    (.atom (s ":ARG0") (.str (s "g")) .nil))), []⟩

def vxG1 : Graph :=
  { triples := [T3 "a" ":instance" (S3 "alpha"), T3 "a" ":ARG1" (S3 "b"), T3 "b" ":instance" (S3 "beta"),
      T3 "b" ":ARG0" (S3 "g"), T3 "g" ":instance" (S3 "gamma"), T3 "a" ":ARG0" (S3 "g")],
    top := some (s "a"),
    epidata := [(T3 "a" ":instance" (S3 "alpha"), []), (T3 "a" ":ARG1" (S3 "b"), [.push (s "b")]),
      (T3 "b" ":instance" (S3 "beta"), []), (T3 "b" ":ARG0" (S3 "g"), [.push (s "g")]),
      (T3 "g" ":instance" (S3 "gamma"), [.pop, .pop]), (T3 "a" ":ARG0" (S3 "g"), [])],
    metadata := [] }

/-- `--rearrange canonical` -/
abbrev vxRe : Option (List KeyFn × Bool) := some ([.canonical], false)
/-- the template `v{i}` -/
abbrev vxFmt : Fmt := [.lit (s "v"), .i]
abbrev vxOpts (i : Indent) (c : Bool) : Opts := varOpts false vxRe false false false vxFmt i c

/-- the rearranged tree `(a / alpha :ARG0 g :ARG1 (b / beta :ARG0 (g / gamma)))` … -/
def vxR : Node :=
  .mk (some (s "a")) (.atom (s "/") (.str (s "alpha"))
    (.atom (s ":ARG0") (.str (s "g"))
    (.sub (s ":ARG1") (.mk (some (s "b")) (.atom (s "/") (.str (s "beta"))
      (.sub (s ":ARG0") (.mk (some (s "g")) (.atom (s "/") (.str (s "gamma")) .nil)) .nil))) .nil)))
/-- … its variable map (depth-first order of the REARRANGED tree) … -/
def vxVm : AList Str Str := [(s "a", s "v0"), (s "b", s "v1"), (s "g", s "v2")]
/-- … and the printed tree `(v0 / alpha :ARG0 v2 :ARG1 (v1 / beta :ARG0 (v2 / gamma)))` -/
def vxN : Node :=
  .mk (some (s "v0")) (.atom (s "/") (.str (s "alpha"))
    (.atom (s ":ARG0") (.str (s "v2"))
    (.sub (s ":ARG1") (.mk (some (s "v1")) (.atom (s "/") (.str (s "beta"))
      (.sub (s ":ARG0") (.mk (some (s "v2")) (.atom (s "/") (.str (s "gamma")) .nil)) .nil))) .nil)))

theorem vx_parse : parseTree ⟨eofPos (lexStr gcfg gcfg.penmanOrder vxText)⟩ uT.isSpace
    (lexStr gcfg gcfg.penmanOrder vxText) = .ok (vxTree, []) := by decide +kernel
theorem vx_in (i : Indent) (c : Bool) : processIn uT amr (vxOpts i c) vxTree = .ok vxG1 := by
  have : processIn uT amr (vxOpts i c) vxTree = processIn uT amr (vxOpts none false) vxTree := rfl
  rw [this]; decide +kernel
theorem vx_cf : configure amr vxG1 none = .ok vxTree := by rw [C02.configure_eq]; decide +kernel
theorem vx_wf : WfGraph amr vxG1 ∧ LayoutOK amr vxG1 ∧ GraphTextOK gcfg uT.isSpace amr vxG1 ∧
    Cfg.PushVars vxG1 ∧ NoNum vxG1 := by decide +kernel
theorem vx_R : nfTree amr vxRe vxTree = ⟨vxR, []⟩ := by
  have h0 : dropNullConcept vxTree.node = vxTree.node := by decide +kernel
  have hs : s "/" = ['/'] := by decide
  have h2 : ∀ n, branchLe amr [] (some [.canonical]) (s ":ARG1", .node n) (s ":ARG0", .atom (.str (s "g")))
      = false := by
    intro n; simp [branchLe, branchKey, RA.branchTargetInVars_nil]; decide +kernel
  simp only [nfTree, rearrangeOpt, rearrange, h0]
  simp only [vxTree, vxR, hs, rearrangeNode, rearrangeKids, RA.sortBranches_pair, RA.sortBranches_singleton, if_true,
    Bool.false_eq_true, if_false, h2]
  simp [Branches.ofList, sortBranches]
theorem vx_fix (i : Indent) (c : Bool) :
    StagesFixed uT.isAlpha amr (stageOpts false vxRe false false false i c) (nfTree amr vxRe vxTree) :=
  stagesFixed_congr (o := stageOpts false vxRe false false false none false) rfl rfl rfl
    (by rw [vx_R]; decide +kernel)
theorem vx_reset : buildVarmap uT.isAlpha uT.lower vxFmt (nfTree amr vxRe vxTree).node.nodes [] [] = some vxVm ∧
    (nfTree amr vxRe vxTree).node.resetVariables uT.isAlpha uT.lower vxFmt = .ok vxN ∧
    WfReset amr vxVm (nfTree amr vxRe vxTree).node = true ∧
    (∀ v ∈ vxN.vars, Spec.symbolB gcfg v = true) := by
  rw [vx_R]; decide +kernel

/-- `make_variables_normal_form` instantiated: every indentation, compact or not -/
theorem vx_normal_form (i : Indent) (c : Bool) :
    let out1 := format ⟨vxN, []⟩ i c ++ ['\n']
    processInput gcfg uT amr (vxOpts i c) vxText = (out1, .ok 0) ∧
    processInput gcfg uT amr (vxOpts i c) out1 = (out1, .ok 0) :=
  make_variables_normal_form C01.fmt_cfg_wf sepChar_generated uT amr false vxRe false false false vxFmt i c
    C13.modelWf_amr (by decide) vxText vxTree vxG1 vxTree vxN vxVm vx_parse (vx_in i c) vx_cf vx_wf.1 vx_wf.2.1
    vx_wf.2.2.1 vx_wf.2.2.2.1 vx_wf.2.2.2.2 rfl (vx_fix i c) vx_reset.1 vx_reset.2.1 vx_reset.2.2.1 vx_reset.2.2.2

/-- the text that is printed (adaptive indentation); /repo prints the same bytes, twice -/
theorem vx_out : format ⟨vxN, []⟩ (some (-1)) false =
    s "(v0 / alpha\n    :ARG0 v2\n    :ARG1 (v1 / beta\n              :ARG0 (v2 / gamma)))" := by decide +kernel

/-- the stream version on two copies of the graph -/
example (i : Indent) (c : Bool) (x : Str)
    (hx : LSim uT.isSpace [] ([vxText, vxText].map (lexStr gcfg gcfg.penmanOrder)).flatten
      (lexStr gcfg gcfg.penmanOrder x)) :
    let out1 := streamOut true [format ⟨vxN, []⟩ i c, format ⟨vxN, []⟩ i c]
    processInput gcfg uT amr (vxOpts i c) x = (out1, .ok 0) ∧
    processInput gcfg uT amr (vxOpts i c) out1 = (out1, .ok 0) := by
  have hr : VarRun gcfg uT amr false vxRe false false false vxFmt i c vxText vxTree vxG1 vxTree vxVm vxN :=
    ⟨⟨_, vx_parse⟩, vx_in i c, vx_cf, vx_wf.1, vx_wf.2.1, vx_wf.2.2.1, vx_wf.2.2.2.1, vx_wf.2.2.2.2, rfl, vx_fix i c,
      vx_reset.1, vx_reset.2.1, vx_reset.2.2.1, vx_reset.2.2.2⟩
  exact make_variables_normal_form_stream C01.fmt_cfg_wf sepChar_generated uT amr false vxRe false false false vxFmt
    i c C13.modelWf_amr (by decide) x
    [(vxText, vxTree, vxG1, vxTree, vxVm, vxN), (vxText, vxTree, vxG1, vxTree, vxVm, vxN)]
    (by intro g hg; simp only [List.mem_cons, List.not_mem_nil, or_false, or_self] at hg; subst hg; exact hr)
    (by simpa using hx)

/-! ## the proviso of `WfReset` is needed -/

/-- **boundary (shared by the real tool)**: `penman --amr --make-variables '{prefix}{j}'` on `(x / foo :ARG0-of f)`.
    The new name of `x` is `f`, which is also a constant of the graph: the printed `(f / foo :ARG0-of f)` reads back
    as a self-loop, which decoding deinverts, and the second pass prints `(f / foo :ARG0 f)`.  `WfReset` is false. -/
theorem make_variables_capture_counterexample :
    let o := varOpts false none false false false [.pre, .j] (some (-1)) false
    processInput gcfg uT amr o (s "(x / foo :ARG0-of f)") = (s "(f / foo\n   :ARG0-of f)\n", .ok 0) ∧
    processInput gcfg uT amr o (s "(f / foo\n   :ARG0-of f)\n") = (s "(f / foo\n   :ARG0 f)\n", .ok 0) ∧
    WfReset amr [(s "x", s "f")]
      (.mk (some (s "x")) (.atom (s "/") (.str (s "foo")) (.atom (s ":ARG0-of") (.str (s "f")) .nil))) = false := by
  refine ⟨?_, ?_, ?_⟩
  · cli_decide
  · cli_decide
  · decide +kernel

end Penman.C20gen

/-
  Penman.Proofs.AlignText1 — the configured tree of a graph WITH alignment markers is grammar-valid
  at the character level (`Cfg.encoded_tree_wf` of EncodeDecodeB redone for `EncodedAl`):
  every edge of the store is written as ROLE text (+ ALIGNMENT text) and SYMBOL/STRING text
  (+ ALIGNMENT text).
-/
import Penman.Proofs.Align8
import Penman.Proofs.EncodeDecodeB
import Penman.Spec.AlignTextOK
set_option linter.unusedSimpArgs false
namespace Penman
namespace Cfg
namespace Al
open Penman.Spec Penman.C03Text Penman.Spec.Reading

variable {cfg : LexCfg}

/-- a text `p` accepts, followed by an ALIGNMENT text, is an aligned `p` text
    (`alignedB` tries every split point) -/
theorem alignedB_append {p : Str → Bool} {s a : Str} (hp : p s = true) (ha : alignmentB cfg a = true) :
    alignedB cfg p (s ++ a) = true :=
  (FL.alignedB_iff _ _).2 ⟨s, a, rfl, hp, .inr ha⟩

/-- an edge whose written texts are grammar-valid -/
def EdgeTextAl (cfg : LexCfg) (e : Edge) : Prop :=
  (e.role = ['/'] → outRole e = ['/'] ∧ ∃ a, e.tgt = .atom a ∧ atomB cfg (writtenAtom (outAtom e a)) = true) ∧
  (e.role ≠ ['/'] → roleTextB cfg (outRole e) = true ∧
     (∀ a, e.tgt = .atom a → atomB cfg (writtenAtom (outAtom e a)) = true) ∧
     (∀ w, e.tgt = .node w → symbolB cfg w = true))

structure CellTextAl (cfg : LexCfg) (es : List Edge) : Prop where
  tail : ∀ e r, es = e :: r → ∀ x ∈ r, x.role ≠ ['/']
  edge : ∀ e ∈ es, EdgeTextAl cfg e

theorem branches_wf_al (C : Cells) (f : Nat)
    (hP : ∀ f' w n, f = f' + 1 → symbolB cfg w = true → buildNode C f' w = .ok n →
      wfNodeB cfg (writtenForm n) = true) :
    ∀ (es : List Edge) (bs : Branches), (∀ e ∈ es, EdgeTextAl cfg e ∧ e.role ≠ ['/']) →
      buildBranches C f es = .ok bs → wfEdgesB cfg (writtenBs bs) = true := by
  intro es
  induction es with
  | nil =>
    intro bs _ h
    simp only [buildBranches, Except.ok.injEq] at h; subst h
    rfl
  | cons e es ih =>
    intro bs hes h
    simp only [buildBranches] at h
    cases hrest : buildBranches C f es with
    | error x => rw [hrest] at h; simp [bind, Except.bind] at h
    | ok rest =>
      rw [hrest] at h
      simp only [bind, Except.bind] at h
      have i1 := ih rest (fun e' he' => hes e' (List.mem_cons_of_mem _ he')) hrest
      obtain ⟨⟨_, hE⟩, hns⟩ := hes e List.mem_cons_self
      obtain ⟨hr, ha, hn⟩ := hE hns
      cases htg : e.tgt with
      | atom a =>
        rw [htg] at h
        simp only [pure, Except.pure, Except.ok.injEq] at h
        subst h
        have h1 : (applyEpis e.role (some (atomStr a)) e.epis).1 = outRole e := applyEpis_fst _ _ _
        have h2 := ha a htg
        simp only [outAtom] at h2
        simp only [writtenBs, wfEdgesB, h1, hr, h2, i1, Bool.and_self]
      | node w =>
        rw [htg] at h
        cases f with
        | zero => simp at h
        | succ f1 =>
          simp only [] at h
          cases hnode : buildNode C f1 w with
          | error x => rw [hnode] at h; simp at h
          | ok n =>
            rw [hnode] at h
            simp only [pure, Except.pure, Except.ok.injEq] at h
            subst h
            have := hP f1 w n rfl (hn w htg) hnode
            have h1 : (applyEpis e.role none e.epis).1 = outRole e := rfl
            simp only [writtenBs, wfEdgesB, h1, hr, this, i1, Bool.and_self]

/-- **store → grammar-valid tree**, alignment suffixes included -/
theorem build_wf_al (C : Cells) (hC : ∀ p ∈ C, CellTextAl cfg p.2) : ∀ (f : Nat) (v : Str) (n : Node),
    symbolB cfg v = true → buildNode C f v = .ok n → wfNodeB cfg (writtenForm n) = true := by
  intro f
  induction f using Nat.strongRecOn with
  | _ f ih =>
    intro v n hv h
    cases f with
    | zero => simp [buildNode] at h
    | succ f0 =>
      simp only [buildNode] at h
      cases hb : buildBranches C f0 ((AList.get? C v).getD []) with
      | error e => rw [hb] at h; simp [bind, Except.bind] at h
      | ok bs =>
        rw [hb] at h
        simp only [bind, Except.bind, pure, Except.pure, Except.ok.injEq] at h
        subst h
        have hcell : CellTextAl cfg (cellOf C v) := by
          rcases cellOf_cases C v with h1 | h1
          · rw [h1]; exact ⟨fun e r h => (by cases h), fun e he => absurd he (by simp)⟩
          · exact hC _ h1
        have hQ := branches_wf_al (cfg := cfg) C f0 (fun f' w n' e hw hb' => ih f' (by omega) w n' hw hb')
        change buildBranches C f0 (cellOf C v) = .ok bs at hb
        simp only [writtenForm, wfNodeB, hv, Bool.true_and]
        cases hes : cellOf C v with
        | nil => rw [hes] at hb; simp only [buildBranches, Except.ok.injEq] at hb; subst hb; rfl
        | cons e r =>
          rw [hes] at hb hcell
          have htail := hcell.tail e r rfl
          by_cases hs : e.role = ['/']
          · obtain ⟨hS, _⟩ := hcell.edge e List.mem_cons_self
            obtain ⟨hor, a, hta, hab⟩ := hS hs
            simp only [buildBranches] at hb
            cases hrest : buildBranches C f0 r with
            | error x => rw [hrest] at hb; simp [bind, Except.bind] at hb
            | ok rest =>
              rw [hrest] at hb
              simp only [bind, Except.bind, hta, pure, Except.pure, Except.ok.injEq] at hb
              subst hb
              have i1 := hQ r rest (fun x hx => ⟨hcell.edge x (List.mem_cons_of_mem _ hx), htail x hx⟩) hrest
              have h1 : (applyEpis e.role (some (atomStr a)) e.epis).1 = ['/'] := by
                rw [applyEpis_fst]; exact hor
              simp only [outAtom] at hab
              simp only [writtenBs, wfTopB, h1, if_true, hab, i1, Bool.and_self]
          · have := hQ (e :: r) bs (fun x hx => ⟨hcell.edge x hx, by
              rcases List.mem_cons.1 hx with rfl | hx
              · exact hs
              · exact htail x hx⟩) hb
            exact FL.wfTop_of_edges _ this

/-- **every cell of the store of an encoded graph with alignments is grammar-valid** -/
theorem cells_text_al {isSpace isAlpha : Char → Bool} {m : Model} {g : Graph} {t : Str} {T : Tree} {st : St}
    {l : List Triple} (hw : ModelWf m) (hg : WfGraphAl m g) (hal : AlignOK isAlpha m g)
    (htx : GraphTextOKal cfg isSpace m g) (E : EncodedAl m g t T st l) :
    ∀ p ∈ st.cells, CellTextAl cfg p.2 := by
  have hr2 : ∀ x ∈ g.triples, RoleOK2 m x := fun x hx => roleOK2_of_colon m x (hg.roles x hx).1
  have hsq := storeOf_sq hr2 E.store
  have hgood := storeOf_good E.store
  have hvarsym : ∀ v ∈ g.variables, symbolB cfg v = true := by
    intro v hv
    obtain ⟨t0, ht0, hs0, _⟩ := hg.labelled v hv
    rw [← hs0]; exact htx.base.srcs t0 ht0
  have hedge : ∀ p ∈ st.cells, ∀ e ∈ p.2, EdgeTextAl cfg e := by
    intro p hp e he
    obtain ⟨F, t1, ht1, hv, _, _, _⟩ := edgeFacts (isAlpha := isAlpha) (vars := g.variables) hw hg hal E
      (fun _ => Iff.rfl) hgood.forest hp he
    obtain ⟨_, t2, ht2, hep, _⟩ := edge_resolved hw hg E hp he
    have hmk : ∀ x ∈ e.epis, x.mode ≠ 0 → alignmentB cfg x.toStr = true := by
      intro x hx hm
      rw [hep] at hx
      exact htx.markers t2 ht2 x (List.mem_filter.1 hx).1 hm
    -- the target atom is grammar-valid text
    have hbase : ∀ a, e.tgt = .atom a → TgtTextOK cfg a := by
      intro a ha
      have htg : (Cfg.denote p.1 e).tgt = a := by simp [Cfg.denote, ha]
      rcases hv with hv | ⟨hv, _, _⟩
      · have : t1.tgt = a := by rw [← hv, htg]
        rw [← this]; exact htx.base.tgts t1 ht1
      · have : a = .str t1.src := by rw [← htg, hv, invert_tgt]
        rw [this]
        show (symbolB cfg t1.src || stringB cfg t1.src) = true
        simp [htx.base.srcs t1 ht1]
    have hatom : ∀ a, e.tgt = .atom a → atomB cfg (writtenAtom (outAtom e a)) = true := by
      intro a ha
      rw [outAtom_eq]
      rcases filter_cases F.one2 with h0 | ⟨x, hx, hm, h1⟩
      · rw [if_pos h0]; exact atomB_written_of_tgtOK (hbase a ha)
      · obtain ⟨s, hs, _, _⟩ := F.ta (by rw [h1]; simp)
        have has : a = .str s := by rw [ha] at hs; simpa using hs
        subst has
        rw [if_neg (by rw [h1]; simp)]
        have : taStr e.epis = x.toStr := by simp [taStr, h1]
        rw [this]
        show atomTextB cfg (s ++ x.toStr) = true
        exact alignedB_append (hbase _ ha) (hmk x hx (by omega))
    refine ⟨?_, ?_⟩
    · intro hs
      obtain ⟨a, ha⟩ := slashOK_mem (hsq p hp) he hs
      refine ⟨?_, a, ha, hatom a ha⟩
      have h0 : (e.epis.filter fun x => x.mode = 1) = [] := by
        apply Classical.byContradiction
        intro hne; exact F.ra hne hs
      rw [outRole_eq]
      have : raStr e.epis = [] := by simp [raStr, h0]
      rw [this, List.append_nil, hs]
    · intro hs
      have hrole : (Cfg.denote p.1 e).role = e.role := by simp [Cfg.denote, hs]
      have hb : roleB cfg e.role = true := by
        rcases hv with hv | ⟨hv, _, hr0⟩
        · have e1 : t1.role = e.role := by rw [← hv, hrole]
          rw [← e1]; exact (htx.base.roles t1 ht1 (by rw [e1]; exact F.notInst)).1
        · have e1 : m.invertRole t1.role = e.role := by rw [← invert_role, ← hv, hrole]
          rw [← e1]; exact (htx.base.roles t1 ht1 hr0).2
      refine ⟨?_, hatom, ?_⟩
      · rw [outRole_eq]
        rcases filter_cases F.one1 with h0 | ⟨x, hx, hm, h1⟩
        · have : raStr e.epis = [] := by simp [raStr, h0]
          rw [this, List.append_nil]; exact roleTextB_of_roleB hb
        · have : raStr e.epis = x.toStr := by simp [raStr, h1]
          rw [this]
          exact alignedB_append hb (hmk x hx (by omega))
      · intro w hw'
        exact hvarsym w ((E.keys w).1 (hgood.forest p hp e he w hw').2)
  intro p hp
  refine ⟨?_, hedge p hp⟩
  intro e r hes x hx hxs
  -- two node labels in one cell: impossible
  have hso := hsq p hp
  rw [hes] at hso
  have hes' : e.role = ['/'] := by
    apply Classical.byContradiction
    intro hne; exact hso.2.1 hne x hx hxs
  have hcount : 2 ≤ (placed st.cells).countP (instOf p.1) := by
    have h1 : (p.2.map (Cfg.denote p.1)).countP (instOf p.1) ≤ (placed st.cells).countP (instOf p.1) :=
      countP_le_flatMap (instOf p.1) (fun q : Str × List Edge => q.2.map (Cfg.denote q.1)) hp
    have h2 : 2 ≤ (p.2.map (Cfg.denote p.1)).countP (instOf p.1) := by
      rw [hes, List.map_cons, List.countP_cons]
      have a1 : instOf p.1 (Cfg.denote p.1 e) = true := by simp [instOf, Cfg.denote, hes']
      have a2 : 0 < (r.map (Cfg.denote p.1)).countP (instOf p.1) :=
        List.countP_pos_iff.2 ⟨Cfg.denote p.1 x, List.mem_map.2 ⟨x, hx, rfl⟩, by simp [instOf, Cfg.denote, hxs]⟩
      simp only [a1, if_true]; omega
    omega
  have hle : (placed st.cells).countP (instOf p.1) ≤ 1 := by
    rw [← E.perm.countP_eq]
    have s1 : l.countP (instOf p.1) ≤ (l.map (deinvert1 m g)).countP (instOf p.1) := by
      rw [List.countP_map]
      apply List.countP_mono_left
      intro y _ hy
      simp only [instOf, decide_eq_true_eq] at hy
      simp only [Function.comp, deinvert1_inst m g hy.2]
      simpa [instOf] using hy
    have s2 : (l.map (deinvert1 m g)).countP (instOf p.1) ≤ (g.triples.map (deinvert1 m g)).countP (instOf p.1) := by
      rw [E.same.countP_eq, List.countP_append]; omega
    have s3 : (g.triples.map (deinvert1 m g)).countP (instOf p.1) ≤ g.triples.countP (instOf p.1) := by
      rw [List.countP_map]
      apply List.countP_mono_left
      intro y hy hP
      simp only [Function.comp, instOf, decide_eq_true_eq] at hP ⊢
      unfold deinvert1 at hP
      split at hP
      · rename_i hc
        exfalso
        rw [invert_role] at hP
        by_cases hyr : y.role = CONCEPT_ROLE
        · have hi : m.isRoleInverted y.role = false := by
            rw [hyr]; unfold Model.isRoleInverted
            have : endsWith ofStr CONCEPT_ROLE = false := by decide
            simp [this]
          rw [hi] at hc; exact absurd hc.1 (by simp)
        · exact (hg.noInstOf y hy hyr).1 hP.2
      · exact hP
    have s4 := countP_inst_le_one htx.base.oneLabel p.1
    omega
  omega

/-- **`configure` yields grammar-valid text, alignments included** -/
theorem encodedAl_tree_wf {isSpace isAlpha : Char → Bool} {m : Model} {g : Graph} {t : Str} {T : Tree} {st : St}
    {l : List Triple} (hw : ModelWf m) (hg : WfGraphAl m g) (hal : AlignOK isAlpha m g)
    (htx : GraphTextOKal cfg isSpace m g) (htv : t ∈ g.variables) (E : EncodedAl m g t T st l) :
    WfTreeText cfg (writtenForm T.node) := by
  obtain ⟨t0, ht0, hs0, _⟩ := hg.labelled t htv
  exact build_wf_al st.cells (cells_text_al hw hg hal htx E) _ t T.node
    (by rw [← hs0]; exact htx.base.srcs t0 ht0) E.build

end Al
end Cfg
end Penman

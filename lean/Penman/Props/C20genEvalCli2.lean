import Penman.Props.C20genEvalCli
/-!
# C20 (normal-form clause), GRAPH half — `penman --amr --dereify-edges`, evaluated on the model

Third companion of `Penman/Props/C20gen.lean`: `cli_normal_form_graph_stages` instantiated for
`--dereify-edges` on the text printed by the `--reify-edges` example (every indentation, compact or not).
-/
namespace Penman.C20gen
open Penman Penman.NF Penman.Cfg Penman.C03Text Penman.Framing Penman.C20nf

/-- the way back: `penman --amr --dereify-edges` on that text.  The graph after the stage … -/
def exG2 : Graph :=
  { triples := [T3 "a" ":instance" (S3 "alpha"), T3 "a" ":mod" (S3 "b"), T3 "b" ":instance" (S3 "beta"),
      T3 "a" ":ARG0" (S3 "b"), T3 "a" ":polarity" (S3 "-")],
    top := some (s "a"),
    epidata := [(T3 "a" ":instance" (S3 "alpha"), []), (T3 "b" ":instance" (S3 "beta"), [.pop, .pop]),
      (T3 "a" ":ARG0" (S3 "b"), []), (T3 "a" ":mod" (S3 "b"), [.push (s "b")]),
      (T3 "a" ":polarity" (S3 "-"), [.pop])],
    metadata := [(s "id", s "1")] }

theorem ex_parse4 : parseTree ⟨eofPos (lexStr gcfg gcfg.penmanOrder outText)⟩ uT.isSpace
    (lexStr gcfg gcfg.penmanOrder outText) = .ok (exT1, []) := by decide +kernel
theorem ex_in2 (i : Indent) (c : Bool) : processIn uT amr (optDE i c) exT1 = .ok exG2 := by
  have : processIn uT amr (optDE i c) exT1 = processIn uT amr (optDE none false) exT1 := rfl
  rw [this]; decide +kernel
theorem ex_cf2 : configure amr exG2 none = .ok inTree := by rw [C02.configure_eq]; decide +kernel
theorem ex_wf2 : WfGraph amr exG2 ∧ LayoutOK amr exG2 ∧ GraphTextOK gcfg uT.isSpace amr exG2 ∧
    Cfg.PushVars exG2 ∧ NoNum exG2 := by decide +kernel
/-- … has an empty dereification agenda when decoded again (`dereify_edges` twice = once, here) -/
theorem ex_fix2 (i : Indent) (c : Bool) : StagesFixed uT.isAlpha amr (optDE i c) (nfTree amr none inTree) :=
  stagesFixed_congr (o := optDE none false) rfl rfl rfl (by decide +kernel)

theorem ex_dereify_normal_form (i : Indent) (c : Bool) :
    let out1 := format (nfTree amr none inTree) i c ++ ['\n']
    processInput gcfg uT amr (optDE i c) outText = (out1, .ok 0) ∧
    processInput gcfg uT amr (optDE i c) out1 = (out1, .ok 0) :=
  cli_normal_form_graph_stages C01.fmt_cfg_wf sepChar_generated uT amr false none false true false i c
    C13.modelWf_amr (by decide) outText exT1 exG2 inTree ex_parse4 (ex_in2 i c) ex_cf2 ex_wf2.1 ex_wf2.2.1
    ex_wf2.2.2.1 ex_wf2.2.2.2.1 ex_wf2.2.2.2.2 rfl (ex_fix2 i c)

end Penman.C20gen

/-
  Penman.Proofs.Framing — property C09 "the same text means the same graphs in every
  container and stream framing": glue between the lexer lemmas (FramingSplit,
  FramingLex, FramingLines), the metadata lemma (FramingMeta) and the parser lemmas
  (FramingParse).
-/
import Penman.Proofs.FramingLines
import Penman.Proofs.FramingParse
namespace Penman.Framing
open Penman

/-! ### comments that swallowed white space -/

/-- white space glued to a COMMENT token is invisible to a successful parse, provided the
    comment's last metadata key has its value separator -/
theorem tokSim_tailTok (isSpace : Char → Bool) (rs : Str)
    (hrs : ∀ c ∈ rs, isSpace c = true ∧ c ≠ ':') (t : Tok)
    (h : t.ty = .COMMENT → MetaStable t.text) : TokSim isSpace t (tailTok rs t) := by
  unfold tailTok
  by_cases hc : t.ty = .COMMENT
  · simp only [hc, ↓reduceIte]
    refine ⟨hc, fun hn => absurd hc hn, fun _ md => ?_⟩
    exact (commentMeta_tail isSpace t.text rs md hrs (h hc)).symm
  · simp only [hc, ↓reduceIte]
    exact TokSim.refl isSpace t

theorem lsim_map_tailTok (isSpace : Char → Bool) (rs : Str)
    (hrs : ∀ c ∈ rs, isSpace c = true ∧ c ≠ ':') (ts : List Tok)
    (h : ∀ t ∈ ts, t.ty = .COMMENT → MetaStable t.text) :
    LSim isSpace [] ts (ts.map (tailTok rs)) := by
  induction ts with
  | nil => exact .nil
  | cons t ts ih =>
    exact .cons (tokSim_tailTok isSpace rs hrs t (h t (by simp)))
      (ih (fun x hx => h x (by simp [hx])))

/-! ### line numbers are invisible to a successful parse -/

theorem lexAux_lineno (cfg : LexCfg) (order : List TokTy) (n n' : Nat) : ∀ (f off : Nat) (s : Str),
    lexAux cfg order n f off s =
      (lexAux cfg order n' f off s).map (fun t => { t with lineno := n }) := by
  intro f
  induction f with
  | zero => intro off s; simp [lexAux]
  | succ f ih =>
    intro off s
    cases s with
    | nil => simp [lexAux]
    | cons c cs =>
      simp only [lexAux]
      cases firstMatch cfg order (c :: cs) with
      | none => exact ih _ _
      | some p =>
        obtain ⟨ty, m⟩ := p
        simp only
        split
        · exact ih _ _
        · simp only [List.map_cons]
          rw [ih]

theorem lsim_relineno (isSpace : Char → Bool) (n : Nat) (ts : List Tok) :
    LSim isSpace [] (ts.map (fun t => { t with lineno := n })) ts := by
  induction ts with
  | nil => exact .nil
  | cons t ts ih => exact .cons ⟨rfl, fun _ => rfl, fun _ _ => rfl⟩ ih

theorem lsim_lexLine (isSpace : Char → Bool) (cfg : LexCfg) (order : List TokTy) (n n' : Nat) (l : Str) :
    LSim isSpace [] (lexLine cfg order n l) (lexLine cfg order n' l) := by
  unfold lexLine
  rw [lexAux_lineno cfg order n n']
  exact lsim_relineno isSpace n _

theorem lsim_lexLinesFrom (isSpace : Char → Bool) (cfg : LexCfg) (order : List TokTy) (i j : Nat)
    (ls : List Str) : LSim isSpace [] (lexLinesFrom cfg order i ls) (lexLinesFrom cfg order j ls) := by
  induction ls generalizing i j with
  | nil => exact .nil
  | cons l ls ih => exact LSim.append (lsim_lexLine isSpace cfg order i j l) (ih _ _)

/-! ### texts joined by newlines (what `dumps` / `dump` write) -/

theorem splitLines_replicate_lf (k : Nat) (b : Str) :
    splitLines (List.replicate k '\n' ++ b) = List.replicate k [] ++ splitLines b := by
  induction k with
  | zero => simp
  | succ k ih => simp [List.replicate_succ, splitLines_lf, ih]

theorem lexLinesFrom_replicate_nil (cfg : LexCfg) (order : List TokTy) (i k : Nat) :
    lexLinesFrom cfg order i (List.replicate k []) = [] := by
  induction k generalizing i with
  | zero => simp [lexLinesFrom]
  | succ k ih => simp [List.replicate_succ, lexLinesFrom, lexLine_nil, ih]

theorem lexLinesFrom_trail (cfg : LexCfg) (order : List TokTy) (i : Nat) (trail : Str)
    (ht : trail = [] ∨ trail = ['\n']) : lexLinesFrom cfg order i (splitLines trail) = [] := by
  rcases ht with rfl | rfl <;> simp [splitLines, lexLinesFrom, lexLine_nil]

/-- the token stream of texts joined by `k+1` newlines (and an optional final newline) is,
    up to line numbers, the concatenation of the token streams of the texts -/
theorem lexJoin_sim (isSpace : Char → Bool) (cfg : LexCfg) (order : List TokTy) (k : Nat)
    (trail : Str) (ht : trail = [] ∨ trail = ['\n']) : ∀ (ss : List Str),
    (∀ x ∈ ss, x.getLast? ≠ some '\r') → ∀ i,
    LSim isSpace [] (lexLinesFrom cfg order i
        (splitLines (joinStr ('\n' :: List.replicate k '\n') ss ++ trail)))
      ((ss.map (lexStr cfg order)).flatten) := by
  intro ss
  induction ss with
  | nil =>
    intro _ i
    simp only [joinStr, List.nil_append, List.map_nil, List.flatten_nil]
    rw [lexLinesFrom_trail cfg order i trail ht]
    exact .nil
  | cons x r ih =>
    intro h i
    have hx := h x (by simp)
    cases r with
    | nil =>
      simp only [joinStr, List.map_cons, List.map_nil, List.flatten_cons, List.flatten_nil,
        List.append_nil]
      rcases ht with rfl | rfl
      · simp only [List.append_nil]
        exact lsim_lexLinesFrom isSpace cfg order i 1 _
      · rw [splitLines_append_lf_nil x hx, lexLinesFrom_append, lexLinesFrom_nil_line,
          List.append_nil]
        exact lsim_lexLinesFrom isSpace cfg order i 1 _
    | cons y r =>
      have e : joinStr ('\n' :: List.replicate k '\n') (x :: y :: r) ++ trail =
          x ++ '\n' :: (List.replicate k '\n' ++
            (joinStr ('\n' :: List.replicate k '\n') (y :: r) ++ trail)) := by
        simp [joinStr]
      rw [e, splitLines_append_lf x _ hx, splitLines_replicate_lf, lexLinesFrom_append,
        lexLinesFrom_append, lexLinesFrom_replicate_nil, List.nil_append]
      simp only [List.map_cons, List.flatten_cons]
      exact LSim.append (lsim_lexLinesFrom isSpace cfg order i 1 _)
        (ih (fun z hz => h z (by simp [hz])) _)

theorem prod_eq_of_sim {α : Type} {a b : List α × Option PyErr} {x : List α}
    (h1 : a.1 = b.1) (h2 : a.2.isSome = b.2.isSome) (hb : b = (x, none)) : a = (x, none) := by
  subst hb
  obtain ⟨a1, a2⟩ := a
  simp only at h1 h2
  subst h1
  cases a2 with
  | none => rfl
  | some e => simp at h2

/-- texts that each parse completely, joined by newlines: `iterparse` returns exactly
    their trees, in order, without error -/
theorem iterparse_join (isSpace : Char → Bool) (cfg : LexCfg) (order : List TokTy) (k : Nat)
    (trail : Str) (ht : trail = [] ∨ trail = ['\n']) (gs : List (Str × Tree))
    (hcr : ∀ p ∈ gs, p.1.getLast? ≠ some '\r')
    (hp : ∀ p ∈ gs, ∃ c0, parseTree c0 isSpace (lexStr cfg order p.1) = .ok (p.2, [])) :
    iterparseToks isSpace
        (lexStr cfg order (joinStr ('\n' :: List.replicate k '\n') (gs.map (·.1)) ++ trail)) =
      (gs.map (·.2), none) := by
  have hsim := lexJoin_sim isSpace cfg order k trail ht (gs.map (·.1))
    (by intro x hx; simp only [List.mem_map] at hx; obtain ⟨p, hp', rfl⟩ := hx; exact hcr p hp') 1
  have hcat := iterparseToks_concat isSpace (gs.map fun p => (lexStr cfg order p.1, p.2))
    (by intro q hq; simp only [List.mem_map] at hq; obtain ⟨p, hp', rfl⟩ := hq; exact hp p hp')
  simp only [List.map_map] at hsim hcat
  have := iterparseToks_sim isSpace _ _ hsim
  exact prod_eq_of_sim this.1 this.2 (by simpa [Function.comp_def] using hcat)

/-! ### lines handed over with the terminators they had in the text (`splitlines(keepends=True)`) -/

/-- the decidable well-formedness condition on the lexer tables used for C09: LF and CR
    are token-free separators -/
def LexWf (cfg : LexCfg) : Prop := SepChar cfg '\n' ∧ SepChar cfg '\r'

instance (cfg : LexCfg) : Decidable (LexWf cfg) := by unfold LexWf; infer_instance

/-- every metadata comment among the tokens has a value separator after its last key -/
def CommentsStable (toks : List Tok) : Prop := ∀ t ∈ toks, t.ty = .COMMENT → MetaStable t.text

instance (toks : List Tok) : Decidable (CommentsStable toks) := by
  unfold CommentsStable; infer_instance

/-- a terminator (or none) as separators-before-LF and LF -/
theorem term_split (cfg : LexCfg) (hwf : LexWf cfg) (t : Str) (ht : t = [] ∨ IsTerm t) :
    ∃ rs nl, t = rs ++ nl ∧ SepTail cfg rs nl ∧ (rs = [] ∨ rs = ['\r']) := by
  rcases ht with rfl | rfl | rfl | rfl
  · exact ⟨[], [], rfl, ⟨by simp, Or.inl rfl⟩, Or.inl rfl⟩
  · exact ⟨[], ['\n'], rfl, sepTail_lf hwf.1, Or.inl rfl⟩
  · exact ⟨['\r'], ['\n'], rfl, sepTail_crlf hwf.1 hwf.2, Or.inr rfl⟩
  · exact ⟨['\r'], [], rfl, sepTail_cr hwf.2, Or.inr rfl⟩

theorem lsim_keepends (isSpace : Char → Bool) (cfg : LexCfg) (order : List TokTy) (hwf : LexWf cfg)
    (hsp : isSpace '\r' = true) : ∀ (ps : List (Str × Str)) (k : Nat),
    (∀ p ∈ ps, NoLF p.1 ∧ (p.2 = [] ∨ IsTerm p.2)) →
    CommentsStable (lexLinesFrom cfg order k (ps.map Prod.fst)) →
    LSim isSpace [] (lexLinesFrom cfg order k (ps.map Prod.fst))
      (lexLinesFrom cfg order k (ps.map fun p => p.1 ++ p.2)) := by
  intro ps
  induction ps with
  | nil => intro k _ _; exact .nil
  | cons p ps ih =>
    intro k hps hst
    obtain ⟨l, t⟩ := p
    obtain ⟨hl, ht⟩ := hps (l, t) (by simp)
    obtain ⟨rs, nl, rfl, hsep, hrs⟩ := term_split cfg hwf t ht
    simp only [List.map_cons, lexLinesFrom] at hst ⊢
    rw [lexLine_tail cfg order k l rs nl hl hsep]
    have hrs' : ∀ c ∈ rs, isSpace c = true ∧ c ≠ ':' := by
      rcases hrs with rfl | rfl
      · simp
      · intro c hc; simp at hc; subst hc; exact ⟨hsp, by decide⟩
    refine LSim.append (lsim_map_tailTok isSpace rs hrs' _ (fun x hx => hst x (by simp [hx]))) ?_
    exact ih (k + 1) (fun q hq => hps q (by simp [hq])) (fun x hx => hst x (by simp [hx]))

/-- with LF terminators only (or none) the tokens are identical -/
theorem lexLinesFrom_keepends_lf (cfg : LexCfg) (order : List TokTy) (hc : SepChar cfg '\n') :
    ∀ (ps : List (Str × Str)) (k : Nat),
    (∀ p ∈ ps, NoLF p.1 ∧ (p.2 = [] ∨ p.2 = ['\n'])) →
    lexLinesFrom cfg order k (ps.map fun p => p.1 ++ p.2) =
      lexLinesFrom cfg order k (ps.map Prod.fst) := by
  intro ps
  induction ps with
  | nil => intro k _; rfl
  | cons p ps ih =>
    intro k hps
    obtain ⟨l, t⟩ := p
    obtain ⟨hl, ht⟩ := hps (l, t) (by simp)
    simp only [List.map_cons, lexLinesFrom]
    rw [ih (k + 1) (fun q hq => hps q (by simp [hq]))]
    congr 1
    rcases ht with rfl | rfl
    · simp
    · exact lexLine_lf cfg order k l hl hc

/-- the lines of `s` with the terminators they have in `s` -/
def keepends (s : Str) : List Str := (splitLinesT s).map fun p => p.1 ++ p.2

theorem keepends_spec (s : Str) : ∀ p ∈ splitLinesT s, NoLF p.1 ∧ (p.2 = [] ∨ IsTerm p.2) := by
  intro p hp
  refine ⟨(splitLinesT_noBreak s p hp).noLF, ?_⟩
  have ht := splitLinesT_terms s
  obtain ⟨init, last, hl⟩ : ∃ init last, splitLinesT s = init ++ [last] := by
    rcases List.eq_nil_or_concat (splitLinesT s) with h | ⟨init, last, h⟩
    · exact absurd h (splitLinesT_ne_nil s)
    · exact ⟨init, last, by simpa using h⟩
  have h1 := ht.dropLast
  have h2 := ht.getLast?
  rw [hl] at hp h1 h2
  simp only [List.dropLast_concat] at h1
  simp only [List.getLast?_append, List.getLast?_singleton, Option.some_or, Option.map_some,
    Option.some.injEq] at h2
  rcases List.mem_append.1 hp with h | h
  · exact Or.inr (h1 p h)
  · simp at h; subst h; exact Or.inl h2

theorem lsim_lexLines_keepends (isSpace : Char → Bool) (cfg : LexCfg) (order : List TokTy)
    (hwf : LexWf cfg) (hsp : isSpace '\r' = true) (s : Str)
    (hst : CommentsStable (lexStr cfg order s)) :
    LSim isSpace [] (lexStr cfg order s) (lexLines cfg order (keepends s)) := by
  have := lsim_keepends isSpace cfg order hwf hsp (splitLinesT s) 1 (keepends_spec s)
    (by rw [splitLinesT_fst]; exact hst)
  rw [splitLinesT_fst] at this
  exact this

/-- LF-only text: the lines with their terminators give exactly the tokens of the text -/
theorem lexLines_keepends_lfOnly (cfg : LexCfg) (order : List TokTy) (hc : SepChar cfg '\n')
    (s : Str) (h : '\r' ∉ s) : lexLines cfg order (keepends s) = lexStr cfg order s := by
  unfold lexLines keepends lexStr lexLines
  rw [lexLinesFrom_keepends_lf cfg order hc (splitLinesT s) 1, splitLinesT_fst]
  intro p hp
  obtain ⟨h1, h2⟩ := keepends_spec s p hp
  refine ⟨h1, ?_⟩
  have hmem : ∀ c ∈ p.2, c ∈ s := by
    intro c hc
    have hj := splitLinesT_join s
    rw [← hj]
    simp only [List.mem_flatten, List.mem_map]
    exact ⟨p.1 ++ p.2, ⟨p, hp, rfl⟩, by simp [hc]⟩
  rcases h2 with h2 | h2 | h2 | h2
  · exact Or.inl h2
  · exact Or.inr h2
  · exact absurd (hmem '\r' (by rw [h2]; simp)) h
  · exact absurd (hmem '\r' (by rw [h2]; simp)) h

end Penman.Framing

#!/bin/sh
# confirm_seed.sh <worktree> <name> : confirm a seeded change in its scratch worktree
# (tests pass + demo fails with it; demo passes without it) and store it under /verif/seeded/<name>/
set -u
W=$1; NAME=$2
cd "$W" || exit 2
git stash -q -- penman 2>/dev/null; git checkout -q -- penman
git apply --check _seed/patch.diff || { echo "patch does not apply"; exit 1; }
PYTHONPATH=$W /venv/bin/python _seed/demo.py >/tmp/seed_demo_clean.txt 2>&1; CLEAN=$?
git apply _seed/patch.diff
PYTHONPATH=$W /venv/bin/python -m pytest -q -p no:cacheprovider tests 2>&1 | tail -1 > /tmp/seed_tests.txt
PYTHONPATH=$W /venv/bin/python _seed/demo.py >/tmp/seed_demo_mut.txt 2>&1; MUT=$?
echo "demo on clean tree: exit $CLEAN; with change: exit $MUT; tests: $(cat /tmp/seed_tests.txt)"
if [ "$CLEAN" = 0 ] && [ "$MUT" != 0 ] && grep -q "93 passed" /tmp/seed_tests.txt; then
  mkdir -p /verif/seeded/$NAME
  cp _seed/patch.diff _seed/demo.py _seed/meta.json /verif/seeded/$NAME/
  echo CONFIRMED
else
  echo "NOT CONFIRMED"; exit 1
fi

/-
  Penman.Proofs.ConstantNum — `scanJsonNumber` only accepts the JSON number grammar (C18).
-/
import Penman.Spec.Constant

namespace Penman
namespace C18

/-! ## 5. `scanJsonNumber` in four parts -/

def signPart (s : Str) : Str × Str := match s with | '-' :: r => (['-'], r) | _ => ([], s)

def intPart (s1 : Str) : Option (Str × Str) := match s1 with
  | '0' :: r => some (['0'], r)
  | c :: _ => if '1' ≤ c && c ≤ '9' then some (s1.takeWhile isAsciiDigit, s1.dropWhile isAsciiDigit) else none
  | [] => none

def fracPart (s2 : Str) : Str × Str := match s2 with
  | '.' :: r => let ds := r.takeWhile isAsciiDigit
                if ds.isEmpty then ([], s2) else ('.' :: ds, r.dropWhile isAsciiDigit)
  | _ => ([], s2)

def expPart (s3 : Str) : Str × Str := match s3 with
  | e :: r =>
    if e = 'e' || e = 'E' then
      let (sg, r1) := match r with
        | '-' :: r' => (['-'], r')
        | '+' :: r' => (['+'], r')
        | _ => ([], r)
      let ds := r1.takeWhile isAsciiDigit
      if ds.isEmpty then ([], s3) else (e :: sg ++ ds, r1.dropWhile isAsciiDigit)
    else ([], s3)
  | [] => ([], s3)

theorem scanJsonNumber_eq (s : Str) : scanJsonNumber s =
    match intPart (signPart s).2 with
    | none => none
    | some (int, s2) =>
      some ((signPart s).1 ++ int ++ (fracPart s2).1 ++ (expPart (fracPart s2).2).1,
        !((fracPart s2).1.isEmpty && (expPart (fracPart s2).2).1.isEmpty), (expPart (fracPart s2).2).2) := by
  unfold scanJsonNumber
  show (match signPart s with
    | (sign, s1) =>
      match intPart s1 with
      | none => none
      | some (int, s2) =>
        match fracPart s2 with
        | (frac, s3) =>
          match expPart s3 with
          | (exp, s4) => some (sign ++ int ++ frac ++ exp, !(frac.isEmpty && exp.isEmpty), s4)) = _
  rcases signPart s with ⟨sg, s1⟩
  simp only []

theorem signPart_spec (s : Str) :
    s = (signPart s).1 ++ (signPart s).2 ∧ ((signPart s).1 = [] ∨ (signPart s).1 = ['-']) := by
  unfold signPart
  split <;> simp

theorem digits_takeWhile (r : Str) : ∀ c ∈ r.takeWhile isAsciiDigit, isAsciiDigit c = true := by
  induction r with
  | nil => simp
  | cons x xs ih =>
    by_cases hx : isAsciiDigit x = true
    · rw [List.takeWhile_cons_of_pos hx]
      intro c hc
      rcases List.mem_cons.mp hc with rfl | hc
      · exact hx
      · exact ih c hc
    · rw [List.takeWhile_cons_of_neg hx]; simp

theorem intPart_spec {s1 int s2 : Str} (h : intPart s1 = some (int, s2)) :
    s1 = int ++ s2 ∧
    (int = ['0'] ∨ ∃ c ds, int = c :: ds ∧ '1' ≤ c ∧ c ≤ '9' ∧ ∀ d ∈ ds, isAsciiDigit d = true) := by
  unfold intPart at h
  split at h
  · injection h with h; injection h with h1 h2; subst h1 h2; simp
  · rename_i c tl _
    split at h
    · rename_i hc
      injection h with h; injection h with h1 h2; subst h1 h2
      refine ⟨(List.takeWhile_append_dropWhile).symm, Or.inr ?_⟩
      simp only [Bool.and_eq_true, decide_eq_true_eq] at hc
      have hd : isAsciiDigit c = true := by
        simp only [isAsciiDigit, Bool.and_eq_true, decide_eq_true_eq]
        refine ⟨?_, hc.2⟩
        exact Char.le_trans (by decide) hc.1
      refine ⟨c, tl.takeWhile isAsciiDigit, ?_, hc.1, hc.2, digits_takeWhile tl⟩
      rw [List.takeWhile_cons_of_pos hd]
    · simp at h
  · simp at h

theorem fracPart_spec (s2 : Str) :
    s2 = (fracPart s2).1 ++ (fracPart s2).2 ∧
    ((fracPart s2).1 = [] ∨ ∃ ds, (fracPart s2).1 = '.' :: ds ∧ IsDigits ds) := by
  unfold fracPart
  split
  · rename_i r
    simp only []
    split
    · simp
    · rename_i hne
      refine ⟨by simp [List.takeWhile_append_dropWhile], Or.inr ⟨_, rfl, ?_, digits_takeWhile r⟩⟩
      intro h; simp [h] at hne
  · simp

theorem expPart_spec (s3 : Str) :
    s3 = (expPart s3).1 ++ (expPart s3).2 ∧
    ((expPart s3).1 = [] ∨ ∃ e sg ds, (expPart s3).1 = e :: sg ++ ds ∧ (e = 'e' ∨ e = 'E') ∧
      (sg = [] ∨ sg = ['-'] ∨ sg = ['+']) ∧ IsDigits ds) := by
  unfold expPart
  split
  · rename_i e r
    split
    · rename_i he
      simp only [Bool.or_eq_true, decide_eq_true_eq] at he
      have key : ∀ (sg r1 : Str), r = sg ++ r1 → (sg = [] ∨ sg = ['-'] ∨ sg = ['+']) →
          let p : Str × Str := if (r1.takeWhile isAsciiDigit).isEmpty then ([], e :: r)
            else (e :: sg ++ r1.takeWhile isAsciiDigit, r1.dropWhile isAsciiDigit)
          e :: r = p.1 ++ p.2 ∧ (p.1 = [] ∨ ∃ e' sg' ds, p.1 = e' :: sg' ++ ds ∧ (e' = 'e' ∨ e' = 'E') ∧
            (sg' = [] ∨ sg' = ['-'] ∨ sg' = ['+']) ∧ IsDigits ds) := by
        intro sg r1 hr hsg
        simp only []
        split
        · simp
        · rename_i hne
          refine ⟨?_, Or.inr ⟨e, sg, _, rfl, he, hsg, ?_, digits_takeWhile r1⟩⟩
          · simp [hr, List.takeWhile_append_dropWhile]
          · intro h; simp [h] at hne
      split
      rename_i sg r1 heq
      have hsg : r = sg ++ r1 ∧ (sg = [] ∨ sg = ['-'] ∨ sg = ['+']) := by
        split at heq <;> (injection heq with e1 e2; subst e1 e2; simp)
      exact key sg r1 hsg.1 hsg.2
    · simp
  · simp

/-- `scanJsonNumber` accepts only the JSON number grammar -/
theorem scanJsonNumber_spec {s t r : Str} {isF : Bool} (h : scanJsonNumber s = some (t, isF, r)) :
    s = t ++ r ∧ IsJsonNumber t isF := by
  rw [scanJsonNumber_eq] at h
  split at h
  · simp at h
  · rename_i int s2 hint
    injection h with h; injection h with h1 h; injection h with h2 h3
    obtain ⟨hs0, hs1⟩ := signPart_spec s
    obtain ⟨hi0, hi1⟩ := intPart_spec hint
    obtain ⟨hf0, hf1⟩ := fracPart_spec s2
    obtain ⟨he0, he1⟩ := expPart_spec (fracPart s2).2
    constructor
    · rw [← h1, ← h3]
      simp only [List.append_assoc]
      rw [← he0, ← hf0, ← hi0, ← hs0]
    · refine ⟨_, _, _, _, h1.symm, ⟨hs1, hi1, hf1, he1⟩, ?_⟩
      rw [← h2]
      cases (fracPart s2).1 <;> cases (expPart (fracPart s2).2).1 <;> simp

end C18
end Penman

/-
  What the parser can produce is grammar-valid:
  * every token of `lexStr` is good (`TokGood`: text in its class language, no line break,
    no SYMBOL starting with `#`) — from the C08 specification of the lexer;
  * hence the tree parsed from a string is `WfTreeText`;
  * the metadata parsed from COMMENT tokens is `WfMeta`.
-/
import Penman.Proofs.FormatTop
import Penman.Proofs.ParseComplete
import Penman.Proofs.ParseMeta

set_option linter.unusedSimpArgs false
namespace Penman.FL
open Penman Penman.Spec Penman.Lex

variable {cfg : LexCfg}

/-! ### tokens of `lexStr` are good -/

theorem mem_lexLinesFrom {order : List TokTy} {t : Tok} :
    ∀ (ls : List Str) (n : Nat), t ∈ lexLinesFrom cfg order n ls → ∃ l ∈ ls, ∃ m, t ∈ lexLine cfg order m l
  | [], _, h => by simp [lexLinesFrom] at h
  | l :: ls, n, h => by
    simp only [lexLinesFrom, List.mem_append] at h
    rcases h with h | h
    · exact ⟨l, by simp, n, h⟩
    · obtain ⟨l', hl', m, hm⟩ := mem_lexLinesFrom ls (n+1) h
      exact ⟨l', by simp [hl'], m, hm⟩

theorem noBreak_of_sublist {a b : Str} (h : a.Sublist b) (hb : NoBreak b) : NoBreak a :=
  ⟨fun h1 => hb.1 (h.subset h1), fun h1 => hb.2 (h.subset h1)⟩

theorem lexLine_good (hwf : CfgWfP cfg) {order tl : List TokTy} (ho : order = .COMMENT :: tl)
    (hU : TokTy.UNEXPECTED ∈ order) (n : Nat) (line : Str) (hnb : NoBreak line) :
    ∀ t ∈ lexLine cfg order n line, TokGood cfg t := by
  intro t ht
  obtain ⟨pre, post, hord, hpre, hm⟩ := (lexLine_spec hwf hU n line).2 t ht
  obtain ⟨⟨hp, hl, -⟩, -⟩ := hm
  have hsub : t.text.Sublist line := hp.sublist.trans (List.drop_sublist _ _)
  refine ⟨hl, noBreak_of_sublist hsub hnb, ?_⟩
  intro hty hhash
  rw [hty, ho] at hord
  cases pre with
  | nil => simp at hord
  | cons p pre' =>
    simp only [List.cons_append, List.cons.injEq] at hord
    have hc := hpre .COMMENT (by rw [← hord.1]; simp)
    obtain ⟨u, hu⟩ := hp
    cases htext : t.text with
    | nil => simp [htext] at hhash
    | cons c body =>
      simp [htext] at hhash; subst hhash
      have hnb' : NoBreak (line.drop t.offset) := noBreak_of_sublist (List.drop_sublist _ _) hnb
      rw [← hu, htext] at hnb'
      refine hc (line.drop t.offset) ⟨List.prefix_refl _, ⟨body ++ u, by rw [← hu, htext]; simp, ?_⟩,
        fun _ => .inl List.drop_length⟩
      intro hmem
      exact hnb'.1 (by simp [hmem])

theorem lexStr_good (hw : FmtCfgWfP cfg) (s : Str) : ∀ t ∈ lexStr cfg cfg.penmanOrder s, TokGood cfg t := by
  intro t ht
  obtain ⟨l, hl, m, hm⟩ := mem_lexLinesFrom _ _ ht
  obtain ⟨tl, ho⟩ := hw.penman_head
  have hnb : NoBreak l := (splits_join (splitLines_splits s)).choose_spec.2.2.2 l hl
  exact lexLine_good hw.base ho (orderWf_mem hw.base.penman_order) m l hnb t hm

/-! ### `hasSep` -/

theorem hasColons_eq : ∀ s : Str, hasColons s = hasSep s := by
  intro s
  fun_induction hasColons s with
  | case1 => simp [hasSep]
  | case2 c cs hne ih =>
    rw [ih]
    conv => rhs; unfold hasSep
    split
    · rename_i heq; simp at heq; exact (hne _ heq.1 heq.2).elim
    · rename_i heq; simp at heq; rw [heq.2]
    · rename_i heq; simp at heq
  | case3 => simp [hasSep]

theorem hasSep_cons (c : Char) (cs : Str) :
    hasSep (c :: cs) = ([':', ':'].isPrefixOf (c :: cs) || hasSep cs) := by
  cases cs with
  | nil => simp [hasSep, List.isPrefixOf]
  | cons d ds =>
    by_cases h : c = ':' ∧ d = ':'
    · obtain ⟨rfl, rfl⟩ := h; simp [hasSep, List.isPrefixOf]
    · have key : hasSep (c :: d :: ds) = hasSep (d :: ds) :=
        hasSep.eq_2 c (d :: ds) (by intro tail h1 h2; simp at h2; exact h ⟨h1, h2.1⟩)
      have : [':', ':'].isPrefixOf (c :: d :: ds) = false := by
        simp only [List.isPrefixOf, Bool.and_true, Bool.and_eq_false_iff, beq_eq_false_iff_ne, ne_eq]
        by_cases hc : c = ':'
        · exact .inr (fun hd => h ⟨hc, hd.symm⟩)
        · exact .inl (fun hc' => hc hc'.symm)
      rw [key, this, Bool.false_or]

theorem hasSep_colon_cons (x : Str) : hasSep (':' :: x) = (x.head? == some ':' || hasSep x) := by
  rw [hasSep_cons]
  cases x with
  | nil => simp [List.isPrefixOf]
  | cons d ds =>
    by_cases hd : d = ':'
    · subst hd; simp [List.isPrefixOf]
    · have : (':' == d) = false := beq_eq_false_iff_ne.2 (fun h => hd h.symm)
      simp [List.isPrefixOf, hd, this]

theorem hasSep_append_blank (a b : Str) : hasSep (a ++ ' ' :: b) = (hasSep a || hasSep b) := by
  induction a with
  | nil => simp [hasSep_cons, List.isPrefixOf, hasSep]
  | cons c cs ih =>
    rw [List.cons_append, hasSep_cons, hasSep_cons c cs, ih]
    cases cs with
    | nil => by_cases hc : c = ':' <;> simp [List.isPrefixOf, hc]
    | cons d ds => simp [List.isPrefixOf, Bool.or_assoc]

theorem hasSep_prefix (a b : Str) (h : hasSep (a ++ b) = false) : hasSep a = false := by
  induction a with
  | nil => rfl
  | cons c cs ih =>
    rw [List.cons_append, hasSep_cons, Bool.or_eq_false_iff] at h
    rw [hasSep_cons, Bool.or_eq_false_iff]
    refine ⟨?_, ih h.2⟩
    cases cs with
    | nil => simp [List.isPrefixOf]
    | cons d ds => simpa [List.isPrefixOf] using h.1

/-- the `::`-condition of a metadata line, decomposed -/
theorem entry_ok_iff (k v : Str) :
    (fmtEntry (k, v)).ok = true ↔
      ' ' ∉ k ∧ k.head? ≠ some ':' ∧ hasSep k = false ∧ hasSep v = false := by
  simp only [MetaEntry.ok, fmtEntry, MetaEntry.text, Bool.and_eq_true, Bool.not_eq_true',
    List.contains_eq_mem, decide_eq_false_iff_not]
  cases v with
  | nil =>
    simp only [List.isEmpty_nil, if_true, List.append_nil, hasSep_colon_cons, Bool.or_eq_false_iff,
      beq_eq_false_iff_ne, ne_eq]
    simp [hasSep]
  | cons d ds =>
    simp only [List.isEmpty_cons, Bool.false_eq_true, if_false, hasSep_colon_cons, hasSep_append_blank,
      Bool.or_eq_false_iff, beq_eq_false_iff_ne, ne_eq]
    cases k with
    | nil => simp
    | cons e es => simp

/-! ### `rpartition('::')` and `partition(' ')` -/

/-- start of the last `::` -/
def lastIdx : Str → Nat
  | [] => 0
  | _ :: cs => if hasSep cs then 1 + lastIdx cs else 0

theorem rfindAux_eq : ∀ (s : Str) (i : Nat) (acc : Option Nat),
    rfindAux [':', ':'] s i acc = if hasSep s then some (i + lastIdx s) else acc
  | [], i, acc => by simp [rfindAux, hasSep]
  | c :: cs, i, acc => by
    rw [rfindAux, rfindAux_eq cs, hasSep_cons, lastIdx]
    by_cases h : hasSep cs = true
    · simp [h]; omega
    · simp [h]

theorem lastIdx_spec : ∀ s : Str, hasSep s = true →
    s.drop (lastIdx s) = ':' :: ':' :: s.drop (lastIdx s + 2) ∧ hasSep (s.drop (lastIdx s + 1)) = false
  | [], h => by simp [hasSep] at h
  | c :: cs, h => by
    rw [lastIdx]
    by_cases h' : hasSep cs = true
    · have := lastIdx_spec cs h'
      simp only [h', if_true]
      rw [show 1 + lastIdx cs = lastIdx cs + 1 by omega]
      simpa using this
    · simp only [h', Bool.false_eq_true, if_false]
      rw [hasSep_cons] at h
      simp only [h', Bool.or_false] at h
      cases cs with
      | nil => simp [List.isPrefixOf] at h
      | cons d ds =>
        simp [List.isPrefixOf] at h
        obtain ⟨rfl, rfl⟩ := h
        simp at h'
        simp [h']

theorem rpartition_spec (s : Str) :
    (hasSep s = true ∧ ∃ before after, s = before ++ ':' :: ':' :: after ∧ hasSep (':' :: after) = false ∧
      rpartitionStr [':', ':'] s = (before, true, after)) ∨
    (hasSep s = false ∧ rpartitionStr [':', ':'] s = ([], false, s)) := by
  by_cases h : hasSep s = true
  · left
    obtain ⟨h1, h2⟩ := lastIdx_spec s h
    refine ⟨h, s.take (lastIdx s), s.drop (lastIdx s + 2), ?_, ?_, ?_⟩
    · rw [← h1, List.take_append_drop]
    · have : s.drop (lastIdx s + 1) = ':' :: s.drop (lastIdx s + 2) := by
        have := congrArg (List.drop 1) h1
        simpa [List.drop_drop, Nat.add_comm] using this
      rw [← this]; exact h2
    · simp [rpartitionStr, rfindAux_eq, h]
  · right
    simp only [Bool.not_eq_true] at h
    exact ⟨h, by simp [rpartitionStr, rfindAux_eq, h]⟩

theorem partition_spec : ∀ s : Str,
    (∃ k v, s = k ++ ' ' :: v ∧ ' ' ∉ k ∧ partitionStr [' '] s = (k, true, v)) ∨
    (' ' ∉ s ∧ partitionStr [' '] s = (s, false, []))
  | [] => .inr ⟨by simp, rfl⟩
  | c :: cs => by
    by_cases hc : c = ' '
    · subst hc
      exact .inl ⟨[], cs, rfl, by simp, by simp [partitionStr, List.isPrefixOf]⟩
    · have hc' : ' ' ≠ c := fun h => hc h.symm
      rcases partition_spec cs with ⟨k, v, rfl, hk, hp⟩ | ⟨hn, hp⟩
      · exact .inl ⟨c :: k, v, rfl, by simp [hc', hk], by simp [partitionStr, List.isPrefixOf, hc', hp]⟩
      · exact .inr ⟨by simp [hc', hn], by simp [partitionStr, List.isPrefixOf, hc', hp]⟩

/-! ### metadata items stay well-formed -/

theorem rstrip_prefix (p : Char → Bool) (v : Str) : ∃ w, v = rstripBy p v ++ w := by
  refine ⟨(v.reverse.takeWhile p).reverse, ?_⟩
  have h := List.takeWhile_append_dropWhile (p := p) (l := v.reverse)
  calc v = v.reverse.reverse := (List.reverse_reverse v).symm
    _ = (v.reverse.takeWhile p ++ v.reverse.dropWhile p).reverse := by rw [h]
    _ = _ := by rw [List.reverse_append]; rfl

theorem dropWhile_idem (p : Char → Bool) (l : Str) : (l.dropWhile p).dropWhile p = l.dropWhile p := by
  induction l with
  | nil => rfl
  | cons c cs ih =>
    by_cases h : p c = true
    · simp [List.dropWhile_cons, h, ih]
    · simp [List.dropWhile_cons, h]

theorem rstrip_idem (p : Char → Bool) (v : Str) : rstripBy p (rstripBy p v) = rstripBy p v := by
  simp [rstripBy, dropWhile_idem]

/-- the item stored by one round of the `_parse_comments` loop is well-formed -/
theorem item_ok (isSpace : Char → Bool) (k v : Str) (hk : ' ' ∉ k)
    (hs : hasSep (':' :: (k ++ if v = [] then [] else ' ' :: v)) = false) (nk : NoBreak k) (nv : NoBreak v) :
    metaItemB isSpace (k, rstripBy isSpace v) = true := by
  obtain ⟨w, hw⟩ := rstrip_prefix isSpace v
  have nv' : NoBreak (rstripBy isSpace v) :=
    noBreak_of_sublist (by have := List.sublist_append_left (rstripBy isSpace v) w; rwa [← hw] at this) nv
  have h3 : k.head? ≠ some ':' ∧ hasSep k = false ∧ hasSep v = false := by
    by_cases hv : v = []
    · subst hv
      simp only [if_true, List.append_nil, hasSep_colon_cons, Bool.or_eq_false_iff, beq_eq_false_iff_ne] at hs
      exact ⟨hs.1, hs.2, rfl⟩
    · simp only [hv, if_false, hasSep_colon_cons, hasSep_append_blank, Bool.or_eq_false_iff,
        beq_eq_false_iff_ne] at hs
      refine ⟨?_, hs.2.1, hs.2.2⟩
      cases k with
      | nil => simp
      | cons e es => simpa using hs.1
  have h4 : hasSep (rstripBy isSpace v) = false := hasSep_prefix _ w (by rw [← hw]; exact h3.2.2)
  simp only [metaItemB, Bool.and_eq_true, Bool.not_eq_true', List.contains_eq_mem, decide_eq_false_iff_not,
    bne_iff_ne, ne_eq, hasColons_eq, beq_iff_eq, noBreakB_iff]
  exact ⟨⟨⟨⟨⟨⟨hk, h3.1⟩, h3.2.1⟩, h4⟩, rstrip_idem _ _⟩, nk⟩, nv'⟩

/-- the dictionary invariant -/
def MetaInv (isSpace : Char → Bool) (md : AList Str Str) : Prop :=
  (md.map (·.1)).Pairwise (· ≠ ·) ∧ ∀ kv ∈ md, metaItemB isSpace kv = true

theorem metaInv_iff (isSpace : Char → Bool) (md : AList Str Str) : MetaInv isSpace md ↔ WfMeta isSpace md := by
  simp [MetaInv, WfMeta, List.all_eq_true]

theorem metaInv_set (isSpace : Char → Bool) : ∀ (md : AList Str Str) (k v : Str), MetaInv isSpace md →
    metaItemB isSpace (k, v) = true → MetaInv isSpace (md.set k v) ∧
      ∀ k', k' ∈ (md.set k v).map (·.1) → k' = k ∨ k' ∈ md.map (·.1)
  | [], k, v, _, h => ⟨⟨by simp [AList.set], by simp [AList.set, h]⟩, by simp [AList.set]⟩
  | (k0, v0) :: r, k, v, ⟨h1, h2⟩, h => by
    simp only [AList.set]
    split
    · rename_i hk
      subst hk
      refine ⟨⟨by simpa using h1, ?_⟩, by simp⟩
      intro kv hkv
      simp only [List.mem_cons] at hkv
      rcases hkv with rfl | hkv
      · exact h
      · exact h2 kv (by simp [hkv])
    · rename_i hk
      simp only [List.map_cons, List.pairwise_cons] at h1
      obtain ⟨ih, ihk⟩ := metaInv_set isSpace r k v ⟨h1.2, fun kv hkv => h2 kv (by simp [hkv])⟩ h
      refine ⟨⟨?_, ?_⟩, ?_⟩
      · simp only [List.map_cons, List.pairwise_cons]
        refine ⟨?_, ih.1⟩
        intro k' hk'
        rcases ihk k' hk' with rfl | hk'
        · exact hk
        · exact h1.1 k' hk'
      · intro kv hkv
        simp only [List.mem_cons] at hkv
        rcases hkv with rfl | hkv
        · exact h2 _ (by simp)
        · exact ih.2 kv hkv
      · intro k' hk'
        simp only [List.map_cons, List.mem_cons] at hk' ⊢
        rcases hk' with rfl | hk'
        · exact .inr (.inl rfl)
        · rcases ihk k' hk' with h | h
          · exact .inl h
          · exact .inr (.inr h)

theorem commentMeta_inv (isSpace : Char → Bool) : ∀ (f : Nat) (comment : Str) (md : AList Str Str),
    NoBreak comment → MetaInv isSpace md → MetaInv isSpace (commentMeta isSpace f comment md)
  | 0, _, _, _, h => h
  | f+1, comment, md, hnb, h => by
    simp only [commentMeta]
    split
    · exact h
    · rcases rpartition_spec comment with ⟨-, before, after, rfl, hs, hp⟩ | ⟨-, hp⟩
      · rw [hp]
        simp only [if_true]
        have nb1 : NoBreak before := noBreak_of_sublist (by simp) hnb
        have nb2 : NoBreak after := noBreak_of_sublist
          (((List.sublist_cons_self ':' after).trans (List.sublist_cons_self ':' _)).trans
            (List.sublist_append_right _ _)) hnb
        apply commentMeta_inv isSpace f before _ nb1
        rcases partition_spec after with ⟨k, v, rfl, hk, hpp⟩ | ⟨hn, hpp⟩
        · rw [hpp]
          refine (metaInv_set isSpace md k _ h (item_ok isSpace k v hk ?_
            (noBreak_of_sublist (by simp) nb2) (noBreak_of_sublist (by simp) nb2))).1
          by_cases hv : v = []
          · subst hv
            simp only [if_true, List.append_nil]
            rw [show ':' :: (k ++ [' ']) = (':' :: k) ++ [' '] from rfl] at hs
            exact hasSep_prefix _ _ hs
          · simpa [hv] using hs
        · rw [hpp]
          have := item_ok isSpace after [] hn (by simpa using hs) nb2 noBreak_nil
          exact (metaInv_set isSpace md after _ h (by simpa [rstripBy] using this)).1
      · rw [hp]; exact h

theorem parseComments_inv (c : PCtx) (isSpace : Char → Bool) : ∀ (toks : List Tok) (md : AList Str Str)
    (md' : AList Str Str) (ts : List Tok), parseComments c isSpace toks md = .ok (md', ts) →
    (∀ t ∈ toks, NoBreak t.text) → MetaInv isSpace md →
    MetaInv isSpace md' ∧ ∀ t ∈ ts, t ∈ toks
  | [], _, _, _, h, _, _ => by simp [parseComments] at h
  | t :: toks, md, md', ts, h, hnb, hmd => by
    simp only [parseComments] at h
    split at h
    · obtain ⟨h1, h2⟩ := parseComments_inv c isSpace toks _ md' ts h (fun t ht => hnb t (by simp [ht]))
        (commentMeta_inv isSpace _ _ md (hnb t (by simp)) hmd)
      exact ⟨h1, fun t ht => by simp [h2 t ht]⟩
    · cases h
      exact ⟨hmd, fun _ h => h⟩

/-- **what the parser can produce is grammar-valid** (tree and metadata) -/
theorem parseToks_good (isSpace : Char → Bool) (toks : List Tok) (T : Tree)
    (h : parseToks isSpace toks = .ok T) (hnb : ∀ t ∈ toks, NoBreak t.text) :
    (∃ k : CNode, k.wf = true ∧ k.tree = T.node ∧ ∀ t ∈ k.toks, t ∈ toks) ∧ WfMeta isSpace T.metadata := by
  simp only [parseToks, parseTree, bind, Except.bind, Except.map] at h
  cases hA : parseComments ⟨eofPos toks⟩ isSpace toks [] with
  | error e => simp [hA] at h
  | ok p =>
    obtain ⟨md, ts⟩ := p
    simp only [hA] at h
    cases hB : parseNode ⟨eofPos toks⟩ (ts.length + 1) ts with
    | error e => simp [hB] at h
    | ok q =>
      simp only [hB, pure, Except.pure] at h
      cases h
      obtain ⟨h1, h2⟩ := parseComments_inv _ isSpace toks [] md ts hA hnb ⟨by simp, by simp⟩
      obtain ⟨k, k1, k2, k3⟩ := (parse_complete _ _).1 ts q hB
      refine ⟨⟨k, k1, k2, fun t ht => h2 t (by rw [k3]; simp [ht])⟩, (metaInv_iff _ _).1 h1⟩

end Penman.FL

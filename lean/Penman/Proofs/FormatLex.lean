/-
  format ∘ lex: the text `formatNode` writes for the abstract tree of a concrete
  syntax tree `k` (whose token texts are in their class languages) lexes, under every
  indentation / compactness option and followed by anything, to a token list with the same
  (type, text) sequence as `k.toks`.  Mutual induction over `CNode` / `CEdges`.
-/
import Penman.Proofs.LexStr
import Penman.Proofs.FormatJoin
import Penman.Proofs.ParseRoundTrip
import Penman.Spec.TextWf

set_option linter.unusedSimpArgs false
namespace Penman.FL
open Penman Penman.Spec Penman.Lex

/-! ### consequences of `FmtCfgWf` -/

structure FmtCfgWfP (cfg : LexCfg) : Prop where
  base : CfgWfP cfg
  space_blank : ' ' ∈ cfg.blank
  lf_blank : '\n' ∈ cfg.blank
  penman_head : ∃ tl, cfg.penmanOrder = .COMMENT :: tl
  triple_head : ∃ tl, cfg.tripleOrder = .COMMENT :: tl
  p_string : TokTy.STRING ∈ cfg.penmanOrder
  p_lparen : TokTy.LPAREN ∈ cfg.penmanOrder
  p_rparen : TokTy.RPAREN ∈ cfg.penmanOrder
  p_slash : TokTy.SLASH ∈ cfg.penmanOrder
  p_role : TokTy.ROLE ∈ cfg.penmanOrder
  p_symbol : TokTy.SYMBOL ∈ cfg.penmanOrder
  p_alignment : TokTy.ALIGNMENT ∈ cfg.penmanOrder
  t_string : TokTy.STRING ∈ cfg.tripleOrder
  t_lparen : TokTy.LPAREN ∈ cfg.tripleOrder
  t_rparen : TokTy.RPAREN ∈ cfg.tripleOrder
  t_symbol : TokTy.SYMBOL ∈ cfg.tripleOrder
  comma_sym : ',' ∉ cfg.symExcl
  caret_sym : '^' ∉ cfg.symExcl

theorem FmtCfgWf.toP {cfg : LexCfg} (h : FmtCfgWf cfg = true) : FmtCfgWfP cfg := by
  simp only [FmtCfgWf, Bool.and_eq_true, List.contains_eq_mem, decide_eq_true_eq, beq_iff_eq,
    List.all_cons, List.all_nil, Bool.and_true, Bool.not_eq_true', decide_eq_false_iff_not] at h
  obtain ⟨⟨⟨⟨⟨⟨⟨⟨h0, h1⟩, h2⟩, h3⟩, h4⟩, p1, p2, p3, p4, p5, p6, p7⟩, t1, t2, t3, t4⟩, c1⟩, c2⟩ := h
  refine ⟨CfgWf.toP h0, h1, h2, ?_, ?_, p1, p2, p3, p4, p5, p6, p7, t1, t2, t3, t4, c1, c2⟩
  · cases hc : cfg.penmanOrder with
    | nil => simp [hc] at h3
    | cons a tl => simp [hc] at h3; exact ⟨tl, by rw [h3]⟩
  · cases hc : cfg.tripleOrder with
    | nil => simp [hc] at h4
    | cons a tl => simp [hc] at h4; exact ⟨tl, by rw [h4]⟩

/-! ### good tokens -/

/-- the token's text is in the language of its class, has no line break, and a SYMBOL does
    not start with `#` -/
def TokGood (cfg : LexCfg) (t : Tok) : Prop :=
  Lang cfg t.ty t.text ∧ NoBreak t.text ∧ (t.ty = .SYMBOL → t.text.head? ≠ some '#')

/-- what follows an edge text inside a node: a space, a line feed, or `)` -/
def SepHead (tail : Str) : Prop := ∀ c, tail.head? = some c → c = ' ' ∨ c = '\n' ∨ c = ')'

variable {cfg : LexCfg}

theorem sepHead_ends (hw : FmtCfgWfP cfg) {c : Char} (h : c = ' ' ∨ c = '\n' ∨ c = ')') :
    c ∈ cfg.symExcl ∧ c ∈ cfg.roleExcl ∧ inRanges cfg.alnDigit c = false ∧ c ≠ ',' := by
  apply sep_ends hw.base
  rcases h with rfl | rfl | rfl
  · exact .inl hw.space_blank
  · exact .inl hw.lf_blank
  · exact .inr (by simp [delims])

theorem tilde_ends (hw : FmtCfgWfP cfg) : '~' ∈ cfg.symExcl ∧ '~' ∈ cfg.roleExcl :=
  ⟨(sep_ends hw.base (.inr (by simp [delims]))).1, (sep_ends hw.base (.inr (by simp [delims]))).2.1⟩

theorem sepHead_cons {c : Char} (t : Str) (h : c = ' ' ∨ c = '\n' ∨ c = ')') : SepHead (c :: t) := by
  intro d hd; simp at hd; subst hd; exact h

/-- the PENMAN-mode (type, text) sequence -/
abbrev lexP (cfg : LexCfg) (s : Str) : List (TokTy × Str) := lexC cfg cfg.penmanOrder s

theorem lexP_lparen (hw : FmtCfgWfP cfg) (rest : Str) :
    lexP cfg ('(' :: rest) = (.LPAREN, ['(']) :: lexP cfg rest :=
  lexC_delim hw.base hw.base.penman_order (by simp) hw.p_lparen rest

theorem lexP_rparen (hw : FmtCfgWfP cfg) (rest : Str) :
    lexP cfg (')' :: rest) = (.RPAREN, [')']) :: lexP cfg rest :=
  lexC_delim hw.base hw.base.penman_order (by simp) hw.p_rparen rest

theorem lexP_slash (hw : FmtCfgWfP cfg) (rest : Str) :
    lexP cfg ('/' :: rest) = (.SLASH, ['/']) :: lexP cfg rest :=
  lexC_delim hw.base hw.base.penman_order (by simp) hw.p_slash rest

theorem lexP_symbol (hw : FmtCfgWfP cfg) {s rest : Str} (hs : IsSymbol cfg s) (hnb : NoBreak s)
    (hhash : s.head? ≠ some '#') (hrest : ∀ c, rest.head? = some c → c ∈ cfg.symExcl) :
    lexP cfg (s ++ rest) = (.SYMBOL, s) :: lexP cfg rest :=
  lexC_symbol hw.base hw.base.penman_order hw.p_symbol hs hnb hhash hrest

theorem lexP_role (hw : FmtCfgWfP cfg) {s rest : Str} (hs : IsRole cfg s) (hnb : NoBreak s)
    (hrest : ∀ c, rest.head? = some c → c ∈ cfg.roleExcl) :
    lexP cfg (s ++ rest) = (.ROLE, s) :: lexP cfg rest :=
  lexC_role hw.base hw.base.penman_order hw.p_role hs hnb hrest

theorem lexP_string (hw : FmtCfgWfP cfg) {s : Str} (rest : Str) (hs : IsString cfg s) (hnb : NoBreak s) :
    lexP cfg (s ++ rest) = (.STRING, s) :: lexP cfg rest :=
  lexC_string hw.base hw.base.penman_order hw.p_string rest hs hnb

theorem lexP_space (hw : FmtCfgWfP cfg) (rest : Str) : lexP cfg (' ' :: rest) = lexP cfg rest :=
  lexC_blank hw.base hw.space_blank (by decide) (by decide) rest

theorem lexP_sep (hw : FmtCfgWfP cfg) {sep : Str} (h : Sep sep) (rest : Str) :
    lexP cfg (sep ++ rest) = lexP cfg rest := by
  rcases h with rfl | ⟨k, rfl⟩
  · exact lexP_space hw rest
  · rw [List.cons_append, lexP, lexC_newline]
    exact lexC_blanks hw.base hw.space_blank (by decide) (by decide) k rest

theorem sep_sepHead {sep : Str} (h : Sep sep) (rest : Str) : SepHead (sep ++ rest) := by
  rcases h with rfl | ⟨k, rfl⟩
  · exact sepHead_cons _ (.inl rfl)
  · exact sepHead_cons _ (.inr (.inl rfl))

/-! ### role / atom texts with an optional alignment -/

def alnText : Option Tok → Str
  | none => []
  | some a => a.text

theorem ttText_eq (x : TText) : x.text = x.tok.text ++ alnText x.aln := by
  unfold TText.text alnText; cases x.aln <;> simp

theorem ttToks_eq (x : TText) : x.toks = x.tok :: x.aln.toList := by
  unfold TText.toks; cases x.aln <;> rfl

theorem aln_lex (hw : FmtCfgWfP cfg) (o : Option Tok) (hty : ∀ a, o = some a → a.ty = .ALIGNMENT)
    (hg : ∀ a, o = some a → TokGood cfg a) (tail : Str) (ht : AlnEnd cfg tail) :
    lexP cfg (alnText o ++ tail) = o.toList.map core ++ lexP cfg tail := by
  cases o with
  | none => rfl
  | some a =>
    have hty := hty a rfl
    obtain ⟨hl, hnb, -⟩ := hg a rfl
    rw [hty] at hl
    simp only [alnText, Option.toList_some, List.map_cons, List.map_nil, List.singleton_append, core, hty]
    exact lexC_alignment hw.base hw.base.penman_order hw.p_alignment hl hnb ht

theorem aln_head (o : Option Tok) (hty : ∀ a, o = some a → a.ty = .ALIGNMENT)
    (hg : ∀ a, o = some a → TokGood cfg a) (tail : Str) :
    ∀ c, (alnText o ++ tail).head? = some c → c = '~' ∨ tail.head? = some c := by
  intro c hc
  cases o with
  | none => exact .inr hc
  | some a =>
    have hty := hty a rfl
    obtain ⟨hl, -, -⟩ := hg a rfl
    rw [hty] at hl
    obtain ⟨pre, ds, tl, he, -⟩ := hl
    simp only [alnText, he, List.cons_append, List.head?_cons, Option.some.injEq] at hc
    exact .inl hc.symm

theorem ttParts (x : TText) (ha : x.wfAln = true) (hg : ∀ t ∈ x.toks, TokGood cfg t) :
    TokGood cfg x.tok ∧ (∀ a, x.aln = some a → a.ty = .ALIGNMENT) ∧ (∀ a, x.aln = some a → TokGood cfg a) := by
  refine ⟨hg _ (by rw [ttToks_eq x]; simp), ?_, ?_⟩
  · intro a h; simpa [TText.wfAln, h] using ha
  · intro a h; exact hg a (by rw [ttToks_eq x, h]; simp)

/-- a ROLE text (with optional alignment) followed by a separator -/
theorem role_lex (hw : FmtCfgWfP cfg) (x : TText) (hty : x.tok.ty = .ROLE) (ha : x.wfAln = true)
    (hg : ∀ t ∈ x.toks, TokGood cfg t) (tail : Str) (ht : SepHead tail) :
    lexP cfg (x.text ++ tail) = x.toks.map core ++ lexP cfg tail := by
  obtain ⟨⟨hl, hnb, -⟩, h1, h2⟩ := ttParts x ha hg
  rw [hty] at hl
  rw [ttText_eq x, ttToks_eq x, List.append_assoc]
  rw [lexP_role hw hl hnb]
  · rw [aln_lex hw x.aln h1 h2 tail (fun c hc => by
      have := sepHead_ends hw (ht c hc); exact ⟨this.2.2.2, this.2.2.1⟩)]
    simp [core, hty]
  · intro c hc
    rcases aln_head x.aln h1 h2 tail c hc with rfl | h
    · exact (tilde_ends hw).2
    · exact (sepHead_ends hw (ht c h)).2.1

/-- a SYMBOL / STRING text (with optional alignment) followed by a separator -/
theorem atom_lex (hw : FmtCfgWfP cfg) (x : TText) (hty : isSymOrStr x.tok = true) (ha : x.wfAln = true)
    (hg : ∀ t ∈ x.toks, TokGood cfg t) (tail : Str) (ht : SepHead tail) :
    lexP cfg (x.text ++ tail) = x.toks.map core ++ lexP cfg tail := by
  obtain ⟨⟨hl, hnb, hh⟩, h1, h2⟩ := ttParts x ha hg
  have hal := aln_lex hw x.aln h1 h2 tail (fun c hc => by
      have := sepHead_ends hw (ht c hc); exact ⟨this.2.2.2, this.2.2.1⟩)
  rw [ttText_eq x, ttToks_eq x, List.append_assoc]
  simp only [isSymOrStr, Bool.or_eq_true, decide_eq_true_eq] at hty
  rcases hty with hty | hty
  · rw [hty] at hl
    rw [lexP_symbol hw hl hnb (hh hty), hal]
    · simp [core, hty]
    · intro c hc
      rcases aln_head x.aln h1 h2 tail c hc with rfl | h
      · exact (tilde_ends hw).1
      · exact (sepHead_ends hw (ht c h)).1
  · rw [hty] at hl
    rw [lexP_string hw _ hl hnb, hal]
    simp [core, hty]

theorem ttText_ne_nil (x : TText) (hg : TokGood cfg x.tok) (h : isSymOrStr x.tok = true ∨ x.tok.ty = .ROLE) :
    x.text ≠ [] := by
  rw [ttText_eq x]
  obtain ⟨hl, -, -⟩ := hg
  simp only [isSymOrStr, Bool.or_eq_true, decide_eq_true_eq] at h
  rcases h with (h | h) | h <;> rw [h] at hl
  · have := hl.1; simp [this]
  · obtain ⟨b, hb, -⟩ := hl; simp [hb]
  · obtain ⟨b, hb, -⟩ := hl; simp [hb]

theorem role_text_colon (x : TText) (hty : x.tok.ty = .ROLE) (hg : TokGood cfg x.tok) :
    ensureColonRole x.text = x.text := by
  obtain ⟨hl, -, -⟩ := hg
  rw [hty] at hl
  obtain ⟨b, hb, -⟩ := hl
  rw [ttText_eq x, hb]
  simp [ensureColonRole, startsWith]

/-! ### glued edge texts -/

theorem joined_cons_lex (hw : FmtCfgWfP cfg) {x : Str} {L : List Str} {s : Str} {cx cL : List (TokTy × Str)}
    {rest : Str} (hj : Joined Sep (x :: L) s)
    (hx : ∀ tail, SepHead tail → lexP cfg (x ++ tail) = cx ++ lexP cfg tail)
    (hL : ∀ s', Joined Sep L s' → lexP cfg (s' ++ ')' :: rest) = cL ++ lexP cfg (')' :: rest)) :
    lexP cfg (s ++ ')' :: rest) = cx ++ (cL ++ lexP cfg (')' :: rest)) := by
  cases hj with
  | one _ =>
    have h0 := hL [] .nil
    simp only [List.nil_append] at h0
    rw [← h0, hx _ (sepHead_cons _ (.inr (.inr rfl)))]
  | cons _ y r sep s' hsep h2 =>
    rw [List.append_assoc, List.append_assoc, hx _ (sep_sepHead hsep _), lexP_sep hw hsep, hL s' h2]

/-! ### the main induction -/

theorem lang_lparen {t : Tok} (h1 : t.ty = .LPAREN) (h : TokGood cfg t) : core t = (.LPAREN, ['(']) := by
  have := h.1; rw [h1] at this; simp only [Lang] at this; simp [core, h1, this]
theorem lang_rparen {t : Tok} (h1 : t.ty = .RPAREN) (h : TokGood cfg t) : core t = (.RPAREN, [')']) := by
  have := h.1; rw [h1] at this; simp only [Lang] at this; simp [core, h1, this]
theorem lang_slash {t : Tok} (h1 : t.ty = .SLASH) (h : TokGood cfg t) : core t = (.SLASH, ['/']) := by
  have := h.1; rw [h1] at this; simp only [Lang] at this; simp [core, h1, this]

theorem cedges_tree_ne_nil : (es : CEdges) → es ≠ .nil → es.tree ≠ .nil
  | .nil, h => absurd rfl h
  | .atom r none rest, _ => by simp [CEdges.tree]
  | .atom r (some a) rest, _ => by simp [CEdges.tree]
  | .sub r n rest, _ => by simp [CEdges.tree]

mutual
theorem node_lex (hw : FmtCfgWfP cfg) : (k : CNode) → k.wf = true → (∀ t ∈ k.toks, TokGood cfg t) →
    ∀ (indent : Indent) (vars : List Str) (column : Int) (rest : Str),
      lexP cfg (formatNode indent vars k.tree column ++ rest) = k.toks.map core ++ lexP cfg rest
  | .empty lp rp, hwf, hg, indent, vars, column, rest => by
    simp only [CNode.wf, Bool.and_eq_true, decide_eq_true_eq] at hwf
    simp only [CNode.toks, List.mem_cons, List.not_mem_nil, or_false, forall_eq_or_imp, forall_eq] at hg
    simp only [CNode.tree, formatNode_none, CNode.toks, List.map_cons, List.map_nil, List.cons_append,
      List.nil_append, lang_lparen hwf.1 hg.1, lang_rparen hwf.2 hg.2]
    rw [lexP_lparen hw, lexP_rparen hw]
  | .mk lp var sl es rp, hwf, hg, indent, vars, column, rest => by
    simp only [CNode.wf, Bool.and_eq_true, decide_eq_true_eq] at hwf
    obtain ⟨⟨⟨⟨hlp, hv⟩, hsl⟩, hes⟩, hrp⟩ := hwf
    have glp : TokGood cfg lp := hg lp (by simp [CNode.toks])
    have gvar : TokGood cfg var := hg var (by simp [CNode.toks])
    have grp : TokGood cfg rp := hg rp (by simp [CNode.toks])
    have ges : ∀ t ∈ es.toks, TokGood cfg t := fun t ht => hg t (by simp [CNode.toks, ht])
    have gsl : ∀ t ∈ slashToks sl, TokGood cfg t := fun t ht => hg t (by simp [CNode.toks, ht])
    obtain ⟨hvl, hvnb, hvh⟩ := gvar
    rw [hv] at hvl
    have hvne : var.text ≠ [] := hvl.1
    have hvar : ∀ tail, SepHead tail →
        lexP cfg (var.text ++ tail) = (.SYMBOL, var.text) :: lexP cfg tail := fun tail ht =>
      lexP_symbol hw hvl hvnb (hvh hv) (fun c hc => (sepHead_ends hw (ht c hc)).1)
    have cvar : core var = (.SYMBOL, var.text) := by simp [core, hv]
    have ihE := edges_lex hw es hes ges indent vars
    simp only [CNode.toks, List.map_cons, List.map_append, List.map_nil, lang_lparen hlp glp,
      lang_rparen hrp grp, cvar]
    match sl, hsl, gsl with
    | none, _, _ =>
      simp only [CNode.tree, slashToks, List.map_nil, List.nil_append]
      by_cases hnil : es = .nil
      · subst hnil
        simp only [CEdges.tree, formatNode_nil indent vars _ column hvne, CEdges.toks, List.map_nil,
          List.nil_append, List.cons_append, List.append_assoc, List.singleton_append]
        rw [lexP_lparen hw, hvar _ (sepHead_cons _ (.inr (.inr rfl))), lexP_rparen hw]
      · obtain ⟨col, j, hj, he⟩ := formatNode_some indent vars var.text es.tree column hvne
          (cedges_tree_ne_nil es hnil)
        rw [he]
        simp only [List.cons_append, List.append_assoc, List.singleton_append, List.nil_append]
        rw [lexP_lparen hw, hvar _ (sepHead_cons _ (.inl rfl)), lexP_space hw, ihE col j rest hj,
          lexP_rparen hw]
    | some (s, none), hsl, gsl =>
      simp only [slashWf, decide_eq_true_eq] at hsl
      have gs : TokGood cfg s := gsl s (by simp [slashToks])
      simp only [CNode.tree, slashToks, List.map_cons, List.map_nil, lang_slash hsl gs]
      obtain ⟨col, j, hj, he⟩ := formatNode_some indent vars var.text (.atom ['/'] .none es.tree) column hvne
        (by simp)
      rw [he]
      simp only [List.cons_append, List.append_assoc, List.singleton_append, List.nil_append]
      rw [lexP_lparen hw, hvar _ (sepHead_cons _ (.inl rfl)), lexP_space hw]
      have hj' : Joined Sep (['/'] :: (formatEdges indent vars es.tree col).map (·.2)) j := by
        simpa [formatEdges, ensureColonRole, Atom.isMissing] using hj
      rw [joined_cons_lex hw hj' (cx := [(.SLASH, ['/'])]) (fun tail _ => by
          simpa using lexP_slash hw tail) (fun s' hs' => ihE col s' rest hs'), lexP_rparen hw]
      simp
    | some (s, some c), hsl, gsl =>
      simp only [slashWf, Bool.and_eq_true, decide_eq_true_eq] at hsl
      obtain ⟨⟨hs, hc⟩, hca⟩ := hsl
      have gs : TokGood cfg s := gsl s (by simp [slashToks])
      have gc : ∀ t ∈ c.toks, TokGood cfg t := fun t ht => gsl t (by simp [slashToks, ht])
      have hcne : c.text ≠ [] := ttText_ne_nil c (gc _ (by rw [ttToks_eq c]; simp)) (.inl hc)
      have hcne' : c.text.isEmpty = false := by cases h : c.text <;> simp_all
      simp only [CNode.tree, slashToks, List.map_cons, List.map_nil, lang_slash hs gs]
      obtain ⟨col, j, hj, he⟩ := formatNode_some indent vars var.text (.atom ['/'] (.str c.text) es.tree)
        column hvne (by simp)
      rw [he]
      simp only [List.cons_append, List.append_assoc, List.singleton_append, List.nil_append]
      rw [lexP_lparen hw, hvar _ (sepHead_cons _ (.inl rfl)), lexP_space hw]
      have hj' : Joined Sep (('/' :: ' ' :: c.text) :: (formatEdges indent vars es.tree col).map (·.2)) j := by
        simpa [formatEdges, ensureColonRole, Atom.isMissing, hcne', atomText] using hj
      rw [joined_cons_lex hw hj' (cx := (.SLASH, ['/']) :: c.toks.map core) (fun tail ht => by
          simp only [List.cons_append]
          rw [lexP_slash hw, lexP_space hw, atom_lex hw c hc hca gc tail ht])
          (fun s' hs' => ihE col s' rest hs'), lexP_rparen hw]
      simp
theorem edges_lex (hw : FmtCfgWfP cfg) : (es : CEdges) → es.wf = true → (∀ t ∈ es.toks, TokGood cfg t) →
    ∀ (indent : Indent) (vars : List Str) (column : Int) (j rest : Str),
      Joined Sep ((formatEdges indent vars es.tree column).map (·.2)) j →
      lexP cfg (j ++ ')' :: rest) = es.toks.map core ++ lexP cfg (')' :: rest)
  | .nil, _, _, indent, vars, column, j, rest, hj => by
    simp only [CEdges.tree, formatEdges, List.map_nil] at hj
    cases hj
    simp [CEdges.toks]
  | .atom r none es, hwf, hg, indent, vars, column, j, rest, hj => by
    simp only [CEdges.wf, Bool.and_eq_true, decide_eq_true_eq] at hwf
    obtain ⟨⟨hr, hra⟩, hes⟩ := hwf
    have gr : ∀ t ∈ r.toks, TokGood cfg t := fun t ht => hg t (by simp [CEdges.toks, ht])
    have ges : ∀ t ∈ es.toks, TokGood cfg t := fun t ht => hg t (by simp [CEdges.toks, ht])
    have hcol := role_text_colon r hr (gr _ (by rw [ttToks_eq r]; simp))
    have hj' : Joined Sep (r.text :: (formatEdges indent vars es.tree column).map (·.2)) j := by
      simpa [CEdges.tree, formatEdges, hcol, Atom.isMissing] using hj
    rw [joined_cons_lex hw hj' (fun tail ht => role_lex hw r hr hra gr tail ht)
      (fun s' hs' => edges_lex hw es hes ges indent vars column s' rest hs')]
    simp [CEdges.toks]
  | .atom r (some a) es, hwf, hg, indent, vars, column, j, rest, hj => by
    simp only [CEdges.wf, Bool.and_eq_true, decide_eq_true_eq] at hwf
    obtain ⟨⟨⟨⟨hr, hra⟩, ha⟩, haa⟩, hes⟩ := hwf
    have gr : ∀ t ∈ r.toks, TokGood cfg t := fun t ht => hg t (by simp [CEdges.toks, ht])
    have ga : ∀ t ∈ a.toks, TokGood cfg t := fun t ht => hg t (by simp [CEdges.toks, ht])
    have ges : ∀ t ∈ es.toks, TokGood cfg t := fun t ht => hg t (by simp [CEdges.toks, ht])
    have hcol := role_text_colon r hr (gr _ (by rw [ttToks_eq r]; simp))
    have hane : a.text ≠ [] := ttText_ne_nil a (ga _ (by rw [ttToks_eq a]; simp)) (.inl ha)
    have hane' : a.text.isEmpty = false := by cases h : a.text <;> simp_all
    have hj' : Joined Sep ((r.text ++ ' ' :: a.text) :: (formatEdges indent vars es.tree column).map (·.2)) j := by
      simpa [CEdges.tree, formatEdges, hcol, Atom.isMissing, hane', atomText] using hj
    rw [joined_cons_lex hw hj' (cx := r.toks.map core ++ a.toks.map core) (fun tail ht => by
        simp only [List.append_assoc, List.cons_append]
        rw [role_lex hw r hr hra gr _ (sepHead_cons _ (.inl rfl)), lexP_space hw,
          atom_lex hw a ha haa ga tail ht])
      (fun s' hs' => edges_lex hw es hes ges indent vars column s' rest hs')]
    simp [CEdges.toks]
  | .sub r n es, hwf, hg, indent, vars, column, j, rest, hj => by
    simp only [CEdges.wf, Bool.and_eq_true, decide_eq_true_eq] at hwf
    obtain ⟨⟨⟨hr, hra⟩, hn⟩, hes⟩ := hwf
    have gr : ∀ t ∈ r.toks, TokGood cfg t := fun t ht => hg t (by simp [CEdges.toks, ht])
    have gn : ∀ t ∈ n.toks, TokGood cfg t := fun t ht => hg t (by simp [CEdges.toks, ht])
    have ges : ∀ t ∈ es.toks, TokGood cfg t := fun t ht => hg t (by simp [CEdges.toks, ht])
    have hcol := role_text_colon r hr (gr _ (by rw [ttToks_eq r]; simp))
    simp only [CEdges.tree, formatEdges, hcol, List.map_cons] at hj
    rw [joined_cons_lex hw hj (cx := r.toks.map core ++ n.toks.map core) (fun tail _ => by
        simp only [List.append_assoc, List.cons_append, List.nil_append]
        rw [role_lex hw r hr hra gr _ (sepHead_cons _ (.inl rfl)), lexP_space hw, node_lex hw n hn gn])
      (fun s' hs' => edges_lex hw es hes ges indent vars column s' rest hs')]
    simp [CEdges.toks]
end

end Penman.FL

/-
  Penman.Proofs.Transform.Preserve — preservation facts of `reifyEdges` and
  `dereifyEdges` (top, nodes, errors).
-/
import Penman.Proofs.Transform.InverseMain
import Penman.Proofs.Transform.Branches
namespace Penman

/-! ### `reifyEdges` -/

theorem reifyEdges_hasInst {m : Model} {g : Graph} {rev : List Ev} {st : RState}
    (hm : ReifWf m) (hg : RolesColon g) (hrun : Run m g rev st)
    (ho : rev.reverse.map Ev.orig = g.triples) (hi : HasInst g) : HasInst (reifyResult g st) := by
  have ht := reifyResult_triples hm hg hrun
  have hok := evOk_rev hrun
  -- instance triples of `g` are kept
  have hkeep : ∀ t ∈ g.triples, t.role = CONCEPT_ROLE → t ∈ (reifyResult g st).triples := by
    intro t htg hc
    rw [← ho, List.mem_map] at htg
    obtain ⟨e, he, heo⟩ := htg
    cases e with
    | keep t' =>
      simp only [Ev.orig] at heo; subst heo
      rw [ht]; exact List.mem_flatMap.mpr ⟨_, he, by simp [Ev.out]⟩
    | reif t' rf v inv =>
      simp only [Ev.orig] at heo; subst heo
      have := (evOk_reif (hok _ he)).2.2.2
      rw [hc, hm.2] at this; simp at this
  have old : ∀ t ∈ g.triples, ∃ t' ∈ (reifyResult g st).triples, t'.src = t.src ∧
      t'.role = CONCEPT_ROLE := by
    intro t htg
    obtain ⟨t', ht', hs, hc⟩ := hi t htg
    exact ⟨t', hkeep t' ht' hc, hs, hc⟩
  intro t1 h1
  rw [ht, List.mem_flatMap] at h1
  obtain ⟨e, he, h1⟩ := h1
  cases e with
  | keep t =>
    simp only [Ev.out, List.mem_singleton] at h1
    subst h1; exact old _ (hok _ he).1
  | reif t rf v inv =>
    refine ⟨nodeTriple rf v, ?_, ?_, rfl⟩
    · rw [ht]; exact List.mem_flatMap.mpr ⟨_, he, by simp [Ev.out]⟩
    · simp only [Ev.out, List.mem_cons, List.not_mem_nil, or_false] at h1
      rcases h1 with rfl | rfl | rfl <;> simp

/-! ### `dereifyEdges` -/

theorem getTop_of_top {g g' : Graph} (h1 : g'.top = g.getTop) (h2 : g.triples = [] → g'.triples = []) :
    g'.getTop = g.getTop := by
  cases hgt : g.getTop with
  | some x => rw [hgt] at h1; unfold Graph.getTop; rw [h1]
  | none =>
    rw [hgt] at h1
    have : g.triples = [] := by
      unfold Graph.getTop at hgt
      cases htop : g.top with
      | some y => rw [htop] at hgt; simp at hgt
      | none =>
        rw [htop] at hgt
        cases hl : g.triples with
        | nil => rfl
        | cons a r => rw [hl] at hgt; simp at hgt
    unfold Graph.getTop; rw [h1, h2 this]

/-- `dereify_edges` keeps the top -/
theorem dereifyEdges_getTop {m : Model} {g g' : Graph} (h : dereifyEdges m g = .ok g') :
    g'.getTop = g.getTop := by
  obtain ⟨ht, htop, _, _⟩ := dereifyEdges_ok h
  apply getTop_of_top htop
  intro hnil
  rw [ht, hnil]; rfl

/-- `Model.dereify` on an instance triple and two relations of the same
    variable never raises the `ValueError` -/
theorem dereify_no_valueError (m : Model) {i0 a b : Triple} (hc : i0.role = CONCEPT_ROLE)
    (ha : i0.src = a.src) (hb : a.src = b.src) :
    (∃ r, m.dereify i0 a b = .ok r) ∨ m.dereify i0 a b = .error .model := by
  unfold Model.dereify
  rw [if_neg (by simp [hc]), if_neg (by simp [ha, hb])]
  simp only
  split
  · right; rfl
  · split
    · left; exact ⟨_, rfl⟩
    · right; rfl

theorem mem_otherOf {ts : List Triple} {x : Str} {t : Triple} (h : t ∈ otherOf ts x) :
    t ∈ ts ∧ t.role ≠ CONCEPT_ROLE ∧ t.src = x := by
  simpa [otherOf] using h

/-- an agenda entry never raises (after fix F20 a dereified triple whose source
    is not a variable is skipped) -/
theorem entryRes_no_err {m : Model} {g : Graph} {x : Str} {i0 : Triple} {e : PyErr}
    (hi : i0.role = CONCEPT_ROLE ∧ i0.src = x) : entryRes m g x i0 ≠ .err e := by
  intro h
  unfold entryRes at h
  split at h
  · rename_i a b hl
    have ha := mem_otherOf (show a ∈ otherOf g.triples x by rw [hl]; simp)
    have hb := mem_otherOf (show b ∈ otherOf g.triples x by rw [hl]; simp)
    split at h
    · simp only at h
      by_cases hp : getPushedVariable g b = some x
      · simp only [hp, if_true] at h
        rcases dereify_no_valueError m hi.1 (hi.2.trans hb.2.2.symm) (hb.2.2.trans ha.2.2.symm)
          with ⟨r, hr⟩ | hr
        · rw [hr] at h
          obtain ⟨s, role, tgt⟩ := r
          cases s with
          | str s => simp only at h; split at h <;> simp at h
          | none => simp at h
          | num n => simp at h
        · rw [hr] at h; simp at h
      · simp only [hp, if_false] at h
        rcases dereify_no_valueError m hi.1 (hi.2.trans ha.2.2.symm) (ha.2.2.trans hb.2.2.symm)
          with ⟨r, hr⟩ | hr
        · rw [hr] at h
          obtain ⟨s, role, tgt⟩ := r
          cases s with
          | str s => simp only at h; split at h <;> simp at h
          | none => simp at h
          | num n => simp at h
        · rw [hr] at h; simp at h
    · simp at h
  · simp at h

/-- **`dereify_edges` is total** (after fix F20): it never raises, for any
    graph and model. -/
theorem dereifyEdges_total (m : Model) (g : Graph) : ∃ g', dereifyEdges m g = .ok g' := by
  have : ∀ p ∈ (agendaScan g).2.1, ∀ e, entryRes m g p.1 p.2 ≠ .err e := by
    intro p hp e
    have := instOf_getLast (agendaScan_inst_mem hp)
    exact entryRes_no_err ⟨this.2.1, this.2.2⟩
  obtain ⟨agenda, hag⟩ := dereifyAgenda_of_noErr this
  exact dereifyEdges_of_agenda hag

/-- the dereified triple of a collapsed variable: source and target are the
    two targets of its relations -/
theorem collapseOf_some {m : Model} {g : Graph} {x : Str} {ag : Agenda}
    (h : collapseOf m g x = some ag) :
    ag.var = x ∧ ag.first ∈ otherOf g.triples x ∧
    (∃ a b, otherOf g.triples x = [a, b] ∧
      ((Atom.str ag.dereified.src = a.tgt ∧ ag.dereified.tgt = b.tgt) ∨
       (Atom.str ag.dereified.src = b.tgt ∧ ag.dereified.tgt = a.tgt))) ∧
    (∃ rf ∈ m.reifs, rf.role = ag.dereified.role) ∧ ag.dereified.src ∈ g.variables := by
  unfold collapseOf at h
  split at h
  · rename_i i0 hi0
    split at h
    · rename_i ag' he
      simp only [Option.some.injEq] at h
      subst h
      refine ⟨entryRes_var he, ?_⟩
      unfold entryRes at he
      split at he
      · rename_i a b hl
        rw [hl]
        split at he
        · simp only at he
          by_cases hp : getPushedVariable g b = some x
          · simp only [hp, if_true] at he
            cases hd : m.dereify i0 b a with
            | error e => rw [hd] at he; cases e <;> simp at he
            | ok r =>
              rw [hd] at he
              obtain ⟨s, role, tgt⟩ := r
              cases s with
              | str s =>
                simp only at he
                split at he
                case isFalse => simp at he
                rename_i hsv
                simp only [EntryRes.add.injEq] at he
                subst he
                obtain ⟨this, hrole⟩ := dereify_ok_spec hd
                refine ⟨by simp, ⟨a, b, rfl, ?_⟩, hrole, hsv⟩
                simp only at this
                rcases this with ⟨h1, h2⟩ | ⟨h1, h2⟩
                · right; exact ⟨h1, h2⟩
                · left; exact ⟨h1, h2⟩
              | none => simp at he
              | num _ => simp at he
          · simp only [hp, if_false] at he
            cases hd : m.dereify i0 a b with
            | error e => rw [hd] at he; cases e <;> simp at he
            | ok r =>
              rw [hd] at he
              obtain ⟨s, role, tgt⟩ := r
              cases s with
              | str s =>
                simp only at he
                split at he
                case isFalse => simp at he
                rename_i hsv
                simp only [EntryRes.add.injEq] at he
                subst he
                obtain ⟨this, hrole⟩ := dereify_ok_spec hd
                refine ⟨by simp, ⟨a, b, rfl, ?_⟩, hrole, hsv⟩
                simp only at this
                rcases this with ⟨h1, h2⟩ | ⟨h1, h2⟩
                · left; exact ⟨h1, h2⟩
                · right; exact ⟨h1, h2⟩
              | none => simp at he
              | num _ => simp at he
        · simp at he
      · simp at he
    · simp at h
  · simp at h

/-- variables of a graph whose top is a source are sources -/
theorem isSrc_of_mem_variables {g : Graph} (htop : ∀ x, g.getTop = some x → IsSrc g x) {x : Str}
    (hx : x ∈ g.variables) : IsSrc g x := by
  rw [mem_variables] at hx
  rcases hx with h | h
  · exact h
  · exact htop x (by simp [Graph.getTop, h])

/-- the source of every dereified triple is a variable (fix F20), hence a node
    when every source has one and the top is a source -/
theorem dereified_src_node {m : Model} {g : Graph} (hi : HasInst g)
    (htop : ∀ x, g.getTop = some x → IsSrc g x) :
    ∀ x ag, collapseOf m g x = some ag →
      ∃ t' ∈ g.triples, t'.src = ag.dereified.src ∧ t'.role = CONCEPT_ROLE := by
  intro x ag hx
  obtain ⟨t, ht, hs⟩ := isSrc_of_mem_variables htop (collapseOf_some hx).2.2.2.2
  obtain ⟨t', ht', hs', hc⟩ := hi t ht
  exact ⟨t', ht', hs'.trans hs, hc⟩

/-- **Every source still has a node after `dereify_edges`**, given that the
    sources of the dereified triples have one (see `dereified_src_node`). -/
theorem dereifyEdges_hasInst {m : Model} {g g' : Graph} (h : dereifyEdges m g = .ok g')
    (hi : HasInst g)
    (hsrc : ∀ x ag, collapseOf m g x = some ag →
      ∃ t' ∈ g.triples, t'.src = ag.dereified.src ∧ t'.role = CONCEPT_ROLE) : HasInst g' := by
  have ht := (dereifyEdges_ok h).1
  -- a referenced variable, or one with an uncollapsed triple, keeps its instance triple
  have keepInst : ∀ t ∈ g.triples, collapseOf m g t.src = none →
      ∃ t' ∈ g'.triples, t'.src = t.src ∧ t'.role = CONCEPT_ROLE := by
    intro t htg hcol
    obtain ⟨t', ht', hs, hc⟩ := hi t htg
    refine ⟨{ t' with role := ensureColon t'.role }, ?_, hs, by simp [hc, ensureColon_concept]⟩
    rw [ht, List.mem_map]
    refine ⟨t', List.mem_flatMap.mpr ⟨t', ht', ?_⟩, rfl⟩
    unfold derOut; rw [hs, hcol]; simp
  intro t1 h1
  rw [ht, List.mem_map] at h1
  obtain ⟨t0, h0, rfl⟩ := h1
  rw [List.mem_flatMap] at h0
  obtain ⟨t, htg, h0⟩ := h0
  unfold derOut at h0
  cases hcol : collapseOf m g t.src with
  | none =>
    rw [hcol] at h0
    simp only [List.mem_singleton] at h0
    subst h0
    exact keepInst t0 htg hcol
  | some ag =>
    rw [hcol] at h0
    simp only at h0
    split at h0
    · simp only [List.mem_singleton] at h0
      subst h0
      obtain ⟨t', ht', hs, hc⟩ := hsrc _ _ hcol
      -- the source of the dereified triple is a relation target, hence not collapsed
      obtain ⟨_, _, ⟨a, b, hl, hab⟩, _, _⟩ := collapseOf_some hcol
      have hfixed : ∃ t2 ∈ g.triples, t2.role ≠ CONCEPT_ROLE ∧ t2.tgt = .str ag.dereified.src := by
        rcases hab with ⟨h1, _⟩ | ⟨h1, _⟩
        · have := mem_otherOf (show a ∈ otherOf g.triples t.src by rw [hl]; simp)
          exact ⟨a, this.1, this.2.1, h1.symm⟩
        · have := mem_otherOf (show b ∈ otherOf g.triples t.src by rw [hl]; simp)
          exact ⟨b, this.1, this.2.1, h1.symm⟩
      have := collapseOf_guard m g ag.dereified.src (Or.inr (Or.inl hfixed))
      obtain ⟨t'', a1, a2, a3⟩ := keepInst t' ht' (by rw [hs]; exact this)
      exact ⟨t'', a1, a2.trans hs, a3⟩
    · simp at h0

end Penman

/-
# C01 — Text <-> tree is lossless under every formatting option

Model: `format`, `formatNode`, `formatEdges`, `joinParts`, `formatMeta` (`Penman/Format.lean`),
`lexStr`, `splitLines` (`Penman/Lexer.lean`), `parseToks` (`Penman/Parse.lean`).
`parse cfg isSpace s` below is `penman.parse(s)` for a `str` argument:
`parseToks isSpace (lexStr cfg cfg.penmanOrder s)`.

Hypotheses (all decidable, `Penman/Spec/TextWf.lean`):
* `FmtCfgWf cfg` on the lexer tables (`CfgWf` of C08, plus: space and line feed are blanks,
  COMMENT is the first alternative, the PENMAN order has all classes); holds for the generated
  tables: `fmt_cfg_wf`.
* `WfTreeText cfg t` — "assembled from grammar-valid variables, roles, atoms, alignments":
  variable = SYMBOL text; `/` only as first role with an atomic target; other roles = ROLE text
  (so with the leading colon) optionally + ALIGNMENT text; atoms = missing, or SYMBOL / STRING text
  optionally + ALIGNMENT text; no numbers; `()` allowed (also nested); a node whose variable is
  the EMPTY STRING is excluded (it is written `()` and read back without variable); no raw
  `\n` / `\r` in any text (a STRING literal may contain a line feed as far as the STRING pattern
  is concerned, but `lex` of a `str` splits lines first).  `wfTreeText_iff`: equivalently, `t`
  is the abstract tree of a well-formed concrete syntax tree (C07's `CNode`) whose token texts are
  in the languages of their classes (C08's `Lang`).
* `WfMeta isSpace md` — "…and metadata": distinct keys; key without space, not starting with
  `:`, without `::` (it may be empty); value without `::`, equal to its own `rstrip()`; no raw
  line break in either.

Property text ↦ theorems
* "For every tree the parser can produce …" ↦ `parse_wf` (what `parse` returns IS `WfTreeText`
  and `WfMeta`; uses the C08 lexer specification), so everything below applies to it.
* "… and every tree assembled from grammar-valid variables, roles, atoms, alignments and
  metadata, writing it with any indentation (none, adaptive, or a fixed width) and either
  compactness setting and parsing the text again yields an equal tree with equal metadata"
  ↦ `C01_roundtrip` (for EVERY `indent : Option Int`, including negative widths, and both
  `compact`); the lexical half is `format_lex` (the tokens of the formatted text: one COMMENT
  per metadata line, then a token list of the tree in the sense of C07's `TreeToks`).
* "The texts produced under different options differ only in whitespace between tokens"
  ↦ `C01_whitespace` (same (type, text) token sequence under all options),
  `C01_whitespace_woven` (every formatted text is `Woven` from its token texts: it is
  `g₀ t₁ g₁ … tₙ gₙ` with `tᵢ` the token texts and every gap `gᵢ` made of spaces and line feeds
  only), `C01_whitespace_only` (so two formatted texts of the same tree are woven from the SAME
  list of texts: they are equal up to spaces / line feeds between tokens); also
  `C01_whitespace_gaps` (C08: in every line the tokens carry their exact text at their offset
  and everything outside the tokens is blank).
* "the formatted text of any accepted input is a fixed point of parse-then-format"
  ↦ `C01_fixed_point` (unconditional: no hypothesis on the metadata of the input is needed,
  `parse_wf` shows the parser's metadata is always `WfMeta`), `C01_fixed_point_text`.

Nothing is left unproved.  No counterexample to the property was found in the model.  The
`example`s at the end show that the hypotheses of `WfTreeText` are needed (role without colon,
number atom, empty-string variable, line feed inside a string).
-/
import Penman.Proofs.ParseWf
import Penman.Proofs.FormatWoven
import Penman.Props.C07
import Penman.Props.C08
import Penman.Generated

namespace Penman.C01
open Penman Penman.Spec Penman.Lex Penman.FL

/-- `penman.parse(s)` for a `str` -/
abbrev parse (cfg : LexCfg) (isSpace : Char → Bool) (s : Str) : Except PyErr Tree :=
  parseToks isSpace (lexStr cfg cfg.penmanOrder s)

/-- the generated lexer tables satisfy the hypothesis of all theorems below -/
theorem fmt_cfg_wf : FmtCfgWf Generated.lexCfg = true := by decide

/-- `WfTreeText` = abstract tree of a well-formed concrete syntax tree with good token texts -/
theorem wfTreeText_iff {cfg : LexCfg} (hw : FmtCfgWf cfg = true) (t : Node) :
    WfTreeText cfg t ↔ ∃ k : CNode, (k.wf = true ∧ ∀ x ∈ k.toks, TokGood cfg x) ∧ k.tree = t :=
  FL.wfTreeText_iff (FmtCfgWf.toP hw).base t

/-- what `WfMeta` says, item by item -/
theorem wfMeta_iff (isSpace : Char → Bool) (md : AList Str Str) :
    WfMeta isSpace md ↔ (md.map (·.1)).Pairwise (· ≠ ·) ∧ ∀ kv ∈ md,
      ' ' ∉ kv.1 ∧ kv.1.head? ≠ some ':' ∧ hasColons kv.1 = false ∧ hasColons kv.2 = false ∧
      rstripBy isSpace kv.2 = kv.2 ∧ NoBreak kv.1 ∧ NoBreak kv.2 := by
  simp only [WfMeta, List.all_eq_true, metaItemB, Bool.and_eq_true, Bool.not_eq_true',
    List.contains_eq_mem, decide_eq_false_iff_not, bne_iff_ne, ne_eq, beq_iff_eq, noBreakB_iff]
  constructor
  · rintro ⟨h1, h2⟩
    exact ⟨h1, fun kv hkv => by obtain ⟨⟨⟨⟨⟨⟨a, b⟩, c⟩, d⟩, e⟩, f⟩, g⟩ := h2 kv hkv; exact ⟨a, b, c, d, e, f, g⟩⟩
  · rintro ⟨h1, h2⟩
    exact ⟨h1, fun kv hkv => by obtain ⟨a, b, c, d, e, f, g⟩ := h2 kv hkv; exact ⟨⟨⟨⟨⟨⟨a, b⟩, c⟩, d⟩, e⟩, f⟩, g⟩⟩

theorem wfMeta_noBreak {isSpace : Char → Bool} {md : AList Str Str} (h : WfMeta isSpace md) :
    ∀ kv ∈ md, NoBreak kv.1 ∧ NoBreak kv.2 := fun kv hkv =>
  let h' := ((wfMeta_iff isSpace md).1 h).2 kv hkv
  ⟨h'.2.2.2.2.2.1, h'.2.2.2.2.2.2⟩

/-! ## format ∘ lex -/

/-- **the tokens of a formatted tree**, for every indentation (`none`, `some (-1)` adaptive,
    `some n` fixed, any other negative number) and both compactness settings:
    `cs ++ ts` with `cs` one COMMENT token per metadata line `# ::key value` (in order) and
    `ts` a token list of the tree (`TreeToks`: the grammar's derivation of `t`, ALIGNMENT tokens
    split off, positions irrelevant). -/
theorem format_lex {cfg : LexCfg} (hw : FmtCfgWf cfg = true) (t : Node) (md : AList Str Str)
    (ht : WfTreeText cfg t) (hmd : ∀ kv ∈ md, NoBreak kv.1 ∧ NoBreak kv.2) (i : Indent) (c : Bool) :
    ∃ cs ts, lexStr cfg cfg.penmanOrder (format ⟨t, md⟩ i c) = cs ++ ts ∧
      (∀ x ∈ cs, x.ty = .COMMENT) ∧ cs.map (·.text) = formatMeta md ∧ TreeToks t ts := by
  have hwp := FmtCfgWf.toP hw
  obtain ⟨k, hk, rfl⟩ := wfNode_cst hwp.base t ht
  have h := format_lexC hwp k hk md hmd i c
  simp only [lexP, lexC, List.map_eq_append_iff] at h
  obtain ⟨cs, ts, e, h1, h2⟩ := h
  refine ⟨cs, ts, e, ?_, ?_, treeToks_of_core hk.1 h2⟩
  · intro x hx
    have := congrArg (List.map Prod.fst) h1
    simp only [List.map_map] at this
    have h3 : ∀ y ∈ cs.map (Prod.fst ∘ core), y = TokTy.COMMENT := by
      rw [this]; intro y hy; simp at hy; exact hy.2.symm
    exact h3 _ (List.mem_map.2 ⟨x, hx, rfl⟩)
  · have := congrArg (List.map Prod.snd) h1
    simpa [List.map_map, Function.comp_def, core] using this

/-! ## parse ∘ format -/

/-- **Round trip.**  Writing a well-formed tree with well-formed metadata with any indentation
    and either compactness setting and parsing the text again yields the same tree with the
    same metadata (same keys, values and order). -/
theorem C01_roundtrip {cfg : LexCfg} (hw : FmtCfgWf cfg = true) (isSpace : Char → Bool) (t : Node)
    (md : AList Str Str) (ht : WfTreeText cfg t) (hmd : WfMeta isSpace md) (i : Indent) (c : Bool) :
    parse cfg isSpace (format ⟨t, md⟩ i c) = .ok ⟨t, md⟩ := by
  obtain ⟨cs, ts, e, h1, h2, h3⟩ := format_lex hw t md ht (wfMeta_noBreak hmd) i c
  have hp := C07.parseToks_treeToks isSpace cs t ts [] h1 h3
  rw [List.append_nil] at hp
  rw [parse, e, hp]
  have hmd' := (wfMeta_iff isSpace md).1 hmd
  rw [C07.metadata_fmtLines isSpace md cs h2 hmd'.1 (fun kv hkv => by
    obtain ⟨a, b, c', d, e', -, -⟩ := hmd'.2 kv hkv
    rw [hasColons_eq] at c' d
    exact ⟨(entry_ok_iff kv.1 kv.2).2 ⟨a, b, c', d⟩, e'⟩)]

/-- the (type, text) sequence of the tokens of a formatted tree does not depend on the
    formatting options: the texts differ only between tokens -/
theorem C01_whitespace {cfg : LexCfg} (hw : FmtCfgWf cfg = true) (t : Node) (md : AList Str Str)
    (ht : WfTreeText cfg t) (hmd : ∀ kv ∈ md, NoBreak kv.1 ∧ NoBreak kv.2) (i i' : Indent) (c c' : Bool) :
    (lexStr cfg cfg.penmanOrder (format ⟨t, md⟩ i c)).map (fun x => (x.ty, x.text)) =
    (lexStr cfg cfg.penmanOrder (format ⟨t, md⟩ i' c')).map (fun x => (x.ty, x.text)) := by
  have hwp := FmtCfgWf.toP hw
  obtain ⟨k, hk, rfl⟩ := wfNode_cst hwp.base t ht
  exact (format_lexC hwp k hk md hmd i c).trans (format_lexC hwp k hk md hmd i' c').symm

/-- every formatted text consists of its token texts, in order, with nothing but spaces and
    line feeds before, between and after them -/
theorem C01_whitespace_woven {cfg : LexCfg} (hw : FmtCfgWf cfg = true) (t : Node) (md : AList Str Str)
    (ht : WfTreeText cfg t) (hmd : ∀ kv ∈ md, NoBreak kv.1 ∧ NoBreak kv.2) (i : Indent) (c : Bool) :
    Woven ((lexStr cfg cfg.penmanOrder (format ⟨t, md⟩ i c)).map (·.text)) (format ⟨t, md⟩ i c) := by
  have hwp := FmtCfgWf.toP hw
  obtain ⟨k, hk, rfl⟩ := wfNode_cst hwp.base t ht
  have h := congrArg (List.map Prod.snd) (format_lexC hwp k hk md hmd i c)
  simp only [lexP, lexC, List.map_map, List.map_append] at h
  have e : (lexStr cfg cfg.penmanOrder (format ⟨k.tree, md⟩ i c)).map (·.text) =
      formatMeta md ++ k.toks.map (·.text) := by
    simpa [Function.comp_def, core] using h
  rw [e]
  exact format_woven k hk md i c

/-- **the texts produced under different options differ only in whitespace between tokens**:
    both are woven (gaps of spaces and line feeds only) from one and the same list of token
    texts -/
theorem C01_whitespace_only {cfg : LexCfg} (hw : FmtCfgWf cfg = true) (t : Node) (md : AList Str Str)
    (ht : WfTreeText cfg t) (hmd : ∀ kv ∈ md, NoBreak kv.1 ∧ NoBreak kv.2) (i i' : Indent) (c c' : Bool) :
    ∃ texts : List Str, texts = (lexStr cfg cfg.penmanOrder (format ⟨t, md⟩ i c)).map (·.text) ∧
      Woven texts (format ⟨t, md⟩ i c) ∧ Woven texts (format ⟨t, md⟩ i' c') := by
  refine ⟨_, rfl, C01_whitespace_woven hw t md ht hmd i c, ?_⟩
  have h := congrArg (List.map Prod.snd) (C01_whitespace hw t md ht hmd i i' c c')
  simp only [List.map_map, Function.comp_def] at h
  rw [h]
  exact C01_whitespace_woven hw t md ht hmd i' c'

/-- … and what lies between the tokens is blank (C08, for every string): in each line the
    tokens are in order, carry exactly the text at their offset, and every other character of
    the line is a blank. -/
theorem C01_whitespace_gaps {cfg : LexCfg} (hw : FmtCfgWf cfg = true) (T : Tree) (i : Indent) (c : Bool) :
    ∀ line ∈ splitLines (format T i c), ∀ n, Tiling cfg n line (lexLine cfg cfg.penmanOrder n line) :=
  fun line _ n => C08.lex_tiles (orderWf_mem (FmtCfgWf.toP hw).base.penman_order) n line

/-! ## what the parser produces -/

/-- **every tree (and metadata) the parser can produce from a string is grammar-valid** -/
theorem parse_wf {cfg : LexCfg} (hw : FmtCfgWf cfg = true) (isSpace : Char → Bool) (s : Str) (T : Tree)
    (h : parse cfg isSpace s = .ok T) : WfTreeText cfg T.node ∧ WfMeta isSpace T.metadata := by
  have hwp := FmtCfgWf.toP hw
  have hg := lexStr_good hwp s
  obtain ⟨⟨k, k1, k2, k3⟩, hm⟩ := parseToks_good isSpace _ T h (fun t ht => (hg t ht).2.1)
  exact ⟨k2 ▸ cst_wfNode hwp.base k ⟨k1, fun t ht => hg t (k3 t ht)⟩, hm⟩

/-- **Fixed point.**  For any accepted input `s` with `parse s = T`: under every formatting
    option `parse (format T) = T` … -/
theorem C01_fixed_point {cfg : LexCfg} (hw : FmtCfgWf cfg = true) (isSpace : Char → Bool) (s : Str)
    (T : Tree) (h : parse cfg isSpace s = .ok T) (i : Indent) (c : Bool) :
    parse cfg isSpace (format T i c) = .ok T := by
  obtain ⟨h1, h2⟩ := parse_wf hw isSpace s T h
  exact C01_roundtrip hw isSpace T.node T.metadata h1 h2 i c

/-- … hence the formatted text is a fixed point of parse-then-format (with the same options,
    or any other options `i'`, `c'` on both sides) -/
theorem C01_fixed_point_text {cfg : LexCfg} (hw : FmtCfgWf cfg = true) (isSpace : Char → Bool) (s : Str)
    (T : Tree) (h : parse cfg isSpace s = .ok T) (i i' : Indent) (c c' : Bool) :
    (parse cfg isSpace (format T i c)).map (format · i' c') = .ok (format T i' c') := by
  rw [C01_fixed_point hw isSpace s T h i c]; rfl

/-! ## non-vacuity: `(a / b~e.1 :ARG0 (c / "x y") :mod-of a)` with metadata -/

def isSp (c : Char) : Bool := Generated.spaceChars.contains c

def exNode : Node :=
  .mk (some "a".toList) (.atom "/".toList (.str "b~e.1".toList)
    (.sub ":ARG0".toList (.mk (some "c".toList) (.atom "/".toList (.str "\"x y\"".toList) .nil))
      (.atom ":mod-of".toList (.str "a".toList) .nil)))

def exMeta : AList Str Str := [("id".toList, "1".toList), ("snt".toList, "x: y".toList), ("e".toList, [])]

def exTree : Tree := ⟨exNode, exMeta⟩

example : WfTreeText Generated.lexCfg exNode := by decide
example : WfMeta isSp exMeta := by decide

example : format exTree none false =
    "# ::id 1\n# ::snt x: y\n# ::e\n(a / b~e.1 :ARG0 (c / \"x y\") :mod-of a)".toList := by decide
example : format exTree (some (-1)) false =
    "# ::id 1\n# ::snt x: y\n# ::e\n(a / b~e.1\n   :ARG0 (c / \"x y\")\n   :mod-of a)".toList := by decide
example : format exTree (some 2) true =
    "# ::id 1\n# ::snt x: y\n# ::e\n(a / b~e.1\n  :ARG0 (c / \"x y\")\n  :mod-of a)".toList := by decide

/-- through the real `format` / `lexStr` / `parseToks` -/
example : (parse Generated.lexCfg isSp (format exTree none false)).toOption.map (fun T => (T.node == exNode, T.metadata))
    = some (true, exMeta) := by decide +kernel
example : (parse Generated.lexCfg isSp (format exTree (some (-1)) true)).toOption.map (fun T => (T.node == exNode, T.metadata))
    = some (true, exMeta) := by decide +kernel
example : (parse Generated.lexCfg isSp (format exTree (some 4) false)).toOption.map (fun T => (T.node == exNode, T.metadata))
    = some (true, exMeta) := by decide +kernel

example (i : Indent) (c : Bool) : parse Generated.lexCfg isSp (format exTree i c) = .ok exTree :=
  C01_roundtrip fmt_cfg_wf isSp exNode exMeta (by decide) (by decide) i c

example (i i' : Indent) (c c' : Bool) :
    ∃ texts, Woven texts (format exTree i c) ∧ Woven texts (format exTree i' c') := by
  obtain ⟨texts, -, h1, h2⟩ := C01_whitespace_only fmt_cfg_wf exNode exMeta (by decide)
    (wfMeta_noBreak (isSpace := isSp) (by decide)) i i' c c'
  exact ⟨texts, h1, h2⟩

/-- an accepted input with two metadata items on one line (stored right to left), a comment
    without `::`, an alignment, a string, an empty node and a missing target -/
def exInput : Str :=
  "# ::id 1 ::snt x y\n# hello\n(a / b~e.1 :ARG0~2 (c / \"x y\") :mod-of a :x () :y)".toList

example : (parse Generated.lexCfg isSp exInput).toOption.map (·.metadata) =
    some [("snt".toList, "x y".toList), ("id".toList, "1".toList)] := by decide +kernel

example (T : Tree) (h : parse Generated.lexCfg isSp exInput = .ok T) (i : Indent) (c : Bool) :
    parse Generated.lexCfg isSp (format T i c) = .ok T :=
  C01_fixed_point fmt_cfg_wf isSp exInput T h i c

/-! ## the hypotheses are needed -/

/-- a role without colon gets one: the tree is not read back -/
example : format ⟨.mk (some "a".toList) (.atom "ARG0".toList (.str "b".toList) .nil), []⟩ none false
    = "(a :ARG0 b)".toList := by decide
/-- a node whose variable is the empty string is written `()` -/
example : format ⟨.mk (some []) (.atom ":r".toList (.str "b".toList) .nil), []⟩ none false = "()".toList := by decide
/-- a number is read back as a string -/
example : format ⟨.mk (some "a".toList) (.atom ":r".toList (.num "1".toList) .nil), []⟩ none false
    = "(a :r 1)".toList := by decide
/-- a raw line feed inside a string literal: the STRING pattern allows it, line splitting does not -/
example : (parse Generated.lexCfg isSp
    (format ⟨.mk (some "a".toList) (.atom ":r".toList (.str "\"x\ny\"".toList) .nil), []⟩ none false)).toOption.isNone
    = true := by decide +kernel

end Penman.C01

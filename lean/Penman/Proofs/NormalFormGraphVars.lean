/-
  Penman.Proofs.NormalFormGraphVars — the command with `--make-variables FMT`: both passes on one
  tree, under hypotheses on the printed (relabelled) tree; the relabelling step of the second pass is
  the identity by `RV.reset_idem`.
-/
import Penman.Proofs.NormalFormGraphCli
import Penman.Proofs.NormalFormGraphReset

namespace Penman
namespace C20gen
open Penman.NF Penman.Cfg Penman.C03Text Penman.Framing

section
variable (u : UTables) (m : Model) (canon : Bool) (re : Option (List KeyFn × Bool)) (rE dE rA : Bool)
  (fmt : Fmt) (i : Indent) (c : Bool)

/-- `_process_in` does not look at `--make-variables` -/
theorem processIn_varOpts (t : Tree) :
    processIn u m (varOpts canon re rE dE rA fmt i c) t = processIn u m (stageOpts canon re rE dE rA i c) t := rfl

/-- `_process_out` = configure, rearrange, relabel -/
theorem processOut_vars (g : Graph) (T : Tree) (N : Node) (h : configure m g none = .ok T)
    (hr : (rearrangeOpt m re T).node.resetVariables u.isAlpha u.lower fmt = .ok N) :
    processOut u m (varOpts canon re rE dE rA fmt i c) g = .ok ⟨N, T.metadata⟩ := by
  have hmd : (rearrangeOpt m re T).metadata = T.metadata := rearrangeOpt_metadata m re T
  cases re with
  | none =>
    simp only [rearrangeOpt] at hr hmd
    simp only [processOut, varOpts, stageOpts, h, bind, Except.bind, pure, Except.pure, hr]
  | some p =>
    simp only [rearrangeOpt] at hr hmd
    simp only [processOut, varOpts, stageOpts, h, bind, Except.bind, pure, Except.pure, hr, hmd]

theorem processTree_vars (t : Tree) (g : Graph) (T : Tree) (N : Node)
    (hin : processIn u m (varOpts canon re rE dE rA fmt i c) t = .ok g) (h : configure m g none = .ok T)
    (hr : (rearrangeOpt m re T).node.resetVariables u.isAlpha u.lower fmt = .ok N) :
    processTree u m (varOpts canon re rE dE rA fmt i c) t = .ok (format ⟨N, T.metadata⟩ i c, 0) := by
  have hout := processOut_vars u m canon re rE dE rA fmt i c g T N h hr
  simp only [processTree, hin, bind, Except.bind]
  simp only [varOpts, stageOpts, Bool.false_eq_true, if_false] at hout ⊢
  simp only [hout, pure, Except.pure]

end

/-- **`--make-variables`, one graph, both passes** (partial: the hypotheses on the relabelled tree are
    assumed, not derived from the first pass).  The first pass decodes/transforms `T` to `g1`, encodes it to
    `T1`, rearranges, and relabels to `N'`; the printed tree is `R' = ⟨N', metadata⟩`.  If `R'` is `WfLayout`,
    without empty concept slot, grammar-valid, and a fixed point of the canonicalisation, stage and
    rearrangement steps, then the second pass prints the same text: the relabelling step is the identity
    because `reset_variables` is idempotent (`RV.reset_idem`). -/
theorem tree_normal_form_vars {cfg : LexCfg} (u : UTables) (m : Model) (canon : Bool)
    (re : Option (List KeyFn × Bool)) (rE dE rA : Bool) (fmt : Fmt) (i : Indent) (c : Bool)
    (T : Tree) (g1 : Graph) (T1 : Tree) (N' : Node)
    (hin : processIn u m (varOpts canon re rE dE rA fmt i c) T = .ok g1)
    (hcf : configure m g1 none = .ok T1)
    (hnd : (rearrangeOpt m re T1).node.vars.Nodup)
    (hrv : (rearrangeOpt m re T1).node.resetVariables u.isAlpha u.lower fmt = .ok N')
    (hl : WfLayout u.isAlpha m N') (hnn : noNullN N' = true)
    (hwt : Spec.WfTreeText cfg N') (hwm : Spec.WfMeta u.isSpace T1.metadata)
    (hcanon : canonStep m canon ⟨N', T1.metadata⟩ = .ok ⟨N', T1.metadata⟩)
    (hfix : StagesFixed u.isAlpha m (varOpts canon re rE dE rA fmt i c) ⟨N', T1.metadata⟩)
    (hre : rearrangeOpt m re ⟨N', T1.metadata⟩ = ⟨N', T1.metadata⟩) :
    processTree u m (varOpts canon re rE dE rA fmt i c) T = .ok (format ⟨N', T1.metadata⟩ i c, 0) ∧
    Spec.WfTreeText cfg N' ∧ Spec.WfMeta u.isSpace T1.metadata ∧
    processTree u m (varOpts canon re rE dE rA fmt i c) ⟨N', T1.metadata⟩ =
      .ok (format ⟨N', T1.metadata⟩ i c, 0) := by
  refine ⟨processTree_vars u m canon re rE dE rA fmt i c T g1 T1 N' hin hcf hrv, hwt, hwm, ?_⟩
  obtain ⟨g', h1, h2⟩ := C02P.C02_layout u.isAlpha m ⟨N', T1.metadata⟩ hl (metaDict_of_wfMeta hwm)
  rw [C02P.dropNull_id _ hnn] at h2
  obtain ⟨hpy, _⟩ := interpret_pyGraph h1 (metaDict_of_wfMeta hwm)
  have hfix' : StagesFixed u.isAlpha m (stageOpts canon re rE dE rA i c) ⟨N', T1.metadata⟩ :=
    stagesFixed_congr (o := varOpts canon re rE dE rA fmt i c) (o' := stageOpts canon re rE dE rA i c) rfl rfl rfl hfix
  have hst := stages_idle hpy (hfix' g' h1)
  have hin2 : processIn u m (varOpts canon re rE dE rA fmt i c) ⟨N', T1.metadata⟩ = .ok g' := by
    rw [processIn_varOpts]
    exact processIn_stages u m canon re rE dE rA i c _ _ g' g' hcanon h1 hst
  have hidem := RV.reset_idem u.isAlpha u.lower fmt _ _ hnd hrv
  have := processTree_vars u m canon re rE dE rA fmt i c _ g' ⟨N', T1.metadata⟩ N' hin2 h2
    (by rw [hre]; exact hidem)
  exact this

end C20gen
end Penman

import Penman.Proofs.Configure17
import Penman.Generated
/-!
# C03 — any graph survives encode then decode with its content intact, from any top

Tree-level half of the property: `configure` (graph → tree) followed by `interpret`
(tree → graph). The text-level composition (`format`/`parse`, C01) is built on top of
`C03_tree` elsewhere.

Model functions: `Layout.configure`, `Layout.interpret`. Specification vocabulary:
`Penman/Spec/Encode.lean` (`WfGraph`, `deinvert1`, `TextOK`, `NoNum`), `Penman/Spec/Configure.lean`
(`Reach`, `PushVars`, `PushSrcOK`, `NoAlign`, `Node.edgeTriples`), `Penman/Spec/Reading.lean`,
`Penman/Spec/Role.lean` (`ModelWf`). Lemmas: `Penman/Proofs/Configure10…17.lean`
(on top of the C06 development `Configure1…9`, the C04 development and the role algebra C13).

Clause of the property text ↦ theorem(s)

* *"Any graph survives encode then decode … from any top"* ↦ `C03` (graph level: `configure` then
  `interpret`, for EVERY variable `t` of a connected well-formed graph, any epidata of layout
  markers) and `C03_tree` (the same about the configured tree itself, without `interpret`, numbers
  allowed).
* *"with its content intact"*: same top ↦ `g'.getTop = some t`; same variables ↦
  `∀ x, x ∈ g'.variables ↔ x ∈ g.variables` (so a target is a variable of `g'` iff it is one of
  `g`: edge/attribute status is preserved — `C03_edge_status`; a constant spelled like a variable
  counts as a reference on both sides, `Graph.isVar` is by name); same triples ↦
  `(g'.triples.map (deinvert1 m g)).Perm (g.triples.map (deinvert1 m g))`: equal as multisets once
  every triple whose role is inverted and whose target is a variable is deinverted once (which is
  the normal form decoding produces).
* *"Every triple is expressed exactly once: nothing is dropped (including constants equal to 0),
  duplicated, re-targeted, or changed between edge and attribute"* ↦ the permutation above is a
  multiset equality (nothing dropped, nothing duplicated); `C03_tree`'s last clause / `C03`'s last
  clause say each output triple is an input triple or its inversion (never re-targeted);
  `C03_zero_kept` (a `0` constant is an ordinary target); `C03_edge_status`.

Hypotheses (all decidable except connectivity), and why
* `ModelWf m`, `m.noop = false`: role algebra of C13; under the no-op model decoding never
  deinverts, so an edge written inverted comes back inverted (different statement).
* `WfGraph m g`: non-empty; every variable has a node label (a null label only alone, see below);
  roles start with `:`, contain no `~`, and are inversion-canonical
  (`m.canonInversion r = some r`, i.e. `r` is defined or `invertRole (invertRole r) = r` — boundary
  O2 "over-inverted roles"); variables contain no `~`; string targets read back as themselves
  (`TextOK`: no `~`, or a quoted string ending in its quote); `NoInstOf` (no `:instance-of`);
  `NoAlign` (epidata holds layout markers only — alignment text would be appended to role and
  target text and has to be split off again; the alignment-agnostic store→tree theorem is
  `configure_tree_written` in C06).
* `NoNum g` (graph level only): `interpret` is not defined on numeric atoms (a parsed tree
  carries numbers as text); `C03_tree` has no such restriction.
* `PushVars`, `PushSrcOK`: as in C06. Connectivity `Reach` from the chosen top: as in C06.

Nothing is left unproved in this file. No clause of the property was found false of the model.
Null node labels: `(v :instance None)` is dropped by `configure` (not written in the tree:
`C03_tree` compares with the non-null triples) and re-inserted by `interpret` for the label-less
node (`C03` compares with all triples); for this a null label must be the only label of its variable,
occur once, and be `None` rather than `""` (`WfGraph.nullNodup/nullAlone/instNotEmpty`).
-/
namespace Penman
open Cfg

/-- **C03, tree level.** The configured tree has the requested top, exactly one node per variable,
    and writes exactly the graph's triples: each one as it is or inverted once (towards a variable),
    none dropped, none duplicated. -/
theorem C03_tree {m : Model} {g : Graph} {top : Option Str} {t : Str} (hw : ModelWf m) (hg : WfGraph m g)
    (hpv : PushVars g) (hps : PushSrcOK g) (ht : topOf g top = some t) (htv : t ∈ g.variables)
    (hreach : ∀ v ∈ g.variables, Reach g t v) :
    ∃ T, configure m g top = .ok T ∧ T.metadata = g.metadata ∧ T.node.var = some t ∧
      (∀ x, x ∈ T.node.vars ↔ x ∈ g.variables) ∧ T.node.vars.Nodup ∧
      (T.node.edgeTriples.map (deinvert1 m g)).Perm
        ((g.triples.filter (fun x => !nullB x)).map (deinvert1 m g)) ∧
      ∀ x ∈ T.node.edgeTriples, ∃ t0 ∈ g.triples,
        x = t0 ∨ (x = m.invert t0 ∧ (∃ b, t0.tgt = .str b) ∧ t0.role ≠ CONCEPT_ROLE) :=
  Cfg.encode_tree hw hg hpv hps ht htv hreach

/-- **C03, graph level.** `interpret (configure g top)` has the same top, the same variables and the
    same triples (as a multiset, after one de-inversion) as `g`. -/
theorem C03 (isAlpha : Char → Bool) {m : Model} {g : Graph} {top : Option Str} {t : Str}
    (hw : ModelWf m) (hnoop : m.noop = false) (hg : WfGraph m g) (hnum : NoNum g)
    (hpv : PushVars g) (hps : PushSrcOK g) (ht : topOf g top = some t) (htv : t ∈ g.variables)
    (hreach : ∀ v ∈ g.variables, Reach g t v) :
    ∃ T g', configure m g top = .ok T ∧ interpret isAlpha m T = .ok g' ∧
      g'.getTop = some t ∧ (∀ x, x ∈ g'.variables ↔ x ∈ g.variables) ∧
      (g'.triples.map (deinvert1 m g)).Perm (g.triples.map (deinvert1 m g)) ∧
      (∀ x ∈ g'.triples, ∃ t0 ∈ g.triples, x = t0 ∨ x = m.invert t0) :=
  Cfg.encode_decode isAlpha hw hnoop hg hnum hpv hps ht htv hreach

/-- edge/attribute status: a target is a variable of the decoded graph iff it was one of `g` -/
theorem C03_edge_status {g g' : Graph} (h : ∀ x, x ∈ g'.variables ↔ x ∈ g.variables) (a : Atom) :
    g'.isVar a = g.isVar a := by
  cases a with
  | str s =>
    simp only [Graph.isVar]
    by_cases hs : s ∈ g.variables
    · simp [hs, (h s).2 hs]
    · have : s ∉ g'.variables := fun h' => hs ((h s).1 h')
      simp [hs, this]
  | none => rfl
  | num _ => rfl

/-- a constant equal to 0 is an ordinary target: `deinvert1` leaves the triple alone, so it occurs in
    the output exactly as often as in the input -/
theorem C03_zero_kept (m : Model) (g : Graph) (v r : Str) :
    deinvert1 m g ⟨v, r, .num "0".toList⟩ = ⟨v, r, .num "0".toList⟩ := by
  simp [deinvert1, Graph.isVar]

/-! ## non-vacuity -/

namespace C03Examples

def T (s r : String) (t : Atom) : Triple := ⟨s.toList, r.toList, t⟩
def S (s : String) : Atom := .str s.toList

/-- `(b / bark-01 :ARG0 (d :quant 0 :ARG1-of b :url "http://x/~u") :mod-of 7)` given as triples,
    with a re-entrancy, an inverted edge, an inverted attribute, a `~` inside a quoted string, a null
    node label, and stale layout markers (a `Push(b)` on a triple whose source is `b`, surplus `POP`s) -/
def g1 : Graph :=
  { triples := [T "b" ":instance" (S "bark-01"), T "b" ":ARG0" (S "d"), T "d" ":instance" .none,
                T "d" ":quant" (.num "0".toList), T "d" ":ARG1-of" (S "b"),
                T "d" ":url" (S "\"http://x/~u\""), T "b" ":mod-of" (S "7")],
    epidata := [(T "b" ":ARG0" (S "d"), [.push "b".toList, .pop]),
                (T "d" ":instance" .none, [.pop, .push "d".toList, .pop])] }

/-- the same without the number (for the graph-level theorem) -/
def g2 : Graph := { g1 with triples := g1.triples.filter (fun t => notNum t.tgt) }

example : ModelWf Generated.defaultModel := C13.modelWf_default
example : Generated.defaultModel.noop = false := by decide
example : WfGraph Generated.defaultModel g1 := by decide
example : WfGraph Generated.amrModel g1 := by decide +kernel
example : WfGraph Generated.defaultModel g2 := by decide
example : NoNum g2 := by decide
example : PushVars g1 ∧ PushSrcOK g1 ∧ PushVars g2 ∧ PushSrcOK g2 := by decide
example : g1.variables = ["b".toList, "d".toList] ∧ g2.variables = ["b".toList, "d".toList] := by decide

theorem g1_conn (t : Str) (ht : t ∈ g1.variables) : ∀ v ∈ g1.variables, Reach g1 t v := by
  have hv : g1.variables = ["b".toList, "d".toList] := by decide
  have a1 : Adj g1 "b".toList "d".toList :=
    ⟨T "b" ":ARG0" (S "d"), by decide, by decide, by decide, by decide, Or.inl ⟨rfl, rfl⟩⟩
  have a2 : Adj g1 "d".toList "b".toList :=
    ⟨T "b" ":ARG0" (S "d"), by decide, by decide, by decide, by decide, Or.inr ⟨rfl, rfl⟩⟩
  intro v hvm
  rw [hv] at ht hvm
  simp only [List.mem_cons, List.mem_nil_iff, or_false] at ht hvm
  rcases ht with rfl | rfl <;> rcases hvm with rfl | rfl
  · exact Reach.refl
  · exact Reach.step Reach.refl a1
  · exact Reach.step Reach.refl a2
  · exact Reach.refl

theorem g2_conn (t : Str) (ht : t ∈ g2.variables) : ∀ v ∈ g2.variables, Reach g2 t v := by
  have hv : g2.variables = ["b".toList, "d".toList] := by decide
  have a1 : Adj g2 "b".toList "d".toList :=
    ⟨T "b" ":ARG0" (S "d"), by decide, by decide, by decide, by decide, Or.inl ⟨rfl, rfl⟩⟩
  have a2 : Adj g2 "d".toList "b".toList :=
    ⟨T "b" ":ARG0" (S "d"), by decide, by decide, by decide, by decide, Or.inr ⟨rfl, rfl⟩⟩
  intro v hvm
  rw [hv] at ht hvm
  simp only [List.mem_cons, List.mem_nil_iff, or_false] at ht hvm
  rcases ht with rfl | rfl <;> rcases hvm with rfl | rfl
  · exact Reach.refl
  · exact Reach.step Reach.refl a1
  · exact Reach.step Reach.refl a2
  · exact Reach.refl

/-- `C03_tree` applies to `g1` from both tops (also under the AMR model) -/
example (t : Str) (ht : t ∈ g1.variables) :
    ∃ T, configure Generated.defaultModel g1 (some t) = .ok T ∧ T.node.var = some t ∧
      (T.node.edgeTriples.map (deinvert1 Generated.defaultModel g1)).Perm
        ((g1.triples.filter (fun x => !nullB x)).map (deinvert1 Generated.defaultModel g1)) := by
  obtain ⟨T, h1, _, h2, _, _, h3, _⟩ := C03_tree (top := some t) C13.modelWf_default (by decide) (by decide) (by decide)
    rfl ht (g1_conn t ht)
  exact ⟨T, h1, h2, h3⟩

/-- `C03` applies to `g2` from both tops -/
example (t : Str) (ht : t ∈ g2.variables) :
    ∃ T g', configure Generated.defaultModel g2 (some t) = .ok T ∧
      interpret isAsciiAlpha Generated.defaultModel T = .ok g' ∧ g'.getTop = some t ∧
      (g'.triples.map (deinvert1 Generated.defaultModel g2)).Perm
        (g2.triples.map (deinvert1 Generated.defaultModel g2)) := by
  obtain ⟨T, g', h1, h2, h3, _, h4, _⟩ := C03 isAsciiAlpha (top := some t) C13.modelWf_default (by decide) (by decide)
    (by decide) (by decide) (by decide) rfl ht (g2_conn t ht)
  exact ⟨T, g', h1, h2, h3, h4⟩

/-- the normal form: `(d :ARG1-of b)` and `(b :ARG1 d)` are the same relation -/
example : deinvert1 Generated.defaultModel g1 (T "d" ":ARG1-of" (S "b")) = T "b" ":ARG1" (S "d") := by decide
/-- an inverted role on a constant stays as written -/
example : deinvert1 Generated.defaultModel g1 (T "b" ":mod-of" (S "7")) = T "b" ":mod-of" (S "7") := by decide

/-- hypotheses that exclude something: a null label next to another label, `""` as label,
    an over-inverted role, `:instance-of` -/
example : WfGraph Generated.defaultModel { triples := [T "a" ":instance" .none] } := by decide
example : ¬ WfGraph Generated.defaultModel { triples := [T "a" ":instance" .none, T "a" ":instance" (S "x")] } := by
  decide
example : ¬ WfGraph Generated.defaultModel { triples := [T "a" ":instance" (S "")] } := by decide
example : ¬ WfGraph Generated.defaultModel
    { triples := [T "a" ":instance" (S "x"), T "b" ":instance" (S "y"), T "a" ":R-of-of" (S "b")] } := by decide
example : ¬ WfGraph Generated.defaultModel
    { triples := [T "a" ":instance" (S "x"), T "b" ":instance" (S "y"), T "a" ":instance-of" (S "b")] } := by decide

end C03Examples
end Penman

/-
  Penman.Proofs.NormalFormVarsTree — three properties of a tree are preserved by the
  shape-preserving renaming `renNode vm` performed by `reset_variables`:
  (d) `canonStep_ren_fixed`     — being a fixed point of role canonicalisation,
  (c) `rearrangeOpt_ren_fixed`  — being a fixed point of the `--rearrange` step
      (via `rearrange_ren`: `rearrange` commutes with the renaming),
  (b) `wfTreeText_ren`          — character-level grammar validity `Spec.WfTreeText`.
-/
import Penman.Proofs.ResetIso
import Penman.Proofs.Rearrange
import Penman.Proofs.TextWfLemmas
import Penman.Spec.NormalForm
namespace Penman.RV

/-! ### (d) canonicalisation -/

theorem bind_ok' {α β : Type} {x : Except PyErr α} {f : α → Except PyErr β} {b : β} :
    (x >>= f) = .ok b ↔ ∃ a, x = .ok a ∧ f a = .ok b := by
  cases x with
  | error e => simp [bind, Except.bind]
  | ok a => simp [bind, Except.bind]

mutual
theorem canonNode_ren_fixed (m : Model) (vm : AList Str Str) : ∀ (n : Node),
    canonNode m n = .ok n → canonNode m (renNode vm n) = .ok (renNode vm n)
  | .mk v bs, h => by
    rw [canonNode] at h
    obtain ⟨bs', hbs, h2⟩ := bind_ok'.1 h
    simp only [pure_eq, Except.ok.injEq, Node.mk.injEq, true_and] at h2
    rw [h2] at hbs
    rw [renNode, canonNode, canonBranches_ren_fixed m vm bs hbs]; rfl
theorem canonBranches_ren_fixed (m : Model) (vm : AList Str Str) : ∀ (bs : Branches),
    canonBranches m bs = .ok bs → canonBranches m (renBranches vm bs) = .ok (renBranches vm bs)
  | .nil, _ => by rw [renBranches, canonBranches]; rfl
  | .atom role a rest, h => by
    rw [canonBranches] at h
    obtain ⟨r', hr, h2⟩ := bind_ok'.1 h
    obtain ⟨rest', hrest, h3⟩ := bind_ok'.1 h2
    simp only [pure_eq, Except.ok.injEq, Branches.atom.injEq, true_and] at h3
    obtain ⟨e1, e2⟩ := h3
    rw [e1] at hr; rw [e2] at hrest
    rw [renBranches, canonBranches, hr, canonBranches_ren_fixed m vm rest hrest]; rfl
  | .sub role n rest, h => by
    rw [canonBranches] at h
    obtain ⟨r', hr, h2⟩ := bind_ok'.1 h
    obtain ⟨n', hn, h3⟩ := bind_ok'.1 h2
    obtain ⟨rest', hrest, h4⟩ := bind_ok'.1 h3
    simp only [pure_eq, Except.ok.injEq, Branches.sub.injEq] at h4
    obtain ⟨e1, e2, e3⟩ := h4
    rw [e1] at hr; rw [e2] at hn; rw [e3] at hrest
    rw [renBranches, canonBranches, hr, canonNode_ren_fixed m vm n hn,
      canonBranches_ren_fixed m vm rest hrest]; rfl
end

/-- a tree fixed by `--canonicalize-roles` stays fixed after `reset_variables` -/
theorem canonStep_ren_fixed (m : Model) (canon : Bool) (vm : AList Str Str) (n : Node)
    (md : AList Str Str) (h : canonStep m canon ⟨n, md⟩ = .ok ⟨n, md⟩) :
    canonStep m canon ⟨renNode vm n, md⟩ = .ok ⟨renNode vm n, md⟩ := by
  cases canon with
  | false => rfl
  | true =>
    simp only [canonStep, if_true, canonicalizeRoles] at h ⊢
    obtain ⟨n', hn, h2⟩ := bind_ok'.1 h
    simp only [pure_eq, Except.ok.injEq, Tree.mk.injEq, and_true] at h2
    rw [h2] at hn
    rw [canonNode_ren_fixed m vm n hn]; rfl

/-! ## (c) rearrangement -/

/-! ### renaming of branch lists -/

def renTgt (vm : AList Str Str) (r : Str) : Tgt → Tgt
  | .atom a => .atom (renAtom vm r a)
  | .node n => .node (renNode vm n)

def renBranch (vm : AList Str Str) (b : Branch) : Branch := (b.1, renTgt vm b.1 b.2)

theorem ofList_map_renBranch (vm : AList Str Str) : ∀ (l : List Branch),
    Branches.ofList (l.map (renBranch vm)) = renBranches vm (Branches.ofList l)
  | [] => by simp [Branches.ofList, renBranches]
  | (r, .atom a) :: rest => by
    simp [Branches.ofList, renBranches, renBranch, renTgt, ofList_map_renBranch vm rest]
  | (r, .node n) :: rest => by
    simp [Branches.ofList, renBranches, renBranch, renTgt, ofList_map_renBranch vm rest]

/-- the attributes-first flag of a branch is invariant under the renaming -/
def KeyInv (vm : AList Str Str) (vars vars' : List Str) (b : Branch) : Prop :=
  branchTargetInVars vars' (renBranch vm b).2 = branchTargetInVars vars b.2

theorem branchKey_ren {m : Model} {vm : AList Str Str} {vars vars' : List Str}
    {key : Option (List KeyFn)} {b : Branch} (h : KeyInv vm vars vars' b) :
    branchKey m vars' key (renBranch vm b) = branchKey m vars key b := by
  have h' : branchTargetInVars vars' (renBranch vm b).2 = branchTargetInVars vars b.2 := h
  simp only [branchKey, h']; rfl

theorem sortBranches_ren (m : Model) (vm : AList Str Str) (vars vars' : List Str)
    (key : Option (List KeyFn)) (l : List Branch) (h : ∀ b ∈ l, KeyInv vm vars vars' b) :
    sortBranches m vars' key (l.map (renBranch vm)) =
      (sortBranches m vars key l).map (renBranch vm) := by
  simp only [sortBranches]
  symm
  apply List.map_mergeSort
  intro a ha b hb
  rw [branchKey_ren (h a ha), branchKey_ren (h b hb)]

/-! ### `/` only as the role of a first branch -/

mutual
/-- no branch but possibly a first atomic one has the role `/` -/
def slashFirstN : Node → Bool
  | .mk _ .nil => true
  | .mk _ (.atom _ _ rest) => noSlashB rest
  | .mk _ (.sub r n rest) => decide (r ≠ ['/']) && slashFirstN n && noSlashB rest
def noSlashB : Branches → Bool
  | .nil => true
  | .atom r _ rest => decide (r ≠ ['/']) && noSlashB rest
  | .sub r n rest => decide (r ≠ ['/']) && slashFirstN n && noSlashB rest
end

theorem wf_roleOk_ne_slash {isAlpha : Char → Bool} {m : Model} {r : Str}
    (h : Penman.roleOk isAlpha m r = true) : r ≠ ['/'] := by
  intro e
  subst e
  simp [Penman.roleOk, processRole_concept] at h

mutual
theorem slashFirstN_of_wf (isAlpha : Char → Bool) (m : Model) : ∀ (n : Node),
    Penman.wfNodeB isAlpha m n = true → slashFirstN n = true
  | .mk none bs, h => by simp [Penman.wfNodeB] at h
  | .mk (some var) .nil, _ => by simp [slashFirstN]
  | .mk (some var) (.atom r a rest), h => by
    simp only [Penman.wfNodeB] at h
    simp only [slashFirstN]
    split at h
    · simp only [Bool.and_eq_true] at h
      exact noSlashB_of_wf isAlpha m var rest h.2
    · simp only [Penman.wfBranchesB, Bool.and_eq_true] at h
      exact noSlashB_of_wf isAlpha m var rest h.2
  | .mk (some var) (.sub r n rest), h => by
    simp only [Penman.wfNodeB, Penman.wfBranchesB, Bool.and_eq_true] at h
    simp only [slashFirstN, Bool.and_eq_true, decide_eq_true_eq]
    exact ⟨⟨wf_roleOk_ne_slash h.1.1, slashFirstN_of_wf isAlpha m n h.1.2⟩,
      noSlashB_of_wf isAlpha m var rest h.2⟩
theorem noSlashB_of_wf (isAlpha : Char → Bool) (m : Model) (var : Str) : ∀ (bs : Branches),
    Penman.wfBranchesB isAlpha m var bs = true → noSlashB bs = true
  | .nil, _ => by simp [noSlashB]
  | .atom r a rest, h => by
    simp only [Penman.wfBranchesB, Bool.and_eq_true] at h
    simp only [noSlashB, Bool.and_eq_true, decide_eq_true_eq]
    exact ⟨wf_roleOk_ne_slash h.1.1.1, noSlashB_of_wf isAlpha m var rest h.2⟩
  | .sub r n rest, h => by
    simp only [Penman.wfBranchesB, Bool.and_eq_true] at h
    simp only [noSlashB, Bool.and_eq_true, decide_eq_true_eq]
    exact ⟨⟨wf_roleOk_ne_slash h.1.1, slashFirstN_of_wf isAlpha m n h.1.2⟩,
      noSlashB_of_wf isAlpha m var rest h.2⟩
end

/-! ### the commutation, for abstract variable lists -/

section Comm
set_option linter.unusedSectionVars false
variable (m : Model) (vm : AList Str Str) (vars vars' news : List Str) (key : Option (List KeyFn))
  (HA : ∀ r s, r ≠ ['/'] → (AList.contains vm (alnStem s) = false → alnStem s ∉ news) →
    branchTargetInVars vars' (.atom (renAtom vm r (.str s))) = branchTargetInVars vars (.atom (.str s)))
  (HN : ∀ v, v ∈ AList.keys vm → (renVar vm v ∈ vars' ↔ v ∈ vars))

include HA in
theorem keyInv_atom {r : Str} {a : Atom} (hr : r ≠ ['/'])
    (hok : (decide (r = ['/']) ||
      match a with
      | .str s => if AList.contains vm (alnStem s) then roleOk m r else decide (alnStem s ∉ news)
      | _ => true) = true) :
    KeyInv vm vars vars' (r, .atom a) := by
  simp only [KeyInv, renBranch, renTgt]
  cases a with
  | none => rfl
  | num t => rfl
  | str s =>
    apply HA r s hr
    intro hc
    simpa [hr, hc] using hok

include HN in
theorem keyInv_node {r : Str} {n : Node} (hmp : nodeMappable vm n = true) :
    KeyInv vm vars vars' (r, .node (rearrangeNode m vars key n)) := by
  simp only [KeyInv, renBranch, renTgt, branchTargetInVars, renNode_var, RA.rearrangeNode_var]
  cases n with
  | mk v bs =>
    cases v with
    | none => simp [nodeMappable] at hmp
    | some x =>
      simp only [nodeMappable, Bool.and_eq_true] at hmp
      have := HN x (contains_iff_mem_keys.1 hmp.1)
      simp only [Node.var, Option.map_some]
      by_cases hx : x ∈ vars
      · simp [hx, this.2 hx]
      · have : ¬ renVar vm x ∈ vars' := fun h => hx (this.1 h)
        simp [hx, this]

include HA HN

theorem kids_keyInv : ∀ (bs : Branches), branchesMappable vm bs = true →
    branchesIsoOk m vm news bs = true → noSlashB bs = true →
    ∀ b ∈ rearrangeKids m vars key bs, KeyInv vm vars vars' b
  | .nil, _, _, _ => by simp [rearrangeKids]
  | .atom r a rest, hmp, hok, hs => by
    simp only [branchesMappable] at hmp
    simp only [branchesIsoOk, Bool.and_eq_true] at hok
    simp only [noSlashB, Bool.and_eq_true, decide_eq_true_eq] at hs
    intro b hb
    simp only [rearrangeKids, List.mem_cons] at hb
    rcases hb with rfl | hb
    · exact keyInv_atom m vm vars vars' news HA hs.1 hok.1
    · exact kids_keyInv rest hmp hok.2 hs.2 b hb
  | .sub r n rest, hmp, hok, hs => by
    simp only [branchesMappable, Bool.and_eq_true] at hmp
    simp only [branchesIsoOk, Bool.and_eq_true] at hok
    simp only [noSlashB, Bool.and_eq_true] at hs
    intro b hb
    simp only [rearrangeKids, List.mem_cons] at hb
    rcases hb with rfl | hb
    · exact keyInv_node m vm vars vars' key HN hmp.1
    · exact kids_keyInv rest hmp.2 hok.2 hs.2 b hb

mutual
theorem rearrangeNode_ren : ∀ (n : Node), nodeMappable vm n = true →
    nodeIsoOk m vm news n = true → slashFirstN n = true →
    rearrangeNode m vars' key (renNode vm n) = renNode vm (rearrangeNode m vars key n)
  | .mk v .nil, _, _, _ => by simp [renNode, renBranches, rearrangeNode]
  | .mk v (.atom r a rest), hmp, hok, hs => by
    simp only [nodeMappable, branchesMappable, Bool.and_eq_true] at hmp
    simp only [nodeIsoOk, branchesIsoOk, Bool.and_eq_true] at hok
    simp only [slashFirstN] at hs
    have ih := rearrangeKids_ren rest hmp.2 hok.2 hs
    have hk := kids_keyInv m vm vars vars' news key HA HN rest hmp.2 hok.2 hs
    simp only [renNode, renBranches, rearrangeNode, ih]
    by_cases hr : r = ['/']
    · simp only [hr, if_true, renNode, renBranches]
      rw [sortBranches_ren m vm vars vars' key _ hk, ofList_map_renBranch]
    · simp only [hr, if_false, renNode]
      have e : (r, Tgt.atom (renAtom vm r a)) = renBranch vm (r, .atom a) := rfl
      rw [e, ← List.map_cons, sortBranches_ren m vm vars vars' key _ ?_, ofList_map_renBranch]
      intro b hb
      rcases List.mem_cons.1 hb with rfl | hb
      · exact keyInv_atom m vm vars vars' news HA hr hok.1
      · exact hk b hb
  | .mk v (.sub r n rest), hmp, hok, hs => by
    simp only [nodeMappable, branchesMappable, Bool.and_eq_true] at hmp
    simp only [nodeIsoOk, branchesIsoOk, Bool.and_eq_true, decide_eq_true_eq] at hok
    simp only [slashFirstN, Bool.and_eq_true, decide_eq_true_eq] at hs
    have ih1 := rearrangeNode_ren n hmp.2.1 hok.1.2 hs.1.2
    have ih := rearrangeKids_ren rest hmp.2.2 hok.2 hs.2
    have hk := kids_keyInv m vm vars vars' news key HA HN rest hmp.2.2 hok.2 hs.2
    have hr : r ≠ ['/'] := hs.1.1
    simp only [renNode, renBranches, rearrangeNode, ih, ih1, hr, if_false]
    have e : (r, Tgt.node (renNode vm (rearrangeNode m vars key n))) =
        renBranch vm (r, .node (rearrangeNode m vars key n)) := rfl
    rw [e, ← List.map_cons, sortBranches_ren m vm vars vars' key _ ?_, ofList_map_renBranch]
    intro b hb
    rcases List.mem_cons.1 hb with rfl | hb
    · exact keyInv_node m vm vars vars' key HN hmp.2.1
    · exact hk b hb
theorem rearrangeKids_ren : ∀ (bs : Branches), branchesMappable vm bs = true →
    branchesIsoOk m vm news bs = true → noSlashB bs = true →
    rearrangeKids m vars' key (renBranches vm bs) =
      (rearrangeKids m vars key bs).map (renBranch vm)
  | .nil, _, _, _ => by simp [renBranches, rearrangeKids]
  | .atom r a rest, hmp, hok, hs => by
    simp only [branchesMappable] at hmp
    simp only [branchesIsoOk, Bool.and_eq_true] at hok
    simp only [noSlashB, Bool.and_eq_true] at hs
    simp only [renBranches, rearrangeKids, List.map_cons, rearrangeKids_ren rest hmp hok.2 hs.2]
    rfl
  | .sub r n rest, hmp, hok, hs => by
    simp only [branchesMappable, Bool.and_eq_true] at hmp
    simp only [branchesIsoOk, Bool.and_eq_true] at hok
    simp only [noSlashB, Bool.and_eq_true] at hs
    simp only [renBranches, rearrangeKids, List.map_cons, rearrangeKids_ren rest hmp.2 hok.2 hs.2,
      rearrangeNode_ren n hmp.1 hok.1.2 hs.1.2]
    rfl
end

end Comm

/-! ### the two instances: no attribute ordering, and the variables of the tree -/

theorem HA_nil (vm : AList Str Str) (news : List Str) :
    ∀ r s, r ≠ ['/'] → (AList.contains vm (alnStem s) = false → alnStem s ∉ news) →
      branchTargetInVars [] (.atom (renAtom vm r (.str s))) = branchTargetInVars [] (.atom (.str s)) := by
  intro r s _ _
  rw [RA.branchTargetInVars_nil, RA.branchTargetInVars_nil]

theorem alnStem_of_no_tilde {s : Str} (h : '~' ∉ s) : alnStem s = s := by
  simp [alnStem, partition_tilde_none s h]

theorem HA_vars {vm : AList Str Str} {vars : List Str} (hv : VmOk vm vars)
    (hkt : ∀ k ∈ AList.keys vm, '~' ∉ k) :
    ∀ r s, r ≠ ['/'] →
      (AList.contains vm (alnStem s) = false → alnStem s ∉ vars.map (renVar vm)) →
      branchTargetInVars (vars.map (renVar vm)) (.atom (renAtom vm r (.str s))) =
        branchTargetInVars vars (.atom (.str s)) := by
  intro r s hr hc
  have hsp := partition_tilde_spec s
  cases hg : AList.get? vm (alnStem s) with
  | some nv =>
    have hkey : alnStem s ∈ AList.keys vm := get?_isSome_iff.1 (by simp [hg])
    rw [renAtom_ref hr hg]
    simp only [branchTargetInVars]
    rcases alnSuffix_shape s with he | ⟨rest, he⟩
    · have hs : s = alnStem s := by simpa [he] using hsp.1
      have h1 : s ∈ vars := by rw [hs]; exact (hv.keys _).2 hkey
      have h2 : nv ∈ vars.map (renVar vm) := (mem_news hv).2 ⟨_, hg⟩
      simp [he, h1, h2]
    · have h1 : s ∉ vars := by
        intro h
        have := hkt s ((hv.keys _).1 h)
        rw [hsp.1, he] at this
        simp at this
      have h2 : nv ++ alnSuffix s ∉ vars.map (renVar vm) := by
        intro h
        obtain ⟨k, hk⟩ := (mem_news hv).1 h
        have := (hv.newsOk _ _ hk).1
        rw [he] at this
        simp at this
      simp [h1, h2]
  | none =>
    have hkey : alnStem s ∉ AList.keys vm := get?_eq_none_iff.1 hg
    have hc' : AList.contains vm (alnStem s) = false := by
      cases h : AList.contains vm (alnStem s) with
      | false => rfl
      | true => exact absurd (contains_iff_mem_keys.1 h) hkey
    rw [renAtom_other hg]
    simp only [branchTargetInVars]
    have h1 : s ∉ vars := by
      intro h
      have hk := (hv.keys _).1 h
      rw [alnStem_of_no_tilde (hkt s hk)] at hkey
      exact hkey hk
    have h2 : s ∉ vars.map (renVar vm) := by
      intro h
      obtain ⟨k, hk⟩ := (mem_news hv).1 h
      have := hc hc'
      rw [alnStem_of_no_tilde (hv.newsOk _ _ hk).1] at this
      exact this h
    simp [h1, h2]

theorem HN_nil (vm : AList Str Str) : ∀ v, v ∈ AList.keys vm → (renVar vm v ∈ ([] : List Str) ↔ v ∈ ([] : List Str)) := by
  intro v _; simp

theorem HN_vars {vm : AList Str Str} {vars : List Str} (hv : VmOk vm vars) :
    ∀ v, v ∈ AList.keys vm → (renVar vm v ∈ vars.map (renVar vm) ↔ v ∈ vars) := by
  intro v hk
  have h1 : v ∈ vars := (hv.keys v).2 hk
  exact ⟨fun _ => h1, fun _ => List.mem_map.2 ⟨v, h1, rfl⟩⟩

/-- `rearrange` commutes with the renaming of `reset_variables` -/
theorem rearrange_ren (isAlpha : Char → Bool) (m : Model) (key : Option (List KeyFn)) (af : Bool)
    (vm : AList Str Str) (n : Node) (md : AList Str Str) (hv : VmOk vm n.vars)
    (hmp : nodeMappable vm n = true)
    (hok : nodeIsoOk m vm (n.vars.map (renVar vm)) n = true)
    (hwf : Penman.wfNodeB isAlpha m n = true)
    (hkt : ∀ k ∈ AList.keys vm, '~' ∉ k) :
    rearrange m key af ⟨renNode vm n, md⟩ =
      ⟨renNode vm (rearrange m key af ⟨n, md⟩).node, md⟩ := by
  have hs := slashFirstN_of_wf isAlpha m n hwf
  simp only [rearrange, renNode_vars]
  cases af with
  | false =>
    simp only [Bool.false_eq_true, if_false]
    rw [rearrangeNode_ren m vm [] [] (n.vars.map (renVar vm)) key (HA_nil vm _) (HN_nil vm) n hmp hok hs]
  | true =>
    simp only [if_true]
    rw [rearrangeNode_ren m vm n.vars (n.vars.map (renVar vm)) (n.vars.map (renVar vm)) key
      (HA_vars hv hkt) (HN_vars hv) n hmp hok hs]

/-- (c) a tree fixed by the `--rearrange` step stays fixed after `reset_variables` -/
theorem rearrangeOpt_ren_fixed (isAlpha : Char → Bool) (m : Model) (re : Option (List KeyFn × Bool))
    (vm : AList Str Str) (n : Node) (md : AList Str Str) (hv : VmOk vm n.vars)
    (hmp : nodeMappable vm n = true)
    (hok : nodeIsoOk m vm (n.vars.map (renVar vm)) n = true)
    (hwf : Penman.wfNodeB isAlpha m n = true)
    (hkt : ∀ k ∈ AList.keys vm, '~' ∉ k)
    (h : rearrangeOpt m re ⟨n, md⟩ = ⟨n, md⟩) :
    rearrangeOpt m re ⟨renNode vm n, md⟩ = ⟨renNode vm n, md⟩ := by
  cases re with
  | none => rfl
  | some p =>
    obtain ⟨ks, af⟩ := p
    simp only [rearrangeOpt] at h ⊢
    rw [rearrange_ren isAlpha m (some ks) af vm n md hv hmp hok hwf hkt, h]

/-! ## (b) grammar validity -/
section TextWf
open Penman.Spec

variable {cfg : LexCfg}

theorem tilde_not_in_symbol' (hcfg : FmtCfgWf cfg = true) {s : Str} (h : symbolB cfg s = true) :
    '~' ∉ s := by
  have h1 := ((FL.symbolB_iff s).1 h).1.2
  intro hm
  exact h1 _ hm (FL.tilde_ends (FL.FmtCfgWf.toP hcfg)).1

theorem alnSuffix_of_no_tilde {s : Str} (h : '~' ∉ s) : alnSuffix s = [] := by
  simp [alnSuffix, partition_tilde_none s h]

theorem alnSuffix_append {q rest : Str} (h : '~' ∉ q) : alnSuffix (q ++ '~' :: rest) = '~' :: rest := by
  simp [alnSuffix, partition_tilde_append q rest h]

theorem alnStem_append {q rest : Str} (h : '~' ∉ q) : alnStem (q ++ '~' :: rest) = q := by
  simp [alnStem, partition_tilde_append q rest h]

/-- an atom text whose stem is renamed stays an atom text -/
theorem atomTextB_ren (hcfg : FmtCfgWf cfg = true) (vm : AList Str Str)
    (hnew : ∀ k nv, AList.get? vm k = some nv → symbolB cfg nv = true)
    (hq : ∀ k ∈ AList.keys vm, k.head? ≠ some '"') {s nv : Str}
    (hg : AList.get? vm (alnStem s) = some nv) (h : atomTextB cfg s = true) :
    atomTextB cfg (nv ++ alnSuffix s) = true := by
  have hP := FL.FmtCfgWf.toP hcfg
  have hkey : alnStem s ∈ AList.keys vm := get?_isSome_iff.1 (by simp [hg])
  have hnv : symbolB cfg nv = true := hnew _ _ hg
  obtain ⟨m0, a, hs, hm, ha⟩ := (FL.alignedB_iff _ s).1 h
  have hsp := partition_tilde_spec s
  apply (FL.alignedB_iff _ _).2
  simp only [Bool.or_eq_true] at hm
  rcases hm with hm | hm
  · have hnt : '~' ∉ m0 := tilde_not_in_symbol' hcfg hm
    rcases ha with rfl | ha
    · have hs' : s = m0 := by simpa using hs
      have : alnSuffix s = [] := alnSuffix_of_no_tilde (hs' ▸ hnt)
      exact ⟨nv, [], by simp [this], by simp [hnv], Or.inl rfl⟩
    · obtain ⟨pre, ds, tail, ea, -⟩ := ((FL.alignmentB_iff hP.base a).1 ha).1
      have ea' : a = '~' :: (pre ++ ds ++ tail) := by simp [ea]
      have : alnSuffix s = a := by
        rw [hs, ea', alnSuffix_append hnt]
      exact ⟨nv, a, by rw [this], by simp [hnv], Or.inr ha⟩
  · exfalso
    obtain ⟨body, hb, -⟩ := ((FL.stringB_iff hP.base m0).1 hm).1
    have hhead : s.head? = some '"' := by rw [hs, hb]; rfl
    have hk := hq _ hkey
    cases hst : alnStem s with
    | nil =>
      have e : s = alnSuffix s := by simpa [hst] using hsp.1
      rcases alnSuffix_shape s with h0 | ⟨rest, h0⟩
      · rw [e, h0] at hhead; simp at hhead
      · rw [e, h0] at hhead; simp at hhead
    | cons c t =>
      have e := hsp.1
      rw [hst] at e hk
      rw [e] at hhead
      simp only [List.cons_append, List.head?_cons] at hhead hk
      exact hk hhead

theorem atomB_ren (hcfg : FmtCfgWf cfg = true) (vm : AList Str Str)
    (hnew : ∀ k nv, AList.get? vm k = some nv → symbolB cfg nv = true)
    (hq : ∀ k ∈ AList.keys vm, k.head? ≠ some '"') (r : Str) (a : Atom)
    (h : atomB cfg a = true) : atomB cfg (renAtom vm r a) = true := by
  cases a with
  | none => exact h
  | num t => exact h
  | str s =>
    by_cases hr : r = ['/']
    · subst hr; rw [renAtom_concept]; exact h
    · cases hg : AList.get? vm (alnStem s) with
      | none => rw [renAtom_other hg]; exact h
      | some nv =>
        rw [renAtom_ref hr hg]
        exact atomTextB_ren hcfg vm hnew hq hg h

theorem symbolB_renVar (vm : AList Str Str)
    (hnew : ∀ k nv, AList.get? vm k = some nv → symbolB cfg nv = true) {v : Str}
    (h : symbolB cfg v = true) : symbolB cfg (renVar vm v) = true := by
  cases hg : AList.get? vm v with
  | none => rw [renVar_of_not_key (get?_eq_none_iff.1 hg)]; exact h
  | some nv => rw [renVar_of_get? hg]; exact hnew _ _ hg

section
variable (hcfg : FmtCfgWf cfg = true) (vm : AList Str Str)
  (hnew : ∀ k nv, AList.get? vm k = some nv → symbolB cfg nv = true)
  (hq : ∀ k ∈ AList.keys vm, k.head? ≠ some '"')
include hcfg hnew hq
set_option linter.unusedSectionVars false

mutual
theorem wfNodeB_ren : ∀ (n : Node), Spec.wfNodeB cfg n = true → Spec.wfNodeB cfg (renNode vm n) = true
  | .mk none bs, h => by
    cases bs with
    | nil => simp [renNode, renBranches, Spec.wfNodeB]
    | atom r a rest => simp [Spec.wfNodeB] at h
    | sub r n rest => simp [Spec.wfNodeB] at h
  | .mk (some v) bs, h => by
    simp only [Spec.wfNodeB, Bool.and_eq_true] at h
    simp only [renNode, Option.map_some, Spec.wfNodeB, Bool.and_eq_true]
    exact ⟨symbolB_renVar vm hnew h.1, wfTopB_ren bs h.2⟩
theorem wfTopB_ren : ∀ (bs : Branches), wfTopB cfg bs = true → wfTopB cfg (renBranches vm bs) = true
  | .nil, _ => by simp [renBranches, wfTopB]
  | .atom r a rest, h => by
    simp only [wfTopB, Bool.and_eq_true] at h
    simp only [renBranches, wfTopB, Bool.and_eq_true]
    refine ⟨?_, wfEdgesB_ren rest h.2⟩
    have h1 := h.1
    split at h1
    · rename_i hr; rw [if_pos hr]; exact atomB_ren hcfg vm hnew hq r a h1
    · rename_i hr
      rw [if_neg hr]
      simp only [Bool.and_eq_true] at h1 ⊢
      exact ⟨h1.1, atomB_ren hcfg vm hnew hq r a h1.2⟩
  | .sub r n rest, h => by
    simp only [wfTopB, Bool.and_eq_true] at h
    simp only [renBranches, wfTopB, Bool.and_eq_true]
    exact ⟨⟨h.1.1, wfNodeB_ren n h.1.2⟩, wfEdgesB_ren rest h.2⟩
theorem wfEdgesB_ren : ∀ (bs : Branches), wfEdgesB cfg bs = true → wfEdgesB cfg (renBranches vm bs) = true
  | .nil, _ => by simp [renBranches, wfEdgesB]
  | .atom r a rest, h => by
    simp only [wfEdgesB, Bool.and_eq_true] at h
    simp only [renBranches, wfEdgesB, Bool.and_eq_true]
    exact ⟨⟨h.1.1, atomB_ren hcfg vm hnew hq r a h.1.2⟩, wfEdgesB_ren rest h.2⟩
  | .sub r n rest, h => by
    simp only [wfEdgesB, Bool.and_eq_true] at h
    simp only [renBranches, wfEdgesB, Bool.and_eq_true]
    exact ⟨⟨h.1.1, wfNodeB_ren n h.1.2⟩, wfEdgesB_ren rest h.2⟩
end

end

/-- (b) grammar validity is preserved by `reset_variables` -/
theorem wfTreeText_ren {cfg : LexCfg} (hcfg : Spec.FmtCfgWf cfg = true) (vm : AList Str Str) (n : Node)
    (hnew : ∀ k nv, AList.get? vm k = some nv → Spec.symbolB cfg nv = true)
    (hq : ∀ k ∈ AList.keys vm, k.head? ≠ some '"')
    (h : Spec.WfTreeText cfg n) : Spec.WfTreeText cfg (renNode vm n) :=
  wfNodeB_ren hcfg vm hnew hq n h

end TextWf

end Penman.RV

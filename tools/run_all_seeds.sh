#!/bin/sh
# run every seeded change against the real ./check of its property, on a scratch worktree of
# /repo (PENMAN_REPO), never on /repo itself; one line per seed: caught / caught(no-input) / MISSED
W=${1:-/tmp/seedrun}
V=$(cd "$(dirname "$0")/.." && pwd)
cd $V
OUT=$(mktemp /tmp/check_out.XXXXXX)
[ -d $W ] || git -C /repo worktree add -q --detach $W HEAD
for d in ${SEEDS:-seeded/*/}; do
  NAME=$(basename $d)
  P=$(python3 -c "import json;print(json.load(open('$d/meta.json'))['property'])")
  git -C $W checkout -q -- .
  git -C $W apply $V/$d/patch.diff || { echo "$NAME [$P]: patch does not apply"; continue; }
  PENMAN_REPO=$W ./check $P > $OUT 2>&1
  RC=$?
  git -C $W checkout -q -- .
  if grep -q "^VIOLATION property=$P .*no-failing-input-found" $OUT; then R="caught (no failing input found)";
  elif grep -q "^VIOLATION property=$P" $OUT; then R="caught with a failing input";
  else R="MISSED"; fi
  echo "$NAME [$P]: exit=$RC $R"
done
PENMAN_REPO=/repo /venv/bin/python tools/gen_tables.py >/dev/null
rm -f $OUT

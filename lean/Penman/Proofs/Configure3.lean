/-
  Penman.Proofs.Configure3 — `configure` as a pipeline; the loop preserves the
  forest invariant; `configure` never raises anything but a layout error.
-/
import Penman.Proofs.Configure2
namespace Penman
namespace Cfg

theorem configure_eq (m : Model) (g : Graph) (top : Option Str) : configure m g top =
    if g.triples.isEmpty then .ok { node := .mk g.getTop .nil, metadata := g.metadata } else
    match topOf g top with
    | none => .error (.layout 0)
    | some t => if t ∉ g.variables then .error (.layout 0) else
      (storeOf m g t).bind fun st2 =>
        (buildNode st2.cells (2 * st2.cells.length + 2) t).bind fun node =>
          .ok { node := node, metadata := g.metadata } := by
  unfold configure topOf storeOf st0
  split
  · rfl
  · cases top with
    | some t =>
      simp only []
      split
      · rfl
      · cases preconfigure m g.epidata g.triples [] <;> rfl
    | none =>
      simp only []
      cases g.getTop with
      | none => rfl
      | some t =>
        simp only []
        split
        · rfl
        · cases preconfigure m g.epidata g.triples [] <;> rfl


/-! ### invariants along the loop -/

theorem good_round {m : Model} {a b} (h : Round m a b) (hg : Good a.2.2) : Good b.2.2 ∧ Ext a.2.2 b.2.2 := by
  cases h with
  | @skip data skipped st sk v st1 tr push epis rest hfn ho =>
    have := good_findNext data [] st hg
    rw [hfn] at this
    exact ⟨this.1, this.2.1⟩
  | @prog data skipped st sk v st1 tr push epis rest hfn ho =>
    have := good_findNext data [] st hg
    rw [hfn] at this
    obtain ⟨g1, e1, o1⟩ := this
    obtain ⟨g2, e2⟩ := good_cn m (rest.length + 2) v (.t tr push epis :: rest) st1 false g1 (o1 v rfl)
    exact ⟨g2, e1.trans e2⟩

theorem good_loop (m : Model) : ∀ fuel data skipped st st', Good st →
    configureLoop m fuel data skipped st = .ok st' → Good st' ∧ Ext st st' := by
  intro fuel
  induction fuel with
  | zero => intro data skipped st st' _ h; simp [configureLoop] at h
  | succ fuel ih =>
    intro data skipped st st' hg h
    cases data with
    | nil =>
      simp only [configureLoop] at h
      split at h
      · simp only [Except.ok.injEq] at h; subst h; exact ⟨hg, Ext.refl _⟩
      · simp at h
    | cons d data =>
      rcases loop_cases m d data skipped st with ⟨_, e⟩ | ⟨nx, hr, e⟩
      · rw [e] at h; simp at h
      · rw [e] at h
        obtain ⟨g1, e1⟩ := good_round hr hg
        obtain ⟨g2, e2⟩ := ih _ _ _ _ g1 h
        exact ⟨g2, e1.trans e2⟩

theorem get?_map_const {l : List Str} {x y : NM} {k : Str} (h : AList.get? (l.map (·, x)) k = some y) : y = x := by
  have := mem_of_get? h
  simp only [List.mem_map, Prod.mk.injEq] at this
  obtain ⟨_, _, _, h⟩ := this
  exact h.symm

theorem good_st0 (g : Graph) (top : Str) : Good (st0 g top) ∧ Own (st0 g top) top := by
  have hown : ∀ k, Own (st0 g top) k ↔ k = top := by
    intro k
    unfold Own st0
    by_cases e : k = top
    · subst e; simp [get?_set_same]
    · simp only [get?_set_other _ _ _ _ e, e, iff_false]
      intro h
      have := get?_map_const h
      simp at this
  refine ⟨⟨?_, ?_, ?_⟩, (hown top).2 rfl⟩
  · intro k; rw [hown]; simp [st0, ckeys, AList.keys]
  · intro v u h
    exfalso
    unfold st0 at h
    by_cases e : v = top
    · subst e; simp [get?_set_same] at h
    · simp only [get?_set_other _ _ _ _ e] at h
      have := get?_map_const h
      simp at this
  · intro p hp e he
    simp [st0] at hp
    subst hp
    simp at he

/-! ### errors of the pieces -/

theorem preconfEpis_err (m : Model) (orig : Triple) : ∀ es tr push epis pops pushed e,
    preconfEpis m orig es tr push epis pops pushed = .error e → ∃ w, e = .unmodelled w := by
  intro es tr push epis pops pushed
  fun_induction preconfEpis m orig es tr push epis pops pushed <;> intro e h
  all_goals first
    | (simp at h; done)
    | (rename_i ih; exact ih e h)
    | (simp only [Except.error.injEq] at h; exact ⟨_, h.symm⟩)

theorem preconfigure_err (m : Model) (ep : Epidata) : ∀ ts pushed e,
    preconfigure m ep ts pushed = .error e → ∃ w, e = .unmodelled w := by
  intro ts
  induction ts with
  | nil => intro pushed e h; simp [preconfigure] at h
  | cons t ts ih =>
    intro pushed e h
    simp only [preconfigure] at h
    cases h1 : preconfEpis m t ((AList.get? ep t).getD []) t false [] 0 pushed with
    | error e1 =>
      rw [h1] at h
      simp only [bind, Except.bind] at h
      simp only [Except.error.injEq] at h
      subst h
      exact preconfEpis_err _ _ _ _ _ _ _ _ _ h1
    | ok r =>
      obtain ⟨tr', push, epis, pops, pushed'⟩ := r
      rw [h1] at h
      simp only [bind, Except.bind] at h
      cases h2 : preconfigure m ep ts pushed' with
      | error e2 =>
        rw [h2] at h
        simp only [Except.error.injEq] at h
        subst h
        exact ih _ _ h2
      | ok more =>
        rw [h2] at h
        simp [pure, Except.pure] at h

/-- the loop raises only `layout 1` or `layout 3` when its fuel exceeds the measure -/
theorem loop_err (m : Model) : ∀ fuel data skipped st e, psi data skipped < fuel →
    configureLoop m fuel data skipped st = .error e → e = .layout 1 ∨ e = .layout 3 := by
  intro fuel
  induction fuel with
  | zero => intro data skipped st e h; omega
  | succ fuel ih =>
    intro data skipped st e hpsi h
    cases data with
    | nil =>
      simp only [configureLoop] at h
      split at h
      · simp at h
      · simp only [Except.error.injEq] at h; exact Or.inr h.symm
    | cons d data =>
      rcases loop_cases m d data skipped st with ⟨_, e1⟩ | ⟨nx, hr, e1⟩
      · rw [e1] at h; simp only [Except.error.injEq] at h; exact Or.inl h.symm
      · rw [e1] at h
        have := round_psi hr
        exact ih _ _ _ _ (by simp only [] at this; omega) h

theorem psi_start (data : List Datum) (n : Nat) (h : data.length ≤ n) :
    psi (stripPops data) [] < (n + 1) * (n + 1) + 1 := by
  have h1 := stripPops_length_le data
  have h2 : (stripPops data).length ≤ n := by omega
  have h3 := Nat.mul_le_mul h2 h2
  simp only [psi, List.length_nil, Nat.add_zero]
  have : (n + 1) * (n + 1) = n * n + 2 * n + 1 := by
    simp [Nat.add_mul, Nat.mul_add]; omega
  omega

/-- errors of the store computation -/
theorem storeOf_err {m : Model} {g : Graph} {top : Str} {e : PyErr} (h : storeOf m g top = .error e) :
    e = .layout 1 ∨ e = .layout 3 ∨ ∃ w, e = .unmodelled w := by
  unfold storeOf at h
  cases hp : preconfigure m g.epidata g.triples [] with
  | error e1 =>
    rw [hp] at h
    simp only [Except.bind, Except.error.injEq] at h
    subst h
    exact Or.inr (Or.inr (preconfigure_err _ _ _ _ _ hp))
  | ok data =>
    rw [hp] at h
    simp only [Except.bind] at h
    rcases loop_err m _ _ _ _ _ (psi_start _ data.length (cn_length_le _ _ _ _ _ _)) h with h | h
    · exact Or.inl h
    · exact Or.inr (Or.inl h)

/-- the store `configure` builds is a forest -/
theorem storeOf_good {m : Model} {g : Graph} {top : Str} {st : St} (h : storeOf m g top = .ok st) : Good st := by
  unfold storeOf at h
  cases hp : preconfigure m g.epidata g.triples [] with
  | error e1 => rw [hp] at h; simp [Except.bind] at h
  | ok data =>
    rw [hp] at h
    simp only [Except.bind] at h
    obtain ⟨g0, o0⟩ := good_st0 g top
    obtain ⟨g1, _⟩ := good_cn m (data.length + 1) top data (st0 g top) false g0 o0
    exact (good_loop m _ _ _ _ _ g1 h).1


/-- complete case analysis of `configure` (with the `buildNode` fuel discharged) -/
theorem configure_cases (m : Model) (g : Graph) (top : Option Str) :
    (g.triples.isEmpty = true ∧ configure m g top = .ok { node := .mk g.getTop .nil, metadata := g.metadata }) ∨
    (g.triples.isEmpty = false ∧ (∀ t, topOf g top = some t → t ∉ g.variables) ∧
        configure m g top = .error (.layout 0)) ∨
    (∃ t, g.triples.isEmpty = false ∧ topOf g top = some t ∧ t ∈ g.variables ∧
      ((∃ e, storeOf m g t = .error e ∧ configure m g top = .error e) ∨
       (∃ st node, storeOf m g t = .ok st ∧ Good st ∧ buildNode st.cells (2 * st.cells.length + 2) t = .ok node ∧
          configure m g top = .ok { node := node, metadata := g.metadata }))) := by
  rw [configure_eq]
  cases hE : g.triples.isEmpty with
  | true => left; simp
  | false =>
    right
    simp only [Bool.false_eq_true, if_false]
    cases hT : topOf g top with
    | none => left; simp
    | some t =>
      simp only []
      by_cases hv : t ∈ g.variables
      · right
        refine ⟨t, trivial, rfl, hv, ?_⟩
        simp only [hv, not_true_eq_false, if_false]
        cases hS : storeOf m g t with
        | error e => left; exact ⟨e, rfl, rfl⟩
        | ok st =>
          right
          have hg := storeOf_good hS
          obtain ⟨node, hn⟩ := buildNode_ok hg.forest t
          exact ⟨st, node, rfl, hg, hn, by simp [Except.bind, hn]⟩
      · left
        refine ⟨trivial, ?_, by simp [hv]⟩
        intro t' ht'; simp only [Option.some.injEq] at ht'; subst ht'; exact hv

/-- 1. `configure` never raises anything but a layout error (or leaves the modelled domain) -/
theorem configure_no_other (m : Model) (g : Graph) (top : Option Str) :
    (∃ T, configure m g top = .ok T) ∨ (∃ k, configure m g top = .error (.layout k)) ∨
    (∃ w, configure m g top = .error (.unmodelled w)) := by
  rcases configure_cases m g top with ⟨_, h⟩ | ⟨_, _, h⟩ | ⟨t, _, _, _, ⟨e, hs, h⟩ | ⟨st, node, _, _, _, h⟩⟩
  · exact Or.inl ⟨_, h⟩
  · exact Or.inr (Or.inl ⟨_, h⟩)
  · rcases storeOf_err hs with rfl | rfl | ⟨w, rfl⟩
    · exact Or.inr (Or.inl ⟨_, h⟩)
    · exact Or.inr (Or.inl ⟨_, h⟩)
    · exact Or.inr (Or.inr ⟨_, h⟩)
  · exact Or.inl ⟨_, h⟩

theorem configure_ne_other (m : Model) (g : Graph) (top : Option Str) (s : String) :
    configure m g top ≠ .error (.other s) := by
  rcases configure_no_other m g top with ⟨T, h⟩ | ⟨k, h⟩ | ⟨w, h⟩ <;> rw [h] <;> simp

/-- 3. which error: only kinds 0, 1, 3; kind 0 exactly for a missing / non-variable top -/
theorem configure_error_kind (m : Model) (g : Graph) (top : Option Str) (e : PyErr)
    (h : configure m g top = .error e) :
    e = .layout 0 ∨ e = .layout 1 ∨ e = .layout 3 ∨ ∃ w, e = .unmodelled w := by
  rcases configure_cases m g top with ⟨_, h'⟩ | ⟨_, _, h'⟩ | ⟨t, _, _, _, ⟨e', hs, h'⟩ | ⟨st, node, _, _, _, h'⟩⟩
  · rw [h'] at h; simp at h
  · rw [h'] at h; simp only [Except.error.injEq] at h; exact Or.inl h.symm
  · rw [h'] at h; simp only [Except.error.injEq] at h; subst h
    exact Or.inr (storeOf_err hs)
  · rw [h'] at h; simp at h

theorem configure_layout0_iff (m : Model) (g : Graph) (top : Option Str) :
    configure m g top = .error (.layout 0) ↔
      (g.triples.isEmpty = false ∧ ∀ t, topOf g top = some t → t ∉ g.variables) := by
  rcases configure_cases m g top with ⟨he, h'⟩ | ⟨he, ht, h'⟩ | ⟨t, he, ht, hv, ⟨e', hs, h'⟩ | ⟨st, node, _, _, _, h'⟩⟩
  · rw [h']; simp [he]
  · rw [h']; simp [he]; exact ht
  · rw [h']
    constructor
    · intro h; simp only [Except.error.injEq] at h; subst h
      rcases storeOf_err hs with h | h | ⟨w, h⟩ <;> simp at h
    · intro ⟨_, h⟩; exact absurd hv (h t ht)
  · rw [h']
    constructor
    · intro h; simp at h
    · intro ⟨_, h⟩; exact absurd hv (h t ht)

end Cfg

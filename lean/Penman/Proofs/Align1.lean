/-
  Penman.Proofs.Align1 — `configure` with alignment markers: every edge of the
  final store carries exactly the non-layout markers of the graph triple it
  expresses (as it is, or inverted).  Same chain of invariants as `Plain` in
  Configure14, with the marker lists tracked instead of required empty.
-/
import Penman.Proofs.Configure16
import Penman.Spec.AlignOK
namespace Penman
namespace Cfg
namespace Al
open Penman.Spec.Reading

/-- the non-layout markers of a marker list, in order -/
def alnEpis (es : List Epi) : List Epi := es.filter fun e => !e.isLayout

/-- a pending datum: some graph triple, possibly inverted by `_preconfigure`, with that triple's alignments -/
def DatOK (m : Model) (g : Graph) (tr : Triple) (es : List Epi) : Prop :=
  ∃ t1 ∈ g.triples, PreStep m t1 tr ∧ es = alnEpis (episOf g t1)

/-- an edge of the store: some graph triple, through `_preconfigure` and the orientation step, with that
    triple's alignments -/
def EdgeOK (m : Model) (g : Graph) (v : Str) (e : Edge) : Prop :=
  e.role ≠ CONCEPT_ROLE ∧ ∃ t1 ∈ g.triples, ∃ tr, PreStep m t1 tr ∧ e.epis = alnEpis (episOf g t1) ∧
    (Cfg.denote v e = tr ∨ ∃ w, tr.tgt = .str w ∧ tr.role ≠ CONCEPT_ROLE ∧ Cfg.denote v e = m.invert tr)

def CellsOK (m : Model) (g : Graph) (c : Cells) : Prop := ∀ p ∈ c, ∀ e ∈ p.2, EdgeOK m g p.1 e
def DataOK (m : Model) (g : Graph) (l : List Datum) : Prop :=
  ∀ tr p es, Datum.t tr p es ∈ l → DatOK m g tr es ∧ RoleOK m tr

variable {m : Model} {g : Graph}

theorem cellsOK_set {c : Cells} {k : Str} {es : List Edge} (h : CellsOK m g c) (hes : ∀ e ∈ es, EdgeOK m g k e) :
    CellsOK m g (AList.set c k es) := by
  intro p hp e he
  rcases mem_set hp with h1 | h1
  · exact h p h1 e he
  · subst h1; exact hes e he

theorem cellsOK_cell {st : St} (h : CellsOK m g st.cells) {v : Str} {e : Edge} (he : e ∈ st.cell v) : EdgeOK m g v e := by
  obtain ⟨es, h1, h2⟩ := cell_mem he
  exact h _ h1 e h2

theorem cellsOK_addBack {st : St} {var : Str} {e : Edge} (h : CellsOK m g st.cells) (he : EdgeOK m g var e) :
    CellsOK m g (st.addBack var e).cells := by
  apply cellsOK_set h
  intro x hx
  simp only [List.mem_append, List.mem_singleton] at hx
  rcases hx with hx | rfl
  · exact cellsOK_cell h hx
  · exact he

theorem cellsOK_addFront {st : St} {var : Str} {e : Edge} (h : CellsOK m g st.cells) (he : EdgeOK m g var e) :
    CellsOK m g (st.addFront var e).cells := by
  apply cellsOK_set h
  intro x hx
  simp only [List.mem_cons] at hx
  rcases hx with rfl | hx
  · exact he
  · exact cellsOK_cell h hx

theorem edgeOK_establish {u v : Str} {e : Edge} (h : EdgeOK m g u e) (ht : e.tgt = .atom (.str v)) :
    EdgeOK m g u { e with tgt := .node v } := by
  obtain ⟨h1, t1, ht1, tr, hp, hep, hd⟩ := h
  refine ⟨h1, t1, ht1, tr, hp, hep, ?_⟩
  have : Cfg.denote u { e with tgt := .node v } = Cfg.denote u e := by simp [Cfg.denote, ht]
  rw [this]; exact hd

theorem establishIn_ok {u v : Str} : ∀ {es : List Edge}, (∀ e ∈ es, EdgeOK m g u e) →
    ∀ e ∈ establishIn v es, EdgeOK m g u e := by
  intro es
  induction es with
  | nil => intro _ e he; simp [establishIn] at he
  | cons a r ih =>
    intro h e he
    simp only [establishIn] at he
    split at he
    · rename_i hc
      simp only [List.mem_cons] at he
      rcases he with rfl | he
      · exact edgeOK_establish (h a List.mem_cons_self) hc.1
      · exact h e (List.mem_cons_of_mem _ he)
    · simp only [List.mem_cons] at he
      rcases he with rfl | he
      · exact h _ List.mem_cons_self
      · exact ih (fun x hx => h x (List.mem_cons_of_mem _ hx)) e he

theorem cellsOK_getOrEstablish {st : St} {v : Str} (h : CellsOK m g st.cells) :
    CellsOK m g (getOrEstablish st v).2.cells := by
  unfold getOrEstablish
  split
  · exact h
  · simp only []
    apply cellsOK_set
    · apply cellsOK_set h
      exact establishIn_ok (fun e he => cellsOK_cell h he)
    · intro e he; simp at he
  · exact h

theorem cellsOK_findNext : ∀ data rev st, CellsOK m g st.cells → CellsOK m g (findNext data rev st).2.2.2.cells := by
  intro data rev st
  fun_induction findNext data rev st <;> intro h
  · exact h
  · exact h
  · rename_i ih; exact ih h
  · rename_i tr push epis rest rev st d trySrc h1
    simp only [trySrc]; split
    · exact cellsOK_getOrEstablish h
    · exact h
  · rename_i tr push epis rest rev st d trySrc h1 tv htv tryTgt h2
    have hT : CellsOK m g trySrc.2.cells := by
      simp only [trySrc]; split
      · exact cellsOK_getOrEstablish h
      · exact h
    simp only [tryTgt]; split
    · exact cellsOK_getOrEstablish hT
    · exact hT
  · rename_i tr push epis rest rev st d trySrc h1 tv htv tryTgt h2 ih
    have hT : CellsOK m g trySrc.2.cells := by
      simp only [trySrc]; split
      · exact cellsOK_getOrEstablish h
      · exact h
    have hU : CellsOK m g tryTgt.2.cells := by
      simp only [tryTgt]; split
      · exact cellsOK_getOrEstablish hT
      · exact hT
    exact ih hU
  · rename_i tr push epis rest rev st d trySrc h1 hnt ih
    have hT : CellsOK m g trySrc.2.cells := by
      simp only [trySrc]; split
      · exact cellsOK_getOrEstablish h
      · exact h
    exact ih hT

theorem cellsOK_cn (m : Model) (g : Graph) : ∀ f var data st s, CellsOK m g st.cells → DataOK m g data →
    CellsOK m g (configureNode m f var data st s).2.1.cells := by
  intro f
  induction f with
  | zero => intro var data st s h _; exact h
  | succ f ih =>
    intro var data st s h hd
    cases data with
    | nil => exact h
    | cons d data =>
      cases d with
      | pop => exact h
      | t tr push epis =>
        have hd' : DataOK m g data := fun tr p es hm => hd tr p es (List.mem_cons_of_mem _ hm)
        obtain ⟨⟨t1, ht1, hpre, hep⟩, hrole⟩ := hd tr push epis List.mem_cons_self
        simp only [configureNode]
        split
        · exact h
        · rename_i role target push' s' hor
          obtain ⟨hns, hden⟩ := orient_spec hor hrole
          split
          · rename_i hcr
            split
            · exact ih _ _ _ _ h hd'
            · refine ih _ _ _ _ (cellsOK_addFront h ⟨by show ['/'] ≠ CONCEPT_ROLE; decide, t1, ht1, tr, hpre, hep, ?_⟩) hd'
              have : Cfg.denote var ⟨['/'], .atom target, epis⟩ = ⟨var, role, target⟩ := by
                simp [Cfg.denote, hcr]
              rw [this]
              rcases hden with h1 | ⟨w, h1, h2, h3⟩
              · exact Or.inl h1
              · exact Or.inr ⟨w, h1, h2, h3⟩
          · rename_i hncr
            split
            · rename_i v hp
              obtain ⟨htv, _⟩ := pushVar_some hp
              have h1 : CellsOK m g (st.newCell v).cells := cellsOK_set h (fun e he => by simp at he)
              have h2 := ih v data (st.newCell v) false h1 hd'
              have hd2 : DataOK m g (configureNode m f v data (st.newCell v) false).1 :=
                fun tr p es hm => hd' tr p es ((cn_suffix m f v data (st.newCell v) false).subset hm)
              refine ih _ _ _ _ (cellsOK_addBack h2 ⟨hncr, t1, ht1, tr, hpre, hep, ?_⟩) hd2
              have : Cfg.denote var ⟨role, .node v, epis⟩ = ⟨var, role, target⟩ := by
                simp [Cfg.denote, hns, htv]
              rw [this]
              rcases hden with h1 | ⟨w, h1, h2, h3⟩
              · exact Or.inl h1
              · exact Or.inr ⟨w, h1, h2, h3⟩
            · have h1 : CellsOK m g (st.noteSite var target).cells := by rw [cells_noteSite]; exact h
              refine ih _ _ _ _ (cellsOK_addBack h1 ⟨hncr, t1, ht1, tr, hpre, hep, ?_⟩) hd'
              have : Cfg.denote var ⟨role, .atom target, epis⟩ = ⟨var, role, target⟩ := by
                simp [Cfg.denote, hns]
              rw [this]
              rcases hden with h1 | ⟨w, h1, h2, h3⟩
              · exact Or.inl h1
              · exact Or.inr ⟨w, h1, h2, h3⟩

theorem cellsOK_round {a b} (h : Round m a b) (hp : CellsOK m g a.2.2.cells)
    (hd : DataOK m g a.1) (hs : DataOK m g a.2.1) :
    CellsOK m g b.2.2.cells ∧ DataOK m g b.1 ∧ DataOK m g b.2.1 := by
  cases h with
  | @skip data skipped st sk v st1 tr push epis rest hfn ho =>
    obtain ⟨hcat, _⟩ := findNext_some _ _ _ hfn
    simp only [List.reverse_nil, List.nil_append] at hcat
    have := cellsOK_findNext (m := m) (g := g) data [] st hp
    rw [hfn] at this
    refine ⟨this, ?_, ?_⟩
    · intro tr' p es hm
      apply hd tr' p es; rw [← hcat]
      exact List.mem_append_right _ (List.mem_cons_of_mem _ ((stripPops_suffix rest).subset hm))
    · intro tr' p es hm
      simp only [List.mem_append, List.mem_singleton] at hm
      rcases hm with (hm | hm) | hm
      · apply hd tr' p es; rw [← hcat]; exact List.mem_append_left _ hm
      · exact hs tr' p es hm
      · apply hd tr' p es; rw [← hcat, hm]; simp
  | @prog data skipped st sk v st1 tr push epis rest hfn ho =>
    obtain ⟨hcat, _⟩ := findNext_some _ _ _ hfn
    simp only [List.reverse_nil, List.nil_append] at hcat
    have h1 := cellsOK_findNext (m := m) (g := g) data [] st hp
    rw [hfn] at h1
    have hd1 : DataOK m g (.t tr push epis :: rest) := by
      intro tr' p es hm; apply hd tr' p es; rw [← hcat]; exact List.mem_append_right _ hm
    refine ⟨cellsOK_cn m g _ v _ st1 false h1 hd1, ?_, fun _ _ _ hm => by simp at hm⟩
    intro tr' p es hm
    have := (stripPops_suffix _).subset hm
    simp only [List.mem_append] at this
    rcases this with h | h | h
    · exact hd1 tr' p es ((cn_suffix _ _ _ _ _ _).subset h)
    · apply hd tr' p es; rw [← hcat]; exact List.mem_append_left _ h
    · exact hs tr' p es h

theorem cellsOK_loop (m : Model) (g : Graph) : ∀ fuel data skipped st st', CellsOK m g st.cells → DataOK m g data →
    DataOK m g skipped → configureLoop m fuel data skipped st = .ok st' → CellsOK m g st'.cells := by
  intro fuel
  induction fuel with
  | zero => intro data skipped st st' _ _ _ h; simp [configureLoop] at h
  | succ fuel ih =>
    intro data skipped st st' hp hd hs h
    cases data with
    | nil =>
      simp only [configureLoop] at h
      split at h
      · simp only [Except.ok.injEq] at h; subst h; exact hp
      · simp at h
    | cons d data =>
      rcases loop_cases m d data skipped st with ⟨_, e⟩ | ⟨nx, hround, e⟩
      · rw [e] at h; simp at h
      · rw [e] at h
        obtain ⟨p1, d1, s1⟩ := cellsOK_round hround hp hd hs
        exact ih _ _ _ _ p1 d1 s1 h

/-- the marker scan keeps the non-layout markers, in order -/
theorem preconfEpis_epis (m : Model) (orig : Triple) : ∀ es tr push epis pops pushed r,
    preconfEpis m orig es tr push epis pops pushed = .ok r → r.2.2.1 = epis.reverse ++ alnEpis es := by
  intro es tr push epis pops pushed
  fun_induction preconfEpis m orig es tr push epis pops pushed <;> intro r h
  · simp only [Except.ok.injEq] at h; subst h; simp [alnEpis]
  · rename_i ih; rw [ih r h]; simp [alnEpis, Epi.isLayout]
  · rename_i ih; rw [ih r h]; simp [alnEpis, Epi.isLayout]
  · rename_i ih; rw [ih r h]; simp [alnEpis, Epi.isLayout]
  · simp at h
  · rename_i ih; rw [ih r h]; simp [alnEpis, Epi.isLayout]
  · rename_i ih; rw [ih r h]; simp [alnEpis, Epi.isLayout]
  · rename_i e rest tr push epis pops pushed hnpush hnpop ih
    rw [ih r h]
    have hl : e.isLayout = false := by
      cases e with
      | push v => exact absurd rfl (hnpush v)
      | pop => exact absurd rfl hnpop
      | roleAln _ _ => rfl
      | aln _ _ => rfl
    simp [alnEpis, hl]

theorem preconfigure_dataOK (m : Model) (g : Graph) (hr : ∀ t ∈ g.triples, RoleOK2 m t) : ∀ ts pushed data,
    (∀ t ∈ ts, t ∈ g.triples) → preconfigure m g.epidata ts pushed = .ok data → DataOK m g data := by
  intro ts
  induction ts with
  | nil => intro pushed data _ h; simp [preconfigure] at h; subst h; intro _ _ _ hm; simp at hm
  | cons t ts ih =>
    intro pushed data hts h
    simp only [preconfigure] at h
    cases h1 : preconfEpis m t ((AList.get? g.epidata t).getD []) t false [] 0 pushed with
    | error e1 => rw [h1] at h; simp [bind, Except.bind] at h
    | ok r =>
      obtain ⟨tr', push, epis, pops, pushed'⟩ := r
      rw [h1] at h
      simp only [bind, Except.bind] at h
      cases h2 : preconfigure m g.epidata ts pushed' with
      | error e2 => rw [h2] at h; simp at h
      | ok more =>
        rw [h2] at h
        simp only [pure, Except.pure, Except.ok.injEq] at h
        subst h
        have hp := preconfEpis_epis m t _ _ _ _ _ _ _ h1
        have hs := preconfEpis_spec m t _ _ _ _ _ _ _ (Or.inl rfl) h1
        simp only [List.reverse_nil, List.nil_append] at hp
        intro tr p es hm
        simp only [List.mem_cons, List.mem_append, List.mem_replicate, Datum.t.injEq] at hm
        rcases hm with (⟨rfl, _, rfl⟩ | ⟨_, hm⟩) | hm
        · exact ⟨⟨t, hts t List.mem_cons_self, hs, hp⟩, roleOK_of_pre hs (hr t (hts t List.mem_cons_self))⟩
        · exact absurd hm (by simp)
        · exact ih _ _ (fun t ht => hts t (List.mem_cons_of_mem _ ht)) h2 tr p es hm

/-- every edge of the final store carries the alignments of the graph triple it expresses -/
theorem storeOf_cellsOK {m : Model} {g : Graph} {top : Str} {st : St} (hr : ∀ t ∈ g.triples, RoleOK2 m t)
    (h : storeOf m g top = .ok st) : CellsOK m g st.cells := by
  unfold storeOf at h
  cases hp : preconfigure m g.epidata g.triples [] with
  | error e1 => rw [hp] at h; simp [Except.bind] at h
  | ok data =>
    rw [hp] at h
    simp only [Except.bind] at h
    have hd := preconfigure_dataOK m g hr _ _ _ (fun _ ht => ht) hp
    have h0 : CellsOK m g (st0 g top).cells := by
      intro p hp e he; simp [st0] at hp; subst hp; simp at he
    have h1 := cellsOK_cn m g (data.length + 1) top data (st0 g top) false h0 hd
    have hd1 : DataOK m g (stripPops (configureNode m (data.length + 1) top data (st0 g top) false).1) :=
      fun tr p es hm => hd tr p es ((cn_suffix _ _ _ _ _ _).subset ((stripPops_suffix _).subset hm))
    exact cellsOK_loop m g _ _ _ _ _ h1 hd1 (fun _ _ _ hm => by simp at hm) h

end Al
end Cfg
end Penman
